import TomlVerif.Model.Tree
/-! # Pre-order enumeration of a document tree (specification side of C20)

`preorder t` lists every node of the decoded tree `t` once, parents before children, children in
the order the tree holds them (which is the order `toml_edit` keeps: insertion order of the keys of a
table, element order of arrays and arrays of tables). It is written directly over the tree with
`flatMap`; it does not mention visitors, hooks, items or `TableLike`.

`ints` / `skeleton` split a tree into its integer payloads (in the same order) and everything else. -/
namespace TomlVerif.Spec.Preorder
open TomlVerif TomlVerif.Model

/-- the kinds of node the property speaks about -/
inductive Node where
  /-- a key/value pair of a table or of an inline table (the decoded key) -/
  | pair (k : Bytes)
  | str (s : Bytes)
  | int (n : Int)
  | float (bits : Nat)
  | bool (b : Bool)
  | dt (d : Datetime.Datetime)
  | array
  | inlineTable
  /-- a table: the root, a `[header]` table, an implicit or dotted table, or one element of an array of tables -/
  | table
  | arrayOfTables
deriving Repr, DecidableEq

/-! The recursion goes through `flatMap`/`map` over the children lists, so termination is by `sizeOf`. -/
theorem sizeOf_snd_lt_of_mem {α β} [SizeOf α] [SizeOf β] (kv : α × β) (l : List (α × β)) (h : kv ∈ l) :
    sizeOf kv.2 < sizeOf l := by
  have := List.sizeOf_lt_of_mem h
  cases kv; simp at *; omega

macro "tree_decreasing" : tactic => `(tactic|
  all_goals (simp_wf <;> first
    | omega
    | (have := List.sizeOf_lt_of_mem ‹_ ∈ _›; omega)
    | (have := sizeOf_snd_lt_of_mem _ _ ‹_ ∈ _›; omega)))

def preVal : Val → List Node
  | .str s => [.str s]
  | .int n => [.int n]
  | .float b => [.float b]
  | .bool b => [.bool b]
  | .dt d => [.dt d]
  | .arr vs => .array :: vs.flatMap preVal
  | .inl kvs _ _ => .inlineTable :: kvs.flatMap fun kv => .pair kv.1 :: preVal kv.2
termination_by x => sizeOf x
decreasing_by tree_decreasing

mutual
def preItem : Item → List Node
  | .value v => preVal v
  | .table t => preTbl t
  | .aot ts => .arrayOfTables :: ts.flatMap preTbl
termination_by x => sizeOf x
decreasing_by tree_decreasing
def preTbl : Tbl → List Node
  | .mk items _ _ _ => .table :: items.flatMap fun kv => .pair kv.1 :: preItem kv.2
termination_by x => sizeOf x
decreasing_by tree_decreasing
end

/-- every node of the document, in document (tree) order -/
def preorder (t : Tbl) : List Node := preTbl t

/-! ## integers and everything else -/

def intsVal : Val → List Int
  | .int n => [n]
  | .arr vs => vs.flatMap intsVal
  | .inl kvs _ _ => kvs.flatMap fun kv => intsVal kv.2
  | _ => []
termination_by x => sizeOf x
decreasing_by tree_decreasing

mutual
def intsItem : Item → List Int
  | .value v => intsVal v
  | .table t => intsTbl t
  | .aot ts => ts.flatMap intsTbl
termination_by x => sizeOf x
decreasing_by tree_decreasing
def intsTbl : Tbl → List Int
  | .mk items _ _ _ => items.flatMap fun kv => intsItem kv.2
termination_by x => sizeOf x
decreasing_by tree_decreasing
end

/-- the integers of a document in document order -/
def ints (t : Tbl) : List Int := intsTbl t

def skelVal : Val → Val
  | .int _ => .int 0
  | .arr vs => .arr (vs.map skelVal)
  | .inl kvs i d => .inl (kvs.map fun kv => (kv.1, skelVal kv.2)) i d
  | v => v
termination_by x => sizeOf x
decreasing_by tree_decreasing

mutual
def skelItem : Item → Item
  | .value v => .value (skelVal v)
  | .table t => .table (skelTbl t)
  | .aot ts => .aot (ts.map skelTbl)
termination_by x => sizeOf x
decreasing_by tree_decreasing
def skelTbl : Tbl → Tbl
  | .mk items i d p => .mk (items.map fun kv => (kv.1, skelItem kv.2)) i d p
termination_by x => sizeOf x
decreasing_by tree_decreasing
end

/-- the document with every integer payload erased (set to 0): keys, order, shapes, flags, positions
    and every non-integer scalar remain -/
def skeleton (t : Tbl) : Tbl := skelTbl t

end TomlVerif.Spec.Preorder
