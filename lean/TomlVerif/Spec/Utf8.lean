import TomlVerif.Basic
/-! UTF-8 (Unicode Table 3-7): scalar values, encoding, validity of a byte string. -/
namespace TomlVerif.Spec.Utf8

def isScalar (cp : Nat) : Bool := cp < 0xD800 || (0xE000 ≤ cp && cp < 0x110000)

def encode (cp : Nat) : Bytes :=
  if cp < 0x80 then [UInt8.ofNat cp]
  else if cp < 0x800 then [UInt8.ofNat (0xC0 + cp / 64), UInt8.ofNat (0x80 + cp % 64)]
  else if cp < 0x10000 then
    [UInt8.ofNat (0xE0 + cp / 4096), UInt8.ofNat (0x80 + cp / 64 % 64), UInt8.ofNat (0x80 + cp % 64)]
  else
    [UInt8.ofNat (0xF0 + cp / 262144), UInt8.ofNat (0x80 + cp / 4096 % 64),
     UInt8.ofNat (0x80 + cp / 64 % 64), UInt8.ofNat (0x80 + cp % 64)]

def isCont (b : Byte) : Bool := 0x80 ≤ b && b ≤ 0xBF

/-- Well-formed UTF-8 byte sequences, Unicode Table 3-7. Structural on the list. -/
def valid : Bytes → Bool
  | [] => true
  | b0 :: rest =>
    if b0 < 0x80 then valid rest
    else if 0xC2 ≤ b0 && b0 ≤ 0xDF then
      match rest with
      | b1 :: r => isCont b1 && valid r
      | _ => false
    else if 0xE0 ≤ b0 && b0 ≤ 0xEF then
      match rest with
      | b1 :: b2 :: r =>
        (if b0 == 0xE0 then 0xA0 ≤ b1 && b1 ≤ 0xBF
         else if b0 == 0xED then 0x80 ≤ b1 && b1 ≤ 0x9F
         else isCont b1) && isCont b2 && valid r
      | _ => false
    else if 0xF0 ≤ b0 && b0 ≤ 0xF4 then
      match rest with
      | b1 :: b2 :: b3 :: r =>
        (if b0 == 0xF0 then 0x90 ≤ b1 && b1 ≤ 0xBF
         else if b0 == 0xF4 then 0x80 ≤ b1 && b1 ≤ 0x8F
         else isCont b1) && isCont b2 && isCont b3 && valid r
      | _ => false
    else false

/-- `i` is a character boundary of `s` (Rust's `str::is_char_boundary`): 0, |s|, or a non-continuation byte. -/
def isBoundary (s : Bytes) (i : Nat) : Bool :=
  i == 0 || i == s.length || (match s[i]? with | some b => !isCont b | none => false)

end TomlVerif.Spec.Utf8
