import TomlVerif.Model.Tree
/-! Plain data (what `toml::Table` holds) with a configurable table order.

    * `bytesLt`, `sortByKey` — the order of the default map (`BTreeMap<String, Value>`: keys compared
      as byte strings, lexicographically) as a total insertion sort. `bytesLt` is the same function as
      `Driver.bytesLt` (Driver/Canon.lean); `sortByKey` replaces the driver's `qsort`.
    * `Plain`, `toPlain` — the decoded tree without the `toml_edit` flags and positions: tables,
      inline tables → `tbl`; arrays, arrays of tables → `arr`.
    * `sortPlain` — every table sorted, recursively: the iteration order of the default build.
    * `PermEquiv` — same tree up to the order of table entries at every level.
    * `MapOrder`, `iterOrder`, `orderPlain` — the one configuration parameter `preserve_order` switches.

    Everything here is total (structural recursion), so it can be reasoned about. -/
namespace TomlVerif.Spec.OrderedPlain
open TomlVerif TomlVerif.Model

/-- lexicographic order on byte strings (`str::cmp`, which `BTreeMap<String, _>` uses) -/
def bytesLt : Bytes → Bytes → Bool
  | [], [] => false
  | [], _ :: _ => true
  | _ :: _, [] => false
  | a :: r, b :: s => if a < b then true else if b < a then false else bytesLt r s

/-- insert before the first entry whose key is not smaller (stable) -/
def insertByKey {α} (x : Bytes × α) : List (Bytes × α) → List (Bytes × α)
  | [] => [x]
  | y :: r => if bytesLt y.1 x.1 then y :: insertByKey x r else x :: y :: r

/-- insertion sort by key -/
def sortByKey {α} : List (Bytes × α) → List (Bytes × α)
  | [] => []
  | x :: r => insertByKey x (sortByKey r)

/-- the keys of an association list are pairwise distinct -/
def KeysDistinct {α} (l : List (Bytes × α)) : Prop := l.Pairwise fun a b => a.1 ≠ b.1

/-- keys strictly increasing -/
def StrictSorted {α} (l : List (Bytes × α)) : Prop := l.Pairwise fun a b => bytesLt a.1 b.1 = true

/-- keys non-decreasing -/
def WeakSorted {α} (l : List (Bytes × α)) : Prop := l.Pairwise fun a b => bytesLt b.1 a.1 = false

/-- scalar payloads (the leaves of `Val`) -/
inductive Leaf where
  | str (s : Bytes)
  | int (n : Int)
  | float (bits : Nat)
  | bool (b : Bool)
  | dt (d : Datetime.Datetime)
  deriving DecidableEq

/-- plain data: `toml::Value` -/
inductive Plain where
  | scalar (l : Leaf)
  | arr (items : List Plain)
  | tbl (entries : List (Bytes × Plain))

/-! ### decoded tree → plain data -/

mutual
def valToPlain : Val → Plain
  | .str s => .scalar (.str s)
  | .int n => .scalar (.int n)
  | .float b => .scalar (.float b)
  | .bool b => .scalar (.bool b)
  | .dt d => .scalar (.dt d)
  | .arr vs => .arr (valsToPlain vs)
  | .inl items _ _ => .tbl (valEntriesToPlain items)
def valsToPlain : List Val → List Plain
  | [] => []
  | v :: r => valToPlain v :: valsToPlain r
def valEntriesToPlain : List (Bytes × Val) → List (Bytes × Plain)
  | [] => []
  | (k, v) :: r => (k, valToPlain v) :: valEntriesToPlain r
end

mutual
def itemToPlain : Item → Plain
  | .value v => valToPlain v
  | .table t => toPlain t
  | .aot ts => .arr (tblsToPlain ts)
/-- the plain data of a document / table -/
def toPlain : Tbl → Plain
  | .mk items _ _ _ => .tbl (itemEntriesToPlain items)
def tblsToPlain : List Tbl → List Plain
  | [] => []
  | t :: r => toPlain t :: tblsToPlain r
def itemEntriesToPlain : List (Bytes × Item) → List (Bytes × Plain)
  | [] => []
  | (k, v) :: r => (k, itemToPlain v) :: itemEntriesToPlain r
end

/-! ### the sorted form -/

mutual
/-- sort every table, recursively -/
def sortPlain : Plain → Plain
  | .scalar l => .scalar l
  | .arr xs => .arr (sortPlainList xs)
  | .tbl es => .tbl (sortByKey (sortPlainEntries es))
def sortPlainList : List Plain → List Plain
  | [] => []
  | x :: r => sortPlain x :: sortPlainList r
/-- sort inside the values, keep the entry order -/
def sortPlainEntries : List (Bytes × Plain) → List (Bytes × Plain)
  | [] => []
  | (k, v) :: r => (k, sortPlain v) :: sortPlainEntries r
end

/-! ### equality up to table order -/

mutual
/-- same tree up to permuting table entries at every level; table keys distinct.
    `tbl es ≈ tbl gs` when `gs` is a permutation of a list `fs` that has the keys of `es` in the same
    order and equivalent values. -/
inductive PermEquiv : Plain → Plain → Prop
  | scalar (l : Leaf) : PermEquiv (.scalar l) (.scalar l)
  | arr {xs ys : List Plain} : PermEquivList xs ys → PermEquiv (.arr xs) (.arr ys)
  | tbl {es fs gs : List (Bytes × Plain)} :
      PermEquivEntries es fs → KeysDistinct es → fs.Perm gs → PermEquiv (.tbl es) (.tbl gs)
/-- pointwise, same length, same order (arrays are ordered) -/
inductive PermEquivList : List Plain → List Plain → Prop
  | nil : PermEquivList [] []
  | cons {x y : Plain} {xs ys : List Plain} :
      PermEquiv x y → PermEquivList xs ys → PermEquivList (x :: xs) (y :: ys)
/-- pointwise, same keys in the same order -/
inductive PermEquivEntries : List (Bytes × Plain) → List (Bytes × Plain) → Prop
  | nil : PermEquivEntries [] []
  | cons {k : Bytes} {v w : Plain} {es fs : List (Bytes × Plain)} :
      PermEquiv v w → PermEquivEntries es fs → PermEquivEntries ((k, v) :: es) ((k, w) :: fs)
end

/-- `permEquiv p q`: `p` and `q` hold the same data and differ at most in map order -/
abbrev permEquiv (p q : Plain) : Prop := PermEquiv p q

mutual
/-- no table, at any level, has a repeated key (what the parser guarantees for its output) -/
def WellKeyed : Plain → Prop
  | .scalar _ => True
  | .arr xs => WellKeyedList xs
  | .tbl es => KeysDistinct es ∧ WellKeyedEntries es
def WellKeyedList : List Plain → Prop
  | [] => True
  | x :: r => WellKeyed x ∧ WellKeyedList r
def WellKeyedEntries : List (Bytes × Plain) → Prop
  | [] => True
  | (_, v) :: r => WellKeyed v ∧ WellKeyedEntries r
end

/-! ### the configuration parameter -/

/-- the map behind `toml::Table`: `BTreeMap` (default) or `IndexMap` (`preserve_order`) -/
inductive MapOrder where
  | sorted
  | insertion
  deriving DecidableEq, Repr

/-- iteration order of one table holding the entries `l` (listed in insertion order) -/
def iterOrder {α} : MapOrder → List (Bytes × α) → List (Bytes × α)
  | .sorted, l => sortByKey l
  | .insertion, l => l

/-- what a build with the given map iterates over, at every level -/
def orderPlain : MapOrder → Plain → Plain
  | .sorted, p => sortPlain p
  | .insertion, p => p

end TomlVerif.Spec.OrderedPlain
