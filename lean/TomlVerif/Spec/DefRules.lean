import TomlVerif.Lemmas.State09
/-! # The definition rules of TOML 1.0.0 as a flat map (DESIGN.md 3.3–3.5)

Port of `tools/defrules.py`: a formulation written from the prose of the specification and
deliberately unlike the code's tree-with-flags. The state is a flat map from *effective paths* to
*kinds* plus the number of elements of each array of tables; an effective path names the i-th
element of an array of tables explicitly (`elem i`). Every statement is judged
`valid | invalid | undecided`; `undecided` is class U1 (a dotted key extending a table that exists
only as the by-product of a longer header).

Statements are those of `Lemmas/State09.lean` (`Stmt`): `kv path key v` is the dotted key
`path.key = v`; only the fact that a value is defined matters here (the inside of an inline table
is its own scope, characterised by `tableFromPairs`). -/
namespace TomlVerif.Spec.DefRules
open TomlVerif TomlVerif.Model TomlVerif.Model.State TomlVerif.Lemmas.State09

/-- component of an effective path: a key, or the index of an element of an array of tables -/
inductive Comp where
  | name (k : Bytes)
  | elem (i : Nat)
  deriving DecidableEq, Repr

abbrev EPath := List Comp

inductive Kind where
  | value
  | explicit
  | implicit
  | dotted (sect : Nat)
  | aot
  deriving DecidableEq, Repr

inductive Verdict where
  | valid
  | invalid
  | undecided
  deriving DecidableEq, Repr

/-- dictionary lookup -/
def kget {β : Type} : List (EPath × β) → EPath → Option β
  | [], _ => none
  | (q, k) :: r, p => if q = p then some k else kget r p

/-- dictionary assignment (the newest binding shadows the older ones) -/
def kset {β : Type} (m : List (EPath × β)) (p : EPath) (k : β) : List (EPath × β) := (p, k) :: m

abbrev KMap := List (EPath × Kind)
abbrev CMap := List (EPath × Nat)

def cget (C : CMap) (p : EPath) : Nat := (kget C p).getD 0

structure DState where
  kinds : KMap := []
  count : CMap := []
  sect : EPath := []
  sid : Nat := 0

/-- the prefix of a header path: absent tables become `implicit`, a value is an error, an array of
    tables is entered at its last element. Returns the new map and the effective path reached. -/
def hwalk (C : CMap) : KMap → EPath → List Bytes → Option (KMap × EPath)
  | K, eff, [] => some (K, eff)
  | K, eff, n :: r =>
    let e := eff ++ [.name n]
    match kget K e with
    | none => hwalk C (kset K e .implicit) e r
    | some .value => none
    | some .aot => hwalk C K (e ++ [.elem (cget C e - 1)]) r
    | some _ => hwalk C K e r

/-- the prefix of a dotted key in section `sid`: absent tables become `dotted sid`, dotted tables
    of this section are entered, everything else is an error or (header-implicit tables) undecided -/
def kwalk (sid : Nat) : KMap → EPath → List Bytes → Verdict × KMap × EPath
  | K, eff, [] => (.valid, K, eff)
  | K, eff, n :: r =>
    let e := eff ++ [.name n]
    match kget K e with
    | none => kwalk sid (kset K e (.dotted sid)) e r
    | some (.dotted s) => if s = sid then kwalk sid K e r else (.invalid, K, eff)
    | some .implicit => (.undecided, K, eff)
    | some _ => (.invalid, K, eff)

/-- `[path]` once the prefix has been walked: `e` is the effective path of the table named -/
def stdAt (ds : DState) (K : KMap) (e : EPath) : Verdict × DState :=
  match kget K e with
  | none => (.valid, { ds with kinds := kset K e .explicit, sect := e, sid := ds.sid + 1 })
  -- a super-table declared after its sub-table: allowed once
  | some .implicit => (.valid, { ds with kinds := kset K e .explicit, sect := e, sid := ds.sid + 1 })
  | some _ => (.invalid, ds)

/-- `[[path]]` once the prefix has been walked -/
def arrAt (ds : DState) (K : KMap) (e : EPath) : Verdict × DState :=
  match kget K e with
  | none =>
    let s := e ++ [.elem 0]
    (.valid, { kinds := kset (kset K e .aot) s .explicit, count := kset ds.count e 1, sect := s, sid := ds.sid + 1 })
  | some .aot =>
    let n := cget ds.count e + 1
    let s := e ++ [.elem (n - 1)]
    (.valid, { kinds := kset K s .explicit, count := kset ds.count e n, sect := s, sid := ds.sid + 1 })
  | some _ => (.invalid, ds)

def headerStep (ds : DState) (path : List Bytes) (fin : KMap → EPath → Verdict × DState) : Verdict × DState :=
  match splitLast path with
  | none => (.invalid, ds)
  | some (pp, last) =>
    match hwalk ds.count ds.kinds [] pp with
    | none => (.invalid, ds)
    | some (K, eff) => fin K (eff ++ [.name last])

/-- `path.key = …` once the prefix has been walked -/
def kvAt (ds : DState) (K : KMap) (e : EPath) : Verdict × DState :=
  match kget K e with
  | some _ => (.invalid, ds)
  | none => (.valid, { ds with kinds := kset K e .value })

def dstep (ds : DState) : Stmt → Verdict × DState
  | .std path => headerStep ds path (stdAt ds)
  | .arr path => headerStep ds path (arrAt ds)
  | .kv path key _ =>
    match kwalk ds.sid ds.kinds ds.sect path with
    | (.valid, K, eff) => kvAt ds K (eff ++ [.name key])
    | (v, _, _) => (v, ds)

/-- the first verdict that is not `valid` wins -/
def drunFrom : DState → List Stmt → Verdict
  | _, [] => .valid
  | ds, s :: r =>
    match dstep ds s with
    | (.valid, ds') => drunFrom ds' r
    | (v, _) => v

def drun (stmts : List Stmt) : Verdict := drunFrom {} stmts

end TomlVerif.Spec.DefRules
