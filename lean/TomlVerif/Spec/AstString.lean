import TomlVerif.Spec.Classes
import TomlVerif.Spec.Utf8
/-! Abstract syntax of the four string productions of toml.abnf (TOML 1.0.0), written from the ABNF
    and the prose of the specification, not from the code.

    One constructor per lexical choice.  `render` gives the spelling (the bytes of the document),
    `sem` the value the specification assigns to that spelling, `wf` the side conditions of the
    grammar (byte classes, HEXDIG, "must be a Unicode scalar value") together with the places where
    the ABNF is ambiguous and the prose decides (see `MlbItem`, `wfMlbItems`).

    `non-ascii` is a statement about scalar values; here a multi-byte character is a sequence of
    `raw` bytes ≥ 0x80.  UTF-8 validity of the whole document is checked before lexing and is not a
    concern of this syntax. -/
namespace TomlVerif.Spec.AstString
open TomlVerif TomlVerif.Spec

/-! ## escapes -/

/-- value of one HEXDIG (`DIGIT / "A"-"F"`, case-insensitive) -/
def hexDigitVal (b : Byte) : Nat :=
  if inR 0x30 0x39 b then b.toNat - 0x30
  else if inR 0x41 0x46 b then b.toNat - 0x41 + 10
  else b.toNat - 0x61 + 10

/-- value of a string of hex digits, most significant first -/
def hexValue (ds : Bytes) : Nat := ds.foldl (fun a d => a * 16 + hexDigitVal d) 0

/-- the table of `escape-seq-char` (one-letter escapes): letter ↦ code point
    `"`→U+0022  `\`→U+005C  b→U+0008  f→U+000C  n→U+000A  r→U+000D  t→U+0009 -/
def escMeaning (c : Byte) : Option Byte :=
  if c = 0x22 then some 0x22
  else if c = 0x5C then some 0x5C
  else if c = 0x62 then some 0x08
  else if c = 0x66 then some 0x0C
  else if c = 0x6E then some 0x0A
  else if c = 0x72 then some 0x0D
  else if c = 0x74 then some 0x09
  else none

/-- `escaped = escape escape-seq-char` -/
inductive Escaped where
  /-- backslash + one of `" \ b f n r t` (`c` is the letter) -/
  | simple (c : Byte)
  /-- `\uXXXX` -/
  | u4 (h0 h1 h2 h3 : Byte)
  /-- `\UXXXXXXXX` -/
  | u8 (h0 h1 h2 h3 h4 h5 h6 h7 : Byte)
  deriving Repr, DecidableEq

namespace Escaped
/-- what follows the backslash -/
def tail : Escaped → Bytes
  | simple c => [c]
  | u4 h0 h1 h2 h3 => [0x75, h0, h1, h2, h3]
  | u8 h0 h1 h2 h3 h4 h5 h6 h7 => [0x55, h0, h1, h2, h3, h4, h5, h6, h7]
def render (e : Escaped) : Bytes := 0x5C :: e.tail
def sem : Escaped → Bytes
  | simple c => match escMeaning c with
    | some v => [v]
    | none => []
  | u4 h0 h1 h2 h3 => Utf8.encode (hexValue [h0, h1, h2, h3])
  | u8 h0 h1 h2 h3 h4 h5 h6 h7 => Utf8.encode (hexValue [h0, h1, h2, h3, h4, h5, h6, h7])
/-- the letter is in the table; the digits are HEXDIG and denote a Unicode scalar value -/
def wf : Escaped → Bool
  | simple c => (escMeaning c).isSome
  | u4 h0 h1 h2 h3 => [h0, h1, h2, h3].all isHexdig && Utf8.isScalar (hexValue [h0, h1, h2, h3])
  | u8 h0 h1 h2 h3 h4 h5 h6 h7 =>
    [h0, h1, h2, h3, h4, h5, h6, h7].all isHexdig && Utf8.isScalar (hexValue [h0, h1, h2, h3, h4, h5, h6, h7])
end Escaped

/-! ## basic-string = quotation-mark *basic-char quotation-mark -/

/-- `basic-char = basic-unescaped / escaped` -/
inductive BasicChar where
  | raw (b : Byte)
  | escaped (e : Escaped)
  deriving Repr, DecidableEq

namespace BasicChar
def render : BasicChar → Bytes
  | raw b => [b]
  | escaped e => e.render
def sem : BasicChar → Bytes
  | raw b => [b]
  | escaped e => e.sem
def wf : BasicChar → Bool
  | raw b => isBasicUnescaped b
  | escaped e => e.wf
end BasicChar

def renderBasic (cs : List BasicChar) : Bytes := 0x22 :: (cs.flatMap BasicChar.render ++ [0x22])
def semBasic (cs : List BasicChar) : Bytes := cs.flatMap BasicChar.sem
def wfBasic (cs : List BasicChar) : Bool := cs.all BasicChar.wf

/-! ## literal-string = apostrophe *literal-char apostrophe -/

def renderLiteral (bs : Bytes) : Bytes := 0x27 :: (bs ++ [0x27])
def semLiteral (bs : Bytes) : Bytes := bs
def wfLiteral (bs : Bytes) : Bool := bs.all isLiteralChar

/-! ## newline -/

/-- `newline = LF / CRLF` -/
def nlBytes (crlf : Bool) : Bytes := if crlf then [0x0D, 0x0A] else [0x0A]

/-- the optional newline right after an opening `"""` / `'''` ("will be trimmed") -/
def firstNlBytes : Option Bool → Bytes
  | none => []
  | some crlf => nlBytes crlf

/-! ## ml-basic-string

    ml-basic-string = ml-basic-string-delim [ newline ] ml-basic-body ml-basic-string-delim
    ml-basic-body   = *mlb-content *( mlb-quotes 1*mlb-content ) [ mlb-quotes ]
    mlb-content     = mlb-char / newline / mlb-escaped-nl
    mlb-char        = mlb-unescaped / escaped
    mlb-quotes      = 1*2quotation-mark
    mlb-escaped-nl  = escape ws newline *( wschar / newline )

    The body is kept as a flat list of items; "no two adjacent `quotes` items" is exactly the shape
    `*mlb-content *( mlb-quotes 1*mlb-content ) [ mlb-quotes ]`. -/

/-- one element of `*( wschar / newline )` -/
inductive WsNl where
  | ws (b : Byte)
  | nl (crlf : Bool)
  deriving Repr, DecidableEq

namespace WsNl
def render : WsNl → Bytes
  | ws b => [b]
  | nl crlf => nlBytes crlf
def wf : WsNl → Bool
  | ws b => isWschar b
  | nl _ => true
end WsNl

inductive MlbItem where
  /-- `mlb-char` -/
  | char (c : BasicChar)
  /-- a newline in the body: LF or CRLF, meaning LF -/
  | nl (crlf : Bool)
  /-- `mlb-quotes`: one or two unescaped quotation marks -/
  | quotes (n : Nat)
  /-- `mlb-escaped-nl`: backslash, `ws1`, newline, then any ws/newlines: meaning nothing -/
  | lineCont (ws1 : Bytes) (crlf : Bool) (more : List WsNl)
  deriving Repr, DecidableEq

namespace MlbItem
def render : MlbItem → Bytes
  | char c => c.render
  | nl crlf => nlBytes crlf
  | quotes n => List.replicate n 0x22
  | lineCont ws1 crlf more => 0x5C :: (ws1 ++ (nlBytes crlf ++ more.flatMap WsNl.render))
def sem : MlbItem → Bytes
  | char c => c.sem
  | nl _ => [0x0A]
  | quotes n => List.replicate n 0x22
  | lineCont _ _ _ => []
/-- side conditions of one item (`mlb-unescaped` is the same class as `basic-unescaped`) -/
def wf : MlbItem → Bool
  | char (.raw b) => isMlbUnescaped b
  | char (.escaped e) => e.wf
  | nl _ => true
  | quotes n => n == 1 || n == 2
  | lineCont ws1 _ more => ws1.all isWschar && more.all WsNl.wf
def isQuotes : MlbItem → Bool
  | quotes _ => true
  | _ => false
def isNl : MlbItem → Bool
  | nl _ => true
  | _ => false
/-- the rendering starts with a `wschar` or a `newline` -/
def startsWsNl : MlbItem → Bool
  | char (.raw b) => isWschar b
  | nl _ => true
  | _ => false
end MlbItem

/-- Well-formed body.  Besides the per-item conditions:
    * a `quotes` item is not followed by another `quotes` item (shape of `ml-basic-body`;
      a third consecutive quotation mark has to be escaped);
    * a `lineCont` item is not followed by an item that starts with whitespace or a newline: the
      ABNF would allow it, the prose ("trimmed along with all whitespace (including newlines) up to
      the next non-whitespace character or closing delimiter") does not. -/
def wfMlbItems : List MlbItem → Bool
  | [] => true
  | i :: rest =>
    i.wf &&
    (match i, rest with
     | .quotes _, j :: _ => !j.isQuotes
     | .lineCont _ _ _, j :: _ => !j.startsWsNl
     | _, _ => true) &&
    wfMlbItems rest

/-- number of quotation marks of the body that touch the closing delimiter -/
def mlbTrailing (items : List MlbItem) : Nat :=
  match items.getLast? with
  | some (.quotes n) => n
  | _ => 0

structure MlBasic where
  /-- the optional newline after the opening delimiter -/
  firstNl : Option Bool
  items : List MlbItem
  deriving Repr, DecidableEq

namespace MlBasic
def render (a : MlBasic) : Bytes :=
  0x22 :: 0x22 :: 0x22 :: (firstNlBytes a.firstNl ++ (a.items.flatMap MlbItem.render ++ [0x22, 0x22, 0x22]))
def sem (a : MlBasic) : Bytes := a.items.flatMap MlbItem.sem
/-- If the `[ newline ]` after the opening delimiter is absent the body must not begin with a newline
    item: "A newline immediately following the opening delimiter will be trimmed", so that spelling
    is the one with the optional newline present. -/
def wf (a : MlBasic) : Bool :=
  wfMlbItems a.items &&
  (match a.firstNl, a.items with
   | none, j :: _ => !j.isNl
   | _, _ => true)
end MlBasic

/-! ## ml-literal-string

    ml-literal-string = ml-literal-string-delim [ newline ] ml-literal-body ml-literal-string-delim
    ml-literal-body   = *mll-content *( mll-quotes 1*mll-content ) [ mll-quotes ]
    mll-content       = mll-char / newline
    mll-quotes        = 1*2apostrophe -/

inductive MllItem where
  | raw (b : Byte)
  | nl (crlf : Bool)
  | quotes (n : Nat)
  deriving Repr, DecidableEq

namespace MllItem
def render : MllItem → Bytes
  | raw b => [b]
  | nl crlf => nlBytes crlf
  | quotes n => List.replicate n 0x27
def sem : MllItem → Bytes
  | raw b => [b]
  | nl _ => [0x0A]
  | quotes n => List.replicate n 0x27
def wf : MllItem → Bool
  | raw b => isMllChar b
  | nl _ => true
  | quotes n => n == 1 || n == 2
def isQuotes : MllItem → Bool
  | quotes _ => true
  | _ => false
def isNl : MllItem → Bool
  | nl _ => true
  | _ => false
end MllItem

/-- per-item conditions, and a `quotes` item is not followed by another `quotes` item -/
def wfMllItems : List MllItem → Bool
  | [] => true
  | i :: rest =>
    i.wf &&
    (match i, rest with
     | .quotes _, j :: _ => !j.isQuotes
     | _, _ => true) &&
    wfMllItems rest

def mllTrailing (items : List MllItem) : Nat :=
  match items.getLast? with
  | some (.quotes n) => n
  | _ => 0

structure MlLiteral where
  firstNl : Option Bool
  items : List MllItem
  deriving Repr, DecidableEq

namespace MlLiteral
def render (a : MlLiteral) : Bytes :=
  0x27 :: 0x27 :: 0x27 :: (firstNlBytes a.firstNl ++ (a.items.flatMap MllItem.render ++ [0x27, 0x27, 0x27]))
def sem (a : MlLiteral) : Bytes := a.items.flatMap MllItem.sem
def wf (a : MlLiteral) : Bool :=
  wfMllItems a.items &&
  (match a.firstNl, a.items with
   | none, j :: _ => !j.isNl
   | _, _ => true)
end MlLiteral

/-- What may follow a multi-line string whose body ends in `trailing` quote characters `q`:
    the closing run of quote characters is read greedily up to five, so after a body that ends in
    fewer than two quote characters the next byte must not be `q`.  After two it may be anything
    (a sixth quote character is never part of the token). -/
def MlFollow (q : Byte) (trailing : Nat) (rest : Bytes) : Prop :=
  trailing = 2 ∨ rest.head? ≠ some q

/-! ## string = ml-basic-string / basic-string / ml-literal-string / literal-string -/

inductive StringAst where
  | basic (cs : List BasicChar)
  | mlBasic (a : MlBasic)
  | literal (bs : Bytes)
  | mlLiteral (a : MlLiteral)
  deriving Repr, DecidableEq

namespace StringAst
def render : StringAst → Bytes
  | basic cs => renderBasic cs
  | mlBasic a => a.render
  | literal bs => renderLiteral bs
  | mlLiteral a => a.render
def sem : StringAst → Bytes
  | basic cs => semBasic cs
  | mlBasic a => a.sem
  | literal bs => semLiteral bs
  | mlLiteral a => a.sem
def wf : StringAst → Bool
  | basic cs => wfBasic cs
  | mlBasic a => a.wf
  | literal bs => wfLiteral bs
  | mlLiteral a => a.wf
/-- What may follow the token.  An empty single-line string must not be followed by its own quote
    character (the three would be an opening multi-line delimiter); for the multi-line kinds see
    `MlFollow`.  Non-empty single-line strings need nothing. -/
def Follow : StringAst → Bytes → Prop
  | basic cs, rest => cs ≠ [] ∨ rest.head? ≠ some 0x22
  | mlBasic a, rest => MlFollow 0x22 (mlbTrailing a.items) rest
  | literal bs, rest => bs ≠ [] ∨ rest.head? ≠ some 0x27
  | mlLiteral a, rest => MlFollow 0x27 (mllTrailing a.items) rest
end StringAst

end TomlVerif.Spec.AstString
