/-! # Reference ordered map and reference vector (C16)

The simplest possible definitions the containers of `toml_edit` / `toml` are compared against.

* `RMap V` — an insertion-ordered map from keys (`Nat`) to values.  A position may be *reserved*
  (`none`): that is what `&mut table["k"]` leaves behind.  A reserved position is invisible to every
  observer (`get`, `len`, `entries`, …); its only effect is that a later `insert` of that key lands
  at the reserved position instead of at the end.
* vectors are plain `List`s with the `Vec` operations (out-of-range index = `none`, i.e. a panic).
* `stableSort` — insertion sort, the reference for every stable sort.

Import-free core Lean. -/
namespace TomlVerif.Spec.OrdMap

/-! ## stable sort -/

/-- insert `x` in front of the first element `y` with `le x y` -/
def orderedInsert {α : Type} (le : α → α → Bool) (x : α) : List α → List α
  | [] => [x]
  | y :: ys => if le x y then x :: y :: ys else y :: orderedInsert le x ys

/-- insertion sort; stable: of two elements that compare equal the earlier one stays first -/
def stableSort {α : Type} (le : α → α → Bool) : List α → List α
  | [] => []
  | x :: xs => orderedInsert le x (stableSort le xs)

/-! ## ordered map with reserved positions -/

abbrev RMap (V : Type) := List (Nat × Option V)

section
variable {V : Type}

/-- the slot stored at the position of key `k` (`none`: the key has no position) -/
def slotOf (m : RMap V) (k : Nat) : Option (Option V) :=
  (m.find? (fun e => e.1 == k)).map (·.2)

/-- does the key have a position (an entry or a reservation)? -/
def hasPos (m : RMap V) (k : Nat) : Bool := (slotOf m k).isSome

/-- lookup; reserved positions hold nothing -/
def get (m : RMap V) (k : Nat) : Option V := (slotOf m k).join

def contains (m : RMap V) (k : Nat) : Bool := (get m k).isSome

/-- the observable content: key/value pairs in order, reservations dropped -/
def entries (m : RMap V) : List (Nat × V) := m.filterMap fun e => e.2.map fun v => (e.1, v)

def len (m : RMap V) : Nat := (entries m).length
def isEmpty (m : RMap V) : Bool := (entries m).isEmpty
def keys (m : RMap V) : List Nat := (entries m).map (·.1)
def values (m : RMap V) : List V := (entries m).map (·.2)
def getKeyValue (m : RMap V) (k : Nat) : Option (Nat × V) := (get m k).map fun v => (k, v)

/-- store `o` at the key's position; a key without a position gets a new one at the end -/
def put : RMap V → Nat → Option V → RMap V
  | [], k, o => [(k, o)]
  | e :: m, k, o => if e.1 == k then (e.1, o) :: m else e :: put m k o

/-- insert: new map and the previous value -/
def insert (m : RMap V) (k : Nat) (v : V) : RMap V × Option V := (put m k (some v), get m k)

/-- what `&mut m[k]` does: a key without a position gets a reserved one at the end -/
def reserve (m : RMap V) (k : Nat) : RMap V := if hasPos m k then m else m ++ [(k, none)]

/-- remove: the key's position disappears, the others keep their order -/
def remove (m : RMap V) (k : Nat) : RMap V × Option V := (m.eraseP (fun e => e.1 == k), get m k)

def removeEntry (m : RMap V) (k : Nat) : RMap V × Option (Nat × V) :=
  (m.eraseP (fun e => e.1 == k), getKeyValue m k)

/-- `entry(k).or_insert(v)`: the value stored afterwards -/
def orInsert (m : RMap V) (k : Nat) (v : V) : RMap V × V :=
  match get m k with
  | some x => (m, x)
  | none => (put m k (some v), v)

/-- retain; `keepReserved` says whether reservations survive (the predicate never sees them) -/
def retain (keepReserved : Bool) (p : Nat → V → Bool) (m : RMap V) : RMap V :=
  m.filter fun e => match e.2 with
    | some v => p e.1 v
    | none => keepReserved

def sortBy (le : Nat × Option V → Nat × Option V → Bool) (m : RMap V) : RMap V := stableSort le m

def sortKeys (m : RMap V) : RMap V := stableSort (fun a b => decide (a.1 ≤ b.1)) m

def extend (m : RMap V) (kvs : List (Nat × V)) : RMap V := kvs.foldl (fun m kv => put m kv.1 (some kv.2)) m

def clear (_ : RMap V) : RMap V := []

end

/-! ## plain ordered map (no reservations): insertion order or key order -/

abbrev PMap (V : Type) := List (Nat × V)

section
variable {V : Type}

def pget (m : PMap V) (k : Nat) : Option V := (m.find? (fun e => e.1 == k)).map (·.2)

/-- insertion order: an existing key keeps its position, a new key goes to the end -/
def pputEnd : PMap V → Nat → V → PMap V
  | [], k, v => [(k, v)]
  | e :: m, k, v => if e.1 == k then (e.1, v) :: m else e :: pputEnd m k v

/-- key order: a new key goes in front of the first larger key -/
def pputSorted : PMap V → Nat → V → PMap V
  | [], k, v => [(k, v)]
  | e :: m, k, v => if k < e.1 then (k, v) :: e :: m else if e.1 == k then (e.1, v) :: m else e :: pputSorted m k v

def pput (sorted : Bool) (m : PMap V) (k : Nat) (v : V) : PMap V :=
  if sorted then pputSorted m k v else pputEnd m k v

def premove (m : PMap V) (k : Nat) : PMap V := m.eraseP (fun e => e.1 == k)

def pextend (sorted : Bool) (m : PMap V) (kvs : List (Nat × V)) : PMap V :=
  kvs.foldl (fun m kv => pput sorted m kv.1 kv.2) m

/-- keys strictly increasing -/
def StrictSorted (m : PMap V) : Prop := m.Pairwise fun a b => a.1 < b.1

end

/-! ## vectors -/

/-- `Vec::insert`: `none` = panic (index > len) -/
def vinsert {α : Type} (l : List α) (i : Nat) (x : α) : Option (List α) :=
  if i ≤ l.length then some (l.insertIdx i x) else none

/-- `Vec::remove`: `none` = panic (index ≥ len) -/
def vremove {α : Type} (l : List α) (i : Nat) : Option (List α × α) :=
  match l[i]? with
  | some x => some (l.eraseIdx i, x)
  | none => none

/-- `mem::replace(&mut v[i], x)`: `none` = panic -/
def vreplace {α : Type} (l : List α) (i : Nat) (x : α) : Option (List α × α) :=
  match l[i]? with
  | some old => some (l.set i x, old)
  | none => none

end TomlVerif.Spec.OrdMap
