import TomlVerif.Basic
/-! IEEE-754 binary64: correctly rounded (round-to-nearest, ties-to-even) conversion of an exact
    decimal `m × 10^e` to a bit pattern. Pure `Nat` arithmetic; no `Float`. -/
namespace TomlVerif.Spec.Ieee

/-- round-half-even of `p / q` (`q > 0`) -/
def divRoundEven (p q : Nat) : Nat :=
  let d := p / q
  let r := p % q
  if 2 * r < q then d
  else if 2 * r > q then d + 1
  else if d % 2 == 0 then d else d + 1

def bitLength (n : Nat) : Nat := if n == 0 then 0 else Nat.log2 n + 1

def infBits : Nat := 0x7FF0000000000000
def signBit : Nat := 0x8000000000000000
/-- `f64::NAN.copysign(1.0)` -/
def nanBits : Nat := 0x7FF8000000000000

/-- magnitude bits (sign clear) of the double nearest to `p / q`, `p, q > 0`; `infBits` on overflow -/
def roundRat (p q : Nat) : Nat :=
  -- choose k with 2^52 ≤ (p/q)/2^k < 2^53 where possible, but k ≥ -1074
  let k0 : Int := (bitLength p : Int) - (bitLength q : Int) - 53
  -- k0 may be off by one; test and adjust
  let scaled (k : Int) : Nat × Nat := if k ≥ 0 then (p, q * 2 ^ k.toNat) else (p * 2 ^ (-k).toNat, q)
  let k1 : Int :=
    let (a, b) := scaled k0
    if a / b ≥ 2 ^ 53 then k0 + 1 else if a / b < 2 ^ 52 then k0 - 1 else k0
  let k2 : Int :=
    let (a, b) := scaled k1
    if a / b ≥ 2 ^ 53 then k1 + 1 else if a / b < 2 ^ 52 then k1 - 1 else k1
  let k : Int := if k2 < -1074 then -1074 else k2
  let (a, b) := scaled k
  let mant := divRoundEven a b
  -- mant < 2^53 or = 2^53 after carry
  let (mant, k) : Nat × Int := if mant ≥ 2 ^ 53 then (mant / 2, k + 1) else (mant, k)
  if mant < 2 ^ 52 then mant            -- subnormal (or zero): exponent field 0, k = -1074
  else
    let e : Int := k + 1075             -- biased exponent
    if e ≥ 2047 then infBits
    else e.toNat * 2 ^ 52 + (mant - 2 ^ 52)

/-- number of decimal digits -/
def decLen (m : Nat) : Nat := (Nat.toDigits 10 m).length

/-- bits of the double nearest to `(-1)^neg × m × 10^e`; an overflow yields ±infinity's pattern -/
def roundDecimal (neg : Bool) (m : Nat) (e : Int) : Nat :=
  let s := if neg then signBit else 0
  if m == 0 then s
  else
    let mag : Int := (decLen m : Int) + e     -- value < 10^mag
    if mag > 310 then s + infBits
    else if mag < -330 then s
    else if e ≥ 0 then s + roundRat (m * 10 ^ e.toNat) 1
    else s + roundRat m (10 ^ (-e).toNat)

def isInfBits (b : Nat) : Bool := b % signBit == infBits

end TomlVerif.Spec.Ieee
