import TomlVerif.Driver.Canon
namespace TomlVerif.Driver
open TomlVerif TomlVerif.Model

def okErr (b : Bool) : String := if b then "ok" else "err"

/-- the verdict of every entry point on the same bytes (the model has no panic outcome at all) -/
def c04 (line : String) : String :=
  match bytesOfHex? line with
  | none => "bad-op"
  | some s =>
    if !Spec.Utf8.valid s then s!"notutf8 slice=err" else
    let doc := (Doc.parseDocument s).isSome
    let val := (Value.parseValue s).isSome
    let key := match Key.simpleKey s with | .ok _ [] => true | _ => false
    let path := match Value.keyPath s with | .ok _ [] => true | _ => false
    let dt := (Datetime.Std.fromStr s).isSome
    s!"doc={okErr doc} val={okErr val} key={okErr key} path={okErr path} dt={okErr dt}"
end TomlVerif.Driver
