import TomlVerif.Model.ErrorPos
namespace TomlVerif.Driver
open TomlVerif TomlVerif.Model

/-- `tp <hex text> <offset>`: the span winnow's char_boundary gives and the line/column the renderer reports for its start -/
def c15 (line : String) : String :=
  match line.splitOn " " with
  | ["tp", hx, off] =>
    match bytesOfHex? hx, off.toNat? with
    | some s, some o =>
      let (a, b) := ErrorPos.charSpan s o
      match ErrorPos.displayIndices s a b with
      | some (l, c, _) => s!"span={a}..{b} lc={l}:{c}"
      | none => s!"span={a}..{b} PANIC"
    | _, _ => "bad-op"
  | ["lc", hx, a] =>
    match bytesOfHex? hx, a.toNat? with
    | some s, some a =>
      let (l, c) := ErrorPos.translatePosition s a
      s!"lc={l + 1}:{c + 1}"
    | _, _ => "bad-op"
  | _ => "bad-op"
end TomlVerif.Driver
