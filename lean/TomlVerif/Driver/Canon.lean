import TomlVerif.Model.Doc
import TomlVerif.Driver.C12
import TomlVerif.Driver.C11
import TomlVerif.Spec.OrderedPlain
namespace TomlVerif.Driver
open TomlVerif TomlVerif.Model

def b01 (b : Bool) : String := if b then "1" else "0"

partial def canonVal : Val → String
  | .str s => "s" ++ hexOut s
  | .int n => s!"i{n}"
  | .float b => "f" ++ hex16 b
  | .bool b => "b" ++ b01 b
  | .dt d => "d" ++ showDt d
  | .arr vs => "[" ++ ";".intercalate (vs.map canonVal) ++ "]"
  | .inl items i d => s!"I{b01 i}{b01 d}" ++ "{" ++ ";".intercalate (items.map fun (k, v) => hexOut k ++ "=" ++ canonVal v) ++ "}"

mutual
partial def canonItem : Item → String
  | .value v => canonVal v
  | .table t => canonTbl t
  | .aot ts => "A[" ++ ";".intercalate (ts.map canonTbl) ++ "]"
partial def canonTbl : Tbl → String
  | .mk items i d p =>
    let ps := match p with | some n => toString n | none => "-"
    s!"T{b01 i}{b01 d}p{ps}" ++ "{" ++ ";".intercalate (items.map fun (k, v) => hexOut k ++ "=" ++ canonItem v) ++ "}"
end

/-- the verified insertion sort of `Spec/OrderedPlain.lean` (Props/C18: permutation-invariant on distinct keys) -/
def sortPairs (l : List (Bytes × String)) : List (Bytes × String) := TomlVerif.Spec.OrderedPlain.sortByKey l

/-- the plain data (what `toml::Table` holds), tables sorted by key bytes -/
partial def plainVal : Val → String
  | .arr vs => "[" ++ ";".intercalate (vs.map plainVal) ++ "]"
  | .inl items _ _ => "{" ++ ";".intercalate ((sortPairs (items.map fun (k, v) => (k, plainVal v))).map fun (k, s) => hexOut k ++ "=" ++ s) ++ "}"
  | v => canonVal v

mutual
partial def plainItem : Item → String
  | .value v => plainVal v
  | .table t => plainTbl t
  | .aot ts => "[" ++ ";".intercalate (ts.map plainTbl) ++ "]"
partial def plainTbl : Tbl → String
  | .mk items _ _ _ =>
    "{" ++ ";".intercalate ((sortPairs (items.map fun (k, v) => (k, plainItem v))).map fun (k, s) => hexOut k ++ "=" ++ s) ++ "}"
end

/-- nesting depth of the decoded structure -/
partial def depthVal : Val → Nat
  | .arr vs => 1 + (vs.map depthVal).foldl max 0
  | .inl items _ _ => 1 + (items.map fun (_, v) => depthVal v).foldl max 0
  | _ => 0
mutual
partial def depthItem : Item → Nat
  | .value v => depthVal v
  | .table t => depthTbl t
  | .aot ts => 1 + (ts.map depthTbl).foldl max 0
partial def depthTbl : Tbl → Nat
  | .mk items _ _ _ => 1 + (items.map fun (_, v) => depthItem v).foldl max 0
end

def docLine (line : String) : String :=
  match bytesOfHex? line with
  | none => "bad-op"
  | some s =>
    match Doc.parseSlice s with
    | some t => s!"ok edit={canonTbl t} toml={plainTbl t} depth={depthTbl t}"
    | none => "err"

def valLine (line : String) : String :=
  match bytesOfHex? line with
  | none => "bad-op"
  | some s =>
    match Value.parseValue s with
    | some v => s!"ok {canonVal v}"
    | none => "err"

end TomlVerif.Driver
