import TomlVerif.Model.DeSpanned
import TomlVerif.Driver.C15Loc
/-! Driver mode `c14s` (same case lines and output as harness/src/c14sp.rs):
    `sp <flavour> <sty> <hex document>` → `td=<r> ed=<r> dm=<r>`, `<r>` = `ok:<sdec>` | `err span=… keys=…`.
    <sty> := <ty of c13typed, no P / K inside> | P(<sty>) | O(<sty>) | N(<sty>) | V(<sty>) | M(<sty>) | K(<key>,<sty>)
           | S(<hexname>[:?]<sty>,…) | E(<hexname>[:N(<sty>)],…)          <key> := s | N(<key>) | P(<key>) -/
namespace TomlVerif.Driver.C14Sp
open TomlVerif TomlVerif.Model TomlVerif.Model.DeTyped TomlVerif.Model.DeLocated TomlVerif.Model.DeSpanned
open TomlVerif.Driver.C13Typed TomlVerif.Driver.C15Loc

partial def parseKeyTy : List Char → Option (KeyTy × List Char)
  | 's' :: r => some (.string, r)
  | 'N' :: '(' :: r => match parseKeyTy r with | some (k, ')' :: r') => some (.newtype k, r') | _ => none
  | 'P' :: '(' :: r => match parseKeyTy r with | some (k, ')' :: r') => some (.spanned k, r') | _ => none
  | _ => none

mutual
partial def parseSTy (s : List Char) : Option (STy × List Char) :=
  match parseTy s with
  | some (t, r) => some (.plain t, r)
  | none =>
    match s with
    | 'P' :: '(' :: r => match parseSTy r with | some (t, ')' :: r') => some (.spanned t, r') | _ => none
    | 'O' :: '(' :: r => match parseSTy r with | some (t, ')' :: r') => some (.option t, r') | _ => none
    | 'N' :: '(' :: r => match parseSTy r with | some (t, ')' :: r') => some (.newtype t, r') | _ => none
    | 'V' :: '(' :: r => match parseSTy r with | some (t, ')' :: r') => some (.seq t, r') | _ => none
    | 'M' :: '(' :: r => match parseSTy r with | some (t, ')' :: r') => some (.map .string t, r') | _ => none
    | 'K' :: '(' :: r =>
      match parseKeyTy r with
      | some (k, ',' :: r1) => match parseSTy r1 with | some (t, ')' :: r') => some (.map k t, r') | _ => none
      | _ => none
    | 'S' :: '(' :: r => (parseSFields r).map fun (fs, r') => (.struct fs, r')
    | 'E' :: '(' :: r => (parseSVariants r).map fun (vs, r') => (.enum vs, r')
    | _ => none
partial def parseSFields : List Char → Option (SFields × List Char)
  | ')' :: r => some (.nil, r)
  | s =>
    let (w, r) := word [] s
    match bytesOfHex? (String.ofList w), r with
    | some name, c :: r1 =>
      if c != ':' && c != '?' then none else
      match parseSTy r1 with
      | some (t, ',' :: r2) =>
        (parseSFields r2).bind fun (fs, r') => match fs with | .nil => none | _ => some (.cons name t (c == '?') fs, r')
      | some (t, ')' :: r2) => some (.cons name t (c == '?') .nil, r2)
      | _ => none
    | _, _ => none
partial def parseSVariants : List Char → Option (SVariants × List Char)
  | ')' :: r => some (.nil, r)
  | s =>
    let (w, r) := word [] s
    match bytesOfHex? (String.ofList w) with
    | none => none
    | some name =>
      let shape : Option (SShape × List Char) :=
        match r with
        | ':' :: 'N' :: '(' :: r1 => match parseSTy r1 with | some (t, ')' :: r2) => some (.newtype t, r2) | _ => none
        | ':' :: _ => none
        | _ => some (.unit, r)
      match shape with
      | some (sh, ',' :: r3) =>
        (parseSVariants r3).bind fun (vs, r') => match vs with | .nil => none | _ => some (.cons name sh vs, r')
      | some (sh, ')' :: r3) => some (.cons name sh .nil, r3)
      | _ => none
end

def parseSTyAll (s : String) : Option STy :=
  match parseSTy s.toList with
  | some (t, []) => some t
  | _ => none

partial def showSKey : SKey → String
  | .str s => hexOut s
  | .newtype k => "W(" ++ showSKey k ++ ")"
  | .spanned a b k => s!"P{a}..{b}(" ++ showSKey k ++ ")"

partial def showSDec : SDec → String
  | .plain d => showDec d
  | .spanned a b d => s!"P{a}..{b}(" ++ showSDec d ++ ")"
  | .dflt => "D"
  | .none => "N"
  | .some d => "O(" ++ showSDec d ++ ")"
  | .newtype d => "W(" ++ showSDec d ++ ")"
  | .seq l => "[" ++ ";".intercalate (l.map showSDec) ++ "]"
  | .map l => "{" ++ ";".intercalate (l.map fun (k, d) => showSKey k ++ "=" ++ showSDec d) ++ "}"
  | .struct l => "S{" ++ ";".intercalate (l.map fun (k, d) => hexOut k ++ "=" ++ showSDec d) ++ "}"
  | .vUnit n => "E" ++ hexOut n
  | .vNewtype n d => "E" ++ hexOut n ++ ":" ++ showSDec d

def showLRS : LR SDec → String
  | .ok d => "ok:" ++ showSDec d
  | .error e => s!"err span={showSpan e.span} keys={showKeys e.keys}"

def sp (fls tys hx : String) : String :=
  match flavourOf fls, parseSTyAll tys, bytesOfHex? hx with
  | some fl, some ty, some bytes =>
    if !Spec.Utf8.valid bytes then "not-utf8" else
    match Cst.parseCst bytes with
    | none => "parse-err"
    | some d =>
      let src := showLRS (decodeSp fl ty (.table d.root))
      let doc := showLRS (decodeSp fl ty (despanItem (.table d.root)))
      s!"td={src} ed={src} dm={doc}"
  | _, _, _ => "bad-op"

def c14s (line : String) : String :=
  match line.splitOn " " with
  | ["sp", fl, ty, hx] => sp fl ty hx
  | _ => "bad-op"

end TomlVerif.Driver.C14Sp
