import TomlVerif.Model.Encode06
import TomlVerif.Spec.Encode06
import TomlVerif.Model.Doc
import TomlVerif.Driver.Canon
/-! Driver mode `c06`: a `Built` tree (token stream, see harness/src/c06.rs) is built, printed by the
    model of `encode.rs`, the text is parsed back by the parser model. -/
namespace TomlVerif.Driver
open TomlVerif TomlVerif.Spec TomlVerif.Model TomlVerif.Model.Encode06

/-- ordered canonical form: insertion order kept, kinds kept, no flags -/
partial def ordVal : Val → String
  | .arr vs => "[" ++ ";".intercalate (vs.map ordVal) ++ "]"
  | .inl items _ _ => "I{" ++ ";".intercalate (items.map fun (k, v) => hexOut k ++ "=" ++ ordVal v) ++ "}"
  | v => canonVal v

mutual
partial def ordItem : Item → String
  | .value v => ordVal v
  | .table t => ordTbl t
  | .aot ts => "A[" ++ ";".intercalate (ts.map ordTbl) ++ "]"
partial def ordTbl : Tbl → String
  | .mk items _ _ _ => "T{" ++ ";".intercalate (items.map fun (k, v) => hexOut k ++ "=" ++ ordItem v) ++ "}"
end

abbrev Toks := List String

def c06Datetime (d t o : String) : Option Datetime.Datetime :=
  match parseDateField d, parseTimeField t, parseOffField o with
  | some d, some t, some o => some ⟨d, t, o⟩
  | _, _, _ => none

mutual
partial def c06Value : Toks → Option (BVal × Toks)
  | "s" :: hx :: r => (bytesOfHex? hx).map fun s => (.str s, r)
  | "i" :: n :: r => n.toInt?.map fun n => (.int n, r)
  | "f" :: bits :: disp :: r =>
    match bytesOfHex? bits, bytesOfHex? disp with
    | some bb, some d => some (.float (bb.foldl (fun a b => a * 256 + b.toNat) 0) d, r)
    | _, _ => none
  | "b" :: x :: r => some (.bool (x == "1"), r)
  | "d" :: d :: t :: o :: r => (c06Datetime d t o).map fun dt => (.dt dt, r)
  | "[" :: r => (c06Values r []).map fun (vs, r') => (.arr false vs, r')
  | "[i" :: r => (c06Values r []).map fun (vs, r') => (.arr true vs, r')
  | "{" :: r => (c06Pairs r []).map fun (kvs, r') => (.inl false kvs, r')
  | "{i" :: r => (c06Pairs r []).map fun (kvs, r') => (.inl true kvs, r')
  | _ => none
partial def c06Values : Toks → List BVal → Option (List BVal × Toks)
  | "]" :: r, acc => some (acc, r)
  | ts, acc =>
    match c06Value ts with
    | some (v, r) => c06Values r (acc ++ [v])
    | none => none
partial def c06Pairs : Toks → List (Bytes × BVal) → Option (List (Bytes × BVal) × Toks)
  | "}" :: r, acc => some (acc, r)
  | k :: ts, acc =>
    match bytesOfHex? k, c06Value ts with
    | some k, some (v, r) => c06Pairs r (acc ++ [(k, v)])
    | _, _ => none
  | [], _ => none
end

mutual
partial def c06Table : Toks → Option (BTbl × Toks)
  | "T{" :: r => (c06Items r []).map fun (kvs, r') => (.mk kvs, r')
  | "T{i" :: r => (c06Items r []).map fun (kvs, r') => (.mk kvs, r')
  | _ => none
partial def c06Item : Toks → Option (BItem × Toks)
  | "T{" :: r => (c06Table ("T{" :: r)).map fun (t, r') => (.table t, r')
  | "T{i" :: r => (c06Table ("T{" :: r)).map fun (t, r') => (.table t, r')
  | "A[" :: r => (c06Tables r []).map fun (ts, r') => (.aot ts, r')
  | "A[i" :: r => (c06Tables r []).map fun (ts, r') => (.aot ts, r')
  | ts => (c06Value ts).map fun (v, r) => (.value v, r)
partial def c06Items : Toks → List (Bytes × BItem) → Option (List (Bytes × BItem) × Toks)
  | "}" :: r, acc => some (acc, r)
  | k :: ts, acc =>
    match bytesOfHex? k, c06Item ts with
    | some k, some (i, r) => c06Items r (acc ++ [(k, i)])
    | _, _ => none
  | [], _ => none
partial def c06Tables : Toks → List BTbl → Option (List BTbl × Toks)
  | "]" :: r, acc => some (acc, r)
  | ts, acc =>
    match c06Table ts with
    | some (t, r) => c06Tables r (acc ++ [t])
    | none => none
end

/-- is the supplied text a plain decimal whose correctly rounded value is the bit pattern
    (or the number is not finite)? -/
def dispOk (bits : Nat) (disp : Bytes) : Bool :=
  let expField := bits / 2 ^ 52 % 2 ^ 11
  let mant := bits % 2 ^ 52
  if expField == 2047 then
    (if mant != 0 then disp == strBytes "NaN"
     else disp == (if bits / 2 ^ 63 == 1 then strBytes "-inf" else strBytes "inf"))
  else match plainDecimal? disp with
    | none => false
    | some (n, ip, fr) =>
      Ieee.roundDecimal n (Numbers.natOfDigitsBase 10 (ip ++ fr)) (-(fr.length : Int)) == bits

partial def floatsOkV : BVal → Bool
  | .float b d => dispOk b d
  | .arr _ vs => vs.all floatsOkV
  | .inl _ kvs => kvs.all fun (_, v) => floatsOkV v
  | _ => true
mutual
partial def floatsOkI : BItem → Bool
  | .value v => floatsOkV v
  | .table t => floatsOkT t
  | .aot ts => ts.all floatsOkT
partial def floatsOkT : BTbl → Bool
  | .mk items => items.all fun (_, i) => floatsOkI i
end

def docOut (d : DTbl) (fl : Bool) : String :=
  let txt := printDoc d
  let (rp, ro) := match Doc.parseDocument txt with
    | some t => (plainTbl t, ordTbl t)
    | none => ("err", "err")
  let b := tblOf d
  s!"txt={hexOut txt} rp={rp} bp={plainTbl b} ro={ro} bo={ordTbl b} twice=1 fl={b01 fl}"

def c06 (line : String) : String :=
  match line.splitOn " " with
  | "e" :: ts | "n" :: ts =>
    match c06Table ts with
    | some (t, []) => docOut (buildTbl t) (floatsOkT t)
    | _ => "bad-op"
  | "v" :: ts =>
    match c06Value ts with
    | some (v, []) =>
      let d := buildVal v
      let txt := printValue d
      let (rp, ro) := match Value.parseValue txt with
        | some w => (plainVal w, ordVal w)
        | none => ("err", "err")
      let b := valOf d
      s!"txt={hexOut txt} rp={rp} bp={plainVal b} ro={ro} bo={ordVal b} twice=1 fl={b01 (floatsOkV v)}"
    | _ => "bad-op"
  | ["k", hx] =>
    match bytesOfHex? hx with
    | some k =>
      let txt := printKey k
      let a := match Key.simpleKey txt with
        | .ok k2 [] => hexOut k2
        | _ => "err"
      let b := match Value.keyPath txt with
        | .ok [k2] [] => hexOut k2
        | .ok ks [] => s!"path{ks.length}"
        | _ => "err"
      s!"txt={hexOut txt} rp={a} rpath={b} bp={hexOut k} twice=1"
    | none => "bad-op"
  | "b" :: ts =>
    match c06Table ts with
    | some (t, []) =>
      let d := buildTbl t
      let txt := printTableBody d
      let (rp, ro) := match Doc.parseDocument txt with
        | some t => (plainTbl t, ordTbl t)
        | none => ("err", "err")
      let b := tblOf d
      s!"txt={hexOut txt} rp={rp} bp={plainTbl b} ro={ro} bo={ordTbl b} twice=1 fl={b01 (floatsOkT t)}"
    | _ => "bad-op"
  | "t" :: ts =>
    match c06Value ts with
    | some (v, []) =>
      match tomlDoc v with
      | some d =>
        let txt := printDoc d
        let rp := match Doc.parseDocument txt with
          | some t => plainTbl t
          | none => "err"
        -- `bp`: the value itself as plain data (keys sorted, a later duplicate wins)
        s!"txt={hexOut txt} rp={rp} re={rp} bp={plainVal (valOf (buildVal v))} twice=1 fl={b01 (floatsOkV v)}"
      | none => "bad-op"
    | _ => "bad-op"
  | "u" :: ts =>
    match c06Value ts with
    | some (v, []) =>
      let txt := tomlValueText v
      let re := match Value.parseValue txt with
        | some w => plainVal w
        | none => "err"
      -- `rp`: `x = <text>` read by the `toml` crate, whose deserializer turns the one-entry table
      -- `{ "$__toml_private_datetime" = s }` back into the date-time `s` spells
      let rp := match Value.parseValue txt with
        | some (.inl [(k, .str s)] _ _) =>
          if k == DATETIME_FIELD then
            match Datetime.Std.fromStr s with
            | some d => plainVal (.dt d)
            | none => "err"
          else re
        | _ => re
      s!"txt={hexOut txt} rp={rp} re={re} bp={plainVal (valOf (buildVal v))} twice=1 fl={b01 (floatsOkV v)}"
    | _ => "bad-op"
  | _ => "bad-op"

/-- mode `c06s`: the instance of `Props.C06.T06_doc_statement` / `T06_inline_statement` at the case,
    evaluated on the model (`st=1`: the equation holds, `st=0`: it fails, `st=-`: route without statement) -/
def c06s (line : String) : String :=
  match line.splitOn " " with
  | "e" :: ts | "n" :: ts =>
    match c06Table ts with
    | some (t, []) =>
      let d := buildTbl t
      let ok := Spec.Encode06.beqOptTbl ((Doc.parseDocument (printDoc d)).map Spec.Encode06.eraseTbl) (some (Spec.Encode06.expectT d))
      s!"st={b01 ok}"
    | _ => "bad-op"
  | "v" :: ts =>
    match c06Value ts with
    | some (v, []) =>
      let d := buildVal v
      let ok := Spec.Encode06.beqOptVal (Value.parseValue (printValue d)) (some (Spec.Encode06.canonValD d))
      s!"st={b01 ok}"
    | _ => "bad-op"
  | _ => "st=-"

end TomlVerif.Driver
