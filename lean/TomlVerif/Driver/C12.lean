import TomlVerif.Model.Datetime
namespace TomlVerif.Driver
open TomlVerif TomlVerif.Model.Datetime

def showDt (d : Datetime) : String :=
  let ds := match d.date with | some x => s!"{x.year}-{x.month}-{x.day}" | none => "-"
  let ts := match d.time with | some t => s!"{t.hour}:{t.minute}:{t.second}:{t.nanosecond}" | none => "-"
  let os := match d.offset with | some .z => "Z" | some (.custom m) => toString m | none => "-"
  s!"{ds}|{ts}|{os}"

def showOpt : Option Datetime → String
  | some d => showDt d
  | none => "err"

def parseDateField (s : String) : Option (Option Date) :=
  if s == "-" then some none else
  match s.splitOn "-" with
  | [y, m, d] => match y.toNat?, m.toNat?, d.toNat? with
    | some y, some m, some d => some (some ⟨y, m, d⟩)
    | _, _, _ => none
  | _ => none

def parseTimeField (s : String) : Option (Option Time) :=
  if s == "-" then some none else
  match s.splitOn ":" with
  | [h, m, sec, ns] => match h.toNat?, m.toNat?, sec.toNat?, ns.toNat? with
    | some h, some m, some sec, some ns => some (some ⟨h, m, sec, ns⟩)
    | _, _, _, _ => none
  | _ => none

def parseOffField (s : String) : Option (Option Offset) :=
  if s == "-" then some none
  else if s == "Z" then some (some .z)
  else match s.toInt? with
    | some i => some (some (.custom i))
    | none => none

def c12 (line : String) : String :=
  match line.splitOn " " with
  | ["s", hx] =>
    match bytesOfHex? hx with
    | some s =>
      let a := Std.fromStr s
      let b := Doc.parseAll s
      let disp := match a with | some d => hexOut (Std.display d) | none => "-"
      let rt := match a with
        | some d => s!"{showOpt (Std.fromStr (Std.display d))},{showOpt (Doc.parseAll (Std.display d))}"
        | none => "-"
      s!"std={showOpt a} doc={showOpt b} disp={disp} rt={rt}"
    | none => "bad-op"
  | ["v", d, t, o] =>
    match parseDateField d, parseTimeField t, parseOffField o with
    | some d, some t, some o =>
      let dt : Datetime := ⟨d, t, o⟩
      let txt := Std.display dt
      s!"disp={hexOut txt} std={showOpt (Std.fromStr txt)} doc={showOpt (Doc.parseAll txt)}"
    | _, _, _ => "bad-op"
  | _ => "bad-op"

end TomlVerif.Driver
