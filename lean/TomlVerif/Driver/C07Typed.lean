import TomlVerif.Model.SerTyped
import TomlVerif.Lemmas.RoundTrip17e
import TomlVerif.Driver.C07
import TomlVerif.Driver.C13Typed
/-! Driver side of the typed cases of mode `c07` (same case lines and output as harness/src/c07typed.rs):
    `rtt<flags> <ty> <dec>` — a Rust value `dec` of the type `ty` of the grammar of Model/DeTyped.lean:
      * `sval`      the serde calls of its `Serialize` impl: `SerTyped.serOf` (the TRUSTED description this ties to
                    serde_derive's real output);
      * the routes of Model/Ser.lean on those calls (the fields of a `d` case);
      * every successful route read back into the same type: the text routes through `tomlRoute` / `editRoute` on the
        parsed text (where the model has the text: float-free trees; otherwise on the route's tree with canonical NaNs),
        `to_document` through `editRoute` on the document, `Value::try_from` / `Table::try_from` through `decodeValue`.
    The harness is the default build: `Flavour.sorted`. -/
namespace TomlVerif.Driver
open TomlVerif TomlVerif.Model TomlVerif.Model.Ser TomlVerif.Spec.Serde
open TomlVerif.Model.TomlValue TomlVerif.Model.DeRoutes TomlVerif.Model.DeTyped TomlVerif.Model.SerTyped
open TomlVerif.Model.Datetime (Datetime)

namespace C07t
open C07h C13Typed

/-! ### the value encoding (`showDec`, read back) -/

def isHexWordChar (c : Char) : Bool := c.isDigit || ('a' ≤ c && c ≤ 'f') || c == '-'

def hexWord : List Char → List Char → List Char × List Char
  | acc, [] => (acc.reverse, [])
  | acc, c :: r => if isHexWordChar c then hexWord (c :: acc) r else (acc.reverse, c :: r)

/-- up to one of `;` `)` `]` `}` `=` -/
def upto : List Char → List Char → List Char × List Char
  | acc, [] => (acc.reverse, [])
  | acc, c :: r =>
    if c == ';' || c == ')' || c == ']' || c == '}' || c == '=' then (acc.reverse, c :: r) else upto (c :: acc) r

def hexBytes (s : List Char) : Option (Bytes × List Char) :=
  let (w, r) := hexWord [] s
  if w == ['-'] then some ([], r)
  else if w.isEmpty || w.length % 2 != 0 || w.contains '-' then none
  else (bytesOfHex? (String.ofList w)).map fun b => (b, r)

/-- a name / string: UTF-8 (the harness holds them as `String`) -/
def hexName (s : List Char) : Option (Bytes × List Char) :=
  match hexBytes s with
  | some (b, r) => if Spec.Utf8.valid b then some (b, r) else none
  | none => none

def fixHex (n : Nat) (s : List Char) : Option (Nat × List Char) :=
  let (w, r) := hexWord [] s
  if w.length != n || w.contains '-' then none
  else (w.foldlM (fun acc c => (hexVal? c).map fun d => acc * 16 + d) 0).map fun v => (v, r)

def datetimeOf (t : String) : Option Datetime :=
  match t.splitOn "|" with
  | [d, tm, o] =>
    match parseDateField d, parseTimeField tm, parseOffField o with
    | some d, some tm, some o => some ⟨d, tm, o⟩
    | _, _, _ => none
  | _ => none

/-- the fields as the harness can hold them (`u16` / `u8` / `u32` / `i16`) -/
def dtFits (d : Datetime) : Bool :=
  (match d.date with | some x => x.year < 65536 && x.month < 256 && x.day < 256 | none => true) &&
  (match d.time with | some t => t.hour < 256 && t.minute < 256 && t.second < 256 && t.nanosecond < 4294967296 | none => true) &&
  (match d.offset with | some (.custom m) => decide (-32768 ≤ m) && decide (m ≤ 32767) | _ => true)

def parseDt (s : List Char) : Option (Datetime × List Char) :=
  let (t, r) := upto [] s
  match datetimeOf (String.ofList t) with
  | some d => if dtFits d then some (d, r) else none
  | none => none

mutual
partial def parsePV : List Char → Option (TV × List Char)
  | 's' :: r => (hexName r).map fun (b, r') => (.str b, r')
  | 'i' :: r =>
    let (t, r') := upto [] r
    match (String.ofList t).toInt? with
    | some n => if decide (i64Min ≤ n) && decide (n ≤ i64Max) then some (.int n, r') else none
    | none => none
  | 'f' :: r => (fixHex 16 r).map fun (n, r') => (.float n, r')
  | 'b' :: '0' :: r => some (.bool false, r)
  | 'b' :: '1' :: r => some (.bool true, r)
  | 'd' :: r => (parseDt r).map fun (d, r') => (.dt d, r')
  | '[' :: ']' :: r => some (.arr [], r)
  | '[' :: r => parsePVs r []
  | '{' :: '}' :: r => some (.tbl [], r)
  | '{' :: r => parsePVEntries r []
  | _ => none
partial def parsePVs (s : List Char) (acc : List TV) : Option (TV × List Char) :=
  match parsePV s with
  | some (v, ';' :: r) => parsePVs r (v :: acc)
  | some (v, ']' :: r) => some (.arr (v :: acc).reverse, r)
  | _ => none
partial def parsePVEntries (s : List Char) (acc : List (Bytes × TV)) : Option (TV × List Char) :=
  match hexName s with
  | some (k, '=' :: r1) =>
    match parsePV r1 with
    | some (v, ';' :: r2) => parsePVEntries r2 ((k, v) :: acc)
    | some (v, '}' :: r2) => some (.tbl ((k, v) :: acc).reverse, r2)
    | _ => none
  | _ => none
end

mutual
partial def parseDec : List Char → Option (Dec × List Char)
  | 'b' :: '0' :: r => some (.bool false, r)
  | 'b' :: '1' :: r => some (.bool true, r)
  | 'i' :: r =>
    let (t, r') := upto [] r
    (String.ofList t).toInt?.map fun n => (.int n, r')
  | 'f' :: r => (fixHex 16 r).map fun (n, r') => (.f64 n, r')
  | 'g' :: r => (fixHex 8 r).map fun (n, r') => (.f32 n, r')
  | 's' :: r => (hexName r).map fun (b, r') => (.str b, r')
  | 'c' :: r => (hexName r).map fun (b, r') => (.char b, r')
  | 'u' :: r => some (.unit, r)
  | 'd' :: r => (parseDt r).map fun (d, r') => (.dt d, r')
  | 'V' :: r => (parsePV r).map fun (v, r') => (.value v, r')
  | '_' :: r => some (.ignored, r)
  | 'D' :: r => some (.dflt, r)
  | 'N' :: r => some (.none, r)
  | 'O' :: '(' :: r => match parseDec r with | some (d, ')' :: r') => some (.some d, r') | _ => none
  | 'W' :: '(' :: r => match parseDec r with | some (d, ')' :: r') => some (.newtype d, r') | _ => none
  | '[' :: r => (parseDecs ']' r []).map fun (l, r') => (.seq l, r')
  | '(' :: r => (parseDecs ')' r []).map fun (l, r') => (.tuple l, r')
  | '{' :: r => (parseNamed r []).map fun (l, r') => (.map l, r')
  | 'S' :: '{' :: r => (parseNamed r []).map fun (l, r') => (.struct l, r')
  | 'E' :: r =>
    match hexName r with
    | some (n, ':' :: r1) => (parseDec r1).map fun (d, r') => (.vNewtype n d, r')
    | some (n, '(' :: r1) => (parseDecs ')' r1 []).map fun (l, r') => (.vTuple n l, r')
    | some (n, '{' :: r1) => (parseNamed r1 []).map fun (l, r') => (.vStruct n l, r')
    | some (n, r1) => some (.vUnit n, r1)
    | none => none
  | _ => none
/-- after the opening bracket: items separated by `;` up to `close` -/
partial def parseDecs (close : Char) (s : List Char) (acc : List Dec) : Option (List Dec × List Char) :=
  match s with
  | c :: r => if c == close && acc.isEmpty then some ([], r) else
    match parseDec s with
    | some (d, c' :: r') =>
      if c' == close then some ((d :: acc).reverse, r')
      else if c' == ';' then parseDecs close r' (d :: acc)
      else none
    | _ => none
  | [] => none
partial def parseNamed (s : List Char) (acc : List (Bytes × Dec)) : Option (List (Bytes × Dec) × List Char) :=
  match s with
  | '}' :: r => if acc.isEmpty then some ([], r) else none
  | _ =>
    match hexName s with
    | some (k, '=' :: r1) =>
      match parseDec r1 with
      | some (d, ';' :: r2) => parseNamed r2 ((k, d) :: acc)
      | some (d, '}' :: r2) => some (((k, d) :: acc).reverse, r2)
      | _ => none
    | _ => none
end

def parseDecAll (s : String) : Option Dec :=
  match parseDec s.toList with
  | some (d, []) => some d
  | _ => none

/-! ### the serde calls as tokens (harness/src/c07.rs `tokens`) -/

def showIntW : IntW → String
  | .i8 => "i8" | .i16 => "i16" | .i32 => "i32" | .i64 => "i64" | .u8 => "u8" | .u16 => "u16" | .u32 => "u32" | .u64 => "u64"
  | .i128 => "i128" | .u128 => "u128"

mutual
partial def tokensOf : SVal → List String
  | .bool b => [if b then "b1" else "b0"]
  | .int w n => [s!"{showIntW w}:{n}"]
  | .f32 b => ["f32:" ++ hex8 b]
  | .f64 b => ["f64:" ++ hex16 b]
  | .char cp => [s!"c:{cp}"]
  | .str s => ["s:" ++ hexOut s]
  | .bytes b => ["y:" ++ hexOut b]
  | .none => ["none"]
  | .some v => "some" :: tokensOf v
  | .unit => ["unit"]
  | .unitStruct n => ["us:" ++ hexOut n]
  | .newtype n v => "nt" :: hexOut n :: tokensOf v
  | .seq xs => "seq" :: toString xs.length :: tokensList xs
  | .tuple xs => "tup" :: toString xs.length :: tokensList xs
  | .tupleStruct n xs => "ts" :: hexOut n :: toString xs.length :: tokensList xs
  | .map kvs => "map" :: toString kvs.length :: (kvs.map fun (k, v) => tokensOf k ++ tokensOf v).flatten
  | .struct n fs => "st" :: hexOut n :: toString fs.length :: tokensFields fs
  | .unitVariant n v => ["uv", hexOut n, hexOut v]
  | .newtypeVariant n v x => "nv" :: hexOut n :: hexOut v :: tokensOf x
  | .tupleVariant n v xs => "tv" :: hexOut n :: hexOut v :: toString xs.length :: tokensList xs
  | .structVariant n v fs => "sv" :: hexOut n :: hexOut v :: toString fs.length :: tokensFields fs
partial def tokensList (xs : List SVal) : List String := (xs.map tokensOf).flatten
partial def tokensFields (fs : List (Bytes × SVal)) : List String := (fs.map fun (k, v) => hexOut k :: tokensOf v).flatten
end

/-! ### reading back -/

/-- the root `Table` of `toml_edit::ser::to_document`: every entry an `Item::Value` (`Props.C07RoundTrip.rootItem`) -/
def rootItem (kvs : List (Bytes × V)) : Item :=
  .table (.mk (kvs.map fun kv => (kv.1, Item.value (TomlVerif.Lemmas.RoundTrip17.valOf (TomlVerif.Lemmas.Ser07Text.tvOf kv.2)))) false false none)

def back (r : R Dec) : String := (showR r).getD "err"

/-- what a text route's text parses to: the model's own text where it has one, otherwise the route's tree (the data of
the text) with the NaNs a text can say -/
def parsedOf (kvs : List (Bytes × V)) (t : Except SerErr Bytes) : Option Item :=
  match t with
  | .ok b => if hasFloatKVs kvs then some (rootItem (TomlVerif.Lemmas.Ser07Text.canonKVs kvs)) else (Doc.parseDocument b).map Item.table
  | .error _ => some (rootItem (TomlVerif.Lemmas.Ser07Text.canonKVs kvs))

def textBack (name : String) (ty : Ty) (r : Except SerErr (List (Bytes × V))) (t : Except SerErr Bytes) : List String :=
  match r with
  | .error _ => []
  | .ok kvs =>
    match parsedOf kvs t with
    | some it => [s!"{name}.td={back (tomlRoute editAsIs .sorted ty it)}", s!"{name}.ed={back (editRoute editAsIs .sorted ty it)}"]
    | none => [s!"{name}.td=err", s!"{name}.ed=err"]

end C07t
open C07t C07h C13Typed

/-- the Rust name of every struct / enum of the value (harness: `DynVal.nm`) -/
def rttName : Bytes := strBytes "S"

open TomlVerif.Lemmas.Ser07Text in
def c07typed (line : String) : String :=
  match line.splitOn " " with
  | [kind, tys, decs] =>
    if !kind.startsWith "rtt" then "bad-op" else
    match parseTyAll tys, parseDecAll decs with
    | some ty, some d =>
      if !(WfTy ty && WellTyped ty d) then "ill-typed" else
      match serOf rttName ty d with
      | none => "ill-typed"
      | some v =>
        let flags : String := (kind.drop 3).toString
        let has (c : Char) : Bool := flags.toList.contains c
        let fx : ValFix := ⟨has 'n', has 't'⟩
        let noDisp : FloatDisp := fun _ => []
        let rt := routeToml (has 'r') v
        let texts :=
          textBack "ts" ty rt (textToml (has 'r') noDisp v) ++
          textBack "tp" ty rt (textTomlPretty (has 'r') noDisp v) ++
          textBack "es" ty (routeEdit v) (textEdit noDisp v) ++
          textBack "ep" ty (routeEditPretty (has 'g') v)
            (if has 'g' then textEditPretty noDisp v else .error .custom)
        let doc := match serDocument v with
          | .ok kvs => [s!"ed.de={back (editRoute editAsIs .sorted ty (rootItem kvs))}"]
          | .error _ => []
        let vt := match valSer fx v with
          | .ok x => [s!"vt.de={back (decodeValue valueAsIs .sorted ty (TomlVerif.Lemmas.RoundTrip17.placeTV .sorted (tvOf x)))}"]
          | .error _ => []
        let tt := match tableSer fx (has 'b') v with
          | .ok kvs => [s!"tt.de={back (decodeValue valueAsIs .sorted ty (TomlVerif.Lemmas.RoundTrip17.placeTV .sorted (tvOf (.inl kvs))))}"]
          | .error _ => []
        " ".intercalate ([c07Val flags v] ++ texts ++ doc ++ vt ++ tt ++ ["sval=" ++ ",".intercalate (tokensOf v)])
    | _, _ => "bad-op"
  | _ => "bad-op"

end TomlVerif.Driver
