import TomlVerif.Model.Encode
import TomlVerif.Driver.Canon
namespace TomlVerif.Driver
open TomlVerif TomlVerif.Model

/-- C03: `<hex document>` → `ok p=<hex of the printed document>` / `err` -/
def c03 (line : String) : String :=
  match bytesOfHex? line with
  | none => "bad-op"
  | some s =>
    match Cst.parseCstSlice s with
    | some d => "ok p=" ++ hexOut (Encode.printDoc s d)
    | none => "err"

/-- C14: `<hex document>` → `ok spans=<list>` / `err` -/
def c14 (line : String) : String :=
  match bytesOfHex? line with
  | none => "bad-op"
  | some s =>
    match Cst.parseCstSlice s with
    | some d => "ok spans=" ++ ",".intercalate (Encode.spanList d)
    | none => "err"

/-- cross-check of the layout-recording parser against the semantic model: same verdict, and the
    tree with the layout erased is the semantic tree -/
def cstSem (line : String) : String :=
  match bytesOfHex? line with
  | none => "bad-op"
  | some s =>
    match Cst.parseCstSlice s, Doc.parseSlice s with
    | some d, some t => if canonTbl (Cst.eraseTbl d.root) == canonTbl t then "ok same" else "ok DIFF"
    | none, none => "err same"
    | some _, none => "VERDICT cst=ok sem=err"
    | none, some _ => "VERDICT cst=err sem=ok"
end TomlVerif.Driver
