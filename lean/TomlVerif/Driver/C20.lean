import TomlVerif.Model.Visit
import TomlVerif.Driver.Canon
namespace TomlVerif.Driver
open TomlVerif TomlVerif.Model TomlVerif.Model.Visit

def showEv : Ev → String
  | .doc => "doc"
  | .item => "item"
  | .table => "table"
  | .inline => "inline"
  | .tablelike => "tablelike"
  | .kv k => "kv:" ++ hexOut k
  | .aot => "aot"
  | .array => "array"
  | .value => "value"
  | .bool b => "bool:" ++ b01 b
  | .dt d => "dt:" ++ showDt d
  | .float b => "float:" ++ hex16 b
  | .int n => s!"int:{n}"
  | .str s => "str:" ++ hexOut s

def showTrace (evs : List Ev) : String :=
  if evs.isEmpty then "-" else ",".intercalate (evs.map showEv)

/-- case: `<hex document>` → `ok ro=<trace> mut=<trace> before=<tree> after=<tree>` | `err` -/
def c20 (line : String) : String :=
  match bytesOfHex? line with
  | none => "bad-op"
  | some s =>
    match Doc.parseSlice s with
    | none => "err"
    | some t =>
      s!"ok ro={showTrace (trace t)} mut={showTrace (traceMut t)} before={canonTbl t} after={canonTbl (rewriteInts incr t)}"

end TomlVerif.Driver
