import TomlVerif.Driver.Canon
namespace TomlVerif.Driver
open TomlVerif TomlVerif.Model

/-- canonical tree without flags (what every feature cell can print) -/
partial def bareVal : Val → String
  | .arr vs => "[" ++ ";".intercalate (vs.map bareVal) ++ "]"
  | .inl items _ _ => "{" ++ ";".intercalate (items.map fun (k, v) => hexOut k ++ "=" ++ bareVal v) ++ "}"
  | .dt d => "d" ++ String.ofList ((Datetime.Std.display d).map fun b => Char.ofNat b.toNat)
  | .bool b => "b" ++ b01 b
  | v => canonVal v

mutual
partial def bareItem : Item → String
  | .value v => bareVal v
  | .table t => bareTbl t
  | .aot ts => "A[" ++ ";".intercalate (ts.map bareTbl) ++ "]"
partial def bareTbl : Tbl → String
  | .mk items _ _ _ => "T{" ++ ";".intercalate (items.map fun (k, v) => hexOut k ++ "=" ++ bareItem v) ++ "}"
end

/-- plain data with a configurable table order: `sorted = true` is the default map, `false` is insertion order (preserve_order) -/
partial def orderedVal (sorted : Bool) : Val → String
  | .arr vs => "[" ++ ";".intercalate (vs.map (orderedVal sorted)) ++ "]"
  | .inl items _ _ =>
    let ps := items.map fun (k, v) => (k, orderedVal sorted v)
    let ps := if sorted then sortPairs ps else ps
    "{" ++ ";".intercalate (ps.map fun (k, s) => hexOut k ++ "=" ++ s) ++ "}"
  | v => bareVal v

mutual
partial def orderedItem (sorted : Bool) : Item → String
  | .value v => orderedVal sorted v
  | .table t => orderedTbl sorted t
  | .aot ts => "[" ++ ";".intercalate (ts.map (orderedTbl sorted)) ++ "]"
partial def orderedTbl (sorted : Bool) : Tbl → String
  | .mk items _ _ _ =>
    let ps := items.map fun (k, v) => (k, orderedItem sorted v)
    let ps := if sorted then sortPairs ps else ps
    "{" ++ ";".intercalate (ps.map fun (k, s) => hexOut k ++ "=" ++ s) ++ "}"
end

/-- `doc <hex>`: the model has exactly two configuration parameters: map order and the recursion limit;
    both orders are printed, the check picks the one the cell documents -/
def c18 (line : String) : String :=
  match line.splitOn " " with
  | ["doc", hx] =>
    match bytesOfHex? hx with
    | none => "bad-op"
    | some s =>
      match Doc.parseSlice s with
      | some t => s!"ok edit={bareTbl t} toml_sorted={orderedTbl true t} toml_insertion={orderedTbl false t}"
      | none => "err"
  | _ => "n/a"
end TomlVerif.Driver
