import TomlVerif.Model.Macro
/-! Driver mode c19: hex document text → tokens → model of `toml!` → canonical sorted tree,
    `unsupported` (text outside the token subset / expansion would not compile) or `PANIC`. -/
namespace TomlVerif.Driver
open TomlVerif TomlVerif.Model TomlVerif.Model.Macro

def c19Hex16 (n : Nat) : String :=
  let ds := Nat.toDigits 16 n
  String.ofList (List.replicate (16 - ds.length) '0' ++ ds)

def c19BytesLt : Bytes → Bytes → Bool
  | [], [] => false
  | [], _ :: _ => true
  | _ :: _, [] => false
  | a :: r, b :: s => if a < b then true else if b < a then false else c19BytesLt r s

def c19Insert (x : Bytes × String) : List (Bytes × String) → List (Bytes × String)
  | [] => [x]
  | y :: r => if c19BytesLt x.1 y.1 then x :: y :: r else y :: c19Insert x r

def c19Sort (l : List (Bytes × String)) : List (Bytes × String) := l.foldr c19Insert []

def asciiString (bs : Bytes) : String := String.ofList (bs.map fun b => Char.ofNat b.toNat)

partial def c19Canon : MVal → String
  | .str s => "s" ++ hexOut s
  | .int n => s!"i{n}"
  | .float b => "f" ++ c19Hex16 b
  | .bool b => if b then "b1" else "b0"
  | .dt d => "d" ++ asciiString (Datetime.Std.display d)
  | .arr vs => "[" ++ ";".intercalate (vs.map c19Canon) ++ "]"
  | .tbl items =>
    "{" ++ ";".intercalate ((c19Sort (items.map fun (k, v) => (k, c19Canon v))).map fun (k, s) => hexOut k ++ "=" ++ s) ++ "}"

def c19Show : R MVal → String
  | .ok v => c19Canon v
  | .unsupported => "unsupported"
  | .panic => "PANIC"

def c19With (keep : Option Bool) (hx : String) : String :=
  match bytesOfHex? hx with
  | none => "bad-op"
  | some s =>
    match Macro.tokens s with
    | none => "unsupported"
    | some ts =>
      match keep with
      | none => c19Show (Macro.macroDoc ts)
      | some k => c19Show (Macro.macroDocWith k ts)

/-- `<hex>`: the macro as pinned (Model/MacroArms.lean); `i <hex>` / `k <hex>`: the header arm with `insert_toml`
    (as found, defect F8) / with the repair `table_toml` -/
def c19 (line : String) : String :=
  match line.splitOn " " with
  | [hx] => c19With none hx
  | ["i", hx] => c19With (some false) hx
  | ["k", hx] => c19With (some true) hx
  | _ => "bad-op"

end TomlVerif.Driver
