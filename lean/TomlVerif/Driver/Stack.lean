import TomlVerif.Driver.Canon
namespace TomlVerif.Driver
open TomlVerif TomlVerif.Model
/-- what the model predicts for the `stack` mode: verdict and depth (it cannot exhibit a stack overflow) -/
def stackLine (line : String) : String :=
  match bytesOfHex? line with
  | none => "bad-op"
  | some s =>
    match Doc.parseSlice s with
    | some t => s!"ok depth={depthTbl t}"
    | none => "err"
end TomlVerif.Driver
