import TomlVerif.Model.Containers
import TomlVerif.Basic
/-! driver mode `c16`: `<container> <op>;<op>;…` → results `;`-joined ` | ` final observation -/
namespace TomlVerif.Driver
open TomlVerif TomlVerif.Model.Containers

namespace C16

/-- an argument: a key `a`..`d` (0..3) or `k00`..`k99` (4..103), or a decimal number -/
def tokNat (s : String) : Option Nat :=
  match s.toList with
  | [c] => if 'a' ≤ c ∧ c ≤ 'd' then some (c.toNat - 97) else s.toNat?
  | ['k', x, y] =>
    if x.isDigit ∧ y.isDigit then some (4 + (x.toNat - 48) * 10 + (y.toNat - 48)) else none
  | _ => s.toNat?

def parseOp (s : String) : Op :=
  match s.splitOn " " with
  | [] => .bad
  | name :: args =>
    match args.mapM tokNat with
    | none => .bad
    | some a =>
      match name, a with
      | "ins", [k, n] => .ins k n
      | "insf", [k, n] => .insf k n
      | "rem", [k] => .rem k
      | "reme", [k] => .reme k
      | "get", [k] => .get k
      | "getmut", [k] => .getmut k
      | "gkv", [k] => .gkv k
      | "has", [k] => .has k
      | "hasv", [k] => .hasv k
      | "hast", [k] => .hast k
      | "len", [] => .len
      | "empty", [] => .empty
      | "iter", [] => .iter
      | "keys", [] => .keys
      | "values", [] => .values
      | "clear", [] => .clear
      | "entry", [k, n] => .entry k n
      | "entocc", [k] => .entocc k
      | "entrem", [k] => .entrem k
      | "entins", [k, n] => .entins k n
      | "entget", [k] => .entget k
      | "entmut", [k, n] => .entmut k n
      | "entwith", [k, n] => .entwith k n
      | "entkey", [k] => .entkey k
      | "goi", [k, n] => .goi k n
      | "idx", [k] => .idx k
      | "idxmut", [k] => .idxmut k
      | "idxset", [k, n] => .idxset k n
      | "retain", [] => .retain
      | "sort", [] => .sort
      | "sortby", [] => .sortby
      | "extend", l => .extend l
      | "push", [n] => .push n
      | "repl", [i, n] => .repl i n
      | _, _ => .bad

def parseOps (s : String) : List Op :=
  ((s.splitOn ";").filter fun x => !x.isEmpty && x != "-").map parseOp

def slotTok : Slot → String
  | .placeholder => "placeholder"
  | .item (.int n) => s!"v{n}"
  | .item .tbl => "vt"

def optTok : Option Slot → String
  | some s => slotTok s
  | none => "none"

def joinTok (l : List String) : String := if l.isEmpty then "-" else ",".intercalate l

def pairTok (e : Nat × Slot) : String := keyName e.1 ++ "=" ++ slotTok e.2

def tf (b : Bool) : String := if b then "t" else "f"

def retTok : Ret → String
  | .unit => "ok"
  | .opt o => optTok o
  | .kv (some e) => pairTok e
  | .kv none => "none"
  | .bool b => tf b
  | .nat n => toString n
  | .pairs l => joinTok (l.map pairTok)
  | .keys l => joinTok (l.map keyName)
  | .vals l => joinTok (l.map fun n => s!"v{n}")
  | .slot s => slotTok s
  | .panic => "panic"
  | .na => "na"

def retsTok (l : List Ret) : String := ";".intercalate (l.map retTok)

def hexStr (s : String) : String := hexOut (strBytes s)

def finalTok (f : Final) : String :=
  let into := match f.into with
    | some l => joinTok (l.map pairTok)
    | none => "na"
  s!"len={f.len} empty={tf f.empty} iter={joinTok (f.iter.map pairTok)} get={",".intercalate (f.gets.map optTok)} into={into} print={hexStr f.print}"

/-- the harness prints the outcome of the Entry API per call: `occ`/`vac`, and `vac` where a lookup prints `none` -/
def opTok : Op → Ret → String
  | .entocc _, .bool true => "occ"
  | .entocc _, .bool false => "vac"
  | .entrem _, .opt none => "vac"
  | .entins _ n, .opt (some s) => s!"{slotTok s}>v{n}"
  | .entins _ n, .opt none => s!"vac>v{n}"
  | .entget k, .kv none => "vac:" ++ keyName k
  | .entmut _ n, .opt (some s) => s!"{slotTok s}>v{n}"
  | .entmut _ _, .opt none => "vac"
  | .entkey k, .bool true => "occ:" ++ keyName k
  | .entkey k, .bool false => "vac:" ++ keyName k
  | _, x => retTok x

def entoccFix (ops : List Op) (rets : List Ret) : List String :=
  (ops.zip rets).map fun (op, x) => opTok op x

def mapLike (d : Dialect) (init : Items) (ops : List Op) : String :=
  let r := run current d init ops
  s!"{";".intercalate (entoccFix ops r.1)} | {finalTok (observe current d r.2)}"

def vecFinal (len : Nat) (iter : List Nat) (print : String) : String :=
  let it := joinTok (iter.map fun n => s!"v{n}")
  s!"len={len} empty={tf (len == 0)} iter={it} into={it} print={hexStr print}"

end C16

open C16 in
def c16 (line : String) : String :=
  let (container, rest) := match line.splitOn " " with
    | [] => ("", "")
    | c :: r => (c, " ".intercalate r)
  let ops := parseOps rest
  match container with
  | "table" => mapLike .table [] ops
  | "tablelike" => mapLike .tablelike [] ops
  | "inline" => mapLike .inline [] ops
  | "inlinelike" => mapLike .inlinelike [] ops
  -- the inline table `doc["t"]["a"]` creates in an empty document
  | "docinline" => mapLike .inlinelike [(0, .placeholder)] ops
  | "array" =>
    let r := arrRun [] ops
    s!"{retsTok r.1} | {vecFinal r.2.length (r.2.map (·.1)) (printArr r.2)}"
  | "aot" =>
    let r := aotRun [] ops
    s!"{retsTok r.1} | {vecFinal r.2.length r.2 (printAot r.2)}"
  | "mapsorted" | "mapinsertion" =>
    let r := mapRun (container == "mapsorted") [] ops
    let it := joinTok (r.2.map fun e => pairTok (e.1, ival e.2))
    let gets := ",".intercalate ([0, 1, 2, 3].map fun k => optTok ((imGet r.2 k).map ival))
    s!"{";".intercalate (entoccFix ops r.1)} | len={r.2.length} empty={tf r.2.isEmpty} iter={it} get={gets} into={it} print={hexStr (printMap r.2)}"
  | _ => "bad-container"

end TomlVerif.Driver
