import TomlVerif.Model.DeTyped
import TomlVerif.Model.Doc
import TomlVerif.Driver.Canon
/-! Driver side of the typed cases of mode `c13` (same case lines and output as harness/src/c13typed.rs):
    `typed <flavour> <ty> <hex>`, `typedv <flavour> <ty> <hex>`, `tcheck <flavour> <target> <ty> <hex>`. -/
namespace TomlVerif.Driver.C13Typed
open TomlVerif TomlVerif.Model TomlVerif.Model.TomlValue TomlVerif.Model.DeRoutes TomlVerif.Model.DeText
open TomlVerif.Model.DeTyped

/-! ### the type encoding -/

def isWordChar (c : Char) : Bool := c.isLower || c.isDigit || c == '-'

def word : List Char → List Char → List Char × List Char
  | acc, [] => (acc.reverse, [])
  | acc, c :: r => if isWordChar c then word (c :: acc) r else (acc.reverse, c :: r)

def prim (w : String) : Option Ty :=
  match w with
  | "b" => some .bool
  | "i8" => some (.int (-128) 127)
  | "i16" => some (.int (-32768) 32767)
  | "i32" => some (.int (-2147483648) 2147483647)
  | "i64" => some (.int (-9223372036854775808) 9223372036854775807)
  | "u8" => some (.int 0 255)
  | "u16" => some (.int 0 65535)
  | "u32" => some (.int 0 4294967295)
  | "u64" => some (.int 0 9223372036854775807)
  | "f64" => some .f64
  | "f32" => some .f32
  | "s" => some .string
  | "c" => some .char
  | "u" => some .unit
  | "dt" => some .datetime
  | "da" => some .date
  | "ti" => some .time
  | "v" => some .value
  | "g" => some .ignored
  | _ => none

mutual
partial def parseTy : List Char → Option (Ty × List Char)
  | 'O' :: '(' :: r => match parseTy r with | some (t, ')' :: r') => some (.option t, r') | _ => none
  | 'V' :: '(' :: r => match parseTy r with | some (t, ')' :: r') => some (.seq t, r') | _ => none
  | 'M' :: '(' :: r => match parseTy r with | some (t, ')' :: r') => some (.map t, r') | _ => none
  | 'N' :: '(' :: r => match parseTy r with | some (t, ')' :: r') => some (.newtype t, r') | _ => none
  | 'T' :: '(' :: r => (parseTys r).map fun (ts, r') => (.tuple ts, r')
  | 'S' :: '(' :: r => (parseFields r).map fun (fs, r') => (.struct fs, r')
  | 'E' :: '(' :: r => (parseVariants r).map fun (vs, r') => (.enum vs, r')
  | s =>
    let (w, r) := word [] s
    (prim (String.ofList w)).map fun t => (t, r)
/-- after `(`: items separated by `,` up to `)` -/
partial def parseTys : List Char → Option (Tys × List Char)
  | ')' :: r => some (.nil, r)
  | s =>
    match parseTy s with
    | some (t, ',' :: r) => (parseTys r).bind fun (ts, r') => match ts with | .nil => none | _ => some (.cons t ts, r')
    | some (t, ')' :: r) => some (.cons t .nil, r)
    | _ => none
partial def parseFields : List Char → Option (Fields × List Char)
  | ')' :: r => some (.nil, r)
  | s =>
    let (w, r) := word [] s
    match bytesOfHex? (String.ofList w), r with
    | some name, c :: r1 =>
      if c != ':' && c != '?' then none else
      match parseTy r1 with
      | some (t, ',' :: r2) =>
        (parseFields r2).bind fun (fs, r') => match fs with | .nil => none | _ => some (.cons name t (c == '?') fs, r')
      | some (t, ')' :: r2) => some (.cons name t (c == '?') .nil, r2)
      | _ => none
    | _, _ => none
partial def parseVariants : List Char → Option (Variants × List Char)
  | ')' :: r => some (.nil, r)
  | s =>
    let (w, r) := word [] s
    match bytesOfHex? (String.ofList w) with
    | none => none
    | some name =>
      let shape : Option (Shape × List Char) :=
        match r with
        | ':' :: 'N' :: '(' :: r1 => match parseTy r1 with | some (t, ')' :: r2) => some (.newtype t, r2) | _ => none
        | ':' :: 'T' :: '(' :: r1 => (parseTys r1).map fun (ts, r2) => (.tuple ts, r2)
        | ':' :: 'S' :: '(' :: r1 => (parseFields r1).map fun (fs, r2) => (.struct fs, r2)
        | _ => some (.unit, r)
      match shape with
      | some (sh, ',' :: r3) =>
        (parseVariants r3).bind fun (vs, r') => match vs with | .nil => none | _ => some (.cons name sh vs, r')
      | some (sh, ')' :: r3) => some (.cons name sh .nil, r3)
      | _ => none
end

def parseTyAll (s : String) : Option Ty :=
  match parseTy s.toList with
  | some (t, []) => some t
  | _ => none

/-! ### canonical forms -/

def hex8 (n : Nat) : String :=
  let ds := Nat.toDigits 16 n
  String.ofList (List.replicate (8 - ds.length) '0' ++ ds)

/-- same form as `canon::plain_toml` (tables sorted by key bytes) -/
partial def plainTV : TV → String
  | .str s => "s" ++ hexOut s
  | .int n => s!"i{n}"
  | .float b => "f" ++ hex16 b
  | .bool b => "b" ++ b01 b
  | .dt d => "d" ++ showDt d
  | .arr vs => "[" ++ ";".intercalate (vs.map plainTV) ++ "]"
  | .tbl items =>
    "{" ++ ";".intercalate ((sortPairs (items.map fun (k, v) => (k, plainTV v))).map fun (k, s) => hexOut k ++ "=" ++ s) ++ "}"

mutual
partial def showDec : Dec → String
  | .bool b => "b" ++ b01 b
  | .int n => s!"i{n}"
  | .f64 b => "f" ++ hex16 b
  | .f32 b => "g" ++ hex8 b
  | .str s => "s" ++ hexOut s
  | .char s => "c" ++ hexOut s
  | .unit => "u"
  | .dt d => "d" ++ showDt d
  | .value v => "V" ++ plainTV v
  | .ignored => "_"
  | .dflt => "D"
  | .none => "N"
  | .some d => "O(" ++ showDec d ++ ")"
  | .seq l => "[" ++ ";".intercalate (l.map showDec) ++ "]"
  | .tuple l => "(" ++ ";".intercalate (l.map showDec) ++ ")"
  | .map l => "{" ++ showNamed l ++ "}"
  | .newtype d => "W(" ++ showDec d ++ ")"
  | .struct l => "S{" ++ showNamed l ++ "}"
  | .vUnit n => "E" ++ hexOut n
  | .vNewtype n d => "E" ++ hexOut n ++ ":" ++ showDec d
  | .vTuple n l => "E" ++ hexOut n ++ "(" ++ ";".intercalate (l.map showDec) ++ ")"
  | .vStruct n l => "E" ++ hexOut n ++ "{" ++ showNamed l ++ "}"
partial def showNamed (l : List (Bytes × Dec)) : String :=
  ";".intercalate (l.map fun (k, d) => hexOut k ++ "=" ++ showDec d)
end

def showR : R Dec → Option String
  | .ok d => some (showDec d)
  | .error _ => none

def showRoutes (rs : List (String × Option String)) : String :=
  let first := rs.findSome? (·.2)
  let c0 := first.getD "none"
  let parts := rs.map fun (n, r) =>
    match r with
    | none => s!"{n}=err"
    | some c => if some c == first then s!"{n}=ok0" else s!"{n}=ok:{c}"
  " ".intercalate (s!"c0={c0}" :: parts)

def flavourOf (s : String) : Option Flavour :=
  if s == "S" then some .sorted else if s == "P" then some .insertion else none

/-! ### the routes -/

def docRoutes (fl : Flavour) (ty : Ty) (bytes : Bytes) : String :=
  match Doc.parseDocument bytes with
  | none => showRoutes [("td", none), ("ed", none), ("dm", none), ("im", none), ("vv", none), ("tv", none)]
  | some t =>
    let it := Item.table t
    let viaToml := showR (tomlRoute editAsIs fl ty it)
    let viaEdit := showR (editRoute editAsIs fl ty it)
    showRoutes [("td", viaToml), ("ed", viaEdit), ("dm", viaEdit), ("im", viaEdit),
      ("vv", showR (valueRoute valueAsIs fl ty it)), ("tv", showR (tableRoute valueAsIs fl ty it))]

def valRoutes (fl : Flavour) (ty : Ty) (bytes : Bytes) : String :=
  let single : Option Item := (Value.parseValue bytes).map Item.value
  let viaToml := single.bind fun it => showR (tomlRoute editAsIs fl ty it)
  let viaEdit := single.bind fun it => showR (editRoute editAsIs fl ty it)
  -- the entry `x` of the `toml::Table` read from `x = <text>`
  let docBytes := strBytes "x = " ++ bytes
  let viaTable : Option String :=
    match decodeTable fl docBytes with
    | some items => (alookup [0x78] items).bind fun v => showR (decodeValue valueAsIs fl ty v)
    | none => none
  showRoutes [("ev", viaEdit), ("tvd", viaToml), ("evv", viaEdit), ("wv", viaTable)]

def typed (fls tys hx : String) (single : Bool) : String :=
  match flavourOf fls, parseTyAll tys, bytesOfHex? hx with
  | some fl, some ty, some bytes =>
    if !Spec.Utf8.valid bytes then "not-utf8" else
    if single then valRoutes fl ty bytes else docRoutes fl ty bytes
  | _, _, _ => "bad-op"

/-- the derived types of the harness have the shape the case line gives: the model's answer is that of `typed` -/
def tcheck (fls target tys hx : String) : String :=
  let single := target.startsWith "v"
  let r := typed fls tys hx single
  if r == "bad-op" || r == "not-utf8" then r else "same=1 " ++ r

end TomlVerif.Driver.C13Typed
