import TomlVerif.Model.Ser
import TomlVerif.Lemmas.Ser07TextRoutes
import TomlVerif.Driver.Canon
/-! driver mode `c07`: `d<flags> <tokens>` — a serde value in prefix notation; prints the verdict
    of every route. `d` alone is the code as it stands; each flag letter switches one repaired
    behaviour on: `g` `Pretty` carries the `is_value` guard (F5), `n` the value route drops only
    entries that are `None` themselves (F16), `r` `toml::Serializer::serialize_struct` passes the
    struct name on (F17), `t` the value route turns the date-time struct into a date-time (F7), `b` `Table::try_from`
    refuses a bare date-time (F7b). -/
namespace TomlVerif.Driver
open TomlVerif TomlVerif.Model TomlVerif.Model.Ser TomlVerif.Spec.Serde

/-! helpers live in their own namespace so they cannot clash with another driver's -/
namespace C07h

def intW? : String → Option IntW
  | "i8" => some .i8 | "i16" => some .i16 | "i32" => some .i32 | "i64" => some .i64
  | "u8" => some .u8 | "u16" => some .u16 | "u32" => some .u32 | "u64" => some .u64
  | "i128" => some .i128 | "u128" => some .u128
  | _ => none

def hexNat? (s : String) : Option Nat :=
  s.toList.foldl (fun acc c => match acc, hexVal? c with
    | some a, some d => some (a * 16 + d)
    | _, _ => none) (some 0)

mutual
partial def parseSVal : List String → Option (SVal × List String)
  | [] => none
  | tok :: r =>
    match tok.splitOn ":" with
    | [tag, rest] =>
      (match intW? tag with
       | some w => (match rest.toInt? with | some n => some (.int w n, r) | none => none)
       | none =>
         match tag with
         | "f32" => (hexNat? rest).map fun b => (.f32 b, r)
         | "f64" => (hexNat? rest).map fun b => (.f64 b, r)
         | "c" => rest.toNat?.map fun cp => (.char cp, r)
         | "s" => (bytesOfHex? rest).map fun b => (.str b, r)
         | "y" => (bytesOfHex? rest).map fun b => (.bytes b, r)
         | "us" => (bytesOfHex? rest).map fun b => (.unitStruct b, r)
         | _ => none)
    | _ =>
      match tok with
      | "b0" => some (.bool false, r)
      | "b1" => some (.bool true, r)
      | "none" => some (.none, r)
      | "unit" => some (.unit, r)
      | "some" => (parseSVal r).map fun (v, r) => (.some v, r)
      | "nt" =>
        (match r with
         | n :: r => (match bytesOfHex? n, parseSVal r with
           | some n, some (v, r) => some (.newtype n v, r) | _, _ => none)
         | _ => none)
      | "seq" => (parseCounted r).map fun (xs, r) => (.seq xs, r)
      | "tup" => (parseCounted r).map fun (xs, r) => (.tuple xs, r)
      | "ts" =>
        (match r with
         | n :: r => (match bytesOfHex? n, parseCounted r with
           | some n, some (xs, r) => some (.tupleStruct n xs, r) | _, _ => none)
         | _ => none)
      | "map" =>
        (match r with
         | c :: r => (match c.toNat? with
           | some c => (parsePairs c r).map fun (kvs, r) => (.map kvs, r)
           | none => none)
         | _ => none)
      | "st" =>
        (match r with
         | n :: c :: r => (match bytesOfHex? n, c.toNat? with
           | some n, some c => (parseFields c r).map fun (fs, r) => (.struct n fs, r)
           | _, _ => none)
         | _ => none)
      | "uv" =>
        (match r with
         | n :: v :: r => (match bytesOfHex? n, bytesOfHex? v with
           | some n, some v => some (.unitVariant n v, r) | _, _ => none)
         | _ => none)
      | "nv" =>
        (match r with
         | n :: v :: r => (match bytesOfHex? n, bytesOfHex? v, parseSVal r with
           | some n, some v, some (x, r) => some (.newtypeVariant n v x, r) | _, _, _ => none)
         | _ => none)
      | "tv" =>
        (match r with
         | n :: v :: r => (match bytesOfHex? n, bytesOfHex? v, parseCounted r with
           | some n, some v, some (xs, r) => some (.tupleVariant n v xs, r) | _, _, _ => none)
         | _ => none)
      | "sv" =>
        (match r with
         | n :: v :: c :: r => (match bytesOfHex? n, bytesOfHex? v, c.toNat? with
           | some n, some v, some c => (parseFields c r).map fun (fs, r) => (.structVariant n v fs, r)
           | _, _, _ => none)
         | _ => none)
      | _ => none
partial def parseCounted : List String → Option (List SVal × List String)
  | [] => none
  | c :: r => match c.toNat? with
    | some c => parseN c r
    | none => none
partial def parseN : Nat → List String → Option (List SVal × List String)
  | 0, r => some ([], r)
  | n + 1, r => match parseSVal r with
    | some (v, r) => (parseN n r).map fun (l, r) => (v :: l, r)
    | none => none
partial def parsePairs : Nat → List String → Option (List (SVal × SVal) × List String)
  | 0, r => some ([], r)
  | n + 1, r => match parseSVal r with
    | some (k, r) => (match parseSVal r with
      | some (v, r) => (parsePairs n r).map fun (l, r) => ((k, v) :: l, r)
      | none => none)
    | none => none
partial def parseFields : Nat → List String → Option (List (Bytes × SVal) × List String)
  | 0, r => some ([], r)
  | n + 1, k :: r => match bytesOfHex? k, parseSVal r with
    | some k, some (v, r) => (parseFields n r).map fun (l, r) => ((k, v) :: l, r)
    | _, _ => none
  | _, [] => none
end

def showScalar : Scalar → String
  | .str s => "s" ++ hexOut s
  | .int n => s!"i{n}"
  | .float b => if isNan64 b then "fnan" else "f" ++ hex16 b
  | .bool b => "b" ++ b01 b
  | .dt d => "d" ++ showDt d

mutual
partial def showV : V → String
  | .sc s => showScalar s
  | .arr xs => "[" ++ ";".intercalate (xs.map showV) ++ "]"
  | .inl kvs => showKVs kvs
partial def showKVs (kvs : List (Bytes × V)) : String :=
  "{" ++ ";".intercalate ((sortPairs (kvs.map fun (k, v) => (k, showV v))).map fun (k, s) => hexOut k ++ "=" ++ s) ++ "}"
end

def showErr : SerErr → String
  | .unsupportedType => "UnsupportedType"
  | .outOfRange => "OutOfRange"
  | .unsupportedNone => "UnsupportedNone"
  | .keyNotString => "KeyNotString"
  | .dateInvalid => "DateInvalid"
  | .custom => "Custom"

def showT : Except SerErr (List (Bytes × V)) → String
  | .ok kvs => "ok:" ++ showKVs kvs
  | .error e => "err:" ++ showErr e

def showVR : Except SerErr V → String
  | .ok v => "ok:" ++ showV v
  | .error e => "err:" ++ showErr e

mutual
def hasFloatV : V → Bool
  | .sc (.float _) => true
  | .sc _ => false
  | .arr xs => hasFloatVs xs
  | .inl kvs => hasFloatKVs kvs
def hasFloatVs : List V → Bool
  | [] => false
  | x :: r => hasFloatV x || hasFloatVs r
def hasFloatKVs : List (Bytes × V) → Bool
  | [] => false
  | (_, x) :: r => hasFloatV x || hasFloatKVs r
end

/-- the text a route returns, as `Lemmas/Ser07TextRoutes.lean` defines it (the definitions `Props/C07Text.lean` is
    about); only for float-free results: std's `Display` of a double is not modelled -/
def textField (r : Except SerErr (List (Bytes × V))) (t : Except SerErr Bytes) : String :=
  match r, t with
  | .ok kvs, .ok b => if hasFloatKVs kvs then "n/a" else hexOut b
  | _, _ => "-"

end C07h
open C07h
open TomlVerif.Lemmas.Ser07Text in
def c07Texts (byName guard : Bool) (v : SVal) : String :=
  let d : FloatDisp := fun _ => []
  let rt := routeToml byName v
  s!"ts.x={textField rt (textToml byName d v)} tp.x={textField rt (textTomlPretty byName d v)} es.x={textField (routeEdit v) (textEdit d v)} ep.x={if guard then textField (routeEditPretty true v) (textEditPretty d v) else "n/a"}"

/-- every route of one serde value; `kind` = `d<flags>` (or any word followed by the flags) -/
def c07Val (kind : String) (v : SVal) : String :=
  let has (c : Char) : Bool := kind.toList.contains c
  let fx : ValFix := ⟨has 'n', has 't'⟩
  let t := showT (routeToml (has 'r') v)
  let e := showT (routeEdit v)
  s!"ts={t} tp={t} es={e} ep={showT (routeEditPretty (has 'g') v)} ed={showT (serDocument v)} edx={e} vt={showVR (valSer fx v)} tt={showT (tableSer fx (has 'b') v)} {c07Texts (has 'r') (has 'g') v}"

def c07 (line : String) : String :=
  match line.splitOn " " with
  | kind :: toks =>
    if !kind.startsWith "d" then "bad-op" else
    match parseSVal toks with
    | some (v, []) => c07Val kind v
    | _ => "bad-op"
  | _ => "bad-op"

end TomlVerif.Driver
