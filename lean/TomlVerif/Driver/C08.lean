import TomlVerif.Model.Edit
import TomlVerif.Driver.Canon
namespace TomlVerif.Driver
open TomlVerif TomlVerif.Model TomlVerif.Model.Edit

namespace C08

/-- `key_of`: hex (`-` = empty) of a UTF-8 string -/
def keyOf (s : String) : Option Bytes :=
  if s.isEmpty then none
  else match bytesOfHex? s with
    | some b => if TomlVerif.Spec.Utf8.valid b then some b else none
    | none => none

/-- `idx_of`: 1–9 decimal digits -/
def idxOf (s : String) : Option Nat :=
  if s.isEmpty || s.length > 9 || !s.toList.all Char.isDigit then none else s.toNat?

def segOf (s : String) : Seg := { key := keyOf s, idx := idxOf s }

def pathOf (p : String) : List Seg :=
  if p == "." then [] else (p.splitOn "/").map segOf

/-- `scalar` -/
def scalarOf (s : String) : Option Sc :=
  match s.toList with
  | 'i' :: rest =>
    let digits := match rest with | '-' :: d => d | d => d
    if digits.isEmpty || digits.length > 18 || !digits.all Char.isDigit then none
    else match (String.ofList digits).toNat? with
      | some n => some (.int (match rest with | '-' :: _ => -(n : Int) | _ => (n : Int)))
      | none => none
  | 's' :: rest => (keyOf (String.ofList rest)).map .str
  | ['b', '0'] => some (.bool false)
  | ['b', '1'] => some (.bool true)
  | _ => none

/-- op text → op and path -/
def opOf (s : String) : Option (Op × List Seg) :=
  match s.splitOn " " with
  | ["set", p, k, v] => do some (.set (← keyOf k) (← scalarOf v), pathOf p)
  | ["del", p, k] => do some (.del (← keyOf k), pathOf p)
  | ["newt", p, k] => do some (.newt (← keyOf k), pathOf p)
  | ["viv", p, k1, k2, v] => do some (.viv (← keyOf k1) (← keyOf k2) (← scalarOf v), pathOf p)
  | ["sort", p] => some (.sort, pathOf p)
  | ["fmt", p] => some (.fmt, pathOf p)
  | ["push", p, v] => do some (.push (← scalarOf v), pathOf p)
  | ["ains", p, i, v] => do some (.ains (← idxOf i) (← scalarOf v), pathOf p)
  | ["arepl", p, i, v] => do some (.arepl (← idxOf i) (← scalarOf v), pathOf p)
  | ["adel", p, i] => do some (.adel (← idxOf i), pathOf p)
  | ["adelr", p, i] => do some (.adel (← idxOf i), pathOf p)   -- the harness removes through `Array::retain`
  | ["tpush", p] => some (.tpush, pathOf p)
  | ["tdel", p, i] => do some (.tdel (← idxOf i), pathOf p)
  | ["inl", p, k] => do some (.inl (← keyOf k), pathOf p)
  | ["tbl", p, k] => do some (.tbl (← keyOf k), pathOf p)
  | ["aot2arr", p, k] => do some (.aot2arr (← keyOf k), pathOf p)
  | ["arr2aot", p, k] => do some (.arr2aot (← keyOf k), pathOf p)
  | ["mv", p, k, p2] => do some (.mv (← keyOf k) (pathOf p2), pathOf p)
  | _ => none

def record (st : St) : String :=
  let p := Edit.print st
  let (t, o) := match Doc.parseSlice p with
    | some d => (plainTbl d, canonTbl d)
    | none => ("ERR", "ERR")
  s!"p={hexOut p},t={t},o={o},m={canonTbl (Cst.eraseTbl st.doc.root)}"

def steps : St → List String → List String → List String
  | _, [], acc => acc.reverse
  | st, op :: r, acc =>
    if op.isEmpty then steps st r acc else
    match (opOf op).bind fun (o, p) => applyOp st o p with
    | some st' => steps st' r (("ok:" ++ record st') :: acc)
    | none => steps st r (("skip:" ++ record st) :: acc)

end C08

/-- C08: `<hex document> <op>;<op>;…` → `init:<rec> <status>:<rec> …` -/
def c08 (line : String) : String :=
  match line.splitOn " " with
  | [] => "err"
  | d :: rest =>
    match C08.keyOf d with
    | none => "err"
    | some s =>
      match Edit.start s with
      | none => "err"
      | some st =>
        let ops := (" ".intercalate rest).splitOn ";"
        " ".intercalate (C08.steps st ops ["init:" ++ C08.record st])
end TomlVerif.Driver
