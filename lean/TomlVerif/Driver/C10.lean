import TomlVerif.Model.Write
import TomlVerif.Model.Key
namespace TomlVerif.Driver
open TomlVerif TomlVerif.Model

def resLine (r : Res Bytes) : String :=
  match r with
  | .ok v [] => "ok:" ++ hexOut v
  | _ => "err"

/-- `k = <tok>\n` through the model: the value token must end exactly at the newline. -/
def vStyle? : String → Option Write.VStyle
  | "default" => some .default | "literal" => some .literal | "mlLiteral" => some .mlLiteral
  | "basicPretty" => some .basicPretty | "mlBasicPretty" => some .mlBasicPretty
  | "basic" => some .basic | "mlBasic" => some .mlBasic | _ => none

def kStyle? : String → Option Write.KStyle
  | "default" => some .default | "unquoted" => some .unquoted | "literal" => some .literal
  | "basicPretty" => some .basicPretty | "basic" => some .basic | _ => none

def c10 (line : String) : String :=
  match line.splitOn " " with
  | ["v", st, hx] =>
    match vStyle? st, bytesOfHex? hx with
    | some st, some s =>
      match Write.writeValue st s with
      | none => "none - -"
      | some tok =>
        let alone := resLine (Strings.string tok)
        -- inside a document the token is followed by LF
        let indoc := match Strings.string (tok ++ [0x0A]) with
          | .ok v [0x0A] => "ok:" ++ hexOut v
          | _ => "err"
        s!"{hexOut tok} {alone} {indoc}"
    | _, _ => "bad-op"
  | ["k", st, hx] =>
    match kStyle? st, bytesOfHex? hx with
    | some st, some s =>
      match Write.writeKey st s with
      | none => "none - -"
      | some tok =>
        let alone := resLine (Key.simpleKey tok)
        let indoc := match Key.simpleKey (tok ++ [0x20, 0x3D]) with
          | .ok v [0x20, 0x3D] => "ok:" ++ hexOut v
          | _ => "err"
        s!"{hexOut tok} {alone} {indoc}"
    | _, _ => "bad-op"
  | _ => "bad-op"

end TomlVerif.Driver
