import TomlVerif.Model.DeLocated
import TomlVerif.Driver.C13Typed
/-! Driver mode `c15d` (same case lines and output as harness/src/c15loc.rs):
    `loc <flavour> <ty> <hex document>` → `td=<r> ed=<r> dm=<r>` with
    `<r>` = `ok:<dec>` | `err span=<a>..<b>|none keys=<hex>.<hex>…|-`, or `parse-err` / `not-utf8` / `bad-op`.
    `td` = `toml::de::Deserializer`, `ed` = `toml_edit::de::Deserializer::parse` (both: the spanned tree),
    `dm` = `toml_edit::de::Deserializer::from(DocumentMut)` (the despanned tree). -/
namespace TomlVerif.Driver.C15Loc
open TomlVerif TomlVerif.Model TomlVerif.Model.DeTyped TomlVerif.Model.DeLocated TomlVerif.Driver.C13Typed

def showSpan : Option Cst.Span → String
  | some (a, b) => s!"{a}..{b}"
  | none => "none"

def showKeys (ks : List Bytes) : String :=
  if ks.isEmpty then "-" else ".".intercalate (ks.map fun k => if k.isEmpty then "e" else hexOut k)

def showLR : LR Dec → String
  | .ok d => "ok:" ++ showDec d
  | .error e => s!"err span={showSpan e.span} keys={showKeys e.keys}"

def loc (fls tys hx : String) : String :=
  match flavourOf fls, parseTyAll tys, bytesOfHex? hx with
  | some fl, some ty, some bytes =>
    if !Spec.Utf8.valid bytes then "not-utf8" else
    match Cst.parseCst bytes with
    | none => "parse-err"
    | some d =>
      let src := showLR (decodeLoc fl ty (.table d.root))
      let doc := showLR (decodeLoc fl ty (despanItem (.table d.root)))
      s!"td={src} ed={src} dm={doc}"
  | _, _, _ => "bad-op"

def c15d (line : String) : String :=
  match line.splitOn " " with
  | ["loc", fl, ty, hx] => loc fl ty hx
  | _ => "bad-op"

end TomlVerif.Driver.C15Loc
