import TomlVerif.Model.Numbers
import TomlVerif.Model.Datetime
import TomlVerif.Model.SerdeInt
namespace TomlVerif.Driver
open TomlVerif TomlVerif.Spec TomlVerif.Model TomlVerif.Model.Numbers

def hex16 (n : Nat) : String :=
  let ds := Nat.toDigits 16 n
  String.ofList (List.replicate (16 - ds.length) '0' ++ ds)

/-- the scalar alternatives of `value` for number-like text: `alt((date_time, float, integer))`,
    `inf`, `nan`; the whole text must be consumed -/
def numberValue (s : Bytes) : String :=
  match s with
  | [] => "err"
  | b :: _ =>
    if b == 0x2B || b == 0x2D || isDigit b then
      match Datetime.Doc.dateTime s with
      | .ok _ [] => "dt"
      | .ok _ _ => "err"
      | .cut => "err"
      | .bt =>
        match float s with
        | .ok bits [] => "float:" ++ hex16 bits
        | .ok _ _ => "err"
        | .cut => "err"
        | .bt =>
          match integer s with
          | .ok n [] => s!"int:{n}"
          | _ => "err"
    else if b == 0x5F then "err"
    else if b == 0x2E then "err"
    else if b == 0x69 then (if s == [0x69, 0x6E, 0x66] then "float:" ++ hex16 Ieee.infBits else "err")
    else if b == 0x6E then (if s == [0x6E, 0x61, 0x6E] then "float:" ++ hex16 Ieee.nanBits else "err")
    else "err"

def plainDecimal? (d : Bytes) : Option (Bool × Bytes × Bytes) :=
  -- "-"? digits ("." digits)?
  let (neg, r) : Bool × Bytes := match d with | 0x2D :: t => (true, t) | _ => (false, d)
  let ip := r.takeWhile isDigit
  let rest := r.dropWhile isDigit
  if ip.isEmpty then none else
  match rest with
  | [] => some (neg, ip, [])
  | 0x2E :: fr => if !fr.isEmpty && fr.all isDigit then some (neg, ip, fr) else none
  | _ => none

def floatCase (bits : Nat) (disp : Bytes) (mantBits expBits : Nat) : String :=
  let width := 1 + expBits + mantBits
  let neg := bits / 2 ^ (width - 1) == 1
  let expField := bits / 2 ^ mantBits % 2 ^ expBits
  let mant := bits % 2 ^ mantBits
  let isNan := expField == 2 ^ expBits - 1 && mant != 0
  let isInf := expField == 2 ^ expBits - 1 && mant == 0
  let isZero := expField == 0 && mant == 0
  let isIntegral := !isInf && !disp.contains 0x2E
  let tok := writeFloat neg isNan isZero isIntegral disp
  let parsed := numberValue tok
  -- is std's Display text a plain decimal whose correctly rounded value is the number?
  let dispok :=
    if isNan || isInf then true
    else match plainDecimal? disp with
      | none => false
      | some (n, ip, fr) =>
        let b64 := Ieee.roundDecimal n (natOfDigitsBase 10 (ip ++ fr)) (-(fr.length : Int))
        if width == 64 then b64 == bits else true
  s!"{hexOut tok} {parsed} dispok:{dispok}"

def c11 (line : String) : String :=
  match line.splitOn " " with
  | ["i", n] =>
    match n.toInt? with
    | some n =>
      let tok := writeInt n
      s!"{hexOut tok} {numberValue tok}"
    | none => "bad-op"
  | ["l", hx] =>
    match bytesOfHex? hx with
    | some s => numberValue s
    | none => "bad-op"
  | ["f", bits, disp] =>
    match bytesOfHex? bits, bytesOfHex? disp with
    | some bb, some d => floatCase (bb.foldl (fun a b => a * 256 + b.toNat) 0) d 52 11
    | _, _ => "bad-op"
  | ["g", bits, disp] =>
    match bytesOfHex? bits, bytesOfHex? disp with
    | some bb, some d => floatCase (bb.foldl (fun a b => a * 256 + b.toNat) 0) d 23 8
    | _, _ => "bad-op"
  | ["so", kind, n] =>
    -- serializing an integer of any width: exact or an error (`Model/SerdeInt.lean`, theorems `T11_ser_*`)
    match n.toInt?, SerdeInt.Kind.ofString? kind with
    | some n, some k => match SerdeInt.serInt k n with | some m => s!"ok:{m}" | none => "err"
    | _, _ => "bad-op"
  | ["de", kind, n] =>
    match n.toInt?, SerdeInt.Kind.ofString? kind with
    | some n, some k => match SerdeInt.deInt k n with | some m => s!"ok:{m}" | none => "err"
    | _, _ => "bad-op"
  | ["vv", kind, n] =>
    -- a value of width `kind` handed to `toml::Value`'s visitor by a foreign deserializer (`T11_visit_*`)
    match n.toInt?, SerdeInt.Kind.ofString? kind with
    | some n, some k => match SerdeInt.visitInt k n with | some m => s!"ok:{m}" | none => "err"
    | _, _ => "bad-op"
  | _ => "bad-op"

end TomlVerif.Driver
