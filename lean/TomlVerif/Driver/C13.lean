import TomlVerif.Model.DeRoutes
import TomlVerif.Model.Doc
import TomlVerif.Model.DeText
import TomlVerif.Driver.Canon
import TomlVerif.Driver.C13Typed
/-! Driver modes `c13` and `c17` (same case lines as harness/src/c13.rs).
Fields the model does not cover are answered `n/a` (typed targets, `val` cases, texts of trees holding floats). -/
namespace TomlVerif.Driver
open TomlVerif TomlVerif.Model TomlVerif.Model.TomlValue TomlVerif.Model.DeRoutes

namespace C13

def flavourOf (s : String) : Option Flavour :=
  if s == "S" then some .sorted else if s == "P" then some .insertion else none

/-- read up to one of `;` `]` `}` `=` -/
def token : List Char → List Char → List Char × List Char
  | acc, [] => (acc.reverse, [])
  | acc, c :: r => if c == ';' || c == ']' || c == '}' || c == '=' then (acc.reverse, c :: r) else token (c :: acc) r

mutual
partial def parseTree (fl : Flavour) : List Char → Option (TV × List Char)
  | '[' :: ']' :: r => some (.arr [], r)
  | '[' :: r => parseElems fl r []
  | '{' :: '}' :: r => some (.tbl [], r)
  | '{' :: r => parseEntries fl r []
  | 's' :: r =>
    let (t, r') := token [] r
    (bytesOfHex? (String.ofList t)).map fun b => (.str b, r')
  | 'i' :: r =>
    let (t, r') := token [] r
    (String.ofList t).toInt?.map fun n => (.int n, r')
  | 'f' :: r =>
    let (t, r') := token [] r
    if t.length != 16 then none else
    (t.foldlM (fun acc c => (hexVal? c).map fun d => acc * 16 + d) 0).map fun n => (.float n, r')
  | 'b' :: r =>
    let (t, r') := token [] r
    some (.bool (String.ofList t == "1"), r')
  | 'd' :: r =>
    let (t, r') := token [] r
    match bytesOfHex? (String.ofList t) with
    | some b => (Datetime.Std.fromStr b).map fun d => (.dt d, r')
    | none => none
  | _ => none
partial def parseElems (fl : Flavour) (s : List Char) (acc : List TV) : Option (TV × List Char) :=
  match parseTree fl s with
  | some (v, ';' :: r) => parseElems fl r (v :: acc)
  | some (v, ']' :: r) => some (.arr (v :: acc).reverse, r)
  | _ => none
partial def parseEntries (fl : Flavour) (s : List Char) (acc : List (Bytes × TV)) : Option (TV × List Char) :=
  let (kt, r) := token [] s
  match bytesOfHex? (String.ofList kt), r with
  | some k, '=' :: r1 =>
    match parseTree fl r1 with
    | some (v, ';' :: r2) => parseEntries fl r2 (mapInsert fl k v acc)
    | some (v, '}' :: r2) => some (.tbl (mapInsert fl k v acc), r2)
    | _ => none
  | _, _ => none
end

def parseTreeAll (fl : Flavour) (s : String) : Option TV :=
  match parseTree fl s.toList with
  | some (v, []) => some v
  | _ => none

/-- same form as `canon::plain_toml` -/
partial def plainTV : TV → String
  | .str s => "s" ++ hexOut s
  | .int n => s!"i{n}"
  | .float b => "f" ++ hex16 b
  | .bool b => "b" ++ b01 b
  | .dt d => "d" ++ showDt d
  | .arr vs => "[" ++ ";".intercalate (vs.map plainTV) ++ "]"
  | .tbl items =>
    "{" ++ ";".intercalate ((sortPairs (items.map fun (k, v) => (k, plainTV v))).map fun (k, s) => hexOut k ++ "=" ++ s) ++ "}"

/-- same form as `c13::key_order` -/
partial def keyOrder : TV → String
  | .tbl items => "{" ++ ",".intercalate (items.map fun (k, v) => hexOut k ++ keyOrder v) ++ "}"
  | .arr l =>
    if l.any (fun v => v.isTable || v.isArray) then "[" ++ ",".intercalate (l.map keyOrder) ++ "]" else ""
  | _ => ""

/-! what `toml_edit`'s deserializers show for a parsed tree, `noFloat`, `decodeValue`, `decodeTable`: the total
    definitions of `Model/DeText.lean`, which `Props/C17RoundTrip.lean` is about -/
export TomlVerif.Model.DeText (presOfVal presOfItem presOfTbl noFloat decodeValue decodeTable)

def showSer : Except SerError Bytes → String
  | .ok _ => "ok"
  | .error .unsupportedType => "err:UnsupportedType"
  | .error .custom => "err:Custom"

def bit (b : Bool) : String := if b then "1" else "0"

/-- the shared tail of `tree` and `doc` of mode c17: texts, re-reads, fixed points.
`decode` is the reader matching the case kind (`Value` for trees, `Table` for documents). -/
def textFields (v : TV) (decode : Bytes → Option TV) (t1 p1 : Bytes) : String × String × String × String × String :=
  let canon := plainTV v
  let d1 := decode t1
  let dp := decode p1
  let rt := match d1 with | some x => bit (plainTV x == canon) | none => "2"
  let rtp := match dp with | some x => bit (plainTV x == canon) | none => "2"
  let fix := match d1 with
    | some x => (match toText noFloat false x with | .ok t2 => bit (t2 == t1) | .error _ => "2")
    | none => "3"
  let fixp := match dp with
    | some x => (match toText noFloat true x with | .ok t2 => bit (t2 == p1) | .error _ => "2")
    | none => "3"
  let same := match d1, dp with
    | some a, some b => bit (plainTV a == plainTV b)
    | _, _ => "2"
  (rt, rtp, fix, fixp, same)

def tree17 (fls tree : String) : String :=
  match flavourOf fls with
  | none => "bad-op"
  | some fl =>
  match parseTreeAll fl tree with
  | none => "bad-op"
  | some v =>
    let canon := plainTV v
    let ko := keyOrder v
    match toText noFloat false v, toText noFloat true v with
    | .error e, pe => s!"canon={canon} keys={ko} ser={showSer (.error e)} serpretty={showSer pe}"
    | .ok _, .error e => s!"canon={canon} keys={ko} serpretty={showSer (.error e)}"
    | .ok t1, .ok p1 =>
      if hasFloat v then
        s!"canon={canon} keys={ko} plain=n/a pretty=n/a tplain=n/a pure=1 disp=1 rt=n/a rtp=n/a trt=n/a fix=n/a fixp=n/a same=n/a esame=n/a ord=1 ordp=1 tord=1"
      else
        let (rt, rtp, fix, fixp, same) := textFields v (decodeValue fl) t1 p1
        let (tplain, trt) := match v with
          | .tbl items =>
            (match toTextTable noFloat false items with
             | .ok tt1 =>
               (if tt1 == t1 then "same" else hexOut tt1,
                match decodeTable fl tt1 with | some x => bit (plainTV (.tbl x) == canon) | none => "2")
             | .error e => (showSer (.error e), "2"))
          | _ => ("none", "2")
        let rootTbl := if v.isTable then "1" else "2"
        s!"canon={canon} keys={ko} plain={hexOut t1} pretty={hexOut p1} tplain={tplain} pure=1 disp={rootTbl} rt={rt} rtp={rtp} trt={trt} fix={fix} fixp={fixp} same={same} esame=n/a ord=1 ordp=1 tord={rootTbl}"

def doc17 (fls hx : String) : String :=
  match flavourOf fls, bytesOfHex? hx with
  | some fl, some bytes =>
    if !Spec.Utf8.valid bytes then "err" else
    match decodeTable fl bytes with
    | none => "err"
    | some items =>
      let v : TV := .tbl items
      let canon := plainTV v
      match toTextTable noFloat false items, toTextTable noFloat true items with
      | .ok t1, .ok p1 =>
        if hasFloat v then s!"canon={canon} plain=n/a pretty=n/a twice=1 rt=n/a rtp=n/a fix=n/a ord=1 ordp=1"
        else
          let dec := fun b => (decodeTable fl b).map TV.tbl
          let (rt, rtp, _, _, _) := textFields v dec t1 p1
          let fix := match decodeTable fl t1 with
            | some x => (match toTextTable noFloat false x with | .ok t2 => bit (t2 == t1) | .error _ => "0")
            | none => "2"
          s!"canon={canon} plain={hexOut t1} pretty={hexOut p1} twice=1 rt={rt} rtp={rtp} fix={fix} ord=1 ordp=1"
      | e, _ => s!"canon={canon} ser={showSer e}"
  | _, _ => "bad-op"

def c17 (line : String) : String :=
  match line.splitOn " " with
  | ["tree", fl, t] => tree17 fl t
  | ["doc", fl, hx] => doc17 fl hx
  | ["val", _, _] => "n/a"
  | _ => "bad-op"

/-! ### mode c13 -/

def showRoutes (rs : List (String × Option String)) : String :=
  let first := rs.findSome? (·.2)
  let c0 := first.getD "none"
  let parts := rs.map fun (n, r) =>
    match r with
    | none => s!"{n}=err"
    | some c => if some c == first then s!"{n}=ok0" else s!"{n}=ok:{c}"
  " ".intercalate (s!"c0={c0}" :: parts)

def flavourDefault : Flavour := .sorted

/-- `doc <hex> value|table`: the flavour of the harness build does not show in the sorted canonical form,
except through duplicate handling, which cannot occur for parsed documents; the model uses the sorted map. -/
def doc13 (fl : Flavour) (hx target : String) : String :=
  match bytesOfHex? hx with
  | none => "bad-op"
  | some bytes =>
    if !Spec.Utf8.valid bytes then "not-utf8" else
    if target != "value" && target != "table" then "n/a" else
    let asValue := target == "value"
    let show? : Option TV → Option String := fun o => o.map plainTV
    -- text routes: one parse, then the target's visitor
    let direct : Option TV :=
      if asValue then decodeValue fl bytes else (decodeTable fl bytes).map TV.tbl
    let again (first : Option TV) : Option TV :=
      match first with
      | none => none
      | some v =>
        let p := presValue currentDtAsMap v
        if asValue then visitValue fl true p else (visitTable fl true p).map TV.tbl
    -- through `toml::Value` / `toml::Table` first
    let viaValue := again (decodeValue fl bytes)
    let viaTable := again ((decodeTable fl bytes).map TV.tbl)
    showRoutes [("ts", show? direct), ("td", show? direct), ("es", show? direct), ("sl", show? direct),
      ("dm", show? direct), ("im", show? direct), ("ed", show? direct),
      ("vv", show? viaValue), ("tv", show? viaTable), ("pt", show? viaTable), ("pv", show? viaValue)]

def sval13 (fl : Flavour) (hx target : String) : String :=
  match bytesOfHex? hx with
  | none => "bad-op"
  | some bytes =>
    if target != "value" then "n/a" else
    let show? : Option TV → Option String := fun o => o.map plainTV
    let single : Option TV := (Value.parseValue bytes).bind fun v => visitValue fl false (presOfVal v)
    -- "x = " ++ text as a document; `Wrap<T>` reads the key `x` and ignores the others
    let docBytes := strBytes "x = " ++ bytes
    let xItem : Option Item := (Doc.parseDocument docBytes).bind fun t => alookup [0x78] t.items
    let wrapped : Option TV := xItem.bind fun it => visitValue fl false (presOfItem it)
    let viaTable : Option TV :=
      match decodeTable fl docBytes with
      | some items => (alookup [0x78] items).bind fun v => visitValue fl true (presValue currentDtAsMap v)
      | none => none
    showRoutes [("ev", show? single), ("tvd", show? single), ("evv", show? single),
      ("wd", show? wrapped), ("we", show? wrapped), ("wv", show? viaTable)]

def showOpt13 : Option TV → String
  | some v => "ok:" ++ plainTV v
  | none => "err"

def tval13 (fls tree : String) : String :=
  match flavourOf fls with
  | none => "bad-op"
  | some fl =>
  match parseTreeAll fl tree with
  | none => "bad-op"
  | some v =>
    let canon := plainTV v
    let tf := showOpt13 (valueSerializer fl currentHonourName (serCalls v))
    let ti := match visitValue fl true (presValue currentDtAsMap v) with
      | some x => "ok:" ++ plainTV x
      | none => "err"
    -- `TableSerializer`: maps and structs only; entries through `ValueSerializer`
    let tt := match serCalls v with
      | .map entries => showOpt13 ((valueSerializerPairs fl currentHonourName entries).map fun ps => .tbl (insertAllReplace fl [] ps))
      | .struct name fields =>
        -- `TableSerializer::serialize_struct` refuses the date-time wrapper (a date-time is not a table)
        if name == NAME then "err:UnsupportedType" else
        showOpt13 ((valueSerializerPairs fl currentHonourName fields).map fun ps => .tbl (insertAllReplace fl [] ps))
      | _ => "err:UnsupportedType"
    let text :=
      if hasFloat v then "n/a" else
      match toText noFloat false v with
      | .ok t => (match decodeValue fl t with | some p => "ok:" ++ plainTV p | none => "reparse-err")
      | e => showSer e
    s!"canon={canon} tf={tf} ti={ti} tt={tt} text={text}"

def methodName : Method → String
  | .any => "any" | .option => "option" | .newtypeStruct => "newtype_struct" | .struct => "struct" | .enum => "enum"
  | .other => "other"

def allMethods : List Method := [.any, .option, .newtypeStruct, .struct, .enum, .other]

/-- the methods a deserializer handles itself (does not send to `deserialize_any`) -/
def ownMethods (d : Method → Method) : String :=
  ",".intercalate ((allMethods.filter fun m => d m == m && m != .other).map methodName)

def dispatch13 : String :=
  s!"edit={ownMethods editDispatch} toml={ownMethods tomlWrapperDispatch} value={ownMethods valueDispatch} dt_as_map={bit currentDtAsMap} honour_name={bit currentHonourName}"

end C13

def c13With (fl : Flavour) (line : String) : String :=
  match line.splitOn " " with
  | ["doc", hx, target] => C13.doc13 fl hx target
  | ["sval", hx, target] => C13.sval13 fl hx target
  | ["tval", fl, t] => C13.tval13 fl t
  | ["val", _, _] => "n/a"
  | ["dispatch"] => C13.dispatch13
  | ["typed", fl, ty, hx] => C13Typed.typed fl ty hx false
  | ["typedv", fl, ty, hx] => C13Typed.typed fl ty hx true
  | ["tcheck", fl, target, ty, hx] => C13Typed.tcheck fl target ty hx
  | _ => "bad-op"

/-- the default build (`BTreeMap`) -/
def c13 (line : String) : String := c13With .sorted line
/-- the `preserve_order` build (`IndexMap`): the map flavour shows in `doc` / `sval` lines once the private date-time key
    is present (the first-key test of `ValueVisitor::visit_map` depends on map order) -/
def c13P (line : String) : String := c13With .insertion line

def c17 (line : String) : String := C13.c17 line

end TomlVerif.Driver
