import TomlVerif.Props.C03MoreSem
import TomlVerif.Lemmas.Tiling03MoreTkoMain
/-! C03, continued — same data when a `[t]` header TAKES OVER an implicit table.

    `adjRun` (`Props/C03MoreSem.lean`) excludes a `[t]` header on a table `t` that exists
    implicitly (made by an earlier `[t.u]` / `[[t.u]]`): the parser erases `t` from its parent,
    makes its items the items of the new current table and re-inserts it at `finalize_table`, at
    the END of its parent.

    The class.  `tkoRun s` (`Lemmas/Tiling03MoreTkoDefs.lean`) is `adjRun s` where the header
    check `pathOkA` is relaxed to `pathOkT` at the LAST key of a `[…]` header: it may name an
    existing table `t'` with `t'.implicit && !t'.dotted` (the parser's own condition) provided
      * the key is spelled like the stored key as a path segment (`sameSeg`: key text and the
        blanks around it) — the stored key is replaced by the header's, so the headers of the
        sub-tables of `t'` are printed under the new spelling; with `sameSeg` their text is
        unchanged (without it the data is still the same, but that is not proved here);
      * `t'` holds only non-dotted sub-tables and arrays of tables (`onlySubs`; always the case
        for a table the parser made implicitly — used to keep the proof local).
    Everything else is as in `adjRun`: no header through a dotted-key table or a value, dotted
    keys adjacent (`kvLineOkA` unchanged).  Headers THROUGH dotted-key tables are not admitted.

    Why it holds (`Lemmas/Tiling03MoreTko{Base,Defs,Tree,Body,State,Main}.lean`): the summary of
    the sub-tables of the table taken over moves from the root to the current table and back at
    `finalize_table`; the sorted text does not change, because the stable sort of a permutation
    with distinct positions is the same list (`sortP_pairs_perm`), and the current table still has
    the largest position, so its text stays at the end. -/
namespace TomlVerif.Props.C03More
open TomlVerif TomlVerif.Model TomlVerif.Model.Cst TomlVerif.Model.Encode
open TomlVerif.Lemmas.Tiling03More TomlVerif.Lemmas.Tiling03More.Tko

/-- class inclusion -/
theorem T03_adjRun_tkoRun (s : Bytes) (h : adjRun s = true) : tkoRun s = true :=
  adjRun_T s h

/-- T03_same_data_takeover: for every source in the class — no hypothesis on BOM, CR, final
    newline, spelling of other names or values — the printed text decodes to the same table -/
theorem T03_same_data_takeover (s : Bytes) (d : CDoc) (h : parseCst s = some d) (hrun : tkoRun s = true) :
    Doc.parseDocument (printDoc s d) = Doc.parseDocument s := by
  rw [same_data_tko s d h hrun, ← T03_cst_erases_to_doc s, h]; rfl

/-- … and is accepted by the format-preserving parser, with the same data -/
theorem T03_same_data_takeover_cst (s : Bytes) (d : CDoc) (h : parseCst s = some d) (hrun : tkoRun s = true) :
    ∃ d', parseCst (printDoc s d) = some d' ∧ eraseTbl d'.root = eraseTbl d.root :=
  (T03_reparse_iff_doc (printDoc s d) (fun t => t = eraseTbl d.root)).2 ⟨_, same_data_tko s d h hrun, rfl⟩

/-! ### non-vacuity: in `tkoRun`, outside `adjRun`, same data -/

example : tkoRun (strBytes "[x.y]\n[z]\n[x]\nk = 1\n") = true ∧ adjRun (strBytes "[x.y]\n[z]\n[x]\nk = 1\n") = false ∧
    sameData (strBytes "[x.y]\n[z]\n[x]\nk = 1\n") = some true ∧
    (parseCst (strBytes "[x.y]\n[z]\n[x]\nk = 1\n")).map (printDoc (strBytes "[x.y]\n[z]\n[x]\nk = 1\n"))
      = some (strBytes "[x.y]\n[z]\n[x]\nk = 1\n") := by decide +kernel

example : tkoRun (strBytes "[x.y]\nq = 1\n[x]\nk = 1\n[x.w]\n") = true ∧
    adjRun (strBytes "[x.y]\nq = 1\n[x]\nk = 1\n[x.w]\n") = false ∧
    sameData (strBytes "[x.y]\nq = 1\n[x]\nk = 1\n[x.w]\n") = some true := by decide +kernel

example : tkoRun (strBytes "[[a.b]]\n[a]\nk = 1\n") = true ∧ adjRun (strBytes "[[a.b]]\n[a]\nk = 1\n") = false ∧
    sameData (strBytes "[[a.b]]\n[a]\nk = 1\n") = some true := by decide +kernel

/-- a take-over followed by dotted keys (respelled), deeper sub-tables, an array of tables, CR LF,
    no final newline -/
def exTko : Bytes := strBytes "[x.y]\r\n[x]\r\na.b = 1\r\na . c = 2\r\n[x.y.z]\r\n[[x.q]]\r\n[x.y.z.w] # c"

example : tkoRun exTko = true ∧ adjRun exTko = false ∧ sameData exTko = some true := by decide +kernel

/-- the older classes are inside (`T03_adjRun_tkoRun`) -/
example : tkoRun exSemAll = true ∧ tkoRun exOrd2 = true ∧ tkoRun exCargoOrd = true := by decide +kernel

/-! ### what stays excluded -/

/-- a take-over under another spelling of the key (the headers of the sub-tables are then printed
    with the new spelling): outside the class; the data is the same -/
example : tkoRun (strBytes "[x .y]\n[x]\n") = false ∧ sameData (strBytes "[x .y]\n[x]\n") = some true ∧
    (parseCst (strBytes "[x .y]\n[x]\n")).map (printDoc (strBytes "[x .y]\n[x]\n"))
      = some (strBytes "[x.y]\n[x]\n") := by decide +kernel

/-- headers through dotted-key tables: outside the class; the data is the same -/
example : tkoRun (strBytes "[t]\na.b = 1\n[t.a.c]\n") = false ∧ sameData (strBytes "[t]\na.b = 1\n[t.a.c]\n") = some true ∧
    tkoRun (strBytes "a.b = 1\n[a.c]\n") = false := by decide +kernel

/-- non-adjacent dotted keys, and the counterexample of `T03_same_data_counterexample` -/
example : tkoRun (strBytes "a.b = 1\nc = 2\na.d = 3\n") = false ∧
    tkoRun (strBytes "[a.b.d]\n[a]\nb.c.e = 3\n") = false ∧
    sameData (strBytes "[a.b.d]\n[a]\nb.c.e = 3\n") = some false := by decide +kernel

end TomlVerif.Props.C03More
