import TomlVerif.Lemmas.Encode06e
/-! # C06, containers and documents — what is built through the API prints as TOML that decodes back

  The two statements staged in `Props/C06.lean`, proved. Helpers: `Lemmas/Encode06b.lean` (values: induction over
  the decorated tree on top of the step lemmas of `Lemmas/Value01.lean`), `Lemmas/Encode06c.lean` (the statement
  loop on the printed tables = the run of their statements), `Lemmas/Encode06d.lean` (the definition state machine
  on a preorder walk, stated on the virtual document `intoDocument st`), `Lemmas/Encode06e.lean` (built tables
  meet the invariants; assembly). -/
namespace TomlVerif.Props.C06
open TomlVerif TomlVerif.Spec TomlVerif.Model TomlVerif.Model.Encode06 TomlVerif.Model.Value
open TomlVerif.Lemmas.Encode06 TomlVerif.Lemmas.Encode06b TomlVerif.Lemmas.Encode06e TomlVerif.Spec.Encode06

/-- **T06_inline**: every value built from in-range leaves with `Array::new/push`, `InlineTable::new/insert`
    or the `FromIterator` impls, nested below the parser's recursion limit, prints as text that
    `str::parse::<Value>` reads back as the same value: same element order, same key order. -/
theorem T06_inline : T06_inline_statement := by
  intro b hl hd
  obtain ⟨F, hF⟩ := value_printValue b hl 0 [] (by omega) leafFollow_nil
  rw [Props.C04Fuel.T04_parseValue_fuel _ (F + (3 * (printValue (buildVal b)).length + 4)) (by omega)]
  have := hF (F + (3 * (printValue (buildVal b)).length + 4)) (by omega)
  rw [List.append_nil] at this
  rw [this]

/-- the same inside any context the printer puts a value in, at any recursion depth that leaves room for the
    value's own nesting, for every sufficient fuel -/
theorem T06_inline_context (b : BVal) (hl : LeavesOkV (buildVal b)) (d : Nat) (rest : Bytes)
    (hd : d + depthV (buildVal b) < LIMIT) (hr : LeafFollow rest) :
    ∃ F, ∀ fuel, F ≤ fuel → value fuel d (printValue (buildVal b) ++ rest) = .ok (canonValD (buildVal b)) rest :=
  value_printValue b hl d rest hd hr

/-- non-vacuity: an array built with `push` holding an inline table with a key that needs quotes, a repeated
    key (the second `insert` replaces the value, the key keeps its place) and a nested array from an iterator -/
def sampleVal : BVal :=
  .arr false [.int 1, .inl false [([0x61, 0x20, 0x62], .arr true [.bool true, .str [0x0A]]), ([0x6B], .int 2),
    ([0x61, 0x20, 0x62], .arr true [])], .str [0x27]]

example : LeavesOkV (buildVal sampleVal) ∧ depthV (buildVal sampleVal) < LIMIT := by
  refine ⟨?_, by decide⟩
  simp [sampleVal, buildVal, buildVals, buildKVs, arrayPush, decorate, aset, alookup, areplace, LeavesOkV, LeavesOkVs,
    LeavesOkPairs]
  exact ⟨LeafOk.int _ _ (by decide), LeafOk.int _ _ (by decide), LeafOk.str _ _⟩

example : printValue (buildVal sampleVal) =
    [0x5B, 0x31, 0x2C, 0x20, 0x7B, 0x20, 0x22, 0x61, 0x20, 0x62, 0x22, 0x20, 0x3D, 0x20, 0x5B, 0x5D, 0x2C, 0x20,
     0x6B, 0x20, 0x3D, 0x20, 0x32, 0x20, 0x7D, 0x2C, 0x20, 0x22, 0x27, 0x22, 0x5D] := by decide +kernel


/-! ## documents -/

/-- **T06_doc**: every document built through the API (`Table::new` + `insert`, `Item::Table`,
    `ArrayOfTables::new` + `push`, values as in `T06_inline`) from in-range leaves, nested below the parser's
    limit and without an empty `ArrayOfTables` (known finding F10), prints (`DocumentMut::to_string`) as text
    the document parser accepts, and the parsed tree is the built tree up to the flags the parser sets
    (`implicit`, `dotted`, `doc_position`): in every table the values in build order, then the sub-tables
    and arrays of tables in build order; NaNs reduced to their sign. -/
theorem T06_doc : T06_doc_statement := by
  intro t hl hd hne
  exact doc_roundtrip (buildTbl t) (ok_tbl (buildTbl t) 0 (built_tbl t) hl hne (by omega))

/-- the statement proved through the parser's own decomposition: the text is accepted by the statement loop
    as exactly the statements of the preorder walk (one header per table, one key/value statement per value) -/
theorem T06_doc_statements (t : BTbl) (hl : LeavesOkT (buildTbl t)) (hd : depthT (buildTbl t) < LIMIT)
    (hne : NoEmptyAotT (buildTbl t)) :
    Doc.parseDocument (printDoc (buildTbl t)) =
      (Lemmas.State09.run {} (Lemmas.Encode06c.stmtsVs (Lemmas.Encode06d.visT (buildTbl t) [] false))).bind
        State.intoDocument := by
  have h := ok_tbl (buildTbl t) 0 (built_tbl t) hl hne (by omega)
  rw [printDoc_eq _ h, Lemmas.Encode06c.parseDocument_visits _ (fun v hv => (visitOk_T _ [] false h v hv).1)]

/-- non-vacuity: `sampleDoc` of `Props/C06.lean` (a value after a sub-table, an array of tables in an array of
    tables, a table holding only sub-tables, a string that needs the multi-line form) meets the hypotheses -/
example : LeavesOkT (buildTbl sampleDoc) ∧ depthT (buildTbl sampleDoc) < LIMIT ∧ NoEmptyAotT (buildTbl sampleDoc) := by
  refine ⟨?_, by decide, ?_⟩
  · simp [sampleDoc, buildTbl, buildItems, buildItem, buildTbls, buildVal, aset, alookup, LeavesOkT, LeavesOkItems,
      LeavesOkI, LeavesOkTs, LeavesOkV]
    exact ⟨LeafOk.str _ _, LeafOk.bool _ _⟩
  · simp [sampleDoc, buildTbl, buildItems, buildItem, buildTbls, buildVal, aset, alookup, NoEmptyAotT,
      NoEmptyAotItems, NoEmptyAotI, NoEmptyAotTs]

/-- a second instance: a sub-table whose key needs quotes (`"a b"`), below it an inline table with a quoted key,
    a key inserted twice (the second `insert` replaces the item in place) and an array of tables with a dotted-looking key -/
def sampleDoc2 : BTbl :=
  .mk [([0x61, 0x20, 0x62], .table (.mk [([0x76], .value (.inl false [([0x2E], .arr false [.int 1, .int 2])]))])),
       ([0x78], .value (.int 1)), ([0x61, 0x2E, 0x62], .aot [.mk [([0x79], .value (.bool false))]]),
       ([0x78], .value (.int 2))]

example : LeavesOkT (buildTbl sampleDoc2) ∧ depthT (buildTbl sampleDoc2) < LIMIT ∧ NoEmptyAotT (buildTbl sampleDoc2) := by
  refine ⟨?_, by decide, ?_⟩
  · simp [sampleDoc2, buildTbl, buildItems, buildItem, buildTbls, buildVal, buildVals, buildKVs, arrayPush, decorate, aset,
      alookup, areplace, LeavesOkT, LeavesOkItems, LeavesOkI, LeavesOkTs, LeavesOkV, LeavesOkVs, LeavesOkPairs]
    exact ⟨⟨LeafOk.int _ _ (by decide), LeafOk.int _ _ (by decide)⟩, LeafOk.int _ _ (by decide), LeafOk.bool _ _⟩
  · simp [sampleDoc2, buildTbl, buildItems, buildItem, buildTbls, buildVal, aset, alookup, areplace, NoEmptyAotT,
      NoEmptyAotItems, NoEmptyAotI, NoEmptyAotTs]

/-- `x = 2`, blank line, `["a b"]`, `v = { "." = [1, 2] }`, blank line, `[["a.b"]]`, `y = false` -/
example : printDoc (buildTbl sampleDoc2) =
    [0x78, 0x20, 0x3D, 0x20, 0x32, 0x0A,
     0x0A, 0x5B, 0x22, 0x61, 0x20, 0x62, 0x22, 0x5D, 0x0A,
     0x76, 0x20, 0x3D, 0x20, 0x7B, 0x20, 0x22, 0x2E, 0x22, 0x20, 0x3D, 0x20, 0x5B, 0x31, 0x2C, 0x20, 0x32, 0x5D, 0x20, 0x7D, 0x0A,
     0x0A, 0x5B, 0x5B, 0x22, 0x61, 0x2E, 0x62, 0x22, 0x5D, 0x5D, 0x0A,
     0x79, 0x20, 0x3D, 0x20, 0x66, 0x61, 0x6C, 0x73, 0x65, 0x0A] := by decide +kernel

/-- the hypothesis `NoEmptyAotT` cannot be dropped: `T06_finding_empty_aot` (F10) -/
example : ¬ NoEmptyAotT (buildTbl witnessF10) := by
  simp [witnessF10, buildTbl, buildItems, buildItem, buildTbls, buildVal, aset, alookup, NoEmptyAotT, NoEmptyAotItems,
    NoEmptyAotI]

end TomlVerif.Props.C06

