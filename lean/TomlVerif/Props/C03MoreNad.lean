import TomlVerif.Props.C03MoreSem
import TomlVerif.Lemmas.Tiling03MoreNadMain
/-! C03, continued — the weaker clause (valid, SAME DATA) without the adjacency of dotted keys.

    The class.  `nadRun s` (`Lemmas/Tiling03MoreNadDefs.lean`) is `adjRun s`
    (`Props/C03MoreSem.lean`) with the key/value check `dottedOkA` (a prefix segment naming an
    existing entry names the LAST entry of its table, a dotted-key table) replaced by `dottedOkN`:
    a prefix segment of the key that names an existing entry names a dotted-key table — anywhere
    in its table.  The header check (`pathOkA`) is unchanged.  Still excluded: a dotted key through
    a table that a header made implicitly (the statement is false there,
    `T03_same_data_counterexample`) and a `[t]` header on an implicitly existing table.

    Why it holds (`Lemmas/Tiling03MoreNad{Sem,Defs,Tree,State,Main}.lean`).  With non-adjacent
    dotted keys the printer REGROUPS the body: a key/value line is not appended to the flattened
    body but inserted after the entries of its group (`kv_descendN`).  So the printed text is not
    the source's statements in source order, and the invariant of the adjacent case
    (`run {} (statements so far) = erased state`, extended by appending) does not survive a
    key/value line.  Instead the line loop carries (`NInvG`): the lines `lsPre` up to and including
    the header of the current section run to the state just after that header, and the remaining
    lines are groups, one per entry of the flattened current body (`Aligned`).  A key/value line
    inserts its group.  At a header line and at the end of input the statements of the groups are
    replayed: replaying the flattened entries of a body — distinct keys, non-empty implicit
    dotted-key tables (`bodyOkN`, maintained by `kv_descendN`) — into the emptied table rebuilds
    exactly that body (`replay_body`, by `replay_push_new` / `replay_push_some`: statements under a
    common first segment build the sub-table of that segment).  This gives back the invariant of
    the adjacent case (`ninv_ainv`), and the rest is `T03_same_data_adjacent`'s proof. -/
namespace TomlVerif.Props.C03More
open TomlVerif TomlVerif.Model TomlVerif.Model.Cst TomlVerif.Model.Encode
open TomlVerif.Lemmas.Cst03 TomlVerif.Lemmas.Tiling03 TomlVerif.Lemmas.Tiling03Hdr TomlVerif.Lemmas.Tiling03Nest
open TomlVerif.Lemmas.Tiling03More TomlVerif.Lemmas.Tiling03More.Nad
open TomlVerif.Props.C03 TomlVerif.Props.C03Doc TomlVerif.Props.C03Hdr TomlVerif.Props.C03Nest

/-- class inclusion: the class of `T03_same_data_adjacent` is inside the new one -/
theorem T03_adjRun_nadRun (s : Bytes) (h : adjRun s = true) : nadRun s = true :=
  adjRun_N s h

/-- T03_same_data_nonadjacent: for every source in the class — dotted keys in any order, no
    hypothesis on BOM, CR, final newline, spelling or values — the printed text decodes (semantic
    parser) to the same table, flags and positions included -/
theorem T03_same_data_nonadjacent (s : Bytes) (d : CDoc) (h : parseCst s = some d) (hrun : nadRun s = true) :
    Doc.parseDocument (printDoc s d) = Doc.parseDocument s := by
  rw [same_data_nad s d h hrun, ← T03_cst_erases_to_doc s, h]; rfl

/-- … and is accepted by the format-preserving parser, with the same data -/
theorem T03_same_data_nonadjacent_cst (s : Bytes) (d : CDoc) (h : parseCst s = some d) (hrun : nadRun s = true) :
    ∃ d', parseCst (printDoc s d) = some d' ∧ eraseTbl d'.root = eraseTbl d.root :=
  (T03_reparse_iff_doc (printDoc s d) (fun t => t = eraseTbl d.root)).2 ⟨_, same_data_nad s d h hrun, rfl⟩

/-- with the fixed data spelled out -/
theorem T03_same_data_nonadjacent_tbl (s : Bytes) (d : CDoc) (h : parseCst s = some d) (hrun : nadRun s = true) :
    Doc.parseDocument (printDoc s d) = some (eraseTbl d.root) :=
  same_data_nad s d h hrun

/-! ### non-vacuity: in `nadRun`, outside `adjRun`, not printed back byte for byte, same data -/

/-- the smallest case: `c` between `a.b` and `a.d`; the printer regroups -/
example : nadRun (strBytes "a.b = 1\nc = 2\na.d = 3\n") = true ∧ adjRun (strBytes "a.b = 1\nc = 2\na.d = 3\n") = false ∧
    (parseCst (strBytes "a.b = 1\nc = 2\na.d = 3\n")).map (printDoc (strBytes "a.b = 1\nc = 2\na.d = 3\n"))
      = some (strBytes "a.b = 1\na.d = 3\nc = 2\n") ∧
    sameData (strBytes "a.b = 1\nc = 2\na.d = 3\n") = some true := by decide +kernel

/-- two levels, in a `[t]` section, with comments: the comment line `# c2` travels with `a.y` -/
example : nadRun (strBytes "[t]\na.x.p = 1 # c1\n# c2\na.y = 2\nq = 1\na.x.q = 3\n") = true ∧
    adjRun (strBytes "[t]\na.x.p = 1 # c1\n# c2\na.y = 2\nq = 1\na.x.q = 3\n") = false ∧
    (parseCst (strBytes "[t]\na.x.p = 1 # c1\n# c2\na.y = 2\nq = 1\na.x.q = 3\n")).map
        (printDoc (strBytes "[t]\na.x.p = 1 # c1\n# c2\na.y = 2\nq = 1\na.x.q = 3\n"))
      = some (strBytes "[t]\na.x.p = 1 # c1\na.x.q = 3\n# c2\na.y = 2\nq = 1\n") ∧
    sameData (strBytes "[t]\na.x.p = 1 # c1\n# c2\na.y = 2\nq = 1\na.x.q = 3\n") = some true := by decide +kernel

/-- a BOM, CR LF, respelled dotted keys and headers, sections out of order, comments, non-adjacent
    dotted keys on two levels and inside an inline table, no final newline -/
def exNadAll : Bytes :=
  [0xEF, 0xBB, 0xBF] ++ strBytes ("[a]\r\nk.x = 1\r\nm = 2\r\nk . y = 3\r\n# c\r\n[c]\r\n[ a.b]\r\nu.v.w = 1\r\n" ++
    "z = {p.q = 1, r = 2, p.s = 3}\r\nu.v.x = 2\r\nu.y = 3 # e\r\nu.v.z = 4\r\n[[a.c]]\r\n[[a . c]] # z")

example : nadRun exNadAll = true ∧ adjRun exNadAll = false ∧
    (parseCst exNadAll).map (printDoc exNadAll)
      = some (strBytes ("[a]\nk.x = 1\nk. y = 3\nm = 2\n# c\n[c]\n[ a.b]\nu.v.w = 1\nu.v.x = 2\nu.v.z = 4\nu.y = 3 # e\n" ++
          "z = {p.q = 1, p.s = 3, r = 2}\n[[a.c]]\n[[a.c]] # z\n")) ∧
    sameData exNadAll = some true := by decide +kernel

/-- the examples of the older classes -/
example : nadRun (strBytes "# only comment") = true ∧ nadRun exSemAll = true ∧ nadRun exOrd2 = true ∧
    nadRun exCargoOrd = true ∧ nadRun exMixed = true ∧ nadRun exNestedCrlf = true := by decide +kernel

/-! ### what stays excluded -/

/-- a dotted key through a table made by a header (`T03_same_data_counterexample`,
    `Props/C03More.lean`): outside the class, and the data DIFFERS (the `dotted` flag of `a.b`) -/
example : nadRun (strBytes "[a.b.d]\n[a]\nb.c.e = 3\n") = false ∧
    sameData (strBytes "[a.b.d]\n[a]\nb.c.e = 3\n") = some false := by decide +kernel

/-- a `[t]` header on an implicitly existing table: outside the class (same data here) -/
example : nadRun (strBytes "[x.y]\n[z]\n[x]\n") = false ∧ sameData (strBytes "[x.y]\n[z]\n[x]\n") = some true := by
  decide +kernel

end TomlVerif.Props.C03More

#print axioms TomlVerif.Props.C03More.T03_same_data_nonadjacent
#print axioms TomlVerif.Props.C03More.T03_same_data_nonadjacent_cst
#print axioms TomlVerif.Props.C03More.T03_adjRun_nadRun
