import TomlVerif.Props.C03MoreGen2
import TomlVerif.Lemmas.Tiling03MoreGen2Main
/-! C03, continued — headers THROUGH dotted-key tables (`a.d = 3`, `[a.b]`): the same-data clause
    for the class `genRun2` (`Lemmas/Tiling03MoreGen2Defs.lean`; `genRun` with `!t.dotted` dropped
    for every table on a header's path, `pathOkT2`), which `Props/C03MoreGen2.lean` kept as the
    unproved `T03_same_data_general_class2_statement`.  PROVED here, at full strength.

    Why it holds (`Lemmas/Tiling03MoreGen2{Tree,State,Main}.lean`): the proof of the join class
    (`Lemmas/Tiling03MoreGen{Tree,State,Main}.lean` on `Tiling03MoreTko*.lean`) with two changes on
    the root side, as the header of `Props/C03MoreGen2.lean` asked:
      1. the root invariant is `gk2Items` instead of `gkItems`: the stored keys of ALL tables
         below the root, dotted-key tables included, are `GKey` (for a finished body from `bodyG`,
         `bodyG_gk2`); it is kept by `start_table` / `finalize_table` (`start_spineT2`,
         `fin_spineT2`) and gives the stored key of a dotted-key table a header passes through;
      2. the path predicate `SpineA2` is `SpineA` without `t.dotted = false`; along the path the
         flattened body of every table is unchanged at EVERY prefix (`∀ Q, valuesTbl t'.items Q =
         valuesTbl t.items Q`: `valuesTbl_mid_tbl_congr`, from `valuesTbl_mid_table` for a
         non-dotted and `valuesTbl_mid_dotted` for a dotted-key table — the new child is a
         non-dotted table, so the enclosing body text is the same), and the summary `nsTbl` of a
         dotted-key table is `hdN = []` followed by the summary of its items under the path
         through its stored key, which `nsTbl_setItems` already covers.
    The only other change: `PhaseT2` records `st.root.dotted = false` (it came from `SpineA`).
    The current-table side (`kv_descendG`, `replay_body`, `run_bodyG`) is used unchanged. -/
namespace TomlVerif.Props.C03More
open TomlVerif TomlVerif.Model TomlVerif.Model.Cst TomlVerif.Model.Encode
open TomlVerif.Lemmas.Cst03 TomlVerif.Lemmas.Tiling03 TomlVerif.Lemmas.Tiling03Hdr TomlVerif.Lemmas.Tiling03Nest
open TomlVerif.Lemmas.Tiling03More TomlVerif.Lemmas.Tiling03More.Tko TomlVerif.Lemmas.Tiling03More.Gen
open TomlVerif.Props.C03 TomlVerif.Props.C03Doc TomlVerif.Props.C03Hdr TomlVerif.Props.C03Nest

/-- T03_same_data_general_class2: for every source in `genRun2` (headers may pass through
    dotted-key tables) the printed text decodes (semantic parser) to the same table, flags and
    positions included -/
theorem T03_same_data_general_class2 : T03_same_data_general_class2_statement := by
  intro s d h hrun
  rw [same_data_gen2 s d h hrun, ← T03_cst_erases_to_doc s, h]; rfl

/-- the same, with the statement written out -/
theorem T03_same_data_general_class2' (s : Bytes) (d : CDoc) (h : parseCst s = some d) (hrun : genRun2 s = true) :
    Doc.parseDocument (printDoc s d) = Doc.parseDocument s :=
  T03_same_data_general_class2 s d h hrun

/-- … and the printed text is accepted by the format-preserving parser, with the same data -/
theorem T03_same_data_general_class2_cst (s : Bytes) (d : CDoc) (h : parseCst s = some d) (hrun : genRun2 s = true) :
    ∃ d', parseCst (printDoc s d) = some d' ∧ eraseTbl d'.root = eraseTbl d.root :=
  (T03_reparse_iff_doc (printDoc s d) (fun t => t = eraseTbl d.root)).2 ⟨_, same_data_gen2 s d h hrun, rfl⟩

theorem T03_same_data_general_class2_tbl (s : Bytes) (d : CDoc) (h : parseCst s = some d) (hrun : genRun2 s = true) :
    Doc.parseDocument (printDoc s d) = some (eraseTbl d.root) :=
  same_data_gen2 s d h hrun

/-- `T03_same_data_general_class` is the instance on the smaller class -/
theorem T03_same_data_general_class_of_class2 (s : Bytes) (d : CDoc) (h : parseCst s = some d)
    (hrun : genRun s = true) : Doc.parseDocument (printDoc s d) = Doc.parseDocument s :=
  T03_same_data_general_class2 s d h (T03_genRun_genRun2 s hrun)

/-! ### non-vacuity: documents in `genRun2`, outside `genRun`, accepted by `parseCst` -/

/-- `a.d = 3`, `[a.b]`: a header through a dotted-key table of the root -/
def exGen2a : Bytes := strBytes "a.d = 3\n[a.b]\n"

example : genRun2 exGen2a = true ∧ genRun exGen2a = false ∧ (parseCst exGen2a).isSome = true := by decide +kernel

example : ∃ d, parseCst exGen2a = some d ∧ Doc.parseDocument (printDoc exGen2a d) = Doc.parseDocument exGen2a := by
  have h1 : genRun2 exGen2a = true := by decide +kernel
  have h2 : (parseCst exGen2a).isSome = true := by decide +kernel
  obtain ⟨d, hd⟩ := Option.isSome_iff_exists.1 h2
  exact ⟨d, hd, T03_same_data_general_class2 exGen2a d hd h1⟩

/-- `[t]`, `a.b = 1`, `[t.a.c]`: a header through a dotted-key table of a finished section -/
def exGen2b : Bytes := strBytes "[t]\na.b = 1\n[t.a.c]\n"

example : genRun2 exGen2b = true ∧ genRun exGen2b = false ∧ (parseCst exGen2b).isSome = true := by decide +kernel

example : ∃ d, parseCst exGen2b = some d ∧ Doc.parseDocument (printDoc exGen2b d) = Doc.parseDocument exGen2b := by
  have h1 : genRun2 exGen2b = true := by decide +kernel
  have h2 : (parseCst exGen2b).isSome = true := by decide +kernel
  obtain ⟨d, hd⟩ := Option.isSome_iff_exists.1 h2
  exact ⟨d, hd, T03_same_data_general_class2 exGen2b d hd h1⟩

/-- arrays of tables and a take-over below a dotted-key table, then non-adjacent dotted keys in the
    taken-over table; a header through a dotted-key table built by non-adjacent dotted keys;
    CR LF, a respelled header segment (`[ t . a .c]`), comments, no final newline -/
def exGen2c : Bytes := strBytes "a.b = 1\n[a.c.d]\n[a.c]\ne.f = 1\ng = 1\ne.h = 2\n[[a.q]]\n[[a.q]]\n[a.q.r]\n"
def exGen2d : Bytes :=
  strBytes "# top\r\n[t]\r\na.b = 1 # x\r\nc = 2\r\na.d = 2\r\n[ t . a .c]\r\nq.r = 1\r\n[[t.a.e]]\r\n[[t.a.e]] # last"

example : genRun2 exGen2c = true ∧ genRun exGen2c = false ∧ (parseCst exGen2c).isSome = true ∧
    sameData exGen2c = some true ∧
    genRun2 exGen2d = true ∧ genRun exGen2d = false ∧ (parseCst exGen2d).isSome = true ∧
    sameData exGen2d = some true := by decide +kernel

/-- the examples of the smaller classes are instances too -/
example : genRun2 exGen1 = true ∧ genRun2 exGenAll = true := by decide +kernel

/-! ### what stays excluded -/

/-- a dotted key through a table made by a header (the data DIFFERS); a take-over under a
    respelled name (same data, not covered) -/
example : genRun2 (strBytes "[a.b.d]\n[a]\nb.c.e = 3\n") = false ∧
    sameData (strBytes "[a.b.d]\n[a]\nb.c.e = 3\n") = some false ∧
    genRun2 (strBytes "[x .y]\n[x]\n") = false ∧ sameData (strBytes "[x .y]\n[x]\n") = some true := by
  decide +kernel

end TomlVerif.Props.C03More

#print axioms TomlVerif.Props.C03More.T03_same_data_general_class2
#print axioms TomlVerif.Props.C03More.T03_same_data_general_class2_cst
#print axioms TomlVerif.Props.C03More.T03_same_data_general_class2_tbl
