import TomlVerif.Props.C03MoreGen
import TomlVerif.Lemmas.Tiling03MoreGen2Defs
/-! C03, continued — headers THROUGH dotted-key tables (`a.d = 3`, `[a.b]`): the class `genRun2`
    and what is proved about it.

    The class.  `genRun2 s` (`Lemmas/Tiling03MoreGen2Defs.lean`) is `genRun s` with the condition
    `!t.dotted` dropped for EVERY table `t` on a header's path (`pathOkT2`), the parent of the last
    key included: in both target documents the table that receives the new section is itself the
    dotted-key table.  The conditions on the ENTRY named by the last key are kept (absent; an
    array of tables for `[[…]]`; an implicit non-dotted table holding sub-tables only, spelled like
    the stored key, for a take-over).

    PROVED: `T03_genRun_genRun2` (inclusion) and the decidable facts below (the two target
    documents and eleven more are in `genRun2`, outside `genRun`, and decode to the same data).

    `T03_same_data_general_class2_statement` (kept here as a `Prop`) is PROVED in
    `Props/C03MoreGen3.lean` (`T03_same_data_general_class2`) with the generalised spine lemmas of
    `Lemmas/Tiling03MoreGen2{Tree,State,Main}.lean` (`gk2Items` records the stored keys of dotted-key
    tables; `SpineA2`, `start_spineT2`, `fin_spineT2` without `t.dotted = false`). -/
namespace TomlVerif.Props.C03More
open TomlVerif TomlVerif.Model TomlVerif.Model.Cst TomlVerif.Model.Encode
open TomlVerif.Lemmas.Tiling03More TomlVerif.Lemmas.Tiling03More.Tko TomlVerif.Lemmas.Tiling03More.Gen

/-- class inclusion -/
theorem T03_genRun_genRun2 (s : Bytes) (h : genRun s = true) : genRun2 s = true := genRun_G2 s h

/-- the statement for the larger class — proved in `Props/C03MoreGen3.lean` -/
def T03_same_data_general_class2_statement : Prop :=
  ∀ (s : Bytes) (d : CDoc), parseCst s = some d → genRun2 s = true →
    Doc.parseDocument (printDoc s d) = Doc.parseDocument s

/-- its instance on what is already proved -/
theorem T03_same_data_general_class2_on_genRun (s : Bytes) (d : CDoc) (h : parseCst s = some d)
    (hrun : genRun s = true) : genRun2 s = true ∧ Doc.parseDocument (printDoc s d) = Doc.parseDocument s :=
  ⟨genRun_G2 s hrun, T03_same_data_general_class s d h hrun⟩

/-! ### the target documents: in `genRun2`, outside `genRun`, same data (decidable form) -/

example : genRun2 (strBytes "a.d = 3\n[a.b]\n") = true ∧ genRun (strBytes "a.d = 3\n[a.b]\n") = false ∧
    (parseCst (strBytes "a.d = 3\n[a.b]\n")).map (printDoc (strBytes "a.d = 3\n[a.b]\n"))
      = some (strBytes "a.d = 3\n[a.b]\n") ∧
    sameData (strBytes "a.d = 3\n[a.b]\n") = some true := by decide +kernel

example : genRun2 (strBytes "[t]\na.b = 1\n[t.a.c]\n") = true ∧ genRun (strBytes "[t]\na.b = 1\n[t.a.c]\n") = false ∧
    (parseCst (strBytes "[t]\na.b = 1\n[t.a.c]\n")).map (printDoc (strBytes "[t]\na.b = 1\n[t.a.c]\n"))
      = some (strBytes "[t]\na.b = 1\n[t.a.c]\n") ∧
    sameData (strBytes "[t]\na.b = 1\n[t.a.c]\n") = some true := by decide +kernel

/-- arrays of tables, a take-over and non-adjacent dotted keys below dotted-key tables -/
example :
    genRun2 (strBytes "a.b = 1\n[[a.c]]\n[[a.c]]\n[a.c.d]\n") = true ∧
    sameData (strBytes "a.b = 1\n[[a.c]]\n[[a.c]]\n[a.c.d]\n") = some true ∧
    genRun2 (strBytes "a.b = 1\n[a.c.d]\n[a.c]\ne.f = 1\ng = 1\ne.h = 2\n") = true ∧
    genRun (strBytes "a.b = 1\n[a.c.d]\n[a.c]\ne.f = 1\ng = 1\ne.h = 2\n") = false ∧
    sameData (strBytes "a.b = 1\n[a.c.d]\n[a.c]\ne.f = 1\ng = 1\ne.h = 2\n") = some true ∧
    genRun2 (strBytes "[t]\na.b = 1\nc = 2\na.d = 2\n[t.a.c]\nq.r = 1\n[t.a.e]\n") = true ∧
    sameData (strBytes "[t]\na.b = 1\nc = 2\na.d = 2\n[t.a.c]\nq.r = 1\n[t.a.e]\n") = some true := by decide +kernel

/-- still excluded: the counterexample of the same-data statement; the respelled take-over -/
example : genRun2 (strBytes "[a.b.d]\n[a]\nb.c.e = 3\n") = false ∧ genRun2 (strBytes "[x .y]\n[x]\n") = false := by
  decide +kernel

end TomlVerif.Props.C03More

#print axioms TomlVerif.Props.C03More.T03_genRun_genRun2
