import TomlVerif.Lemmas.DeSpanned14d
import TomlVerif.Props.C14Spanned
import TomlVerif.Props.C15Located
/-! C14, second sentence, the congruence: "wrapping a target type in Spanned never changes whether decoding succeeds or what
    value results" — for `Spanned` wrappers at ANY depth of the wrapper grammar `STy` (Model/DeSpanned.lean).

    `T14_spanned_transparent`: under `Ok t it` (Lemmas/DeSpanned14c.lean), decoding into the wrapper type `t` is decoding into
    the stripped type `strip t`: the same verdict, on success the stripped value, on failure the SAME error (span and keys).
    `Ok t it` says, along the nodes the decoding of `it` into `t` visits:
      * every node a `Spanned<_>` of the type meets has an `item_span` (its own span, or the range its entries cover) — true
        of every node of a parsed document that has an entry or a span, false everywhere in a despanned tree;
      * a map key met by a key type containing `Spanned` has a span, and the key type has no `Spanned` inside a `Spanned`
        (`keyOk`, "NoDoubleSpannedKey");
      * `missing_field` agrees for every struct field (`missAll` / `missAgree`, "NoSpannedOption": `Spanned<Option<T>>` is the
        one wrapper type for which it does not);
      * where a DATE-TIME is read as a map or a struct (its one entry comes through serde's string deserializers, which know
        nothing of `Spanned`) the key type is `String` and the value type is not `Spanned<_>` itself.
    Each exclusion is necessary: `ex_spanned_option`, `ex_double_spanned_key`, `ex_datetime_map_spanned_key` below (the first
    two confirmed on the real code in Props/C14Spanned.lean; the third: `sp S S(61:K(P(s),s)) 61203d20313937392d30352d32370a`
    → err, while `loc S S(61:M(s)) …` → ok). -/
namespace TomlVerif.Props.C14SpannedFull
open TomlVerif TomlVerif.Model TomlVerif.Model.DeTyped TomlVerif.Model.Cst TomlVerif.Model.DeLocated
open TomlVerif.Model.DeSpanned TomlVerif.Lemmas.DeLocated15 TomlVerif.Lemmas.DeSpanned14

/-- T14_spanned_transparent: under `Ok t it`, `decodeSp` into the wrapper type with the wrappers forgotten IS `decodeLoc`
into the stripped type — verdict, value and error location. -/
theorem T14_spanned_transparent (fl : TomlValue.Flavour) (t : STy) (it : SItem) (h : Ok t it) :
    lmap stripDec (decodeSp fl t it) = decodeLoc fl (strip t) it :=
  tr_ty fl t it h

/-- the same, spelled out: success iff success, the stripped value, the same error -/
theorem T14_spanned_transparent_cases (fl : TomlValue.Flavour) (t : STy) (it : SItem) (h : Ok t it) :
    (∀ d, decodeSp fl t it = .ok d → decodeLoc fl (strip t) it = .ok (stripDec d)) ∧
    (∀ d', decodeLoc fl (strip t) it = .ok d' → ∃ d, decodeSp fl t it = .ok d ∧ stripDec d = d') ∧
    (∀ e, decodeSp fl t it = .error e ↔ decodeLoc fl (strip t) it = .error e) := by
  have ht := T14_spanned_transparent fl t it h
  refine ⟨fun d hd => ?_, fun d' hd' => ?_, fun e => ?_⟩
  · rw [← ht, hd]; rfl
  · rw [← ht] at hd'
    obtain ⟨d, hd, rfl⟩ := lmap_ok _ _ _ hd'
    exact ⟨d, hd, rfl⟩
  · rw [← ht]
    cases decodeSp fl t it <;> simp [lmap]

/-- with `T15_loc_erases`: the wrapper type decodes exactly when the unlocated model `decodeEdit` (C13) decodes the
stripped type, to the stripped value -/
theorem T14_spanned_transparent_edit (fl : TomlValue.Flavour) (t : STy) (it : SItem) (h : Ok t it)
    (hw : wfTy (strip t) = true) (d' : Dec) :
    (∃ d, decodeSp fl t it = .ok d ∧ stripDec d = d') ↔ decodeEdit editAsIs fl (strip t) (eraseItem it) = .ok d' := by
  rw [← Props.C15Located.T15_loc_erases_ok fl (strip t) it hw d']
  obtain ⟨h1, h2, _⟩ := T14_spanned_transparent_cases fl t it h
  constructor
  · rintro ⟨d, hd, rfl⟩; exact h1 d hd
  · exact h2 d'

/-! ## non-vacuity -/

def i32 : Ty := .int (-2147483648) 2147483647
def key (s : String) (a b : Nat) : CKey := { key := strBytes s, repr := .spanned a b }
/-- `a = 1` -/
def exDoc : CItem := .table (.mk [(key "a" 0 1, .value (.scalar (.int 1) (.spanned 4 5) {}))] false false (some 0) {} (some (0, 5)))

example : Ok (.spanned (.option (.spanned (.plain i32)))) (.value (.scalar (.int 1) (.spanned 4 5) {})) := by
  simp [Ok, itemSpan, ispanVal, Raw.span]

/-- `Spanned<BTreeMap<Spanned<Newtype(String)>, Spanned<i32>>>` on the document `a = 1` -/
example : Ok (.spanned (.map (.spanned (.newtype .string)) (.spanned (.plain i32)))) exDoc := by
  refine ⟨by decide, ?_⟩
  intro es hes kv hkv
  simp only [exDoc, locMapEntries, eraseItem, citemEntries, CTbl.items, Option.map_some, Option.some.injEq] at hes
  subst hes
  simp only [List.map_cons, List.map_nil, List.mem_singleton] at hkv
  subst hkv
  refine ⟨by decide, Or.inl (by decide), by decide, trivial⟩

/-! ## each exclusion is necessary -/

def isOk {α} (x : LR α) : Bool := match x with | .ok _ => true | .error _ => false
def emptyRoot : CItem := .table (.mk [] false false (some 0) {} (some (0, 0)))

/-- ex_spanned_option ("NoSpannedOption"): `struct { a: Spanned<Option<i32>> }` from the empty document fails, the stripped
`struct { a: Option<i32> }` succeeds; `missAgree` is what excludes it -/
theorem ex_spanned_option :
    missAgree (.spanned (.option (.plain i32))) = false ∧
    isOk (decodeSp .sorted (.struct (.cons [0x61] (.spanned (.option (.plain i32))) false .nil)) emptyRoot) = false ∧
    isOk (decodeLoc .sorted (strip (.struct (.cons [0x61] (.spanned (.option (.plain i32))) false .nil))) emptyRoot) = true := by
  decide +kernel

/-- ex_double_spanned_key ("NoDoubleSpannedKey"): `BTreeMap<Spanned<Spanned<String>>, i32>` on `a = 1` fails, the stripped
`BTreeMap<String, i32>` succeeds; `keyOk` is what excludes it -/
theorem ex_double_spanned_key :
    keyOk (.spanned (.spanned .string)) = false ∧
    isOk (decodeSp .sorted (.map (.spanned (.spanned .string)) (.plain i32)) exDoc) = false ∧
    isOk (decodeLoc .sorted (strip (.map (.spanned (.spanned .string)) (.plain i32))) exDoc) = true := by
  decide +kernel

/-- ex_datetime_map_spanned_key: a date-time read as `BTreeMap<Spanned<String>, String>` fails (its one key comes through
serde's `BorrowedStrDeserializer`), as `BTreeMap<String, String>` it succeeds -/
def exDt : CItem := .value (.scalar (.dt ⟨some ⟨1979, 5, 27⟩, none, none⟩) (.spanned 4 14) {})
theorem ex_datetime_map_spanned_key :
    isOk (decodeSp .sorted (.map (.spanned .string) (.plain .string)) exDt) = false ∧
    isOk (decodeLoc .sorted (strip (.map (.spanned .string) (.plain .string))) exDt) = true := by
  decide +kernel

end TomlVerif.Props.C14SpannedFull
