import TomlVerif.Props.C03
import TomlVerif.Lemmas.Tiling03Root
import TomlVerif.Lemmas.Tiling03Print
/-! C03, continued — tiling for inline tables with one-segment keys and for whole documents. -/
namespace TomlVerif.Props.C03Doc
open TomlVerif TomlVerif.Model TomlVerif.Model.Cst TomlVerif.Model.Encode
open TomlVerif.Lemmas.Cst03 TomlVerif.Lemmas.Tiling03 TomlVerif.Props.C03

/-- T03_value_tiling (proved part, extended): for values built from scalars, arrays and inline
    tables all of whose keys have one segment (`simpleVal`: no entry of any inline table is an
    implicit/dotted inline table), at any nesting, the recorded pieces tile the source exactly.
    What is missing from `T03_value_tiling_statement`: inline tables with dotted keys, where the
    statement is false (F15, `T03_value_tiling_counterexample`). -/
theorem T03_value_tiling_inline_partial (s : Bytes) (v : CVal) (h : parseCstValue s = some v)
    (hsimple : simpleVal v = true) : verbatimValue s v = s := by
  unfold parseCstValue at h
  split at h
  · rename_i v0 hv
    injection h with h; subst h
    obtain ⟨t, ht, _, _, htile⟩ := cvalue_tiling_simple id s (FixOn.id s) _ 0 s [] v0 (List.suffix_refl s) hv
    rw [List.append_nil] at ht
    rw [verbatimValue, htile hsimple [] [], ← ht]
  · cases h

/-- the same for the real printer when the source has no CR -/
theorem T03_value_print_inline_partial (s : Bytes) (v : CVal) (h : parseCstValue s = some v)
    (hsimple : simpleVal v = true) (hcr : ∀ b ∈ s, b ≠ 0x0D) : printValue s v = s := by
  unfold parseCstValue at h
  split at h
  · rename_i v0 hv
    injection h with h; subst h
    obtain ⟨t, ht, _, _, htile⟩ := cvalue_tiling_simple stripCr s (FixOn.stripCr s hcr) _ 0 s [] v0 (List.suffix_refl s) hv
    rw [List.append_nil] at ht
    rw [printValue, htile hsimple [] [], ← ht]
  · cases h

/-- `{ a = 1 ,"b c"=[ 1, { x = 'y' } ,\r\n # c\n 2.5,\n], d={ } , e = { f = {g=true}} }` -/
def exInline : Bytes := strBytes "{ a = 1 ,\"b c\"=[ 1, { x = 'y' } ,\r\n # c\n 2.5,\n], d={ } , e = { f = {g=true}} }"

example : ((parseCstValue exInline).map simpleVal) = some true ∧
    (parseCstValue exInline).map (verbatimValue exInline) = some exInline := by decide +kernel

/-- the counterexample of `C03` is outside the class -/
example : (parseCstValue exRespelled).map simpleVal = some false := by decide +kernel

/-! ### documents without table headers -/

/-- the root table holds only `simpleVal` values: the document has no `[t]` / `[[t]]` header, no
    dotted key, and no dotted key inside an inline table -/
def rootOnly (d : CDoc) : Bool := simpleBody d.root.items

/-- the three normalisations for the class, on CR-free sources: the printed text is the source
    without its BOM, followed by a line feed only when the last key/value line ended at the end of
    input (the source then does not end with a line feed). -/
theorem T03_doc_norm_root_partial (s : Bytes) (d : CDoc) (h : parseCst s = some d)
    (hroot : rootOnly d = true) (hcr : ∀ b ∈ s, b ≠ 0x0D) :
    ∃ eol, printDoc s d = Doc.stripBom s ++ eol ∧
      (eol = [] ∨ (eol = [0x0A] ∧ (Doc.stripBom s).getLast? ≠ some 0x0A)) :=
  root_doc_tiling stripCr s d (FixOn.stripCr s hcr) hcr h hroot

/-- the same for the verbatim concatenation of the recorded pieces -/
theorem T03_doc_verbatim_root_partial (s : Bytes) (d : CDoc) (h : parseCst s = some d)
    (hroot : rootOnly d = true) (hcr : ∀ b ∈ s, b ≠ 0x0D) :
    ∃ eol, verbatimDoc s d = Doc.stripBom s ++ eol ∧
      (eol = [] ∨ (eol = [0x0A] ∧ (Doc.stripBom s).getLast? ≠ some 0x0A)) :=
  root_doc_tiling id s d (FixOn.id s) hcr h hroot

theorem parseCst_nil : parseCst [] = some ⟨.mk [] false false none {} (some (0, 0)), .empty⟩ := rfl

/-- T03_doc_tiling (proved part, documents without headers): `T03_doc_tiling_statement`
    restricted to documents whose root table holds only simple values.  What is missing from the
    full statement: table headers (next theorem) and dotted keys, where it is false (F15). -/
theorem T03_doc_tiling_root_partial (s : Bytes) (d : CDoc) (h : parseCst s = some d)
    (hroot : rootOnly d = true) (hbom : Doc.stripBom s = s) (hcr : ∀ b ∈ s, b ≠ 0x0D)
    (hnl : s.getLast? = some 0x0A ∨ s = []) : printDoc s d = s := by
  rcases hnl with hnl | hnl
  · obtain ⟨eol, h1, c1⟩ := T03_doc_norm_root_partial s d h hroot hcr
    rw [hbom] at h1 c1
    rcases c1 with c1 | ⟨_, c1⟩
    · rw [h1, c1, List.append_nil]
    · exact absurd hnl c1
  · subst hnl
    rw [parseCst_nil] at h
    injection h with h; subst h
    rfl

/-- the BOM form: a source with a BOM prints as the source without it (the BOM is not part of
    any recorded piece); in particular it prints like the same source without the BOM -/
theorem T03_doc_tiling_bom_partial (s : Bytes) (d' : CDoc)
    (h' : parseCst ([0xEF, 0xBB, 0xBF] ++ s) = some d') (hroot' : rootOnly d' = true)
    (hcr : ∀ b ∈ s, b ≠ 0x0D) (hnl : s.getLast? = some 0x0A) :
    printDoc ([0xEF, 0xBB, 0xBF] ++ s) d' = s ∧
    ∀ d, parseCst s = some d → rootOnly d = true → Doc.stripBom s = s →
      printDoc ([0xEF, 0xBB, 0xBF] ++ s) d' = printDoc s d := by
  have hcr' : ∀ b ∈ [0xEF, 0xBB, 0xBF] ++ s, b ≠ 0x0D := by
    intro b hb
    rcases List.mem_append.1 hb with hb | hb
    · simp at hb; rcases hb with hb | hb | hb <;> subst hb <;> decide
    · exact hcr b hb
  obtain ⟨eol, h1, c1⟩ := T03_doc_norm_root_partial _ d' h' hroot' hcr'
  have hs : Doc.stripBom ([0xEF, 0xBB, 0xBF] ++ s) = s := rfl
  rw [hs] at h1 c1
  have hp : printDoc ([0xEF, 0xBB, 0xBF] ++ s) d' = s := by
    rcases c1 with c1 | ⟨_, c1⟩
    · rw [h1, c1, List.append_nil]
    · exact absurd hnl c1
  refine ⟨hp, ?_⟩
  intro d hd hroot hbom
  rw [hp, T03_doc_tiling_root_partial s d hd hroot hbom hcr (Or.inl hnl)]

/-- T03_print_fixpoint (proved part): in the class, printing is a fixed point of
    parse-then-print -/
theorem T03_print_fixpoint_partial (s : Bytes) (d : CDoc) (h : parseCst s = some d)
    (hroot : rootOnly d = true) (hbom : Doc.stripBom s = s) (hcr : ∀ b ∈ s, b ≠ 0x0D)
    (hnl : s.getLast? = some 0x0A ∨ s = []) :
    ∃ d', parseCst (printDoc s d) = some d' ∧ printDoc (printDoc s d) d' = printDoc s d := by
  have hp := T03_doc_tiling_root_partial s d h hroot hbom hcr hnl
  exact ⟨d, by rw [hp]; exact h, by rw [hp]; exact hp⟩

/-- comments, blank lines, indentation, an inline table, an array with a trailing comma and a
    comment inside, a multi-line string -/
def exRootDoc : Bytes := strBytes
  "# top\n\n  a = 1 # one\n\"b c\"\t= { x = 1, y = [ 1, 2, # two\n 3,\n] }\n\nml = \"\"\"\nline\n\"\"\"\n# end\n"

example : (parseCst exRootDoc).map rootOnly = some true ∧
    (parseCst exRootDoc).map (printDoc exRootDoc) = some exRootDoc ∧
    Doc.stripBom exRootDoc = exRootDoc ∧ (exRootDoc.all fun b => b != 0x0D) = true ∧
    exRootDoc.getLast? = some 0x0A := by decide +kernel

/-- with a BOM, and without a final newline: the printed text drops the BOM and adds the LF -/
def exRootBom : Bytes := [0xEF, 0xBB, 0xBF] ++ strBytes "a = 1\nb = [ 1, 2, ]"

example : (parseCst exRootBom).map rootOnly = some true ∧
    (parseCst exRootBom).map (printDoc exRootBom) = some (strBytes "a = 1\nb = [ 1, 2, ]\n") := by decide +kernel

/-- outside the hypotheses: with CRLF line ends the printed text has LF line ends (CRs of decor and
    line ends are dropped; the theorems above assume a CR-free source) -/
example : (parseCst (strBytes "a = 1\r\n# c\r\nb = 2\r\n")).map (printDoc (strBytes "a = 1\r\n# c\r\nb = 2\r\n"))
    = some (strBytes "a = 1\n# c\nb = 2\n") := by decide +kernel

/-! ### documents with top-level `[t]` / `[[t]]` headers -/

/-- "flat" documents: the root holds simple values, `[t]` tables and one-element `[[t]]` arrays,
    every such table is explicit, undotted, carries a position and full decor and holds only
    simple values, and the positions increase in the order of the root's item list (so no table
    is re-opened, defined out of order, or named through a dotted path) -/
def flatDoc (d : CDoc) : Bool :=
  match d.root with
  | .mk items _ dot p dec _ =>
    !dot && p.isNone && dec.pre.isNone && dec.suf.isNone && flatItems items && sortedFrom 0 (entriesOf items)

/-- T03_doc_tiling for flat documents — NOT PROVED (only its printer half, next theorem).
    Missing: the parser half, i.e. the state invariant of `clines` across `on_std_header` /
    `on_array_header` / `finalize_table` saying that the sections recorded so far print as the
    consumed text (the analogue of `Tiling03.Good` with a non-empty root). -/
def T03_doc_tiling_headers_statement : Prop :=
  ∀ (s : Bytes) (d : CDoc), parseCst s = some d → flatDoc d = true → Doc.stripBom s = s →
    (∀ b ∈ s, b ≠ 0x0D) → (s.getLast? = some 0x0A ∨ s = []) → printDoc s d = s

/-- T03_doc_tiling_headers (proved part, printer half): on a flat document the sort by position
    is the identity and the printer writes the root's values, then one section per root table in
    the order of the item list (header decor, `[`/`[[`, the stored key, `]`/`]]`, trailing, LF,
    body), then the document's trailing text. -/
theorem T03_doc_tiling_headers_partial (f : Bytes → Bytes) (inp : Bytes) (d : CDoc) (h : flatDoc d = true) :
    printDocG f inp d =
      encodeBody f inp (valuesTbl (rootValues d.root.items) []) ++ sectionsText f inp (entriesOf d.root.items)
        ++ encRaw f inp d.trailing := by
  obtain ⟨root, tr⟩ := d
  obtain ⟨items, imp, dot, p, dec, sp⟩ := root
  obtain ⟨pre, suf⟩ := dec
  simp only [flatDoc, Bool.and_eq_true, Bool.not_eq_true', Option.isNone_iff_eq_none] at h
  obtain ⟨⟨⟨⟨⟨hdot, hp⟩, hpre⟩, hsuf⟩, hflat⟩, hsorted⟩ := h
  subst hdot; subst hp; subst hpre; subst hsuf
  exact printDocG_flat f inp items imp sp tr hflat hsorted

/-- root values, a `[a]` section with a comment and an inline table, blank lines, a `[[ c ]]`
    section with inner spaces and a multi-line array, an empty `[b]` section -/
def exFlatDoc : Bytes := strBytes "x = 1\n\n[a] # t\ny = { z = 1 }\n\n[[ c ]]\nq = [1,\n2]\n[b]\n"

example : (parseCst exFlatDoc).map flatDoc = some true ∧
    (parseCst exFlatDoc).map (printDoc exFlatDoc) = some exFlatDoc := by decide +kernel

/-- why `[[t]]` arrays are restricted to one element: a second header of the same array is
    printed with the key recorded for the first (`[[c]]` LF `[[ c ]]` LF prints `[[c]]` twice) -/
example : (parseCst (strBytes "[[c]]\n[[ c ]]\n")).map flatDoc = some false ∧
    (parseCst (strBytes "[[c]]\n[[ c ]]\n")).map (printDoc (strBytes "[[c]]\n[[ c ]]\n"))
      = some (strBytes "[[c]]\n[[c]]\n") := by decide +kernel

/-- why dotted header paths are excluded: a path segment naming an existing table is printed with
    the spelling of its first occurrence (`[ a .d]` after `[a]` prints `[ a.d]`) -/
example : (parseCst (strBytes "[a]\n[ a .d]\n")).map flatDoc = some false ∧
    (parseCst (strBytes "[a]\n[ a .d]\n")).map (printDoc (strBytes "[a]\n[ a .d]\n"))
      = some (strBytes "[a]\n[ a.d]\n") := by decide +kernel

/-- why dotted keys are excluded (document level of F15): `a .b = 1` LF `a.c = 2` LF -/
example : (parseCst (strBytes "a .b = 1\na.c = 2\n")).map rootOnly = some false ∧
    (parseCst (strBytes "a .b = 1\na.c = 2\n")).map (printDoc (strBytes "a .b = 1\na.c = 2\n"))
      = some (strBytes "a .b = 1\na .c = 2\n") := by decide +kernel

end TomlVerif.Props.C03Doc
