import TomlVerif.Lemmas.State09
/-! # C09 — no key or table definition is ever silently overwritten or merged

A statement is either rejected (`none`) or it adds new entries while every value defined before
stays exactly where it was. `lookupTbl` / `lookupVal` follow a dotted path the way the parser's
`descend_path` does (through tables and the last element of an array of tables) without creating
anything; `lookupValG` additionally lets a path pick the i-th element of an array of tables. -/
namespace TomlVerif.Props.C09
open TomlVerif TomlVerif.Model TomlVerif.Model.State TomlVerif.Lemmas.State09

/-- for the examples: the looked-up value is the integer `n` -/
def isInt : Option Val → Int → Bool
  | some (.int m), n => m == n
  | _, _ => false

/-- for the examples: `a`, `b`, `x`, `y` -/
def ka : Bytes := [97]
def kb : Bytes := [98]
def kx : Bytes := [120]
def ky : Bytes := [121]

/-- state after `a.x = 1` in the root section -/
def exSt1 : Option ParseState := onKeyval {} [ka] kx (.int 1)
/-- … followed by `a.y = 2` -/
def exSt2 : Option ParseState := exSt1.bind fun st => onKeyval st [ka] ky (.int 2)

/-! ## key/value statements -/

/-- an accepted `path.key = v`: the key was not defined before in the table the path leads to, and
    afterwards it is defined with exactly the value `v` -/
theorem T09_keyval_vacant (st st' : ParseState) (path : List Bytes) (key : Bytes) (v : Val)
    (h : onKeyval st path key v = some st') :
    (∀ t, lookupTbl st.current path = some t → alookup key t.items = none) ∧
    lookupVal st'.current path key = some v := by
  obtain ⟨c, hd, hst⟩ := onKeyval_some st st' path key v h
  obtain ⟨u', hf, hl⟩ := descend_spec _ _ _ _ _ hd
  obtain ⟨hvac, hu', _⟩ := kvF_some _ _ _ _ _ hf
  subst hst
  constructor
  · intro t ht
    simpa [target, ht] using hvac
  · simp only [lookupVal, hl, valueAt_eq_some]
    subst hu'
    exact alookup_append_new key _ _ hvac

/-- `a.x = 1` then `a.y = 2` is accepted; before the second statement `y` is absent from `a`,
    afterwards it is 2 -/
example : exSt2.isSome = true ∧
    (exSt1.bind fun st => lookupTbl st.current [ka]).isSome = true ∧
    isInt (exSt1.bind fun st => lookupVal st.current [ka] ky) 2 = false ∧
    isInt (exSt2.bind fun st => lookupVal st.current [ka] ky) 2 = true := by decide

/-- an accepted key/value statement keeps every value defined earlier in the section (same path,
    same key, same value) and does not touch the finalized part of the document -/
theorem T09_keyval_preserves (st st' : ParseState) (path : List Bytes) (key : Bytes) (v : Val)
    (h : onKeyval st path key v = some st') :
    (∀ p k x, lookupVal st.current p k = some x → lookupVal st'.current p k = some x) ∧
    st'.root = st.root := by
  obtain ⟨c, hd, hst⟩ := onKeyval_some st st' path key v h
  subst hst
  refine ⟨?_, rfl⟩
  apply Pres_of_PresP (P := fun _ => True) trivial
  apply descend_pres _ _ _ _ _ _ hd
  intro u' hf
  obtain ⟨_, hu', _⟩ := kvF_some _ _ _ _ _ hf
  subst hu'
  exact presP_of_keeps _ _ _ fun k item hk => alookup_append_old _ _ _ _ _ hk

/-- the same with indexed paths: also the values inside earlier elements of arrays of tables stay -/
theorem T09_keyval_preserves_indexed (st st' : ParseState) (path : List Bytes) (key : Bytes) (v : Val)
    (h : onKeyval st path key v = some st') :
    ∀ ip k x, lookupValG st.current ip k = some x → lookupValG st'.current ip k = some x := by
  obtain ⟨c, hd, hst⟩ := onKeyval_some st st' path key v h
  subst hst
  intro ip k x hx
  refine descend_pres (fun _ => True) _ _ _ _ _ hd ?_ ip k x (fun _ _ => trivial) hx
  intro u' hf
  obtain ⟨_, hu', _⟩ := kvF_some _ _ _ _ _ hf
  subst hu'
  exact presP_of_keeps _ _ _ fun k item hk => alookup_append_old _ _ _ _ _ hk

/-- after `a.x = 1`, `a.y = 2` the first value is still 1 -/
example : isInt (exSt1.bind fun st => lookupVal st.current [ka] kx) 1 = true ∧
    isInt (exSt2.bind fun st => lookupVal st.current [ka] kx) 1 = true := by decide

/-- the same key twice in one table is always rejected, whatever the new value -/
theorem T09_duplicate_rejected (st : ParseState) (path : List Bytes) (key : Bytes) (v : Val) (t : Tbl)
    (ht : lookupTbl st.current path = some t) (hk : (alookup key t.items).isSome = true) :
    onKeyval st path key v = none := by
  cases h : onKeyval st path key v with
  | none => rfl
  | some st' =>
    have := (T09_keyval_vacant st st' path key v h).1 t ht
    simp [this] at hk

/-- `a.x = 1` then `a.x = 2` is rejected -/
example : (exSt1.bind fun st => onKeyval st [ka] kx (.int 2)).isSome = false ∧
    (exSt1.bind fun st => (lookupTbl st.current [ka]).bind fun t => alookup kx t.items).isSome = true := by decide

/-- a dotted key cannot go through something that is a value (scalar, array, inline table) -/
theorem T09_extend_value_rejected (st : ParseState) (p1 p2 : List Bytes) (k key : Bytes) (v x : Val) (u : Tbl)
    (hu : lookupTbl st.current p1 = some u) (hk : alookup k u.items = some (.value x)) :
    onKeyval st (p1 ++ k :: p2) key v = none := by
  cases h : onKeyval st (p1 ++ k :: p2) key v with
  | none => rfl
  | some st' =>
    obtain ⟨c, hd, _⟩ := onKeyval_some _ _ _ _ _ h
    have hd := descend_append_some _ _ _ _ _ _ hd
    obtain ⟨u', hf, _⟩ := descend_spec _ _ _ _ _ hd
    simp only [target, hu, Option.getD_some] at hf
    rw [descend_cons_value u x k p2 true _ hk] at hf
    simp at hf

/-- `a.x = 1` then `a.x.y = 2` is rejected -/
example : (exSt1.bind fun st => onKeyval st [ka, kx] ky (.int 2)).isSome = false := by decide


/-- a dotted key can never add anything below an element of an array of tables: if the path reaches
    an array of tables and continues, the statement is rejected -/
theorem T09_dotted_through_aot_rejected (st : ParseState) (p1 p2 : List Bytes) (k key : Bytes) (v : Val)
    (u : Tbl) (ts : List Tbl)
    (hu : lookupTbl st.current p1 = some u) (hk : alookup k u.items = some (.aot ts)) (hp2 : p2 ≠ []) :
    onKeyval st (p1 ++ k :: p2) key v = none := by
  cases h : onKeyval st (p1 ++ k :: p2) key v with
  | none => rfl
  | some st' =>
    obtain ⟨c, hd, _⟩ := onKeyval_some _ _ _ _ _ h
    have hd := descend_append_some _ _ _ _ _ _ hd
    obtain ⟨u', hf, _⟩ := descend_spec _ _ _ _ _ hd
    simp only [target, hu, Option.getD_some] at hf
    rcases descend_cons_some u u' k p2 true _ hf with ⟨sub, sub', he, _, _, _⟩ | ⟨init, l, l', _, hca, _, _⟩
    · simp [hk] at he
    · cases p2 with
      | nil => exact absurd rfl hp2
      | cons a r => simp at hca

/-- the single-segment case: a dotted key whose table part *is* an array of tables is rejected too
    (by the mixed-table-types check against the last element, which is never a dotted table;
    an empty array is rejected outright) -/
theorem T09_dotted_onto_aot_rejected (st : ParseState) (p1 : List Bytes) (k key : Bytes) (v : Val)
    (u : Tbl) (ts : List Tbl)
    (hu : lookupTbl st.current p1 = some u) (hk : alookup k u.items = some (.aot ts))
    (hlast : ∀ l, ts.getLast? = some l → l.dotted = false) :
    onKeyval st (p1 ++ [k]) key v = none := by
  cases h : onKeyval st (p1 ++ [k]) key v with
  | none => rfl
  | some st' =>
    obtain ⟨c, hd, _⟩ := onKeyval_some _ _ _ _ _ h
    have hd := descend_append_some _ _ _ _ _ _ hd
    obtain ⟨u', hf, _⟩ := descend_spec _ _ _ _ _ hd
    simp only [target, hu, Option.getD_some] at hf
    rcases descend_cons_some u u' k [] true _ hf with ⟨sub, sub', he, _, _, _⟩ | ⟨init, l, l', ha, _, hs, _⟩
    · simp [hk] at he
    · rw [hk] at ha; injection ha with ha; injection ha with ha; subst ha
      have hl := hlast l (by simp)
      simp only [descend] at hs
      obtain ⟨_, _, hdot⟩ := kvF_some _ _ _ _ _ hs
      rw [hl] at hdot
      simp at hdot

/-- after `[[a.b]]`, `x = 1`, `[a]` the open section `a` holds the array of tables `b` (one element,
    not dotted); `b.c.y = 2` and `b.y = 2` are both rejected, `c.y = 2` is accepted -/
def exAot : Option ParseState := run {} [.arr [ka, kb], .kv [] kx (.int 1), .std [ka]]

def isAotWith (i : Option Item) (p : Tbl → Bool) : Bool :=
  match i with
  | some (.aot ts) => match ts.getLast? with
    | some l => p l
    | none => false
  | _ => false

example : exAot.isSome = true ∧
    (exAot.bind fun st => some (isAotWith (alookup kb st.current.items) fun l => !l.dotted)) = some true ∧
    (exAot.bind fun st => onKeyval st [kb, [99]] ky (.int 2)).isSome = false ∧
    (exAot.bind fun st => onKeyval st [kb] ky (.int 2)).isSome = false ∧
    (exAot.bind fun st => onKeyval st [[99]] ky (.int 2)).isSome = true := by decide

/-! ## headers: `finalize_table` -/

/-- the section that is being closed ends up at its header path (for `[[p]]`: as the last element) -/
theorem T09_finalize_places (st st' : ParseState) (h : finalizeTable st = some st') :
    lookupTbl st'.root st.currentPath = some st.current := by
  rcases finalizeTable_some st st' h with ⟨hp, _, hst⟩ | ⟨pp, key, root', hp, hd, hst⟩
  · subst hst; rw [hp]; rfl
  · subst hst
    obtain ⟨u', hf, hl⟩ := descend_spec _ _ _ _ _ hd
    rw [hp, lookupTbl_append]
    simp only [hl, Option.bind_some]
    exact finF_places _ _ _ _ _ hf

/-- every value of the closed section is reachable below the header path, and nothing else is -/
theorem T09_finalize_reachable (st st' : ParseState) (h : finalizeTable st = some st') (p : List Bytes) (k : Bytes) :
    lookupVal st'.root (st.currentPath ++ p) k = lookupVal st.current p k :=
  lookupVal_append _ _ _ _ _ (T09_finalize_places st st' h)

/-- closing a `[table]` section keeps every value of the finalized part — provided that, if the
    header key is bound to an implicit table, the section still has all of that table's values
    (`start_table` moved them into the section) -/
theorem T09_finalize_preserves_std_general (P : Option Nat → Prop) (st st' : ParseState)
    (harr : st.currentIsArray = false)
    (hv : ∀ pp key t0, st.currentPath = pp ++ [key] →
      alookup key (target st.root pp false).items = some (.table t0) → PresP P t0 st.current)
    (h : finalizeTable st = some st') : PresP P st.root st'.root := by
  rcases finalizeTable_some st st' h with ⟨_, he, hst⟩ | ⟨pp, key, root', hp, hd, hst⟩
  · subst hst; exact presP_of_empty _ _ _ he
  · subst hst
    refine descend_pres P _ _ _ _ _ hd ?_
    intro u' hf
    simp only [finF, harr, Bool.false_eq_true, if_false] at hf
    exact finStdF_pres P _ _ _ _ hf fun t0 h0 => hv pp key t0 hp h0

/-- closing a `[table]` section whose key is vacant keeps every value of the finalized part
    (plain and indexed paths) -/
theorem T09_finalize_preserves_std (st st' : ParseState) (harr : st.currentIsArray = false)
    (hv : Vacant st.root st.currentPath) (h : finalizeTable st = some st') :
    (∀ p k x, lookupVal st.root p k = some x → lookupVal st'.root p k = some x) ∧
    (∀ ip k x, lookupValG st.root ip k = some x → lookupValG st'.root ip k = some x) := by
  have : PresP (fun _ => True) st.root st'.root := by
    refine T09_finalize_preserves_std_general _ st st' harr ?_ h
    intro pp key t0 hp h0
    rw [hp] at hv
    rw [vacant_target _ _ _ hv] at h0
    cases h0
  exact ⟨Pres_of_PresP (P := fun _ => True) trivial this, fun ip k x hx => this ip k x (fun _ _ => trivial) hx⟩

/-- closing a `[[array]]` section appends an element: every value keeps its indexed path
    (paths that say "i-th element" at every array of tables) -/
theorem T09_finalize_preserves_array (st st' : ParseState) (harr : st.currentIsArray = true)
    (h : finalizeTable st = some st') :
    ∀ ip k x, (∀ e ∈ ip, e.2.isSome) → lookupValG st.root ip k = some x → lookupValG st'.root ip k = some x := by
  have : PresP (fun s => s.isSome) st.root st'.root := by
    rcases finalizeTable_some st st' h with ⟨_, he, hst⟩ | ⟨pp, key, root', hp, hd, hst⟩
    · subst hst; exact presP_of_empty _ _ _ he
    · subst hst
      refine descend_pres _ _ _ _ _ _ hd ?_
      intro u' hf
      simp only [finF, harr, if_true] at hf
      exact finArrF_pres _ _ _ _ hf
  exact fun ip k x hp hx => this ip k x hp hx

/-- state after `[a.b]`, `x = 1`, `[c]`, `y = 2` (section `[c]` still open): closing it is accepted,
    `a.b.x` stays 1, and the section's `y` appears at `c.y` -/
def exOpen : Option ParseState :=
  run {} [.std [ka, kb], .kv [] kx (.int 1), .std [[99]], .kv [] ky (.int 2)]

example : (exOpen.bind finalizeTable).isSome = true ∧
    (exOpen.bind fun st => some (st.currentIsArray, st.currentPath)) = some (false, [[99]]) ∧
    (exOpen.bind fun st => (lookupTbl st.root []).bind fun u => alookup [99] u.items).isSome = false ∧
    isInt (exOpen.bind fun st => lookupVal st.root [ka, kb] kx) 1 = true ∧
    isInt ((exOpen.bind finalizeTable).bind fun st => lookupVal st.root [ka, kb] kx) 1 = true ∧
    isInt (exOpen.bind fun st => lookupVal st.current [] ky) 2 = true ∧
    isInt ((exOpen.bind finalizeTable).bind fun st => lookupVal st.root [[99]] ky) 2 = true := by decide

/-! ### what is false

Without the vacancy hypothesis `finalize_table` may replace an implicit table: the state below
(root `a = {x = 1}` implicit, empty section for `[a]`) cannot arise from `start_table`, which takes
the implicit table out first — but the function itself overwrites it. -/
def exBadSt : ParseState :=
  { root := .mk [(ka, .table (.mk [(kx, .value (.int 1))] true false none))] false false none,
    current := Tbl.empty, currentPath := [ka], currentIsArray := false }

example : isInt (lookupVal exBadSt.root [ka] kx) 1 = true ∧
    (finalizeTable exBadSt).isSome = true ∧
    ((finalizeTable exBadSt).bind fun st => lookupVal st.root [ka] kx).isSome = false := by decide

/-- with "last element" paths the array case does not preserve: after `[[a]]`, `x = 1`, `[[a]]`,
    `y = 2`, closing the second element makes `a.x` (through the last element) disappear; with the
    indexed path `a[0].x` it stays (`T09_finalize_preserves_array`) -/
def exArrSt : ParseState :=
  { root := .mk [(ka, .aot [.mk [(kx, .value (.int 1))] false false none])] false false none,
    current := .mk [(ky, .value (.int 2))] false false none, currentPath := [ka], currentIsArray := true }

example : isInt (lookupVal exArrSt.root [ka] kx) 1 = true ∧
    ((finalizeTable exArrSt).bind fun st => lookupVal st.root [ka] kx).isSome = false ∧
    isInt ((finalizeTable exArrSt).bind fun st => lookupValG st.root [(ka, some 0)] kx) 1 = true ∧
    isInt ((finalizeTable exArrSt).bind fun st => lookupVal st.root [ka] ky) 2 = true := by decide

/-! ## headers: `start_table` -/

/-- `[p]` where `p` is already defined — as a value, an array of tables, an explicit table or a
    dotted-key table — is rejected; only an implicit, non-dotted table may be re-opened -/
theorem T09_header_reopen_rejected (st : ParseState) (pp : List Bytes) (key : Bytes) (u : Tbl) (item : Item)
    (hu : lookupTbl st.root pp = some u) (hk : alookup key u.items = some item)
    (hitem : ∀ t, item = .table t → t.implicit = false ∨ t.dotted = true) :
    startTable st (pp ++ [key]) = none := by
  cases h : startTable st (pp ++ [key]) with
  | none => rfl
  | some st' =>
    obtain ⟨pp', key', r0, root', hp, hprobe, _, _⟩ := startTable_some _ _ _ h
    obtain ⟨h1, h2⟩ := List.append_inj' hp rfl
    simp at h2; subst h1; subst h2
    obtain ⟨u', hf, _⟩ := descend_spec _ _ _ _ _ hprobe
    simp only [target, hu, Option.getD_some] at hf
    rcases probeF_some _ _ _ hf with hn | ⟨t0, ha, hi, hdot⟩
    · rw [hn] at hk; cases hk
    · rw [ha] at hk; injection hk with hk
      rcases hitem t0 hk.symm with e | e
      · rw [e] at hi; cases hi
      · rw [e] at hdot; cases hdot


/-- `[a]` twice: the second header is rejected; `[a.b]` then `[a]` (implicit `a`) is accepted -/
example : (run {} [.std [ka], .std [ka]]).isSome = false ∧
    (run {} [.std [ka, kb], .std [ka]]).isSome = true ∧
    (run {} [.kv [] ka (.int 1), .std [ka]]).isSome = false ∧
    (run {} [.kv [ka] kx (.int 1), .std [ka]]).isSome = false ∧
    (run {} [.arr [ka], .std [ka]]).isSome = false := by decide

/-! ## whole runs

`run` folds the three handlers over a statement list. The document "as if the input ended here"
is `intoDocument st` (close the open section). Along an accepted run it only grows: every value
keeps its indexed path and its content. The invariant `Inv` (distinct keys; the key of an open
`[table]` section is vacant in the finalized part) holds initially and is maintained. -/

/-- one accepted statement keeps every value of the document-so-far -/
theorem T09_step (st st1 : ParseState) (s : Stmt) (d : Tbl) (hi : Inv st) (h : step st s = some st1)
    (hd : intoDocument st = some d) :
    ∃ d1, intoDocument st1 = some d1 ∧ Inv st1 ∧
      ∀ ip k x, (∀ e ∈ ip, e.2.isSome) → lookupValG d ip k = some x → lookupValG d1 ip k = some x := by
  unfold intoDocument at hd ⊢
  cases hf : finalizeTable st with
  | none => simp [hf] at hd
  | some sf =>
    simp [hf] at hd; subst hd
    obtain ⟨sf1, hf1, hp, hi1⟩ := step_view st st1 sf s hi h hf
    exact ⟨sf1.root, by simp [hf1], hi1, fun ip k x he hx => hp ip k x he hx⟩

/-- key/value statements and `[table]` headers also keep "last element" paths (plain dotted paths) -/
theorem T09_step_plain (st st1 : ParseState) (s : Stmt) (d : Tbl) (hi : Inv st) (hs : ∀ p, s ≠ .arr p)
    (h : step st s = some st1) (hd : intoDocument st = some d) :
    ∃ d1, intoDocument st1 = some d1 ∧
      ∀ p k x, lookupVal d p k = some x → lookupVal d1 p k = some x := by
  unfold intoDocument at hd ⊢
  cases hf : finalizeTable st with
  | none => simp [hf] at hd
  | some sf =>
    simp [hf] at hd; subst hd
    have hw := finalize_wf st sf hi hf
    have hc := (finalize_fields st sf hf).1
    cases s with
    | kv p k v =>
      obtain ⟨sf1, hf1, hp, _⟩ := kv_step (fun _ => True) st st1 sf p k v hi h hf
      exact ⟨sf1.root, by simp [hf1], Pres_of_PresP (P := fun _ => True) trivial hp⟩
    | std p =>
      simp only [step, onStdHeader, hf] at h
      obtain ⟨sf1, hf1, hp, _⟩ := std_step (fun _ => True) sf st1 p hw hc h
      exact ⟨sf1.root, by simp [hf1], Pres_of_PresP (P := fun _ => True) trivial hp⟩
    | arr p => exact absurd rfl (hs p)

/-- along any accepted run from a state satisfying the invariant, the document only grows -/
theorem T09_run_from (st st' : ParseState) (stmts : List Stmt) (d : Tbl) (hi : Inv st)
    (h : run st stmts = some st') (hd : intoDocument st = some d) :
    ∃ d', intoDocument st' = some d' ∧ Inv st' ∧
      ∀ ip k x, (∀ e ∈ ip, e.2.isSome) → lookupValG d ip k = some x → lookupValG d' ip k = some x := by
  unfold intoDocument at hd ⊢
  cases hf : finalizeTable st with
  | none => simp [hf] at hd
  | some sf =>
    simp [hf] at hd; subst hd
    obtain ⟨sf', hf', hp, hi'⟩ := run_view st st' sf stmts hi h hf
    exact ⟨sf'.root, by simp [hf'], hi', fun ip k x he hx => hp ip k x he hx⟩

/-- the state after any accepted statement list can always be closed into a document -/
theorem T09_run_document_defined (stmts : List Stmt) (st : ParseState) (h : run {} stmts = some st) :
    (intoDocument st).isSome = true := by
  obtain ⟨d', hd', _, _⟩ := T09_run_from {} st stmts Tbl.empty inv_init h rfl
  simp [hd']

/-- **C09 for whole inputs**: if `s1 ++ s2` is accepted, then `s1` is accepted, both have a
    document, and every value of the document of `s1` is in the document of `s1 ++ s2` at the same
    (indexed) path with the same content: later statements never overwrite or merge anything -/
theorem T09_run (s1 s2 : List Stmt) (st2 : ParseState) (h : run {} (s1 ++ s2) = some st2) :
    ∃ st1 d1 d2, run {} s1 = some st1 ∧ intoDocument st1 = some d1 ∧ intoDocument st2 = some d2 ∧
      ∀ ip k x, (∀ e ∈ ip, e.2.isSome) → lookupValG d1 ip k = some x → lookupValG d2 ip k = some x := by
  rw [run_append] at h
  cases h1 : run {} s1 with
  | none => simp [h1] at h
  | some st1 =>
    simp [h1] at h
    obtain ⟨d1, hd1, hi1, _⟩ := T09_run_from {} st1 s1 Tbl.empty inv_init h1 rfl
    obtain ⟨d2, hd2, _, hp⟩ := T09_run_from st1 st2 s2 d1 hi1 h hd1
    exact ⟨st1, d1, d2, rfl, hd1, hd2, hp⟩

/-- `x = 1`, `[a.b]`, `x = 1`, `[[c]]`, `y = 2`, `[a]`, `y = 2`, `[[c]]`, `y = 3` -/
def exDoc : List Stmt :=
  [.kv [] kx (.int 1), .std [ka, kb], .kv [] kx (.int 1), .arr [[99]], .kv [] ky (.int 2),
   .std [ka], .kv [] ky (.int 2), .arr [[99]], .kv [] ky (.int 3)]

/-- the run is accepted; the prefix of 5 statements has `x`, `a.b.x`, `c[0].y`; all are still there
    after the remaining 4 (which re-open the implicit `a` and append a second `[[c]]`) -/
example : (run {} exDoc).isSome = true ∧
    isInt (((run {} (exDoc.take 5)).bind intoDocument).bind fun d => lookupValG d [] kx) 1 = true ∧
    isInt (((run {} (exDoc.take 5)).bind intoDocument).bind fun d => lookupValG d [(ka, some 0), (kb, some 0)] kx) 1 = true ∧
    isInt (((run {} (exDoc.take 5)).bind intoDocument).bind fun d => lookupValG d [([99], some 0)] ky) 2 = true ∧
    isInt (((run {} exDoc).bind intoDocument).bind fun d => lookupValG d [] kx) 1 = true ∧
    isInt (((run {} exDoc).bind intoDocument).bind fun d => lookupValG d [(ka, some 0), (kb, some 0)] kx) 1 = true ∧
    isInt (((run {} exDoc).bind intoDocument).bind fun d => lookupValG d [([99], some 0)] ky) 2 = true ∧
    isInt (((run {} exDoc).bind intoDocument).bind fun d => lookupValG d [([99], some 1)] ky) 3 = true ∧
    isInt (((run {} exDoc).bind intoDocument).bind fun d => lookupValG d [(ka, some 0)] ky) 2 = true := by decide

/-! ### what is false about `root` alone

The finalized part `st.root` by itself is not monotone: `start_table` takes an implicit table out
of `root` while its section is open (it comes back when the section is closed), and with
"last element" paths a later `[[a]]` hides the earlier element. -/

/-- the naive statement: a value visible in `root` after `s1` is visible in `root` after `s1 ++ s2` -/
def RootMonotone : Prop :=
  ∀ (s1 s2 : List Stmt) (p : List Bytes) (k : Bytes) (x : Val),
    ((run {} s1).bind fun st => lookupVal st.root p k) = some x →
    ((run {} (s1 ++ s2)).bind fun st => lookupVal st.root p k) = some x

/-- `[a.b]`, `x = 1`, `[c]` puts `a.b.x` into `root`; the following `[a]` takes `a` out again -/
theorem T09_root_not_monotone : ¬ RootMonotone := by
  intro h
  have h1 := h [.std [ka, kb], .kv [] kx (.int 1), .std [[99]]] [.std [ka]] [ka, kb] kx (.int 1) (by rfl)
  have h2 := congrArg Option.isSome h1
  revert h2
  decide

/-- `[[a]]`, `x = 1`, `[[a]]`, `y = 2`, `[b]`: `a.x` (last element) is visible in `root` after the
    second `[[a]]` and hidden after `[b]`; by index (`a[0].x`) it stays -/
example :
    isInt ((run {} [.arr [ka], .kv [] kx (.int 1), .arr [ka]]).bind fun st => lookupVal st.root [ka] kx) 1 = true ∧
    ((run {} [.arr [ka], .kv [] kx (.int 1), .arr [ka], .kv [] ky (.int 2), .std [kb]]).bind
      fun st => lookupVal st.root [ka] kx).isSome = false ∧
    isInt ((run {} [.arr [ka], .kv [] kx (.int 1), .arr [ka], .kv [] ky (.int 2), .std [kb]]).bind
      fun st => lookupValG st.root [(ka, some 0)] kx) 1 = true := by decide

end TomlVerif.Props.C09
