import TomlVerif.Model.Numbers
import TomlVerif.Lemmas.Numbers11
/-! # C11 — numbers are lossless or rejected, never wrapped, saturated or rounded away -/
namespace TomlVerif.Props.C11
open TomlVerif TomlVerif.Spec TomlVerif.Model.Numbers TomlVerif.Lemmas.Numbers11

theorem ite_ok_cut {c : Bool} {v n : Int} {r rest : Bytes}
    (h : (if c = true then Res.ok v r else Res.cut) = Res.ok n rest) : c = true ∧ v = n := by
  split at h
  · rename_i hc; injection h with h1 _; exact ⟨hc, h1⟩
  · contradiction

theorem prefixedInt_in_range (isD : Byte → Bool) (base : Nat) (s rest : Bytes) (n : Int)
    (h : prefixedInt isD base s = .ok n rest) : inI64 n = true := by
  unfold prefixedInt at h
  split at h
  · split at h
    · split at h
      · simp only [] at h
        split at h
        · rename_i hc; injection h with h1 _; subst h1; exact hc
        · contradiction
      · contradiction
    · contradiction
  · contradiction

/-- every integer the parser returns, in any base, is a signed 64-bit value: nothing is wrapped or saturated -/
theorem T11_integer_in_range (s rest : Bytes) (n : Int) (h : integer s = .ok n rest) : inI64 n = true := by
  unfold integer at h
  split at h
  · exact prefixedInt_in_range _ _ _ _ _ h
  · exact prefixedInt_in_range _ _ _ _ _ h
  · exact prefixedInt_in_range _ _ _ _ _ h
  · split at h
    · simp only [] at h
      split at h
      · obtain ⟨hc, h1⟩ := ite_ok_cut h; subst h1; exact hc
      · obtain ⟨hc, h1⟩ := ite_ok_cut h; subst h1; exact hc
    · contradiction
    · contradiction

/-- a decimal literal that rounds to ±infinity is rejected (committed failure), with either sign -/
theorem T11_float_overflow_rejected (s rest : Bytes) (l : FloatLit) (h : floatLit s = .ok l rest)
    (hinf : Ieee.isInfBits l.bits = true) : float s = .cut := by
  unfold float; rw [h]; simp [hinf]

/-- a float the parser returns from a decimal literal is never an infinity -/
theorem T11_float_finite (s rest : Bytes) (l : FloatLit) (b : Nat) (h : floatLit s = .ok l rest)
    (hf : float s = .ok b rest) : Ieee.isInfBits b = false := by
  unfold float at hf; rw [h] at hf
  simp at hf
  split at hf
  · contradiction
  · rename_i hc; injection hf with h1 _; subst h1; simpa using hc

example : integer [0x30, 0x78, 0x37, 0x66] = .ok 127 [] := by decide
example : float [0x2D, 0x31, 0x65, 0x39, 0x39, 0x39] = .cut := by decide +kernel

/-! ## Integer literals: the writer round-trips, signs and underscores never change the value,
    out-of-range literals are rejected (definitions `signBytes`, `joinU`, `GoodGroups`, `NoLeadingZero`,
    `Stops`, `NoRadix`, `decValue`, `FloatStops`, `dispBytes` are in `Lemmas/Numbers11.lean`) -/

/-- what may follow an integer literal so that it ends there: end of input, or a byte that is not a digit,
    not `_`, and not one of the radix letters `x` `o` `b` (which after a lone `0` would switch the parser
    to a prefixed literal) -/
def IntFollow : Bytes → Prop
  | [] => True
  | b :: _ => isDigit b = false ∧ b ≠ 0x5F ∧ b ≠ 0x78 ∧ b ≠ 0x6F ∧ b ≠ 0x62

instance : (t : Bytes) → Decidable (IntFollow t)
  | [] => isTrue trivial
  | b :: _ => inferInstanceAs (Decidable (isDigit b = false ∧ b ≠ 0x5F ∧ b ≠ 0x78 ∧ b ≠ 0x6F ∧ b ≠ 0x62))

theorem IntFollow.stops {rest : Bytes} (h : IntFollow rest) : Stops isDigit rest := by
  cases rest with
  | nil => trivial
  | cons b r => exact ⟨h.1, h.2.1⟩

theorem IntFollow.noRadix {rest : Bytes} (h : IntFollow rest) : NoRadix rest := by
  cases rest with
  | nil => trivial
  | cons b r => exact h.2.2

/-- sharp form: the radix letters only matter after the literal `0` -/
theorem T11_int_roundtrip_sharp (n : Int) (hn : inI64 n = true) (rest : Bytes) (hs : Stops isDigit rest)
    (hr : n = 0 → NoRadix rest) : integer (writeInt n ++ rest) = .ok n rest :=
  integer_writeInt n hn rest hs hr

/-- every i64 prints as a decimal literal that the integer parser reads back exactly, in any context
    that does not extend the literal -/
theorem T11_int_roundtrip_follow (n : Int) (hn : inI64 n = true) (rest : Bytes) (hf : IntFollow rest) :
    integer (writeInt n ++ rest) = .ok n rest :=
  integer_writeInt n hn rest hf.stops (fun _ => hf.noRadix)

/-- every i64 prints as a decimal literal that the integer parser reads back exactly -/
theorem T11_int_roundtrip (n : Int) (hn : inI64 n = true) : integer (writeInt n) = .ok n [] := by
  have := T11_int_roundtrip_follow n hn [] trivial
  simpa using this

/-- the decimal digits the writer prints: non-empty, all digits, no leading zero, of value `n` -/
theorem T11_natDigits (n : Nat) : natDigits n ≠ [] ∧ AllB isDigit (natDigits n) ∧
    natOfDigitsBase 10 (natDigits n) = n ∧ (∀ t, natDigits n = 0x30 :: t → n = 0 ∧ t = []) :=
  natDigits_spec n

/-- sharp form of `T11_dec_literal`: the radix letters only matter after an unsigned lone `0` -/
theorem T11_dec_literal_sharp (sign : Option Bool) (groups : List Bytes) (rest : Bytes)
    (hg : GoodGroups isDigit groups) (hz : NoLeadingZero groups) (hs : Stops isDigit rest)
    (hr : sign = none → groups = [[0x30]] → NoRadix rest) :
    integer (signBytes sign ++ joinU groups ++ rest) =
      if inI64 (decValue sign groups) then .ok (decValue sign groups) rest else .cut :=
  integer_dec_lit sign groups rest hg hz hs hr

/-- a decimal literal `[+-]? g0 _ g1 _ …` has the signed positional value of its digits (underscores and
    signs never change the value) when that is an i64, and is rejected with a committed error otherwise
    (never wrapped or saturated) -/
theorem T11_dec_literal (sign : Option Bool) (groups : List Bytes) (rest : Bytes)
    (hg : GoodGroups isDigit groups) (hz : NoLeadingZero groups) (hf : IntFollow rest) :
    integer (signBytes sign ++ joinU groups ++ rest) =
      if inI64 (decValue sign groups) then .ok (decValue sign groups) rest else .cut :=
  integer_dec_lit sign groups rest hg hz hf.stops (fun _ _ => hf.noRadix)

/-- `joinU` is `intercalate "_"` -/
theorem T11_joinU_intercalate (groups : List Bytes) : joinU groups = List.intercalate [0x5F] groups :=
  joinU_eq_intercalate groups

theorem inI64_natCast (v : Nat) : inI64 (v : Int) = decide ((v : Int) ≤ i64Max) := by
  unfold inI64 i64Min i64Max
  by_cases h : (v : Int) ≤ 9223372036854775807
  · simp [h]
  · simp [h]

/-- `0x…` literals (both letter cases, underscores): positional value in base 16, or a committed error above `i64::MAX` -/
theorem T11_hex_literal (groups : List Bytes) (rest : Bytes) (hg : GoodGroups isHexdig groups)
    (hs : Stops isHexdig rest) :
    integer (0x30 :: 0x78 :: (joinU groups ++ rest)) =
      if ((natOfDigitsBase 16 groups.flatten : Nat) : Int) ≤ i64Max
      then .ok ((natOfDigitsBase 16 groups.flatten : Nat) : Int) rest else .cut := by
  rw [integer_hex, prefixedInt_lit isHexdig 16 isHexdig_under groups rest hg hs, inI64_natCast]
  simp

/-- `0o…` literals -/
theorem T11_oct_literal (groups : List Bytes) (rest : Bytes) (hg : GoodGroups isDigit0_7 groups)
    (hs : Stops isDigit0_7 rest) :
    integer (0x30 :: 0x6F :: (joinU groups ++ rest)) =
      if ((natOfDigitsBase 8 groups.flatten : Nat) : Int) ≤ i64Max
      then .ok ((natOfDigitsBase 8 groups.flatten : Nat) : Int) rest else .cut := by
  rw [integer_oct, prefixedInt_lit isDigit0_7 8 isDigit0_7_under groups rest hg hs, inI64_natCast]
  simp

/-- `0b…` literals -/
theorem T11_bin_literal (groups : List Bytes) (rest : Bytes) (hg : GoodGroups isDigit0_1 groups)
    (hs : Stops isDigit0_1 rest) :
    integer (0x30 :: 0x62 :: (joinU groups ++ rest)) =
      if ((natOfDigitsBase 2 groups.flatten : Nat) : Int) ≤ i64Max
      then .ok ((natOfDigitsBase 2 groups.flatten : Nat) : Int) rest else .cut := by
  rw [integer_bin, prefixedInt_lit isDigit0_1 2 isDigit0_1_under groups rest hg hs, inI64_natCast]
  simp

/-- the three prefixed forms at once -/
theorem T11_prefixed_literal (groups : List Bytes) (rest : Bytes) :
    (GoodGroups isHexdig groups → Stops isHexdig rest →
      integer ([0x30, 0x78] ++ joinU groups ++ rest) =
        if ((natOfDigitsBase 16 groups.flatten : Nat) : Int) ≤ i64Max
        then .ok ((natOfDigitsBase 16 groups.flatten : Nat) : Int) rest else .cut) ∧
    (GoodGroups isDigit0_7 groups → Stops isDigit0_7 rest →
      integer ([0x30, 0x6F] ++ joinU groups ++ rest) =
        if ((natOfDigitsBase 8 groups.flatten : Nat) : Int) ≤ i64Max
        then .ok ((natOfDigitsBase 8 groups.flatten : Nat) : Int) rest else .cut) ∧
    (GoodGroups isDigit0_1 groups → Stops isDigit0_1 rest →
      integer ([0x30, 0x62] ++ joinU groups ++ rest) =
        if ((natOfDigitsBase 2 groups.flatten : Nat) : Int) ≤ i64Max
        then .ok ((natOfDigitsBase 2 groups.flatten : Nat) : Int) rest else .cut) := by
  refine ⟨fun hg hs => ?_, fun hg hs => ?_, fun hg hs => ?_⟩
  · simpa using T11_hex_literal groups rest hg hs
  · simpa using T11_oct_literal groups rest hg hs
  · simpa using T11_bin_literal groups rest hg hs

/-- hex digits are case-insensitive: an upper-case letter has the value of its lower-case form -/
theorem T11_hex_case : ∀ b : Byte, inR 0x41 0x46 b = true →
    isHexdig (b + 0x20) = true ∧ digitVal (b + 0x20) = digitVal b ∧ digitVal b = b.toNat - 0x41 + 10 :=
  forall_byte (by decide +kernel)

/-- lower-case form of a hex digit -/
def hexLower (b : Byte) : Byte := if inR 0x41 0x46 b then b + 0x20 else b

theorem digitVal_hexLower : ∀ b : Byte, digitVal (hexLower b) = digitVal b ∧ (isHexdig b = true → isHexdig (hexLower b) = true) :=
  forall_byte (by decide +kernel)

/-- the value of a hex digit string does not depend on letter case -/
theorem T11_hex_case_insensitive (ds : Bytes) :
    natOfDigitsBase 16 (ds.map hexLower) = natOfDigitsBase 16 ds := by
  simp [natOfDigitsBase, List.foldl_map, (digitVal_hexLower _).1]

/-! ## Floats -/

/-- a float literal always has all-digit parts, a non-empty integer part, and a fraction or an exponent -/
theorem T11_float_shape (s rest : Bytes) (l : FloatLit) (h : floatLit s = .ok l rest) :
    l.intDigits ≠ [] ∧ AllB isDigit l.intDigits ∧ AllB isDigit l.fracDigits ∧ AllB isDigit l.expDigits ∧
    (l.fracDigits ≠ [] ∨ l.expDigits ≠ []) :=
  (floatLit_shape s rest l h).2

/-- wherever both `float` and `integer` succeed on the same input, `float` consumes strictly more -/
theorem T11_float_consumes_more (s rest rest' : Bytes) (b : Nat) (n : Int) (hf : float s = .ok b rest)
    (hi : integer s = .ok n rest') : rest.length < rest'.length :=
  float_integer_rest s rest rest' b n hf hi

/-- `integer` and `float` never both succeed consuming the same whole input -/
theorem T11_float_integer_disjoint (s : Bytes) (b : Nat) (n : Int) (hf : float s = .ok b []) :
    integer s ≠ .ok n [] := by
  intro hi
  have := float_integer_rest s [] [] b n hf hi
  simp at this

/-- the float writer's token for a finite non-zero value lexes as a float literal, consuming everything, with
    exactly the digits `Display` printed (and fraction `0` appended when there was none) -/
theorem T11_writeFloat_is_float_follow (neg negD : Bool) (intDs : Bytes) (frac : Option Bytes) (rest : Bytes)
    (hne : intDs ≠ []) (hi : AllB isDigit intDs) (hz : ∀ t, intDs = 0x30 :: t → t = [])
    (hf : ∀ f, frac = some f → f ≠ [] ∧ AllB isDigit f) (hs : FloatStops rest) :
    floatLit (writeFloat neg false false (!(dispBytes negD intDs frac).contains 0x2E) (dispBytes negD intDs frac) ++ rest) =
      .ok ⟨negD, intDs, frac.getD [0x30], false, []⟩ rest :=
  floatLit_writeFloat neg negD intDs frac rest hne hi hz hf hs

theorem T11_writeFloat_is_float (neg negD : Bool) (intDs : Bytes) (frac : Option Bytes)
    (hne : intDs ≠ []) (hi : AllB isDigit intDs) (hz : ∀ t, intDs = 0x30 :: t → t = [])
    (hf : ∀ f, frac = some f → f ≠ [] ∧ AllB isDigit f) :
    floatLit (writeFloat neg false false (!(dispBytes negD intDs frac).contains 0x2E) (dispBytes negD intDs frac)) =
      .ok ⟨negD, intDs, frac.getD [0x30], false, []⟩ [] := by
  have := floatLit_writeFloat neg negD intDs frac [] hne hi hz hf trivial
  simpa using this

/-- … hence `float` returns the correctly rounded value of exactly those digits, or rejects an overflow -/
theorem T11_writeFloat_float (neg negD : Bool) (intDs : Bytes) (frac : Option Bytes)
    (hne : intDs ≠ []) (hi : AllB isDigit intDs) (hz : ∀ t, intDs = 0x30 :: t → t = [])
    (hf : ∀ f, frac = some f → f ≠ [] ∧ AllB isDigit f) :
    float (writeFloat neg false false (!(dispBytes negD intDs frac).contains 0x2E) (dispBytes negD intDs frac)) =
      if Ieee.isInfBits (FloatLit.bits ⟨negD, intDs, frac.getD [0x30], false, []⟩) then .cut
      else .ok (FloatLit.bits ⟨negD, intDs, frac.getD [0x30], false, []⟩) [] := by
  unfold float
  rw [T11_writeFloat_is_float neg negD intDs frac hne hi hz hf]

/-- `int . frac` with underscore groups in both parts lexes with exactly those digits -/
theorem T11_float_frac_literal (sign : Option Bool) (igroups fgroups : List Bytes) (rest : Bytes)
    (hi : GoodGroups isDigit igroups) (hz : NoLeadingZero igroups) (hf : GoodGroups isDigit fgroups)
    (hs : FloatStops rest) :
    floatLit (signBytes sign ++ joinU igroups ++ 0x2E :: (joinU fgroups ++ rest)) =
      .ok ⟨isNegSign sign, igroups.flatten, fgroups.flatten, false, []⟩ rest :=
  floatLit_frac sign igroups fgroups rest hi hz hf hs

/-- `sign? int (. frac)? [eE] sign? exp` lexes as a float with exactly those digits (underscore groups
    everywhere; the exponent may have leading zeros) -/
theorem T11_float_exp_literal (sign : Option Bool) (igroups : List Bytes) (frac : Option (List Bytes)) (e : Byte)
    (esign : Option Bool) (egroups : List Bytes) (rest : Bytes)
    (hi : GoodGroups isDigit igroups) (hz : NoLeadingZero igroups)
    (hf : ∀ fg, frac = some fg → GoodGroups isDigit fg) (he : e = 0x65 ∨ e = 0x45)
    (hg : GoodGroups isDigit egroups) (hs : Stops isDigit rest) :
    floatLit (signBytes sign ++ joinU igroups ++ (fracBytes frac ++ e :: (signBytes esign ++ joinU egroups ++ rest))) =
      .ok ⟨isNegSign sign, igroups.flatten, (frac.map List.flatten).getD [], isNegSign esign, egroups.flatten⟩ rest :=
  floatLit_exp sign igroups frac e esign egroups rest hi hz hf he hg hs

/-- the special arms of the float writer and what `float` makes of them -/
theorem T11_float_special :
    float (writeFloat false true false false []) = .ok Ieee.nanBits [] ∧
    float (writeFloat true true false false []) = .ok (Ieee.signBit + Ieee.nanBits) [] ∧
    float (writeFloat false false true true []) = .ok 0 [] ∧
    float (writeFloat true false true true []) = .ok Ieee.signBit [] ∧
    float (strBytes "nan") = .ok Ieee.nanBits [] ∧
    float (strBytes "-nan") = .ok (Ieee.signBit + Ieee.nanBits) [] ∧
    float (strBytes "0.0") = .ok 0 [] ∧
    float (strBytes "-0.0") = .ok Ieee.signBit [] ∧
    float (strBytes "inf") = .ok Ieee.infBits [] ∧
    float (strBytes "-inf") = .ok (Ieee.signBit + Ieee.infBits) [] ∧
    float (strBytes "+inf") = .ok Ieee.infBits [] := by
  decide +kernel

/-! ### non-vacuity: concrete instances -/

example : integer [0x2D, 0x31, 0x5F, 0x30] = .ok (-10) [] := by decide
-- T11_int_roundtrip at the extremes
example : writeInt (-9223372036854775808) = strBytes "-9223372036854775808" := by decide +kernel
example : inI64 (-9223372036854775808) = true ∧
    integer (writeInt (-9223372036854775808)) = .ok (-9223372036854775808) [] :=
  ⟨by decide, T11_int_roundtrip _ (by decide)⟩
example : integer (writeInt 0 ++ [0x78, 0x31]) = .ok 1 [] := by decide +kernel  -- why `NoRadix` is needed
example : integer (writeInt 0 ++ [0x2C]) = .ok 0 [0x2C] := T11_int_roundtrip_follow 0 (by decide) _ (by decide)
-- T11_dec_literal: hypotheses are satisfiable, in-range and out-of-range outcomes both occur
example : GoodGroups isDigit [[0x31, 0x32], [0x33]] ∧ NoLeadingZero [[0x31, 0x32], [0x33]] ∧ IntFollow [0x20] :=
  ⟨⟨by simp, by intro g hg; simp at hg; rcases hg with hg | hg <;> subst hg <;> exact ⟨by simp, by decide⟩⟩,
   by intro g0 gs h; injection h with h _; injection h with h _; exact absurd h (by decide), by decide⟩
example : integer (signBytes (some true) ++ joinU [[0x31, 0x32], [0x33]] ++ [0x20]) = .ok (-123) [0x20] := by decide +kernel
example : integer (strBytes "+9223372036854775807") = .ok 9223372036854775807 [] := by decide +kernel
example : integer (strBytes "9223372036854775808") = .cut := by decide +kernel
example : integer (strBytes "-9_223_372_036_854_775_808") = .ok (-9223372036854775808) [] := by decide +kernel
example : integer (strBytes "-9223372036854775809") = .cut := by decide +kernel
-- prefixed literals
example : GoodGroups isHexdig [[0x64, 0x45], [0x41, 0x66]] ∧ Stops isHexdig [0x2C] :=
  ⟨⟨by simp, by intro g hg; simp at hg; rcases hg with hg | hg <;> subst hg <;> exact ⟨by simp, by decide⟩⟩, by decide⟩
example : integer (strBytes "0xdE_Af,") = .ok 0xDEAF [0x2C] := by decide +kernel
example : integer (strBytes "0x7fff_ffff_ffff_ffff") = .ok 9223372036854775807 [] := by decide +kernel
example : integer (strBytes "0x8000_0000_0000_0000") = .cut := by decide +kernel
example : integer (strBytes "0o7_55") = .ok 493 [] := by decide +kernel
example : integer (strBytes "0b1_01") = .ok 5 [] := by decide +kernel
-- floats
example : floatLit (strBytes "-1_0.2_5e+0_7") = .ok ⟨true, [0x31, 0x30], [0x32, 0x35], false, [0x30, 0x37]⟩ [] := by
  decide +kernel
example : signBytes (some true) ++ joinU [[0x31], [0x30]] ++ (fracBytes (some [[0x32], [0x35]]) ++
    0x65 :: (signBytes (some false) ++ joinU [[0x30], [0x37]] ++ [])) = strBytes "-1_0.2_5e+0_7" := by decide +kernel
example : natOfDigitsBase 16 (strBytes "dEaF") = 0xDEAF ∧ (strBytes "dEaF").map hexLower = strBytes "deaf" := by
  decide +kernel
example : float (strBytes "1.5") = .ok 0x3FF8000000000000 [] ∧ integer (strBytes "1.5") = .ok 1 [0x2E, 0x35] := by
  decide +kernel
example : floatLit (writeFloat false false false true (strBytes "-12")) =
    .ok ⟨true, [0x31, 0x32], [0x30], false, []⟩ [] := by decide +kernel
example : dispBytes true [0x30] (some [0x32, 0x35]) = strBytes "-0.25" ∧
    floatLit (writeFloat false false false false (strBytes "-0.25")) =
      .ok ⟨true, [0x30], [0x32, 0x35], false, []⟩ [] := by decide +kernel

end TomlVerif.Props.C11
