import TomlVerif.Model.Numbers
/-! # C11 — numbers are lossless or rejected, never wrapped, saturated or rounded away -/
namespace TomlVerif.Props.C11
open TomlVerif TomlVerif.Spec TomlVerif.Model.Numbers

theorem ite_ok_cut {c : Bool} {v n : Int} {r rest : Bytes}
    (h : (if c = true then Res.ok v r else Res.cut) = Res.ok n rest) : c = true ∧ v = n := by
  split at h
  · rename_i hc; injection h with h1 _; exact ⟨hc, h1⟩
  · contradiction

theorem prefixedInt_in_range (isD : Byte → Bool) (base : Nat) (s rest : Bytes) (n : Int)
    (h : prefixedInt isD base s = .ok n rest) : inI64 n = true := by
  unfold prefixedInt at h
  split at h
  · split at h
    · split at h
      · simp only [] at h
        split at h
        · rename_i hc; injection h with h1 _; subst h1; exact hc
        · contradiction
      · contradiction
    · contradiction
  · contradiction

/-- every integer the parser returns, in any base, is a signed 64-bit value: nothing is wrapped or saturated -/
theorem T11_integer_in_range (s rest : Bytes) (n : Int) (h : integer s = .ok n rest) : inI64 n = true := by
  unfold integer at h
  split at h
  · exact prefixedInt_in_range _ _ _ _ _ h
  · exact prefixedInt_in_range _ _ _ _ _ h
  · exact prefixedInt_in_range _ _ _ _ _ h
  · split at h
    · simp only [] at h
      split at h
      · obtain ⟨hc, h1⟩ := ite_ok_cut h; subst h1; exact hc
      · obtain ⟨hc, h1⟩ := ite_ok_cut h; subst h1; exact hc
    · contradiction
    · contradiction

/-- a decimal literal that rounds to ±infinity is rejected (committed failure), with either sign -/
theorem T11_float_overflow_rejected (s rest : Bytes) (l : FloatLit) (h : floatLit s = .ok l rest)
    (hinf : Ieee.isInfBits l.bits = true) : float s = .cut := by
  unfold float; rw [h]; simp [hinf]

/-- a float the parser returns from a decimal literal is never an infinity -/
theorem T11_float_finite (s rest : Bytes) (l : FloatLit) (b : Nat) (h : floatLit s = .ok l rest)
    (hf : float s = .ok b rest) : Ieee.isInfBits b = false := by
  unfold float at hf; rw [h] at hf
  simp at hf
  split at hf
  · contradiction
  · rename_i hc; injection hf with h1 _; subst h1; simpa using hc

example : integer [0x30, 0x78, 0x37, 0x66] = .ok 127 [] := by decide
example : float [0x2D, 0x31, 0x65, 0x39, 0x39, 0x39] = .cut := by decide +kernel

end TomlVerif.Props.C11
