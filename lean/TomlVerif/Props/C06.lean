import TomlVerif.Lemmas.Encode06
import TomlVerif.Spec.Encode06
/-! # C06 — anything built through the construction API prints as valid TOML that decodes back

  Model: `Model/Encode06.lean` (`build*` : construction calls → decorated tree, `printDoc` /
  `printValue` / `printKey` : the printer of `encode.rs` without source text), parser model:
  `Model/Value.lean`, `Model/Doc.lean`.  The model is tied to the code by the correspondence run of
  tools/props/c06.py (same case → same text, same re-parsed tree, byte for byte).

  Proved here:
  * `T06_leaf`      — the default representation of EVERY leaf (any string, any i64, any double with
                      std's text, booleans, every valid date-time) is read back by the parser's
                      `value` dispatcher as exactly that leaf, in every context the printer puts it in.
  * `T06_key`       — the default representation of every key is read back by `simple_key`.
  * `T06_finding_empty_aot` — known finding F10 on the model: the two-entry witness prints without
                      its `aot` key.
  * `T06_sort_identity` — for structures built through the API the stable sort by position in
                      `Display for DocumentMut` changes nothing: tables are printed in visit order.
  Stated, validated by the differential run on every generated tree, not proved:
  `T06_inline_statement`, `T06_doc_statement` (see the comments there).

  Purity ("the same structure always prints the same text") needs no theorem on the model:
  `printDoc`, `printValue`, `printKey` are functions. On the implementation it is observed by
  printing every structure twice and printing a clone (field `twice` of the harness). -/
namespace TomlVerif.Props.C06
open TomlVerif TomlVerif.Spec TomlVerif.Model TomlVerif.Model.Encode06 TomlVerif.Model.Value
open TomlVerif.Model.Numbers TomlVerif.Model.Datetime TomlVerif.Lemmas.Numbers11 TomlVerif.Lemmas.Encode06
open TomlVerif.Props.C12 TomlVerif.Spec.Encode06

/-! ## leaves -/

/-- a 64-bit pattern together with std's `Display` text of the double it encodes. For a finite
    non-zero double the text is `-`? digits (`.` digits)? and the correctly rounded value of these
    digits is the double (the shortest-round-trip guarantee of std; the driver re-checks it on
    every float it is given: field `fl`). -/
inductive FloatOk : Nat → Bytes → Prop
  | nan (bits : Nat) (disp : Bytes) (he : bits / 2 ^ 52 % 2 ^ 11 = 2047) (hm : bits % 2 ^ 52 ≠ 0) : FloatOk bits disp
  | inf (neg : Bool) :
    FloatOk ((if neg then Ieee.signBit else 0) + Ieee.infBits) ((if neg then [0x2D] else []) ++ [0x69, 0x6E, 0x66])
  | zero (neg : Bool) (disp : Bytes) : FloatOk (if neg then Ieee.signBit else 0) disp
  | fin (bits : Nat) (negD : Bool) (intDs : Bytes) (frac : Option Bytes)
    (hne : intDs ≠ []) (hi : AllB isDigit intDs) (hz : ∀ t, intDs = 0x30 :: t → t = [])
    (hf : ∀ f, frac = some f → f ≠ [] ∧ AllB isDigit f)
    (hb : FloatLit.bits ⟨negD, intDs, frac.getD [0x30], false, []⟩ = bits)
    (hfin : bits / 2 ^ 52 % 2 ^ 11 ≠ 2047) (hnz : bits % 2 ^ 63 ≠ 0) :
    FloatOk bits (dispBytes negD intDs frac)

theorem T06_leaf_float (bits : Nat) (disp rest : Bytes) (fuel d : Nat) (h : FloatOk bits disp) (hr : LeafFollow rest) :
    value (fuel + 1) d (reprFloat bits disp ++ rest) = .ok (.float (canonFloat bits)) rest := by
  cases h
  case nan he hm =>
    have hm' : (bits % 2 ^ 52 != 0) = true := by simpa using hm
    have he' : (bits / 2 ^ 52 % 2 ^ 11 == 2047) = true := by simpa using he
    have e : reprFloat bits disp = (if bits / 2 ^ 63 == 1 then [0x2D] else []) ++ [0x6E, 0x61, 0x6E] := by
      unfold reprFloat
      simp only [he', hm', writeFloat, strBytes_nan, strBytes_mnan, Bool.and_self, if_true]
      split <;> rfl
    have c : canonFloat bits = (if bits / 2 ^ 63 == 1 then Ieee.signBit else 0) + Ieee.nanBits := by
      unfold canonFloat; simp only [he', hm', Bool.and_self, if_true]
    rw [e, c]
    exact (value_special _ rest fuel d).1
  case inf neg =>
    have e : reprFloat ((if neg then Ieee.signBit else 0) + Ieee.infBits) ((if neg then [0x2D] else []) ++ [0x69, 0x6E, 0x66]) =
        (if neg then [0x2D] else []) ++ [0x69, 0x6E, 0x66] := by
      cases neg <;> decide +kernel
    have c : canonFloat ((if neg then Ieee.signBit else 0) + Ieee.infBits) = (if neg then Ieee.signBit else 0) + Ieee.infBits := by
      cases neg <;> decide +kernel
    rw [e, c]
    exact (value_special _ rest fuel d).2
  case zero neg =>
    have e : reprFloat (if neg then Ieee.signBit else 0) disp =
        writeFloat false false false (!(dispBytes neg [0x30] (some [0x30])).contains 0x2E) (dispBytes neg [0x30] (some [0x30])) := by
      cases neg
      · simp [reprFloat, writeFloat, strBytes_zero, dispBytes]
      · simp [reprFloat, writeFloat, strBytes_mzero, dispBytes, Ieee.signBit]
    have hbits : FloatLit.bits ⟨neg, [0x30], [0x30], false, []⟩ = (if neg then Ieee.signBit else 0) := by
      cases neg <;> decide +kernel
    have c : canonFloat (if neg then Ieee.signBit else 0) = (if neg then Ieee.signBit else 0) := by
      cases neg <;> decide +kernel
    have := value_floatTok false neg [0x30] (some [0x30]) rest fuel d (by simp) (by intro b hb; simp at hb; subst hb; decide)
      (by intro t h; injection h with _ h; exact h.symm) (by intro f h; injection h with h; subst h; exact ⟨by simp, by intro b hb; simp at hb; subst hb; decide⟩) hr
      (by simp only [Option.getD_some]; rw [hbits]; cases neg <;> decide +kernel)
    simp only [Option.getD_some] at this
    rw [e, c, this, hbits]
  case fin negD intDs frac hne hi hz hf hb hfin hnz =>
    simp only [Nat.reducePow] at hfin hnz
    have hnan : (bits / 2 ^ 52 % 2 ^ 11 == 2047) = false := by simpa using hfin
    have hzero : (bits / 2 ^ 52 % 2 ^ 11 == 0 && bits % 2 ^ 52 == 0) = false := by
      simp only [Nat.reducePow, Bool.and_eq_false_imp, beq_iff_eq, beq_eq_false_iff_ne, ne_eq]
      intro h1 h2
      omega
    have e : reprFloat bits (dispBytes negD intDs frac) =
        writeFloat (bits / 2 ^ 63 == 1) false false (!(dispBytes negD intDs frac).contains 0x2E) (dispBytes negD intDs frac) := by
      unfold reprFloat
      simp only [hnan, hzero, Bool.false_and, Bool.not_false, Bool.true_and]
    have c : canonFloat bits = bits := by
      unfold canonFloat; simp only [hnan, Bool.false_and, Bool.false_eq_true, if_false]
    have hinf : Ieee.isInfBits (FloatLit.bits ⟨negD, intDs, frac.getD [0x30], false, []⟩) = false := by
      rw [hb]
      unfold Ieee.isInfBits Ieee.signBit Ieee.infBits
      simp only [beq_eq_false_iff_ne, ne_eq]
      omega
    have := value_floatTok (bits / 2 ^ 63 == 1) negD intDs frac rest fuel d hne hi hz hf hr hinf
    rw [e, c, this, hb]


/-- non-vacuity of `FloatOk.fin`: 1.5 (`0x3FF8000000000000`, printed "1.5") and 10.0 (printed "10") -/
example : FloatOk 0x3FF8000000000000 [0x31, 0x2E, 0x35] :=
  FloatOk.fin 0x3FF8000000000000 false [0x31] (some [0x35]) (by simp) (by decide) (by intro t h; injection h with h _; exact absurd h (by decide))
    (by intro f h; injection h with h; subst h; exact ⟨by simp, by decide⟩) (by decide +kernel) (by decide) (by decide)
example : FloatOk 0x4024000000000000 [0x31, 0x30] :=
  FloatOk.fin 0x4024000000000000 false [0x31, 0x30] none (by simp) (by decide) (by intro t h; injection h with h _; exact absurd h (by decide))
    (by intro f h; cases h) (by decide +kernel) (by decide) (by decide)
example : reprFloat 0x4024000000000000 [0x31, 0x30] = [0x31, 0x30, 0x2E, 0x30] := by decide +kernel

/-- the leaves the property quantifies over, as the constructors leave them (any decor) -/
inductive LeafOk : DVal → Prop
  | str (s : Bytes) (dec : Decor) : LeafOk (.str s dec)
  | int (n : Int) (dec : Decor) (h : inI64 n = true) : LeafOk (.int n dec)
  | float (bits : Nat) (disp : Bytes) (dec : Decor) (h : FloatOk bits disp) : LeafOk (.float bits disp dec)
  | bool (b : Bool) (dec : Decor) : LeafOk (.bool b dec)
  | dt (d : Datetime) (dec : Decor) (h : FieldsInRange d) (hy : ∀ x, d.date = some x → x.year ≤ 9999) : LeafOk (.dt d dec)

/-- the token `encode_formatted` writes between the decor of a leaf -/
def leafRepr : DVal → Bytes
  | .str s _ => reprString s
  | .int n _ => writeInt n
  | .float b d _ => reprFloat b d
  | .bool b _ => reprBool b
  | .dt d _ => Std.display d
  | _ => []

def decorOf : DVal → Decor
  | .str _ d | .int _ d | .float _ _ d | .bool _ d | .dt _ d | .arr _ d | .inl _ d => d

/-- the decoded leaf a faithful round trip must give back (`valOf` with NaNs reduced to their sign) -/
def canonLeaf : DVal → Val
  | .float b _ _ => .float (canonFloat b)
  | v => valOf v

/-- **T06_leaf**: for every leaf, in every context the printer puts a value in (`LeafFollow`: end of
    text, newline, `,`, `]`, ` }`), at every recursion depth and with any fuel, the parser's `value`
    reads the default representation back as exactly that leaf and stops exactly behind it. -/
theorem T06_leaf (v : DVal) (h : LeafOk v) (rest : Bytes) (hr : LeafFollow rest) (fuel d : Nat) :
    value (fuel + 1) d (leafRepr v ++ rest) = .ok (canonLeaf v) rest := by
  cases h
  case str s dec => exact value_str s rest fuel d hr
  case int n dec h => exact value_int n h rest fuel d hr
  case float bits disp dec h => exact T06_leaf_float bits disp rest fuel d h hr
  case bool b dec => exact value_bool b rest fuel d
  case dt dt dec h hy => exact value_dt dt rest fuel d h hy hr

/-- what `encode_value` writes for a leaf: its decor (or the default) around the token of `T06_leaf` -/
theorem T06_leaf_encode (v : DVal) (h : LeafOk v) (dflt : Bytes × Bytes) :
    encodeValue v dflt = (decorOf v).pre.getD dflt.1 ++ leafRepr v ++ (decorOf v).suf.getD dflt.2 := by
  cases h <;> simp [encodeValue, withDecor, leafRepr, decorOf]

/-- every constructor of a `Value` leaves its decor unset -/
theorem decorOf_buildVal (b : BVal) : decorOf (buildVal b) = {} := by
  cases b <;> simp only [buildVal] <;> (try split) <;> rfl

/-- the whole text of a printed leaf `Value` parses back (`Value::to_string()` then `str::parse::<Value>()`) -/
theorem T06_leaf_value_roundtrip (b : BVal) (h : LeafOk (buildVal b)) :
    parseValue (printValue (buildVal b)) = some (canonLeaf (buildVal b)) := by
  have e := T06_leaf_encode (buildVal b) h ([], [])
  have hd : decorOf (buildVal b) = {} := decorOf_buildVal b
  unfold parseValue printValue
  rw [e, hd]
  simp only [Option.getD_none, List.nil_append, List.append_nil]
  have := T06_leaf (buildVal b) h [] leafFollow_nil (3 * (leafRepr (buildVal b)).length + 3) 0
  rw [List.append_nil] at this
  rw [this]

/-- non-vacuity: the i64 minimum, a string with a quote, a newline and a control character -/
example : LeafOk (buildVal (.int (-9223372036854775808))) := LeafOk.int _ _ (by decide)
example : LeafOk (buildVal (.str [0x22, 0x0A, 0x01])) := LeafOk.str _ _
example : printValue (buildVal (.str [0x22, 0x0A, 0x01])) =
    [0x22, 0x22, 0x22, 0x0A, 0x22, 0x0A, 0x5C, 0x75, 0x30, 0x30, 0x30, 0x31, 0x22, 0x22, 0x22] := by decide +kernel

/-! ## keys -/

/-- **T06_key**: `Key::new(k)` prints (`Display for Key`) as a token that `simple_key` reads back as `k`,
    whenever the next byte is not a bare-key character (the printer writes ` `, `.`, `]` or `=` there) -/
theorem T06_key (k rest : Bytes) (hr : Props.C10.KeyFollow rest) :
    Key.simpleKey (printKey k ++ rest) = .ok k rest := by
  unfold printKey reprKey
  have h := Props.C10.T10_key_default_total k
  cases hw : Write.writeKey .default k with
  | none => rw [hw] at h; cases h
  | some tok => exact Props.C10.T10_key .default k tok rest hw hr

example : printKey [] = [0x22, 0x22] ∧ printKey [0x61, 0x2E, 0x62] = [0x22, 0x61, 0x2E, 0x62, 0x22] := by decide +kernel
example : Props.C10.KeyFollow [0x20, 0x3D] := by intro x r h; injection h with h _; subst h; decide

/-! ## known finding F10 on the model -/

/-- `aot = ArrayOfTables::new()` (no elements), `x = 1` -/
def witnessF10 : BTbl := .mk [([0x61, 0x6F, 0x74], .aot []), ([0x78], .value (.int 1))]

def keysOf (t : Tbl) : List Bytes := t.items.map (·.1)

/-- **T06_finding_empty_aot**: the witness prints as `x = 1\n`; parsing that text gives a table whose
    only key is `x`, while the built table has the keys `aot`, `x`. So the full statement
    (`T06_doc_statement` without `NoEmptyAot`) is false. -/
theorem T06_finding_empty_aot :
    printDoc (buildTbl witnessF10) = [0x78, 0x20, 0x3D, 0x20, 0x31, 0x0A] ∧
    (Doc.parseDocument (printDoc (buildTbl witnessF10))).map keysOf = some [[0x78]] ∧
    keysOf (tblOf (buildTbl witnessF10)) = [[0x61, 0x6F, 0x74], [0x78]] := by
  decide +kernel


/-! ## print order -/

/-- **T06_sort_identity**: when every entry carries the same position (structures built through the
    API: no table has a `doc_position`, `last_position` stays 0) the stable sort of
    `Display for DocumentMut` leaves the visit order unchanged -/
theorem T06_sort_identity (l : List Visit) (h : ∀ w ∈ l, w.lastPos = 0) : sortByPos l = l := by
  unfold sortByPos
  rw [sortByPos_aux l [] (by simpa using h)]
  simp


/-- the witness of F10 and a nested document: every visited table carries position 0 -/
example : ((visitNested (buildTbl witnessF10) [] false 0).1.map (·.lastPos)) = [0] := by decide +kernel
example : ((visitNested (buildTbl (.mk [([0x61], .table (.mk [([0x62], .aot [.mk [], .mk []])])), ([0x63], .table (.mk []))]))
    [] false 0).1.map (fun v => (v.lastPos, v.path, v.isArray))) =
    [(0, [], false), (0, [[0x61]], false), (0, [[0x61], [0x62]], true), (0, [[0x61], [0x62]], true), (0, [[0x63]], false)] := by
  decide +kernel

/-! ## the container and document statements (not proved; validated on every generated tree)

  The differential run of tools/props/c06.py evaluates both sides of these equations on every
  case (model text = implementation text, model re-parse = implementation re-parse = the tree the
  case describes, values-first). What a proof needs beyond `T06_leaf` / `T06_key`:
  * `T06_inline_statement`: an induction over the value with the invariants "every decor the
    constructors set is spaces only", "`array_values` / `inline keyvals` see `,` `]` `}` exactly
    where the printer put them" and a fuel bound `3 * length + 4` ≥ nesting; the
    separator-then-failing-element reset of `arrayElems` never fires because the next element parses.
  * `T06_doc_statement`: on top of that the header discipline of `Model/State.lean`
    (`onStdHeader` / `onArrayHeader` over a preorder walk: a parent's header precedes its children,
    no header repeats except `[[..]]`), which is the content of C09. -/

mutual
/-- every leaf below the value is one the property quantifies over -/
def LeavesOkV : DVal → Prop
  | .arr items _ => LeavesOkVs items
  | .inl items _ => LeavesOkPairs items
  | v => LeafOk v
def LeavesOkVs : List DVal → Prop
  | [] => True
  | v :: r => LeavesOkV v ∧ LeavesOkVs r
def LeavesOkPairs : List (Bytes × DVal) → Prop
  | [] => True
  | (_, v) :: r => LeavesOkV v ∧ LeavesOkPairs r
end

mutual
def depthV : DVal → Nat
  | .arr items _ => 1 + depthVs items
  | .inl items _ => 1 + depthPairs items
  | _ => 0
def depthVs : List DVal → Nat
  | [] => 0
  | v :: r => max (depthV v) (depthVs r)
def depthPairs : List (Bytes × DVal) → Nat
  | [] => 0
  | (_, v) :: r => max (depthV v) (depthPairs r)
end

/-- **T06_inline** (statement; proved as `T06_inline` in `Props/C06Full.lean`): every value built from in-range leaves with `Array::new/push`,
    `InlineTable::new/insert` (or the `FromIterator` impls), nested below the parser's recursion
    limit, prints (`Value::to_string`) as text that `str::parse::<Value>` reads back as the same value,
    same element order, same key order. -/
def T06_inline_statement : Prop :=
  ∀ b : BVal, LeavesOkV (buildVal b) → depthV (buildVal b) < LIMIT →
    parseValue (printValue (buildVal b)) = some (canonValD (buildVal b))

/-- the leaf instances of `T06_inline_statement` are `T06_leaf_value_roundtrip`; two container instances: -/
example : beqOptVal (parseValue (printValue (buildVal (.arr false [.int 1, .inl false [([0x6B], .arr false [])], .str [0x0A]]))))
    (some (canonValD (buildVal (.arr false [.int 1, .inl false [([0x6B], .arr false [])], .str [0x0A]])))) = true := by decide +kernel
example : printValue (buildVal (.arr false [.int 1, .inl false [([0x6B], .arr false [])], .str [0x0A]])) =
    [0x5B, 0x31, 0x2C, 0x20, 0x7B, 0x20, 0x6B, 0x20, 0x3D, 0x20, 0x5B, 0x5D, 0x20, 0x7D, 0x2C, 0x20, 0x22, 0x22, 0x22, 0x0A, 0x0A, 0x22, 0x22, 0x22, 0x5D] := by
  decide +kernel

mutual
def LeavesOkI : DItem → Prop
  | .value v => LeavesOkV v
  | .table t => LeavesOkT t
  | .aot ts => LeavesOkTs ts
def LeavesOkT : DTbl → Prop
  | .mk items _ _ => LeavesOkItems items
def LeavesOkTs : List DTbl → Prop
  | [] => True
  | t :: r => LeavesOkT t ∧ LeavesOkTs r
def LeavesOkItems : List (Bytes × DItem) → Prop
  | [] => True
  | (_, i) :: r => LeavesOkI i ∧ LeavesOkItems r
end

mutual
def depthI : DItem → Nat
  | .value v => depthV v
  | .table t => depthT t
  | .aot ts => 1 + depthTs ts
def depthT : DTbl → Nat
  | .mk items _ _ => 1 + depthItems items
def depthTs : List DTbl → Nat
  | [] => 0
  | t :: r => max (depthT t) (depthTs r)
def depthItems : List (Bytes × DItem) → Nat
  | [] => 0
  | (_, i) :: r => max (depthI i) (depthItems r)
end

mutual
/-- no `ArrayOfTables` without elements anywhere (known finding F10) -/
def NoEmptyAotI : DItem → Prop
  | .value _ => True
  | .table t => NoEmptyAotT t
  | .aot ts => ts ≠ [] ∧ NoEmptyAotTs ts
def NoEmptyAotT : DTbl → Prop
  | .mk items _ _ => NoEmptyAotItems items
def NoEmptyAotTs : List DTbl → Prop
  | [] => True
  | t :: r => NoEmptyAotT t ∧ NoEmptyAotTs r
def NoEmptyAotItems : List (Bytes × DItem) → Prop
  | [] => True
  | (_, i) :: r => NoEmptyAotI i ∧ NoEmptyAotItems r
end

/-- **T06_doc** (statement, with the hypothesis F10 forces; proved as `T06_doc` in `Props/C06Full.lean`): every document built from in-range
    leaves, nested below the parser's limit and without an empty `ArrayOfTables`, prints as text the
    document parser accepts, and the parsed tree is the built tree: same keys, same values, values in
    build order, sub-tables in build order. -/
def T06_doc_statement : Prop :=
  ∀ t : BTbl, LeavesOkT (buildTbl t) → depthT (buildTbl t) < LIMIT → NoEmptyAotT (buildTbl t) →
    (Doc.parseDocument (printDoc (buildTbl t))).map eraseTbl = some (expectT (buildTbl t))

/-- an instance of `T06_doc_statement` with a value after a sub-table, an array of tables in an array
    of tables and a table holding only sub-tables -/
def sampleDoc : BTbl :=
  .mk [([0x74], .table (.mk [([0x75], .table (.mk []))])), ([0x78], .value (.str [0x27, 0x0A])),
       ([0x61], .aot [.mk [([0x62], .aot [.mk [], .mk [([0x79], .value (.bool true))]])], .mk []])]
example : beqOptTbl ((Doc.parseDocument (printDoc (buildTbl sampleDoc))).map eraseTbl) (some (expectT (buildTbl sampleDoc))) = true := by
  decide +kernel
/-- without `NoEmptyAot` the statement fails: the F10 witness -/
example : beqOptTbl ((Doc.parseDocument (printDoc (buildTbl witnessF10))).map eraseTbl) (some (expectT (buildTbl witnessF10))) = false := by
  decide +kernel

end TomlVerif.Props.C06
