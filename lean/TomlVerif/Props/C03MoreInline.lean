import TomlVerif.Props.C03Doc
import TomlVerif.Lemmas.Tiling03MoreInlineRun
/-! C03, stage C inside inline tables — value tiling for inline tables with ADJACENT dotted keys
    spelled consistently (`{a.b = 1, a.c = 2}`), at any nesting.

    `T03_value_tiling_statement` is false (F15: `{a .b=1,a.c=2}` prints `{a .b=1,a .c=2}`) because an
    inline table keeps one `Key` per entry.  The class here is SOURCE-side, like `nestRun` for
    documents: `dottedInlRun s` (`Lemmas/Tiling03MoreInlineRun.lean`) re-runs the value parser on
    `s` and, for each inline table met, re-runs `table_from_pairs` over its pairs with the check
    `insOk` before each `cinlInsert` step (`pairsOk`, `Lemmas/Tiling03MoreInline.lean`):

    * every path segment `ki` of the pair's key `k1.….kn.key` that names an entry that EXISTS
      already in the table reached so far names its LAST entry (`lastEnt`) — dotted keys with a
      common prefix are adjacent;
    * that entry is a dotted inline table (`dot = true`, i.e. one made by an earlier dotted key);
    * `ki` is spelled like the stored key: `sameSeg s ki k'` — same repr text and same texts of
      the dotted decor (the white space around the segment inside the path).

    The last key of a pair is always new (`cinlInsert` rejects duplicates), and a segment that
    names no existing entry creates a fresh dotted table appended at the end, so nothing is
    required of those. -/
namespace TomlVerif.Props.C03More
open TomlVerif TomlVerif.Model TomlVerif.Model.Cst TomlVerif.Model.Encode
open TomlVerif.Lemmas.Cst03 TomlVerif.Lemmas.Tiling03 TomlVerif.Lemmas.Tiling03More TomlVerif.Props.C03

/-- T03_value_tiling for the checked run: for any decor transformation fixing the pieces of the
    source, an accepted value whose run passes the adjacency/spelling check prints as its source -/
theorem value_tiling_dotted_inline_gen (f : Bytes → Bytes) (s : Bytes) (hf : FixOn f s) (v : CVal)
    (h : parseCstValue s = some v) (hc : dottedInlRun s = true) : encodeValue f s v [] [] = s := by
  unfold parseCstValue at h
  split at h
  · rename_i v0 hv
    injection h with h; subst h
    obtain ⟨t, ht, _, _, _, htile, _⟩ := cvalue_tiling_dotted f s hf _ 0 s [] v0 (List.suffix_refl s) hv
    rw [List.append_nil] at ht
    rw [htile hc [] [], ← ht]
  · cases h

/-- T03_value_tiling (proved part, extended to dotted keys inside inline tables): scalars,
    arrays and inline tables at any nesting, where inside every inline table the dotted keys with
    a common prefix are adjacent and spell the shared prefix segments alike (`dottedInlRun`):
    the recorded pieces tile the source exactly. -/
theorem T03_value_tiling_dotted_inline (s : Bytes) (v : CVal) (h : parseCstValue s = some v)
    (hc : dottedInlRun s = true) : verbatimValue s v = s :=
  value_tiling_dotted_inline_gen id s (FixOn.id s) v h hc

/-- the same for the real printer when the source has no CR -/
theorem T03_value_print_dotted_inline (s : Bytes) (v : CVal) (h : parseCstValue s = some v)
    (hc : dottedInlRun s = true) (hcr : ∀ b ∈ s, b ≠ 0x0D) : printValue s v = s :=
  value_tiling_dotted_inline_gen stripCr s (FixOn.stripCr s hcr) v h hc

/-- the class extends `simpleVal` (the class of `T03_value_tiling_inline_partial`): a value whose
    inline tables have only one-segment keys passes the check -/
theorem dottedInlRun_of_simple (s : Bytes) (v : CVal) (h : parseCstValue s = some v)
    (hsimple : simpleVal v = true) : dottedInlRun s = true := by
  unfold parseCstValue at h
  split at h
  · rename_i v0 hv
    injection h with h; subst h
    obtain ⟨_, _, _, _, _, _, hs⟩ := cvalue_tiling_dotted id s (FixOn.id s) _ 0 s [] v0 (List.suffix_refl s) hv
    exact hs hsimple
  · cases h

/-- so `T03_value_tiling_inline_partial` is an instance of `T03_value_tiling_dotted_inline` -/
theorem T03_value_tiling_inline_partial' (s : Bytes) (v : CVal) (h : parseCstValue s = some v)
    (hsimple : simpleVal v = true) : verbatimValue s v = s :=
  T03_value_tiling_dotted_inline s v h (dottedInlRun_of_simple s v h hsimple)

/-! ### inside the class -/

/-- `{a.b = 1, a.c = 2}` -/
def exAdjacent : Bytes := strBytes "{a.b = 1, a.c = 2}"

example : (parseCstValue exAdjacent).isSome = true ∧ dottedInlRun exAdjacent = true ∧
    (parseCstValue exAdjacent).map simpleVal = some false ∧
    (parseCstValue exAdjacent).map (verbatimValue exAdjacent) = some exAdjacent := by decide +kernel

/-- nested: dotted keys with inner spaces, a dotted inline table as a value, an inline table with
    a dotted key inside an array -/
def exNestedDotted : Bytes := strBytes "{ x = 1, a . b = {u.v = 1, u.w = 2}, a . c = [ {p.q=1} ] }"

example : (parseCstValue exNestedDotted).isSome = true ∧ dottedInlRun exNestedDotted = true ∧
    (parseCstValue exNestedDotted).map simpleVal = some false ∧
    (parseCstValue exNestedDotted).map (verbatimValue exNestedDotted) = some exNestedDotted ∧
    (exNestedDotted.all fun b => b != 0x0D) = true ∧
    (parseCstValue exNestedDotted).map (printValue exNestedDotted) = some exNestedDotted := by decide +kernel

/-- three levels, a quoted segment, a comment and a line break inside a nested array -/
def exDeep : Bytes := strBytes "[ {a.\"b c\".d=1,a.\"b c\".e=2,a.f=3, g = [1, # c\n {h . i = 1, h . j = 2}]} ]"

example : (parseCstValue exDeep).isSome = true ∧ dottedInlRun exDeep = true ∧
    (parseCstValue exDeep).map (verbatimValue exDeep) = some exDeep := by decide +kernel

/-- `dottedInlRun_of_simple` on the example of the old class -/
example : (parseCstValue C03Doc.exInline).map simpleVal = some true ∧
    dottedInlRun C03Doc.exInline = true := by decide +kernel

/-! ### what the check excludes -/

/-- respelled prefix (F15): `{a .b=1,a.c=2}` is accepted, fails the check, and is printed
    `{a .b=1,a .c=2}` -/
example : (parseCstValue exRespelled).isSome = true ∧ dottedInlRun exRespelled = false ∧
    (parseCstValue exRespelled).map (verbatimValue exRespelled) = some (strBytes "{a .b=1,a .c=2}") := by
  decide +kernel

/-- `{a.b=1,c=2,a.d=3}` -/
def exNonAdjacent : Bytes := strBytes "{a.b=1,c=2,a.d=3}"

/-- non-adjacent dotted keys: accepted, fails the check, and is printed regrouped -/
example : (parseCstValue exNonAdjacent).isSome = true ∧ dottedInlRun exNonAdjacent = false ∧
    (parseCstValue exNonAdjacent).map (verbatimValue exNonAdjacent) = some (strBytes "{a.b=1,a.d=3,c=2}") := by
  decide +kernel

/-- the same one level down: `a.b` is re-entered after `a.e` -/
example : dottedInlRun (strBytes "{a.b.c=1,a.e=3,a.b.d=2}") = false ∧
    (parseCstValue (strBytes "{a.b.c=1,a.e=3,a.b.d=2}")).map (verbatimValue (strBytes "{a.b.c=1,a.e=3,a.b.d=2}"))
      = some (strBytes "{a.b.c=1,a.b.d=2,a.e=3}") := by decide +kernel

/-- a prefix respelled with quotes: `{a.b=1,"a".c=2}` prints `{a.b=1,a.c=2}` -/
example : dottedInlRun (strBytes "{a.b=1,\"a\".c=2}") = false ∧
    (parseCstValue (strBytes "{a.b=1,\"a\".c=2}")).map (verbatimValue (strBytes "{a.b=1,\"a\".c=2}"))
      = some (strBytes "{a.b=1,a.c=2}") := by decide +kernel

/-- the check is per table: one bad table anywhere fails the run -/
example : dottedInlRun (strBytes "[{a.b=1,a.c=2}, {a .b=1,a.c=2}]") = false := by decide +kernel

end TomlVerif.Props.C03More
