import TomlVerif.Props.C19Full
import TomlVerif.Props.C01DocSound
import TomlVerif.Lemmas.Macro19cParse
/-! # C19 at text level — `toml! { text }` builds the table `parse(text)` builds

`Props/C19Full.lean` relates the macro on the TOKENS of a document (`spellDoc ds`) to the definition state machine on its
STATEMENTS (`stmtsOf ds`).  This file closes the gap to the TEXT.

* `textOf ds` (Lemmas/Macro19cText.lean) — the canonical text of `ds`: one statement per line (`LF` after each),
  `key = value`, `[key]`, `[[key]]`; keys written without blanks (`a.b-c."d e"`); arrays `[v, v,]`; inline tables
  `{k = v, k = v}`; a sign directly before its number; a date-time with `-` / `:` directly between its fields and, in
  the `…Sp` shapes, one blank between date and time.
* `T19_tokens_text` — rustc's lexer (the model `tokens` of Model/Macro.lean) reads that text as `spellDoc ds`.
* `T19_stmts_text` — the TOML parser's line driver reads the same text as the statements `stmtsOf ds` (the grammar tree
  `qdocOf ds` of Lemmas/Macro19cParse.lean renders to `textOf ds`, is well formed, and denotes `stmtsOf ds`).
* `T19_text` — hence: whenever `parse_document` accepts the text, `toml!` on the tokens rustc makes of the same text
  compiles, does not panic, and builds the same table (`Sim`: equal as `toml::Value`s).

## `TextOk`: what is covered

`TextOk ds := synOk ds ∧ (stmtsOf ds).isSome`, decidable.  `synOk` is purely lexical:
* keys: every `.`-separated component is either identifiers joined by `-` (`a`, `x-y`, `_a1`; not the lone `_`), or ONE
  string literal of the shared subset (below); fewer than 80 components;
* strings: `"…"` whose characters are `basic-unescaped` bytes (blank, tab, `!`, `#`–`[`, `]`–`~`, non-ASCII) or one of the
  escapes `\n \r \t \\ \"` — exactly the escapes with the same meaning in Rust and TOML (`strOk`, decidable);
* integers: optional `+`/`-`, decimal digits without leading zero (`decOk`); floats: optional sign, `int.frac`, both
  parts digits, no leading zero (`fracOk`); `inf`, `nan` with optional sign; `true`, `false`;
* date-times: the shapes `odt`, `ldt`, `date`, `time` of `DtForm`, each field digits (seconds possibly `ss.fff`),
  with no suffix or a suffix `T07`/`t07` (the hour glued to the day) or `Z`/`z`; and the shapes `odtSp`, `ldtSp` (ONE
  blank between date and time) with a 4-digit year and 2-digit month and day;
* arrays of those with optional trailing comma, inline tables without trailing comma, nested below the parser's
  recursion limit.
`(stmtsOf ds).isSome`: every literal is one the macro evaluates (integers in the `i32` range, date-times valid) and
the entries of every inline table can be assembled (no key defined twice) — the documents for which the statement
list exists at all (hypothesis `hs` of `T19_doc`).

## what `TextOk` excludes, class by class (instances at the end of the file)

1. comments — not expressible: `#` is no token for rustc (`tokens = none`), `//` is no TOML.
2. literal strings `'…'`, multi-line strings — not expressible: `'ab'` is no Rust token; `"""x"""` lexes as three
   strings, which no arm matches.  A ONE-character `'u'` is a Rust character literal and the macro reads it as the
   TOML literal string does; `'\n'` is read DIFFERENTLY (`excl_char_escape`).  Character leaves are not covered.
3. string escapes outside the shared five: TOML-only `\b \f \uXXXX \UXXXXXXXX` are rejected by rustc; Rust-only
   `\0 \' \xNN \u{…}` by TOML — not expressible on one side.
4. numeric-looking bare keys — expressed DIFFERENTLY: finding F21 (`T19_F21_007`, `T19_F21_float_key`).  Keys like `a-1`,
   `2024` (canonical decimal) do agree; they are not covered.
5. integers: `0x…/0o…/0b…` and `_` separators agree on both sides and are not covered; leading zeros are rejected by
   TOML; literals outside `i32` are accepted by the parser and do NOT compile in the macro (`excl_i32`).
6. floats with exponent or `_` agree and are not covered; `1.` is Rust only.
7. date-times: the `…Frac` shapes (a separate `.` token) need a blank around the `.` and are no TOML — a fraction
   written without blanks is part of the seconds token and covered; offsets with `+` have no arm in the macro.
8. a trailing comma in an inline table — the macro accepts it, TOML 1.0 does not (`excl_inline_trailing`).
9. `MacroVal.arr` leaves — the same tokens are spelled by `MTree.arr`; only a redundancy of the syntax trees. -/
namespace TomlVerif.Props.C19Text
open TomlVerif TomlVerif.Model TomlVerif.Model.Macro TomlVerif.Lemmas.Macro19 TomlVerif.Lemmas.Macro19b
open TomlVerif.Lemmas.Macro19c TomlVerif.Model.State TomlVerif.Lemmas.State09 TomlVerif.Model.Doc
open TomlVerif.Lemmas.SoundDoc01U TomlVerif.Props.C19Full

/-- the documents whose canonical text both readers are shown to read the same way -/
def TextOk (ds : List DStmt) : Prop := synOk ds = true ∧ (stmtsOf ds).isSome = true

instance (ds : List DStmt) : Decidable (TextOk ds) := by unfold TextOk; infer_instance

/-- **lexer side**: rustc reads the canonical text as the token trees `spellDoc ds` (only the lexical half of `TextOk`
    is used) -/
theorem T19_tokens_text (ds : List DStmt) (h : TextOk ds) : tokens (textOf ds) = some (spellDoc ds) :=
  tokens_textOf ds h.1

/-- **parser side**: the TOML parser reads the same text as the statements `stmtsOf ds` -/
theorem T19_stmts_text (ds : List DStmt) (h : TextOk ds) : stmtsOfText (textOf ds) = stmtsOf ds := by
  obtain ⟨ss, hs⟩ := Option.isSome_iff_exists.1 h.2
  rw [hs]
  exact stmtsOfText_textOf ds h.1 ss hs

/-- the same with the grammar tree in view: the text is the rendering of a well-formed `QDoc` with those statements -/
theorem T19_text_tree (ds : List DStmt) (h : TextOk ds) :
    (qdocOf ds).WF ∧ (qdocOf ds).render = textOf ds ∧ some (qdocOf ds).stmts = stmtsOf ds := by
  obtain ⟨ss, hs⟩ := Option.isSome_iff_exists.1 h.2
  obtain ⟨h1, h2⟩ := qdocOf_stmts ds h.1 ss hs
  exact ⟨h2, qdocOf_render ds, by rw [h1, hs]⟩

/-- `parse_document` on the canonical text is the definition state machine on `stmtsOf ds` -/
theorem T19_parse_text (ds : List DStmt) (h : TextOk ds) :
    parseDocument (textOf ds) = (stmtsOf ds).bind fun ss => (run {} ss).bind intoDocument := by
  rw [TomlVerif.Props.C01DocSound.T01_document_factor, T19_stmts_text ds h]

/-- **C19, end to end**: whenever the parser accepts the text and returns `d`, rustc tokenises the same text, `toml!`
    (with the repaired header arm) compiles on those tokens, does not panic, and builds the same table -/
theorem T19_text (ds : List DStmt) (h : TextOk ds) (hne : ds ≠ []) :
    ∀ d, parseDocument (textOf ds) = some d →
      ∃ toks m, tokens (textOf ds) = some toks ∧ macroDocWith true toks = .ok m ∧ Sim m (tblM d) := by
  intro d hd
  rw [T19_parse_text ds h] at hd
  obtain ⟨ss, hs⟩ := Option.isSome_iff_exists.1 h.2
  rw [hs] at hd
  simp only [Option.bind_some] at hd
  cases hr : run {} ss with
  | none => simp [hr] at hd
  | some st =>
    simp only [hr, Option.bind_some] at hd
    obtain ⟨m, hm, hsim⟩ := T19_doc ds ss st d hne hs hr hd
    exact ⟨spellDoc ds, m, T19_tokens_text ds h, hm, hsim⟩

/-- the same for the macro of /repo as pinned (`run` = `tokens` then `macroDoc`; `headerKeeps = true` since the repair of F8) -/
theorem T19_text_repo (ds : List DStmt) (h : TextOk ds) (hne : ds ≠ []) :
    ∀ d, parseDocument (textOf ds) = some d → ∃ m, Macro.run (textOf ds) = .ok m ∧ Sim m (tblM d) := by
  intro d hd
  obtain ⟨toks, m, ht, hm, hsim⟩ := T19_text ds h hne d hd
  refine ⟨m, ?_, hsim⟩
  have hk : headerKeeps = true := by decide
  unfold Macro.run macroDoc
  rw [ht, hk]
  exact hm

/-! ## decision procedures for the instances (`TT`, `MVal`, `R` have no `DecidableEq`) -/

mutual
def ttEq : TT → TT → Bool
  | .tok a, .tok b => a == b
  | .group d x, .group e y => d == e && ttsEq x y
  | _, _ => false
def ttsEq : List TT → List TT → Bool
  | [], [] => true
  | a :: x, b :: y => ttEq a b && ttsEq x y
  | _, _ => false
end

mutual
theorem ttEq_sound : ∀ a b : TT, ttEq a b = true → a = b
  | .tok a, .tok b, h => by simp only [ttEq, beq_iff_eq] at h; rw [h]
  | .group d x, .group e y, h => by
    simp only [ttEq, Bool.and_eq_true, beq_iff_eq] at h
    rw [h.1, ttsEq_sound x y h.2]
  | .tok _, .group _ _, h => by simp [ttEq] at h
  | .group _ _, .tok _, h => by simp [ttEq] at h
theorem ttsEq_sound : ∀ a b : List TT, ttsEq a b = true → a = b
  | [], [], _ => rfl
  | a :: x, b :: y, h => by
    simp only [ttsEq, Bool.and_eq_true] at h
    rw [ttEq_sound a b h.1, ttsEq_sound x y h.2]
  | [], _ :: _, h => by simp [ttsEq] at h
  | _ :: _, [], h => by simp [ttsEq] at h
end

def toksAre (x : Option (List TT)) (y : List TT) : Bool :=
  match x with
  | some t => ttsEq t y
  | none => false

theorem toksAre_sound (x : Option (List TT)) (y : List TT) (h : toksAre x y = true) : x = some y := by
  cases x with
  | none => simp [toksAre] at h
  | some t => simp only [toksAre] at h; rw [ttsEq_sound t y h]

def rIs (x : R MVal) (y : MVal) : Bool :=
  match x with
  | .ok m => mvalEq m y
  | _ => false

theorem rIs_sound (x : R MVal) (y : MVal) (h : rIs x y = true) : x = .ok y := by
  cases x with
  | ok m => simp only [rIs] at h; rw [mvalEq_sound m y h]
  | unsupported => simp [rIs] at h
  | panic => simp [rIs] at h

def rUnsup : R MVal → Bool
  | .unsupported => true
  | _ => false

theorem rUnsup_sound (x : R MVal) (h : rUnsup x = true) : x = .unsupported := by
  cases x <;> simp [rUnsup] at h; rfl

/-! ## non-vacuity

```
[srv]
host.name = "a\tb"
ports = [8001, -2, +3.5,]
[[bin]]
name = {x-y = true, "q r".z = -inf}
[bin.sub]
when = 1979-05-27T07:32:00Z
then = 1979-05-27 07:32:00.5-07:00
```
a header, an array header with a sub-table, dotted and dashed and quoted keys, an inline table, an array with trailing
comma, negative numbers, an escape, a date-time -/
def exDocT : List DStmt := [
  .std (bare (strBytes "srv")),
  .kv (dottedKey (strBytes "host") [strBytes "name"]) (.leaf (.str (strBytes "\"a\\tb\"") (strBytes "a\tb"))),
  .kv (bare (strBytes "ports"))
    (.arr [int (strBytes "8001"), .leaf (.int .minus (strBytes "2")), .leaf (.float .plus (strBytes "3.5"))] true),
  .arr (bare (strBytes "bin")),
  .kv (bare (strBytes "name"))
    (.tbl [(⟨⟨.ident (strBytes "x"), [.ident (strBytes "y")]⟩, []⟩, .leaf (.bool true)),
           (⟨⟨.str (strBytes "\"q r\"") (strBytes "q r"), []⟩, [⟨.ident (strBytes "z"), []⟩]⟩,
              .leaf (.special .minus false))] false),
  .std (dottedKey (strBytes "bin") [strBytes "sub"]),
  .kv (bare (strBytes "when"))
    (.leaf (.dt (.ldt ⟨strBytes "1979", [], false⟩ ⟨strBytes "05", [], false⟩ ⟨strBytes "27", strBytes "T07", false⟩
                      ⟨strBytes "32", [], false⟩ ⟨strBytes "00", strBytes "Z", false⟩))),
  .kv (bare (strBytes "then"))
    (.leaf (.dt (.odtSp ⟨strBytes "1979", [], false⟩ ⟨strBytes "05", [], false⟩ ⟨strBytes "27", [], false⟩
                        ⟨strBytes "07", [], false⟩ ⟨strBytes "32", [], false⟩ ⟨strBytes "00.5", [], true⟩
                        ⟨strBytes "07", [], false⟩ ⟨strBytes "00", [], false⟩)))]

def exTextT : Bytes := strBytes
  "[srv]\nhost.name = \"a\\tb\"\nports = [8001, -2, +3.5,]\n[[bin]]\nname = {x-y = true, \"q r\".z = -inf}\n[bin.sub]\nwhen = 1979-05-27T07:32:00Z\nthen = 1979-05-27 07:32:00.5-07:00\n"

theorem exDocT_ok : TextOk exDocT := by decide +kernel
theorem exDocT_text : textOf exDocT = exTextT := by decide +kernel
theorem exDocT_accepted : (parseDocument exTextT).isSome = true := by decide +kernel

/-- the hypotheses of `T19_text` are met by `exDocT`, and its conclusion holds for the text written out -/
example : ∃ d toks m, parseDocument exTextT = some d ∧ tokens exTextT = some toks ∧
    macroDocWith true toks = .ok m ∧ Sim m (tblM d) := by
  obtain ⟨d, hd⟩ := Option.isSome_iff_exists.1 exDocT_accepted
  have := T19_text exDocT exDocT_ok (by simp [exDocT]) d (by rw [exDocT_text]; exact hd)
  rw [exDocT_text] at this
  obtain ⟨toks, m, h1, h2, h3⟩ := this
  exact ⟨d, toks, m, hd, h1, h2, h3⟩

/-- what both build for it -/
theorem exDocT_macro : Macro.run exTextT =
    .ok (.tbl [(strBytes "srv", .tbl [(strBytes "host", .tbl [(strBytes "name", .str (strBytes "a\tb"))]),
                                      (strBytes "ports", .arr [.int 8001, .int (-2), .float 0x400C000000000000])]),
               (strBytes "bin", .arr [.tbl [(strBytes "name", .tbl [(strBytes "x-y", .bool true),
                                                                    (strBytes "q r", .tbl [(strBytes "z", .float 0xFFF0000000000000)])]),
                                            (strBytes "sub", .tbl [(strBytes "when", .dt ⟨some ⟨1979, 5, 27⟩, some ⟨7, 32, 0, 0⟩, some .z⟩),
                                                                   (strBytes "then", .dt ⟨some ⟨1979, 5, 27⟩, some ⟨7, 32, 0, 500000000⟩, some (.custom (-420))⟩)])]])]) :=
  rIs_sound _ _ (by decide +kernel)

/-! ## F21 — numeric-looking bare keys -/

/-- `toml!`'s table and the parser's table for a text; `none`: one of the two refuses it -/
def bothTables (s : Bytes) : Option (MVal × MVal) :=
  match Macro.run s, parseDocument s with
  | .ok m, some d => some (m, tblM d)
  | _, _ => none

def pairIs (x : Option (MVal × MVal)) (a b : MVal) : Bool :=
  match x with
  | some (m, p) => mvalEq m a && mvalEq p b
  | none => false

theorem pairIs_sound (x : Option (MVal × MVal)) (a b : MVal) (h : pairIs x a b = true) : x = some (a, b) := by
  cases x with
  | none => simp [pairIs] at h
  | some q =>
    obtain ⟨m, p⟩ := q
    simp only [pairIs, Bool.and_eq_true] at h
    rw [mvalEq_sound m a h.1, mvalEq_sound p b h.2]

/-- two tables that disagree on the presence of a key are not the same `toml::Value` -/
theorem not_sim_of_key (xs ys : List (Bytes × MVal)) (k : Bytes) (h1 : (alookup k xs).isSome = true)
    (h2 : (alookup k ys).isSome = false) : ¬ Sim (.tbl xs) (.tbl ys) := by
  intro h
  have := h 1 k
  cases hx : alookup k xs with
  | none => simp [hx] at h1
  | some v =>
    cases hy : alookup k ys with
    | some w => simp [hy] at h2
    | none => rw [hx, hy] at this; exact this

/-- `007 = 1` as a document of the macro syntax (the key is ONE integer-literal token) -/
def f21Doc : List DStmt := [.kv ⟨⟨.num [0x30, 0x30, 0x37] [] false, []⟩, []⟩ (int [0x31])]

/-- **F21 at text level.** The canonical text of `f21Doc` is `007 = 1`; rustc's tokens are `spellDoc f21Doc`; the macro's key
    is `7` (`concat!` prints the VALUE of an integer literal), the parser's key is `007`: two different tables. `TextOk`
    excludes the document (its key is no identifier), and it has to: the conclusion of `T19_text` fails. -/
theorem T19_F21_007 :
    textOf f21Doc = strBytes "007 = 1\n" ∧ tokens (textOf f21Doc) = some (spellDoc f21Doc) ∧ ¬ TextOk f21Doc ∧
    macroDocWith true (spellDoc f21Doc) = .ok (.tbl [(strBytes "7", .int 1)]) ∧
    (parseDocument (textOf f21Doc)).map tblM = some (.tbl [(strBytes "007", .int 1)]) ∧
    ¬ Sim (.tbl [(strBytes "7", .int 1)]) (.tbl [(strBytes "007", .int 1)]) :=
  ⟨by decide +kernel, toksAre_sound _ _ (by decide +kernel), by decide +kernel, rIs_sound _ _ (by decide +kernel),
   optIs_sound _ _ (by decide +kernel),
   not_sim_of_key _ _ (strBytes "7") (by decide +kernel) (by decide +kernel)⟩

/-- `1.5 = 4`: ONE float-literal token for rustc, a dotted key `1 . 5` for TOML -/
def f21FloatDoc : List DStmt := [.kv ⟨⟨.num [0x31, 0x2E, 0x35] [] true, []⟩, []⟩ (int [0x34])]

theorem T19_F21_float_key :
    textOf f21FloatDoc = strBytes "1.5 = 4\n" ∧ tokens (textOf f21FloatDoc) = some (spellDoc f21FloatDoc) ∧
    ¬ TextOk f21FloatDoc ∧
    macroDocWith true (spellDoc f21FloatDoc) = .ok (.tbl [(strBytes "1.5", .int 4)]) ∧
    (parseDocument (textOf f21FloatDoc)).map tblM = some (.tbl [(strBytes "1", .tbl [(strBytes "5", .int 4)])]) ∧
    ¬ Sim (.tbl [(strBytes "1.5", .int 4)]) (.tbl [(strBytes "1", .tbl [(strBytes "5", .int 4)])]) :=
  ⟨by decide +kernel, toksAre_sound _ _ (by decide +kernel), by decide +kernel, rIs_sound _ _ (by decide +kernel),
   optIs_sound _ _ (by decide +kernel),
   not_sim_of_key _ _ (strBytes "1.5") (by decide +kernel) (by decide +kernel)⟩

/-- so the end-to-end statement without `TextOk` is false -/
def T19_text_unrestricted : Prop :=
  ∀ ds : List DStmt, ds ≠ [] → ∀ d, parseDocument (textOf ds) = some d →
    ∃ toks m, tokens (textOf ds) = some toks ∧ macroDocWith true toks = .ok m ∧ Sim m (tblM d)

theorem T19_text_unrestricted_false : ¬ T19_text_unrestricted := by
  intro h
  obtain ⟨_, ht, _, hm, hp, hn⟩ := T19_F21_007
  cases hd : parseDocument (textOf f21Doc) with
  | none => rw [hd] at hp; cases hp
  | some d =>
    rw [hd] at hp
    simp only [Option.map_some, Option.some.injEq] at hp
    obtain ⟨toks, m, h1, h2, h3⟩ := h f21Doc (by simp [f21Doc]) d hd
    rw [ht] at h1
    injection h1 with h1
    subst h1
    rw [hm] at h2
    injection h2 with h2
    subst h2
    rw [hp] at h3
    exact hn h3

/-! ## the other excluded classes, by instance -/

/-- 1. comments: `#` is outside rustc's tokens (the model answers `none`, i.e. "does not compile") -/
theorem excl_comment :
    (tokens (strBytes "a = 1 # c\n")).isSome = false ∧ (parseDocument (strBytes "a = 1 # c\n")).isSome = true := by
  decide +kernel

/-- 2. `'ab'` is no Rust token; a multi-line string lexes as three string literals and no arm matches -/
theorem excl_literal_multiline :
    (tokens (strBytes "a = 'ab'\n")).isSome = false ∧ Macro.run (strBytes "a = \"\"\"x\"\"\"\n") = .unsupported ∧
    (parseDocument (strBytes "a = 'ab'\n")).isSome = true ∧ (parseDocument (strBytes "a = \"\"\"x\"\"\"\n")).isSome = true :=
  ⟨by decide +kernel, rUnsup_sound _ (by decide +kernel), by decide +kernel, by decide +kernel⟩

/-- 2'. a one-character literal string agrees (`a = 'u'`), an escape in it does not: `a = '\n'` is a line feed for the
    macro (a Rust character literal) and backslash-`n` for TOML (a literal string) -/
theorem excl_char_escape :
    bothTables (strBytes "a = 'u'\n") = some (.tbl [(strBytes "a", .str (strBytes "u"))], .tbl [(strBytes "a", .str (strBytes "u"))]) ∧
    bothTables (strBytes "a = '\\n'\n") =
      some (.tbl [(strBytes "a", .str [0x0A])], .tbl [(strBytes "a", .str [0x5C, 0x6E])]) :=
  ⟨pairIs_sound _ _ _ (by decide +kernel), pairIs_sound _ _ _ (by decide +kernel)⟩

/-- 3. escapes of one language only: `\u00e9` (TOML) is refused by the lexer model, `\0` (Rust) by the parser -/
theorem excl_escapes :
    (tokens (strBytes "a = \"\\u00e9\"\n")).isSome = false ∧ (parseDocument (strBytes "a = \"\\u00e9\"\n")).isSome = true ∧
    (tokens (strBytes "a = \"\\0\"\n")).isSome = true ∧ (parseDocument (strBytes "a = \"\\0\"\n")).isSome = false := by
  decide +kernel

/-- 5. an integer beyond `i32`: valid TOML, but the macro's expansion does not compile (`overflowing_literals`) -/
theorem excl_i32 :
    Macro.run (strBytes "a = 3000000000\n") = .unsupported ∧ (parseDocument (strBytes "a = 3000000000\n")).isSome = true :=
  ⟨rUnsup_sound _ (by decide +kernel), by decide +kernel⟩

/-- 4'/5'/6'. spellings that agree but are not covered by `TextOk`: hexadecimal, `_` separators, an exponent, a
    canonical numeric key component -/
theorem excl_agreeing :
    bothTables (strBytes "a = 0x1F\nb = 1_000\nc = 1e2\ne-1 = 2\n") =
      some (.tbl [(strBytes "a", .int 31), (strBytes "b", .int 1000), (strBytes "c", .float 0x4059000000000000),
                  (strBytes "e-1", .int 2)],
            .tbl [(strBytes "a", .int 31), (strBytes "b", .int 1000), (strBytes "c", .float 0x4059000000000000),
                  (strBytes "e-1", .int 2)]) :=
  pairIs_sound _ _ _ (by decide +kernel)

/-- 8. a trailing comma in an inline table: the macro builds the table, the TOML 1.0 parser rejects the text -/
theorem excl_inline_trailing :
    Macro.run (strBytes "a = {b = 1,}\n") = .ok (.tbl [(strBytes "a", .tbl [(strBytes "b", .int 1)])]) ∧
    (parseDocument (strBytes "a = {b = 1,}\n")).isSome = false :=
  ⟨rIs_sound _ _ (by decide +kernel), by decide +kernel⟩

end TomlVerif.Props.C19Text
