import TomlVerif.Props.C03Doc
import TomlVerif.Lemmas.Tiling03HdrMain
import TomlVerif.Lemmas.Tiling03HdrKeyPath
/-! C03, continued — document-level tiling for documents WITH table headers (the parser half that
    `C03Doc.T03_doc_tiling_headers_statement` left open) and the normalisations without the
    CR-free restriction.

    Formulation of "normalised input" used here.  `printDoc s d = printDocG stripCr s d` and
    `verbatimDoc s d = printDocG id s d` are the same concatenation of recorded pieces, the first
    with every decor piece passed through `stripCr`, reprs of keys and scalars verbatim
    (definitional).  Two byte-level relations state what happens to the source:
      * `EolRel o s`: `o` is `s` with some CR LF pairs replaced by LF;
      * `DropCr o s`: `o` is `s` with some CR bytes deleted.
    `T03_print_dropCr_verbatim` (all trees): `DropCr (printDoc s d) (verbatimDoc s d)`.
    `T03_doc_verbatim_headers` (tiling proper, any source): `verbatimDoc s d = out ++ eol` with
    `EolRel out (stripBom s)` — NOT `out = stripBom s`: the terminator of a key/value or header
    line is not a recorded piece, the printer re-issues it as LF, so `verbatimDoc` already loses
    the CR of those line ends (`verbatim_not_source` below). -/
namespace TomlVerif.Props.C03Hdr
open TomlVerif TomlVerif.Model TomlVerif.Model.Cst TomlVerif.Model.Encode
open TomlVerif.Lemmas.Cst03 TomlVerif.Lemmas.Tiling03 TomlVerif.Lemmas.Tiling03Hdr
open TomlVerif.Props.C03 TomlVerif.Props.C03Doc

/-- the class: the root's items are simple values, `[t]` tables written by one header (explicit,
    undotted, positioned, holding simple values) and one-element `[[t]]` arrays of such tables.
    This is `C03Doc.flatDoc` without its conditions on the root's own flags and on the order of the
    positions, which hold for every parsed document of the class (they are consequences, not
    hypotheses). -/
def flatRoot (d : CDoc) : Bool := flatItems d.root.items

theorem flatDoc_flatRoot (d : CDoc) (h : flatDoc d = true) : flatRoot d = true := by
  obtain ⟨root, tr⟩ := d
  obtain ⟨items, imp, dot, p, dec, sp⟩ := root
  simp only [flatDoc, Bool.and_eq_true] at h
  exact h.1.2

theorem rootOnly_flatRoot (d : CDoc) (h : rootOnly d = true) : flatRoot d = true :=
  (simple_flat _ h).1

/-- the end-of-input clause shared by the statements: a final LF is added exactly when the last
    key/value or header line ended at the end of input -/
def EolOk (eol src : Bytes) : Prop := eol = [] ∨ (eol = [0x0A] ∧ src.getLast? ≠ some 0x0A)

/-- T03_print_dropCr_verbatim (every tree, every input): the printed text is the verbatim
    concatenation of the recorded pieces with some CRs deleted (those of the decor pieces) -/
theorem T03_print_dropCr_verbatim (s : Bytes) (d : CDoc) : DropCr (printDoc s d) (verbatimDoc s d) :=
  printDoc_dropCr_verbatim s d

theorem T03_value_dropCr_verbatim (s : Bytes) (v : CVal) : DropCr (printValue s v) (verbatimValue s v) :=
  printValue_dropCr_verbatim s v

/-- T03_doc_verbatim_headers (tiling proper, NO CR hypothesis): for a flat document the recorded
    pieces concatenated verbatim are the source without its BOM, except that the CR LF ending a
    key/value or header line is written LF, plus the final LF -/
theorem T03_doc_verbatim_headers (s : Bytes) (d : CDoc) (h : parseCst s = some d) (hflat : flatRoot d = true) :
    ∃ out eol, verbatimDoc s d = out ++ eol ∧ EolRel out (Doc.stripBom s) ∧ EolOk eol (Doc.stripBom s) :=
  hdr_doc_tiling id s d (FixOn.id s) h hflat

/-- T03_doc_crlf_headers (the CRLF normalisation, NO CR hypothesis): for a flat document the
    printed text is the source without its BOM with some CRs deleted, plus the final LF; in
    particular source and print agree after deleting every CR -/
theorem T03_doc_crlf_headers (s : Bytes) (d : CDoc) (h : parseCst s = some d) (hflat : flatRoot d = true) :
    ∃ eol, DropCr (printDoc s d) (Doc.stripBom s ++ eol) ∧
      stripCr (printDoc s d) = stripCr (Doc.stripBom s) ++ eol ∧ EolOk eol (Doc.stripBom s) := by
  obtain ⟨out, eol, h1, h2, h3⟩ := T03_doc_verbatim_headers s d h hflat
  have hd : DropCr (printDoc s d) (Doc.stripBom s ++ eol) := by
    have := T03_print_dropCr_verbatim s d
    rw [h1] at this
    exact this.trans (h2.toDropCr.append (DropCr.refl eol))
  refine ⟨eol, hd, ?_, h3⟩
  rw [hd.stripCr_eq, stripCr_append]
  rcases h3 with h3 | ⟨h3, _⟩ <;> subst h3 <;> rfl

/-- the explicit byte-level normal form when no CR survives (no key or scalar repr holds a CR,
    i.e. no CR LF inside a multi-line string): the printed text is the source without its BOM and
    without its CRs, plus the final LF -/
theorem T03_doc_crlf_headers_explicit (s : Bytes) (d : CDoc) (h : parseCst s = some d) (hflat : flatRoot d = true)
    (hp : ∀ b ∈ printDoc s d, b ≠ 0x0D) :
    ∃ eol, printDoc s d = stripCr (Doc.stripBom s) ++ eol ∧ EolOk eol (Doc.stripBom s) := by
  obtain ⟨eol, _, h2, h3⟩ := T03_doc_crlf_headers s d h hflat
  exact ⟨eol, by rw [← h2, stripCr_of_noCr _ hp], h3⟩

/-- CRLF line ends, comments, a header, an array over two lines: every CR goes -/
def exCrlfPlain : Bytes := strBytes "a = 1\r\n# c\r\n\r\n[t] # x\r\nc = [ 1,\r\n 2 ]\r\n"

example : (parseCst exCrlfPlain).map flatRoot = some true ∧
    (parseCst exCrlfPlain).map (fun d => (printDoc exCrlfPlain d).all (fun b => b != 0x0D)) = some true ∧
    (parseCst exCrlfPlain).map (printDoc exCrlfPlain) = some (stripCr exCrlfPlain) := by decide +kernel

/-- T03_doc_norm_headers: on CR-free sources the printed text is the source without its BOM plus
    the final LF (the three normalisations for the class with headers) -/
theorem T03_doc_norm_headers (s : Bytes) (d : CDoc) (h : parseCst s = some d) (hflat : flatRoot d = true)
    (hcr : ∀ b ∈ s, b ≠ 0x0D) :
    ∃ eol, printDoc s d = Doc.stripBom s ++ eol ∧ EolOk eol (Doc.stripBom s) := by
  obtain ⟨out, eol, h1, h2, h3⟩ := hdr_doc_tiling stripCr s d (FixOn.stripCr s hcr) h hflat
  obtain ⟨base, hbase⟩ := stripBom_split s
  have hcr' : ∀ b ∈ Doc.stripBom s, b ≠ 0x0D := fun b hb => hcr b (by rw [hbase]; exact List.mem_append_right _ hb)
  exact ⟨eol, by rw [← h2.eq_of_noCr hcr']; exact h1, h3⟩

/-- T03_doc_tiling_headers: `C03Doc.T03_doc_tiling_headers_statement` for the class `flatRoot`
    (weaker than `flatDoc`) -/
theorem T03_doc_tiling_headers (s : Bytes) (d : CDoc) (h : parseCst s = some d) (hflat : flatRoot d = true)
    (hbom : Doc.stripBom s = s) (hcr : ∀ b ∈ s, b ≠ 0x0D) (hnl : s.getLast? = some 0x0A ∨ s = []) :
    printDoc s d = s := by
  rcases hnl with hnl | hnl
  · obtain ⟨eol, h1, c1⟩ := T03_doc_norm_headers s d h hflat hcr
    rw [hbom] at h1 c1
    rcases c1 with c1 | ⟨_, c1⟩
    · rw [h1, c1, List.append_nil]
    · exact absurd hnl c1
  · subst hnl
    rw [parseCst_nil] at h
    injection h with h; subst h
    rfl

/-- the staged statement of `C03Doc` holds -/
theorem T03_doc_tiling_headers_full : T03_doc_tiling_headers_statement :=
  fun s d h hflat hbom hcr hnl => T03_doc_tiling_headers s d h (flatDoc_flatRoot d hflat) hbom hcr hnl

/-- the BOM form -/
theorem T03_doc_tiling_bom_headers (s : Bytes) (d' : CDoc)
    (h' : parseCst ([0xEF, 0xBB, 0xBF] ++ s) = some d') (hflat' : flatRoot d' = true)
    (hcr : ∀ b ∈ s, b ≠ 0x0D) (hnl : s.getLast? = some 0x0A) :
    printDoc ([0xEF, 0xBB, 0xBF] ++ s) d' = s := by
  have hcr' : ∀ b ∈ [0xEF, 0xBB, 0xBF] ++ s, b ≠ 0x0D := by
    intro b hb
    rcases List.mem_append.1 hb with hb | hb
    · simp at hb; rcases hb with hb | hb | hb <;> subst hb <;> decide
    · exact hcr b hb
  obtain ⟨eol, h1, c1⟩ := T03_doc_norm_headers _ d' h' hflat' hcr'
  have hs : Doc.stripBom ([0xEF, 0xBB, 0xBF] ++ s) = s := rfl
  rw [hs] at h1 c1
  rcases c1 with c1 | ⟨_, c1⟩
  · rw [h1, c1, List.append_nil]
  · exact absurd hnl c1

/-- T03_print_fixpoint for the class with headers -/
theorem T03_print_fixpoint_headers (s : Bytes) (d : CDoc) (h : parseCst s = some d) (hflat : flatRoot d = true)
    (hbom : Doc.stripBom s = s) (hcr : ∀ b ∈ s, b ≠ 0x0D) (hnl : s.getLast? = some 0x0A ∨ s = []) :
    ∃ d', parseCst (printDoc s d) = some d' ∧ printDoc (printDoc s d) d' = printDoc s d := by
  have hp := T03_doc_tiling_headers s d h hflat hbom hcr hnl
  exact ⟨d, by rw [hp]; exact h, by rw [hp]; exact hp⟩

/-! ### the header-less theorems of `C03Doc` without the CR-free hypothesis -/

theorem T03_doc_verbatim_root (s : Bytes) (d : CDoc) (h : parseCst s = some d) (hroot : rootOnly d = true) :
    ∃ out eol, verbatimDoc s d = out ++ eol ∧ EolRel out (Doc.stripBom s) ∧ EolOk eol (Doc.stripBom s) :=
  T03_doc_verbatim_headers s d h (rootOnly_flatRoot d hroot)

theorem T03_doc_crlf_root (s : Bytes) (d : CDoc) (h : parseCst s = some d) (hroot : rootOnly d = true) :
    ∃ eol, DropCr (printDoc s d) (Doc.stripBom s ++ eol) ∧
      stripCr (printDoc s d) = stripCr (Doc.stripBom s) ++ eol ∧ EolOk eol (Doc.stripBom s) :=
  T03_doc_crlf_headers s d h (rootOnly_flatRoot d hroot)


/-! ### values: the CR LF normalisation without the CR-free hypothesis -/

/-- for a value of the class of `C03Doc.T03_value_tiling_inline_partial` the printed text is the
    source with some CRs deleted (those of decor: inside arrays and inline tables; the CRs inside
    multi-line strings are kept, `C03.exArray`) -/
theorem T03_value_crlf (s : Bytes) (v : CVal) (h : parseCstValue s = some v) (hsimple : simpleVal v = true) :
    DropCr (printValue s v) s ∧ stripCr (printValue s v) = stripCr s := by
  have h1 := T03_value_dropCr_verbatim s v
  rw [T03_value_tiling_inline_partial s v h hsimple] at h1
  exact ⟨h1, h1.stripCr_eq⟩

example : (parseCstValue exInline).map simpleVal = some true ∧
    (parseCstValue exInline).map (fun v => printValue exInline v == exInline) = some false := by decide +kernel


/-! ### key paths with any number of segments (stepping stone for dotted keys / `[a.b]`) -/

/-- T03_keypath_tiling: what `key` (`ws k1 ws . ws k2 ws …`) consumed is what the printer writes for
    the recorded path (`fixLeaf` moves the outer white space into the last key's leaf decor, the
    inner white space stays in each segment's dotted decor), for any number of segments and any
    default decor; `f = id` always, `f = stripCr` on CR-free input -/
theorem T03_keypath_tiling (f : Bytes → Bytes) (inp s r : Bytes) (ks : List CKey) (hf : FixOn f inp)
    (hs : s <:+ inp) (h : ckeyPath inp.length s = .ok ks r) (dp ds : Bytes) :
    s = encodeKeyPath f inp ks dp ds ++ r :=
  ckeyPath_tiling f inp hf s r ks hs h dp ds

/-- ` a . "b c" .d = 1`: three segments with inner white space -/
def exKeyPath : Bytes := strBytes " a . \"b c\" .d = 1"

example : (match ckeyPath exKeyPath.length exKeyPath with
    | .ok ks r => some (ks.length, encodeKeyPath id exKeyPath ks [] [] ++ r == exKeyPath)
    | _ => none) = some (3, true) := by decide +kernel

/-! ### non-vacuity, and why `verbatimDoc s d = stripBom s ++ eol` is not the statement -/

/-- the flat example of `C03Doc`: comment after a header, blank lines between sections, `[[ c ]]`
    with inner spaces, an empty `[b]` -/
example : (parseCst exFlatDoc).map flatRoot = some true ∧ (parseCst exFlatDoc).map flatDoc = some true ∧
    Doc.stripBom exFlatDoc = exFlatDoc ∧ (exFlatDoc.all fun b => b != 0x0D) = true ∧
    exFlatDoc.getLast? = some 0x0A ∧
    (parseCst exFlatDoc).map (printDoc exFlatDoc) = some exFlatDoc := by decide +kernel

/-- a realistic document: leading comment, root values, sections separated by blank lines and
    comments, a header with a trailing comment, quoted and spaced header names, arrays and inline
    tables as values -/
def exRealistic : Bytes := strBytes
  "# config\ntitle = \"x\"\n\n[owner] # who\nname = 'Tom'\ndob = 1979-05-27T07:32:00Z\n\n# servers\n[ \"servers\" ]\nports = [ 8001, 8001,\n  8002 ]\nalpha = { ip = \"10.0.0.1\" }\n\n[[products]]\nsku = 738594937\n\n[clients]\n"

example : (parseCst exRealistic).map flatRoot = some true ∧
    Doc.stripBom exRealistic = exRealistic ∧ (exRealistic.all fun b => b != 0x0D) = true ∧
    exRealistic.getLast? = some 0x0A ∧
    (parseCst exRealistic).map (printDoc exRealistic) = some exRealistic := by decide +kernel

/-- CRLF line ends everywhere, a CR LF inside a multi-line string, a BOM, no final newline -/
def exCrlf : Bytes := [0xEF, 0xBB, 0xBF] ++ strBytes
  "a = 1\r\n# c\r\n[t] # x\r\n\r\nb = \"\"\"x\r\ny\"\"\"\r\nc = [ 1,\r\n 2 ]\r\n[[u]]"

/-- … is in the class; the CRs of decor and of line ends go, the one inside the string stays -/
example : (parseCst exCrlf).map flatRoot = some true ∧
    (parseCst exCrlf).map (printDoc exCrlf)
      = some (strBytes "a = 1\n# c\n[t] # x\n\nb = \"\"\"x\r\ny\"\"\"\nc = [ 1,\n 2 ]\n[[u]]\n") := by decide +kernel

/-- `verbatimDoc s d = stripBom s ++ eol` is FALSE for sources with CR LF line ends: the
    terminator of a key/value or header line is not recorded, `verbatimDoc` writes LF for it, while
    the CR LF of comment and blank lines (recorded as decor) is kept -/
theorem verbatim_not_source :
    ¬ ∀ (s : Bytes) (d : CDoc), parseCst s = some d → rootOnly d = true →
        ∃ eol, verbatimDoc s d = Doc.stripBom s ++ eol := by
  intro hall
  have hv : (parseCst (strBytes "a = 1\r\n# c\r\n")).map (fun d => (rootOnly d, verbatimDoc (strBytes "a = 1\r\n# c\r\n") d))
      = some (true, strBytes "a = 1\n# c\r\n") := by decide +kernel
  cases hp : parseCst (strBytes "a = 1\r\n# c\r\n") with
  | none => rw [hp] at hv; cases hv
  | some d =>
    rw [hp] at hv
    simp only [Option.map_some, Option.some.injEq, Prod.mk.injEq] at hv
    obtain ⟨eol, he⟩ := hall _ d hp hv.1
    rw [hv.2] at he
    have h0 : Doc.stripBom (strBytes "a = 1\r\n# c\r\n") = strBytes "a = 1\r\n# c\r\n" := by decide +kernel
    rw [h0] at he
    have := congrArg (fun l => l.take 6) he
    rw [List.take_append_of_le_length (by decide +kernel)] at this
    revert this
    decide +kernel

/-- `a = 1` LF `# c` CR LF  is related to  `a = 1` CR LF `# c` CR LF -/
example : EolRel [0x61, 0x20, 0x3D, 0x20, 0x31, 0x0A, 0x23, 0x20, 0x63, 0x0D, 0x0A]
    [0x61, 0x20, 0x3D, 0x20, 0x31, 0x0D, 0x0A, 0x23, 0x20, 0x63, 0x0D, 0x0A] := by
  repeat (first | exact .nil | apply EolRel.crlf | apply EolRel.keep)


/-! ### outside the class (NOT covered; the class is sufficient, not necessary)

    Documents with a repeated `[[t]]`, dotted header names or dotted keys are outside `flatRoot`
    even when they print back exactly.  For them a predicate on `d` alone cannot work in general:
    `d` keeps one `Key` per table entry, so the spelling of a later `[[ t ]]`, of the `a` in a
    later `[a.b]`, or of the `a` in a later `a.c = 2` is not in `d` (counterexamples in `C03Doc`);
    a class containing them needs a hypothesis on the source (e.g. on the slices at the recorded
    table spans) and the parser invariant for nested `descend` paths, which is not done here.
    `T03_keypath_tiling` above is the key-path half of that extension. -/

example : (parseCst (strBytes "[[c]]\nx = 1\n[[c]]\n")).map flatRoot = some false ∧
    (parseCst (strBytes "[[c]]\nx = 1\n[[c]]\n")).map (printDoc (strBytes "[[c]]\nx = 1\n[[c]]\n"))
      = some (strBytes "[[c]]\nx = 1\n[[c]]\n") := by decide +kernel

example : (parseCst (strBytes "[a]\n[a.b]\nx = 1\n")).map flatRoot = some false ∧
    (parseCst (strBytes "[a]\n[a.b]\nx = 1\n")).map (printDoc (strBytes "[a]\n[a.b]\nx = 1\n"))
      = some (strBytes "[a]\n[a.b]\nx = 1\n") := by decide +kernel

example : (parseCst (strBytes "[t]\na.b = 1\na.c = 2\n")).map flatRoot = some false ∧
    (parseCst (strBytes "[t]\na.b = 1\na.c = 2\n")).map (printDoc (strBytes "[t]\na.b = 1\na.c = 2\n"))
      = some (strBytes "[t]\na.b = 1\na.c = 2\n") := by decide +kernel

end TomlVerif.Props.C03Hdr
