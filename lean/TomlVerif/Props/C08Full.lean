import TomlVerif.Props.C08
import TomlVerif.Lemmas.Refine08b
import TomlVerif.Lemmas.Refine08bSort
import TomlVerif.Lemmas.Refine08bSem
import TomlVerif.Lemmas.Refine08bFrame
import TomlVerif.Lemmas.Refine08bPrint
import TomlVerif.Lemmas.Refine08bSpans
/-! C08, completed: the refinement for all 17 ops, lifted to histories, and the print-level frame.

    * `T08_refine_full` (Props/C08.lean) is **false** as staged (`T08_refine_full_false`): it asks for
      a plain op applied at the edit path `p` that depends on the op alone. `sort` recurses into the
      *dotted* sub-tables, a flag the plain tree does not have (two documents with the same plain
      tree sort differently, `T08_sort_not_plain`); `mv` changes the tree at a second path
      (`T08_mv_not_single_path`).
    * corrected statement `T08_refine_all`: every op refines `plainStep op p` — the plain op at `p`,
      for `mv` the two-path `pMv` — where for `sort` the node must satisfy `SortFlat` (its dotted
      sub-tables are already in order; in particular it has none; outside it the one-level `pSort`
      is wrong, `T08_sort_side_needed`). The 15 other single-path ops have the exact shape of
      `T08_refine_full` (`T08_refine_single`). Without any condition on `dotted`, `sort` refines
      `sort_values` on the semantic tree with flags (`T08_refine_sort_sem`).
    * `T08_refine_history`: folding the plain steps of the *applied* ops over `abs st` gives
      `abs (run st es)`. "Skipped ops skip on both sides" is false for the plain tree (`push` on an
      array of tables is skipped by the model, the plain `pPush` applies: `skip_not_plain`), so the
      plain fold runs over the ops the model applied; `T08_refine_history_skip` is the skipping fold
      under the hypothesis that the plain step fails wherever the model skips.
    * `T08_print_untouched`: the printed line of a key/value entry no op touches is the same byte
      string after the history. -/
namespace TomlVerif.Props.C08
open TomlVerif TomlVerif.Model TomlVerif.Model.Cst TomlVerif.Model.Edit TomlVerif.Model.Encode
open TomlVerif.Lemmas.Edit08 TomlVerif.Lemmas.Refine08 TomlVerif.Lemmas.RefineOps08
open TomlVerif.Lemmas.Refine08b TomlVerif.Lemmas.Refine08bSort TomlVerif.Lemmas.Refine08bSem TomlVerif.Lemmas.Refine08bFrame
open TomlVerif.Lemmas.Refine08bPrint TomlVerif.Lemmas.Refine08bSpans TomlVerif.Lemmas.Cst03 TomlVerif.Spec.OrderedPlain

/-! ### the plain op of every op -/

/-- the plain op at the node the edit path leads to, for the 16 single-path ops (`mv`: see `pMv`) -/
def plainOp1 : Op → Plain → Option Plain
  | .set k v => pSet k (.scalar (leaf v))
  | .del k => pDel k
  | .newt k => pSet k (.tbl [])
  | .viv k1 k2 v => pViv k1 k2 (.scalar (leaf v))
  | .sort => pSort
  | .fmt => pId
  | .push v => pPush (.scalar (leaf v))
  | .ains i v => pInsert i (.scalar (leaf v))
  | .arepl i v => pReplace i (.scalar (leaf v))
  | .adel i => pRemove i
  | .tpush => pTpush
  | .tdel i => pRemove i
  | .inl _ => pId
  | .tbl _ => pId
  | .aot2arr _ => pId
  | .arr2aot _ => pId
  | .mv _ _ => fun _ => none

/-- `plainOp1` extends `plainOp` of Props/C08.lean -/
theorem plainOp1_of_plainOp (op : Op) (f : Plain → Option Plain) (h : plainOp op = some f) : plainOp1 op = f := by
  cases op <;> simp [plainOp] at h <;> simp [plainOp1, h]

/-- one op on the plain ordered tree -/
def plainStep (op : Op) (p : List Seg) : Plain → Option Plain :=
  match op with
  | .mv k p2 => pMv k p p2
  | op => pupd (plainOp1 op) p

/-- the side condition of `sort`: the dotted sub-tables of the sorted node are in order already -/
def SortSide (st : St) (op : Op) (p : List Seg) : Prop :=
  op = .sort → ∀ n, lookupTbl p st.doc.root = some n → SortFlat n

theorem sortSide_of_ne (st : St) (op : Op) (p : List Seg) (h : op ≠ .sort) : SortSide st op p :=
  fun e => absurd e h

/-! ### the four ops `T08_refine` leaves out -/

theorem T08_refine_viv (st st' : St) (k1 k2 : Bytes) (v : Sc) (p : List Seg)
    (h : applyOp st (.viv k1 k2 v) p = some st') :
    pupd (pViv k1 k2 (.scalar (leaf v))) p (plainT st.doc.root) = some (plainT st'.doc.root) := by
  unfold applyOp at h
  obtain ⟨r, hm, rfl⟩ := Option.map_eq_some_iff.mp h
  exact refine_tbl (refines_viv k1 k2 v _) p _ r hm

theorem T08_refine_arr2aot (st st' : St) (k : Bytes) (p : List Seg)
    (h : applyOp st (.arr2aot k) p = some st') :
    pupd pId p (plainT st.doc.root) = some (plainT st'.doc.root) := by
  unfold applyOp at h
  obtain ⟨r, hm, rfl⟩ := Option.map_eq_some_iff.mp h
  exact refine_tbl (refines_arr2aot k _) p _ r hm

theorem T08_refine_mv (st st' : St) (k : Bytes) (p p2 : List Seg)
    (h : applyOp st (.mv k p2) p = some st') :
    pMv k p p2 (plainT st.doc.root) = some (plainT st'.doc.root) := by
  unfold applyOp at h
  obtain ⟨r, hm, rfl⟩ := Option.map_eq_some_iff.mp h
  exact refine_mv k _ _ p p2 _ r hm

/-- `sort`, under the side condition -/
theorem T08_refine_sort (st st' : St) (p : List Seg) (h : applyOp st .sort p = some st')
    (hs : ∀ n, lookupTbl p st.doc.root = some n → SortFlat n) :
    pupd pSort p (plainT st.doc.root) = some (plainT st'.doc.root) := by
  unfold applyOp at h
  obtain ⟨r, hm, rfl⟩ := Option.map_eq_some_iff.mp h
  exact refine_sort _ p _ r hs hm

/-- **refinement, all 17 ops** (the corrected `T08_refine_full`): whenever a model op applies, the
    plain ordered tree of the edited document is `plainStep op p` of the plain ordered tree before -/
theorem T08_refine_all (st st' : St) (op : Op) (p : List Seg) (h : applyOp st op p = some st')
    (hs : SortSide st op p) : plainStep op p (plainT st.doc.root) = some (plainT st'.doc.root) := by
  cases op with
  | mv k p2 => exact T08_refine_mv st st' k p p2 h
  | viv k1 k2 v => exact T08_refine_viv st st' k1 k2 v p h
  | arr2aot k => exact T08_refine_arr2aot st st' k p h
  | sort => exact T08_refine_sort st st' p h (hs rfl)
  | set k v => exact T08_refine st st' _ p _ rfl h
  | del k => exact T08_refine st st' _ p _ rfl h
  | newt k => exact T08_refine st st' _ p _ rfl h
  | fmt => exact T08_refine st st' _ p _ rfl h
  | push v => exact T08_refine st st' _ p _ rfl h
  | ains i v => exact T08_refine st st' _ p _ rfl h
  | arepl i v => exact T08_refine st st' _ p _ rfl h
  | adel i => exact T08_refine st st' _ p _ rfl h
  | tpush => exact T08_refine st st' _ p _ rfl h
  | tdel i => exact T08_refine st st' _ p _ rfl h
  | inl k => exact T08_refine st st' _ p _ rfl h
  | tbl k => exact T08_refine st st' _ p _ rfl h
  | aot2arr k => exact T08_refine st st' _ p _ rfl h

/-- `T08_refine_full` restricted to the ops other than `sort` and `mv` holds as staged: the plain
    op depends on the op alone and is applied at the edit path -/
theorem T08_refine_single (op : Op) (hsort : op ≠ .sort) (hmv : ∀ k p2, op ≠ .mv k p2) :
    ∃ f : Plain → Option Plain, ∀ (st st' : St) (p : List Seg),
      applyOp st op p = some st' → pupd f p (plainT st.doc.root) = some (plainT st'.doc.root) := by
  refine ⟨plainOp1 op, fun st st' p h => ?_⟩
  have := T08_refine_all st st' op p h (sortSide_of_ne st op p hsort)
  cases op with
  | mv k p2 => exact absurd rfl (hmv k p2)
  | _ => exact this

/-! ### `T08_refine_full` is false -/

/-- the parsed state of a text (an empty document if it is rejected) -/
def stOf (s : Bytes) : St := (start s).getD ⟨[], ⟨CTbl.empty, .empty⟩⟩

/-- the state after an op (the state itself if it is skipped) -/
def after (st : St) (op : Op) (p : List Seg) : St := (applyOp st op p).getD st

theorem applyOp_after (st : St) (op : Op) (p : List Seg) (h : (applyOp st op p).isSome = true) :
    applyOp st op p = some (after st op p) := by
  unfold after
  cases ha : applyOp st op p with
  | none => simp [ha] at h
  | some x => rfl

/-- `[t]⏎b.z = 1⏎b.a = 2⏎`: `b` is a dotted table -/
def sortDocA : Bytes := strBytes "[t]\nb.z = 1\nb.a = 2\n"
/-- `[t]⏎b = {z = 1, a = 2}⏎`: `b` is an inline table -/
def sortDocB : Bytes := strBytes "[t]\nb = {z = 1, a = 2}\n"

/-- **`sort` is not a function of the plain tree**: the two documents have the same plain ordered
    tree `{t = {b = {z = 1, a = 2}}}`, `sort` applies to both at `t`, and the results differ
    (`{b = {a, z}}` for the dotted table, `{b = {z, a}}` for the inline one) -/
theorem T08_sort_not_plain :
    plainT (stOf sortDocA).doc.root = plainT (stOf sortDocB).doc.root ∧
    (applyOp (stOf sortDocA) .sort [exSeg "t"]).isSome = true ∧
    (applyOp (stOf sortDocB) .sort [exSeg "t"]).isSome = true ∧
    plainT (after (stOf sortDocA) .sort [exSeg "t"]).doc.root ≠
      plainT (after (stOf sortDocB) .sort [exSeg "t"]).doc.root := by
  refine ⟨plainBeq_sound _ _ (by decide +kernel), by decide +kernel, by decide +kernel, ?_⟩
  intro e
  have h1 := congrArg (plainBeq (plainT (after (stOf sortDocA) .sort [exSeg "t"]).doc.root)) e.symm
  rw [plainBeq_refl] at h1
  revert h1
  decide +kernel

/-- `[a]⏎x = 1⏎[b]⏎y = 2⏎` -/
def mvDoc : Bytes := strBytes "[a]\nx = 1\n[b]\ny = 2\n"

/-- `pupd` at `[a]` keeps the entry `b` -/
theorem pupd_keeps_b (f : Plain → Option Plain) (xa xb y : Plain)
    (h : pupd f [exSeg "a"] (.tbl [(strBytes "a", xa), (strBytes "b", xb)]) = some y) :
    plook [exSeg "b"] y = some xb := by
  have e1 : (exSeg "a").key = some (strBytes "a") := rfl
  have e2 : (strBytes "a" == strBytes "a") = true := by decide +kernel
  simp only [pupd, e1, pupdKey, e2, if_true] at h
  obtain ⟨es, hes, rfl⟩ := Option.map_eq_some_iff.mp h
  obtain ⟨x', _, rfl⟩ := Option.map_eq_some_iff.mp hes
  have e3 : (exSeg "b").key = some (strBytes "b") := rfl
  have e4 : (strBytes "a" == strBytes "b") = false := by decide +kernel
  simp [plook, e3, plookKey, e4]

/-- **`mv` is not an op at its first path**: moving `x` from `[a]` to `[b]` changes the table `b`,
    which no `pupd f [a]` can do -/
theorem T08_mv_not_single_path :
    ¬ ∃ f : Plain → Option Plain, ∀ (st st' : St) (p : List Seg),
      applyOp st (.mv (strBytes "x") [exSeg "b"]) p = some st' →
      pupd f p (plainT st.doc.root) = some (plainT st'.doc.root) := by
  rintro ⟨f, hf⟩
  have ha := applyOp_after (stOf mvDoc) (.mv (strBytes "x") [exSeg "b"]) [exSeg "a"] (by decide +kernel)
  have h := hf _ _ _ ha
  have e0 : plainT (stOf mvDoc).doc.root =
      .tbl [(strBytes "a", .tbl [(strBytes "x", .scalar (.int 1))]),
            (strBytes "b", .tbl [(strBytes "y", .scalar (.int 2))])] :=
    plainBeq_sound _ _ (by decide +kernel)
  rw [e0] at h
  have h2 := pupd_keeps_b f _ _ _ h
  have h3 : (match plook [exSeg "b"] (plainT (after (stOf mvDoc) (.mv (strBytes "x") [exSeg "b"]) [exSeg "a"]).doc.root) with
      | some y => plainBeq y (.tbl [(strBytes "y", .scalar (.int 2))])
      | none => false) = false := by decide +kernel
  rw [h2] at h3
  simp [plainBeq_refl] at h3

/-- the staged full statement of Props/C08.lean does not hold -/
theorem T08_refine_full_false : ¬ T08_refine_full := by
  intro h
  obtain ⟨f, hf⟩ := h .sort
  obtain ⟨e, ha, hb, hne⟩ := T08_sort_not_plain
  have h1 := hf _ _ _ (applyOp_after _ _ _ ha)
  have h2 := hf _ _ _ (applyOp_after _ _ _ hb)
  rw [e, h2] at h1
  exact hne (Option.some.inj h1).symm

/-- an `Option Plain` is `some` of the given tree (decidable test) -/
def isSomeOf (o : Option Plain) (y : Plain) : Bool :=
  match o with
  | some x => plainBeq x y
  | none => false

theorem isSomeOf_iff (o : Option Plain) (y : Plain) : isSomeOf o y = true ↔ o = some y := by
  cases o with
  | none => simp [isSomeOf]
  | some x =>
    simp only [isSomeOf, Option.some.injEq]
    exact ⟨plainBeq_sound x y, fun e => e ▸ plainBeq_refl x⟩

/-- outside the side condition (`sortDocA`: the dotted sub-table `b` is out of order) the one-level
    `pSort` is not what `sort` does -/
theorem T08_sort_side_needed :
    pupd pSort [exSeg "t"] (plainT (stOf sortDocA).doc.root) ≠
      some (plainT (after (stOf sortDocA) .sort [exSeg "t"]).doc.root) := by
  intro h
  have := (isSomeOf_iff _ _).mpr h
  revert this
  decide +kernel

/-! ### `sort` at full strength: on the semantic tree, which has the `dotted` flags -/

/-- **`sort` refines `sort_values` on the semantic tree** (`eraseTbl`, Model/Tree.lean): sorted with
    the verified `sortByKey`, dotted sub-tables recursively — at any path and whatever the dotted
    sub-tables look like. (`NodeInlOK`: when the node is an inline table, no `scalar` below it holds
    an inline table as its payload — the type `CVal` allows that, no parse result or op builds it;
    for a table node the condition is `True`.) -/
theorem T08_refine_sort_sem (st st' : St) (p : List Seg) (h : applyOp st .sort p = some st')
    (hok : ∀ n, lookupTbl p st.doc.root = some n → NodeInlOK n) :
    supdTbl sortSU p (eraseTbl st.doc.root) = some (eraseTbl st'.doc.root) := by
  unfold applyOp at h
  obtain ⟨r, hm, rfl⟩ := Option.map_eq_some_iff.mp h
  exact srefine_sort _ p _ r hok hm

def nodeInlOKB (root : CTbl) (p : List Seg) : Bool :=
  match lookupTbl p root with
  | some (.val v) => inlOK v
  | _ => true

theorem nodeInlOKB_sound (root : CTbl) (p : List Seg) (h : nodeInlOKB root p = true) :
    ∀ n, lookupTbl p root = some n → NodeInlOK n := by
  intro n hn
  simp only [nodeInlOKB, hn] at h
  cases n with
  | val v => exact h
  | tbl _ => trivial
  | aot _ _ => trivial

/-- the hypotheses of `T08_refine_sort_sem` hold on the document `T08_sort_not_plain` uses (where
    the plain one-level `pSort` fails, `T08_sort_side_needed`) -/
example : (applyOp (stOf sortDocA) .sort [exSeg "t"]).isSome = true ∧
    ∀ n, lookupTbl [exSeg "t"] (stOf sortDocA).doc.root = some n → NodeInlOK n :=
  ⟨by decide +kernel, nodeInlOKB_sound _ _ (by decide +kernel)⟩

/-! ### histories -/

/-- the plain ordered tree of a state -/
def abs (st : St) : Plain := plainT st.doc.root

/-- the ops of a history the model applies, in order (the others are skipped) -/
def applied : St → List (Op × List Seg) → List (Op × List Seg)
  | _, [] => []
  | st, e :: es =>
    match applyOp st e.1 e.2 with
    | some st' => e :: applied st' es
    | none => applied st es

/-- the plain steps in sequence; fails when one of them fails -/
def prun : Plain → List (Op × List Seg) → Option Plain
  | x, [] => some x
  | x, e :: es => (plainStep e.1 e.2 x).bind fun x' => prun x' es

/-- the side condition of `sort` at every step of the history -/
def SortSideAll : St → List (Op × List Seg) → Prop
  | _, [] => True
  | st, e :: es => SortSide st e.1 e.2 ∧ SortSideAll (step st e) es

theorem run_cons (st : St) (e : Op × List Seg) (es : List (Op × List Seg)) :
    run st (e :: es) = run (step st e) es := by simp [run]

/-- skipped ops drop out of the history -/
theorem run_applied : ∀ (es : List (Op × List Seg)) (st : St), run st (applied st es) = run st es := by
  intro es
  induction es with
  | nil => intro st; rfl
  | cons e es ih =>
    intro st
    cases ha : applyOp st e.1 e.2 with
    | none =>
      have hs : step st e = st := by simp [step, ha]
      simp only [applied, ha, run_cons, hs]
      exact ih st
    | some st' =>
      have hs : step st e = st' := by simp [step, ha]
      simp only [applied, ha, run_cons, hs]
      exact ih st'

/-- **refinement, histories**: the plain steps of the ops the model applies, folded over the plain
    tree of the start state, succeed and give the plain tree of the final state -/
theorem T08_refine_history : ∀ (es : List (Op × List Seg)) (st : St), SortSideAll st es →
    prun (abs st) (applied st es) = some (abs (run st es)) := by
  intro es
  induction es with
  | nil => intro st _; rfl
  | cons e es ih =>
    intro st h
    cases ha : applyOp st e.1 e.2 with
    | none =>
      have hs : step st e = st := by simp [step, ha]
      have h2 := h.2
      rw [hs] at h2
      simp only [applied, ha, run_cons, hs]
      exact ih st h2
    | some st' =>
      have hs : step st e = st' := by simp [step, ha]
      have h2 := h.2
      rw [hs] at h2
      have h1 := T08_refine_all st st' e.1 e.2 ha h.1
      simp only [applied, ha, run_cons, hs, prun, abs, h1, Option.bind_some]
      exact ih st' h2

/-- the plain step with skipping -/
def pstep (x : Plain) (e : Op × List Seg) : Plain := (plainStep e.1 e.2 x).getD x

/-- wherever the model skips an op, the plain step fails too -/
def SkipAgree : St → List (Op × List Seg) → Prop
  | _, [] => True
  | st, e :: es => (applyOp st e.1 e.2 = none → plainStep e.1 e.2 (abs st) = none) ∧ SkipAgree (step st e) es

/-- the skipping fold of the plain steps over the whole history, when the skips agree -/
theorem T08_refine_history_skip : ∀ (es : List (Op × List Seg)) (st : St), SortSideAll st es →
    SkipAgree st es → es.foldl pstep (abs st) = abs (run st es) := by
  intro es
  induction es with
  | nil => intro st _ _; rfl
  | cons e es ih =>
    intro st h hk
    have e1 : pstep (abs st) e = abs (step st e) := by
      cases ha : applyOp st e.1 e.2 with
      | none => simp [pstep, hk.1 ha, step, ha]
      | some st' =>
        have h1 := T08_refine_all st st' e.1 e.2 ha h.1
        simp only [abs] at h1 ⊢
        simp [pstep, h1, step, ha]
    simp only [List.foldl_cons, run_cons, e1]
    exact ih (step st e) h.2 hk.2

/-- `[[t]]⏎x = 1⏎` -/
def skipDoc : Bytes := strBytes "[[t]]\nx = 1\n"

/-- **skips do not agree in general**: `Array::push` at an array of tables is skipped by the model
    (an `ArrayOfTables` is not an `Array`), while the plain tree has one kind of array and `pPush`
    applies -/
theorem skip_not_plain :
    applyOp (stOf skipDoc) (.push (.int 1)) [exSeg "t"] = none ∧
    (plainStep (.push (.int 1)) [exSeg "t"] (abs (stOf skipDoc))).isSome = true := by
  refine ⟨?_, by decide +kernel⟩
  have : (applyOp (stOf skipDoc) (.push (.int 1)) [exSeg "t"]).isSome = false := by decide +kernel
  cases h : applyOp (stOf skipDoc) (.push (.int 1)) [exSeg "t"] with
  | none => rfl
  | some x => simp [h] at this

/-! ### print level: the line of an untouched entry -/

/-- the key/value entry at path `q`: the stored key of the last segment and the value -/
def entryAt (root : CTbl) (q : List Seg) : Option (CKey × CVal) :=
  match lookupKTbl none q root with
  | some (some k, .val v) => some (k, v)
  | _ => none

/-- the value of `entryAt` is the node `lookupTbl` (the lookup of `T08_history`) finds -/
theorem entryAt_lookup (root : CTbl) (q : List Seg) (k : CKey) (v : CVal) (h : entryAt root q = some (k, v)) :
    lookupTbl q root = some (.val v) := by
  unfold entryAt at h
  have e := lookupKTbl_snd none q root
  split at h
  · rename_i k' v' hl
    simp only [Option.some.injEq, Prod.mk.injEq] at h
    rw [hl] at e
    simp only [Option.map_some] at e
    rw [← e, h.2]
  · cases h

/-- the line `visit_table` prints for a key/value pair (`encodeBody`): key path with its decor
    (default `""`, `" "`), `=`, value with its decor (default `" "`, `""`), newline -/
def encodeLine (inp : Bytes) (k : CKey) (v : CVal) : Bytes :=
  encodeKeyPath stripCr inp [k] [] [0x20] ++ [0x3D] ++ encodeValue stripCr inp v [0x20] [] ++ [0x0A]

/-- the printed line of the key/value entry at path `q`; `none` when `q` does not lead to one -/
def encodeItemAt (inp : Bytes) (doc : CDoc) (q : List Seg) : Option Bytes :=
  (entryAt doc.root q).map fun kv => encodeLine inp kv.1 kv.2

/-- every span recorded in the entry at `q` (key repr, key decor, value reprs and decor, nested
    keys) ends inside the arena — what `T14_bounds_statement` says of a parsed document -/
def EntrySpansIn (st : St) (q : List Seg) : Prop :=
  ∀ k v, entryAt st.doc.root q = some (k, v) → EndsIn st.inp.length (keySpans k ++ valSpans v)

/-- the frame of Props/C08.lean for the lookup that also returns the stored key -/
theorem untouched_stepK (st : St) (e : Op × List Seg) (q : List Seg) (hq : Untouched q e) (ck : Option CKey) :
    lookupKTbl ck q (step st e).doc.root = lookupKTbl ck q st.doc.root := by
  unfold step
  cases h : applyOp st e.1 e.2 with
  | none => rfl
  | some st' =>
    obtain ⟨op, p⟩ := e
    have hp : Diverge p q := hq p (by cases op <;> simp [touches])
    simp only [Option.getD_some]
    simp only at h
    unfold applyOp at h
    cases op with
    | mv k p2 =>
      have hp2 : Diverge p2 q := hq p2 (by simp [touches])
      obtain ⟨r, hm, rfl⟩ := Option.map_eq_some_iff.mp h
      unfold mvTree at hm
      split at hm
      · cases hm
      · split at hm
        · cases hm
        · rename_i r1 h1
          show lookupKTbl ck q r = _
          rw [kframe_tbl _ p2 r1 r hm q hp2, kframe_tbl _ p st.doc.root r1 h1 q hp]
    | tpush =>
      obtain ⟨x, hm, rfl⟩ := Option.map_eq_some_iff.mp h
      unfold tpushUpd at hm
      split at hm
      · obtain ⟨r, hu, rfl⟩ := Option.map_eq_some_iff.mp hm
        exact kframe_tbl _ p _ r hu q hp ck
      · cases hm
    | set k v | del k | newt k | viv k1 k2 v | sort | fmt | push v | ains i v | arepl i v | adel i
    | tdel i | inl k | tbl k | aot2arr k | arr2aot k =>
      obtain ⟨r, hm, rfl⟩ := Option.map_eq_some_iff.mp h
      exact kframe_tbl _ p _ r hm q hp ck

/-- **frame with keys, op sequences**: an entry every op leaves alone keeps its stored key (repr,
    leaf and dotted decor) and its decorated value -/
theorem T08_history_entry (es : List (Op × List Seg)) : ∀ (st : St) (q : List Seg),
    (∀ e ∈ es, Untouched q e) → entryAt (run st es).doc.root q = entryAt st.doc.root q := by
  induction es with
  | nil => intro st q _; rfl
  | cons e es ih =>
    intro st q h
    have h1 := untouched_stepK st e q (h e (by simp)) none
    have h2 := ih (step st e) q (fun e' he' => h e' (by simp [he']))
    rw [run_cons, h2]
    unfold entryAt
    rw [h1]

/-- key text and value text of an untouched entry, for every decor transformation and default decor -/
theorem T08_print_untouched_parts (es : List (Op × List Seg)) (st : St) (q : List Seg)
    (hq : ∀ e ∈ es, Untouched q e) (k : CKey) (v : CVal) (he : entryAt st.doc.root q = some (k, v))
    (hs : EndsIn st.inp.length (keySpans k ++ valSpans v)) (f : Bytes → Bytes) (dp ds : Bytes) :
    entryAt (run st es).doc.root q = some (k, v) ∧
    encodeKeyPath f (run st es).inp [k] dp ds = encodeKeyPath f st.inp [k] dp ds ∧
    encodeValue f (run st es).inp v dp ds = encodeValue f st.inp v dp ds := by
  obtain ⟨x, hx⟩ := T08_arena es st
  simp only [endsIn_append] at hs
  refine ⟨(T08_history_entry es st q hq).trans he, ?_, ?_⟩
  · rw [hx]
    exact encodeKeyPath_app f st.inp x [k] dp ds (by simp [keysSpans, hs.1])
  · rw [hx]
    exact encodeValue_app f st.inp x v dp ds hs.2

/-- **print-level frame**: the printed line of a key/value entry whose path diverges from every
    edit path — key repr, key decor, `=`, value repr, value decor with its comment — is the same
    byte string before and after the history (and the entry is present after iff it was before) -/
theorem T08_print_untouched (es : List (Op × List Seg)) (st : St) (q : List Seg)
    (hq : ∀ e ∈ es, Untouched q e) (hs : EntrySpansIn st q) :
    encodeItemAt (run st es).inp (run st es).doc q = encodeItemAt st.inp st.doc q := by
  unfold encodeItemAt
  rw [T08_history_entry es st q hq]
  cases he : entryAt st.doc.root q with
  | none => rfl
  | some kv =>
    obtain ⟨k, v⟩ := kv
    have hb := hs k v he
    obtain ⟨_, h1, _⟩ := T08_print_untouched_parts es st q hq k v he hb stripCr [] [0x20]
    obtain ⟨_, _, h2⟩ := T08_print_untouched_parts es st q hq k v he hb stripCr [0x20] []
    simp only [Option.map_some, encodeLine, h1, h2]

/-- every span recorded in the document ends inside the arena (for a freshly parsed document this
    is `T14_bounds_statement`, Props/C14.lean) -/
def DocSpansIn (st : St) : Prop := EndsIn st.inp.length (tblSpans st.doc.root)

theorem entrySpansIn_of_doc (st : St) (h : DocSpansIn st) (q : List Seg) : EntrySpansIn st q := by
  intro k v he
  unfold entryAt at he
  split at he
  · rename_i k' v' hl
    simp only [Option.some.injEq, Prod.mk.injEq] at he
    obtain ⟨rfl, rfl⟩ := he
    have := spansK_tbl none q st.doc.root _ hl (by simp [okeySpans]) h
    simpa [knodeSpans, okeySpans, nodeSpans] using this
  · cases he

/-- `T08_print_untouched` for a document whose spans are inside its arena -/
theorem T08_print_untouched_doc (es : List (Op × List Seg)) (st : St) (q : List Seg)
    (hq : ∀ e ∈ es, Untouched q e) (hs : DocSpansIn st) :
    encodeItemAt (run st es).inp (run st es).doc q = encodeItemAt st.inp st.doc q :=
  T08_print_untouched es st q hq (entrySpansIn_of_doc st hs q)

/-! ### decidable forms of the hypotheses -/

def untouchedB (q : List Seg) (e : Op × List Seg) : Bool := (touches e).all fun x => divergeB x q

theorem untouchedB_sound (q : List Seg) (e : Op × List Seg) (h : untouchedB q e = true) : Untouched q e := by
  intro x hx
  simp only [untouchedB, List.all_eq_true] at h
  exact divergeB_sound x q (h x hx)

theorem untouched_all (q : List Seg) (es : List (Op × List Seg)) (h : es.all (untouchedB q) = true) :
    ∀ e ∈ es, Untouched q e := by
  intro e he
  simp only [List.all_eq_true] at h
  exact untouchedB_sound q e (h e he)

def docSpansInB (st : St) : Bool := (tblSpans st.doc.root).all fun sp => decide (sp.2 ≤ st.inp.length)

theorem docSpansInB_sound (st : St) (h : docSpansInB st = true) : DocSpansIn st := by
  intro sp hs
  simp only [docSpansInB, List.all_eq_true, decide_eq_true_eq] at h
  exact h sp hs

/-- the node a `sort` works at has no dotted sub-table -/
def sortSideB (st : St) (op : Op) (p : List Seg) : Bool :=
  match op with
  | .sort =>
    match lookupTbl p st.doc.root with
    | some (.tbl t) => noDottedItems t.items
    | some (.val (.inl items _ _ _ _ _)) => noDottedKvs items
    | _ => true
  | _ => true

theorem sortSideB_sound (st : St) (op : Op) (p : List Seg) (h : sortSideB st op p = true) : SortSide st op p := by
  intro e n hn
  subst e
  apply sortFlat_of_noDotted
  simp only [sortSideB, hn] at h
  cases n with
  | tbl t => exact h
  | val v =>
    cases v with
    | inl items _ _ _ _ _ => exact h
    | scalar _ _ _ => trivial
    | arr _ _ _ _ _ => trivial
  | aot _ _ => trivial

def sortSideAllB : St → List (Op × List Seg) → Bool
  | _, [] => true
  | st, e :: es => sortSideB st e.1 e.2 && sortSideAllB (step st e) es

theorem sortSideAllB_sound : ∀ (es : List (Op × List Seg)) (st : St), sortSideAllB st es = true → SortSideAll st es
  | [], _, _ => trivial
  | e :: es, st, h => by
    simp only [sortSideAllB, Bool.and_eq_true] at h
    exact ⟨sortSideB_sound st e.1 e.2 h.1, sortSideAllB_sound es (step st e) h.2⟩

/-! ### non-vacuity: a document with comments and a history using the four new ops -/

def ixSeg (i : Nat) : Seg := { key := none, idx := some i }

/-- ```
    # config
    name = "n"
    title = "x" # the title

    [srv] # server
    port = 80 # the port
    tags = ["a", "b"]
    pts = [{x = 1}, {x = 2}]

    [[job]]
    id = "j1"
    ``` -/
def exDoc2 : Bytes := strBytes
  "# config\nname = \"n\"\ntitle = \"x\" # the title\n\n[srv] # server\nport = 80 # the port\ntags = [\"a\", \"b\"]\npts = [{x = 1}, {x = 2}]\n\n[[job]]\nid = \"j1\"\n"

/-- `set`, `push`, a skipped `push` (at an array of tables), `viv`, `tpush`, `mv`, `arr2aot`, `sort` -/
def exHist : List (Op × List Seg) :=
  [(.set (strBytes "host") (.str (strBytes "h")), [exSeg "srv"]),
   (.push (.str (strBytes "c")), [exSeg "srv", exSeg "tags"]),
   (.push (.int 1), [exSeg "job"]),
   (.viv (strBytes "meta") (strBytes "ver") (.int 1), [exSeg "srv"]),
   (.tpush, [exSeg "job"]),
   (.mv (strBytes "port") [exSeg "job", ixSeg 0], [exSeg "srv"]),
   (.arr2aot (strBytes "pts"), [exSeg "srv"]),
   (.sort, [exSeg "srv"])]

example : (start exDoc2).isSome = true := by decide +kernel

/-- seven of the eight ops apply (the `push` at `job` is skipped) -/
example : (applied (stOf exDoc2) exHist).length = 7 := by decide +kernel

/-- each of the four new ops applies in the history (hypothesis of the single-op theorems) -/
example : (applyOp (stOf exDoc2) (.viv (strBytes "meta") (strBytes "ver") (.int 1)) [exSeg "srv"]).isSome = true
    ∧ (applyOp (stOf exDoc2) (.mv (strBytes "port") [exSeg "job", ixSeg 0]) [exSeg "srv"]).isSome = true
    ∧ (applyOp (stOf exDoc2) (.arr2aot (strBytes "pts")) [exSeg "srv"]).isSome = true
    ∧ (applyOp (stOf exDoc2) .sort [exSeg "srv"]).isSome = true := by decide +kernel

/-- the side condition of `sort` holds along the history -/
theorem exHist_sortSide : SortSideAll (stOf exDoc2) exHist := sortSideAllB_sound _ _ (by decide +kernel)

/-- `T08_refine_history` on the example -/
example : prun (abs (stOf exDoc2)) (applied (stOf exDoc2) exHist) = some (abs (run (stOf exDoc2) exHist)) :=
  T08_refine_history exHist (stOf exDoc2) exHist_sortSide

/-- the skipping fold does *not* give the plain tree of the final state here (its hypothesis
    `SkipAgree` fails at the skipped `push`) -/
example : isSomeOf (some (exHist.foldl pstep (abs (stOf exDoc2)))) (abs (run (stOf exDoc2) exHist)) = false := by
  decide +kernel

def skipAgreeB : St → List (Op × List Seg) → Bool
  | _, [] => true
  | st, e :: es =>
    ((applyOp st e.1 e.2).isSome || (plainStep e.1 e.2 (abs st)).isNone) && skipAgreeB (step st e) es

theorem skipAgreeB_sound : ∀ (es : List (Op × List Seg)) (st : St), skipAgreeB st es = true → SkipAgree st es
  | [], _, _ => trivial
  | e :: es, st, h => by
    simp only [skipAgreeB, Bool.and_eq_true, Bool.or_eq_true, Option.isNone_iff_eq_none] at h
    refine ⟨fun hn => ?_, skipAgreeB_sound es (step st e) h.2⟩
    rcases h.1 with h1 | h1
    · simp [hn] at h1
    · exact h1

/-- the applied ops of `exHist` and a `del` of an absent key, which both sides skip -/
def exHistOk : List (Op × List Seg) :=
  (.del (strBytes "zz"), [exSeg "srv"]) :: applied (stOf exDoc2) exHist

/-- `T08_refine_history_skip` on the example: the skips agree -/
example : exHistOk.foldl pstep (abs (stOf exDoc2)) = abs (run (stOf exDoc2) exHistOk) :=
  T08_refine_history_skip exHistOk (stOf exDoc2) (sortSideAllB_sound _ _ (by decide +kernel))
    (skipAgreeB_sound _ _ (by decide +kernel))

example : (applyOp (stOf exDoc2) (.del (strBytes "zz")) [exSeg "srv"]).isSome = false := by decide +kernel

/-- the history leaves `title` alone, and the spans of the parsed document are inside the input -/
theorem exHist_untouched : ∀ e ∈ exHist, Untouched [exSeg "title"] e := untouched_all _ _ (by decide +kernel)

theorem exDoc2_spans : DocSpansIn (stOf exDoc2) := docSpansInB_sound _ (by decide +kernel)

/-- `T08_print_untouched` on the example, and the line it speaks about (with its comment) -/
example : encodeItemAt (run (stOf exDoc2) exHist).inp (run (stOf exDoc2) exHist).doc [exSeg "title"]
    = encodeItemAt (stOf exDoc2).inp (stOf exDoc2).doc [exSeg "title"] :=
  T08_print_untouched_doc exHist (stOf exDoc2) [exSeg "title"] exHist_untouched exDoc2_spans

example : encodeItemAt (stOf exDoc2).inp (stOf exDoc2).doc [exSeg "title"]
    = some (strBytes "title = \"x\" # the title\n") := by decide +kernel

/-- the whole edited document: comments and untouched lines in place; the moved entry took its
    comment along -/
example : Edit.print (run (stOf exDoc2) exHist) = strBytes
    "# config\nname = \"n\"\ntitle = \"x\" # the title\n\n[srv] # server\nhost = \"h\"\nmeta = { ver = 1 }\ntags = [\"a\", \"b\", \"c\"]\n\n[[srv.pts ]]\nx = 1\n\n[[srv.pts ]]\nx = 2\n\n[[job]]\nid = \"j1\"\nport = 80 # the port\n\n[[job]]\nn = 1\n" := by
  decide +kernel

/-- `T08_refine_single` has instances: e.g. `viv` and `arr2aot` -/
example : (Op.viv (strBytes "a") (strBytes "b") (.int 1)) ≠ .sort ∧
    ∀ k p2, (Op.viv (strBytes "a") (strBytes "b") (.int 1)) ≠ .mv k p2 := ⟨by simp, by simp⟩

end TomlVerif.Props.C08
