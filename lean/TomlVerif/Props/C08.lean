import TomlVerif.Model.Edit
import TomlVerif.Lemmas.Edit08
import TomlVerif.Lemmas.RefineOps08
/-! C08 — structural edits: frame property (untouched entries keep their decorated subtree and
    their source text), lifted to op sequences. The refinement theorems (the ops commute with
    erasure to the semantic tree) are in the second half. -/
namespace TomlVerif.Props.C08
open TomlVerif TomlVerif.Model TomlVerif.Model.Cst TomlVerif.Model.Edit TomlVerif.Lemmas.Edit08
open TomlVerif.Lemmas.Refine08 TomlVerif.Lemmas.RefineOps08 TomlVerif.Spec.OrderedPlain

/-- the paths an op works at -/
def touches (e : Op × List Seg) : List (List Seg) :=
  match e.1 with
  | .mv _ p2 => [e.2, p2]
  | _ => [e.2]

/-- `q` leads to a node outside of everything the op works at -/
def Untouched (q : List Seg) (e : Op × List Seg) : Prop := ∀ x ∈ touches e, Diverge x q

/-- **frame, one op**: the decorated subtree at a path that diverges from the edit path(s) is the
    same before and after the op (all 17 ops, whatever they do at their own path) -/
theorem T08_untouched_step (st st' : St) (op : Op) (p q : List Seg)
    (h : applyOp st op p = some st') (hq : Untouched q (op, p)) :
    lookupTbl q st'.doc.root = lookupTbl q st.doc.root := by
  have hp : Diverge p q := hq p (by cases op <;> simp [touches])
  unfold applyOp at h
  cases op with
  | mv k p2 =>
    have hp2 : Diverge p2 q := hq p2 (by simp [touches])
    obtain ⟨r, hm, rfl⟩ := Option.map_eq_some_iff.mp h
    unfold mvTree at hm
    split at hm
    · cases hm
    · split at hm
      · cases hm
      · rename_i r1 h1
        show lookupTbl q r = _
        rw [frame_tbl _ p2 r1 r hm q hp2, frame_tbl _ p st.doc.root r1 h1 q hp]
  | tpush =>
    obtain ⟨x, hm, rfl⟩ := Option.map_eq_some_iff.mp h
    unfold tpushUpd at hm
    split at hm
    · obtain ⟨r, hu, rfl⟩ := Option.map_eq_some_iff.mp hm
      exact frame_tbl _ p _ r hu q hp
    · cases hm
  | set k v | del k | newt k | viv k1 k2 v | sort | fmt | push v | ains i v | arepl i v | adel i
  | tdel i | inl k | tbl k | aot2arr k | arr2aot k =>
    obtain ⟨r, hm, rfl⟩ := Option.map_eq_some_iff.mp h
    exact frame_tbl _ p _ r hm q hp

/-- a skipped op changes nothing; an applied one obeys the frame -/
theorem untouched_step' (st : St) (e : Op × List Seg) (q : List Seg) (hq : Untouched q e) :
    lookupTbl q (step st e).doc.root = lookupTbl q st.doc.root := by
  unfold step
  cases h : applyOp st e.1 e.2 with
  | none => rfl
  | some st' => exact T08_untouched_step st st' e.1 e.2 q h hq

/-- **frame, op sequences** (induction over the history): an entry that every op of the sequence
    leaves alone has the same decorated subtree — keys with their reprs and decor, values with
    their reprs and decor, comments and whitespace — after the whole sequence -/
theorem T08_history (es : List (Op × List Seg)) : ∀ (st : St) (q : List Seg),
    (∀ e ∈ es, Untouched q e) → lookupTbl q (run st es).doc.root = lookupTbl q st.doc.root := by
  induction es with
  | nil => intro st q _; rfl
  | cons e es ih =>
    intro st q h
    have h1 := untouched_step' st e q (h e (by simp))
    have h2 := ih (step st e) q (fun e' he' => h e' (by simp [he']))
    simp only [run, List.foldl_cons] at h2 ⊢
    exact h2.trans h1

/-! ### the source text of untouched entries -/

/-- the arena only grows: every string an op sequence creates is appended -/
theorem T08_arena (es : List (Op × List Seg)) : ∀ st : St, ∃ x, (run st es).inp = st.inp ++ x := by
  induction es with
  | nil => intro st; exact ⟨[], by simp [run]⟩
  | cons e es ih =>
    intro st
    obtain ⟨y, hy⟩ := ih (step st e)
    have h1 : ∃ x, (step st e).inp = st.inp ++ x := by
      unfold step
      cases h : applyOp st e.1 e.2 with
      | none => exact ⟨[], by simp⟩
      | some st' => exact applyOp_arena st st' e.1 e.2 h
    obtain ⟨x, hx⟩ := h1
    exact ⟨x ++ y, by simp only [run, List.foldl_cons] at hy ⊢; rw [hy, hx, List.append_assoc]⟩

/-- a span inside the old arena denotes the same text after any op sequence: together with
    `T08_history` (same decorated subtree, hence the same spans) the source text of an untouched
    entry — key spelling, value spelling, comments, whitespace — is unchanged -/
theorem T08_text_stable (es : List (Op × List Seg)) (st : St) (a b : Nat) (hb : b ≤ st.inp.length) :
    Encode.rawText (run st es).inp (.spanned a b) = Encode.rawText st.inp (.spanned a b) := by
  obtain ⟨x, hx⟩ := T08_arena es st
  simp only [Encode.rawText, hx]
  exact slice_append st.inp x a b hb

/-! ### refinement: the ops on the plain ordered tree -/

/-- the op on the plain ordered tree (`Spec/OrderedPlain.lean`), applied at the node the path leads
    to: insert appends or replaces in place, remove deletes in place, the array ops are the list
    ops, `fmt` and the conversions keep the content. `none`: not covered by `T08_refine`
    (`viv`, `sort`, `arr2aot`, `mv`). -/
def plainOp : Op → Option (Plain → Option Plain)
  | .set k v => some (pSet k (.scalar (leaf v)))
  | .del k => some (pDel k)
  | .newt k => some (pSet k (.tbl []))
  | .push v => some (pPush (.scalar (leaf v)))
  | .ains i v => some (pInsert i (.scalar (leaf v)))
  | .arepl i v => some (pReplace i (.scalar (leaf v)))
  | .adel i => some (pRemove i)
  | .tpush => some pTpush
  | .tdel i => some (pRemove i)
  | .fmt => some pId
  | .inl _ => some pId
  | .tbl _ => some pId
  | .aot2arr _ => some pId
  | _ => none

/-- **refinement**: whenever a model op applies, the plain ordered tree of the edited document is
    the plain op applied, at the same path, to the plain ordered tree of the document before —
    erasure (`toPlain ∘ eraseTbl`) commutes with the op -/
theorem T08_refine (st st' : St) (op : Op) (p : List Seg) (f : Plain → Option Plain)
    (hf : plainOp op = some f) (h : applyOp st op p = some st') :
    pupd f p (plainT st.doc.root) = some (plainT st'.doc.root) := by
  unfold applyOp at h
  cases op with
  | tpush =>
    simp only [plainOp, Option.some.injEq] at hf; subst hf
    obtain ⟨x, hm, rfl⟩ := Option.map_eq_some_iff.mp h
    unfold tpushUpd at hm
    split at hm
    · obtain ⟨r, hu, rfl⟩ := Option.map_eq_some_iff.mp hm
      exact refine_tbl (refines_tpush _ _) p _ r hu
    · cases hm
  | set k v =>
    simp only [plainOp, Option.some.injEq] at hf; subst hf
    obtain ⟨r, hm, rfl⟩ := Option.map_eq_some_iff.mp h
    exact refine_tbl (refines_set k v _) p _ r hm
  | del k =>
    simp only [plainOp, Option.some.injEq] at hf; subst hf
    obtain ⟨r, hm, rfl⟩ := Option.map_eq_some_iff.mp h
    exact refine_tbl (refines_del k _) p _ r hm
  | newt k =>
    simp only [plainOp, Option.some.injEq] at hf; subst hf
    obtain ⟨r, hm, rfl⟩ := Option.map_eq_some_iff.mp h
    exact refine_tbl (refines_newt k _) p _ r hm
  | push v =>
    simp only [plainOp, Option.some.injEq] at hf; subst hf
    obtain ⟨r, hm, rfl⟩ := Option.map_eq_some_iff.mp h
    exact refine_tbl (refines_push v _) p _ r hm
  | ains i v =>
    simp only [plainOp, Option.some.injEq] at hf; subst hf
    obtain ⟨r, hm, rfl⟩ := Option.map_eq_some_iff.mp h
    exact refine_tbl (refines_ains i v _) p _ r hm
  | arepl i v =>
    simp only [plainOp, Option.some.injEq] at hf; subst hf
    obtain ⟨r, hm, rfl⟩ := Option.map_eq_some_iff.mp h
    exact refine_tbl (refines_arepl i v _) p _ r hm
  | adel i =>
    simp only [plainOp, Option.some.injEq] at hf; subst hf
    obtain ⟨r, hm, rfl⟩ := Option.map_eq_some_iff.mp h
    exact refine_tbl (refines_adel i _) p _ r hm
  | tdel i =>
    simp only [plainOp, Option.some.injEq] at hf; subst hf
    obtain ⟨r, hm, rfl⟩ := Option.map_eq_some_iff.mp h
    exact refine_tbl (refines_tdel i _) p _ r hm
  | fmt =>
    simp only [plainOp, Option.some.injEq] at hf; subst hf
    obtain ⟨r, hm, rfl⟩ := Option.map_eq_some_iff.mp h
    exact refine_tbl (refines_fmt _) p _ r hm
  | inl k =>
    simp only [plainOp, Option.some.injEq] at hf; subst hf
    obtain ⟨r, hm, rfl⟩ := Option.map_eq_some_iff.mp h
    exact refine_tbl (refines_inl k _) p _ r hm
  | tbl k =>
    simp only [plainOp, Option.some.injEq] at hf; subst hf
    obtain ⟨r, hm, rfl⟩ := Option.map_eq_some_iff.mp h
    exact refine_tbl (refines_tbl k _) p _ r hm
  | aot2arr k =>
    simp only [plainOp, Option.some.injEq] at hf; subst hf
    obtain ⟨r, hm, rfl⟩ := Option.map_eq_some_iff.mp h
    exact refine_tbl (refines_aot2arr k _) p _ r hm
  | viv _ _ _ => simp [plainOp] at hf
  | sort => simp [plainOp] at hf
  | arr2aot _ => simp [plainOp] at hf
  | mv _ _ => simp [plainOp] at hf

/-- `fmt` and the conversions between inline and standard forms keep the decoded content:
    the plain ordered tree of the document is unchanged -/
theorem T08_refine_content_kept (st st' : St) (op : Op) (p : List Seg)
    (hop : plainOp op = some pId) (h : applyOp st op p = some st') :
    pupd pId p (plainT st.doc.root) = some (plainT st'.doc.root) :=
  T08_refine st st' op p pId hop h

/-- `Table::sort_values` at the semantic level: the entry list of the sorted table is the verified
    `sortByKey` (Props/C18) of the entry list with the dotted sub-tables sorted -/
theorem T08_refine_sort_entries (l : List (CKey × CItem)) :
    eraseItems (sortByCKey l) = sortByKey (eraseItems l) := erase_sortByCKey_items l

/-- the full refinement statement: every op (all 17) has a plain op. Proved for the 13 ops of
    `plainOp` (`T08_refine`); open for `viv`, `sort` (needs the `dotted` flags, which the plain tree
    does not have: the statement holds on the semantic tree, see `T08_refine_sort_entries`),
    `arr2aot` and `mv`.
    Settled in `Props/C08Full.lean`: this shape is FALSE (`T08_refine_full_false`: `sort` depends on
    the `dotted` flags, `mv` changes a second path); the corrected statement for all 17 ops is
    `T08_refine_all` (with `SortSide` for `sort`, `pMv` for `mv`), 15 ops have exactly this shape
    (`T08_refine_single`), `sort` is exact on the semantic tree (`T08_refine_sort_sem`), histories
    are `T08_refine_history`, and the print-level frame is `T08_print_untouched`. -/
def T08_refine_full : Prop :=
  ∀ op : Op, ∃ f : Plain → Option Plain, ∀ (st st' : St) (p : List Seg),
    applyOp st op p = some st' → pupd f p (plainT st.doc.root) = some (plainT st'.doc.root)

/-! ### non-vacuity -/

/-- `a = 1 # c⏎[t]⏎x = 2⏎` -/
def exDoc : Bytes := strBytes "a = 1 # c\n[t]\nx = 2\n"

def exSeg (s : String) : Seg := { key := some (strBytes s), idx := none }

/-- an op applies, and the path `a` diverges from the edit path `t` -/
example : ((start exDoc).bind fun st => applyOp st (.set (strBytes "y") (.int 5)) [exSeg "t"]).isSome = true := by
  decide +kernel

example : Diverge [exSeg "t"] [exSeg "a"] :=
  .here ⟨.inr (by decide +kernel), .inl rfl⟩

/-- the edited document prints with the comment of the untouched entry in place -/
example : ((start exDoc).bind fun st => (applyOp st (.set (strBytes "y") (.int 5)) [exSeg "t"]).map Edit.print)
    = some (strBytes "a = 1 # c\n[t]\nx = 2\ny = 5\n") := by
  decide +kernel

example : plainOp (.inl (strBytes "t")) = some pId := rfl

end TomlVerif.Props.C08
