import TomlVerif.Props.C15Located
/-! C15, second sentence: `T15_loc_elem_precise` for the other `visit_seq` targets — a TUPLE read from an array
    (`decodeLocTys`) and a derived STRUCT read from an array (`decodeLocFieldsSeq`): when the components before position i decode
    and component i fails, the error is the component's error with the COMPONENT's span filled in if it had none; its span lies
    inside the component's span, never at the enclosing array. -/
namespace TomlVerif.Props.C15Located
open TomlVerif TomlVerif.Model TomlVerif.Model.DeTyped TomlVerif.Model.Cst TomlVerif.Model.DeLocated
open TomlVerif.Lemmas.DeLocated15 TomlVerif.Lemmas.Cst03

/-- what `ArraySeqAccess::next_element_seed` returns for a failing element `x` with the span `a` -/
theorem elem_error_precise (fl : TomlValue.Flavour) (t : Ty) (x : SItem) (ex : LErr) (a : Span)
    (hx : decodeLoc fl t x = .error ex) (hsp : x.span = some a) (henc : Encl x) :
    ∃ sp, atSpan x.span (decodeLoc fl t x) = .error ⟨some sp, ex.keys⟩ ∧ a.1 ≤ sp.1 ∧ sp.2 ≤ a.2 ∧
      (ex.span = none → sp = a) ∧ (∀ s, ex.span = some s → sp = s) := by
  have hloc := loc_ty fl t x ex hx
  rw [hx, hsp]
  cases hs : ex.span with
  | none =>
    refine ⟨a, by simp [atSpan, hs], Nat.le_refl _, Nat.le_refl _, fun _ => rfl, ?_⟩
    intro s h; cases h
  | some s =>
    have hin : a.1 ≤ s.1 ∧ s.2 ≤ a.2 := by
      rcases loc_span_child hloc s hs with h | h
      · rw [hsp] at h; cases h; exact ⟨Nat.le_refl _, Nat.le_refl _⟩
      · exact henc a hsp s h
    refine ⟨s, ?_, hin.1, hin.2, ?_, ?_⟩
    · simp only [atSpan, hs, Option.isNone_some, Bool.false_eq_true, if_false]
      congr 1
      cases ex; simp_all
    · intro h; cases h
    · intro s' h; cases h; rfl

/-- component `x : t` is the first one of the tuple `ts` over the elements `l` that does not decode -/
inductive FirstFail (fl : TomlValue.Flavour) : Tys → List CItem → Ty → CItem → Prop where
  | here {t : Ty} {r : Tys} {x : CItem} {l : List CItem} : FirstFail fl (.cons t r) (x :: l) t x
  | later {t0 t : Ty} {r : Tys} {y x : CItem} {l : List CItem} {d : Dec} :
      decodeLoc fl t0 y = .ok d → FirstFail fl r l t x → FirstFail fl (.cons t0 r) (y :: l) t x

theorem tys_first_error (fl : TomlValue.Flavour) {ts : Tys} {l : List CItem} {t : Ty} {x : CItem} (h : FirstFail fl ts l t x)
    (e : LErr) (he : atSpan x.span (decodeLoc fl t x) = .error e) : decodeLocTys fl ts l = .error e := by
  induction h with
  | here => unfold decodeLocTys; rw [he]; rfl
  | later hd _ ih => unfold decodeLocTys; rw [hd, ih he]; rfl

/-- T15_loc_tuple_precise: a tuple `(T0, …)` read from an array whose component `x : t` — after components that decode —
fails: the tuple's error is the component's error with the COMPONENT's span filled in if it had none; its span lies inside
the span of `x` (never the enclosing array's), the keys are the component's. -/
theorem T15_loc_tuple_precise (fl : TomlValue.Flavour) (ts : Tys) (t : Ty) (it x : SItem) (l : List SItem) (ex : LErr) (a : Span)
    (hl : citemElems it = some l) (hf : FirstFail fl ts l t x)
    (hx : decodeLoc fl t x = .error ex) (hsp : x.span = some a) (henc : Encl x) :
    ∃ sp, decodeLoc fl (.tuple ts) it = .error ⟨some sp, ex.keys⟩ ∧ a.1 ≤ sp.1 ∧ sp.2 ≤ a.2 ∧
      (ex.span = none → sp = a) ∧ (∀ s, ex.span = some s → sp = s) := by
  obtain ⟨sp, herr, h1, h2, h3, h4⟩ := elem_error_precise fl t x ex a hx hsp henc
  refine ⟨sp, ?_, h1, h2, h3, h4⟩
  have hm := tys_first_error fl hf _ herr
  unfold decodeLoc
  rw [hl]
  simp only [hm]
  rfl

/-- field `x : t` is the first one of the struct `fs` over the elements `l` that does not decode -/
inductive FirstFailF (fl : TomlValue.Flavour) : Fields → List CItem → Ty → CItem → Prop where
  | here {n : Bytes} {t : Ty} {d : Bool} {r : Fields} {x : CItem} {l : List CItem} : FirstFailF fl (.cons n t d r) (x :: l) t x
  | later {n : Bytes} {t0 t : Ty} {df : Bool} {r : Fields} {y x : CItem} {l : List CItem} {d : Dec} :
      decodeLoc fl t0 y = .ok d → FirstFailF fl r l t x → FirstFailF fl (.cons n t0 df r) (y :: l) t x

theorem fseq_first_error (fl : TomlValue.Flavour) {fs : Fields} {l : List CItem} {t : Ty} {x : CItem}
    (h : FirstFailF fl fs l t x) (e : LErr) (he : atSpan x.span (decodeLoc fl t x) = .error e) :
    decodeLocFieldsSeq fl fs l = .error e := by
  induction h with
  | here => unfold decodeLocFieldsSeq; rw [he]; rfl
  | later hd _ ih => unfold decodeLocFieldsSeq; rw [hd, ih he]; rfl

/-- T15_loc_struct_seq_precise: the same for a derived struct read from an array (`visit_seq`), provided the item is not
also read as a map (`locMapEntries it = none`: it is an array, not a table or a date-time). -/
theorem T15_loc_struct_seq_precise (fl : TomlValue.Flavour) (fs : Fields) (t : Ty) (it x : SItem) (l : List SItem) (ex : LErr)
    (a : Span) (hm0 : locMapEntries it = none) (hl : citemElems it = some l) (hf : FirstFailF fl fs l t x)
    (hx : decodeLoc fl t x = .error ex) (hsp : x.span = some a) (henc : Encl x) :
    ∃ sp, decodeLoc fl (.struct fs) it = .error ⟨some sp, ex.keys⟩ ∧ a.1 ≤ sp.1 ∧ sp.2 ≤ a.2 ∧
      (ex.span = none → sp = a) ∧ (∀ s, ex.span = some s → sp = s) := by
  obtain ⟨sp, herr, h1, h2, h3, h4⟩ := elem_error_precise fl t x ex a hx hsp henc
  refine ⟨sp, ?_, h1, h2, h3, h4⟩
  have hm := fseq_first_error fl hf _ herr
  unfold decodeLoc
  rw [hm0, hl]
  simp only [hm]
  rfl

/-! ## non-vacuity: `a = [1, 1979-05-27]` into `struct { a: (i64, Time) }`: the second component's span 8..18 -/

def exTupleText : Bytes :=
  [0x61, 0x20, 0x3d, 0x20, 0x5b, 0x31, 0x2c, 0x20, 0x31, 0x39, 0x37, 0x39, 0x2d, 0x30, 0x35, 0x2d, 0x32, 0x37, 0x5d, 0x0a]
example : (parseCst exTupleText).map (fun d =>
      errOf (decodeLoc .sorted (.struct (.cons [0x61] (.tuple (.cons (.int (-9223372036854775808) 9223372036854775807)
        (.cons .time .nil))) false .nil)) (.table d.root))) =
    some (some ⟨some (8, 18), [[0x61]]⟩) := by decide +kernel

end TomlVerif.Props.C15Located
