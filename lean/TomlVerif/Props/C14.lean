import TomlVerif.Lemmas.Cst03
/-! C14 — spans point at exactly the source text of each item. -/
namespace TomlVerif.Props.C14
open TomlVerif TomlVerif.Model TomlVerif.Model.Cst TomlVerif.Model.Encode TomlVerif.Lemmas.Cst03

/-- every span recorded in a parsed document (keys, reprs, decor, `trailing`, `preamble`, table and
    array-of-tables spans) -/
def allSpans (d : CDoc) : List (Nat × Nat) := TomlVerif.Lemmas.Cst03.allSpans d

/-- T14_bounds, full strength (document level). Proved as `T14_bounds : T14_bounds_statement` in
    `Props/C14Doc.lean`, together with the value-level bounds and nesting for ALL values
    (`T14_value_bounds`, `T14_value_nesting`, `T14_doc_nesting`). -/
def T14_bounds_statement : Prop :=
  ∀ (s : Bytes) (d : CDoc), parseCst s = some d → ∀ sp ∈ allSpans d, sp.1 ≤ sp.2 ∧ sp.2 ≤ s.length

/-- T14_bounds (proved part, value level): every span recorded for a value built from scalars and
    arrays satisfies `start ≤ end ≤ input length`. -/
theorem T14_bounds_partial (s : Bytes) (v : CVal) (h : parseCstValue s = some v)
    (hflat : flatVal v = true) : ∀ sp ∈ valSpans v, sp.1 ≤ sp.2 ∧ sp.2 ≤ s.length := by
  unfold parseCstValue at h
  split at h
  · rename_i v0 hv
    injection h with h; subst h
    obtain ⟨t, ht, _, _, htile⟩ := cvalue_tiling s _ 0 s [] v0 (List.suffix_refl s) hv
    intro sp hm
    have := (htile hflat).1 sp hm
    unfold Within at this
    simp [pos] at this
    omega
  · cases h

/-- T14_value_span: the span of an accepted value (a value parsed alone) is the whole text, and the
    text of a scalar's span is its repr: spans point at exactly the source text. -/
theorem T14_value_consumed (inp : Bytes) (fuel d : Nat) (s r : Bytes) (v : CVal) (hs : s <:+ inp)
    (h : cvalue inp.length fuel d s = .ok v r) (hflat : flatVal v = true) :
    ∃ t, s = t ++ r ∧ encodeValue id inp v [] [] = t :=
  let ⟨t, ht, _, _, htile⟩ := cvalue_tiling inp fuel d s r v hs h
  ⟨t, ht, (htile hflat).2 [] []⟩

/-- `[1, [ 2]]` -/
def exNested : Bytes := [0x5B, 0x31, 0x2C, 0x20, 0x5B, 0x20, 0x32, 0x5D, 0x5D]

example : (parseCstValue exNested).isSome = true ∧ (parseCstValue exNested).map flatVal = some true ∧
    (parseCstValue exNested).map valSpans = some [(1, 2), (6, 7), (5, 6), (3, 4), (4, 8), (0, 9)] := by decide +kernel

end TomlVerif.Props.C14
