import TomlVerif.Lemmas.DefRules09
/-! # C09 (equivalence) — the table-building state machine accepts exactly what the definition rules permit

`Spec/DefRules.lean` is an independent formulation of the definition rules of TOML 1.0.0 (a flat map
from effective paths to kinds, judged per statement as `valid | invalid | undecided`, the last being
class U1). `Model/State.lean` is the transliteration of the parser's state machine (a tree with
`implicit` / `dotted` flags, the open section kept apart from the finalized part).

For **every** list of statements (`kv` with dotted keys of any length, `[table]` and `[[array]]`
headers):

* whatever the state machine accepts is not `invalid` under the rules (`T09_equiv_sound`);
* whatever the rules judge `valid` is accepted (`T09_equiv_complete`);
* hence outside U1 the two agree exactly (`T09_equiv_iff`).

The proof is a simulation: `Lemmas.DefRules09.R` relates a `ParseState` to a `DState`; it holds
initially (`R_init`), every statement judged `valid` is accepted and keeps it, every statement judged
`invalid` is rejected (`step_sim`).

On U1 (a dotted key passing through a table that exists only as the by-product of a longer header) the
state machine does **not** always reject, see `T09_u1_not_always_rejected`. -/
namespace TomlVerif.Props.C09Equiv
open TomlVerif TomlVerif.Model TomlVerif.Model.State TomlVerif.Lemmas.State09 TomlVerif.Spec.DefRules
open TomlVerif.Lemmas.DefRules09

/-- for the examples: `a`, `b`, `c`, `x`, `y` -/
def ka : Bytes := [97]
def kb : Bytes := [98]
def kc : Bytes := [99]
def kx : Bytes := [120]
def ky : Bytes := [121]

/-- `x = 1`, `[a.b]`, `x = 1`, `p.q.x = 1`, `p.q.y = 2`, `[[c]]`, `y = 2`, `[a]`, `y = 2`, `[[c]]`, `y = 3`, `[c.b]`, `[a.b.p.z]` -/
def exDoc : List Stmt :=
  [.kv [] kx (.int 1), .std [ka, kb], .kv [] kx (.int 1), .kv [[112], [113]] kx (.int 1), .kv [[112], [113]] ky (.int 2),
   .arr [kc], .kv [] ky (.int 2), .std [ka], .kv [] ky (.int 2), .arr [kc], .kv [] ky (.int 3), .std [kc, kb],
   .std [ka, kb, [112], [122]]]

/-! ## the simulation, one statement at a time -/

/-- the relation holds between the two initial states -/
theorem T09_equiv_init : R {} {} := R_init

/-- a statement the rules judge `valid` is accepted by the state machine, and the relation is kept;
    a statement the rules judge `invalid` is rejected -/
theorem T09_equiv_step (st : ParseState) (ds : DState) (s : Stmt) (h : R st ds) :
    (∀ ds', dstep ds s = (.valid, ds') → ∃ st1, step st s = some st1 ∧ R st1 ds') ∧
    (∀ ds', dstep ds s = (.invalid, ds') → step st s = none) :=
  step_sim st ds s h

/-- non-vacuity: both kinds of verdict occur from the initial state -/
example : (dstep {} (.kv [ka] kx (.int 1))).1 = .valid ∧ (dstep {} (.std [])).1 = .invalid := by decide

/-! ## whole statement lists -/

/-- everything the state machine accepts is permitted by the rules, or left undecided by them -/
theorem T09_equiv_sound (stmts : List Stmt) (h : (run {} stmts).isSome) : drun stmts ≠ .invalid :=
  (run_sim stmts {} {} R_init).2 h

example : (run {} exDoc).isSome = true ∧ drun exDoc = .valid := by decide

/-- every combination of statements the rules permit is accepted by the state machine -/
theorem T09_equiv_complete (stmts : List Stmt) (h : drun stmts = .valid) : (run {} stmts).isSome :=
  (run_sim stmts {} {} R_init).1 h

example : drun exDoc = .valid := by decide

/-- outside class U1 the state machine accepts exactly the statement lists the rules judge valid -/
theorem T09_equiv_iff (stmts : List Stmt) (h : drun stmts ≠ .undecided) :
    (run {} stmts).isSome ↔ drun stmts = .valid := by
  refine ⟨fun ha => ?_, T09_equiv_complete stmts⟩
  have := T09_equiv_sound stmts ha
  cases hd : drun stmts with
  | valid => rfl
  | invalid => exact absurd hd this
  | undecided => exact absurd hd h

/-- non-vacuity: decided both ways -/
example : drun exDoc ≠ .undecided ∧ drun [.std [ka], .std [ka]] = .invalid ∧
    (run {} [.std [ka], .std [ka]]).isSome = false := by decide

/-- every rejection by the state machine is either `invalid` under the rules or in U1 -/
theorem T09_equiv_rejected (stmts : List Stmt) (h : (run {} stmts).isSome = false) :
    drun stmts = .invalid ∨ drun stmts = .undecided := by
  cases hd : drun stmts with
  | valid => have := T09_equiv_complete stmts hd; rw [h] at this; cases this
  | invalid => exact Or.inl rfl
  | undecided => exact Or.inr rfl

example : (run {} [.arr [ka], .kv [ka] kx (.int 1), .std [ka, kb], .std [ka]]).isSome = false := by decide

/-! ## the stages of the proof, as corollaries -/

/-- stage 1: only bare keys and `[table]` headers -/
def stage1 : List Stmt → Bool
  | [] => true
  | .kv p _ _ :: r => p.isEmpty && stage1 r
  | .std _ :: r => stage1 r
  | .arr _ :: _ => false

/-- stage 2: no `[[array]]` headers -/
def noAot : List Stmt → Bool
  | [] => true
  | .arr _ :: _ => false
  | _ :: r => noAot r

theorem T09_equiv_stage1 (stmts : List Stmt) (_ : stage1 stmts) :
    ((run {} stmts).isSome → drun stmts ≠ .invalid) ∧ (drun stmts = .valid → (run {} stmts).isSome) :=
  ⟨T09_equiv_sound stmts, T09_equiv_complete stmts⟩

theorem T09_equiv_stage2 (stmts : List Stmt) (_ : noAot stmts) :
    ((run {} stmts).isSome → drun stmts ≠ .invalid) ∧ (drun stmts = .valid → (run {} stmts).isSome) :=
  ⟨T09_equiv_sound stmts, T09_equiv_complete stmts⟩

example : stage1 [.std [ka, kb], .kv [] kx (.int 1), .std [ka]] = true ∧
    noAot [.std [ka, kb], .kv [kc] kx (.int 1), .std [ka]] = true := by decide

/-! ## class U1 -/

/-- the statement one might expect: the state machine rejects every U1 list -/
def U1Rejected : Prop := ∀ stmts : List Stmt, drun stmts = .undecided → (run {} stmts).isSome = false

/-- `[a.a.a]`, `[a]`, `a.b.x = 1`: the dotted key passes through `a.a`, which exists only because of
    the header `[a.a.a]` (U1), and defines the new dotted table `a.a.b`. The state machine accepts:
    it only refuses a dotted key whose *last* table is a header-implicit one. -/
def exU1Accepted : List Stmt := [.std [ka, ka, ka], .std [ka], .kv [ka, kb] kx (.int 1)]

/-- `[a.a.a]`, `[a]`, `a.x = 1`: the dotted key adds a value directly to the header-implicit `a.a`. -/
def exU1Rejected : List Stmt := [.std [ka, ka, ka], .std [ka], .kv [ka] kx (.int 1)]

/-- the state machine does not reject all of U1 -/
theorem T09_u1_not_always_rejected : ¬ U1Rejected := by
  intro h
  have := h exU1Accepted (by decide)
  revert this
  decide

example : drun exU1Accepted = .undecided ∧ (run {} exU1Accepted).isSome = true ∧
    drun exU1Rejected = .undecided ∧ (run {} exU1Rejected).isSome = false := by decide


/-- what the state machine does refuse in U1: after any prefix `s1` judged valid, a dotted key
    `p.k.key = v` whose prefix `p` is fine (absent tables, or dotted tables of the current section) and
    whose last table `p.k` exists only as the by-product of a longer header. The rules leave it
    undecided, the state machine rejects it. -/
theorem T09_u1_direct_rejected (s1 : List Stmt) (ds : DState) (p : List Bytes) (k key : Bytes) (v : Val)
    (K' : KMap) (e : EPath) (hs : dstateFrom {} s1 = some ds)
    (hw : kwalk ds.sid ds.kinds ds.sect p = (.valid, K', e))
    (hk : kget K' (e ++ [.name k]) = some .implicit) :
    drun (s1 ++ [.kv (p ++ [k]) key v]) = .undecided ∧ (run {} (s1 ++ [.kv (p ++ [k]) key v])).isSome = false := by
  obtain ⟨st, hr, hR⟩ := run_R s1 {} {} ds R_init hs
  obtain ⟨h1, h2⟩ := u1_direct st ds p k key v hR K' e hw hk
  refine ⟨?_, ?_⟩
  · unfold drun
    rw [drunFrom_append s1 _ {} ds hs]
    simp only [drunFrom, h1]
  · rw [run_append, hr]
    simp only [Option.bind_some, run, step, h2]
    rfl

/-- non-vacuity: `[a.a.a]`, `[a]`, then `a.x = 1` (`p = []`, `k = a`) -/
example : ∃ ds K' e, dstateFrom {} [.std [ka, ka, ka], .std [ka]] = some ds ∧
    kwalk ds.sid ds.kinds ds.sect [] = (.valid, K', e) ∧ kget K' (e ++ [.name ka]) = some .implicit :=
  ⟨_, _, _, rfl, rfl, by decide⟩


/-- a consequence of accepting part of U1: `[a.a.a]`, `[a]`, `a.b.x = 1` (U1, accepted: defines the
    dotted table `a.a.b` inside section `[a]`), `[a.a]` (takes over the header-implicit `a.a` together
    with its dotted child `b`), `b.y = 2` — the dotted table `a.a.b` defined in section `[a]` is extended
    from section `[a.a]`. Outside U1 this cannot happen (`T09_equiv_sound`: the rules judge a dotted key
    reaching a dotted table of another section `invalid`). -/
def exU1Merge : List Stmt :=
  [.std [ka, ka, ka], .std [ka], .kv [ka, kb] kx (.int 1), .std [ka, ka], .kv [kb] ky (.int 2)]

example : drun exU1Merge = .undecided ∧ (run {} exU1Merge).isSome = true ∧
    (match ((run {} exU1Merge).bind intoDocument).bind fun d => lookupVal d [ka, ka, kb] kx with
      | some (.int 1) => true | _ => false) = true ∧
    (match ((run {} exU1Merge).bind intoDocument).bind fun d => lookupVal d [ka, ka, kb] ky with
      | some (.int 2) => true | _ => false) = true := by decide

end TomlVerif.Props.C09Equiv
