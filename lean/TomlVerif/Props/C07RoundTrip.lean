import TomlVerif.Lemmas.SerTyped07h
import TomlVerif.Props.C07Text
import TomlVerif.Props.C13Typed
/-! # C07, the READING-BACK half: what a serializer accepts comes back unchanged when the produced TOML is
deserialized into the same Rust type

`Props/C07.lean` / `Props/C07Text.lean`: serde calls ↦ document tree ↦ text ↦ parsed data = the documented image.
`Props/C13Typed.lean`: what the deserializers do for a target type of the grammar `Ty`.
Here the two are joined by a Rust VALUE: `d : Dec` of type `ty` (`WellTyped ty d`, for a declarable type `WfTy ty`),
its serde calls `serOf nm ty d` (Model/SerTyped.lean, the trusted mirror of the description of serde in Model/DeTyped.lean),
any serializer route, any deserializer route, and the result `normDec cf ty d`: `d` up to the identifications listed
below.  Everything rests on ONE induction over the type grammar (`Lemmas.SerTyped07.core`): whatever data `w` a
deserializer of either family is handed, if `w` holds the serializer's tree up to the order of the entries of every
table and up to `cf` on doubles (`Sim`), it returns `normDec cf ty d`, whatever its switches.

## the identifications (`normDec`), each with its counterexample below
 1. `f64` NaN: the SIGN is dropped by `toml_edit::ser` (`copysign(1.0)`, deliberate, commented in the code) — at the
    tree level already (`T07_ident_nan_sign`); through a text the PAYLOAD goes too (`cf = canonFloat`; a text says `nan`).
    Not a loss in the sense of the property as long as NaNs are compared as NaNs.
 2. `f32`: travels as `f64` and returns through `as f32`, which the model (`f64ToF32`) lets keep only the sign of a NaN:
    an `f32` NaN payload is gone at the tree level (`T07_ident_f32_nan`). For every other `f32` the composition
    `f64ToF32 ∘ f32to64` is the identity on the concrete values tried; the general arithmetic lemma is not proved
    (`normDec` carries the composition, so the theorems are exact about what comes back).
 3. **a map entry whose value is `None` is dropped silently** (`T07_ident_map_none`): `BTreeMap<String, Option<T>>`
    `{"a": None}` serializes without error to an empty table and comes back as `{}` — the KEY is lost. This is the one
    identification that IS a loss of data in the sense of the property (candidate finding; the documented mapping
    `expected` says the same, `expectedMap`, so C07's serialization half does not see it).
 4. `#[serde(default)]` on an `Option` field holding `None`: comes back as `Default::default()` = `None` (`Dec.dflt` is
    how the model writes it; same Rust value; `T07_ident_default_field`).
Not needed (all come back exactly): `None` in a struct field (skipped, `missing_field` gives `None`), `Some(x)`,
`Option<Option<T>>` (`Some(None)` is refused by the serializer: `T07_excluded`), unit variants (a string), newtype /
tuple / struct variants, empty `Vec`, empty map, empty struct, newtype structs, tuples, `char`, every integer width
(`u64` beyond `i64::MAX`, `()` are refused: `T07_excluded`).

## what is not covered
 * `toml::Value` INSIDE a typed value (`hasValue ty = false` is a hypothesis): `serOf` and `WellTyped` describe it
   (`svalOfSer ∘ serCalls`, `valueOk`), the induction does not treat it (C17 covers `toml::Value` on its own).
 * `f64ToF32 (f32to64 b) = b` for every non-NaN `f32` (see identification 2). -/
namespace TomlVerif.Props.C07RoundTrip
open TomlVerif TomlVerif.Model TomlVerif.Model.TomlValue TomlVerif.Model.DeRoutes TomlVerif.Model.DeTyped
open TomlVerif.Model.SerTyped TomlVerif.Model.Ser TomlVerif.Spec TomlVerif.Spec.Serde
open TomlVerif.Spec.Encode06 (canonFloat)
open TomlVerif.Lemmas.SerTyped07 TomlVerif.Lemmas.Ser07Text TomlVerif.Lemmas.Ser07 TomlVerif.Lemmas.DeTyped13
open TomlVerif.Lemmas.RoundTrip17 (PermTV valOf docTbl perm_docTbl NodupTV placeTV perm_placeTV)
open TomlVerif.Props.C07 TomlVerif.Props.C07Text
open TomlVerif.Model.Value (LIMIT)

/-! ## the document `to_document` returns -/

/-- the root `Table` of `toml_edit::ser::to_document`: every entry an `Item::Value` -/
def rootItem (kvs : List (Bytes × V)) : Item :=
  .table (.mk (kvs.map fun kv => (kv.1, Item.value (valOf (tvOf kv.2)))) false false none)

theorem plainItem_rootItem (kvs : List (Bytes × V)) : plainItem (rootItem kvs) = tvOf (.inl kvs) := by
  simp only [rootItem, plainItem, plainTbl, tvOf, TV.tbl.injEq]
  induction kvs with
  | nil => rfl
  | cons x r ih => obtain ⟨k, v⟩ := x; simp [plainItems, plainItem, plainVal_valOf, tvKVs, ih]

theorem serDocument_value (v : SVal) (kvs : List (Bytes × V)) (h : serDocument v = .ok kvs) :
    serValue v = .ok (.inl kvs) := by
  unfold serDocument at h
  cases hs : serValue v with
  | error e => rw [hs] at h; cases h
  | ok t =>
    rw [hs] at h
    cases t with
    | sc s => cases h
    | arr xs => cases h
    | inl l => injection h with h; rw [h]

/-- every date-time with fields in range and a year ≤ 9999 is accepted by `WellTyped` (`C12.T12_roundtrip`) -/
theorem dtOk_of_inRange (d : Datetime.Datetime) (h : C12.FieldsInRange d) (hy : ∀ x, d.date = some x → x.year ≤ 9999) :
    dtOk d = true := by
  simp [dtOk, (C12.T12_roundtrip d h hy).1]

/-! ## goal 2: the document tree -/

/-- **T07_roundtrip_tree** — `toml_edit::ser::to_document(&d)` then `toml_edit::de` (any entry point, `T13_typed_edit_route`,
`T13_typed_wrappers_thin`; any setting of the switches, in particular `editAsIs`) on the document — on ANY item holding
that table's data, e.g. the same document with its inline tables written as `[header]` tables — returns `normDec id ty d`. -/
theorem T07_roundtrip_tree (nm : Bytes) (hnm : (nm == dtName) = false) (fl : Flavour) (ty : Ty) (d : Dec) (v : SVal)
    (kvs : List (Bytes × V)) (hwf : WfTy ty = true) (hv : hasValue ty = false) (hwt : WellTyped ty d = true)
    (hs : serOf nm ty d = some v) (hdoc : serDocument v = .ok kvs) :
    ∀ (c : EditCfg) (it : Item), plainItem it = tvOf (.inl kvs) → decodeEdit c fl ty it = .ok (normDec id ty d) :=
  fun c it hit =>
    (core nm hnm id fl ty hwf hv d v (.inl kvs) _ hwt hs (serDocument_value v kvs hdoc) (sim_tvOf (.inl kvs))).1 c it hit

/-- the instance asked for: the code as it stands, on the document `to_document` built -/
theorem T07_roundtrip_tree_doc (nm : Bytes) (hnm : (nm == dtName) = false) (fl : Flavour) (ty : Ty) (d : Dec) (v : SVal)
    (kvs : List (Bytes × V)) (hwf : WfTy ty = true) (hv : hasValue ty = false) (hwt : WellTyped ty d = true)
    (hs : serOf nm ty d = some v) (hdoc : serDocument v = .ok kvs) :
    decodeEdit editAsIs fl ty (rootItem kvs) = .ok (normDec id ty d) ∧
    editRoute editAsIs fl ty (rootItem kvs) = .ok (normDec id ty d) ∧
    tomlRoute editAsIs fl ty (rootItem kvs) = .ok (normDec id ty d) := by
  have h := T07_roundtrip_tree nm hnm fl ty d v kvs hwf hv hwt hs hdoc editAsIs _ (plainItem_rootItem kvs)
  exact ⟨h, by rw [C13Typed.T13_typed_edit_route]; exact h,
    by rw [C13Typed.T13_typed_wrappers_thin, C13Typed.T13_typed_edit_route]; exact h⟩

/-! ## goal 3: the texts -/

theorem plainItem_table (T : Tbl) : plainItem (.table T) = .tbl (tvKVs (dataTbl T)) := by
  rw [tvKVs_dataTbl]; rfl

/-- a parsed document holding the serializer's table with canonical NaNs, entries in the serializer's order -/
theorem decode_parsed_canon (nm : Bytes) (hnm : (nm == dtName) = false) (fl : Flavour) (ty : Ty) (d : Dec) (v : SVal)
    (kvs : List (Bytes × V)) (hwf : WfTy ty = true) (hv : hasValue ty = false) (hwt : WellTyped ty d = true)
    (hs : serOf nm ty d = some v) (hx : serValue v = .ok (.inl kvs)) (T : Tbl) (hT : dataTbl T = canonKVs kvs) :
    ∀ c : EditCfg, decodeEdit c fl ty (.table T) = .ok (normDec canonFloat ty d) := by
  intro c
  have hsim : Sim canonFloat (.inl kvs) (.tbl (tvKVs (canonKVs kvs))) := by
    have := sim_canon (.inl kvs)
    simpa only [canonV, tvOf] using this
  exact (core nm hnm canonFloat fl ty hwf hv d v (.inl kvs) _ hwt hs hx hsim).1 c _ (by rw [plainItem_table, hT])

/-- … or in DOCUMENT order (`docOrder`: in every table that became a `[section]` the values first, then the
sub-tables): a derive-generated visitor looks its fields up by name, a `BTreeMap` sorts, a variant table has one entry —
the order of the entries is not seen -/
theorem decode_parsed_docOrder (nm : Bytes) (hnm : (nm == dtName) = false) (fl : Flavour) (ty : Ty) (d : Dec) (v : SVal)
    (kvs : List (Bytes × V)) (hwf : WfTy ty = true) (hv : hasValue ty = false) (hwt : WellTyped ty d = true)
    (hs : serOf nm ty d = some v) (hx : serValue v = .ok (.inl kvs)) (T : Tbl)
    (hT : dataTbl T = docOrder (canonKVs kvs)) :
    ∀ c : EditCfg, decodeEdit c fl ty (.table T) = .ok (normDec canonFloat ty d) := by
  intro c
  have hsim : Sim canonFloat (.inl kvs) (.tbl (tvKVs (canonKVs kvs))) := by
    have := sim_canon (.inl kvs)
    simpa only [canonV, tvOf] using this
  have hsim' : Sim canonFloat (.inl kvs) (.tbl (docTbl (tvKVs (canonKVs kvs)))) :=
    (sim_permTV canonFloat (perm_docTbl _) _).2 hsim
  refine (core nm hnm canonFloat fl ty hwf hv d v (.inl kvs) _ hwt hs hx hsim').1 c _ ?_
  rw [plainItem_table, hT, docOrder, tvKVs_vOfPs]

/-- **T07_roundtrip_text** (`toml_edit::ser::to_string`): the text, parsed, deserialized into the same type -/
theorem T07_roundtrip_text_edit (nm : Bytes) (hnm : (nm == dtName) = false) (fl : Flavour) (ty : Ty) (d : Dec) (v : SVal)
    (disp : FloatDisp) (t : Bytes) (hwf : WfTy ty = true) (hv : hasValue ty = false) (hwt : WellTyped ty d = true)
    (hs : serOf nm ty d = some v) (ht : textEdit disp v = .ok t) :
    ∃ kvs, serDocument v = .ok kvs ∧
      (LeavesOkSKVs disp kvs → depthSKVs kvs < LIMIT →
        ∃ T, Doc.parseDocument t = some T ∧
          ∀ c : EditCfg, decodeEdit c fl ty (.table T) = .ok (normDec canonFloat ty d)) := by
  obtain ⟨kvs, hr, himg, hp⟩ := T07_text_edit disp v t ht
  have hx : serValue v = .ok (.inl kvs) := T07_tree_complete v _ himg
  have hdoc : serDocument v = .ok kvs := by unfold serDocument; rw [hx]
  refine ⟨kvs, hdoc, fun hl hd => ?_⟩
  have := hp hl hd
  cases hq : Doc.parseDocument t with
  | none => rw [hq] at this; cases this
  | some T =>
    rw [hq] at this
    simp only [Option.map_some, Option.some.injEq] at this
    exact ⟨T, rfl, decode_parsed_canon nm hnm fl ty d v kvs hwf hv hwt hs hx T this⟩

/-- the formatted routes, generically: a text route with its tree route (`T07_text_fmt_statement`) whose tree is the
image of the value -/
theorem roundtrip_text_fmt (text : FloatDisp → SVal → Except SerErr Bytes)
    (route : SVal → Except SerErr (List (Bytes × V))) (hst : T07_text_fmt_statement text route)
    (nm : Bytes) (hnm : (nm == dtName) = false) (fl : Flavour) (ty : Ty) (d : Dec) (v : SVal)
    (disp : FloatDisp) (t : Bytes) (hwf : WfTy ty = true) (hv : hasValue ty = false) (hwt : WellTyped ty d = true)
    (hs : serOf nm ty d = some v) (himg : ∀ kvs, route v = .ok kvs → expected v = some (.inl kvs))
    (ht : text disp v = .ok t) :
    ∃ kvs, serDocument v = .ok kvs ∧
      (LeavesOkSKVs disp kvs → depthSKVs kvs < LIMIT →
        ∃ T, Doc.parseDocument t = some T ∧
          ∀ c : EditCfg, decodeEdit c fl ty (.table T) = .ok (normDec canonFloat ty d)) := by
  obtain ⟨kvs, hr, hp⟩ := hst disp v t ht
  have hx : serValue v = .ok (.inl kvs) := T07_tree_complete v _ (himg kvs hr)
  have hdoc : serDocument v = .ok kvs := by unfold serDocument; rw [hx]
  refine ⟨kvs, hdoc, fun hl hd => ?_⟩
  have := hp hl hd
  cases hq : Doc.parseDocument t with
  | none => rw [hq] at this; cases this
  | some T =>
    rw [hq] at this
    simp only [Option.map_some, Option.some.injEq] at this
    exact ⟨T, rfl, decode_parsed_docOrder nm hnm fl ty d v kvs hwf hv hwt hs hx T this⟩

/-- **T07_roundtrip_text** (`toml::to_string` / `toml::to_string_pretty`, the code as it stands `byName = false` or with
`serialize_struct` passing the name on): for every type but a bare `Datetime` / `Date` / `Time` at the root (F17,
`T07_finding_toml_root_datetime`) -/
theorem T07_roundtrip_text_toml (pretty byName : Bool) (nm : Bytes) (hnm : (nm == dtName) = false) (fl : Flavour)
    (ty : Ty) (d : Dec) (v : SVal) (disp : FloatDisp) (t : Bytes) (hwf : WfTy ty = true) (hv : hasValue ty = false)
    (hdt : isDtTy ty = false) (hwt : WellTyped ty d = true) (hs : serOf nm ty d = some v)
    (ht : (if pretty then textTomlPretty byName disp v else textToml byName disp v) = .ok t) :
    ∃ kvs, serDocument v = .ok kvs ∧
      (LeavesOkSKVs disp kvs → depthSKVs kvs < LIMIT →
        ∃ T, Doc.parseDocument t = some T ∧
          ∀ c : EditCfg, decodeEdit c fl ty (.table T) = .ok (normDec canonFloat ty d)) := by
  have hroot := serOf_datetimeRoot nm hnm ty d v hv hdt hs
  have himg : ∀ kvs, routeToml byName v = .ok kvs → expected v = some (.inl kvs) :=
    fun kvs h => T07_route_toml byName v kvs (.inr hroot) h
  cases pretty with
  | false =>
    exact roundtrip_text_fmt _ _ (T07_text_toml byName) nm hnm fl ty d v disp t hwf hv hwt hs himg ht
  | true =>
    exact roundtrip_text_fmt _ _ (T07_text_toml_pretty byName) nm hnm fl ty d v disp t hwf hv hwt hs himg ht

/-- **T07_roundtrip_text** (`toml_edit::ser::to_string_pretty` with the F5 guard ported) -/
theorem T07_roundtrip_text_edit_pretty (nm : Bytes) (hnm : (nm == dtName) = false) (fl : Flavour)
    (ty : Ty) (d : Dec) (v : SVal) (disp : FloatDisp) (t : Bytes) (hwf : WfTy ty = true) (hv : hasValue ty = false)
    (hwt : WellTyped ty d = true) (hs : serOf nm ty d = some v) (ht : textEditPretty disp v = .ok t) :
    ∃ kvs, serDocument v = .ok kvs ∧
      (LeavesOkSKVs disp kvs → depthSKVs kvs < LIMIT →
        ∃ T, Doc.parseDocument t = some T ∧
          ∀ c : EditCfg, decodeEdit c fl ty (.table T) = .ok (normDec canonFloat ty d)) :=
  roundtrip_text_fmt _ _ T07_text_edit_pretty nm hnm fl ty d v disp t hwf hv hwt hs
    (fun kvs h => T07_route_edit_pretty_guarded v kvs h) ht

/-- the order of the entries is not seen, as a statement about two trees: ANY two items whose data differ only by the
order of the entries of their tables (at any depth: `PermTV`) and by nothing else decode alike, when one of them holds
the serializer's tree -/
theorem T07_order_not_seen (nm : Bytes) (hnm : (nm == dtName) = false) (cf : Nat → Nat) (fl : Flavour) (ty : Ty) (d : Dec)
    (v : SVal) (x : V) (hwf : WfTy ty = true) (hv : hasValue ty = false) (hwt : WellTyped ty d = true)
    (hs : serOf nm ty d = some v) (hx : serValue v = .ok x) (it it' : Item)
    (h1 : Sim cf x (plainItem it)) (hp : PermTV (plainItem it) (plainItem it')) (c c' : EditCfg) :
    decodeEdit c fl ty it = decodeEdit c' fl ty it' := by
  have a := (core nm hnm cf fl ty hwf hv d v x _ hwt hs hx h1).1 c it rfl
  have b := (core nm hnm cf fl ty hwf hv d v x _ hwt hs hx ((sim_permTV cf hp x).1 h1)).1 c' it' rfl
  rw [a, b]

/-- a derive-generated `visit_map` fills its slots by NAME: the fields decoded from two entry lists that differ only
by their order (distinct keys) are the same -/
theorem decodeEditFields_perm (c : EditCfg) (fl : Flavour) : ∀ (fs : Fields) (es es' : List (Bytes × ESrc)),
    es.Perm es' → (es.map Prod.fst).Nodup → decodeEditFields c fl fs es = decodeEditFields c fl fs es'
  | .nil, _, _, _, _ => by rw [decodeEditFields, decodeEditFields]
  | .cons name t dflt r, es, es', hp, hn => by
    rw [decodeEditFields, decodeEditFields, decodeEditFields_perm c fl r es es' hp hn,
      TomlVerif.Lemmas.Order18.alookup_perm name hp ((keysDistinct_iff es).2 hn)]

/-- **struct targets do not see the order of the entries of their table** — for ANY table (not only one a serializer
produced), whatever the field types: the same entries in another order, with other flags and another position, decode to
the same result. (A `BTreeMap` target sorts, and `Dec.map` is the sorted list, so no `Dec` of a map target records an
order either; the one order-sensitive `Dec` is `toml::Value` under `preserve_order`, outside `hasValue ty = false`.) -/
theorem T07_struct_fields_by_name (c : EditCfg) (fl : Flavour) (fs : Fields) (es es' : List (Bytes × Item))
    (hp : es.Perm es') (hn : (es.map Prod.fst).Nodup) (a b a' b' : Bool) (p p' : Option Nat) :
    decodeEdit c fl (.struct fs) (.table (.mk es a b p)) = decodeEdit c fl (.struct fs) (.table (.mk es' a' b' p')) := by
  have hn' : (es'.map Prod.fst).Nodup := ((hp.map Prod.fst).nodup_iff).1 hn
  unfold decodeEdit
  simp only [editMapEntries, itemEntries, Tbl.items, Option.map_some, srcKeys, dupField_nodup fs _ hn,
    dupField_nodup fs _ hn', Bool.false_eq_true, if_false]
  rw [decodeEditFields_perm c fl fs _ _ (hp.map _) (by rw [srcKeys]; exact hn)]

example : ([([97], Item.value (.int 1)), ([98], Item.value (.int 2))] : List (Bytes × Item)).Perm
    [([98], .value (.int 2)), ([97], .value (.int 1))] ∧
    (([([97], Item.value (.int 1)), ([98], Item.value (.int 2))] : List (Bytes × Item)).map Prod.fst).Nodup :=
  ⟨List.Perm.swap _ _ _, by decide⟩

/-! ## goal 4: through `toml::Value` -/

/-- **T07_roundtrip_value** — `Value::try_from(&d)?.try_into::<T>()`: `valSer ⟨strictNone, true⟩` is
`toml::value::ValueSerializer` (as it stands: `strictNone = false`, F30 open; repaired: `true`), `placeTV fl` builds the
maps of the build (`BTreeMap` / `IndexMap`), `decodeValue valueAsIs` is `impl Deserializer for Value` as it stands.
The exclusion `unsupported v = false` (decidable; the documented unsupported shapes, `T07_errors`) removes exactly the
values on which the document serializer reports an error — among them the F30 shape, a `None` below a field that is not
the field's own value, which `Value::try_from` as it stands swallows (`T07_roundtrip_value_F30`). -/
theorem T07_roundtrip_value (strictNone : Bool) (nm : Bytes) (hnm : (nm == dtName) = false) (fl : Flavour) (ty : Ty)
    (d : Dec) (v : SVal) (x : V) (hwf : WfTy ty = true) (hv : hasValue ty = false) (hwt : WellTyped ty d = true)
    (hs : serOf nm ty d = some v) (hun : unsupported v = false) (hval : valSer ⟨strictNone, true⟩ v = .ok x) :
    ∀ cv : ValueCfg, decodeValue cv fl ty (placeTV fl (tvOf x)) = .ok (normDec id ty d) := by
  intro cv
  obtain ⟨t, ht⟩ := (T07_expected_defined v).2 hun
  have hx : serValue v = .ok t := T07_tree_complete v t ht
  have hval' := T07_value_tree_current strictNone v t ht (serOf_wfDatetime nm hnm ty d v hv hs)
  rw [hval] at hval'
  injection hval' with hval'
  subst hval'
  have hn : NodupTV (tvOf x) := nodupTV_tvOf x (serValue_nodup v x hx)
  have hsim : Sim id x (placeTV fl (tvOf x)) := by
    cases fl with
    | insertion => rw [place_insertion_id _ hn]; exact sim_tvOf x
    | sorted => exact (sim_permTV id (perm_placeTV _ hn) x).2 (sim_tvOf x)
  exact (core nm hnm id fl ty hwf hv d v x _ hwt hs hx hsim).2 cv

/-- **T07_roundtrip_value_repaired** — with F30 repaired (`strictNone = true`) no exclusion is needed: whatever the
repaired `Value::try_from` accepts comes back (`Lemmas.SerTyped07.valSer_strict_ok`: on typed values it refuses what the
document serializer refuses) -/
theorem T07_roundtrip_value_repaired (nm : Bytes) (fl : Flavour) (ty : Ty) (d : Dec) (v : SVal) (x : V)
    (hnm : (nm == dtName) = false) (hwf : WfTy ty = true) (hv : hasValue ty = false) (hwt : WellTyped ty d = true)
    (hs : serOf nm ty d = some v) (hval : valSer ⟨true, true⟩ v = .ok x) :
    decodeValue valueAsIs fl ty (placeTV fl (tvOf x)) = .ok (normDec id ty d) :=
  T07_roundtrip_value true nm hnm fl ty d v x hwf hv hwt hs (valSer_strict_ok nm hnm ty d v x hv hs hval) hval valueAsIs

/-! ## the identifications: without each of them the statement is false for the model -/

def sb := strBytes
/-- the Rust name of the structs and enums of the examples -/
def nmS : Bytes := sb "S"
theorem nmS_ok : (nmS == dtName) = false := by decide +kernel

def i64T : Ty := .int (-9223372036854775808) 9223372036854775807
def u64T : Ty := .int 0 9223372036854775807
def u16T : Ty := .int 0 65535
def u8T : Ty := .int 0 255

/-- the whole route on the model: serde calls, `to_document`, `toml_edit::de` as it stands on that document -/
def treeTrip (ty : Ty) (d : Dec) : Option (Except SerErr (R Dec)) :=
  (serOf nmS ty d).map fun v => (serDocument v).map fun kvs => decodeEdit editAsIs .sorted ty (rootItem kvs)

/-- `struct W { m: BTreeMap<String, Option<i64>> }`, `W { m: {"a": None, "b": Some(1)} }` -/
def mapNoneT : Ty := .struct (.cons (sb "m") (.map (.option i64T)) false .nil)
def mapNoneV : Dec := .struct [(sb "m", .map [(sb "a", .none), (sb "b", .some (.int 1))])]

/-- identification 3 — A LOSS OF DATA: the serializer accepts the map, the entry `"a"` does not come back -/
theorem T07_ident_map_none :
    WfTy mapNoneT = true ∧ WellTyped mapNoneT mapNoneV = true ∧
    treeTrip mapNoneT mapNoneV = some (.ok (.ok (.struct [(sb "m", .map [(sb "b", .some (.int 1))])]))) ∧
    Dec.struct [(sb "m", .map [(sb "b", .some (.int 1))])] ≠ mapNoneV := by
  refine ⟨by decide +kernel, by decide +kernel, by with_unfolding_all rfl, by simp [mapNoneV]⟩

/-- `struct P { x: f64 }` -/
def f64T : Ty := .struct (.cons (sb "x") .f64 false .nil)
/-- `struct Q { x: f32 }` -/
def f32T : Ty := .struct (.cons (sb "x") .f32 false .nil)

/-- identification 1 — `P { x: -NaN }` comes back as `P { x: NaN }` already at the tree level (`copysign(1.0)`) -/
theorem T07_ident_nan_sign :
    WellTyped f64T (.struct [(sb "x", .f64 0xFFF8000000000000)]) = true ∧
    treeTrip f64T (.struct [(sb "x", .f64 0xFFF8000000000000)]) =
      some (.ok (.ok (.struct [(sb "x", .f64 0x7FF8000000000000)]))) := by
  refine ⟨by decide +kernel, by with_unfolding_all rfl⟩

/-- identification 1, through a text — a NaN payload survives the tree (`normDec id`) and not the text (`normDec canonFloat`) -/
theorem T07_ident_nan_payload :
    normDec id f64T (.struct [(sb "x", .f64 0x7FF0000000000001)]) = .struct [(sb "x", .f64 0x7FF0000000000001)] ∧
    normDec canonFloat f64T (.struct [(sb "x", .f64 0x7FF0000000000001)]) = .struct [(sb "x", .f64 0x7FF8000000000000)] := by
  constructor <;> with_unfolding_all rfl

/-- identification 2 — `Q { x: f32::from_bits(0x7FA00001) }` (a NaN with a payload) comes back as the default quiet NaN
at the tree level: the value travels as a double and returns through `as f32`; an ordinary `f32` (here 0.1f32, 1.5f32,
the smallest subnormal, `f32::MAX`, `-inf`) comes back as itself -/
theorem T07_ident_f32_nan :
    treeTrip f32T (.struct [(sb "x", .f32 0x7FA00001)]) = some (.ok (.ok (.struct [(sb "x", .f32 0x7FC00000)]))) ∧
    (∀ b ∈ [0x3DCCCCCD, 0x3FC00000, 0x00000001, 0x7F7FFFFF, 0xFF800000, 0x80000000],
      f64ToF32 (clearNanSign (f32to64 b)) = b) := by
  refine ⟨by with_unfolding_all rfl, by decide +kernel⟩

/-- `struct D { #[serde(default)] o: Option<i64>, a: i64 }` -/
def dfltT : Ty := .struct (.cons (sb "o") (.option i64T) true (.cons (sb "a") i64T false .nil))

/-- identification 4 — `D { o: None, a: 1 }`: the skipped field comes back as `Default::default()` (= `None`; the model
writes `Dec.dflt`); not a loss -/
theorem T07_ident_default_field :
    WellTyped dfltT (.struct [(sb "o", .none), (sb "a", .int 1)]) = true ∧
    treeTrip dfltT (.struct [(sb "o", .none), (sb "a", .int 1)]) =
      some (.ok (.ok (.struct [(sb "o", .dflt), (sb "a", .int 1)]))) := by
  refine ⟨by decide +kernel, by with_unfolding_all rfl⟩

/-! ## no identification needed: these come back exactly -/

/-- `enum K { A, B(i64) }` -/
def kT : Ty := .enum (.cons (sb "A") .unit (.cons (sb "B") (.newtype i64T) .nil))

/-- `struct X { o: Option<i64>, oo: Option<Option<i64>>, e: K, v: Vec<X0>, m: BTreeMap<String, i64>, u: X0, c: char,
t: (i64, String), n: N, big: u64 }` with `struct X0 {}`, `struct N(i64)` -/
def exactT : Ty := .struct (
  .cons (sb "o") (.option i64T) false (
  .cons (sb "oo") (.option (.option i64T)) false (
  .cons (sb "e") kT false (
  .cons (sb "v") (.seq (.struct .nil)) false (
  .cons (sb "m") (.map i64T) false (
  .cons (sb "u") (.struct .nil) false (
  .cons (sb "c") .char false (
  .cons (sb "t") (.tuple (.cons i64T (.cons .string .nil))) false (
  .cons (sb "n") (.newtype i64T) false (
  .cons (sb "big") u64T false .nil))))))))))

/-- `X { o: None, oo: Some(Some(1)), e: K::A, v: vec![], m: {}, u: X0 {}, c: 'é', t: (2, "s"), n: N(3), big: i64::MAX as u64 }` -/
def exactV : Dec := .struct [
  (sb "o", .none), (sb "oo", .some (.some (.int 1))), (sb "e", .vUnit (sb "A")), (sb "v", .seq []), (sb "m", .map []),
  (sb "u", .struct []), (sb "c", .char (sb "é")), (sb "t", .tuple [.int 2, .str (sb "s")]), (sb "n", .newtype (.int 3)),
  (sb "big", .int 9223372036854775807)]

set_option maxRecDepth 100000 in
/-- a `None` field, `Some(Some(_))`, a unit variant (a string in TOML), an empty `Vec` of structs, an empty map, an empty
struct, a non-ASCII `char`, a tuple, a newtype struct, the largest `u64` the format holds: all exact -/
theorem T07_exact_samples :
    WfTy exactT = true ∧ WellTyped exactT exactV = true ∧ treeTrip exactT exactV = some (.ok (.ok exactV)) ∧
    normDec id exactT exactV = exactV := by
  refine ⟨by decide +kernel, by decide +kernel, by with_unfolding_all rfl, by with_unfolding_all rfl⟩

/-! ## excluded by the hypothesis `serDocument … = .ok`: the serializer refuses -/

def optOptT : Ty := .struct (.cons (sb "oo") (.option (.option i64T)) false .nil)
def unitT : Ty := .struct (.cons (sb "u") .unit false .nil)
def bigT : Ty := .struct (.cons (sb "big") u64T false .nil)
def vecOptT : Ty := .struct (.cons (sb "v") (.seq (.option i64T)) false .nil)

/-- `Some(None)`, `()`, a `u64` beyond `i64::MAX`, `vec![None]`: well-typed values, refused with the documented errors -/
theorem T07_excluded :
    WellTyped optOptT (.struct [(sb "oo", .some .none)]) = true ∧
    treeTrip optOptT (.struct [(sb "oo", .some .none)]) = some (.error .unsupportedNone) ∧
    WellTyped unitT (.struct [(sb "u", .unit)]) = true ∧
    treeTrip unitT (.struct [(sb "u", .unit)]) = some (.error .unsupportedType) ∧
    WellTyped bigT (.struct [(sb "big", .int 9223372036854775808)]) = true ∧
    treeTrip bigT (.struct [(sb "big", .int 9223372036854775808)]) = some (.error .outOfRange) ∧
    WellTyped vecOptT (.struct [(sb "v", .seq [.none])]) = true ∧
    treeTrip vecOptT (.struct [(sb "v", .seq [.none])]) = some (.error .unsupportedNone) := by
  refine ⟨by decide +kernel, by with_unfolding_all rfl, by decide +kernel, by with_unfolding_all rfl,
    by decide +kernel, by with_unfolding_all rfl, by decide +kernel, by with_unfolding_all rfl⟩

/-! ## F30: what the exclusion of `T07_roundtrip_value` removes -/

/-- `struct F { oo: Option<Option<i64>>, a: i64 }` -/
def f30T : Ty := .struct (.cons (sb "oo") (.option (.option i64T)) false (.cons (sb "a") i64T false .nil))
/-- `F { oo: Some(None), a: 1 }` -/
def f30V : Dec := .struct [(sb "oo", .some .none), (sb "a", .int 1)]
/-- `struct G { v: Vec<Option<i64>>, a: i64 }` -/
def f30T' : Ty := .struct (.cons (sb "v") (.seq (.option i64T)) false (.cons (sb "a") i64T false .nil))

/-- `Value::try_from(&d)?.try_into::<T>()` on the model -/
def valueTrip (strictNone : Bool) (ty : Ty) (d : Dec) : Option (Except SerErr (R Dec)) :=
  (serOf nmS ty d).map fun v => (valSer ⟨strictNone, true⟩ v).map fun x =>
    decodeValue valueAsIs .sorted ty (placeTV .sorted (tvOf x))

/-- **F30 on a typed value**: `Value::try_from(&F { oo: Some(None), a: 1 })` as it stands succeeds (the field is
swallowed) and `try_into::<F>()` returns `F { oo: None, a: 1 }` — a different value, no error anywhere; with a `Vec`
holding a `None` the field is swallowed too and `try_into` then fails with a missing field. The repaired serializer
(`strictNone = true`) reports `UnsupportedNone` like the document serializers. Both values are `unsupported`. -/
theorem T07_roundtrip_value_F30 :
    WellTyped f30T f30V = true ∧
    valueTrip false f30T f30V = some (.ok (.ok (.struct [(sb "oo", .none), (sb "a", .int 1)]))) ∧
    Dec.struct [(sb "oo", .none), (sb "a", .int 1)] ≠ normDec id f30T f30V ∧
    valueTrip true f30T f30V = some (.error .unsupportedNone) ∧
    treeTrip f30T f30V = some (.error .unsupportedNone) ∧
    (serOf nmS f30T f30V).map unsupported = some true ∧
    valueTrip false f30T' (.struct [(sb "v", .seq [.none]), (sb "a", .int 1)]) = some (.ok (.error .fail)) := by
  refine ⟨by decide +kernel, by with_unfolding_all rfl, ?_, by with_unfolding_all rfl, by with_unfolding_all rfl,
    by with_unfolding_all rfl, by with_unfolding_all rfl⟩
  have : normDec id f30T f30V = f30V := by with_unfolding_all rfl
  rw [this]; simp [f30V]

/-! ## non-vacuity: a configuration type, all hypotheses by `decide +kernel`, the round trips instantiated -/

/-- `struct Owner { name: String, dob: Option<Date> }` -/
def ownerT : Ty := .struct (.cons (sb "name") .string false (.cons (sb "dob") (.option .date) false .nil))
/-- `struct Server { ip: String, port: u16, role: Option<String> }` -/
def serverT : Ty :=
  .struct (.cons (sb "ip") .string false (.cons (sb "port") u16T false (.cons (sb "role") (.option .string) false .nil)))
/-- `enum Mode { Fast, Custom(i64), Tuned { level: u8, label: String }, Pair(i64, String) }` -/
def modeT : Ty := .enum (.cons (sb "Fast") .unit (.cons (sb "Custom") (.newtype i64T)
  (.cons (sb "Tuned") (.struct (.cons (sb "level") u8T false (.cons (sb "label") .string false .nil)))
  (.cons (sb "Pair") (.tuple (.cons i64T (.cons .string .nil))) .nil))))
/-- `struct Config { title: String, n: i64, when: Datetime, tags: Vec<String>, owner: Owner,
servers: BTreeMap<String, Server>, mode: Mode, alt: Mode, third: Mode, fourth: Mode, opt: Option<i64> }` -/
def configT : Ty := .struct (
  .cons (sb "title") .string false (
  .cons (sb "n") i64T false (
  .cons (sb "when") .datetime false (
  .cons (sb "tags") (.seq .string) false (
  .cons (sb "owner") ownerT false (
  .cons (sb "servers") (.map serverT) false (
  .cons (sb "mode") modeT false (
  .cons (sb "alt") modeT false (
  .cons (sb "third") modeT false (
  .cons (sb "fourth") modeT false (
  .cons (sb "opt") (.option i64T) false .nil)))))))))))

/-- 1979-05-27T07:32:00Z -/
def dt1 : Datetime.Datetime := ⟨some ⟨1979, 5, 27⟩, some ⟨7, 32, 0, 0⟩, some .z⟩

def configV : Dec := .struct [
  (sb "title", .str (sb "TOML")), (sb "n", .int 42), (sb "when", .dt dt1),
  (sb "tags", .seq [.str (sb "a"), .str (sb "b")]),
  (sb "owner", .struct [(sb "name", .str (sb "Tom")), (sb "dob", .some (.dt ⟨some ⟨1979, 5, 27⟩, none, none⟩))]),
  (sb "servers", .map [
    (sb "alpha", .struct [(sb "ip", .str (sb "10.0.0.1")), (sb "port", .int 8001), (sb "role", .some (.str (sb "fe")))]),
    (sb "beta", .struct [(sb "ip", .str (sb "10.0.0.2")), (sb "port", .int 8002), (sb "role", .none)])]),
  (sb "mode", .vStruct (sb "Tuned") [(sb "level", .int 3), (sb "label", .str (sb "x"))]),
  (sb "alt", .vUnit (sb "Fast")),
  (sb "third", .vNewtype (sb "Custom") (.int (-7))),
  (sb "fourth", .vTuple (sb "Pair") [.int 5, .str (sb "q")]),
  (sb "opt", .none)]

def getSome {α} [Inhabited α] : Option α → α
  | some a => a
  | none => default
theorem getSome_spec {α} [Inhabited α] (o : Option α) (h : o.isSome = true) : o = some (getSome o) := by
  cases o <;> simp_all [getSome]

def isOkE {ε α} : Except ε α → Bool
  | .ok _ => true
  | .error _ => false
def getOk {ε α} [Inhabited α] : Except ε α → α
  | .ok a => a
  | .error _ => default
theorem getOk_spec {ε α} [Inhabited α] (e : Except ε α) (h : isOkE e = true) : e = .ok (getOk e) := by
  cases e <;> simp_all [getOk, isOkE]

instance : Inhabited SVal := ⟨.unit⟩
instance : Inhabited V := ⟨.arr []⟩

def configS : SVal := getSome (serOf nmS configT configV)
def configKVs : List (Bytes × V) := getOk (serDocument configS)

theorem config_hyps :
    WfTy configT = true ∧ hasValue configT = false ∧ WellTyped configT configV = true ∧
    serOf nmS configT configV = some configS ∧ serDocument configS = .ok configKVs ∧ unsupported configS = false ∧
    isDtTy configT = false :=
  ⟨by decide +kernel, by decide +kernel, by decide +kernel, getSome_spec _ (by decide +kernel),
    getOk_spec _ (by decide +kernel), by decide +kernel, by decide +kernel⟩

/-- nothing to identify in this value -/
theorem config_norm : normDec id configT configV = configV ∧ normDec canonFloat configT configV = configV := by
  constructor <;> with_unfolding_all rfl

/-- `T07_roundtrip_tree` on `Config`: document out, document in, the same value -/
theorem config_tree_roundtrip :
    decodeEdit editAsIs .sorted configT (rootItem configKVs) = .ok configV ∧
    tomlRoute editAsIs .insertion configT (rootItem configKVs) = .ok configV := by
  obtain ⟨h1, h2, h3, h4, h5, _, _⟩ := config_hyps
  have a := T07_roundtrip_tree_doc nmS nmS_ok .sorted configT configV configS configKVs h1 h2 h3 h4 h5
  have b := T07_roundtrip_tree_doc nmS nmS_ok .insertion configT configV configS configKVs h1 h2 h3 h4 h5
  rw [config_norm.1] at a b
  exact ⟨a.1, b.2.2⟩

/-- `T07_roundtrip_value` on `Config`: `Value::try_from` as it stands, then `try_into`, both builds of the map -/
theorem config_value_roundtrip (fl : Flavour) :
    ∃ x, valSer .current configS = .ok x ∧ decodeValue valueAsIs fl configT (placeTV fl (tvOf x)) = .ok configV := by
  obtain ⟨h1, h2, h3, h4, _, h6, _⟩ := config_hyps
  have hx : valSer .current configS = .ok (getOk (valSer .current configS)) := getOk_spec _ (by decide +kernel)
  refine ⟨_, hx, ?_⟩
  have := T07_roundtrip_value false nmS nmS_ok fl configT configV configS _ h1 h2 h3 h4 h6 hx valueAsIs
  rw [config_norm.1] at this
  exact this

/-! ### the texts of `Config` -/

mutual
/-- a decidable sufficient condition for `LeavesOkS`: integers in range, no double, date-times the crate prints and
re-reads with a year ≤ 9999 -/
def leafCheck : V → Bool
  | .sc (.int n) => Numbers.inI64 n
  | .sc (.float _) => false
  | .sc (.dt d) => dtOk d && (match d.date with | some x => decide (x.year ≤ 9999) | none => true)
  | .sc (.str _) => true
  | .sc (.bool _) => true
  | .arr xs => leafCheckList xs
  | .inl kvs => leafCheckKVs kvs
def leafCheckList : List V → Bool
  | [] => true
  | x :: r => leafCheck x && leafCheckList r
def leafCheckKVs : List (Bytes × V) → Bool
  | [] => true
  | (_, x) :: r => leafCheck x && leafCheckKVs r
end

mutual
theorem leavesOk_of_check (disp : FloatDisp) : ∀ v : V, leafCheck v = true → LeavesOkS disp v
  | .sc (.int n), h => by simpa [leafCheck, LeavesOkS, ScalarOkS] using h
  | .sc (.float _), h => by simp [leafCheck] at h
  | .sc (.dt d), h => by
    simp only [leafCheck, Bool.and_eq_true] at h
    simp only [LeavesOkS, ScalarOkS]
    have hd : Datetime.Std.fromStr (Datetime.Std.display d) = some d := by simpa [dtOk] using h.1
    refine ⟨C12.T12_std_ranges _ d hd, ?_⟩
    intro x hx
    rw [hx] at h
    simpa using h.2
  | .sc (.str _), _ => by simp [LeavesOkS, ScalarOkS]
  | .sc (.bool _), _ => by simp [LeavesOkS, ScalarOkS]
  | .arr xs, h => by simp only [leafCheck] at h; simp only [LeavesOkS]; exact leavesOk_of_checkList disp xs h
  | .inl kvs, h => by simp only [leafCheck] at h; simp only [LeavesOkS]; exact leavesOk_of_checkKVs disp kvs h
theorem leavesOk_of_checkList (disp : FloatDisp) : ∀ xs : List V, leafCheckList xs = true → LeavesOkSs disp xs
  | [], _ => by simp [LeavesOkSs]
  | x :: r, h => by
    simp only [leafCheckList, Bool.and_eq_true] at h
    simp only [LeavesOkSs]
    exact ⟨leavesOk_of_check disp x h.1, leavesOk_of_checkList disp r h.2⟩
theorem leavesOk_of_checkKVs (disp : FloatDisp) : ∀ kvs : List (Bytes × V), leafCheckKVs kvs = true → LeavesOkSKVs disp kvs
  | [], _ => by simp [LeavesOkSKVs]
  | (k, x) :: r, h => by
    simp only [leafCheckKVs, Bool.and_eq_true] at h
    simp only [LeavesOkSKVs]
    exact ⟨leavesOk_of_check disp x h.1, leavesOk_of_checkKVs disp r h.2⟩
end

theorem config_text_hyps : LeavesOkSKVs noDisp configKVs ∧ depthSKVs configKVs < LIMIT :=
  ⟨leavesOk_of_checkKVs noDisp configKVs (by decide +kernel), by decide +kernel⟩

def configEditText : Bytes := getOk (textEdit noDisp configS)
def configTomlText : Bytes := getOk (textToml false noDisp configS)
def configPrettyText : Bytes := getOk (textTomlPretty false noDisp configS)

/-- `T07_roundtrip_text_edit` / `_toml` on `Config`: the three texts (`toml_edit::ser::to_string`, `toml::to_string`,
`toml::to_string_pretty` as they stand) parse, and every one deserializes to the value that was serialized -/
theorem config_text_roundtrip :
    (∃ T, Doc.parseDocument configEditText = some T ∧ decodeEdit editAsIs .sorted configT (.table T) = .ok configV) ∧
    (∃ T, Doc.parseDocument configTomlText = some T ∧ decodeEdit editAsIs .sorted configT (.table T) = .ok configV) ∧
    (∃ T, Doc.parseDocument configPrettyText = some T ∧ decodeEdit editAsIs .sorted configT (.table T) = .ok configV) := by
  obtain ⟨h1, h2, h3, h4, h5, _, h7⟩ := config_hyps
  obtain ⟨hl, hd⟩ := config_text_hyps
  refine ⟨?_, ?_, ?_⟩
  · have ht : textEdit noDisp configS = .ok configEditText := getOk_spec _ (by decide +kernel)
    obtain ⟨kvs, hk, hp⟩ := T07_roundtrip_text_edit nmS nmS_ok .sorted configT configV configS noDisp _ h1 h2 h3 h4 ht
    rw [h5] at hk; injection hk with hk; subst hk
    obtain ⟨T, hT, hdec⟩ := hp hl hd
    exact ⟨T, hT, by rw [← config_norm.2]; exact hdec editAsIs⟩
  · have ht : textToml false noDisp configS = .ok configTomlText := getOk_spec _ (by decide +kernel)
    obtain ⟨kvs, hk, hp⟩ := T07_roundtrip_text_toml false false nmS nmS_ok .sorted configT configV configS noDisp _
      h1 h2 h7 h3 h4 ht
    rw [h5] at hk; injection hk with hk; subst hk
    obtain ⟨T, hT, hdec⟩ := hp hl hd
    exact ⟨T, hT, by rw [← config_norm.2]; exact hdec editAsIs⟩
  · have ht : textTomlPretty false noDisp configS = .ok configPrettyText := getOk_spec _ (by decide +kernel)
    obtain ⟨kvs, hk, hp⟩ := T07_roundtrip_text_toml true false nmS nmS_ok .sorted configT configV configS noDisp _
      h1 h2 h7 h3 h4 ht
    rw [h5] at hk; injection hk with hk; subst hk
    obtain ⟨T, hT, hdec⟩ := hp hl hd
    exact ⟨T, hT, by rw [← config_norm.2]; exact hdec editAsIs⟩

/-- the texts really are TOML documents of the expected layout: `toml::to_string` starts with the values of the root -/
example : configTomlText.take 15 = strBytes "title = \"TOML\"\n" := by decide +kernel

end TomlVerif.Props.C07RoundTrip
