import TomlVerif.Lemmas.Macro19
/-! C19 — the table `toml!` builds at compile time equals the table the parser builds from the same text.
    Statements over the model of the tt-muncher (Model/Macro.lean), which the compiled-program check
    (tools/props/c19.py) ties to the real macro document by document.

    `MacroVal` (Lemmas/Macro19.lean) is the value grammar as rustc tokenises it: integers and floats with an
    optional sign token, `inf`/`nan`, booleans, string and one-character literals, the eleven token shapes of a
    date-time (one per macro arm) and arrays with an optional trailing comma, nested to any depth.
    `MacroVal.toks` are the token trees of the spelling, `MacroVal.sem` its meaning; literal evaluation (rustc) and
    the date-time text parser (`toml_datetime`, property C12) are shared between model and meaning, so the
    theorems are about what the muncher itself does: arm order, sign rewriting, date-time arm selection and
    re-assembly of the text, `@trailingcomma`, recursion. -/
namespace TomlVerif.Props.C19
open TomlVerif TomlVerif.Model TomlVerif.Model.Macro TomlVerif.Lemmas.Macro19

/-- T19_value, array fragment: an inline array of values, spelled with or without trailing comma and nested to
    any depth, evaluates through `@value` to the array of the meanings of its items, in order (a failing item —
    literal out of range, invalid date-time — fails the array the same way). -/
theorem T19_value_partial (items : List MacroVal) (trailing : Bool) :
    macroValue (.group .bracket (joinToks items trailing)) = (MacroVal.arr items trailing).sem := by
  have h := cost_le (.arr items trailing)
  simp only [MacroVal.cost, MacroVal.toks] at h
  have hs : sizeTTs [TT.group .bracket (joinToks items trailing)] = 2 + sizeTTs (joinToks items trailing) := by
    simp [sizeTTs, sizeTT]
  rw [hs] at h
  unfold macroValue
  rw [hs]
  exact value_arr items trailing _ (by omega)

/-- non-vacuity: `[ -1, +2.5, [1979-05-27 07:32:00Z, nan,], "a" ]` is such an array and evaluates to four items -/
example :
    macroValue (.group .bracket (joinToks
      [.int .minus [0x31], .float .plus [0x32, 0x2E, 0x35],
       .arr [.dt (.ldtSp ⟨[0x31,0x39,0x37,0x39],[],false⟩ ⟨[0x30,0x35],[],false⟩ ⟨[0x32,0x37],[],false⟩ ⟨[0x30,0x37],[],false⟩ ⟨[0x33,0x32],[],false⟩ ⟨[0x30,0x30],[0x5A],false⟩),
             .special .none true] true,
       .str [0x22,0x61,0x22] [0x61]] false)) =
    .ok (.arr [.int (-1), .float 0x4004000000000000,
      .arr [.dt ⟨some ⟨1979, 5, 27⟩, some ⟨7, 32, 0, 0⟩, some .z⟩, .float 0x7FF8000000000000], .str [0x61]]) := by rfl

/-- every value, in the position the macro reads it (an element of an inline array, followed by a comma):
    `@array` pushes exactly its meaning and continues with the tokens behind the comma. -/
theorem T19_value_step (a : MacroVal) (fuel : Nat) (acc : List MVal) (rest : List TT)
    (hf : a.cost + 1 ≤ fuel) (hr : RestOk rest) :
    array (fuel + 1) acc (a.toks ++ commaT :: rest) = R.bind a.sem (fun v => array fuel (acc ++ [v]) rest) :=
  array_step a fuel acc rest hf hr

example : RestOk [] ∧ RestOk (MacroVal.toks (.int .minus [0x31])) :=
  ⟨restOk_nil, by simpa using toks_head_ok (.int .minus [0x31]) []⟩

/-- date-time arm selection at the top level: whichever of the eleven shapes a date-time is written in, the first
    arm of `@toplevel` (in source order) that matches hands exactly its tokens — with `T` in place of a blank — to
    `stringify!`, and leaves the tokens of the next `key = value` pair or header untouched. -/
theorem T19_datetime_top (f : DtForm) (rest : List TT) (h : RestTopOk rest) :
    firstDt [] (f.toks ++ rest) dtArms = some (f.text, rest) := firstDt_form_top f rest h

example : RestTopOk [.tok (.ident [0x61]), .tok (.punct 0x3D), .tok (.num [0x31] [] false)] := by
  constructor
  · intro t r h; cases h; simp
  · intro t u r h; cases h; simp

/-- the same inside inline tables and arrays (arms end in a comma) -/
theorem T19_datetime_comma (f : DtForm) (rest : List TT) (h : RestOk rest) :
    firstDt comma (f.toks ++ commaT :: rest) dtArms = some (f.text, rest) := firstDt_form f rest h

/-! ## F8 — the confirmed defect -/

/-- `[a.b] x = 1 [a] y = 2` -/
def f8Text : Bytes :=
  [0x5B,0x61,0x2E,0x62,0x5D,0x20,0x78,0x20,0x3D,0x20,0x31,0x20,0x5B,0x61,0x5D,0x20,0x79,0x20,0x3D,0x20,0x32]

def f8Toks : List TT :=
  [.group .bracket [.tok (.ident [0x61]), .tok (.punct 0x2E), .tok (.ident [0x62])],
   .tok (.ident [0x78]), .tok (.punct 0x3D), .tok (.num [0x31] [] false),
   .group .bracket [.tok (.ident [0x61])],
   .tok (.ident [0x79]), .tok (.punct 0x3D), .tok (.num [0x32] [] false)]

/-- what the parser builds for that text: `{a = {b = {x = 1}, y = 2}}` -/
def f8Parsed : MVal := .tbl [([0x61], .tbl [([0x62], .tbl [([0x78], .int 1)]), ([0x79], .int 2)])]
/-- what the macro builds: `{a = {y = 2}}` -/
def f8Macro : MVal := .tbl [([0x61], .tbl [([0x79], .int 2)])]

theorem T19_finding_tokens : tokens f8Text = some f8Toks := by rfl

/-- F8: with the header arm as /repo has it (`insert_toml` of an empty table) the witness evaluates to
    `{a = {y = 2}}`, which is not the parsed table: the sub-table `b` is lost. -/
theorem T19_finding : macroDocWith false f8Toks = .ok f8Macro ∧ f8Macro ≠ f8Parsed :=
  ⟨by rfl, by simp [f8Macro, f8Parsed]⟩

/-- with the proposed repair (`table_toml`: assign only when the target is not a table) the witness evaluates to
    the parsed table -/
theorem T19_finding_repaired : macroDocWith true f8Toks = .ok f8Parsed := by rfl

/-! T19_doc (whole documents: `key = value` pairs, dotted keys, `[table]` / `[[array]]` headers, with the F8 shape
    excluded) and the inline-table fragment of T19_value are NOT proved here; they are covered by the
    compiled-program check only (macro = parser = generator's tree = this model, document by document). -/

end TomlVerif.Props.C19
