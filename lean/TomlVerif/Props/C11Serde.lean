import TomlVerif.Model.SerdeInt
/-! C11, "serde conversions that cannot be exact fail with an error, never wrapped": the three integer conversions of
    `Model/SerdeInt.lean`, for every width and every value of that width. -/
namespace TomlVerif.Props.C11Serde
open TomlVerif TomlVerif.Model.Numbers TomlVerif.Model.SerdeInt

theorem inI64_iff (n : Int) : inI64 n = true ↔ (-9223372036854775808 ≤ n ∧ n ≤ 9223372036854775807) := by
  unfold inI64 i64Min i64Max
  rw [Bool.and_eq_true, decide_eq_true_iff, decide_eq_true_iff]

theorem inI64_false (n : Int) (h : inI64 n = false) : n < -9223372036854775808 ∨ 9223372036854775807 < n := by
  cases Decidable.em (-9223372036854775808 ≤ n ∧ n ≤ 9223372036854775807) with
  | inl hh => rw [(inI64_iff n).2 hh] at h; cases h
  | inr hh => omega

/-- `fits` as inequalities -/
theorem fits_iff (k : Kind) (n : Int) : fits k n = true ↔
    (match k with
     | .u8 => 0 ≤ n ∧ n ≤ 255 | .i8 => -128 ≤ n ∧ n ≤ 127 | .u16 => 0 ≤ n ∧ n ≤ 65535 | .i16 => -32768 ≤ n ∧ n ≤ 32767
     | .u32 => 0 ≤ n ∧ n ≤ 4294967295 | .i32 => -2147483648 ≤ n ∧ n ≤ 2147483647
     | .u64 => 0 ≤ n ∧ n ≤ 18446744073709551615 | .i64 => -9223372036854775808 ≤ n ∧ n ≤ 9223372036854775807
     | .u128 => 0 ≤ n ∧ n ≤ 340282366920938463463374607431768211455
     | .i128 => -170141183460469231731687303715884105728 ≤ n ∧ n ≤ 170141183460469231731687303715884105727) := by
  cases k <;> simp only [fits] <;> first | exact inI64_iff n | rw [Bool.and_eq_true, decide_eq_true_iff, decide_eq_true_iff]

/-- serializing: the integer written is the value, and it is a TOML integer (`i64`) -/
theorem T11_ser_exact (k : Kind) (n m : Int) (h : serInt k n = some m) : m = n ∧ inI64 m = true := by
  unfold serInt at h
  split at h
  · cases h
  · split at h
    · cases h; exact ⟨rfl, by assumption⟩
    · cases h

/-- … and every value of a width up to 64 bits that is a TOML integer is written -/
theorem T11_ser_complete (k : Kind) (n : Int) (hk : k.is128 = false) (hn : inI64 n = true) : serInt k n = some n := by
  simp [serInt, hk, hn]

/-- an error exactly for the 128-bit widths and for values outside `i64` -/
theorem T11_ser_error_iff (k : Kind) (n : Int) : serInt k n = none ↔ (k.is128 = true ∨ inI64 n = false) := by
  unfold serInt
  cases hk : k.is128 <;> cases hn : inI64 n <;> simp

/-- … and among the widths up to 64 bits only `u64` has values outside `i64` -/
theorem T11_ser_only_u64_overflows (k : Kind) (n : Int) (hf : fits k n = true) (hk : k.is128 = false)
    (h : serInt k n = none) : k = .u64 ∧ i64Max < n := by
  rcases (T11_ser_error_iff k n).1 h with h1 | h1
  · rw [hk] at h1; cases h1
  · have h2 := inI64_false n h1
    have h3 := (fits_iff k n).1 hf
    cases k <;> simp only [Kind.is128] at hk h3
    case u64 => exact ⟨rfl, by unfold i64Max; omega⟩
    case u128 => cases hk
    case i128 => cases hk
    all_goals (exfalso; omega)

/-- reading: the value returned is the TOML integer, and it is a value of the target width (never wrapped or truncated) -/
theorem T11_de_exact (k : Kind) (n m : Int) (h : deInt k n = some m) : m = n ∧ fits k m = true := by
  unfold deInt at h
  split at h
  · cases h
  · split at h
    · rename_i hc
      cases h
      rw [Bool.and_eq_true] at hc
      exact ⟨rfl, hc.2⟩
    · cases h

theorem T11_de_complete (k : Kind) (n : Int) (hk : k.is128 = false) (hn : inI64 n = true) (hf : fits k n = true) :
    deInt k n = some n := by
  simp [deInt, hk, hn, hf]

/-- `toml::Value` from a foreign deserializer: exact, inside `i64`, or an error -/
theorem T11_visit_exact (k : Kind) (n m : Int) (hf : fits k n = true) (h : visitInt k n = some m) :
    m = n ∧ inI64 m = true := by
  have h3 := (fits_iff k n).1 hf
  cases k <;> simp only [visitInt] at h h3
  case u128 => cases h
  case i128 => cases h
  case u64 | u8 | u16 =>
    by_cases hle : n ≤ i64Max
    · rw [if_pos hle] at h
      cases h
      unfold i64Max at hle
      exact ⟨rfl, (inI64_iff n).2 (by omega)⟩
    · rw [if_neg hle] at h
      cases h
  all_goals
    cases h
    exact ⟨rfl, (inI64_iff n).2 (by omega)⟩

/-- the error is exactly: a 128-bit width, or an unsigned value above `i64::MAX` (never a wrapped negative integer) -/
theorem T11_visit_error_iff (k : Kind) (n : Int) (hf : fits k n = true) :
    visitInt k n = none ↔ (k.is128 = true ∨ (k = .u64 ∧ i64Max < n)) := by
  have h3 := (fits_iff k n).1 hf
  cases k <;> simp only [visitInt, Kind.is128] at h3 ⊢
  case u64 | u8 | u16 =>
    unfold i64Max
    by_cases hle : n ≤ 9223372036854775807
    · rw [if_pos hle]
      constructor
      · intro h; cases h
      · intro h
        rcases h with h | ⟨_, h⟩
        · cases h
        · omega
    · rw [if_neg hle]
      constructor
      · intro _; first | (right; exact ⟨trivial, by omega⟩) | (exfalso; omega)
      · intro _; rfl
  all_goals simp

/-- non-vacuity: 2^63 as a `u64` is refused, `i64::MAX` as a `u64` is kept, `-1` as an `i8` is kept -/
example : fits .u64 9223372036854775808 = true ∧ visitInt .u64 9223372036854775808 = none ∧
    visitInt .u64 9223372036854775807 = some 9223372036854775807 ∧ visitInt .i8 (-1) = some (-1) ∧
    serInt .u64 18446744073709551615 = none ∧ deInt .u8 256 = none ∧ deInt .u8 255 = some 255 := by decide

end TomlVerif.Props.C11Serde
