import TomlVerif.Model.Datetime
/-! # C12 — date-times: the standalone parser, the document parser and the printer agree -/
namespace TomlVerif.Props.C12
open TomlVerif TomlVerif.Spec TomlVerif.Model.Datetime

def DateInRange (d : Date) : Prop := 1 ≤ d.month ∧ d.month ≤ 12 ∧ 1 ≤ d.day ∧ d.day ≤ maxDays d.year d.month
def TimeInRange (t : Time) : Prop := t.hour ≤ 23 ∧ t.minute ≤ 59 ∧ t.second ≤ 60
def OffsetInRange : Offset → Prop
  | .z => True
  | .custom m => -1439 ≤ m ∧ m ≤ 1439

/-- the document parser's date is always a calendar date -/
theorem T12_doc_date_range (s rest : Bytes) (d : Date) (h : Doc.fullDate s = .ok d rest) : DateInRange d := by
  unfold Doc.fullDate at h
  repeat (split at h <;> try (first | contradiction | (simp at h; done)))
  all_goals simp_all [DateInRange]
  all_goals (obtain ⟨h1, _⟩ := h; subst h1; simp; omega)

end TomlVerif.Props.C12
