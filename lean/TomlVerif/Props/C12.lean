import TomlVerif.Model.Datetime
import TomlVerif.Lemmas.Datetime12
/-! # C12 — date-times: the standalone parser, the document parser and the printer agree -/
namespace TomlVerif.Props.C12
open TomlVerif TomlVerif.Spec TomlVerif.Model.Datetime TomlVerif.Lemmas.Datetime12

def DateInRange (d : Date) : Prop := 1 ≤ d.month ∧ d.month ≤ 12 ∧ 1 ≤ d.day ∧ d.day ≤ maxDays d.year d.month
def TimeInRange (t : Time) : Prop := t.hour ≤ 23 ∧ t.minute ≤ 59 ∧ t.second ≤ 60
def OffsetInRange : Offset → Prop
  | .z => True
  | .custom m => -1439 ≤ m ∧ m ≤ 1439

/-- the document parser's date is always a calendar date -/
theorem T12_doc_date_range (s rest : Bytes) (d : Date) (h : Doc.fullDate s = .ok d rest) : DateInRange d := by
  unfold Doc.fullDate at h
  repeat (split at h <;> try (first | contradiction | (simp at h; done)))
  all_goals simp_all [DateInRange]
  all_goals (obtain ⟨h1, _⟩ := h; subst h1; simp; omega)

/-- the standalone parser and the document parser accept exactly the same byte strings and
    produce the same value -/
theorem T12_agree : ∀ s : Bytes, Std.fromStr s = Doc.parseAll s := agree

/-- "1979-05-27T07:32:00.5Z": both sides of `T12_agree` are an actual value -/
example : Std.fromStr [49, 57, 55, 57, 45, 48, 53, 45, 50, 55, 84, 48, 55, 58, 51, 50, 58, 48, 48, 46, 53, 90] =
      some ⟨some ⟨1979, 5, 27⟩, some ⟨7, 32, 0, 500000000⟩, some .z⟩ ∧
    Doc.parseAll [49, 57, 55, 57, 45, 48, 53, 45, 50, 55, 84, 48, 55, 58, 51, 50, 58, 48, 48, 46, 53, 90] =
      some ⟨some ⟨1979, 5, 27⟩, some ⟨7, 32, 0, 500000000⟩, some .z⟩ := by decide
/-- "07:32:00." (a dot without digits): the one place where the two time readers differ internally
    (`Doc.partialTime` succeeds and leaves the dot, `Std.parseTime` fails); both whole-string
    parsers reject it -/
example : Std.parseTime [48, 55, 58, 51, 50, 58, 48, 48, 46] = none ∧
    Doc.partialTime [48, 55, 58, 51, 50, 58, 48, 48, 46] = .ok ⟨7, 32, 0, 0⟩ [46] ∧
    Std.fromStr [48, 55, 58, 51, 50, 58, 48, 48, 46] = none ∧
    Doc.parseAll [48, 55, 58, 51, 50, 58, 48, 48, 46] = none := by decide

/-! ## ranges -/

/-- nanoseconds below one second -/
def NanosInRange (t : Time) : Prop := t.nanosecond ≤ 999999999

/-- one of the four kinds: offset date-time, local date-time, local date, local time -/
def ShapeOk (dt : Datetime) : Prop :=
  (dt.offset ≠ none → dt.date ≠ none ∧ dt.time ≠ none) ∧
  (dt.date = none → dt.time ≠ none ∧ dt.offset = none)

/-- every present field is in range and the value has one of the four shapes -/
def FieldsInRange (dt : Datetime) : Prop :=
  (∀ d, dt.date = some d → DateInRange d) ∧
  (∀ t, dt.time = some t → TimeInRange t ∧ NanosInRange t) ∧
  (∀ o, dt.offset = some o → OffsetInRange o) ∧
  ShapeOk dt

theorem offsetInRange_of (o : Offset) (h : ∀ m, o = .custom m → -1439 ≤ m ∧ m ≤ 1439) : OffsetInRange o := by
  cases o with
  | z => trivial
  | custom m => exact h m rfl

theorem doc_dateTime_ranges (s rest : Bytes) (dt : Datetime) (h : Doc.dateTime s = .ok dt rest) :
    FieldsInRange dt := by
  unfold Doc.dateTime at h
  split at h
  · rename_i d r hd
    have hdr : DateInRange d := fullDate_range _ _ _ hd
    split at h
    · split at h
      · split at h
        · rename_i t r'' ht
          have htr := partialTime_range _ _ _ ht
          split at h
          · rename_i o r3 ho
            have hor := offsetInRange_of o (timeOffset_range _ _ _ ho)
            injection h with h1 _; subst h1
            simp [FieldsInRange, ShapeOk, TimeInRange, NanosInRange, *]
          · injection h with h1 _; subst h1
            simp [FieldsInRange, ShapeOk, TimeInRange, NanosInRange, *]
          · contradiction
        · injection h with h1 _; subst h1
          simp [FieldsInRange, ShapeOk, *]
        · contradiction
      · injection h with h1 _; subst h1
        simp [FieldsInRange, ShapeOk, *]
    · injection h with h1 _; subst h1
      simp [FieldsInRange, ShapeOk, *]
  · contradiction
  · split at h
    · rename_i t r ht
      have htr := partialTime_range _ _ _ ht
      injection h with h1 _; subst h1
      simp [FieldsInRange, ShapeOk, TimeInRange, NanosInRange, *]
    · contradiction
    · contradiction

theorem T12_doc_ranges (s : Bytes) (dt : Datetime) (h : Doc.parseAll s = some dt) : FieldsInRange dt := by
  unfold Doc.parseAll at h
  split at h
  · rename_i d hd
    injection h with h; subst h
    exact doc_dateTime_ranges _ _ _ hd
  · contradiction

theorem T12_std_ranges (s : Bytes) (dt : Datetime) (h : Std.fromStr s = some dt) : FieldsInRange dt :=
  T12_doc_ranges s dt (T12_agree s ▸ h)

/-- non-vacuity of the two range theorems: "2000-02-29 23:59:60.999999999-23:59" is accepted -/
example : Std.fromStr [50, 48, 48, 48, 45, 48, 50, 45, 50, 57, 32, 50, 51, 58, 53, 57, 58, 54, 48, 46,
      57, 57, 57, 57, 57, 57, 57, 57, 57, 45, 50, 51, 58, 53, 57] =
    some ⟨some ⟨2000, 2, 29⟩, some ⟨23, 59, 60, 999999999⟩, some (.custom (-1439))⟩ := by decide
example : Doc.parseAll [50, 48, 48, 48, 45, 48, 50, 45, 50, 57, 32, 50, 51, 58, 53, 57, 58, 54, 48, 46,
      57, 57, 57, 57, 57, 57, 57, 57, 57, 45, 50, 51, 58, 53, 57] =
    some ⟨some ⟨2000, 2, 29⟩, some ⟨23, 59, 60, 999999999⟩, some (.custom (-1439))⟩ := by decide

/-! ## round trip through the printer -/

theorem doc_roundtrip (dt : Datetime) (h : FieldsInRange dt)
    (hy : ∀ d, dt.date = some d → d.year ≤ 9999) : Doc.parseAll (Std.display dt) = some dt := by
  obtain ⟨date, time, offset⟩ := dt
  obtain ⟨hd, ht, ho, hs1, hs2⟩ := h
  simp only at hd ht ho hs1 hs2 hy
  cases date with
  | none =>
    obtain ⟨h1, h2⟩ := hs2 rfl
    subst h2
    cases time with
    | none => exact absurd rfl h1
    | some t =>
      obtain ⟨⟨a, b, c⟩, n⟩ := ht t rfl
      have e : Std.display ⟨none, some t, none⟩ = Std.displayTime t := by simp [Std.display]
      have f1 := fullDate_displayTime t [] a
      have f2 := partialTime_display t [] a b c n timeFollow_nil
      rw [List.append_nil] at f1 f2
      rw [e]
      simp [Doc.parseAll, Doc.dateTime, f1, f2]
  | some d =>
    obtain ⟨m1, m2, d1, d2⟩ := hd d rfl
    have hyy := hy d rfl
    cases time with
    | none =>
      cases offset with
      | some o => exact absurd rfl (hs1 (by simp)).2
      | none =>
        have e : Std.display ⟨some d, none, none⟩ = Std.displayDate d := by simp [Std.display]
        have f1 := fullDate_display d [] hyy m1 m2 d1 d2
        rw [List.append_nil] at f1
        rw [e]
        simp [Doc.parseAll, Doc.dateTime, f1]
    | some t =>
      obtain ⟨⟨a, b, c⟩, n⟩ := ht t rfl
      cases offset with
      | none =>
        have e : Std.display ⟨some d, some t, none⟩ = Std.displayDate d ++ (0x54 :: Std.displayTime t) := by
          simp [Std.display]
        have f2 := partialTime_display t [] a b c n timeFollow_nil
        rw [List.append_nil] at f2
        rw [e]
        simp [Doc.parseAll, Doc.dateTime, fullDate_display d _ hyy m1 m2 d1 d2, Doc.isTimeDelim,
          f2, Doc.timeOffset]
      | some o =>
        have hor := ho o rfl
        have hor' : ∀ m, o = .custom m → -1439 ≤ m ∧ m ≤ 1439 := by
          intro m hm; subst hm; exact hor
        have e : Std.display ⟨some d, some t, some o⟩ =
            Std.displayDate d ++ (0x54 :: (Std.displayTime t ++ Std.displayOffset o)) := by
          simp [Std.display]
        have f2 := partialTime_display t _ a b c n (timeFollow_offset o [])
        have f3 := timeOffset_display o [] hor'
        rw [List.append_nil] at f2 f3
        rw [e]
        simp [Doc.parseAll, Doc.dateTime, fullDate_display d _ hyy m1 m2 d1 d2, Doc.isTimeDelim,
          f2, f3]

/-- printing an in-range value of one of the four kinds (year at most 9999) and reading the text
    back with either parser gives exactly the same value.  There is no exception for a zero
    offset: `custom 0` is written `+00:00`, which reads back as `custom 0` (the model's offset is an
    `Int`, so the input `-00:00` also reads as `custom 0`; see the examples below). -/
theorem T12_roundtrip (dt : Datetime) (h : FieldsInRange dt)
    (hy : ∀ d, dt.date = some d → d.year ≤ 9999) :
    Std.fromStr (Std.display dt) = some dt ∧ Doc.parseAll (Std.display dt) = some dt :=
  ⟨(T12_agree _).trans (doc_roundtrip dt h hy), doc_roundtrip dt h hy⟩

/-- non-vacuity of `T12_roundtrip`: a value with a fraction and a negative offset satisfies the
    hypotheses; it is written "1979-05-27T07:32:00.00012-01:30" -/
example : FieldsInRange ⟨some ⟨1979, 5, 27⟩, some ⟨7, 32, 0, 120000⟩, some (.custom (-90))⟩ ∧
    Std.display ⟨some ⟨1979, 5, 27⟩, some ⟨7, 32, 0, 120000⟩, some (.custom (-90))⟩ =
      [49, 57, 55, 57, 45, 48, 53, 45, 50, 55, 84, 48, 55, 58, 51, 50, 58, 48, 48, 46, 48, 48, 48, 49, 50,
       45, 48, 49, 58, 51, 48] := by
  refine ⟨⟨?_, ?_, ?_, ?_⟩, by decide⟩
  · intro d h; injection h with h; subst h; simp [DateInRange, maxDays]
  · intro t h; injection h with h; subst h; simp [TimeInRange, NanosInRange]
  · intro o h; injection h with h; subst h; simp [OffsetInRange]
  · simp [ShapeOk]
/-- a time-only value satisfies the hypotheses as well -/
example : FieldsInRange ⟨none, some ⟨7, 32, 0, 1⟩, none⟩ := by
  refine ⟨?_, ?_, ?_, ?_⟩
  · intro d h; cases h
  · intro t h; injection h with h; subst h; simp [TimeInRange, NanosInRange]
  · intro o h; cases h
  · simp [ShapeOk]
/-- zero offsets: "1979-05-27T07:32:00-00:00" reads as `custom 0`, which is written back with `+` -/
example : Std.fromStr [49, 57, 55, 57, 45, 48, 53, 45, 50, 55, 84, 48, 55, 58, 51, 50, 58, 48, 48,
      45, 48, 48, 58, 48, 48] = some ⟨some ⟨1979, 5, 27⟩, some ⟨7, 32, 0, 0⟩, some (.custom 0)⟩ ∧
    Std.display ⟨some ⟨1979, 5, 27⟩, some ⟨7, 32, 0, 0⟩, some (.custom 0)⟩ =
      [49, 57, 55, 57, 45, 48, 53, 45, 50, 55, 84, 48, 55, 58, 51, 50, 58, 48, 48,
       43, 48, 48, 58, 48, 48] := by decide

end TomlVerif.Props.C12

