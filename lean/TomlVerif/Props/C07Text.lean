import TomlVerif.Props.C07
import TomlVerif.Lemmas.Ser07TextCanon
/-! # C07 at the TEXT level — the text a serializer route returns parses back to the documented image of the value

`Props/C07.lean` shows that the routes produce a document TREE whose printed content (`shownRoot`) is the image
`Spec.Serde.expected` of the serde value.  Here the TEXT is parsed: `Doc.parseDocument` on the returned text gives a
table which, read as plain data (`dataTbl`: tables of every syntax are maps, arrays of tables are arrays of maps),
is the content the tree theorems speak of — nothing dropped, nothing altered.

`Model/Ser.lean` has no printer and `Driver/C07.lean` prints no text, so the texts are defined in
`Lemmas/Ser07Text.lean` / `Lemmas/Ser07TextRoutes.lean` from the two printers of the project
(`Encode06.printDoc` for `toml_edit::ser::to_string`; `TomlValue.renderStmts ∘ emitDoc` for the formatted routes).

What the parsed data is compared with:
* NaN payloads: a TOML text says `nan` or `-nan` only, so floats are compared after `canonFloat` (`canonKVs`);
* order: `toml_edit::ser::to_string` keeps the order of the image at every level; the formatted routes print, in
  every table that becomes a `[table]` / `[[array of tables]]` section and at the root, the entries that stay
  values before the sub-tables (TOML leaves no choice), so the parsed document holds `docOrder kvs`
  (the driver's comparison sorts the keys and does not see the difference).

Hypotheses (all on the image `kvs` of the value; outside them see `T07_text_depth_*`):
* `LeavesOkSKVs disp kvs`: integers in the `i64` range (`SVal.int w n` presupposes that `n` is a value of width `w`;
  the model does not check it), `disp` gives for every double in the tree the text std guarantees (`FloatOk`, as in
  C06), date-times have fields in range and a year ≤ 9999;
* `depthSKVs kvs < LIMIT`: arrays and tables nested fewer than 80 deep below the root table.
Distinct keys need no hypothesis: `serDocument_nodup`. -/
namespace TomlVerif.Props.C07Text
open TomlVerif TomlVerif.Model TomlVerif.Model.Ser TomlVerif.Spec TomlVerif.Spec.Serde
open TomlVerif.Lemmas.Ser07 TomlVerif.Lemmas.Ser07Text TomlVerif.Props.C07
open TomlVerif.Model.Value (LIMIT)

/-! ## the texts, unfolded -/

theorem textEdit_eq (disp : FloatDisp) (v : SVal) :
    textEdit disp v = (serDocument v).map fun kvs => Encode06.printDoc (editDoc disp kvs) := by
  unfold textEdit; cases serDocument v <;> rfl
theorem textEditPretty_eq (disp : FloatDisp) (v : SVal) :
    textEditPretty disp v = (serDocument v).map (fmtText disp true) := by
  unfold textEditPretty; cases serDocument v <;> rfl
theorem textToml_eq (byName : Bool) (disp : FloatDisp) (v : SVal) :
    textToml byName disp v = (tomlDocument byName v).map (fmtText disp false) := by
  unfold textToml; cases tomlDocument byName v <;> rfl
theorem textTomlPretty_eq (byName : Bool) (disp : FloatDisp) (v : SVal) :
    textTomlPretty byName disp v = (tomlDocument byName v).map (fmtText disp true) := by
  unfold textTomlPretty; cases tomlDocument byName v <;> rfl

/-! ## the error side: text production never fails once the tree exists -/

theorem T07_text_edit_error (disp : FloatDisp) (v : SVal) (e : SerErr) :
    textEdit disp v = .error e ↔ routeEdit v = .error e := by
  unfold textEdit routeEdit; cases serDocument v <;> simp
theorem T07_text_edit_pretty_error (disp : FloatDisp) (v : SVal) (e : SerErr) :
    textEditPretty disp v = .error e ↔ routeEditPretty true v = .error e := by
  unfold textEditPretty routeEditPretty; cases serDocument v <;> simp
theorem T07_text_toml_error (byName : Bool) (disp : FloatDisp) (v : SVal) (e : SerErr) :
    textToml byName disp v = .error e ↔ routeToml byName v = .error e := by
  unfold textToml routeToml; cases tomlDocument byName v <;> simp
theorem T07_text_toml_pretty_error (byName : Bool) (disp : FloatDisp) (v : SVal) (e : SerErr) :
    textTomlPretty byName disp v = .error e ↔ routeToml byName v = .error e := by
  unfold textTomlPretty routeToml; cases tomlDocument byName v <;> simp

/-- so `T07_route_edit_errors` lifts: `toml_edit::ser::to_string` returns an error only on an unsupported shape or
    a non-table root -/
theorem T07_text_edit_errors (disp : FloatDisp) (v : SVal) (e : SerErr) (h : textEdit disp v = .error e) :
    unsupported v = true ∨ nonTableRoot v :=
  T07_route_edit_errors v e ((T07_text_edit_error disp v e).1 h)
theorem T07_text_edit_pretty_errors (disp : FloatDisp) (v : SVal) (e : SerErr) (h : textEditPretty disp v = .error e) :
    unsupported v = true ∨ nonTableRoot v := by
  have h' := (T07_text_edit_pretty_error disp v e).1 h
  refine T07_route_edit_errors v e ?_
  unfold routeEditPretty at h'; unfold routeEdit
  revert h'; cases serDocument v <;> simp
theorem T07_text_toml_errors (byName : Bool) (disp : FloatDisp) (v : SVal) (e : SerErr)
    (h : textToml byName disp v = .error e) : unsupported v = true ∨ nonTableRoot v ∨ variantRoot v = true :=
  T07_route_toml_errors byName v e ((T07_text_toml_error byName disp v e).1 h)
theorem T07_text_toml_pretty_errors (byName : Bool) (disp : FloatDisp) (v : SVal) (e : SerErr)
    (h : textTomlPretty byName disp v = .error e) : unsupported v = true ∨ nonTableRoot v ∨ variantRoot v = true :=
  T07_route_toml_errors byName v e ((T07_text_toml_pretty_error byName disp v e).1 h)

/-- and a text is returned exactly when the tree route returns a table -/
theorem T07_text_edit_defined (disp : FloatDisp) (v : SVal) :
    (∃ t, textEdit disp v = .ok t) ↔ ∃ kvs, routeEdit v = .ok kvs := by
  unfold textEdit routeEdit; cases serDocument v <;> simp

/-! ## `toml_edit::ser::to_string` -/

/-- **T07_text_edit**: the text `toml_edit::ser::to_string` returns, parsed by the document parser and read as
    plain data, is the table the tree route shows (`routeEdit`), which is the image of the value — same keys, same
    values, same order at every level, NaNs up to their payload. -/
theorem T07_text_edit (disp : FloatDisp) (v : SVal) (t : Bytes) (h : textEdit disp v = .ok t) :
    ∃ kvs, routeEdit v = .ok kvs ∧ expected v = some (.inl kvs) ∧
      (LeavesOkSKVs disp kvs → depthSKVs kvs < LIMIT →
        (Doc.parseDocument t).map dataTbl = some (canonKVs kvs)) := by
  unfold textEdit at h
  cases hs : serDocument v with
  | error e => rw [hs] at h; cases h
  | ok kvs =>
    rw [hs] at h
    simp only [Except.ok.injEq] at h
    subst h
    have hr : routeEdit v = .ok kvs := by unfold routeEdit; rw [hs]; simp only [T07_format_plain]
    exact ⟨kvs, hr, T07_route_edit v kvs hr, fun hl hd => parse_editDoc disp kvs (serDocument_nodup v kvs hs) hl hd⟩

/-! ## the formatted routes -/

/-- full statement for a formatted route: `text` the route's text, `route` its tree-level content -/
def T07_text_fmt_statement (text : FloatDisp → SVal → Except SerErr Bytes)
    (route : SVal → Except SerErr (List (Bytes × V))) : Prop :=
  ∀ (disp : FloatDisp) (v : SVal) (t : Bytes), text disp v = .ok t →
    ∃ kvs, route v = .ok kvs ∧
      (LeavesOkSKVs disp kvs → depthSKVs kvs < LIMIT →
        (Doc.parseDocument t).map dataTbl = some (docOrder (canonKVs kvs)))

theorem fmt_statement_of (p : Bool) (doc : SVal → Except SerErr (List (Bytes × V)))
    (hnd : ∀ v kvs, doc v = .ok kvs → NodupSKVs kvs ∧ (kvs.map Prod.fst).Nodup) :
    T07_text_fmt_statement (fun disp v => match doc v with | .ok kvs => .ok (fmtText disp p kvs) | .error e => .error e)
      (fun v => match doc v with | .ok kvs => .ok (shownRoot (visitRoot true kvs)) | .error e => .error e) := by
  intro disp v t h
  dsimp only at h ⊢
  cases hs : doc v with
  | error e => rw [hs] at h; cases h
  | ok kvs =>
    rw [hs] at h
    simp only [Except.ok.injEq] at h
    subst h
    exact ⟨kvs, by simp only [T07_format_toml], fun hl hd => parse_fmtText disp p kvs (hnd v kvs hs) hl hd⟩

/-- the table `toml::ser` starts from has distinct keys at every level -/
theorem tomlDocument_nodup (byName : Bool) (v : SVal) (kvs : List (Bytes × V)) (h : tomlDocument byName v = .ok kvs) :
    NodupSKVs kvs ∧ (kvs.map Prod.fst).Nodup := by
  have hser : ∀ w, serDocument w = .ok kvs → NodupSKVs kvs ∧ (kvs.map Prod.fst).Nodup :=
    fun w hw => serDocument_nodup w kvs hw
  cases v with
  | structVariant a b c => simp [tomlDocument] at h
  | tupleVariant a b xs =>
    simp only [tomlDocument] at h
    cases hx : serSeq xs with
    | error e => rw [hx] at h; cases h
    | ok l => rw [hx] at h; cases h
  | struct name fields =>
    simp only [tomlDocument] at h
    split at h
    · exact hser _ h
    · exact serFields_nodup fields [] kvs ⟨by simp [NodupSKVs], by simp⟩ h
  | bool _ => exact hser _ (by simpa only [tomlDocument] using h)
  | int _ _ => exact hser _ (by simpa only [tomlDocument] using h)
  | f32 _ => exact hser _ (by simpa only [tomlDocument] using h)
  | f64 _ => exact hser _ (by simpa only [tomlDocument] using h)
  | char _ => exact hser _ (by simpa only [tomlDocument] using h)
  | str _ => exact hser _ (by simpa only [tomlDocument] using h)
  | bytes _ => exact hser _ (by simpa only [tomlDocument] using h)
  | none => exact hser _ (by simpa only [tomlDocument] using h)
  | some _ => exact hser _ (by simpa only [tomlDocument] using h)
  | unit => exact hser _ (by simpa only [tomlDocument] using h)
  | unitStruct _ => exact hser _ (by simpa only [tomlDocument] using h)
  | newtype _ _ => exact hser _ (by simpa only [tomlDocument] using h)
  | seq _ => exact hser _ (by simpa only [tomlDocument] using h)
  | tuple _ => exact hser _ (by simpa only [tomlDocument] using h)
  | tupleStruct _ _ => exact hser _ (by simpa only [tomlDocument] using h)
  | map _ => exact hser _ (by simpa only [tomlDocument] using h)
  | unitVariant _ _ => exact hser _ (by simpa only [tomlDocument] using h)
  | newtypeVariant _ _ _ => exact hser _ (by simpa only [tomlDocument] using h)

/-- **T07_text_edit_pretty**: `toml_edit::ser::to_string_pretty` with the F5 guard in place: the text parses to the
    content `routeEditPretty true` shows (= the image, `T07_route_edit_pretty_guarded`), in document order -/
theorem T07_text_edit_pretty : T07_text_fmt_statement textEditPretty (routeEditPretty true) :=
  fmt_statement_of true serDocument serDocument_nodup

/-- **T07_text_toml**: `toml::to_string` (either flavour of `serialize_struct`) -/
theorem T07_text_toml (byName : Bool) : T07_text_fmt_statement (textToml byName) (routeToml byName) :=
  fmt_statement_of false (tomlDocument byName) (tomlDocument_nodup byName)

/-- **T07_text_toml_pretty**: `toml::to_string_pretty` -/
theorem T07_text_toml_pretty (byName : Bool) : T07_text_fmt_statement (textTomlPretty byName) (routeToml byName) :=
  fmt_statement_of true (tomlDocument byName) (tomlDocument_nodup byName)

/-- with `T07_route_toml_repaired`: text → parse → image of the value (repaired flavour, both layouts) -/
theorem T07_text_toml_repaired_image (pretty : Bool) (disp : FloatDisp) (v : SVal) (t : Bytes)
    (h : (if pretty then textTomlPretty true disp v else textToml true disp v) = .ok t) :
    ∃ kvs, expected v = some (.inl kvs) ∧
      (LeavesOkSKVs disp kvs → depthSKVs kvs < LIMIT →
        (Doc.parseDocument t).map dataTbl = some (docOrder (canonKVs kvs))) := by
  cases pretty with
  | false =>
    obtain ⟨kvs, hr, hp⟩ := T07_text_toml true disp v t h
    exact ⟨kvs, T07_route_toml_repaired v kvs hr, hp⟩
  | true =>
    obtain ⟨kvs, hr, hp⟩ := T07_text_toml_pretty true disp v t h
    exact ⟨kvs, T07_route_toml_repaired v kvs hr, hp⟩

/-- the code as it stands (`byName = false`): the same unless the root is the date-time struct
    (`T07_finding_toml_root_datetime`) -/
theorem T07_text_toml_image (pretty : Bool) (disp : FloatDisp) (v : SVal) (t : Bytes) (hd : datetimeRoot v = false)
    (h : (if pretty then textTomlPretty false disp v else textToml false disp v) = .ok t) :
    ∃ kvs, expected v = some (.inl kvs) ∧
      (LeavesOkSKVs disp kvs → depthSKVs kvs < LIMIT →
        (Doc.parseDocument t).map dataTbl = some (docOrder (canonKVs kvs))) := by
  cases pretty with
  | false =>
    obtain ⟨kvs, hr, hp⟩ := T07_text_toml false disp v t h
    exact ⟨kvs, T07_route_toml false v kvs (.inr hd) hr, hp⟩
  | true =>
    obtain ⟨kvs, hr, hp⟩ := T07_text_toml_pretty false disp v t h
    exact ⟨kvs, T07_route_toml false v kvs (.inr hd) hr, hp⟩

/-- with `T07_route_edit_pretty_guarded` -/
theorem T07_text_edit_pretty_image (disp : FloatDisp) (v : SVal) (t : Bytes) (h : textEditPretty disp v = .ok t) :
    ∃ kvs, expected v = some (.inl kvs) ∧
      (LeavesOkSKVs disp kvs → depthSKVs kvs < LIMIT →
        (Doc.parseDocument t).map dataTbl = some (docOrder (canonKVs kvs))) := by
  obtain ⟨kvs, hr, hp⟩ := T07_text_edit_pretty disp v t h
  exact ⟨kvs, T07_route_edit_pretty_guarded v kvs hr, hp⟩

/-- the plain and the pretty text of `toml::to_string*` decode to the same data -/
theorem T07_text_toml_layouts_agree (byName : Bool) (disp : FloatDisp) (v : SVal) (t1 t2 : Bytes)
    (h1 : textToml byName disp v = .ok t1) (h2 : textTomlPretty byName disp v = .ok t2)
    (hl : ∀ kvs, routeToml byName v = .ok kvs → LeavesOkSKVs disp kvs ∧ depthSKVs kvs < LIMIT) :
    (Doc.parseDocument t1).map dataTbl = (Doc.parseDocument t2).map dataTbl := by
  obtain ⟨kvs, hr, hp⟩ := T07_text_toml byName disp v t1 h1
  obtain ⟨kvs', hr', hp'⟩ := T07_text_toml_pretty byName disp v t2 h2
  rw [hr] at hr'
  injection hr' with hr'
  subst hr'
  obtain ⟨a, b⟩ := hl kvs hr
  rw [hp a b, hp' a b]

/-! ## outside the depth hypothesis: the serializer prints what the parser refuses

The serializers have no nesting limit, the parser has (`LIMIT` = 80 with the default features).  A value whose image
nests arrays / tables 80 or more deep below the root table is serialized without error, to a text that
`Doc.parseDocument` rejects — so the text does not "decode back" at all.  79 levels still round-trip: the bound of the
theorems is exact.  (Candidate observation for the real crates: `toml::to_string(&v)` succeeds and
`toml::from_str` on its output fails with the recursion-limit error for `struct S { a: Vec<Vec<…Vec<i64>…>> }` 80 deep.) -/

def nestSeq : Nat → SVal
  | 0 => .int .i64 1
  | n + 1 => .seq [nestSeq n]

/-- `S { a: [[…[1]…]] }` with `n` array levels -/
def deepValue (n : Nat) : SVal := .struct [0x53] [([0x61], nestSeq n)]

/-- no float anywhere: any `disp` will do -/
def noDisp : FloatDisp := fun _ => []

def okParses (e : Except SerErr Bytes) : Bool :=
  match e with
  | .ok t => (Doc.parseDocument t).isSome
  | .error _ => false

def isOk (e : Except SerErr Bytes) : Bool :=
  match e with
  | .ok _ => true
  | .error _ => false

/-- **T07_text_depth_witness**: 80 levels: every route returns a text, no text parses; 79 levels: all parse -/
theorem T07_text_depth_witness :
    isOk (textEdit noDisp (deepValue 80)) = true ∧ okParses (textEdit noDisp (deepValue 80)) = false ∧
    isOk (textToml false noDisp (deepValue 80)) = true ∧ okParses (textToml false noDisp (deepValue 80)) = false ∧
    isOk (textTomlPretty false noDisp (deepValue 80)) = true ∧ okParses (textTomlPretty false noDisp (deepValue 80)) = false ∧
    okParses (textEdit noDisp (deepValue 79)) = true ∧ okParses (textToml false noDisp (deepValue 79)) = true := by
  decide +kernel

/-! ## non-vacuity -/

/-- `Cfg { name: "a", inner: Inner { x: 1, opt: None }, pts: vec![P { x: 1 }, P { x: 2 }], kind: Kind::N(7),
    m: {"a b": true}, when: Datetime(1979-05-27), tags: ["x", "y"] }`:
    a nested struct with a skipped `None` field, a vector of structs, a newtype variant, a map with a key that
    needs quotes, a date-time, a vector of strings -/
def big : SVal :=
  .struct (strBytes "Cfg") [
    (strBytes "name", .str (strBytes "a")),
    (strBytes "inner", .struct (strBytes "Inner") [(strBytes "x", .int .i64 1), (strBytes "opt", .none)]),
    (strBytes "pts", .seq [.struct (strBytes "P") [(strBytes "x", .int .i32 1)], .struct (strBytes "P") [(strBytes "x", .int .i32 2)]]),
    (strBytes "kind", .newtypeVariant (strBytes "Kind") (strBytes "N") (.int .u8 7)),
    (strBytes "m", .map [(.str (strBytes "a b"), .bool true)]),
    (strBytes "when", datetimeStruct),
    (strBytes "tags", .seq [.str (strBytes "x"), .str (strBytes "y")])]

/-- its image -/
def bigTree : List (Bytes × V) :=
  [(strBytes "name", .sc (.str (strBytes "a"))),
   (strBytes "inner", .inl [(strBytes "x", .sc (.int 1))]),
   (strBytes "pts", .arr [.inl [(strBytes "x", .sc (.int 1))], .inl [(strBytes "x", .sc (.int 2))]]),
   (strBytes "kind", .inl [(strBytes "N", .sc (.int 7))]),
   (strBytes "m", .inl [(strBytes "a b", .sc (.bool true))]),
   (strBytes "when", .sc (.dt dateValue)),
   (strBytes "tags", .arr [.sc (.str (strBytes "x")), .sc (.str (strBytes "y"))])]

/-- the image in document order: values first, then the tables and the array of tables -/
def bigDoc : List (Bytes × V) :=
  [(strBytes "name", .sc (.str (strBytes "a"))),
   (strBytes "when", .sc (.dt dateValue)),
   (strBytes "tags", .arr [.sc (.str (strBytes "x")), .sc (.str (strBytes "y"))]),
   (strBytes "inner", .inl [(strBytes "x", .sc (.int 1))]),
   (strBytes "pts", .arr [.inl [(strBytes "x", .sc (.int 1))], .inl [(strBytes "x", .sc (.int 2))]]),
   (strBytes "kind", .inl [(strBytes "N", .sc (.int 7))]),
   (strBytes "m", .inl [(strBytes "a b", .sc (.bool true))])]

def bigEditText : Bytes := strBytes
  "name = \"a\"\ninner = { x = 1 }\npts = [{ x = 1 }, { x = 2 }]\nkind = { N = 7 }\nm = { \"a b\" = true }\nwhen = 1979-05-27\ntags = [\"x\", \"y\"]\n"
def bigTomlText : Bytes := strBytes
  "name = \"a\"\nwhen = 1979-05-27\ntags = [\"x\", \"y\"]\n\n[inner]\nx = 1\n\n[[pts]]\nx = 1\n\n[[pts]]\nx = 2\n\n[kind]\nN = 7\n\n[m]\n\"a b\" = true\n"
def bigPrettyText : Bytes := strBytes
  "name = \"a\"\nwhen = 1979-05-27\ntags = [\n    \"x\",\n    \"y\",\n]\n\n[inner]\nx = 1\n\n[[pts]]\nx = 1\n\n[[pts]]\nx = 2\n\n[kind]\nN = 7\n\n[m]\n\"a b\" = true\n"

def okIs (e : Except SerErr Bytes) (b : Bytes) : Bool :=
  match e with
  | .ok t => t == b
  | .error _ => false

theorem okIs_sound (e : Except SerErr Bytes) (b : Bytes) (h : okIs e b = true) : e = .ok b := by
  cases e with
  | error x => simp [okIs] at h
  | ok t => simp only [okIs, beq_iff_eq] at h; rw [h]

theorem big_edit : textEdit noDisp big = .ok bigEditText := okIs_sound _ _ (by decide +kernel)
theorem big_toml : textToml true noDisp big = .ok bigTomlText := okIs_sound _ _ (by decide +kernel)
theorem big_toml_asis : textToml false noDisp big = .ok bigTomlText := okIs_sound _ _ (by decide +kernel)
theorem big_toml_pretty : textTomlPretty true noDisp big = .ok bigPrettyText := okIs_sound _ _ (by decide +kernel)
theorem big_edit_pretty : textEditPretty noDisp big = .ok bigPrettyText := okIs_sound _ _ (by decide +kernel)

theorem big_image : expected big = some (.inl bigTree) := by with_unfolding_all rfl
theorem big_route : routeEdit big = .ok bigTree := by with_unfolding_all rfl
theorem big_route_toml : routeToml true big = .ok bigTree := by with_unfolding_all rfl

theorem dateValue_ok : Props.C12.FieldsInRange dateValue ∧ ∀ x, dateValue.date = some x → x.year ≤ 9999 := by
  refine ⟨⟨?_, ?_, ?_, ?_⟩, ?_⟩
  · intro x hx; simp [dateValue] at hx; subst hx; simp [Props.C12.DateInRange, Datetime.maxDays]
  · intro t ht; simp [dateValue] at ht
  · intro o ho; simp [dateValue] at ho
  · simp [dateValue, Props.C12.ShapeOk]
  · intro x hx; simp [dateValue] at hx; subst hx; decide

/-- the hypotheses of the theorems hold for the image of `big` -/
theorem big_hyps : LeavesOkSKVs noDisp bigTree ∧ depthSKVs bigTree < LIMIT ∧ canonKVs bigTree = bigTree := by
  refine ⟨?_, by decide +kernel, by with_unfolding_all rfl⟩
  simp only [bigTree, LeavesOkSKVs, LeavesOkS, LeavesOkSs, ScalarOkS, and_true, true_and]
  exact ⟨by decide, ⟨by decide, by decide⟩, by decide, dateValue_ok⟩

theorem big_docOrder : docOrder bigTree = bigDoc := by with_unfolding_all rfl

/-- `T07_text_edit` on `big`: the text of `toml_edit::ser::to_string` parses to the image, order kept -/
example : (Doc.parseDocument bigEditText).map dataTbl = some bigTree := by
  obtain ⟨kvs, hr, _, hp⟩ := T07_text_edit noDisp big bigEditText big_edit
  rw [big_route] at hr
  injection hr with hr
  subst hr
  rw [hp big_hyps.1 big_hyps.2.1, big_hyps.2.2]

/-- `T07_text_toml` / `T07_text_toml_pretty` on `big`: the formatted texts parse to the image in document order -/
example : (Doc.parseDocument bigTomlText).map dataTbl = some bigDoc ∧
    (Doc.parseDocument bigPrettyText).map dataTbl = some bigDoc := by
  constructor
  · obtain ⟨kvs, hr, hp⟩ := T07_text_toml true noDisp big bigTomlText big_toml
    rw [big_route_toml] at hr
    injection hr with hr
    subst hr
    rw [hp big_hyps.1 big_hyps.2.1, big_hyps.2.2, big_docOrder]
  · obtain ⟨kvs, hr, hp⟩ := T07_text_toml_pretty true noDisp big bigPrettyText big_toml_pretty
    rw [big_route_toml] at hr
    injection hr with hr
    subst hr
    rw [hp big_hyps.1 big_hyps.2.1, big_hyps.2.2, big_docOrder]

/-- `T07_text_edit_pretty` on `big` -/
example : (Doc.parseDocument bigPrettyText).map dataTbl = some bigDoc := by
  obtain ⟨kvs, hr, hp⟩ := T07_text_edit_pretty noDisp big bigPrettyText big_edit_pretty
  have hk : routeEditPretty true big = .ok bigTree := by with_unfolding_all rfl
  rw [hk] at hr
  injection hr with hr
  subst hr
  rw [hp big_hyps.1 big_hyps.2.1, big_hyps.2.2, big_docOrder]

/-- a NaN with a payload (`f64::from_bits(0x7FF0000000000001)`): printed as `nan`, read back as the canonical NaN -/
example : textToml true noDisp (.struct [0x50] [([0x78], .f64 0x7FF0000000000001)]) = .ok (strBytes "x = nan\n") ∧
    canonKVs [([0x78], .sc (.float 0x7FF0000000000001))] = [([0x78], .sc (.float 0x7FF8000000000000))] ∧
    LeavesOkSKVs noDisp [([0x78], .sc (.float 0x7FF0000000000001))] := by
  refine ⟨okIs_sound _ _ (by decide +kernel), by with_unfolding_all rfl, ?_⟩
  simp only [LeavesOkSKVs, LeavesOkS, ScalarOkS, and_true]
  exact Props.C06.FloatOk.nan _ _ (by decide) (by decide)

/-- a double: `P { x: 1.5 }` with std's text "1.5" -/
def fltValue : SVal := .struct [0x50] [([0x78], .f64 0x3FF8000000000000)]
def fltDisp : FloatDisp := fun b => if b = 0x3FF8000000000000 then [0x31, 0x2E, 0x35] else []

theorem flt_text : textEdit fltDisp fltValue = .ok (strBytes "x = 1.5\n") ∧
    textToml true fltDisp fltValue = .ok (strBytes "x = 1.5\n") :=
  ⟨okIs_sound _ _ (by decide +kernel), okIs_sound _ _ (by decide +kernel)⟩

theorem flt_hyps : LeavesOkSKVs fltDisp [([0x78], .sc (.float 0x3FF8000000000000))] := by
  simp only [LeavesOkSKVs, LeavesOkS, ScalarOkS, and_true]
  exact Props.C06.FloatOk.fin 0x3FF8000000000000 false [0x31] (some [0x35]) (by simp) (by decide)
    (by intro t h; injection h with h _; exact absurd h (by decide))
    (by intro f h; injection h with h; subst h; exact ⟨by simp, by decide⟩) (by decide +kernel) (by decide) (by decide)

example : (Doc.parseDocument (strBytes "x = 1.5\n")).map dataTbl = some [([0x78], .sc (.float 0x3FF8000000000000))] := by
  obtain ⟨kvs, hr, _, hp⟩ := T07_text_edit fltDisp fltValue _ flt_text.1
  have hk : routeEdit fltValue = .ok [([0x78], .sc (.float 0x3FF8000000000000))] := by with_unfolding_all rfl
  rw [hk] at hr
  injection hr with hr
  subst hr
  rw [hp flt_hyps (by decide +kernel)]
  with_unfolding_all rfl

/-- the error side: `None` in a sequence, a non-table root -/
example : textEdit noDisp (.seq [.none]) = .error .unsupportedNone ∧
    textToml true noDisp (.seq [.int .i64 1]) = .error .unsupportedType := by
  constructor <;> with_unfolding_all rfl

end TomlVerif.Props.C07Text
