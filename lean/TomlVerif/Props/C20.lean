import TomlVerif.Model.Visit
import TomlVerif.Model.Doc
import TomlVerif.Spec.Preorder
import TomlVerif.Lemmas.Visit20
import TomlVerif.Lemmas.Skeleton20
/-! # C20 — the default visitors reach every node of a document exactly once, in document order;
    a visitor overriding one scalar hook rewrites every scalar of that type and nothing else

* `Model.Visit.trace t` / `visitDocumentMut h t` — transliteration of the default walks of
  `toml_edit::visit` / `toml_edit::visit_mut` (tied to the code by the differential run `c20`).
* `Spec.Preorder.preorder t` — the plain pre-order enumeration of the nodes of the tree (every key/value
  pair, scalar, array, inline table, table, array of tables and each of its elements).
* `nodeEvents` keeps of a trace the hook calls that stand for a node (`visit_table_like_kv`, the five scalar
  hooks, `visit_array`, `visit_inline_table`, `visit_table`, `visit_array_of_tables`) and drops the four dispatch hooks
  (`visit_document`, `visit_item`, `visit_table_like`, `visit_value`); `hooks n` is the fixed sequence of hook calls
  the walk makes on arriving at node `n`.

"Document order" is the order of the decoded tree (insertion order of keys, element order of arrays). -/
namespace TomlVerif.Props.C20
open TomlVerif TomlVerif.Model TomlVerif.Model.Visit TomlVerif.Spec.Preorder
open TomlVerif.Lemmas.Visit20 TomlVerif.Lemmas.Skeleton20

/-- `[[t]]⏎k = {x = [1, {y.z = 2}]}⏎` : an array inside an inline table inside an array of tables, with a
    dotted key inside -/
def exDoc : Bytes := [91, 91, 116, 93, 93, 10, 107, 32, 61, 32, 123, 120, 32, 61, 32, 91, 49, 44, 32, 123, 121, 46, 122,
  32, 61, 32, 50, 125, 93, 125, 10]

/-- the tree of `exDoc` -/
def exTree : Tbl :=
  .mk [([116], .aot [.mk [([107], .value (.inl [([120], .arr [.int 1, .inl [([121], .inl [([122], .int 2)] true true)] false false])]
    false false))] false false (some 1)])] false false none

/-! ## the read-only walk -/

/-- the complete trace of the default read-only walk: `visit_document`, then for every node of the
    pre-order, in that order, exactly the hook calls of that node -/
theorem T20_visit_full (t : Tbl) : trace t = .doc :: (preorder t).flatMap hooks := by
  simp [trace, visitDocument, preorder, visitTable_eq t]

/-- the node events of the default read-only walk are the pre-order of the document: every key/value
    pair, scalar, array, inline table, table and array-of-tables element exactly once, in document order -/
theorem T20_visit (t : Tbl) : nodeEvents (trace t) = preorder t := by
  rw [T20_visit_full]
  show nodeEvents ([Ev.doc] ++ (preorder t).flatMap hooks) = preorder t
  rw [nodeEvents_append, nodeEvents_flatMap_hooks]; rfl

example : nodeEvents (trace exTree) =
    [.table, .pair [116], .arrayOfTables, .table, .pair [107], .inlineTable, .pair [120], .array, .int 1, .inlineTable,
     .pair [121], .inlineTable, .pair [122], .int 2] := by decide
example : preorder exTree =
    [.table, .pair [116], .arrayOfTables, .table, .pair [107], .inlineTable, .pair [120], .array, .int 1, .inlineTable,
     .pair [121], .inlineTable, .pair [122], .int 2] := by
  simp [preorder, exTree, preTbl, preItem, preVal]

/-! ## the mutable walk -/

/-- the mutable walk makes the same hook calls as the read-only walk, whatever the integer hook does
    (each hook is called with the node as it was before the hook ran) -/
theorem T20_visit_mut_full (h : Int → Int) (t : Tbl) : (visitDocumentMut h t).2 = trace t := by
  simp [visitDocumentMut, trace, visitDocument, visitTableMut_snd h t]

/-- the node events of the default mutable walk are the pre-order of the document -/
theorem T20_visit_mut (t : Tbl) : nodeEvents (traceMut t) = preorder t := by
  rw [traceMut, T20_visit_mut_full, T20_visit]

/-- the same under any overriding integer hook -/
theorem T20_visit_mut_any (h : Int → Int) (t : Tbl) : nodeEvents (visitDocumentMut h t).2 = preorder t := by
  rw [T20_visit_mut_full, T20_visit]

/-- the default mutable walk (no hook overridden) leaves the document as it is -/
theorem T20_visit_mut_unchanged (t : Tbl) : (visitDocumentMut id t).1 = t := by
  simp [visitDocumentMut, visitTableMut_id t]

example : traceMut exTree = trace exTree ∧ (traceMut exTree).length = 31 := by decide

/-! ## rewriting every integer -/

/-- a `VisitMut` that overrides only `visit_integer_mut` with `n ↦ f n`: the integers of the document
    after the walk are the old ones mapped through `f`, in the same order, and the document with its
    integers erased — keys, key order, arrays, inline tables, tables, flags, positions, every string,
    float, boolean and date-time — is unchanged -/
theorem T20_rewrite (t : Tbl) (f : Int → Int) :
    ints (rewriteInts f t) = (ints t).map f ∧ skeleton (rewriteInts f t) = skeleton t := by
  simp [rewriteInts, visitDocumentMut, ints, skeleton, intsTbl_mut f t, skelTbl_mut f t]

/-- the number of integers is unchanged: none skipped, none visited twice, none created -/
theorem T20_rewrite_count (t : Tbl) (f : Int → Int) : (ints (rewriteInts f t)).length = (ints t).length := by
  rw [(T20_rewrite t f).1, List.length_map]

/-- a document is determined by its skeleton and its integers, so `T20_rewrite` leaves no freedom:
    any tree with the mapped integers and the old skeleton *is* the rewritten document -/
theorem T20_rewrite_unique (t u : Tbl) (f : Int → Int)
    (hi : ints u = (ints t).map f) (hs : skeleton u = skeleton t) : u = rewriteInts f t := by
  have h := T20_rewrite t f
  exact injTbl u (rewriteInts f t) (by simpa [skeleton] using hs.trans h.2.symm) (by simpa [ints] using hi.trans h.1.symm)

/-- non-vacuity of `T20_rewrite_unique`: `exTree` with 1 ↦ 2, 2 ↦ 3 written out by hand meets both hypotheses -/
example :
    let u : Tbl := .mk [([116], .aot [.mk [([107], .value (.inl [([120], .arr [.int 2, .inl [([121], .inl [([122], .int 3)] true true)] false false])]
      false false))] false false (some 1)])] false false none
    ints u = (ints exTree).map incr ∧ skeleton u = skeleton exTree := by
  simp [ints, skeleton, exTree, intsTbl, intsItem, intsVal, skelTbl, skelItem, skelVal, incr]

example : ints exTree = [1, 2] ∧ ints (rewriteInts incr exTree) = [2, 3] := by
  simp [ints, exTree, rewriteInts, visitDocumentMut, visitTableMut, visitTableItemsMut, visitItemMut, visitAotItemsMut,
    visitValueMut, visitInlineItemsMut, visitArrayItemsMut, intsTbl, intsItem, intsVal, incr]

/-! ## every document the parser accepts -/

/-- all of the above for the tree of any accepted document -/
theorem T20_documents (s : Bytes) (t : Tbl) (_h : Doc.parseSlice s = some t) (f : Int → Int) :
    nodeEvents (trace t) = preorder t ∧ nodeEvents (traceMut t) = preorder t ∧ traceMut t = trace t ∧
    ints (rewriteInts f t) = (ints t).map f ∧ skeleton (rewriteInts f t) = skeleton t :=
  ⟨T20_visit t, T20_visit_mut t, T20_visit_mut_full id t, T20_rewrite t f⟩

/-- `exDoc` is accepted and its walk has the 31 hook calls / 14 nodes of `exTree` -/
example : (Doc.parseSlice exDoc).map (fun t => (trace t, (nodeEvents (trace t)).length)) = some (trace exTree, 14) := by
  decide +kernel

end TomlVerif.Props.C20
