import TomlVerif.Props.C14
import TomlVerif.Lemmas.Spans14Doc
/-! C14, document level — every span the format-preserving parser records is well-formed and lies
    inside the input; containers enclose what they contain.

    `allSpans` (Lemmas/Cst03.lean) was checked against the `CDoc` type: it collects the key
    `repr`, `leaf_decor` and `dotted_decor` of every key (table keys and inline-table keys), the `repr`
    and decor prefix/suffix of every scalar, the `trailing`, decor and `span` of every array, the
    `preamble`, decor and `span` of every inline table, the header decor and `span` of every table,
    the `span` of every array of tables and the document `trailing`; nothing the model records is
    left out, so no larger collection is needed.

    BOM: `parseCst` computes offsets with `n = s.length` for the WHOLE input (the BOM is stripped from
    the remaining text only), so offsets count the three BOM bytes and the bound is `s.length`. -/
namespace TomlVerif.Props.C14
open TomlVerif TomlVerif.Model TomlVerif.Model.Cst TomlVerif.Model.Encode TomlVerif.Lemmas.Cst03
open TomlVerif.Lemmas.Spans14

/-- T14_bounds, strong form: every recorded span is `Within 0 s.length` (start ≤ end ≤ length) -/
theorem T14_bounds_within (s : Bytes) (d : CDoc) (h : parseCst s = some d) :
    ∀ sp ∈ allSpans d, Within 0 s.length sp := by
  obtain ⟨hroot, htr⟩ := parseCst_ok s d h
  exact AllW.append (TblOK.spans _ hroot) htr

/-- T14_bounds (document level, full strength): for every accepted document, every span recorded
    anywhere in the tree has `start ≤ end ≤ input length` -/
theorem T14_bounds : T14_bounds_statement := by
  intro s d h sp hm
  have := T14_bounds_within s d h sp hm
  exact ⟨this.2.1, this.2.2⟩

/-- the same through the slice entry point (UTF-8 validation first) -/
theorem T14_bounds_slice (b : Bytes) (d : CDoc) (h : parseCstSlice b = some d) :
    ∀ sp ∈ allSpans d, sp.1 ≤ sp.2 ∧ sp.2 ≤ b.length := by
  unfold parseCstSlice at h
  split at h
  · exact T14_bounds b d h
  · cases h

/-- T14_bounds at value level for ALL values (inline tables included; `T14_bounds_partial` had
    `flatVal`): the spans of a value parsed at suffix `s` lie between the offsets of `s` and of the rest -/
theorem T14_value_bounds (n fuel d : Nat) (s r : Bytes) (v : CVal) (h : cvalue n fuel d s = .ok v r) :
    ∀ sp ∈ valSpans v, pos n s ≤ sp.1 ∧ sp.1 ≤ sp.2 ∧ sp.2 ≤ pos n r :=
  (cvalue_spans n fuel d s r v h).2.2.1

theorem T14_value_bounds_whole (s : Bytes) (v : CVal) (h : parseCstValue s = some v) :
    ∀ sp ∈ valSpans v, sp.1 ≤ sp.2 ∧ sp.2 ≤ s.length := by
  unfold parseCstValue at h
  split at h
  · rename_i v0 hv
    injection h with h; subst h
    intro sp hm
    have := T14_value_bounds _ _ _ _ _ _ hv sp hm
    simp [pos] at this
    omega
  · cases h

/-! ### nesting -/

/-- the values directly contained in a value -/
def children : CVal → List CVal
  | .scalar _ _ _ => []
  | .arr items _ _ _ _ => items
  | .inl items _ _ _ _ _ => items.map (·.2)

/-- `Sub v w`: `w` is `v` or a value nested (at any depth) inside `v` -/
inductive Sub (v : CVal) : CVal → Prop where
  | refl : Sub v v
  | child {w c : CVal} : Sub v w → c ∈ children w → Sub v c

theorem mem_elemsSpans {sp : Span} {c : CVal} : ∀ {items : List CVal}, c ∈ items → sp ∈ valSpans c →
    sp ∈ elemsSpans items
  | [], h, _ => by cases h
  | x :: r, h, hs => by
    simp only [elemsSpans, List.mem_append]
    rcases List.mem_cons.1 h with h | h
    · subst h; exact Or.inl hs
    · exact Or.inr (mem_elemsSpans h hs)

theorem mem_kvsSpans {sp : Span} {c : CVal} : ∀ {items : List (CKey × CVal)}, c ∈ items.map (·.2) →
    sp ∈ valSpans c → sp ∈ kvsSpans items
  | [], h, _ => by cases h
  | (k, x) :: r, h, hs => by
    simp only [kvsSpans, List.mem_append]
    simp only [List.map_cons, List.mem_cons] at h
    rcases h with h | h
    · subst h; exact Or.inl (Or.inr hs)
    · exact Or.inr (mem_kvsSpans h hs)

theorem NestV_children {w c : CVal} (hw : NestV w) (hc : c ∈ children w) : NestV c := by
  cases w with
  | scalar x r d => cases hc
  | arr items t cm d sp =>
    simp only [NestV] at hw
    exact (NestVs_iff _).1 hw.2 c hc
  | inl items p im dt d sp =>
    simp only [NestV] at hw
    simp only [children, List.mem_map] at hc
    obtain ⟨kv, hkv, rfl⟩ := hc
    exact ((NestKvs_iff _).1 hw.2.2 kv hkv).2

theorem NestV_sub {v w : CVal} (hv : NestV v) (h : Sub v w) : NestV w := by
  induction h with
  | refl => exact hv
  | child _ hc ih => exact NestV_children ih hc

/-- everything recorded for a child (its reprs, decor, keys, nested spans) lies inside the span of
    its parent, when the parent has one -/
theorem NestV_child_spans {w c : CVal} (hw : NestV w) (hc : c ∈ children w) {a : Span} (ha : w.span = some a) :
    ∀ sp ∈ valSpans c, a.1 ≤ sp.1 ∧ sp.1 ≤ sp.2 ∧ sp.2 ≤ a.2 := by
  intro sp hs
  cases w with
  | scalar x r d => cases hc
  | arr items t cm d sp0 =>
    simp only [NestV] at hw
    exact hw.1 a ha sp (List.mem_append_left _ (mem_elemsSpans hc hs))
  | inl items p im dt d sp0 =>
    simp only [NestV] at hw
    exact hw.2.1 a ha sp (List.mem_append_left _ (mem_kvsSpans hc hs))

theorem NestV_child_span {w c : CVal} (hw : NestV w) (hc : c ∈ children w) {a b : Span}
    (ha : w.span = some a) (hb : c.span = some b) : a.1 ≤ b.1 ∧ b.2 ≤ a.2 := by
  have := NestV_child_spans hw hc ha b (span_mem_valSpans c b hb)
  exact ⟨this.1, this.2.2⟩

/-- T14_value_nesting (value level, ALL values, any depth): in whatever `cvalue` builds, the span of
    every element of an array lies inside the array's span and the span of every value of an inline
    table lies inside the inline table's span, whenever both spans exist (tables created for dotted
    keys inside an inline table have no span) -/
theorem T14_value_nesting (n fuel d : Nat) (s r : Bytes) (v : CVal) (h : cvalue n fuel d s = .ok v r) :
    ∀ w, Sub v w → ∀ c ∈ children w, ∀ a b, w.span = some a → c.span = some b → a.1 ≤ b.1 ∧ b.2 ≤ a.2 := by
  intro w hw c hc a b ha hb
  exact NestV_child_span (NestV_sub (cvalue_spans n fuel d s r v h).2.2.2 hw) hc ha hb

/-- the stronger enclosure: not only the child's `span` but every span recorded for the child (decor
    included), and for an inline table every key span, lies inside the parent's span -/
theorem T14_value_enclosure (n fuel d : Nat) (s r : Bytes) (v : CVal) (h : cvalue n fuel d s = .ok v r) :
    NestV v ∧ ∀ w, Sub v w → ∀ c ∈ children w, ∀ a, w.span = some a →
      ∀ sp ∈ valSpans c, a.1 ≤ sp.1 ∧ sp.1 ≤ sp.2 ∧ sp.2 ≤ a.2 := by
  have hn := (cvalue_spans n fuel d s r v h).2.2.2
  exact ⟨hn, fun w hw c hc a ha => NestV_child_spans (NestV_sub hn hw) hc ha⟩

/-- T14_value_nesting for a value parsed alone -/
theorem T14_value_nesting_whole (s : Bytes) (v : CVal) (h : parseCstValue s = some v) :
    ∀ w, Sub v w → ∀ c ∈ children w, ∀ a b, w.span = some a → c.span = some b → a.1 ≤ b.1 ∧ b.2 ≤ a.2 := by
  unfold parseCstValue at h
  split at h
  · rename_i v0 hv
    injection h with h; subst h
    exact T14_value_nesting _ _ _ _ _ _ hv
  · cases h

/-- T14 nesting at document level: for every value stored anywhere in a parsed document (through
    sub-tables and arrays of tables) and every value `w` inside it, the children of `w` lie inside `w` -/
theorem T14_doc_nesting (s : Bytes) (d : CDoc) (h : parseCst s = some d) :
    ∀ v ∈ tblVals d.root, ∀ w, Sub v w → ∀ c ∈ children w, ∀ a b,
      w.span = some a → c.span = some b → a.1 ≤ b.1 ∧ b.2 ≤ a.2 := by
  intro v hv w hw c hc a b ha hb
  have hn := (TblOK.vals _ (parseCst_ok s d h).1 v hv).2
  exact NestV_child_span (NestV_sub hn hw) hc ha hb

/-! ### non-vacuity -/

/-- ```
    a.b = {x = 1, y.z = [2, 3]} # c
    [t]
    k = "s"
    [[arr]]
    v = 2
    [[arr]]
    ```
    a dotted key, an inline table (with a dotted key and an array inside), a header, an array of tables -/
def exDoc : Bytes := [0x61, 0x2E, 0x62, 0x20, 0x3D, 0x20, 0x7B, 0x78, 0x20, 0x3D, 0x20, 0x31, 0x2C, 0x20, 0x79, 0x2E,
  0x7A, 0x20, 0x3D, 0x20, 0x5B, 0x32, 0x2C, 0x20, 0x33, 0x5D, 0x7D, 0x20, 0x23, 0x20, 0x63, 0x0A, 0x5B, 0x74, 0x5D, 0x0A,
  0x6B, 0x20, 0x3D, 0x20, 0x22, 0x73, 0x22, 0x0A, 0x5B, 0x5B, 0x61, 0x72, 0x72, 0x5D, 0x5D, 0x0A, 0x76, 0x20, 0x3D, 0x20,
  0x32, 0x0A, 0x5B, 0x5B, 0x61, 0x72, 0x72, 0x5D, 0x5D, 0x0A]

/-- the document is accepted and records 34 spans: keys `a` `b` (with the dotted-key decor), the
    inline table `6..27` with its keys, the nested array `20..26`, the comment `27..31`, the table
    `[t]` (`32..43`), the two `[[arr]]` tables `44..57`, `58..65`, the array of tables `44..65` and
    the root table `0..27` -/
example : (parseCst exDoc).map allSpans = some
    [(0, 1), (2, 3), (3, 4), (7, 8), (8, 9), (11, 12), (10, 11), (14, 15), (16, 17), (13, 14), (17, 18), (21, 22),
     (24, 25), (23, 24), (19, 20), (20, 26), (5, 6), (27, 31), (6, 27), (33, 34), (36, 37), (37, 38), (40, 43), (39, 40),
     (32, 43), (46, 49), (52, 53), (53, 54), (56, 57), (55, 56), (44, 57), (58, 65), (44, 65), (0, 27)] := by
  decide +kernel

/-- the hypothesis of `T14_bounds` is met by `exDoc`, and its conclusion read off the computed spans -/
example : ∃ d, parseCst exDoc = some d ∧ (allSpans d).length = 34 ∧
    (allSpans d).all (fun sp => sp.1 ≤ sp.2 && sp.2 ≤ exDoc.length) = true := by
  decide +kernel

/-- with a BOM the offsets count the three BOM bytes (every span moves by 3) and the bound is the
    length of the whole input -/
example : (parseCst ([0xEF, 0xBB, 0xBF] ++ exDoc)).map allSpans =
    (parseCst exDoc).map (fun d => (allSpans d).map (fun sp => if sp = (0, 27) then (0, 30) else (sp.1 + 3, sp.2 + 3))) := by
  decide +kernel

/-- the children of all the values of a list -/
def kids (l : List CVal) : List CVal := l.flatMap children

/-- the hypotheses of the nesting theorems are met: the inline table `{x = 1, y.z = [2, 3]}` is a
    stored value of `exDoc` (`6..27`); its children are `1` (`11..12`) and the span-less dotted table
    `y`, whose child is the array `20..26` with children `21..22`, `24..25` -/
example : ∃ d, parseCst exDoc = some d ∧
    (tblVals d.root).map CVal.span = [some (6, 27), some (40, 43), some (56, 57)] ∧
    (kids (tblVals d.root)).map CVal.span = [some (11, 12), none] ∧
    (kids (kids (tblVals d.root))).map CVal.span = [some (20, 26)] ∧
    (kids (kids (kids (tblVals d.root)))).map CVal.span = [some (21, 22), some (24, 25)] := by
  decide +kernel

/-- value level: `{a = [1, {b = 2}]}` is accepted by `parseCstValue`, is not `flatVal`, and its
    spans nest: `0..18` ⊇ `5..17` ⊇ `6..7`, `9..16` ⊇ `14..15` -/
def exInl : Bytes := [0x7B, 0x61, 0x20, 0x3D, 0x20, 0x5B, 0x31, 0x2C, 0x20, 0x7B, 0x62, 0x20, 0x3D, 0x20, 0x32, 0x7D,
  0x5D, 0x7D]

example : ∃ v, parseCstValue exInl = some v ∧ flatVal v = false ∧ v.span = some (0, 18) ∧
    (kids [v]).map CVal.span = [some (5, 17)] ∧
    (kids (kids [v])).map CVal.span = [some (6, 7), some (9, 16)] ∧
    (kids (kids (kids [v]))).map CVal.span = [some (14, 15)] := by
  decide +kernel

end TomlVerif.Props.C14
