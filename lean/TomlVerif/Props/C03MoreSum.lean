import TomlVerif.Props.C03MoreDoc
import TomlVerif.Props.C03MoreCmt
import TomlVerif.Props.C03MoreOrd
import TomlVerif.Props.C03MoreVS
/-! C03, continued — the weaker clause (valid, same data) for the widest class proved
    (`nestRunV`: `Props/C03MoreDoc.lean`), without hypotheses on BOM or final newline; and the
    comments clause, where the general theorem (`T03_comments_kept`, `Props/C03MoreCmt.lean`: every
    comment RECORDED in the tree is printed, for every accepted document) meets the class theorem
    (`T03_comments_kept_sourceV`: every CR-free piece of the SOURCE is printed). -/
namespace TomlVerif.Props.C03More
open TomlVerif TomlVerif.Model TomlVerif.Model.Cst TomlVerif.Model.Encode
open TomlVerif.Lemmas.Cst03 TomlVerif.Lemmas.Tiling03 TomlVerif.Lemmas.Tiling03Hdr TomlVerif.Lemmas.Tiling03Nest
open TomlVerif.Lemmas.Tiling03More
open TomlVerif.Props.C03 TomlVerif.Props.C03Doc TomlVerif.Props.C03Hdr TomlVerif.Props.C03Nest

/-- T03_same_data_norm_sourceV: for a CR-free source in the class `nestRunV` — with or without
    BOM, with or without final newline — the printed text is accepted by the format-preserving
    parser (and by the semantic one) and decodes to the very same tree, flags and positions
    included -/
theorem T03_same_data_norm_sourceV (s : Bytes) (d : CDoc) (h : parseCst s = some d) (hrun : nestRunV s = true)
    (hcr : ∀ b ∈ s, b ≠ 0x0D) :
    (∃ d', parseCst (printDoc s d) = some d' ∧ eraseTbl d'.root = eraseTbl d.root) ∧
    Doc.parseDocument (printDoc s d) = Doc.parseDocument s := by
  obtain ⟨eol, hp, heol⟩ := T03_doc_norm_sourceV s d h hrun hcr
  have hdoc : Doc.parseDocument s = some (eraseTbl d.root) := by
    rw [← T03_cst_erases_to_doc s, h]; rfl
  have hpd : Doc.parseDocument (printDoc s d) = some (eraseTbl d.root) := by
    rw [hp]
    rcases heol with e | ⟨e, _⟩
    · subst e; rw [List.append_nil]; exact parseDocument_stripBom s _ hdoc
    · subst e; exact parseDocument_stripBom_lf s _ hdoc
  refine ⟨?_, by rw [hpd, hdoc]⟩
  obtain ⟨t', ht', hx⟩ := (T03_reparse_iff_doc (printDoc s d) (fun t => t = eraseTbl d.root)).2 ⟨_, hpd, rfl⟩
  exact ⟨t', ht', hx⟩

/-- a BOM, dotted keys inside an inline table, no final newline -/
def exBomInlineNoNl : Bytes :=
  [0xEF, 0xBB, 0xBF] ++ strBytes "[a]\nk = {x.y = 1, x.z = 2}\n# c\n[a.b]\n[[a.c]]\nq.r = 1"

example : (parseCst exBomInlineNoNl).isSome = true ∧ nestRunV exBomInlineNoNl = true ∧
    nestRun true exBomInlineNoNl = false ∧
    (exBomInlineNoNl.all fun b => b != 0x0D) = true ∧ Doc.stripBom exBomInlineNoNl ≠ exBomInlineNoNl ∧
    exBomInlineNoNl.getLast? ≠ some 0x0A := by decide +kernel

/-- the same for the class `ordRunV` (sections in any order): `Props/C03MoreOrd.lean` -/
theorem T03_same_data_norm_ord (s : Bytes) (d : CDoc) (h : parseCst s = some d) (hrun : ordRunV s = true)
    (hcr : ∀ b ∈ s, b ≠ 0x0D) :
    (∃ d', parseCst (printDoc s d) = some d' ∧ eraseTbl d'.root = eraseTbl d.root) ∧
    Doc.parseDocument (printDoc s d) = Doc.parseDocument s := by
  obtain ⟨eol, hp, heol⟩ := T03_doc_norm_ord s d h hrun hcr
  have hdoc : Doc.parseDocument s = some (eraseTbl d.root) := by
    rw [← T03_cst_erases_to_doc s, h]; rfl
  have hpd : Doc.parseDocument (printDoc s d) = some (eraseTbl d.root) := by
    rw [hp]
    rcases heol with e | ⟨e, _⟩
    · subst e; rw [List.append_nil]; exact parseDocument_stripBom s _ hdoc
    · subst e; exact parseDocument_stripBom_lf s _ hdoc
  refine ⟨?_, by rw [hpd, hdoc]⟩
  obtain ⟨t', ht', hx⟩ := (T03_reparse_iff_doc (printDoc s d) (fun t => t = eraseTbl d.root)).2 ⟨_, hpd, rfl⟩
  exact ⟨t', ht', hx⟩

example : (parseCst (strBytes "[a]\n[c]\n[a.b]\nk = 1")).isSome = true ∧
    ordRunV (strBytes "[a]\n[c]\n[a.b]\nk = 1") = true ∧ nestRunV (strBytes "[a]\n[c]\n[a.b]\nk = 1") = false := by
  decide +kernel

/-! ### comments -/

/-- in the class the recorded comments are comments of the source and all of them are printed;
    for every accepted document the second half holds (`T03_comments_kept`) and the recorded
    comments are pieces of the source (`T03_comments_in_source`).  What is not proved in general
    is that EVERY comment of the source is recorded in some decor piece (in the class this is the
    tiling theorem); it needs a source-side definition of "comment" (the grammar trees of C01:
    `QLine.comment`, the `cm` fields, the `Wcn` trivia of arrays) and a correspondence between the
    line driver's recorded spans and those trees. -/
theorem T03_comments_summaryV (s : Bytes) (d : CDoc) (h : parseCst s = some d) :
    (∀ c ∈ recordedComments s d, c <:+: s ∧ (∀ b ∈ c, b ≠ 0x0D) ∧ c <:+: printDoc s d) ∧
    (nestRunV s = true → ∀ c, c <:+: Doc.stripBom s → (∀ b ∈ c, b ≠ 0x0D) → c <:+: printDoc s d) :=
  ⟨fun c hc => ⟨(T03_comments_in_source s d c hc).1, (T03_comments_in_source s d c hc).2, T03_comments_kept s d h c hc⟩,
   fun hrun c hc hcr => T03_comments_kept_sourceV s d h hrun c hc hcr⟩

/-! ### value level -/

/-- the weaker clause at value level with the fixed point.  The first two conjuncts — the
    printed value is accepted and decodes to the same value, flags included — are PROVED for every
    accepted value: `T03_value_same_data` (`Props/C03MoreVS.lean`).  The fixed point is proved in
    the class only (below); in general it needs that the printed text passes the check
    `dottedInlRun` (it does by construction: the printer writes the flattened pairs grouped and
    with the stored spelling), i.e. a completeness lemma for the format-preserving value parser on
    the grammar tree `T03_value_print_grammar` exhibits.  No counterexample among all inline tables
    of up to four pairs from a pool of dotted, quoted, respelled and nested keys (`scratch/t7.lean`). -/
def T03_value_same_data_statement : Prop :=
  ∀ (s : Bytes) (v : CVal), parseCstValue s = some v →
    ∃ v', parseCstValue (printValue s v) = some v' ∧ eraseVal v' = eraseVal v ∧
      printValue (printValue s v) v' = printValue s v

/-- proved part: the class of `T03_value_tiling_dotted_inline` on CR-free sources -/
theorem T03_value_same_data_partial (s : Bytes) (v : CVal) (h : parseCstValue s = some v)
    (hc : dottedInlRun s = true) (hcr : ∀ b ∈ s, b ≠ 0x0D) :
    ∃ v', parseCstValue (printValue s v) = some v' ∧ eraseVal v' = eraseVal v ∧
      printValue (printValue s v) v' = printValue s v := by
  have hp := T03_value_print_dotted_inline s v h hc hcr
  exact ⟨v, by rw [hp]; exact h, rfl, by rw [hp]; exact hp⟩

example : (parseCstValue (strBytes "{ x = 1, a . b = {u.v = 1, u.w = 2}, a . c = [ {p.q=1} ] }")).isSome = true ∧
    dottedInlRun (strBytes "{ x = 1, a . b = {u.v = 1, u.w = 2}, a . c = [ {p.q=1} ] }") = true := by
  decide +kernel

end TomlVerif.Props.C03More
