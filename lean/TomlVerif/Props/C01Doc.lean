import TomlVerif.Lemmas.Doc01
import TomlVerif.Props.C10
import TomlVerif.Props.C09
import TomlVerif.Props.C02Strings
/-! # C01 / C02 at document level — every document the grammar generates drives exactly its statements

`Spec/AstDoc.lean` gives the abstract syntax of documents (`Doc`: optional byte-order mark, lines ended
by LF or CRLF, an optional last line without line end; a `Line` is blank, a comment, `key = value`,
`[table]` or `[[array-of-tables]]`, the last three with optional trailing comment), `render` (the bytes)
and `stmts` (the statement sequence).  The theorems: a rendered dotted key is read back exactly
(`T01_keypath_complete`), a rendered line drives exactly the corresponding step of the state machine and
consumes exactly the line (`T01_keyval_line`, `T01_header_line`, `T01_aot_line`, with `_eof` variants), and
the whole document is parsed as the run of its statements (`T01_lines_complete`, `T01_document_complete`).
Together with `Props/C01Values.lean` (values), `Props/C02Strings.lean` (strings) and `Props/C09.lean` (the
state machine) this reduces "the document is accepted and decodes to …" to `run` over `Stmt`s. -/
namespace TomlVerif.Props.C01Doc
open TomlVerif TomlVerif.Spec TomlVerif.Model TomlVerif.Model.Strings TomlVerif.Model.Value
open TomlVerif.Model.State TomlVerif.Model.Doc
open TomlVerif.Spec.AstValue TomlVerif.Spec.AstDoc TomlVerif.Lemmas.Value01 TomlVerif.Lemmas.State09
open TomlVerif.Lemmas.Doc01

/-! ## key segments and dotted keys -/

/-- a bare key is a key segment -/
theorem T01_keyseg_bare (pre key post : Bytes) (hpre : AllWs pre) (hpost : AllWs post) (hne : key ≠ [])
    (hk : ∀ b ∈ key, isUnquotedChar b = true) : KeySegOK ⟨pre, key, key, post⟩ :=
  ⟨hpre, hpost, fun rest hr => simpleKey_bare key rest hne hk hr⟩

/-- every key the writer produces, in any style, is a key segment (by `T10_key`) -/
theorem T01_keyseg_written (st : Write.KStyle) (pre s tok post : Bytes) (hpre : AllWs pre) (hpost : AllWs post)
    (h : Write.writeKey st s = some tok) : KeySegOK ⟨pre, tok, s, post⟩ :=
  ⟨hpre, hpost, fun rest hr => Props.C10.T10_key st s tok rest h hr⟩

/-- every basic string of the grammar (`Spec/AstString.lean`) is a key segment denoting its decoded text
    (by `T02_basic_general`), so with `T01_keyseg_bare` and `T01_keyseg_literal` the whole of
    `simple-key = quoted-key / unquoted-key` is covered -/
theorem T01_keyseg_basic (pre post : Bytes) (cs : List AstString.BasicChar) (hpre : AllWs pre) (hpost : AllWs post)
    (h : AstString.wfBasic cs = true) : KeySegOK ⟨pre, AstString.renderBasic cs, AstString.semBasic cs, post⟩ := by
  refine ⟨hpre, hpost, fun rest _ => ?_⟩
  have := Props.C02Strings.T02_basic_general cs rest h
  simp only [AstString.renderBasic, List.cons_append] at this ⊢
  simpa [Key.simpleKey] using this

/-- every literal string of the grammar is a key segment (by `T02_literal_general`) -/
theorem T01_keyseg_literal (pre post bs : Bytes) (hpre : AllWs pre) (hpost : AllWs post)
    (h : AstString.wfLiteral bs = true) : KeySegOK ⟨pre, AstString.renderLiteral bs, AstString.semLiteral bs, post⟩ := by
  refine ⟨hpre, hpost, fun rest _ => ?_⟩
  have := Props.C02Strings.T02_literal_general bs rest h
  simp only [AstString.renderLiteral, List.cons_append] at this ⊢
  simpa [Key.simpleKey] using this

/-- non-vacuity: the keys `"a\tb"` (an escape the writer's basic style would also produce) and `'a b'` -/
example : KeySegOK ⟨[], [0x22, 0x61, 0x5C, 0x74, 0x62, 0x22], [0x61, 0x09, 0x62], []⟩ :=
  T01_keyseg_basic [] [] [.raw 0x61, .escaped (.simple 0x74), .raw 0x62] (by intro b hb; cases hb) (by intro b hb; cases hb)
    (by decide)
example : KeySegOK ⟨[], [0x27, 0x61, 0x20, 0x62, 0x27], [0x61, 0x20, 0x62], []⟩ :=
  T01_keyseg_literal [] [] [0x61, 0x20, 0x62] (by intro b hb; cases hb) (by intro b hb; cases hb) (by decide)

/-- **dotted keys are read back exactly**: a well-formed dotted key (every component a key segment, fewer than
    `LIMIT` components) followed by something that cannot continue it (`PathFollow`: the end of the input or a byte
    that is not a bare-key character, a blank or a dot) yields its decoded components and leaves exactly the rest -/
theorem T01_keypath_complete (p : KeyPath) (rest : Bytes) (hp : p.OK) (hr : PathFollow rest) :
    keyPath (p.render ++ rest) = .ok p.names rest :=
  keyPath_path p rest hp hr

/-- `=` and `]` (the two bytes that follow a dotted key in a document) satisfy the follow condition -/
theorem T01_pathFollow_eq (r : Bytes) : PathFollow (0x3D :: r) := pathFollow_eq r
theorem T01_pathFollow_close (r : Bytes) : PathFollow (0x5D :: r) := pathFollow_close r

/-- the follow condition is needed: a dotted key followed by `.x` reads on -/
example : keyPath ([0x61] ++ [0x2E, 0x78]) = .ok [[0x61], [0x78]] [] := by decide

/-- the quoted key `"x y"` -/
def xyTok : Bytes := [0x22, 0x78, 0x20, 0x79, 0x22]
def xyName : Bytes := [0x78, 0x20, 0x79]
theorem xy_written : Write.writeKey .basic xyName = some xyTok := by decide +kernel

/-- non-vacuity: ` t . "x y" ` followed by `]` -/
def examplePath : KeyPath := ⟨⟨[0x20], [0x74], [0x74], [0x20]⟩, [⟨[0x20], xyTok, xyName, [0x20]⟩]⟩

theorem allWs_nil : AllWs [] := by intro b hb; cases hb
theorem allWs_sp : AllWs [0x20] := by intro b hb; simp at hb; subst hb; decide
theorem allWs_of (l : Bytes) (h : l.all isWschar = true) : AllWs l := by
  intro b hb; exact List.all_eq_true.1 h b hb

theorem examplePath_ok : examplePath.OK := by
  refine ⟨T01_keyseg_bare _ _ _ allWs_sp allWs_sp (by decide) (by intro b hb; simp at hb; subst hb; decide), ?_, by decide⟩
  intro k hk
  simp [examplePath] at hk
  subst hk
  exact T01_keyseg_written .basic _ _ _ _ allWs_sp allWs_sp xy_written

example : keyPath ([0x20, 0x74, 0x20, 0x2E, 0x20, 0x22, 0x78, 0x20, 0x79, 0x22, 0x20] ++ [0x5D]) =
    .ok [[0x74], [0x78, 0x20, 0x79]] [0x5D] :=
  T01_keypath_complete examplePath [0x5D] examplePath_ok (T01_pathFollow_close [])

/-! ## lines -/

/-- **a `key = value` line drives exactly `on_keyval`** with the dotted key split into the table path and the last
    component and with the value the syntax tree denotes, and consumes exactly the line and its line end -/
theorem T01_keyval_line (st : ParseState) (p : KeyPath) (w1 : Bytes) (v : AVal) (w2 : Bytes) (cm : Option Bytes)
    (c : Bool) (more : Bytes) (hwf : (Line.keyval p w1 v w2 cm).WF) :
    keyvalLine st ((Line.keyval p w1 v w2 cm).render ++ (nlBytes c ++ more)) =
      (onKeyval st p.path p.last (sem v)).map fun st' => (st', more) :=
  keyvalLine_end st p w1 v w2 cm _ more hwf (.nl c more)

/-- the same for a last line without line end -/
theorem T01_keyval_line_eof (st : ParseState) (p : KeyPath) (w1 : Bytes) (v : AVal) (w2 : Bytes) (cm : Option Bytes)
    (hwf : (Line.keyval p w1 v w2 cm).WF) :
    keyvalLine st (Line.keyval p w1 v w2 cm).render = (onKeyval st p.path p.last (sem v)).map fun st' => (st', []) := by
  have := keyvalLine_end st p w1 v w2 cm [] [] hwf .eof
  rwa [List.append_nil] at this

/-- what the statement loop hands to `table`: the line without the blanks before `[` -/
theorem T01_header_dropWs (ws : Bytes) (p : KeyPath) (w2 : Bytes) (cm : Option Bytes) (T : Bytes) (hws : AllWs ws) :
    dropWs ((Line.std ws p w2 cm).render ++ T) = (Line.std [] p w2 cm).render ++ T ∧
    dropWs ((Line.aot ws p w2 cm).render ++ T) = (Line.aot [] p w2 cm).render ++ T := by
  simp only [Line.render, List.append_assoc, List.cons_append, List.nil_append]
  rw [dropWs_allws _ _ hws, dropWs_allws _ _ hws]
  exact ⟨dropWs_head _ _ (by decide), dropWs_head _ _ (by decide)⟩

/-- **a `[table]` line drives exactly `on_std_header`** with the decoded dotted key and consumes exactly the line
    and its line end -/
theorem T01_header_line (st : ParseState) (p : KeyPath) (w2 : Bytes) (cm : Option Bytes) (c : Bool) (more : Bytes)
    (hwf : (Line.std [] p w2 cm).WF) :
    tableLine st ((Line.std [] p w2 cm).render ++ (nlBytes c ++ more)) =
      (onStdHeader st p.names).map fun st' => (st', more) := by
  have := stdLine_end st p w2 cm _ more hwf.2.1 hwf.2.2.1 hwf.2.2.2 (.nl c more)
  simpa [Line.render] using this

theorem T01_header_line_eof (st : ParseState) (p : KeyPath) (w2 : Bytes) (cm : Option Bytes)
    (hwf : (Line.std [] p w2 cm).WF) :
    tableLine st (Line.std [] p w2 cm).render = (onStdHeader st p.names).map fun st' => (st', []) := by
  have := stdLine_end st p w2 cm [] [] hwf.2.1 hwf.2.2.1 hwf.2.2.2 .eof
  simpa [Line.render] using this

/-- **a `[[array-of-tables]]` line drives exactly `on_array_header`** -/
theorem T01_aot_line (st : ParseState) (p : KeyPath) (w2 : Bytes) (cm : Option Bytes) (c : Bool) (more : Bytes)
    (hwf : (Line.aot [] p w2 cm).WF) :
    tableLine st ((Line.aot [] p w2 cm).render ++ (nlBytes c ++ more)) =
      (onArrayHeader st p.names).map fun st' => (st', more) := by
  have := aotLine_end st p w2 cm _ more hwf.2.1 hwf.2.2.1 hwf.2.2.2 (.nl c more)
  simpa [Line.render] using this

theorem T01_aot_line_eof (st : ParseState) (p : KeyPath) (w2 : Bytes) (cm : Option Bytes)
    (hwf : (Line.aot [] p w2 cm).WF) :
    tableLine st (Line.aot [] p w2 cm).render = (onArrayHeader st p.names).map fun st' => (st', []) := by
  have := aotLine_end st p w2 cm [] [] hwf.2.1 hwf.2.2.1 hwf.2.2.2 .eof
  simpa [Line.render] using this

/-- **one pass of the statement loop**: any well-formed line followed by a line end performs the step of its
    statement (none for blank and comment lines) and continues after the line end with one unit of fuel less -/
theorem T01_line_step (fuel : Nat) (st : ParseState) (l : Line) (c : Bool) (more : Bytes) (hwf : l.WF) :
    lines (fuel + 1) st (dropWs (l.render ++ (nlBytes c ++ more))) =
      (stepLine st l).bind fun st' => lines fuel st' (dropWs more) :=
  lines_line_nl fuel st l c more hwf

/-! ## documents -/

/-- **the statement loop follows `run`**: on the rendering of well-formed lines (each with LF or CRLF, the last one
    optionally without line end; blank and comment lines anywhere, comments after values and headers) the loop
    returns what `run` returns on the statement sequence, from any state, for any fuel above the length -/
theorem T01_lines_complete (ls : List (Line × Bool)) (last : Option Line) (st : ParseState) (fuel : Nat)
    (hls : ∀ p ∈ ls, p.1.WF) (hl : ∀ l, last = some l → l.WF)
    (hf : (dropWs (renderLines ls ++ renderLast last)).length < fuel) :
    lines fuel st (dropWs (renderLines ls ++ renderLast last)) = run st (stmtsLines ls ++ stmtsLast last) :=
  lines_run ls last st fuel hls hl hf

/-- **document-level completeness, syntactic side**: a well-formed document is parsed exactly as the run of its
    statement sequence from the initial state followed by `into_document`.  Whether it is accepted, and the tree it
    decodes to, are those of the statement-level state machine (`Props/C09.lean`). -/
theorem T01_document_complete (d : Doc) (hwf : d.WF) :
    parseDocument d.render = (run {} d.stmts).bind intoDocument :=
  parseDocument_render d hwf

/-- a well-formed document is accepted exactly when its statement sequence is (closing the last table never
    fails, `T09_run_document_defined`) -/
theorem T01_document_accepted_iff (d : Doc) (hwf : d.WF) :
    (parseDocument d.render).isSome = true ↔ (run {} d.stmts).isSome = true := by
  rw [T01_document_complete d hwf]
  cases h : run {} d.stmts with
  | none => simp
  | some st => simpa using Props.C09.T09_run_document_defined d.stmts st h

/-- the slice entry point: the same for well-formed UTF-8 -/
theorem T01_slice_complete (d : Doc) (hwf : d.WF) (hu : Utf8.valid d.render = true) :
    parseSlice d.render = (run {} d.stmts).bind intoDocument := by
  unfold parseSlice
  rw [hu, if_pos rfl, T01_document_complete d hwf]

/-! non-vacuity: the document (with byte-order mark)
```
  # hi␍␊
a.b = [true, false]  # c␊
␊
[t."x y"]␊
k = true␊
␉[[arr]] # c␍␊
z = false
``` -/
def kA : Bytes := [0x61]
def kB : Bytes := [0x62]
def kT : Bytes := [0x74]
def kK : Bytes := [0x6B]
def kZ : Bytes := [0x7A]
def kArr : Bytes := [0x61, 0x72, 0x72]
def bare (pre key post : Bytes) : KeySeg := ⟨pre, key, key, post⟩

def exampleDoc : Doc :=
  { bom := true
    lines := [
      (.comment [0x20, 0x20] [0x20, 0x68, 0x69], true),
      (.keyval ⟨bare [] kA [], [bare [] kB [0x20]]⟩ [0x20]
         (.arr [([], .scalar trueTok, []), ([.ws [0x20]], .scalar falseTok, [])] false []) [0x20, 0x20] (some [0x20, 0x63]), false),
      (.blank [], false),
      (.std [] ⟨bare [] kT [], [⟨[], xyTok, xyName, []⟩]⟩ [] none, false),
      (.keyval ⟨bare [] kK [0x20], []⟩ [0x20] (.scalar trueTok) [] none, false),
      (.aot [0x09] ⟨bare [] kArr [], []⟩ [0x20] (some [0x20, 0x63]), true) ]
    last := some (.keyval ⟨bare [] kZ [0x20], []⟩ [0x20] (.scalar falseTok) [] none) }

def exampleDocText : Bytes :=
  [0xEF, 0xBB, 0xBF, 32, 32, 35, 32, 104, 105, 13, 10,
   97, 46, 98, 32, 61, 32, 91, 116, 114, 117, 101, 44, 32, 102, 97, 108, 115, 101, 93, 32, 32, 35, 32, 99, 10,
   10,
   91, 116, 46, 34, 120, 32, 121, 34, 93, 10,
   107, 32, 61, 32, 116, 114, 117, 101, 10,
   9, 91, 91, 97, 114, 114, 93, 93, 32, 35, 32, 99, 13, 10,
   122, 32, 61, 32, 102, 97, 108, 115, 101]

theorem exampleDoc_render : exampleDoc.render = exampleDocText := by decide +kernel

theorem bare_ok (pre key post : Bytes) (hpre : AllWs pre) (hpost : AllWs post) (hne : key ≠ [])
    (hk : ∀ b ∈ key, isUnquotedChar b = true) : KeySegOK (bare pre key post) :=
  T01_keyseg_bare pre key post hpre hpost hne hk

theorem exampleDoc_wf : exampleDoc.WF := by
  have hA : KeySegOK (bare [] kA []) := bare_ok _ _ _ allWs_nil allWs_nil (by decide) (by decide)
  have hB : KeySegOK (bare [] kB [0x20]) := bare_ok _ _ _ allWs_nil allWs_sp (by decide) (by decide)
  have hT : KeySegOK (bare [] kT []) := bare_ok _ _ _ allWs_nil allWs_nil (by decide) (by decide)
  have hK : KeySegOK (bare [] kK [0x20]) := bare_ok _ _ _ allWs_nil allWs_sp (by decide) (by decide)
  have hZ : KeySegOK (bare [] kZ [0x20]) := bare_ok _ _ _ allWs_nil allWs_sp (by decide) (by decide)
  have hR : KeySegOK (bare [] kArr []) := bare_ok _ _ _ allWs_nil allWs_nil (by decide) (by decide)
  have hX : KeySegOK ⟨[], xyTok, xyName, []⟩ := T01_keyseg_written .basic _ _ _ _ allWs_nil allWs_nil xy_written
  have hc : CommentOK (some [0x20, 0x63]) := by
    intro body h; injection h with h; subst h; decide
  have hn : CommentOK none := by intro body h; cases h
  have hws2 : AllWs [0x20, 0x20] := allWs_of _ (by decide)
  have hwt : AllWs [0x09] := allWs_of _ (by decide)
  have hv : AstValue.WF (.arr [([], .scalar trueTok, []), ([.ws [0x20]], .scalar falseTok, [])] false []) := by
    simp [AstValue.WF, WFItems, WcnWF, Piece.WF, scalarOK_true, scalarOK_false, isWschar]
  refine ⟨?_, ?_⟩
  · intro p hp
    simp only [exampleDoc, List.mem_cons, List.not_mem_nil, or_false] at hp
    rcases hp with rfl | rfl | rfl | rfl | rfl | rfl
    · exact ⟨hws2, by decide⟩
    · exact ⟨⟨hA, by intro k hk; simp at hk; subst hk; exact hB, by decide⟩, allWs_sp, hv, by decide, hws2, hc⟩
    · exact allWs_nil
    · exact ⟨allWs_nil, ⟨hT, by intro k hk; simp at hk; subst hk; exact hX, by decide⟩, allWs_nil, hn⟩
    · exact ⟨⟨hK, (by intro k hk; cases hk), by decide⟩, allWs_sp, scalarOK_true, by decide, allWs_nil, hn⟩
    · exact ⟨hwt, ⟨hR, (by intro k hk; cases hk), by decide⟩, allWs_sp, hc⟩
  · intro l hl
    simp only [exampleDoc] at hl
    injection hl with hl
    subst hl
    exact ⟨⟨hZ, (by intro k hk; cases hk), by decide⟩, allWs_sp, scalarOK_false, by decide, allWs_nil, hn⟩

theorem exampleDoc_stmts : exampleDoc.stmts =
    [.kv [kA] kB (.arr [.bool true, .bool false]), .std [kT, xyName], .kv [] kK (.bool true), .arr [kArr],
     .kv [] kZ (.bool false)] := by
  simp [exampleDoc, Doc.stmts, stmtsLines, stmtsLast, Line.stmt, KeyPath.path, KeyPath.last, KeyPath.names, splitKeys,
    bare, sem, semItems, trueTok, falseTok]

/-- the example text is parsed as the run of its five statements, and it is accepted -/
example : parseDocument exampleDocText =
    (run {} [.kv [kA] kB (.arr [.bool true, .bool false]), .std [kT, xyName], .kv [] kK (.bool true), .arr [kArr],
      .kv [] kZ (.bool false)]).bind intoDocument := by
  rw [← exampleDoc_render, T01_document_complete exampleDoc exampleDoc_wf, exampleDoc_stmts]

example : (parseDocument exampleDocText).isSome = true := by
  rw [← exampleDoc_render, T01_document_accepted_iff exampleDoc exampleDoc_wf, exampleDoc_stmts]
  decide +kernel

/-- non-vacuity of the per-line theorems: the second line of the example from the initial state -/
example : keyvalLine {} ([97, 46, 98, 32, 61, 32, 91, 116, 114, 117, 101, 44, 32, 102, 97, 108, 115, 101, 93, 32, 32, 35, 32, 99] ++
    ([0x0A] ++ [0x78])) = (onKeyval {} [kA] kB (.arr [.bool true, .bool false])).map fun st' => (st', [0x78]) := by
  have h := T01_keyval_line {} ⟨bare [] kA [], [bare [] kB [0x20]]⟩ [0x20]
    (.arr [([], .scalar trueTok, []), ([.ws [0x20]], .scalar falseTok, [])] false []) [0x20, 0x20] (some [0x20, 0x63])
    false [0x78] (exampleDoc_wf.1 _ (List.mem_cons_of_mem _ List.mem_cons_self))
  simpa [Line.render, KeyPath.render, KeySeg.render, renderSep, bare, kA, kB, render, renderItems, renderItemsSep, renderWcn,
    Piece.render, trueTok, falseTok, commentBytes, nlBytes, KeyPath.path, KeyPath.last, splitKeys, sem, semItems] using h

end TomlVerif.Props.C01Doc
