import TomlVerif.Model.Doc
/-! # C05 — nesting is bounded so no document can exhaust the stack -/
namespace TomlVerif.Props.C05
open TomlVerif TomlVerif.Model TomlVerif.Model.Value

/-- an array or inline table is never entered at or beyond the recursion limit -/
theorem T05_array_guard (fuel d : Nat) (r : Bytes) (h : LIMIT ≤ d + 1) : value (fuel + 1) d (0x5B :: r) = .cut := by
  unfold value
  simp [h]

theorem T05_inline_guard (fuel d : Nat) (r : Bytes) (h : LIMIT ≤ d + 1) : value (fuel + 1) d (0x7B :: r) = .cut := by
  unfold value
  simp [h]

end TomlVerif.Props.C05
