import TomlVerif.Lemmas.Depth05
import TomlVerif.Lemmas.ValEq
/-! # C05 — nesting is bounded, so no document can exhaust the stack

`value fuel d s` is the value parser at recursion depth `d` (`RecursionCheck.current`); `LIMIT = 80`.
`nest v` is the nesting depth of a decoded value: arrays, inline tables and the tables created by
dotted keys inside inline tables each count one level. -/
namespace TomlVerif.Props.C05
open TomlVerif TomlVerif.Spec TomlVerif.Model TomlVerif.Model.Value TomlVerif.Lemmas.Depth05
open TomlVerif.Lemmas.ValEq

/-- a dotted key that is accepted has at least one and fewer than `LIMIT` components -/
theorem T05_keypath_len (s : Bytes) (ks : List Bytes) (r : Bytes) (h : keyPath s = .ok ks r) :
    ks ≠ [] ∧ ks.length < LIMIT := keyPath_len s ks r h

/-- non-vacuity: `a . b.c =` -/
example : keyPath [0x61, 0x20, 0x2E, 0x20, 0x62, 0x2E, 0x63, 0x20, 0x3D] = .ok [[0x61], [0x62], [0x63]] [0x3D] := by
  decide

/-- the assembled inline table: if every pair `(path, key, v)` has `path.length + nest v ≤ B`, the table
    nests at most `B + 1` deep -/
theorem T05_tableFromPairs (B : Nat) (kvs : List (List Bytes × Bytes × Val)) (items : List (Bytes × Val))
    (imp dot : Bool) (h : tableFromPairs kvs [] = some items) (hp : ∀ p ∈ kvs, p.1.length + nest p.2.2 ≤ B) :
    nest (.inl items imp dot) ≤ B + 1 := by
  have := nestPairs_tableFromPairs B kvs [] items h (by simp [nestPairs]) hp
  simp only [nest]; omega

/-- non-vacuity: `{a.b = [1], a.c = 2}` assembles to a table of depth 3 = (1 + 1) + 1 -/
example : tableFromPairs [([[0x61]], [0x62], .arr [.int 1]), ([[0x61]], [0x63], .int 2)] [] =
      some [([0x61], .inl [([0x62], .arr [.int 1]), ([0x63], .int 2)] true true)] ∧
    nest (.inl [([0x61], .inl [([0x62], .arr [.int 1]), ([0x63], .int 2)] true true)] false false) = 3 :=
  ⟨someLIs_sound _ _ (by decide +kernel), by decide⟩

/-- The statement as first requested, without `d < LIMIT`, is false: a scalar is accepted at any depth
    (`value 1 100 "true"` succeeds).  The parser is entered at depth 0 and only ever calls itself at a
    depth it has just checked, so `d < LIMIT` holds at every call. -/
def T05_value_depth_unrestricted : Prop :=
  ∀ fuel d s v rest, value fuel d s = .ok v rest → d + nest v < LIMIT

theorem T05_value_depth_unrestricted_false : ¬ T05_value_depth_unrestricted := by
  intro h
  have := h 1 100 [0x74, 0x72, 0x75, 0x65] (.bool true) [] (okIs_sound _ _ _ (by decide +kernel))
  simp [nest, LIMIT] at this

/-- every accepted value, whatever mix of arrays, inline tables and dotted keys it is built from,
    nests strictly less than the limit below the depth it was parsed at -/
theorem T05_value_depth (fuel d : Nat) (s : Bytes) (v : Val) (rest : Bytes) (hd : d < LIMIT)
    (h : value fuel d s = .ok v rest) : d + nest v < LIMIT :=
  (depthInv fuel).1 d s v rest h hd

/-- in particular a value parsed from the top nests less than `LIMIT` -/
theorem T05_parseValue_depth (s : Bytes) (v : Val) (h : parseValue s = some v) : nest v < LIMIT := by
  unfold parseValue at h
  split at h
  · rename_i v' hv
    injection h with h; subst h
    have := T05_value_depth _ 0 s v' [] (by decide) hv
    omega
  · cases h

/-- non-vacuity: `[{a.b=[1]}]` is accepted and nests 4 deep -/
example : value 40 0 [0x5B, 0x7B, 0x61, 0x2E, 0x62, 0x3D, 0x5B, 0x31, 0x5D, 0x7D, 0x5D] =
      .ok (.arr [.inl [([0x61], .inl [([0x62], .arr [.int 1])] true true)] false false]) [] ∧
    nest (.arr [.inl [([0x61], .inl [([0x62], .arr [.int 1])] true true)] false false]) = 4 :=
  ⟨okIs_sound _ _ _ (by decide +kernel), by decide⟩

example : parseValue [0x5B, 0x7B, 0x61, 0x2E, 0x62, 0x3D, 0x5B, 0x31, 0x5D, 0x7D, 0x5D] =
    some (.arr [.inl [([0x61], .inl [([0x62], .arr [.int 1])] true true)] false false]) :=
  someIs_sound _ _ (by decide +kernel)

/-- arrays nested below the limit are still accepted: `[`ⁿ⁺¹ `]`ⁿ⁺¹ with `n + 1 < LIMIT` brackets
    decodes to `n + 1` nested arrays (fuel `3 n + 2` is enough; `parseValue` gives `6 n + 10`) -/
theorem T05_accepts_arrays (n fuel : Nat) (rest : Bytes) (hn : n + 1 < LIMIT) (hf : 3 * n + 2 ≤ fuel) :
    value fuel 0 (List.replicate (n + 1) 0x5B ++ (List.replicate (n + 1) 0x5D ++ rest)) = .ok (nestedArr n) rest :=
  arrays_accepted n 0 fuel rest (by omega) hf

theorem T05_accepts_arrays_parseValue (n : Nat) (hn : n + 1 < LIMIT) :
    parseValue (List.replicate (n + 1) 0x5B ++ List.replicate (n + 1) 0x5D) = some (nestedArr n) := by
  have := T05_accepts_arrays n (3 * (List.replicate (n + 1) (0x5B : UInt8) ++ List.replicate (n + 1) 0x5D).length + 4) []
    hn (by simp; omega)
  simp only [List.append_nil] at this
  unfold parseValue
  rw [this]

/-- the same in the form "`n` brackets, fuel `3 * (2 * n) + 40`": accepted for every `1 ≤ n < LIMIT`
    (so 79 brackets are accepted; the first rejected count is `LIMIT` = 80) -/
theorem T05_accepts_arrays' (n : Nat) (h1 : 1 ≤ n) (hn : n < LIMIT) :
    value (3 * (2 * n) + 40) 0 (List.replicate n 0x5B ++ List.replicate n 0x5D) = .ok (nestedArr (n - 1)) [] := by
  obtain ⟨m, rfl⟩ : ∃ m, n = m + 1 := ⟨n - 1, by omega⟩
  have := T05_accepts_arrays m (3 * (2 * (m + 1)) + 40) [] (by omega) (by omega)
  simpa using this

theorem T05_nest_nestedArr (n : Nat) : nest (nestedArr n) = n + 1 := nest_nestedArr n

/-- `LIMIT` or more opening brackets are rejected with a non-recoverable error, whatever follows and
    whatever the fuel: the 79 brackets of `T05_accepts_arrays` are the most that can be accepted -/
theorem T05_rejects_arrays_at_limit (n fuel : Nat) (rest : Bytes) (hn : LIMIT ≤ n) :
    value fuel 0 (List.replicate n 0x5B ++ rest) = .cut :=
  arrays_rejected n 0 fuel rest (by simp [LIMIT] at hn; omega) (by omega)

/-- inline tables `{a={a=…{}…}}` with `n + 1 < LIMIT` tables are accepted -/
theorem T05_accepts_inline (n fuel : Nat) (rest : Bytes) (hn : n + 1 < LIMIT) (hf : 2 * n + 2 ≤ fuel) :
    value fuel 0 (inlText n ++ rest) = .ok (nestedInl n) rest :=
  inls_accepted n 0 fuel rest (by omega) hf

theorem T05_nest_nestedInl (n : Nat) : nest (nestedInl n) = n + 1 := nest_nestedInl n

/-- `LIMIT` or more nested inline tables are rejected: `{a=`ⁿ `{` with `LIMIT ≤ n + 1`, whatever follows -/
theorem T05_rejects_inline_at_limit (n fuel : Nat) (rest : Bytes) (hn : LIMIT ≤ n + 1) :
    value fuel 0 (inlOpen n ++ 0x7B :: rest) = .cut :=
  inls_rejected n 0 fuel rest (by omega)

/-- the text of `T05_accepts_inline` one level deeper is of that form -/
theorem T05_rejects_inlText (n fuel : Nat) (rest : Bytes) (hn : LIMIT ≤ n + 1) :
    value fuel 0 (inlText n ++ rest) = .cut := by
  rw [inlText_eq, List.append_assoc]
  exact T05_rejects_inline_at_limit n fuel _ hn

/-- the boundary instances: 79 brackets / tables are accepted, 80 are rejected -/
example : value 300 0 (List.replicate 79 0x5B ++ (List.replicate 79 0x5D ++ [])) = .ok (nestedArr 78) [] :=
  T05_accepts_arrays 78 300 [] (by decide) (by decide)
example : value 300 0 (List.replicate 80 0x5B ++ List.replicate 80 0x5D) = .cut :=
  T05_rejects_arrays_at_limit 80 300 _ (by decide)
example : value 300 0 (inlText 78 ++ []) = .ok (nestedInl 78) [] := T05_accepts_inline 78 300 [] (by decide) (by decide)
example : value 300 0 (inlText 79 ++ []) = .cut := T05_rejects_inlText 79 300 [] (by decide)

end TomlVerif.Props.C05
