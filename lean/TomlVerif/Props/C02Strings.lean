import TomlVerif.Lemmas.Strings02
/-! # C02 (strings) — every spelling the grammar allows decodes to the value the specification assigns

Specification: `Spec/AstString.lean` (abstract syntax of toml.abnf's four string productions with
`render`, `sem`, `wf`).  Model: `Model/Strings.lean`.  All theorems quantify over every well-formed
abstract string and every continuation `rest`; nothing is bounded. -/
namespace TomlVerif.Props.C02Strings
open TomlVerif TomlVerif.Spec TomlVerif.Spec.AstString TomlVerif.Model.Strings TomlVerif.Lemmas TomlVerif.Lemmas.S02

/-! ## 1. basic strings: no condition on what follows -/

theorem T02_basic_general (cs : List BasicChar) (rest : Bytes) (h : wfBasic cs = true) :
    basicString (renderBasic cs ++ rest) = .ok (semBasic cs) rest := by
  simp only [renderBasic, List.cons_append, List.append_assoc, List.nil_append, basicString]
  have := basic_body_general cs ((cs.flatMap BasicChar.render ++ 0x22 :: rest).length + 1) rest [] h (by omega)
  simpa using this

/-! ## 2. literal strings -/

theorem T02_literal_general (bs rest : Bytes) (h : wfLiteral bs = true) :
    literalString (renderLiteral bs ++ rest) = .ok (semLiteral bs) rest := by
  simp only [renderLiteral, List.cons_append, List.append_assoc, List.nil_append, semLiteral]
  exact literal_rt bs rest h

/-! ## 3. multi-line literal strings -/

theorem T02_ml_literal_general (a : MlLiteral) (rest : Bytes) (h : a.wf = true)
    (hf : MlFollow 0x27 (mllTrailing a.items) rest) :
    mlLiteralString (a.render ++ rest) = .ok a.sem rest := by
  simp only [MlLiteral.wf, Bool.and_eq_true] at h
  have hnl : a.firstNl = none →
      newline? (a.items.flatMap MllItem.render ++ 0x27 :: 0x27 :: 0x27 :: rest) = none := by
    intro hn
    obtain ⟨x, u, e, _, h2⟩ := mll_tail_head a.items rest h.1
    rw [e]
    have : ∀ j tl', a.items = j :: tl' → j.isNl = false := by
      intro j tl' e'
      have := h.2
      rw [hn, e'] at this
      simpa using this
    exact newline?_none x u (h2 this).1 (h2 this).2
  have hs := first_nl_strip a.firstNl _ hnl
  simp only [MlLiteral.render, List.cons_append, List.append_assoc, List.nil_append, mlLiteralString, hs]
  have := mll_items_general a.items
    ((a.items.flatMap MllItem.render ++ 0x27 :: 0x27 :: 0x27 :: rest).length + 1) rest [] h.1 hf (by omega)
  simpa [MlLiteral.sem] using this

/-! ## 4. multi-line basic strings -/

theorem T02_ml_basic_general (a : MlBasic) (rest : Bytes) (h : a.wf = true)
    (hf : MlFollow 0x22 (mlbTrailing a.items) rest) :
    mlBasicString (a.render ++ rest) = .ok a.sem rest := by
  simp only [MlBasic.wf, Bool.and_eq_true] at h
  have hnl : a.firstNl = none →
      newline? (a.items.flatMap MlbItem.render ++ 0x22 :: 0x22 :: 0x22 :: rest) = none := by
    intro hn
    obtain ⟨x, u, e, _, h2, _⟩ := mlb_tail_head a.items rest h.1
    rw [e]
    have : ∀ j tl', a.items = j :: tl' → j.isNl = false := by
      intro j tl' e'
      have := h.2
      rw [hn, e'] at this
      simpa using this
    exact newline?_none x u (h2 this).1 (h2 this).2
  have hs := first_nl_strip a.firstNl _ hnl
  simp only [MlBasic.render, List.cons_append, List.append_assoc, List.nil_append, mlBasicString, hs]
  have := mlb_items_general a.items
    ((a.items.flatMap MlbItem.render ++ 0x22 :: 0x22 :: 0x22 :: rest).length + 1) rest [] h.1 hf (by omega)
  simpa [MlBasic.sem] using this

/-! ## 5. the dispatcher -/

theorem T02_string_dispatch (a : StringAst) (rest : Bytes) (h : a.wf = true) (hf : a.Follow rest) :
    Model.Strings.string (a.render ++ rest) = .ok a.sem rest := by
  cases a with
  | basic cs =>
    simp only [StringAst.wf, StringAst.Follow, StringAst.render, StringAst.sem] at *
    have hb := T02_basic_general cs rest h
    have hm : mlBasicString (renderBasic cs ++ rest) = .bt := by
      simp only [renderBasic, List.cons_append, List.append_assoc, List.nil_append]
      cases cs with
      | nil =>
        have hr : rest.head? ≠ some 0x22 := by rcases hf with hf | hf; exact absurd rfl hf; exact hf
        cases rest with
        | nil => rfl
        | cons y r => exact mlBasicString_bt_of_third y r (head_ne_of _ _ y r hr rfl)
      | cons c cs =>
        have hc : c.wf = true := by rw [wfBasic_cons] at h; simp only [Bool.and_eq_true] at h; exact h.1
        obtain ⟨x, u, e, h1, _⟩ := mlb_item_head (.char c) (by cases c <;> simpa [MlbItem.wf, BasicChar.wf, isMlbUnescaped] using hc)
        simp only [MlbItem.render] at e
        simp only [List.flatMap_cons, e, List.cons_append]
        exact mlBasicString_bt_of_second x _ (h1 rfl)
    unfold Model.Strings.string
    rw [hm, hb]
  | mlBasic a =>
    simp only [StringAst.wf, StringAst.Follow, StringAst.render, StringAst.sem] at *
    unfold Model.Strings.string
    rw [T02_ml_basic_general a rest h hf]
  | literal bs =>
    simp only [StringAst.wf, StringAst.Follow, StringAst.render, StringAst.sem] at *
    have hb := T02_literal_general bs rest h
    have hm : mlLiteralString (renderLiteral bs ++ rest) = .bt := by
      simp only [renderLiteral, List.cons_append, List.append_assoc, List.nil_append]
      cases bs with
      | nil =>
        have hr : rest.head? ≠ some 0x27 := by rcases hf with hf | hf; exact absurd rfl hf; exact hf
        cases rest with
        | nil => rfl
        | cons y r => exact mlLiteralString_bt_of_third y r (head_ne_of _ _ y r hr rfl)
      | cons b bs =>
        simp only [wfLiteral, List.all_cons, Bool.and_eq_true] at h
        have : b ≠ 0x27 := (mll_char_head b h.1).1
        exact mlLiteralString_bt_of_second b _ this
    have h1 : mlBasicString (renderLiteral bs ++ rest) = .bt := by simp [renderLiteral, mlBasicString]
    have h2 : basicString (renderLiteral bs ++ rest) = .bt := by simp [renderLiteral, basicString]
    unfold Model.Strings.string
    rw [h1, h2, hm, hb]
  | mlLiteral a =>
    simp only [StringAst.wf, StringAst.Follow, StringAst.render, StringAst.sem] at *
    have h1 : mlBasicString (a.render ++ rest) = .bt := by simp [MlLiteral.render, mlBasicString]
    have h2 : basicString (a.render ++ rest) = .bt := by simp [MlLiteral.render, basicString]
    unfold Model.Strings.string
    rw [h1, h2, T02_ml_literal_general a rest h hf]

/-! ## 6. soundness of the single-line kinds, the escape table, hex escapes -/

/-- the parser accepts only `quotation-mark *basic-char quotation-mark` and decodes it per the specification -/
theorem T02_basic_sound (s v rest : Bytes) (h : basicString s = .ok v rest) :
    ∃ cs : List BasicChar, wfBasic cs = true ∧ s = renderBasic cs ++ rest ∧ v = semBasic cs := by
  unfold basicString at h
  split at h
  · rename_i r
    obtain ⟨cs, hw, hs, hv⟩ := basic_body_sound _ r [] v rest h
    exact ⟨cs, hw, by simp [renderBasic, hs], by simpa using hv⟩
  · cases h

theorem T02_literal_sound (s v rest : Bytes) (h : literalString s = .ok v rest) :
    wfLiteral v = true ∧ s = renderLiteral v ++ rest := by
  unfold literalString at h
  split at h
  · rename_i r
    obtain ⟨ha, hs⟩ := takeLiteral_spec r
    split at h
    · rename_i body t ht
      injection h with h1 h2
      subst h1; subst h2
      rw [ht] at ha hs
      exact ⟨ha, by simp [renderLiteral, hs]⟩
    · cases h
  · cases h

/-- basic strings: accepted ⇔ grammar-conformant, and then the value is the specified one -/
theorem T02_basic_iff (s v rest : Bytes) :
    basicString s = .ok v rest ↔ ∃ cs : List BasicChar, wfBasic cs = true ∧ s = renderBasic cs ++ rest ∧ v = semBasic cs := by
  constructor
  · exact T02_basic_sound s v rest
  · rintro ⟨cs, hw, rfl, rfl⟩; exact T02_basic_general cs rest hw

theorem T02_literal_iff (s v rest : Bytes) :
    literalString s = .ok v rest ↔ wfLiteral v = true ∧ s = renderLiteral v ++ rest := by
  constructor
  · exact T02_literal_sound s v rest
  · rintro ⟨hw, rfl⟩; exact T02_literal_general v rest hw

/-- the seven one-letter escapes give exactly the code points of the TOML table; `u`/`U` go to the hex
    escapes; every other letter is a hard error -/
theorem T02_escape_table (r : Bytes) :
    escapeSeqChar (0x62 :: r) = .ok [0x08] r ∧ escapeSeqChar (0x74 :: r) = .ok [0x09] r ∧
    escapeSeqChar (0x6E :: r) = .ok [0x0A] r ∧ escapeSeqChar (0x66 :: r) = .ok [0x0C] r ∧
    escapeSeqChar (0x72 :: r) = .ok [0x0D] r ∧ escapeSeqChar (0x22 :: r) = .ok [0x22] r ∧
    escapeSeqChar (0x5C :: r) = .ok [0x5C] r ∧
    escapeSeqChar (0x75 :: r) = hexescape 4 r ∧ escapeSeqChar (0x55 :: r) = hexescape 8 r ∧
    (∀ c : UInt8, c ≠ 0x62 → c ≠ 0x74 → c ≠ 0x6E → c ≠ 0x66 → c ≠ 0x72 → c ≠ 0x22 → c ≠ 0x5C →
      c ≠ 0x75 → c ≠ 0x55 → escapeSeqChar (c :: r) = .cut) := by
  refine ⟨by simp [escapeSeqChar], by simp [escapeSeqChar], by simp [escapeSeqChar], by simp [escapeSeqChar],
    by simp [escapeSeqChar], by simp [escapeSeqChar], by simp [escapeSeqChar], by simp [escapeSeqChar],
    by simp [escapeSeqChar], ?_⟩
  intro c h1 h2 h3 h4 h5 h6 h7 h8 h9
  simp [escapeSeqChar, h1, h2, h3, h4, h5, h6, h7, h8, h9]

/-- the same, against the specification's table -/
theorem T02_escape_table_spec (c : UInt8) (r : Bytes) :
    escapeSeqChar (c :: r) =
      match escMeaning c with
      | some v => .ok [v] r
      | none => if c = 0x75 then hexescape 4 r else if c = 0x55 then hexescape 8 r else .cut :=
  escapeSeqChar_table c r

/-- hex escapes (any number of HEXDIG, either case): the UTF-8 encoding of the value when it is a
    Unicode scalar value, a hard error otherwise -/
theorem T02_hexescape (ds r : Bytes) (h : ds.all isHexdig = true) :
    hexescape ds.length (ds ++ r) =
      if Utf8.isScalar (hexValue ds) then .ok (Utf8.encode (hexValue ds)) r else .cut :=
  hexescape_digits ds r h

theorem T02_hexescape_iff (ds r : Bytes) (h : ds.all isHexdig = true) :
    hexescape ds.length (ds ++ r) = .ok (Utf8.encode (hexValue ds)) r ↔ Utf8.isScalar (hexValue ds) = true := by
  rw [T02_hexescape ds r h]
  cases Utf8.isScalar (hexValue ds) <;> simp

/-- a non-hex byte among the first `n` is a hard error -/
theorem T02_hexescape_cut (n : Nat) (s : Bytes) :
    (¬ ∃ ds r, ds.length = n ∧ ds.all isHexdig = true ∧ s = ds ++ r) → hexescape n s = .cut := by
  intro hno
  unfold hexescape
  cases hn : hexN n s 0 with
  | none => rfl
  | some p =>
    obtain ⟨cp, r⟩ := p
    obtain ⟨ds, hl, ha, hs, _⟩ := hexN_inv n s 0 cp r hn
    exact absurd ⟨ds, r, hl, ha, hs⟩ hno

/-! ## 7. converse for the multi-line kinds and the dispatcher: only grammar-conformant spellings are accepted -/

theorem T02_ml_basic_sound (s v rest : Bytes) (h : mlBasicString s = .ok v rest) :
    ∃ a : MlBasic, a.wf = true ∧ MlFollow 0x22 (mlbTrailing a.items) rest ∧ s = a.render ++ rest ∧ v = a.sem := by
  unfold mlBasicString at h
  split at h
  · rename_i r
    simp only [] at h
    cases hn : newline? r with
    | none =>
      simp only [hn, Option.getD_none] at h
      obtain ⟨items, hw, hs, hv, hf⟩ := mlb_body_sound _ r [] v rest h
      refine ⟨⟨none, items⟩, ?_, hf, by simp [MlBasic.render, firstNlBytes, hs], by simpa [MlBasic.sem] using hv⟩
      rw [hs] at hn
      rw [mlb_wf_none items _ hn]; exact hw
    | some r' =>
      simp only [hn, Option.getD_some] at h
      obtain ⟨c, hc⟩ := newline?_inv _ _ hn
      obtain ⟨items, hw, hs, hv, hf⟩ := mlb_body_sound _ r' [] v rest h
      exact ⟨⟨some c, items⟩, by simp [MlBasic.wf, hw], hf, by simp [MlBasic.render, firstNlBytes, hc, hs],
        by simpa [MlBasic.sem] using hv⟩
  · cases h

theorem T02_ml_literal_sound (s v rest : Bytes) (h : mlLiteralString s = .ok v rest) :
    ∃ a : MlLiteral, a.wf = true ∧ MlFollow 0x27 (mllTrailing a.items) rest ∧ s = a.render ++ rest ∧ v = a.sem := by
  unfold mlLiteralString at h
  split at h
  · rename_i r
    simp only [] at h
    cases hn : newline? r with
    | none =>
      simp only [hn, Option.getD_none] at h
      obtain ⟨items, hw, hs, hv, hf⟩ := mll_body_sound _ r [] v rest h
      refine ⟨⟨none, items⟩, ?_, hf, by simp [MlLiteral.render, firstNlBytes, hs], by simpa [MlLiteral.sem] using hv⟩
      rw [hs] at hn
      rw [mll_wf_none items _ hn]; exact hw
    | some r' =>
      simp only [hn, Option.getD_some] at h
      obtain ⟨c, hc⟩ := newline?_inv _ _ hn
      obtain ⟨items, hw, hs, hv, hf⟩ := mll_body_sound _ r' [] v rest h
      exact ⟨⟨some c, items⟩, by simp [MlLiteral.wf, hw], hf, by simp [MlLiteral.render, firstNlBytes, hc, hs],
        by simpa [MlLiteral.sem] using hv⟩
  · cases h

theorem T02_ml_basic_iff (s v rest : Bytes) :
    mlBasicString s = .ok v rest ↔
      ∃ a : MlBasic, a.wf = true ∧ MlFollow 0x22 (mlbTrailing a.items) rest ∧ s = a.render ++ rest ∧ v = a.sem := by
  constructor
  · exact T02_ml_basic_sound s v rest
  · rintro ⟨a, hw, hf, rfl, rfl⟩; exact T02_ml_basic_general a rest hw hf

theorem T02_ml_literal_iff (s v rest : Bytes) :
    mlLiteralString s = .ok v rest ↔
      ∃ a : MlLiteral, a.wf = true ∧ MlFollow 0x27 (mllTrailing a.items) rest ∧ s = a.render ++ rest ∧ v = a.sem := by
  constructor
  · exact T02_ml_literal_sound s v rest
  · rintro ⟨a, hw, hf, rfl, rfl⟩; exact T02_ml_literal_general a rest hw hf

/-- three quote characters are never left to the single-line parsers -/
theorem mlBasicString_ne_bt_of_three (r : Bytes) : mlBasicString (0x22 :: 0x22 :: 0x22 :: r) ≠ .bt := by
  simp only [mlBasicString]; exact mlBasicBody_ne_bt _ _ _

theorem mlLiteralString_ne_bt_of_three (r : Bytes) : mlLiteralString (0x27 :: 0x27 :: 0x27 :: r) ≠ .bt := by
  simp only [mlLiteralString]; exact mlLiteralBody_ne_bt _ _ _

/-- the dispatcher accepts only the four grammar-conformant kinds, with the specified value -/
theorem T02_string_sound (s v rest : Bytes) (h : Model.Strings.string s = .ok v rest) :
    ∃ a : StringAst, a.wf = true ∧ a.Follow rest ∧ s = a.render ++ rest ∧ v = a.sem := by
  unfold Model.Strings.string at h
  cases h1 : mlBasicString s with
  | ok v1 r1 =>
    simp only [h1] at h
    injection h with e1 e2; subst e1; subst e2
    obtain ⟨a, hw, hf, hs, hv⟩ := T02_ml_basic_sound s _ _ h1
    exact ⟨.mlBasic a, hw, hf, hs, hv⟩
  | cut => simp [h1] at h
  | bt =>
    simp only [h1] at h
    cases h2 : basicString s with
    | ok v2 r2 =>
      simp only [h2] at h
      injection h with e1 e2; subst e1; subst e2
      obtain ⟨cs, hw, hs, hv⟩ := T02_basic_sound s _ _ h2
      refine ⟨.basic cs, hw, ?_, hs, hv⟩
      by_cases hcs : cs = []
      · subst hcs
        refine Or.inr ?_
        intro hr
        cases r2 with
        | nil => simp at hr
        | cons y t =>
          simp only [List.head?_cons, Option.some.injEq] at hr
          subst hr; subst hs
          exact mlBasicString_ne_bt_of_three t h1
      · exact Or.inl hcs
    | cut => simp [h2] at h
    | bt =>
      simp only [h2] at h
      cases h3 : mlLiteralString s with
      | ok v3 r3 =>
        simp only [h3] at h
        injection h with e1 e2; subst e1; subst e2
        obtain ⟨a, hw, hf, hs, hv⟩ := T02_ml_literal_sound s _ _ h3
        exact ⟨.mlLiteral a, hw, hf, hs, hv⟩
      | cut => simp [h3] at h
      | bt =>
        simp only [h3] at h
        obtain ⟨hw, hs⟩ := T02_literal_sound s v rest h
        refine ⟨.literal v, hw, ?_, hs, rfl⟩
        by_cases hcs : v = []
        · subst hcs
          refine Or.inr ?_
          intro hr
          cases rest with
          | nil => simp at hr
          | cons y t =>
            simp only [List.head?_cons, Option.some.injEq] at hr
            subst hr; subst hs
            exact mlLiteralString_ne_bt_of_three t h3
        · exact Or.inl hcs

/-- **strings, both directions**: the parser returns `v` and leaves `rest` exactly when the input is the
    spelling of a well-formed abstract string with meaning `v`, followed by `rest`. -/
theorem T02_string_iff (s v rest : Bytes) :
    Model.Strings.string s = .ok v rest ↔
      ∃ a : StringAst, a.wf = true ∧ a.Follow rest ∧ s = a.render ++ rest ∧ v = a.sem := by
  constructor
  · exact T02_string_sound s v rest
  · rintro ⟨a, hw, hf, rfl, rfl⟩; exact T02_string_dispatch a rest hw hf

example : Model.Strings.string [0x27, 0x27, 0x27, 0x0A, 0x61, 0x27, 0x27, 0x27, 0x27, 0x20] = .ok [0x61, 0x27] [0x20] := by decide
example : mlBasicString [0x22, 0x22, 0x22, 0x61, 0x5C, 0x0A, 0x20, 0x62, 0x22, 0x22, 0x22] = .ok [0x61, 0x62] [] := by decide

/-! ## non-vacuity: concrete well-formed spellings -/

/-- `"a\n\u00e9\U0001F600"` -/
def exBasic : List BasicChar :=
  [.raw 0x61, .escaped (.simple 0x6E), .escaped (.u4 0x30 0x30 0x65 0x39),
   .escaped (.u8 0x30 0x30 0x30 0x31 0x46 0x36 0x30 0x30)]
example : wfBasic exBasic = true := by decide
example : semBasic exBasic = [0x61, 0x0A, 0xC3, 0xA9, 0xF0, 0x9F, 0x98, 0x80] := by decide
/-- no follow condition: even another quotation mark may come next -/
example : basicString (renderBasic exBasic ++ [0x22]) = .ok [0x61, 0x0A, 0xC3, 0xA9, 0xF0, 0x9F, 0x98, 0x80] [0x22] :=
  T02_basic_general exBasic [0x22] (by decide)
/-- hex digits in either case -/
example : Escaped.sem (.u4 0x30 0x30 0x45 0x39) = Escaped.sem (.u4 0x30 0x30 0x65 0x39) := by decide

/-- `'C:\a'` -/
example : wfLiteral [0x43, 0x3A, 0x5C, 0x61] = true := by decide

/-- `"""` CRLF `a""\"` CRLF `\` SP TAB LF SP CRLF LF TAB `b"` `"""` -/
def exMlb : MlBasic :=
  { firstNl := some true,
    items := [.char (.raw 0x61), .quotes 2, .char (.escaped (.simple 0x22)), .nl true,
              .lineCont [0x20, 0x09] false [.ws 0x20, .nl true, .nl false, .ws 0x09], .char (.raw 0x62), .quotes 1] }
example : exMlb.wf = true := by decide
example : MlFollow 0x22 (mlbTrailing exMlb.items) [0x0A] := Or.inr (by decide)
example : exMlb.render = [34, 34, 34, 13, 10, 97, 34, 34, 92, 34, 13, 10, 92, 32, 9, 10, 32, 13, 10, 10, 9, 98, 34,
    34, 34, 34] := by decide
example : exMlb.sem = [0x61, 0x22, 0x22, 0x22, 0x0A, 0x62, 0x22] := by decide
example : (StringAst.mlBasic exMlb).wf = true ∧ (StringAst.mlBasic exMlb).Follow [0x0A] := ⟨by decide, Or.inr (by decide)⟩

/-- three apostrophes, LF, `a''`, CRLF, `b''`, three apostrophes, followed by another apostrophe
    (allowed after two body apostrophes) -/
def exMll : MlLiteral :=
  { firstNl := some false, items := [.raw 0x61, .quotes 2, .nl true, .raw 0x62, .quotes 2] }
example : exMll.wf = true := by decide
example : MlFollow 0x27 (mllTrailing exMll.items) [0x27] := Or.inl (by decide)
example : exMll.sem = [0x61, 0x27, 0x27, 0x0A, 0x62, 0x27, 0x27] := by decide

example : (StringAst.basic []).wf = true ∧ (StringAst.basic []).Follow [0x2C] := ⟨by decide, Or.inr (by decide)⟩
example : (StringAst.literal [0x61]).wf = true ∧ (StringAst.literal [0x61]).Follow [0x27] := ⟨by decide, Or.inl (by decide)⟩

example : basicString [0x22, 0x5C, 0x74, 0x22, 0x20] = .ok [0x09] [0x20] := by decide
example : literalString [0x27, 0x5C, 0x74, 0x27, 0x20] = .ok [0x5C, 0x74] [0x20] := by decide
example : [0x30, 0x30, 0x45, 0x39].all isHexdig = true ∧ Utf8.isScalar (hexValue [0x30, 0x30, 0x45, 0x39]) = true := by decide
/-- `\uD800` is a hard error -/
example : [0x44, 0x38, 0x30, 0x30].all isHexdig = true ∧ hexescape 4 [0x44, 0x38, 0x30, 0x30] = .cut := by decide
example : ¬ ∃ ds r, ds.length = 4 ∧ ds.all isHexdig = true ∧ [0x30, 0x30, 0x47, 0x30] = ds ++ r := by
  rintro ⟨ds, r, hl, ha, hs⟩
  match ds, hl with
  | [a, b, c, d], _ =>
    simp only [List.cons_append, List.nil_append, List.cons.injEq] at hs
    obtain ⟨_, _, h3, _⟩ := hs
    subst h3
    simp [isHexdig, isDigit, inR] at ha

/-! ## each side condition is needed: spellings the ABNF alone would derive but that read differently

In every example the bytes are `render a` for an `a` that violates exactly one condition, and the
parser (following the prose of the specification) does **not** return `sem a`. -/

/-- two adjacent `quotes` items (= three raw quotation marks in the body): the string closes early -/
example : let a : MlBasic := { firstNl := none, items := [.quotes 1, .quotes 2] }
    a.wf = false ∧ mlBasicString (a.render ++ [0x0A]) = .ok [0x22, 0x22] [0x22, 0x0A] := by decide
/-- a `quotes` item of three marks, same bytes -/
example : let a : MlBasic := { firstNl := none, items := [.quotes 3] }
    a.wf = false ∧ mlBasicString (a.render ++ [0x0A]) ≠ .ok a.sem [0x0A] := by decide
/-- whitespace after a line continuation is trimmed, it is not content -/
example : let a : MlBasic := { firstNl := none, items := [.lineCont [] false [], .char (.raw 0x20), .char (.raw 0x61)] }
    a.wf = false ∧ a.sem = [0x20, 0x61] ∧ mlBasicString (a.render ++ [0x0A]) = .ok [0x61] [0x0A] := by decide
/-- a newline after a line continuation is trimmed as well -/
example : let a : MlBasic := { firstNl := none, items := [.lineCont [] false [], .nl false, .char (.raw 0x61)] }
    a.wf = false ∧ a.sem = [0x0A, 0x61] ∧ mlBasicString (a.render ++ [0x0A]) = .ok [0x61] [0x0A] := by decide
/-- a newline right after the opening delimiter is never content -/
example : let a : MlBasic := { firstNl := none, items := [.nl false, .char (.raw 0x61)] }
    a.wf = false ∧ a.sem = [0x0A, 0x61] ∧ mlBasicString (a.render ++ [0x0A]) = .ok [0x61] [0x0A] := by decide
example : let a : MlLiteral := { firstNl := none, items := [.nl true, .raw 0x61] }
    a.wf = false ∧ a.sem = [0x0A, 0x61] ∧ mlLiteralString (a.render ++ [0x0A]) = .ok [0x61] [0x0A] := by decide
/-- follow condition: a quote character right after the closing delimiter is taken into the string … -/
example : let a : MlBasic := { firstNl := none, items := [.char (.raw 0x61)] }
    a.wf = true ∧ ¬ MlFollow 0x22 (mlbTrailing a.items) [0x22, 0x0A] ∧
    mlBasicString (a.render ++ [0x22, 0x0A]) = .ok [0x61, 0x22] [0x0A] := by
  refine ⟨by decide, ?_, by decide⟩
  rintro (h | h)
  · exact absurd h (by decide)
  · exact h rfl
/-- … unless the body already ends in two of them -/
example : let a : MlBasic := { firstNl := none, items := [.char (.raw 0x61), .quotes 2] }
    mlBasicString (a.render ++ [0x22, 0x0A]) = .ok [0x61, 0x22, 0x22] [0x22, 0x0A] := by decide
/-- the empty single-line string followed by its quote character is the start of a multi-line string -/
example : ¬ (StringAst.basic []).Follow [0x22, 0x0A] ∧
    Model.Strings.string ((StringAst.basic []).render ++ [0x22, 0x0A]) = .cut := by
  refine ⟨?_, by decide⟩
  rintro (h | h)
  · exact h rfl
  · exact h rfl
/-- an unknown escape letter, a surrogate, a value above U+10FFFF: hard errors -/
example : basicString [0x22, 0x5C, 0x61, 0x22] = .cut ∧ basicString [0x22, 0x5C, 0x75, 0x44, 0x38, 0x30, 0x30, 0x22] = .cut ∧
    basicString [0x22, 0x5C, 0x55, 0x30, 0x30, 0x31, 0x31, 0x30, 0x30, 0x30, 0x30, 0x22] = .cut := by decide

end TomlVerif.Props.C02Strings
