import TomlVerif.Props.C03MoreSum
import TomlVerif.Lemmas.Tiling03MoreSemMain
/-! C03, continued — the weaker clause (valid, SAME DATA) for every document whose dotted keys are
    adjacent: any spelling of repeated names, any order of sections, BOM, CR LF anywhere, no final
    newline, any values.

    The class.  `adjRun s` (`Lemmas/Tiling03MoreSemDefs.lean`) is `ordRunV s`
    (`Props/C03MoreOrd.lean`) with ALL spelling checks (`sameSeg`, `sameLeaf`) and the value check
    (`okValue`) removed.  What remains is structure, checked along the run of `parse_document`:
      * header lines (`pathOkA`, on the root after `finalize_table`): no table on the path is a
        dotted-key table; a segment naming an existing entry names a table or a non-empty array of
        tables; the last key is new or — for `[[…]]` — names an array of tables.  (So: no header
        through a dotted-key table or a value, and no `[t]` on a table `t` that exists implicitly
        — the parser would take it over and move it.)
      * key/value lines (`dottedOkA`, on the current table): every prefix segment of the key that
        names an existing entry names the LAST entry of its table, a dotted-key table (adjacent
        dotted keys).

    Why it holds (`Lemmas/Tiling03MoreSem{Defs,Tree,Body,Line,State,Main}.lean`): in the class the
    printed text consists of the same statements in the same order as the source — headers in
    position order (`printDocG_ord`: the printer sorts, invisible implicit tables do not count),
    bodies in source order — each written with the STORED spelling of its keys (same key text,
    `GKey`) and with `stripCr` applied to the trivia.  The line loop carries: the text written so
    far is `renderLinesQ ls` for well-formed grammar lines `ls` (`QLine`, C01) and
    `run {} (stmtsLinesQ ls) = some (eraseState st)`; at the end `parseDocument_renderQ`
    (completeness of the grammar, C01) reads the printed text back as that run. -/
namespace TomlVerif.Props.C03More
open TomlVerif TomlVerif.Model TomlVerif.Model.Cst TomlVerif.Model.Encode
open TomlVerif.Lemmas.Cst03 TomlVerif.Lemmas.Tiling03 TomlVerif.Lemmas.Tiling03Hdr TomlVerif.Lemmas.Tiling03Nest
open TomlVerif.Lemmas.Tiling03More
open TomlVerif.Props.C03 TomlVerif.Props.C03Doc TomlVerif.Props.C03Hdr TomlVerif.Props.C03Nest

/-- class inclusion: the class of `T03_doc_tiling_ord` is inside the new one -/
theorem T03_ordRunV_adjRun (s : Bytes) (h : ordRunV s = true) : adjRun s = true :=
  ordRunV_A s h

/-- T03_same_data_adjacent: for every source in the class — no hypothesis on BOM, CR, final
    newline, spelling or values — the printed text decodes (semantic parser) to the same table,
    flags and positions included -/
theorem T03_same_data_adjacent (s : Bytes) (d : CDoc) (h : parseCst s = some d) (hrun : adjRun s = true) :
    Doc.parseDocument (printDoc s d) = Doc.parseDocument s := by
  rw [same_data_adj s d h hrun, ← T03_cst_erases_to_doc s, h]; rfl

/-- … and is accepted by the format-preserving parser, with the same data -/
theorem T03_same_data_adjacent_cst (s : Bytes) (d : CDoc) (h : parseCst s = some d) (hrun : adjRun s = true) :
    ∃ d', parseCst (printDoc s d) = some d' ∧ eraseTbl d'.root = eraseTbl d.root :=
  (T03_reparse_iff_doc (printDoc s d) (fun t => t = eraseTbl d.root)).2 ⟨_, same_data_adj s d h hrun, rfl⟩

/-- with the fixed data spelled out -/
theorem T03_same_data_adjacent_tbl (s : Bytes) (d : CDoc) (h : parseCst s = some d) (hrun : adjRun s = true) :
    Doc.parseDocument (printDoc s d) = some (eraseTbl d.root) :=
  same_data_adj s d h hrun

/-! ### non-vacuity: in `adjRun`, outside `ordRunV`, not printed back byte for byte, same data -/

/-- the data of the printed text is the data of the source (decidable form of the conclusion) -/
def sameData (s : Bytes) : Option Bool :=
  (parseCst s).map fun d => Spec.Encode06.beqOptTbl (Doc.parseDocument (printDoc s d)) (Doc.parseDocument s)

/-- a respelled header segment, sections out of order -/
example : adjRun (strBytes "[a]\n[c]\n[ a .b]\n") = true ∧ ordRunV (strBytes "[a]\n[c]\n[ a .b]\n") = false ∧
    (parseCst (strBytes "[a]\n[c]\n[ a .b]\n")).map (printDoc (strBytes "[a]\n[c]\n[ a .b]\n"))
      = some (strBytes "[a]\n[c]\n[ a.b]\n") ∧
    sameData (strBytes "[a]\n[c]\n[ a .b]\n") = some true := by decide +kernel

/-- a respelled `[[ c ]]` -/
example : adjRun (strBytes "[[c]]\n[[ c ]]\n") = true ∧ ordRunV (strBytes "[[c]]\n[[ c ]]\n") = false ∧
    (parseCst (strBytes "[[c]]\n[[ c ]]\n")).map (printDoc (strBytes "[[c]]\n[[ c ]]\n"))
      = some (strBytes "[[c]]\n[[c]]\n") ∧
    sameData (strBytes "[[c]]\n[[ c ]]\n") = some true := by decide +kernel

/-- a respelled dotted-key prefix in a body -/
example : adjRun (strBytes "a .b = 1\na.c = 2\n") = true ∧ ordRunV (strBytes "a .b = 1\na.c = 2\n") = false ∧
    (parseCst (strBytes "a .b = 1\na.c = 2\n")).map (printDoc (strBytes "a .b = 1\na.c = 2\n"))
      = some (strBytes "a .b = 1\na .c = 2\n") ∧
    sameData (strBytes "a .b = 1\na.c = 2\n") = some true := by decide +kernel

/-- non-adjacent dotted keys INSIDE an inline table (regrouped by the printer), CR LF ends -/
example : adjRun (strBytes "v = {a.b=1,c=2,a.d=3}\r\n[t] # x\r\n") = true ∧
    ordRunV (strBytes "v = {a.b=1,c=2,a.d=3}\r\n[t] # x\r\n") = false ∧
    (parseCst (strBytes "v = {a.b=1,c=2,a.d=3}\r\n[t] # x\r\n")).map (printDoc (strBytes "v = {a.b=1,c=2,a.d=3}\r\n[t] # x\r\n"))
      = some (strBytes "v = {a.b=1,a.d=3,c=2}\n[t] # x\n") ∧
    sameData (strBytes "v = {a.b=1,c=2,a.d=3}\r\n[t] # x\r\n") = some true := by decide +kernel

/-- a BOM, CR LF, respelled dotted keys and headers, sections out of order, a comment line, no
    final newline -/
def exSemAll : Bytes :=
  [0xEF, 0xBB, 0xBF] ++ strBytes "[a]\r\nk.x = 1\r\nk . y = 2\r\n# c\r\n[c]\r\n[ a.b]\r\n[[a.c]]\r\n[[a . c]] # z"

example : adjRun exSemAll = true ∧ ordRunV exSemAll = false ∧
    (parseCst exSemAll).map (printDoc exSemAll)
      = some (strBytes "[a]\nk.x = 1\nk. y = 2\n# c\n[c]\n[ a.b]\n[[a.c]]\n[[a.c]] # z\n") ∧
    sameData exSemAll = some true := by decide +kernel

/-- a document that is only a comment without line end; the examples of the older classes -/
example : adjRun (strBytes "# only comment") = true ∧ adjRun exOrd2 = true ∧ adjRun exCargoOrd = true ∧
    adjRun exMixed = true ∧ adjRun exNestedCrlf = true := by decide +kernel

/-! ### what stays excluded -/

/-- non-adjacent dotted keys in a table body: the data is the same here, but the class does not
    cover it -/
example : adjRun (strBytes "a.b = 1\nc = 2\na.d = 3\n") = false ∧
    sameData (strBytes "a.b = 1\nc = 2\na.d = 3\n") = some true := by decide +kernel

/-- a dotted key through a table made by a header (`T03_same_data_counterexample`,
    `Props/C03More.lean`): outside the class, and the data DIFFERS (the `dotted` flag of `a.b`) -/
example : adjRun (strBytes "[a.b.d]\n[a]\nb.c.e = 3\n") = false ∧
    sameData (strBytes "[a.b.d]\n[a]\nb.c.e = 3\n") = some false := by decide +kernel

/-- a `[t]` header on an implicitly existing table: outside the class (same data here) -/
example : adjRun (strBytes "[x.y]\n[z]\n[x]\n") = false ∧ sameData (strBytes "[x.y]\n[z]\n[x]\n") = some true := by
  decide +kernel

end TomlVerif.Props.C03More
