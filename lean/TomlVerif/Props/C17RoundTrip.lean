import TomlVerif.Lemmas.RoundTrip17e
/-! # C17 / C13 / C07 — the text round trip of `toml::Value` trees

`toml::to_string(&v)` / `to_string_pretty(&v)` (`toText f pretty v`, Model/TomlValue.lean) followed by
`toml::from_str::<toml::Value>` (`decodeValue fl`, the parser of Model/Doc.lean, then `impl Deserialize for
toml::Value` of Model/DeRoutes.lean) gives the tree back, with every table's entries in the order the target map
puts them (`canonTV fl v`).  Layers, each a theorem:

  (a) inline values: `T17_inline` — `renderVal` re-read by the value parser;
  (b) statements: `T17_statements` — parsing the printed text is running the definition state machine over the
      printed statements;
  (c) document: `T17_document` — the state machine accepts them and builds the tree in document order;
  then `T17_visit` (what `Value`'s visitor makes of it) and the assembled `T17_roundtrip`, `T17_roundtrip_table`.

`decodeValue` / `decodeTable` are those of the NEW file `Model/DeText.lean`: the functions of the same names in
`Driver/C13.lean` written on total versions of `presOfVal` / `presOfItem` / `presOfTbl` (the driver's are
`partial def`s, hence opaque to proofs, so no `rfl` lemma can tie them; the driver can import `Model/DeText.lean`
instead of its own copies). -/
namespace TomlVerif.Props.C17RoundTrip
open TomlVerif.Model.DeText
open TomlVerif TomlVerif.Spec TomlVerif.Model TomlVerif.Model.TomlValue TomlVerif.Model.DeRoutes
open TomlVerif.Model.Value (LIMIT)
open TomlVerif.Lemmas.RoundTrip17

/-- the trees the round trip is stated for: `OkV` (integers in the `i64` range, no float, date-times with fields in
    range and a year ≤ 9999, in every table pairwise distinct keys none of which is `$__toml_private_datetime`)
    and containers nested at most `LIMIT` deep (the root table included) -/
def TVOk (v : TV) : Prop := OkV v ∧ depthTV v ≤ LIMIT

/-- the root table in document order (own values, then sub-tables and arrays of tables, recursively) -/
def docRoot : TV → TV
  | .tbl items => .tbl (docTbl items)
  | w => w

/-- what the round trip returns: the three passes of `impl Serialize for Value` at every table (`normTV`), the
    tables printed as `[table]` / `[[array]]` sections with their values first (`docRoot`), every table's entries
    put into the target map in that order (`placeTV`: `BTreeMap` sorts them by key, `IndexMap` keeps the order) -/
def canonTV (fl : Flavour) (v : TV) : TV := placeTV fl (docRoot (normTV v))

/-- the same for `toml::Table`: no three passes at the root (`impl Serialize for Map`) -/
def canonTable (fl : Flavour) (items : List (Bytes × TV)) : List (Bytes × TV) :=
  insertAllReplace fl [] (placeTVPs fl (docTbl (normTVPs items)))

/-! ## the layers -/

/-- (a) **inline values**: the text of a well-formed tree, plain or pretty, is read back by the value parser as
    that tree (inline tables in printed order), in any context in which a value may end -/
theorem T17_inline (f : FloatText) (pretty : Bool) (v : TV) (h : OkV v) (d fuel : Nat) (rest : Bytes)
    (hd : d + depthTV v < LIMIT) (hr : AstValue.ValFollowS rest) (hf : 2 * (renderVal f pretty v).length ≤ fuel) :
    Value.value fuel d (renderVal f pretty v ++ rest) = .ok (valOf v) rest :=
  value_renderVal f pretty v h d fuel rest hd hr hf

/-- (b) **statements**: the parser on the printed statements runs the definition state machine over them -/
theorem T17_statements (f : FloatText) (pretty first : Bool) (stmts : List TomlValue.Stmt)
    (h : ∀ s ∈ stmts, StmtOk s) :
    Doc.parseDocument (renderStmts f pretty first stmts) =
      (Lemmas.State09.run {} (stmts.map stmtOf)).bind State.intoDocument :=
  parseDocument_stmts f pretty first stmts h

/-- (c) **document**: the state machine accepts the statements of a well-formed (normalised) tree — hidden
    headers of tables without values of their own included — and what it builds is presented to a visitor as the
    tree in document order -/
theorem T17_document (items : List (Bytes × TV)) (h : OkPs items) (hn : (items.map Prod.fst).Nodup) :
    ∃ T, (Lemmas.State09.run {} ((emitDoc items).map stmtOf)).bind State.intoDocument = some T ∧
      presOfTbl T = .map (presEditPairs (docTbl items)) :=
  run_emitDoc items h hn

/-- **`Value`'s visitor** on what `toml_edit`'s deserializer shows for a well-formed tree: the tree with every
    table's entries placed by the target map; date-times come back through the private one-entry map -/
theorem T17_visit (fl : Flavour) (strict : Bool) (w : TV) (h : OkV w) :
    visitValue fl strict (presEdit w) = some (placeTV fl w) :=
  visit_presEdit fl strict w h

/-! ## the round trip -/

theorem parse_normal (f : FloatText) (pretty first : Bool) (items : List (Bytes × TV)) (h : OkV (.tbl items))
    (hd : 1 + depthTVPs items ≤ LIMIT) :
    ∃ T, Doc.parseDocument (renderStmts f pretty first (emitDoc items)) = some T ∧
      presOfTbl T = presEdit (.tbl (docTbl items)) := by
  rw [OkV] at h
  rw [parseDocument_stmts f pretty first (emitDoc items) (stok_doc items h.1 hd)]
  obtain ⟨T, h1, h2⟩ := run_emitDoc items h.1 h.2.1
  exact ⟨T, h1, by rw [h2, presEdit]⟩

/-- **T17_roundtrip** (`toml::Value`): for every well-formed tree, both layouts, both map flavours and any float
    printer (the tree holds no float): if `to_string` / `to_string_pretty` succeeds — i.e. the root is a table —
    then `from_str::<Value>` on the text succeeds and returns `canonTV fl v`. -/
theorem T17_roundtrip (fl : Flavour) (f : FloatText) (pretty : Bool) (v : TV) (t : Bytes) (h : TVOk v)
    (ht : toText f pretty v = .ok t) : decodeValue fl t = some (canonTV fl v) := by
  obtain ⟨hok, hd⟩ := h
  obtain ⟨hn, hnd⟩ := ok_normTV v hok
  unfold toText at ht
  rw [norm_eq v hok] at ht
  unfold canonTV
  cases hnv : normTV v with
  | tbl items =>
    rw [hnv] at ht hn hnd
    simp only [Except.ok.injEq] at ht
    subst ht
    rw [depthTV] at hnd
    obtain ⟨T, hT, hp⟩ := parse_normal f pretty (ownValues items).isEmpty items hn (by omega)
    unfold decodeValue
    rw [hT]
    simp only [hp, docRoot]
    exact visit_presEdit fl false _ (ok_docTbl items hn)
  | str s => rw [hnv] at ht; cases ht
  | int n => rw [hnv] at ht; cases ht
  | float b => rw [hnv] at ht; cases ht
  | bool b => rw [hnv] at ht; cases ht
  | dt d => rw [hnv] at ht; cases ht
  | arr l => rw [hnv] at ht; cases ht

/-- serialization of a well-formed tree succeeds exactly when its root is a table -/
theorem T17_toText_ok (f : FloatText) (pretty : Bool) (items : List (Bytes × TV)) (h : OkV (.tbl items)) :
    ∃ t, toText f pretty (.tbl items) = .ok t := by
  unfold toText
  rw [norm_eq _ h, normTV]
  exact ⟨_, rfl⟩

/-- **table entry point**: `toml::to_string(&table)` then `from_str::<toml::Table>` -/
theorem T17_roundtrip_table (fl : Flavour) (f : FloatText) (pretty : Bool) (items : List (Bytes × TV)) (t : Bytes)
    (h : TVOk (.tbl items)) (ht : toTextTable f pretty items = .ok t) :
    decodeTable fl t = some (canonTable fl items) := by
  obtain ⟨hok, hd⟩ := h
  rw [OkV] at hok
  rw [depthTV] at hd
  obtain ⟨hn, hnd⟩ := ok_normTVPs items hok.1
  have hn' : OkV (.tbl (normTVPs items)) := by
    rw [OkV, normTVPs_keys]; exact ⟨hn, hok.2.1, hok.2.2⟩
  unfold toTextTable at ht
  rw [normPairs_eq items hok.1] at ht
  simp only [Except.ok.injEq] at ht
  subst ht
  obtain ⟨T, hT, hp⟩ := parse_normal f pretty (ownValues (normTVPs items)).isEmpty (normTVPs items) hn' (by omega)
  unfold decodeTable canonTable
  rw [hT]
  simp only []
  rw [hp, presEdit, visitTable]
  have hdoc := ok_docTbl _ hn'
  rw [OkV] at hdoc
  rw [visitPairs_presEdit fl false _ hdoc.1]
  rfl

/-- **T17_plain_pretty_agree**: the plain and the pretty text of a well-formed tree decode to the same tree -/
theorem T17_plain_pretty_agree (fl : Flavour) (f : FloatText) (v : TV) (t1 t2 : Bytes) (h : TVOk v)
    (h1 : toText f false v = .ok t1) (h2 : toText f true v = .ok t2) : decodeValue fl t1 = decodeValue fl t2 := by
  rw [T17_roundtrip fl f false v t1 h h1, T17_roundtrip fl f true v t2 h h2]

theorem T17_plain_pretty_agree_table (fl : Flavour) (f : FloatText) (items : List (Bytes × TV)) (t1 t2 : Bytes)
    (h : TVOk (.tbl items)) (h1 : toTextTable f false items = .ok t1) (h2 : toTextTable f true items = .ok t2) :
    decodeTable fl t1 = decodeTable fl t2 := by
  rw [T17_roundtrip_table fl f false items t1 h h1, T17_roundtrip_table fl f true items t2 h h2]

/-- both layouts succeed together (the layout only enters after `norm`) -/
theorem T17_plain_pretty_defined (f : FloatText) (v : TV) :
    (∃ t, toText f false v = .ok t) ↔ (∃ t, toText f true v = .ok t) := by
  unfold toText
  cases norm v with
  | none => simp
  | some w => cases w <;> simp

/-! ## identity on canonical trees, fixed point -/

theorem insertAllReplace_insertion : ∀ (l acc : List (Bytes × TV)), (l.map Prod.fst).Nodup →
    (∀ k ∈ l.map Prod.fst, k ∉ acc.map Prod.fst) → insertAllReplace .insertion acc l = acc ++ l := by
  intro l
  induction l with
  | nil => intro acc _ _; simp [insertAllReplace]
  | cons x r ih =>
    obtain ⟨k, v⟩ := x
    intro acc hn ha
    simp only [List.map_cons, List.nodup_cons] at hn
    have hk : alookup k acc = none := (Lemmas.State09.alookup_none_iff _ _).2 (ha k (by simp))
    simp only [insertAllReplace, mapInsert, Lemmas.State09.aset_of_none _ _ _ hk]
    rw [ih _ hn.2]
    · simp
    · intro k' hk' hm
      simp only [List.map_append, List.map_cons, List.map_nil, List.mem_append, List.mem_singleton] at hm
      rcases hm with hm | hm
      · exact ha k' (by simp [hk']) hm
      · subst hm; exact hn.1 hk'

mutual
/-- the insertion-ordered map keeps a well-formed tree as it is -/
theorem placeTV_insertion : ∀ w : TV, OkV w → placeTV .insertion w = w
  | .str _, _ => by simp [placeTV]
  | .int _, _ => by simp [placeTV]
  | .float _, _ => by simp [placeTV]
  | .bool _, _ => by simp [placeTV]
  | .dt _, _ => by simp [placeTV]
  | .arr l, h => by rw [OkV] at h; simp [placeTV, placeTVs_insertion l h]
  | .tbl items, h => by
    rw [OkV] at h
    rw [placeTV, placeTVPs_insertion items h.1, insertAllReplace_insertion items [] h.2.1 (by simp)]
    simp
theorem placeTVs_insertion : ∀ l : List TV, OkVs l → placeTVs .insertion l = l
  | [], _ => by simp [placeTVs]
  | v :: r, h => by rw [OkVs] at h; simp [placeTVs, placeTV_insertion v h.1, placeTVs_insertion r h.2]
theorem placeTVPs_insertion : ∀ l : List (Bytes × TV), OkPs l → placeTVPs .insertion l = l
  | [], _ => by simp [placeTVPs]
  | (k, v) :: r, h => by rw [OkPs] at h; simp [placeTVPs, placeTV_insertion v h.1, placeTVPs_insertion r h.2]
end

/-- for the insertion-ordered map (`preserve_order`) the result is the normalised tree in document order -/
theorem T17_canon_insertion (v : TV) (items : List (Bytes × TV)) (h : OkV v) (hv : normTV v = .tbl items) :
    canonTV .insertion v = .tbl (docTbl items) := by
  have hn := (ok_normTV v h).1
  rw [hv] at hn
  unfold canonTV
  rw [hv, docRoot]
  exact placeTV_insertion _ (ok_docTbl items hn)

/-- **T17_roundtrip_id**, `preserve_order`: a tree that is already in serialization and document order
    (`docRoot (normTV v) = v`: in every table printed as a section the values come first, then the arrays of tables,
    then the tables; in every inline table the three passes change nothing) comes back as it is -/
theorem T17_roundtrip_id_insertion (f : FloatText) (pretty : Bool) (v : TV) (t : Bytes) (h : TVOk v)
    (hc : docRoot (normTV v) = v) (ht : toText f pretty v = .ok t) : decodeValue .insertion t = some v := by
  rw [T17_roundtrip .insertion f pretty v t h ht]
  unfold canonTV
  rw [hc, placeTV_insertion v h.1]

/-- The fixed-point statement `serialize ∘ parse ∘ serialize = serialize`, at full strength. -/
def T17_fixpoint_statement (fl : Flavour) : Prop :=
  ∀ (f : FloatText) (pretty : Bool) (v : TV) (t : Bytes) (w : TV), TVOk v →
    toText f pretty v = .ok t → decodeValue fl t = some w → toText f pretty w = .ok t

/-- **T17_fixpoint_partial**: the decoded tree is `canonTV fl v`, so the fixed point holds exactly when `canonTV fl v`
    prints like `v`; in particular for every tree that is canonical for the flavour (`canonTV fl v = v`).
    What is missing for the full statement is `toText f pretty (canonTV fl v) = toText f pretty v`:
    * `preserve_order`: true for every `v` as far as tested (`docRoot ∘ normTV` is idempotent up to the order of
      arrays of tables among the pass-2 entries, which `emitDoc` does not depend on) — not proved here;
    * `BTreeMap`: FALSE for lists that are not in key order (`T17_fixpoint_sorted_needs_order`); such lists are not
      values of the `BTreeMap` build, for which the statement needs `canonTV .sorted v = v` on key-sorted trees
      (insertion sort of a permutation of a strictly sorted list) — not proved here. -/
theorem T17_fixpoint_partial (fl : Flavour) (f : FloatText) (pretty : Bool) (v : TV) (t : Bytes) (w : TV) (h : TVOk v)
    (ht : toText f pretty v = .ok t) (hw : decodeValue fl t = some w) :
    w = canonTV fl v ∧ (toText f pretty (canonTV fl v) = toText f pretty v → toText f pretty w = .ok t) := by
  rw [T17_roundtrip fl f pretty v t h ht] at hw
  injection hw with hw
  subst hw
  exact ⟨rfl, fun e => by rw [e, ht]⟩

theorem T17_fixpoint_canonical (fl : Flavour) (f : FloatText) (pretty : Bool) (v : TV) (t : Bytes) (w : TV) (h : TVOk v)
    (hc : canonTV fl v = v) (ht : toText f pretty v = .ok t) (hw : decodeValue fl t = some w) :
    toText f pretty w = .ok t :=
  (T17_fixpoint_partial fl f pretty v t w h ht hw).2 (by rw [hc])

/-- insensitivity to map order, at full strength: trees that differ by a permutation of the entries of any table
    have the same canonical form for the `BTreeMap` flavour (hence the same text after one round trip).
    Not proved here (it needs the sorting argument named in `T17_fixpoint_partial`); instances below. -/
def T17_order_insensitive_statement : Prop :=
  ∀ (items items' : List (Bytes × TV)), OkV (.tbl items) → items'.Perm items →
    canonTV .sorted (.tbl items') = canonTV .sorted (.tbl items)


/-! ## a boolean equality on trees, for the concrete instances -/

mutual
def beqTV : TV → TV → Bool
  | .str a, .str b => a == b
  | .int a, .int b => a == b
  | .float a, .float b => a == b
  | .bool a, .bool b => a == b
  | .dt a, .dt b => a == b
  | .arr a, .arr b => beqTVs a b
  | .tbl a, .tbl b => beqTVPs a b
  | _, _ => false
def beqTVs : List TV → List TV → Bool
  | [], [] => true
  | a :: r, b :: t => beqTV a b && beqTVs r t
  | _, _ => false
def beqTVPs : List (Bytes × TV) → List (Bytes × TV) → Bool
  | [], [] => true
  | (k, a) :: r, (k', b) :: t => k == k' && beqTV a b && beqTVPs r t
  | _, _ => false
end

mutual
theorem beqTV_sound : ∀ a b : TV, beqTV a b = true → a = b
  | .str a, b, h => by cases b <;> simp_all [beqTV]
  | .int a, b, h => by cases b <;> simp_all [beqTV]
  | .float a, b, h => by cases b <;> simp_all [beqTV]
  | .bool a, b, h => by cases b <;> simp_all [beqTV]
  | .dt a, b, h => by cases b <;> simp_all [beqTV]
  | .arr a, b, h => by
    cases b <;> simp [beqTV] at h
    rw [beqTVs_sound a _ h]
  | .tbl a, b, h => by
    cases b <;> simp [beqTV] at h
    rw [beqTVPs_sound a _ h]
theorem beqTVs_sound : ∀ a b : List TV, beqTVs a b = true → a = b
  | [], b, h => by cases b <;> simp_all [beqTVs]
  | x :: r, b, h => by
    cases b with
    | nil => simp [beqTVs] at h
    | cons y t =>
      simp [beqTVs] at h
      rw [beqTV_sound x y h.1, beqTVs_sound r t h.2]
theorem beqTVPs_sound : ∀ a b : List (Bytes × TV), beqTVPs a b = true → a = b
  | [], b, h => by cases b <;> simp_all [beqTVPs]
  | (k, x) :: r, b, h => by
    cases b with
    | nil => simp [beqTVPs] at h
    | cons y t =>
      obtain ⟨k', y⟩ := y
      simp [beqTVPs] at h
      rw [h.1.1, beqTV_sound x y h.1.2, beqTVPs_sound r t h.2]
end

/-- `e` is `.ok b` -/
def okIs (e : Except SerError Bytes) (b : Bytes) : Bool :=
  match e with
  | .ok t => t == b
  | .error _ => false

theorem okIs_sound (e : Except SerError Bytes) (b : Bytes) (h : okIs e b = true) : e = .ok b := by
  cases e with
  | error x => simp [okIs] at h
  | ok t => simp only [okIs, beq_iff_eq] at h; rw [h]

/-- `o` is `some v` -/
def someIs (o : Option TV) (v : TV) : Bool :=
  match o with
  | some w => beqTV w v
  | none => false

theorem someIs_sound (o : Option TV) (v : TV) (h : someIs o v = true) : o = some v := by
  cases o with
  | none => simp [someIs] at h
  | some w => simp only [someIs] at h; rw [beqTV_sound w v h]

/-! ## non-vacuity

`sample` (entries in an order no map would give, to exercise the three passes and the document order):
```
t = { "x y" = 1, sub = { d = 1979-05-27T07:32:00Z } }      # a table with a quoted key and a sub-table
h = { only = { z = true } }                                # a table without values of its own: header hidden
m = [1, "a", [true], { q = 2 }]                            # a mixed array: stays inline, inline table inside
aot = [{ n = 1, deep = { u = 2 } }, { n = 2 }]             # an array of tables, the first with a sub-table
s = "v"
``` -/
def sampleDate : Datetime.Datetime := ⟨some ⟨1979, 5, 27⟩, some ⟨7, 32, 0, 0⟩, some .z⟩

def sample : TV :=
  .tbl [(strBytes "t", .tbl [(strBytes "x y", .int 1), (strBytes "sub", .tbl [(strBytes "d", .dt sampleDate)])]),
        (strBytes "h", .tbl [(strBytes "only", .tbl [(strBytes "z", .bool true)])]),
        (strBytes "m", .arr [.int 1, .str (strBytes "a"), .arr [.bool true], .tbl [(strBytes "q", .int 2)]]),
        (strBytes "aot", .arr [.tbl [(strBytes "n", .int 1), (strBytes "deep", .tbl [(strBytes "u", .int 2)])],
                               .tbl [(strBytes "n", .int 2)]]),
        (strBytes "s", .str (strBytes "v"))]

theorem sampleDate_ok : DtOk sampleDate := by
  refine ⟨⟨?_, ?_, ?_, ?_⟩, ?_⟩
  · intro x hx; simp [sampleDate] at hx; subst hx; simp [Props.C12.DateInRange, Datetime.maxDays]
  · intro t ht; simp [sampleDate] at ht; subst ht; simp [Props.C12.TimeInRange, Props.C12.NanosInRange]
  · intro o ho; simp [sampleDate] at ho; subst ho; trivial
  · simp [sampleDate, Props.C12.ShapeOk]
  · intro x hx; simp [sampleDate] at hx; subst hx; decide

theorem sample_ok : TVOk sample := by
  refine ⟨?_, by decide +kernel⟩
  simp only [sample, OkV, OkPs, OkVs, sampleDate_ok, and_true, true_and]
  decide +kernel

def samplePlain : Bytes := strBytes
  "s = \"v\"\nm = [1, \"a\", [true], { q = 2 }]\n\n[[aot]]\nn = 1\n\n[aot.deep]\nu = 2\n\n[[aot]]\nn = 2\n\n[t]\n\"x y\" = 1\n\n[t.sub]\nd = 1979-05-27T07:32:00Z\n\n[h.only]\nz = true\n"

def samplePretty : Bytes := strBytes
  "s = \"v\"\nm = [\n    1,\n    \"a\",\n    [true],\n    { q = 2 },\n]\n\n[[aot]]\nn = 1\n\n[aot.deep]\nu = 2\n\n[[aot]]\nn = 2\n\n[t]\n\"x y\" = 1\n\n[t.sub]\nd = 1979-05-27T07:32:00Z\n\n[h.only]\nz = true\n"

theorem sample_plain : toText noFloat false sample = .ok samplePlain := okIs_sound _ _ (by decide +kernel)
theorem sample_pretty : toText noFloat true sample = .ok samplePretty := okIs_sound _ _ (by decide +kernel)

/-- the hypotheses of `T17_roundtrip` are met by `sample`, in both layouts; so both texts decode, for both map
    flavours, to `canonTV fl sample` -/
example (fl : Flavour) : decodeValue fl samplePlain = some (canonTV fl sample) ∧
    decodeValue fl samplePretty = some (canonTV fl sample) :=
  ⟨T17_roundtrip fl noFloat false sample _ sample_ok sample_plain,
   T17_roundtrip fl noFloat true sample _ sample_ok sample_pretty⟩

/-- what that is for `preserve_order`: values first (`s` before `m`: an array holding a table is handed over in the
    second pass), then the array of tables, then the tables, at every level -/
def sampleInsertion : TV :=
  .tbl [(strBytes "s", .str (strBytes "v")),
        (strBytes "m", .arr [.int 1, .str (strBytes "a"), .arr [.bool true], .tbl [(strBytes "q", .int 2)]]),
        (strBytes "aot", .arr [.tbl [(strBytes "n", .int 1), (strBytes "deep", .tbl [(strBytes "u", .int 2)])],
                               .tbl [(strBytes "n", .int 2)]]),
        (strBytes "t", .tbl [(strBytes "x y", .int 1), (strBytes "sub", .tbl [(strBytes "d", .dt sampleDate)])]),
        (strBytes "h", .tbl [(strBytes "only", .tbl [(strBytes "z", .bool true)])])]

/-- … and for `BTreeMap`: every table sorted by key -/
def sampleSorted : TV :=
  .tbl [(strBytes "aot", .arr [.tbl [(strBytes "deep", .tbl [(strBytes "u", .int 2)]), (strBytes "n", .int 1)],
                               .tbl [(strBytes "n", .int 2)]]),
        (strBytes "h", .tbl [(strBytes "only", .tbl [(strBytes "z", .bool true)])]),
        (strBytes "m", .arr [.int 1, .str (strBytes "a"), .arr [.bool true], .tbl [(strBytes "q", .int 2)]]),
        (strBytes "s", .str (strBytes "v")),
        (strBytes "t", .tbl [(strBytes "sub", .tbl [(strBytes "d", .dt sampleDate)]), (strBytes "x y", .int 1)])]

theorem sample_canon_insertion : canonTV .insertion sample = sampleInsertion :=
  beqTV_sound _ _ (by decide +kernel)
theorem sample_canon_sorted : canonTV .sorted sample = sampleSorted :=
  beqTV_sound _ _ (by decide +kernel)

/-- the decoded trees, computed by the model directly (agreeing with the theorem) -/
example : decodeValue .insertion samplePlain = some sampleInsertion := someIs_sound _ _ (by decide +kernel)
example : decodeValue .sorted samplePretty = some sampleSorted := someIs_sound _ _ (by decide +kernel)

/-- `sampleInsertion` is canonical for `preserve_order` (hypothesis of `T17_roundtrip_id_insertion`), `sampleSorted`
    for `BTreeMap` (hypothesis of `T17_fixpoint_canonical`) -/
example : docRoot (normTV sampleInsertion) = sampleInsertion := beqTV_sound _ _ (by decide +kernel)
example : canonTV .sorted sampleSorted = sampleSorted := beqTV_sound _ _ (by decide +kernel)
example : canonTV .insertion sampleInsertion = sampleInsertion := beqTV_sound _ _ (by decide +kernel)

theorem sampleSorted_ok : TVOk sampleSorted := by
  refine ⟨?_, by decide +kernel⟩
  simp only [sampleSorted, OkV, OkPs, OkVs, sampleDate_ok, and_true, true_and]
  decide +kernel

theorem sampleInsertion_ok : TVOk sampleInsertion := by
  refine ⟨?_, by decide +kernel⟩
  simp only [sampleInsertion, OkV, OkPs, OkVs, sampleDate_ok, and_true, true_and]
  decide +kernel

/-- the fixed point on the canonical forms of the sample, both flavours and both layouts: whatever the text of
    the tree decodes to prints as the same text (`T17_fixpoint_canonical`, hypotheses met) -/
example (p : Bool) (t : Bytes) (w : TV) (ht : toText noFloat p sampleSorted = .ok t)
    (hw : decodeValue .sorted t = some w) : toText noFloat p w = .ok t :=
  T17_fixpoint_canonical .sorted noFloat p sampleSorted t w sampleSorted_ok (beqTV_sound _ _ (by decide +kernel)) ht hw
example (p : Bool) (t : Bytes) (w : TV) (ht : toText noFloat p sampleInsertion = .ok t)
    (hw : decodeValue .insertion t = some w) : toText noFloat p w = .ok t :=
  T17_fixpoint_canonical .insertion noFloat p sampleInsertion t w sampleInsertion_ok (beqTV_sound _ _ (by decide +kernel)) ht hw

/-- for `preserve_order` the decoded tree of the (non-canonical) `sample` itself prints as the same text -/
example : toText noFloat false sampleInsertion = .ok samplePlain ∧ toText noFloat true sampleInsertion = .ok samplePretty :=
  ⟨okIs_sound _ _ (by decide +kernel), okIs_sound _ _ (by decide +kernel)⟩

/-- insensitivity to map order on the sample: the entries reversed at the root and in `t` -/
example : canonTV .sorted (.tbl [(strBytes "s", .str (strBytes "v")),
      (strBytes "t", .tbl [(strBytes "sub", .tbl [(strBytes "d", .dt sampleDate)]), (strBytes "x y", .int 1)]),
      (strBytes "aot", .arr [.tbl [(strBytes "n", .int 1), (strBytes "deep", .tbl [(strBytes "u", .int 2)])],
                             .tbl [(strBytes "n", .int 2)]]),
      (strBytes "m", .arr [.int 1, .str (strBytes "a"), .arr [.bool true], .tbl [(strBytes "q", .int 2)]]),
      (strBytes "h", .tbl [(strBytes "only", .tbl [(strBytes "z", .bool true)])])]) = canonTV .sorted sample :=
  beqTV_sound _ _ (by decide +kernel)

/-- table entry point on the sample -/
example (fl : Flavour) (t : Bytes) (items : List (Bytes × TV)) (hs : sample = .tbl items)
    (ht : toTextTable noFloat false items = .ok t) : decodeTable fl t = some (canonTable fl items) :=
  T17_roundtrip_table fl noFloat false items t (hs ▸ sample_ok) ht

/-! ## what the hypotheses exclude

**The private date-time key.** `impl Deserialize for toml::Value` (`ValueVisitor::visit_map`) tests the FIRST key of
every map against `$__toml_private_datetime` and, on a match, returns a date-time parsed from the value at once.
A `toml::Value` table whose first printed key is that string therefore does not survive the text round trip
(`OkV` excludes the key; when it is not the first key the table does come back, `T17_private_key_later`). -/

/-- `{ "$__toml_private_datetime" = "x" }` prints as a document the parser accepts, and decoding it as a `Value` FAILS -/
theorem T17_private_key_error :
    toText noFloat false (.tbl [(FIELD, .str (strBytes "x"))]) = .ok (strBytes "\"$__toml_private_datetime\" = \"x\"\n") ∧
    (Doc.parseDocument (strBytes "\"$__toml_private_datetime\" = \"x\"\n")).isSome = true ∧
    (decodeValue .sorted (strBytes "\"$__toml_private_datetime\" = \"x\"\n")).isNone = true :=
  ⟨okIs_sound _ _ (by decide +kernel), by decide +kernel, by decide +kernel⟩

/-- `{ "$__toml_private_datetime" = "1979-05-27" }` comes back as the DATE 1979-05-27, not as a table -/
theorem T17_private_key_becomes_date :
    toText noFloat false (.tbl [(FIELD, .str (strBytes "1979-05-27"))]) =
      .ok (strBytes "\"$__toml_private_datetime\" = \"1979-05-27\"\n") ∧
    decodeValue .sorted (strBytes "\"$__toml_private_datetime\" = \"1979-05-27\"\n") =
      some (.dt ⟨some ⟨1979, 5, 27⟩, none, none⟩) :=
  ⟨okIs_sound _ _ (by decide +kernel), someIs_sound _ _ (by decide +kernel)⟩

/-- one level down, the other entries of the table are dropped silently:
    `a = { "$__toml_private_datetime" = "1979-05-27", b = 1 }` comes back as `a = 1979-05-27` -/
theorem T17_private_key_drops_entries :
    toText noFloat false (.tbl [(strBytes "a", .tbl [(FIELD, .str (strBytes "1979-05-27")), (strBytes "b", .int 1)])]) =
      .ok (strBytes "[a]\n\"$__toml_private_datetime\" = \"1979-05-27\"\nb = 1\n") ∧
    decodeValue .sorted (strBytes "[a]\n\"$__toml_private_datetime\" = \"1979-05-27\"\nb = 1\n") =
      some (.tbl [(strBytes "a", .dt ⟨some ⟨1979, 5, 27⟩, none, none⟩)]) :=
  ⟨okIs_sound _ _ (by decide +kernel), someIs_sound _ _ (by decide +kernel)⟩

/-- when another key is printed first the table survives -/
theorem T17_private_key_later :
    decodeValue .sorted (strBytes "\"!\" = 1\n\"$__toml_private_datetime\" = \"1979-05-27\"\n") =
      some (.tbl [(strBytes "!", .int 1), (FIELD, .str (strBytes "1979-05-27"))]) :=
  someIs_sound _ _ (by decide +kernel)

/-- **the fixed point needs key order for the `BTreeMap` flavour**: the list `b = 1, a = 2` (not a `BTreeMap` value)
    prints in list order, the decoded map prints in key order -/
theorem T17_fixpoint_sorted_needs_order :
    toText noFloat false (.tbl [(strBytes "b", .int 1), (strBytes "a", .int 2)]) = .ok (strBytes "b = 1\na = 2\n") ∧
    decodeValue .sorted (strBytes "b = 1\na = 2\n") = some (.tbl [(strBytes "a", .int 2), (strBytes "b", .int 1)]) ∧
    toText noFloat false (.tbl [(strBytes "a", .int 2), (strBytes "b", .int 1)]) = .ok (strBytes "a = 2\nb = 1\n") :=
  ⟨okIs_sound _ _ (by decide +kernel), someIs_sound _ _ (by decide +kernel), okIs_sound _ _ (by decide +kernel)⟩

/-- an integer outside `i64` (`TV.int` is unbounded in the model, `i64` in the code) does not come back:
    the parser rejects the literal -/
example : (decodeValue .sorted (strBytes "x = 9223372036854775808\n")).isNone = true := by decide +kernel

end TomlVerif.Props.C17RoundTrip
