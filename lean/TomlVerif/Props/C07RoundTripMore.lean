import TomlVerif.Lemmas.TypedGapsDt
import TomlVerif.Lemmas.TypedGapsF32Norm
import TomlVerif.Lemmas.TypedGapsInsertionB
import TomlVerif.Props.C07RoundTrip
import TomlVerif.Props.C17Fix
/-! # C07, the reading-back half, continued: `toml::Value` INSIDE a typed value

`Props/C07RoundTrip.lean` states the round trip under `hasValue ty = false`. Here that hypothesis is discharged for the
default build of the map (`BTreeMap`, `Flavour.sorted` — the build whose `toml::Value`s `WellTyped` describes: `valueOk`
asks for ascending keys, no private date-time key (F24), date-times that print and re-read).

A field of type `toml::Value` holding `v` is serialized by `impl Serialize for Value` (three passes over every table:
`serCalls`) and read back by `Value`'s visitor (`visitValue`), whatever the order in which the document presents the
entries (the `BTreeMap` sorts). What comes back is `normDecV (leafF cf) (f32F cf) (leafS cf) ty d` (Lemmas/TypedGapsCore.lean): `normDec cf ty d` with
a `toml::Value` leaf `v` ↦ `mapF (leafF cf) v` — `v` itself, every double of it after the serializer's `copysign(1.0)` on a
NaN and after the transport (`cf = id` for a tree, `canonFloat` for a text). No restriction on doubles.

For the flavour `preserve_order` (`IndexMap`) the leaf comes back in the order the document presents its entries, so the
permutation-tolerant relation `Sim` is too weak; the last section redoes the induction on the exact relation `SimX`
(Lemmas/TypedGapsInsertionA/B.lean) and covers the routes that present the entries in the serializer's order: the document
tree, `toml_edit::ser::to_string`, `Value::try_from`. There a leaf `v` comes back as `mapF (leafF cf) (normTV v)`: the
three passes of `impl Serialize for Value` reorder the entries of every table (values, then arrays of tables, then
tables) — for `toml::Value` alone this is `C17.canonTV .insertion` without the document layout. NOT covered for
`preserve_order`: `toml::to_string(_pretty)` and `toml_edit::ser::to_string_pretty` (they move tables behind values,
`docOrder`, so the leaf would come back in yet another order). -/
namespace TomlVerif.Props.C07RoundTripMore
open TomlVerif TomlVerif.Model TomlVerif.Model.TomlValue TomlVerif.Model.DeRoutes TomlVerif.Model.DeTyped
open TomlVerif.Model.SerTyped TomlVerif.Model.Ser TomlVerif.Spec TomlVerif.Spec.Serde
open TomlVerif.Spec.Encode06 (canonFloat)
open TomlVerif.Lemmas.SerTyped07 TomlVerif.Lemmas.Ser07Text TomlVerif.Lemmas.Ser07 TomlVerif.Lemmas.DeTyped13
open TomlVerif.Lemmas.RoundTrip17 (PermTV valOf docTbl perm_docTbl NodupTV placeTV perm_placeTV)
open TomlVerif.Props.C07 TomlVerif.Props.C07Text TomlVerif.Props.C07RoundTrip
open TomlVerif.Lemmas.TypedGaps
open TomlVerif.Model.Value (LIMIT)

/-! ## the document tree -/

/-- **T07_roundtrip_tree_value_leaves** — `T07_roundtrip_tree` without `hasValue ty = false`:
`toml_edit::ser::to_document(&d)` then `toml_edit::de` (any entry point, any setting of the switches) on ANY item holding
that table's data returns `normDecV (leafF id) (f32F id) (leafS id) ty d`; a `toml::Value` leaf `v` comes back as `mapF clearNanSign v`. -/
theorem T07_roundtrip_tree_value_leaves (nm : Bytes) (hnm : (nm == dtName) = false) (ty : Ty) (d : Dec) (v : SVal)
    (kvs : List (Bytes × V)) (hwf : WfTy ty = true) (hwt : WellTyped ty d = true)
    (hs : serOf nm ty d = some v) (hdoc : serDocument v = .ok kvs) :
    ∀ (c : EditCfg) (it : Item), plainItem it = tvOf (.inl kvs) → decodeEdit c .sorted ty it = .ok (normDecV (leafF id) (f32F id) (leafS id) ty d) :=
  fun c it hit =>
    (coreV nm hnm id ty hwf d v (.inl kvs) _ hwt hs (serDocument_value v kvs hdoc) (sim_tvOf (.inl kvs))).1 c it hit

/-- the same up to the ORDER of the entries of every table of the item (`PermTV`), at any depth — the leaf sorts -/
theorem T07_roundtrip_tree_value_leaves_perm (nm : Bytes) (hnm : (nm == dtName) = false) (ty : Ty) (d : Dec) (v : SVal)
    (kvs : List (Bytes × V)) (hwf : WfTy ty = true) (hwt : WellTyped ty d = true)
    (hs : serOf nm ty d = some v) (hdoc : serDocument v = .ok kvs) :
    ∀ (c : EditCfg) (it : Item), PermTV (tvOf (.inl kvs)) (plainItem it) →
      decodeEdit c .sorted ty it = .ok (normDecV (leafF id) (f32F id) (leafS id) ty d) :=
  fun c it hp =>
    (coreV nm hnm id ty hwf d v (.inl kvs) _ hwt hs (serDocument_value v kvs hdoc)
      ((sim_permTV id hp _).1 (sim_tvOf (.inl kvs)))).1 c it rfl

/-- the code as it stands, on the document `to_document` built -/
theorem T07_roundtrip_tree_value_leaves_doc (nm : Bytes) (hnm : (nm == dtName) = false) (ty : Ty) (d : Dec) (v : SVal)
    (kvs : List (Bytes × V)) (hwf : WfTy ty = true) (hwt : WellTyped ty d = true)
    (hs : serOf nm ty d = some v) (hdoc : serDocument v = .ok kvs) :
    decodeEdit editAsIs .sorted ty (rootItem kvs) = .ok (normDecV (leafF id) (f32F id) (leafS id) ty d) ∧
    editRoute editAsIs .sorted ty (rootItem kvs) = .ok (normDecV (leafF id) (f32F id) (leafS id) ty d) ∧
    tomlRoute editAsIs .sorted ty (rootItem kvs) = .ok (normDecV (leafF id) (f32F id) (leafS id) ty d) := by
  have h := T07_roundtrip_tree_value_leaves nm hnm ty d v kvs hwf hwt hs hdoc editAsIs _ (plainItem_rootItem kvs)
  exact ⟨h, by rw [C13Typed.T13_typed_edit_route]; exact h,
    by rw [C13Typed.T13_typed_wrappers_thin, C13Typed.T13_typed_edit_route]; exact h⟩

/-- for a type without `toml::Value` this is `T07_roundtrip_tree` (`normDecV` extends `normDec`) -/
theorem normDecV_extends (cf : Nat → Nat) (ty : Ty) (hv : hasValue ty = false) (d : Dec) :
    normDecV (leafF cf) (f32F cf) (leafS cf) ty d = normDec cf ty d :=
  normDecV_eq cf (leafS cf) ty hv d

/-- a leaf without NaN comes back exactly: `mapF id v = v` -/
theorem mapF_id_leaf (v : TV) : mapF id v = v := mapF_id v

/-! ## the texts -/

/-- a parsed document holding the serializer's table with canonical NaNs, entries in the serializer's order -/
theorem decode_parsed_canonV (nm : Bytes) (hnm : (nm == dtName) = false) (ty : Ty) (d : Dec) (v : SVal)
    (kvs : List (Bytes × V)) (hwf : WfTy ty = true) (hwt : WellTyped ty d = true)
    (hs : serOf nm ty d = some v) (hx : serValue v = .ok (.inl kvs)) (T : Tbl) (hT : dataTbl T = canonKVs kvs) :
    ∀ c : EditCfg, decodeEdit c .sorted ty (.table T) = .ok (normDecV (leafF canonFloat) (f32F canonFloat) (leafS canonFloat) ty d) := by
  intro c
  have hsim : Sim canonFloat (.inl kvs) (.tbl (tvKVs (canonKVs kvs))) := by
    have := sim_canon (.inl kvs)
    simpa only [canonV, tvOf] using this
  exact (coreV nm hnm canonFloat ty hwf d v (.inl kvs) _ hwt hs hx hsim).1 c _ (by rw [plainItem_table, hT])

/-- … or in document order (`docOrder`) -/
theorem decode_parsed_docOrderV (nm : Bytes) (hnm : (nm == dtName) = false) (ty : Ty) (d : Dec) (v : SVal)
    (kvs : List (Bytes × V)) (hwf : WfTy ty = true) (hwt : WellTyped ty d = true)
    (hs : serOf nm ty d = some v) (hx : serValue v = .ok (.inl kvs)) (T : Tbl)
    (hT : dataTbl T = docOrder (canonKVs kvs)) :
    ∀ c : EditCfg, decodeEdit c .sorted ty (.table T) = .ok (normDecV (leafF canonFloat) (f32F canonFloat) (leafS canonFloat) ty d) := by
  intro c
  have hsim : Sim canonFloat (.inl kvs) (.tbl (tvKVs (canonKVs kvs))) := by
    have := sim_canon (.inl kvs)
    simpa only [canonV, tvOf] using this
  have hsim' : Sim canonFloat (.inl kvs) (.tbl (docTbl (tvKVs (canonKVs kvs)))) :=
    (sim_permTV canonFloat (perm_docTbl _) _).2 hsim
  refine (coreV nm hnm canonFloat ty hwf d v (.inl kvs) _ hwt hs hx hsim').1 c _ ?_
  rw [plainItem_table, hT, docOrder, tvKVs_vOfPs]

/-- **T07_roundtrip_text_value_leaves** (`toml_edit::ser::to_string`): the text, parsed, deserialized into the same
type; a `toml::Value` leaf `v` comes back as `mapF (canonFloat ∘ clearNanSign) v` -/
theorem T07_roundtrip_text_edit_value_leaves (nm : Bytes) (hnm : (nm == dtName) = false) (ty : Ty) (d : Dec) (v : SVal)
    (disp : FloatDisp) (t : Bytes) (hwf : WfTy ty = true) (hwt : WellTyped ty d = true)
    (hs : serOf nm ty d = some v) (ht : textEdit disp v = .ok t) :
    ∃ kvs, serDocument v = .ok kvs ∧
      (LeavesOkSKVs disp kvs → depthSKVs kvs < LIMIT →
        ∃ T, Doc.parseDocument t = some T ∧
          ∀ c : EditCfg, decodeEdit c .sorted ty (.table T) = .ok (normDecV (leafF canonFloat) (f32F canonFloat) (leafS canonFloat) ty d)) := by
  obtain ⟨kvs, hr, himg, hp⟩ := T07_text_edit disp v t ht
  have hx : serValue v = .ok (.inl kvs) := T07_tree_complete v _ himg
  have hdoc : serDocument v = .ok kvs := by unfold serDocument; rw [hx]
  refine ⟨kvs, hdoc, fun hl hd => ?_⟩
  have := hp hl hd
  cases hq : Doc.parseDocument t with
  | none => rw [hq] at this; cases this
  | some T =>
    rw [hq] at this
    simp only [Option.map_some, Option.some.injEq] at this
    exact ⟨T, rfl, decode_parsed_canonV nm hnm ty d v kvs hwf hwt hs hx T this⟩

/-- the formatted routes, generically -/
theorem roundtrip_text_fmtV (text : FloatDisp → SVal → Except SerErr Bytes)
    (route : SVal → Except SerErr (List (Bytes × V))) (hst : T07_text_fmt_statement text route)
    (nm : Bytes) (hnm : (nm == dtName) = false) (ty : Ty) (d : Dec) (v : SVal)
    (disp : FloatDisp) (t : Bytes) (hwf : WfTy ty = true) (hwt : WellTyped ty d = true)
    (hs : serOf nm ty d = some v) (himg : ∀ kvs, route v = .ok kvs → expected v = some (.inl kvs))
    (ht : text disp v = .ok t) :
    ∃ kvs, serDocument v = .ok kvs ∧
      (LeavesOkSKVs disp kvs → depthSKVs kvs < LIMIT →
        ∃ T, Doc.parseDocument t = some T ∧
          ∀ c : EditCfg, decodeEdit c .sorted ty (.table T) = .ok (normDecV (leafF canonFloat) (f32F canonFloat) (leafS canonFloat) ty d)) := by
  obtain ⟨kvs, hr, hp⟩ := hst disp v t ht
  have hx : serValue v = .ok (.inl kvs) := T07_tree_complete v _ (himg kvs hr)
  have hdoc : serDocument v = .ok kvs := by unfold serDocument; rw [hx]
  refine ⟨kvs, hdoc, fun hl hd => ?_⟩
  have := hp hl hd
  cases hq : Doc.parseDocument t with
  | none => rw [hq] at this; cases this
  | some T =>
    rw [hq] at this
    simp only [Option.map_some, Option.some.injEq] at this
    exact ⟨T, rfl, decode_parsed_docOrderV nm hnm ty d v kvs hwf hwt hs hx T this⟩

/-- **T07_roundtrip_text_value_leaves** (`toml::to_string` / `toml::to_string_pretty`, `byName = false` the code as it
stands): for every value whose serde calls do not start with the private date-time struct (F17,
`T07_finding_toml_root_datetime`; `datetimeRoot v = false` is decidable on the calls, and follows from
`isDtTy ty = false` when the root type is not `toml::Value` itself: `serOf_datetimeRoot`) -/
theorem T07_roundtrip_text_toml_value_leaves (pretty byName : Bool) (nm : Bytes) (hnm : (nm == dtName) = false)
    (ty : Ty) (d : Dec) (v : SVal) (disp : FloatDisp) (t : Bytes) (hwf : WfTy ty = true)
    (hroot : datetimeRoot v = false) (hwt : WellTyped ty d = true) (hs : serOf nm ty d = some v)
    (ht : (if pretty then textTomlPretty byName disp v else textToml byName disp v) = .ok t) :
    ∃ kvs, serDocument v = .ok kvs ∧
      (LeavesOkSKVs disp kvs → depthSKVs kvs < LIMIT →
        ∃ T, Doc.parseDocument t = some T ∧
          ∀ c : EditCfg, decodeEdit c .sorted ty (.table T) = .ok (normDecV (leafF canonFloat) (f32F canonFloat) (leafS canonFloat) ty d)) := by
  have himg : ∀ kvs, routeToml byName v = .ok kvs → expected v = some (.inl kvs) :=
    fun kvs h => T07_route_toml byName v kvs (.inr hroot) h
  cases pretty with
  | false =>
    exact roundtrip_text_fmtV _ _ (T07_text_toml byName) nm hnm ty d v disp t hwf hwt hs himg ht
  | true =>
    exact roundtrip_text_fmtV _ _ (T07_text_toml_pretty byName) nm hnm ty d v disp t hwf hwt hs himg ht

/-- **T07_roundtrip_text_value_leaves** (`toml_edit::ser::to_string_pretty` with the F5 guard ported) -/
theorem T07_roundtrip_text_edit_pretty_value_leaves (nm : Bytes) (hnm : (nm == dtName) = false)
    (ty : Ty) (d : Dec) (v : SVal) (disp : FloatDisp) (t : Bytes) (hwf : WfTy ty = true)
    (hwt : WellTyped ty d = true) (hs : serOf nm ty d = some v) (ht : textEditPretty disp v = .ok t) :
    ∃ kvs, serDocument v = .ok kvs ∧
      (LeavesOkSKVs disp kvs → depthSKVs kvs < LIMIT →
        ∃ T, Doc.parseDocument t = some T ∧
          ∀ c : EditCfg, decodeEdit c .sorted ty (.table T) = .ok (normDecV (leafF canonFloat) (f32F canonFloat) (leafS canonFloat) ty d)) :=
  roundtrip_text_fmtV _ _ T07_text_edit_pretty nm hnm ty d v disp t hwf hwt hs
    (fun kvs h => T07_route_edit_pretty_guarded v kvs h) ht

/-! ## through `toml::Value` -/

/-- the serde calls of a typed value hold the private date-time struct only as `toml_datetime` produces it, `toml::Value`
leaves included -/
theorem T07_calls_wfDatetime (nm : Bytes) (hnm : (nm == dtName) = false) (ty : Ty) (d : Dec) (v : SVal)
    (hs : serOf nm ty d = some v) : wfDatetime v = true :=
  serOf_wfDatetimeV nm hnm ty d v hs

/-- **T07_roundtrip_value_value_leaves** — `Value::try_from(&d)?.try_into::<T>()` (`T07_roundtrip_value` without
`hasValue ty = false`), default build of the map -/
theorem T07_roundtrip_value_value_leaves (strictNone : Bool) (nm : Bytes) (hnm : (nm == dtName) = false) (ty : Ty)
    (d : Dec) (v : SVal) (x : V) (hwf : WfTy ty = true) (hwt : WellTyped ty d = true)
    (hs : serOf nm ty d = some v) (hun : unsupported v = false) (hval : valSer ⟨strictNone, true⟩ v = .ok x) :
    ∀ cv : ValueCfg, decodeValue cv .sorted ty (placeTV .sorted (tvOf x)) = .ok (normDecV (leafF id) (f32F id) (leafS id) ty d) := by
  intro cv
  obtain ⟨t, ht⟩ := (T07_expected_defined v).2 hun
  have hx : serValue v = .ok t := T07_tree_complete v t ht
  have hval' := T07_value_tree_current strictNone v t ht (serOf_wfDatetimeV nm hnm ty d v hs)
  rw [hval] at hval'
  injection hval' with hval'
  subst hval'
  have hn : NodupTV (tvOf x) := nodupTV_tvOf x (serValue_nodup v x hx)
  have hsim : Sim id x (placeTV .sorted (tvOf x)) := (sim_permTV id (perm_placeTV _ hn) x).2 (sim_tvOf x)
  exact (coreV nm hnm id ty hwf d v x _ hwt hs hx hsim).2 cv

/-! ## non-vacuity: a struct with a `toml::Value` field -/

/-- `struct Plugin { name: String, extra: toml::Value, opt: Option<i64>, more: Vec<toml::Value> }` -/
def pluginT : Ty := .struct (
  .cons (sb "name") .string false (
  .cons (sb "extra") .value false (
  .cons (sb "opt") (.option i64T) false (
  .cons (sb "more") (.seq .value) false .nil))))

/-- `extra = { a = 1, f = -nan, t = { x = 1.5, y = [1, 2] }, w = 1979-05-27T07:32:00Z }` (keys ascending: a value of
the `BTreeMap` build), `more = [true, { k = "v" }]` -/
def pluginV : Dec := .struct [
  (sb "name", .str (sb "p")),
  (sb "extra", .value (.tbl [
    (sb "a", .int 1), (sb "f", .float 0xFFF8000000000000),
    (sb "t", .tbl [(sb "x", .float 0x3FF8000000000000), (sb "y", .arr [.int 1, .int 2])]),
    (sb "w", .dt dt1)])),
  (sb "opt", .none),
  (sb "more", .seq [.value (.bool true), .value (.tbl [(sb "k", .str (sb "v"))])])]

def pluginS : SVal := getSome (serOf nmS pluginT pluginV)
def pluginKVs : List (Bytes × V) := getOk (serDocument pluginS)

theorem plugin_hyps :
    WfTy pluginT = true ∧ hasValue pluginT = true ∧ WellTyped pluginT pluginV = true ∧
    serOf nmS pluginT pluginV = some pluginS ∧ serDocument pluginS = .ok pluginKVs ∧ unsupported pluginS = false ∧
    datetimeRoot pluginS = false :=
  ⟨by decide +kernel, by decide +kernel, by decide +kernel, getSome_spec _ (by decide +kernel),
    getOk_spec _ (by decide +kernel), by decide +kernel, by decide +kernel⟩

/-- what comes back: the value itself, the `-nan` of the embedded `toml::Value` with its sign cleared -/
def pluginBack : Dec := .struct [
  (sb "name", .str (sb "p")),
  (sb "extra", .value (.tbl [
    (sb "a", .int 1), (sb "f", .float 0x7FF8000000000000),
    (sb "t", .tbl [(sb "x", .float 0x3FF8000000000000), (sb "y", .arr [.int 1, .int 2])]),
    (sb "w", .dt dt1)])),
  (sb "opt", .none),
  (sb "more", .seq [.value (.bool true), .value (.tbl [(sb "k", .str (sb "v"))])])]

theorem plugin_norm : normDecV (leafF id) (f32F id) (leafS id) pluginT pluginV = pluginBack := by with_unfolding_all rfl

/-- `T07_roundtrip_tree_value_leaves` on `Plugin`: document out, document in -/
theorem plugin_tree_roundtrip :
    decodeEdit editAsIs .sorted pluginT (rootItem pluginKVs) = .ok pluginBack ∧
    tomlRoute editAsIs .sorted pluginT (rootItem pluginKVs) = .ok pluginBack := by
  obtain ⟨h1, _, h3, h4, h5, _, _⟩ := plugin_hyps
  have a := T07_roundtrip_tree_value_leaves_doc nmS nmS_ok pluginT pluginV pluginS pluginKVs h1 h3 h4 h5
  rw [plugin_norm] at a
  exact ⟨a.1, a.2.2⟩

/-- `T07_roundtrip_value_value_leaves` on `Plugin` -/
theorem plugin_value_roundtrip :
    ∃ x, valSer .current pluginS = .ok x ∧
      decodeValue valueAsIs .sorted pluginT (placeTV .sorted (tvOf x)) = .ok pluginBack := by
  obtain ⟨h1, _, h3, h4, _, h6, _⟩ := plugin_hyps
  have hx : valSer .current pluginS = .ok (getOk (valSer .current pluginS)) := getOk_spec _ (by decide +kernel)
  refine ⟨_, hx, ?_⟩
  have := T07_roundtrip_value_value_leaves false nmS nmS_ok pluginT pluginV pluginS _ h1 h3 h4 h6 hx valueAsIs
  rw [plugin_norm] at this
  exact this

/-- the model computes the same on this value (a check of the theorem against `decodeEdit` itself) -/
example : treeTrip pluginT pluginV = some (.ok (.ok pluginBack)) := by with_unfolding_all rfl

/-! ## the `f32` identification, resolved

`normDec` (and `normDecV … (f32F cf) …`) says an `f32` comes back as `f64ToF32 (cf (clearNanSign (f32to64 b)))`. By
`T07_f32_widen_narrow` that is `normF32 b`: `b` itself unless `b` is a NaN, and then `0x7FC00000`. `normDecS cf` is what
comes back with this written in: the ONLY things that differ from the value that was serialized are NaNs (`f64`: sign,
and payload through a text; `f32`: sign and payload; inside a `toml::Value`: like `f64`), map entries whose value is
`None` (F33), and `None` in a `#[serde(default)]` field (`Dec.dflt`, the same Rust value). -/

open TomlVerif.Lemmas.TypedGapsF32 (isNaN32 T07_f32_widen_narrow)

/-- what comes back, final form -/
def normDecS (cf : Nat → Nat) : Ty → Dec → Dec := normDecV (leafF cf) normF32 (leafS cf)

/-- **T07_f32_widen_narrow** (Lemmas/TypedGapsF32.lean), restated here: `(x as f64) as f32 == x` on the bit patterns of
the model, for every `f32` that is not a NaN -/
theorem T07_f32_exact (b : Nat) (hb : b < 2 ^ 32) (hn : isNaN32 b = false) : f64ToF32 (f32to64 b) = b :=
  T07_f32_widen_narrow b hb hn

theorem normF32_of_not_nan (b : Nat) (hn : isNaN32 b = false) : normF32 b = b := by simp [normF32, hn]
theorem normF32_of_nan (b : Nat) (hn : isNaN32 b = true) : normF32 b = 0x7FC00000 := by simp [normF32, hn]

/-- tree level: `normDecV` with the composition is `normDecS id` on every well-typed value -/
theorem normDecS_id (ty : Ty) (d : Dec) (hwt : WellTyped ty d = true) :
    normDecV (leafF id) (f32F id) (leafS id) ty d = normDecS id ty d :=
  normDecV_congr32 _ _ _ _ (fun b hb => f32F_id b hb) ty d hwt

/-- text level: the same with `canonFloat` -/
theorem normDecS_canon (ty : Ty) (d : Dec) (hwt : WellTyped ty d = true) :
    normDecV (leafF canonFloat) (f32F canonFloat) (leafS canonFloat) ty d = normDecS canonFloat ty d :=
  normDecV_congr32 _ _ _ _ (fun b hb => f32F_canon b hb) ty d hwt

/-- for a type without `toml::Value`, `normDec id` / `normDec canonFloat` of Model/SerTyped.lean IS `normDecS` -/
theorem normDec_eq_normDecS_id (ty : Ty) (d : Dec) (hv : hasValue ty = false) (hwt : WellTyped ty d = true) :
    normDec id ty d = normDecS id ty d := by
  rw [← normDecV_eq id (leafS id) ty hv d]; exact normDecS_id ty d hwt

theorem normDec_eq_normDecS_canon (ty : Ty) (d : Dec) (hv : hasValue ty = false) (hwt : WellTyped ty d = true) :
    normDec canonFloat ty d = normDecS canonFloat ty d := by
  rw [← normDecV_eq canonFloat (leafS canonFloat) ty hv d]; exact normDecS_canon ty d hwt

/-! ### `T07_roundtrip_*` of Props/C07RoundTrip.lean (no `toml::Value` inside, both builds of the map), restated -/

theorem T07_roundtrip_tree_f32 (nm : Bytes) (hnm : (nm == dtName) = false) (fl : Flavour) (ty : Ty) (d : Dec) (v : SVal)
    (kvs : List (Bytes × V)) (hwf : WfTy ty = true) (hv : hasValue ty = false) (hwt : WellTyped ty d = true)
    (hs : serOf nm ty d = some v) (hdoc : serDocument v = .ok kvs) :
    ∀ (c : EditCfg) (it : Item), plainItem it = tvOf (.inl kvs) → decodeEdit c fl ty it = .ok (normDecS id ty d) := by
  rw [← normDec_eq_normDecS_id ty d hv hwt]
  exact T07_roundtrip_tree nm hnm fl ty d v kvs hwf hv hwt hs hdoc

theorem T07_roundtrip_text_edit_f32 (nm : Bytes) (hnm : (nm == dtName) = false) (fl : Flavour) (ty : Ty) (d : Dec)
    (v : SVal) (disp : FloatDisp) (t : Bytes) (hwf : WfTy ty = true) (hv : hasValue ty = false)
    (hwt : WellTyped ty d = true) (hs : serOf nm ty d = some v) (ht : textEdit disp v = .ok t) :
    ∃ kvs, serDocument v = .ok kvs ∧
      (LeavesOkSKVs disp kvs → depthSKVs kvs < LIMIT →
        ∃ T, Doc.parseDocument t = some T ∧
          ∀ c : EditCfg, decodeEdit c fl ty (.table T) = .ok (normDecS canonFloat ty d)) := by
  rw [← normDec_eq_normDecS_canon ty d hv hwt]
  exact T07_roundtrip_text_edit nm hnm fl ty d v disp t hwf hv hwt hs ht

theorem T07_roundtrip_text_toml_f32 (pretty byName : Bool) (nm : Bytes) (hnm : (nm == dtName) = false) (fl : Flavour)
    (ty : Ty) (d : Dec) (v : SVal) (disp : FloatDisp) (t : Bytes) (hwf : WfTy ty = true) (hv : hasValue ty = false)
    (hdt : isDtTy ty = false) (hwt : WellTyped ty d = true) (hs : serOf nm ty d = some v)
    (ht : (if pretty then textTomlPretty byName disp v else textToml byName disp v) = .ok t) :
    ∃ kvs, serDocument v = .ok kvs ∧
      (LeavesOkSKVs disp kvs → depthSKVs kvs < LIMIT →
        ∃ T, Doc.parseDocument t = some T ∧
          ∀ c : EditCfg, decodeEdit c fl ty (.table T) = .ok (normDecS canonFloat ty d)) := by
  rw [← normDec_eq_normDecS_canon ty d hv hwt]
  exact T07_roundtrip_text_toml pretty byName nm hnm fl ty d v disp t hwf hv hdt hwt hs ht

theorem T07_roundtrip_text_edit_pretty_f32 (nm : Bytes) (hnm : (nm == dtName) = false) (fl : Flavour)
    (ty : Ty) (d : Dec) (v : SVal) (disp : FloatDisp) (t : Bytes) (hwf : WfTy ty = true) (hv : hasValue ty = false)
    (hwt : WellTyped ty d = true) (hs : serOf nm ty d = some v) (ht : textEditPretty disp v = .ok t) :
    ∃ kvs, serDocument v = .ok kvs ∧
      (LeavesOkSKVs disp kvs → depthSKVs kvs < LIMIT →
        ∃ T, Doc.parseDocument t = some T ∧
          ∀ c : EditCfg, decodeEdit c fl ty (.table T) = .ok (normDecS canonFloat ty d)) := by
  rw [← normDec_eq_normDecS_canon ty d hv hwt]
  exact T07_roundtrip_text_edit_pretty nm hnm fl ty d v disp t hwf hv hwt hs ht

theorem T07_roundtrip_value_f32 (strictNone : Bool) (nm : Bytes) (hnm : (nm == dtName) = false) (fl : Flavour) (ty : Ty)
    (d : Dec) (v : SVal) (x : V) (hwf : WfTy ty = true) (hv : hasValue ty = false) (hwt : WellTyped ty d = true)
    (hs : serOf nm ty d = some v) (hun : unsupported v = false) (hval : valSer ⟨strictNone, true⟩ v = .ok x) :
    ∀ cv : ValueCfg, decodeValue cv fl ty (placeTV fl (tvOf x)) = .ok (normDecS id ty d) := by
  rw [← normDec_eq_normDecS_id ty d hv hwt]
  exact T07_roundtrip_value strictNone nm hnm fl ty d v x hwf hv hwt hs hun hval

/-! ### … and with `toml::Value` inside (default build), final form -/

/-- **T07_roundtrip_tree**, every type of the grammar, default build -/
theorem T07_roundtrip_tree_final (nm : Bytes) (hnm : (nm == dtName) = false) (ty : Ty) (d : Dec) (v : SVal)
    (kvs : List (Bytes × V)) (hwf : WfTy ty = true) (hwt : WellTyped ty d = true)
    (hs : serOf nm ty d = some v) (hdoc : serDocument v = .ok kvs) :
    ∀ (c : EditCfg) (it : Item), plainItem it = tvOf (.inl kvs) → decodeEdit c .sorted ty it = .ok (normDecS id ty d) := by
  rw [← normDecS_id ty d hwt]
  exact T07_roundtrip_tree_value_leaves nm hnm ty d v kvs hwf hwt hs hdoc

/-- **T07_roundtrip_text** (`toml_edit::ser::to_string`), every type of the grammar, default build -/
theorem T07_roundtrip_text_edit_final (nm : Bytes) (hnm : (nm == dtName) = false) (ty : Ty) (d : Dec) (v : SVal)
    (disp : FloatDisp) (t : Bytes) (hwf : WfTy ty = true) (hwt : WellTyped ty d = true)
    (hs : serOf nm ty d = some v) (ht : textEdit disp v = .ok t) :
    ∃ kvs, serDocument v = .ok kvs ∧
      (LeavesOkSKVs disp kvs → depthSKVs kvs < LIMIT →
        ∃ T, Doc.parseDocument t = some T ∧
          ∀ c : EditCfg, decodeEdit c .sorted ty (.table T) = .ok (normDecS canonFloat ty d)) := by
  rw [← normDecS_canon ty d hwt]
  exact T07_roundtrip_text_edit_value_leaves nm hnm ty d v disp t hwf hwt hs ht

/-- **T07_roundtrip_text** (`toml::to_string` / `to_string_pretty`), every type of the grammar, default build -/
theorem T07_roundtrip_text_toml_final (pretty byName : Bool) (nm : Bytes) (hnm : (nm == dtName) = false)
    (ty : Ty) (d : Dec) (v : SVal) (disp : FloatDisp) (t : Bytes) (hwf : WfTy ty = true)
    (hroot : datetimeRoot v = false) (hwt : WellTyped ty d = true) (hs : serOf nm ty d = some v)
    (ht : (if pretty then textTomlPretty byName disp v else textToml byName disp v) = .ok t) :
    ∃ kvs, serDocument v = .ok kvs ∧
      (LeavesOkSKVs disp kvs → depthSKVs kvs < LIMIT →
        ∃ T, Doc.parseDocument t = some T ∧
          ∀ c : EditCfg, decodeEdit c .sorted ty (.table T) = .ok (normDecS canonFloat ty d)) := by
  rw [← normDecS_canon ty d hwt]
  exact T07_roundtrip_text_toml_value_leaves pretty byName nm hnm ty d v disp t hwf hroot hwt hs ht

/-- **T07_roundtrip_text** (`toml_edit::ser::to_string_pretty`, F5 guard ported), every type, default build -/
theorem T07_roundtrip_text_edit_pretty_final (nm : Bytes) (hnm : (nm == dtName) = false)
    (ty : Ty) (d : Dec) (v : SVal) (disp : FloatDisp) (t : Bytes) (hwf : WfTy ty = true)
    (hwt : WellTyped ty d = true) (hs : serOf nm ty d = some v) (ht : textEditPretty disp v = .ok t) :
    ∃ kvs, serDocument v = .ok kvs ∧
      (LeavesOkSKVs disp kvs → depthSKVs kvs < LIMIT →
        ∃ T, Doc.parseDocument t = some T ∧
          ∀ c : EditCfg, decodeEdit c .sorted ty (.table T) = .ok (normDecS canonFloat ty d)) := by
  rw [← normDecS_canon ty d hwt]
  exact T07_roundtrip_text_edit_pretty_value_leaves nm hnm ty d v disp t hwf hwt hs ht

/-- **T07_roundtrip_value**, every type of the grammar, default build -/
theorem T07_roundtrip_value_final (strictNone : Bool) (nm : Bytes) (hnm : (nm == dtName) = false) (ty : Ty)
    (d : Dec) (v : SVal) (x : V) (hwf : WfTy ty = true) (hwt : WellTyped ty d = true)
    (hs : serOf nm ty d = some v) (hun : unsupported v = false) (hval : valSer ⟨strictNone, true⟩ v = .ok x) :
    ∀ cv : ValueCfg, decodeValue cv .sorted ty (placeTV .sorted (tvOf x)) = .ok (normDecS id ty d) := by
  rw [← normDecS_id ty d hwt]
  exact T07_roundtrip_value_value_leaves strictNone nm hnm ty d v x hwf hwt hs hun hval

/-- non-vacuity of the `f32` statements: `struct Q { x: f32 }` with `x = 0.1f32` comes back exactly, with
`x = f32::from_bits(0x7FA00001)` (a NaN) as the default quiet NaN -/
example : WellTyped f32T (.struct [(sb "x", .f32 0x3DCCCCCD)]) = true ∧ isNaN32 0x3DCCCCCD = false ∧
    normDecS id f32T (.struct [(sb "x", .f32 0x3DCCCCCD)]) = .struct [(sb "x", .f32 0x3DCCCCCD)] ∧
    normDecS canonFloat f32T (.struct [(sb "x", .f32 0x3DCCCCCD)]) = .struct [(sb "x", .f32 0x3DCCCCCD)] ∧
    normDecS id f32T (.struct [(sb "x", .f32 0x7FA00001)]) = .struct [(sb "x", .f32 0x7FC00000)] := by
  refine ⟨by decide +kernel, by decide +kernel, ?_, ?_, ?_⟩ <;>
    simp [normDecS, f32T, normDecV, normFieldsV, normF32, isNaN32, isNoneDec]

/-! ## the leaf and `C17.canonTV` -/

open TomlVerif.Lemmas.RoundTrip17 (SortedTV SortedVs SortedPs) in
mutual
/-- the `toml::Value`s `WellTyped` admits are key-sorted trees -/
theorem valueOk_sorted : ∀ v : TV, valueOk v = true → SortedTV v
  | .str _, _ => by simp [SortedTV]
  | .int _, _ => by simp [SortedTV]
  | .float _, _ => by simp [SortedTV]
  | .bool _, _ => by simp [SortedTV]
  | .dt _, _ => by simp [SortedTV]
  | .arr l, h => by simp only [valueOk] at h; simp only [SortedTV]; exact valueOkList_sorted l h
  | .tbl items, h => by
    simp only [valueOk, Bool.and_eq_true] at h
    simp only [SortedTV]
    exact ⟨ascending_ksorted items h.1.1, valueOkPairs_sorted items h.2⟩
theorem valueOkList_sorted : ∀ l : List TV, valueOkList l = true → SortedVs l
  | [], _ => by simp [SortedVs]
  | v :: r, h => by
    simp only [valueOkList, Bool.and_eq_true] at h
    simp only [SortedVs]
    exact ⟨valueOk_sorted v h.1, valueOkList_sorted r h.2⟩
theorem valueOkPairs_sorted : ∀ l : List (Bytes × TV), valueOkPairs l = true → SortedPs l
  | [], _ => by simp [SortedPs]
  | (k, v) :: r, h => by
    simp only [valueOkPairs, Bool.and_eq_true] at h
    simp only [SortedPs]
    exact ⟨valueOk_sorted v h.1, valueOkPairs_sorted r h.2⟩
end

/-- for the default build the leaf rule says: `v` comes back as `C17RoundTrip.canonTV .sorted v` (which is `v`,
`C17Fix.T17_canon_sorted`), doubles after `leafF cf` — the round trip of `toml::Value` on its own (C17) and inside a typed
value agree -/
theorem leafS_canonTV (cf : Nat → Nat) (v : TV) (h : valueOk v = true) :
    leafS cf v = mapF (leafF cf) (C17RoundTrip.canonTV .sorted v) := by
  rw [C17Fix.T17_canon_sorted v (valueOk_sorted v h)]; rfl

/-! ## the build with `preserve_order` -/

/-- what comes back with `preserve_order`, final form: a `toml::Value` leaf in three-pass order -/
def normDecI (cf : Nat → Nat) : Ty → Dec → Dec := normDecV (leafF cf) normF32 (leafI cf)

theorem normDecI_id (ty : Ty) (d : Dec) (hwt : WellTyped ty d = true) :
    normDecV (leafF id) (f32F id) (leafI id) ty d = normDecI id ty d :=
  normDecV_congr32 _ _ _ _ (fun b hb => f32F_id b hb) ty d hwt

theorem normDecI_canon (ty : Ty) (d : Dec) (hwt : WellTyped ty d = true) :
    normDecV (leafF canonFloat) (f32F canonFloat) (leafI canonFloat) ty d = normDecI canonFloat ty d :=
  normDecV_congr32 _ _ _ _ (fun b hb => f32F_canon b hb) ty d hwt

/-- **T07_roundtrip_tree_value_leaves**, `preserve_order`: `to_document` then `toml_edit::de` on an item holding that
table's data, entries in the serializer's order -/
theorem T07_roundtrip_tree_final_insertion (nm : Bytes) (hnm : (nm == dtName) = false) (ty : Ty) (d : Dec) (v : SVal)
    (kvs : List (Bytes × V)) (hwf : WfTy ty = true) (hwt : WellTyped ty d = true)
    (hs : serOf nm ty d = some v) (hdoc : serDocument v = .ok kvs) :
    ∀ (c : EditCfg) (it : Item), plainItem it = tvOf (.inl kvs) →
      decodeEdit c .insertion ty it = .ok (normDecI id ty d) := by
  rw [← normDecI_id ty d hwt]
  exact fun c it hit =>
    (coreX nm hnm id ty hwf d v (.inl kvs) _ hwt hs (serDocument_value v kvs hdoc) (simX_tvOf (.inl kvs))).1 c it hit

/-- **T07_roundtrip_text** (`toml_edit::ser::to_string`), `preserve_order` -/
theorem T07_roundtrip_text_edit_final_insertion (nm : Bytes) (hnm : (nm == dtName) = false) (ty : Ty) (d : Dec)
    (v : SVal) (disp : FloatDisp) (t : Bytes) (hwf : WfTy ty = true) (hwt : WellTyped ty d = true)
    (hs : serOf nm ty d = some v) (ht : textEdit disp v = .ok t) :
    ∃ kvs, serDocument v = .ok kvs ∧
      (LeavesOkSKVs disp kvs → depthSKVs kvs < LIMIT →
        ∃ T, Doc.parseDocument t = some T ∧
          ∀ c : EditCfg, decodeEdit c .insertion ty (.table T) = .ok (normDecI canonFloat ty d)) := by
  rw [← normDecI_canon ty d hwt]
  obtain ⟨kvs, hr, himg, hp⟩ := T07_text_edit disp v t ht
  have hx : serValue v = .ok (.inl kvs) := T07_tree_complete v _ himg
  have hdoc : serDocument v = .ok kvs := by unfold serDocument; rw [hx]
  refine ⟨kvs, hdoc, fun hl hd => ?_⟩
  have := hp hl hd
  cases hq : Doc.parseDocument t with
  | none => rw [hq] at this; cases this
  | some T =>
    rw [hq] at this
    simp only [Option.map_some, Option.some.injEq] at this
    refine ⟨T, rfl, fun c => ?_⟩
    have hsim : SimX canonFloat (.inl kvs) (.tbl (tvKVs (canonKVs kvs))) := by
      have := simX_canon (.inl kvs)
      simpa only [canonV, tvOf] using this
    exact (coreX nm hnm canonFloat ty hwf d v (.inl kvs) _ hwt hs hx hsim).1 c _ (by rw [plainItem_table, this])

/-- **T07_roundtrip_value**, `preserve_order` -/
theorem T07_roundtrip_value_final_insertion (strictNone : Bool) (nm : Bytes) (hnm : (nm == dtName) = false) (ty : Ty)
    (d : Dec) (v : SVal) (x : V) (hwf : WfTy ty = true) (hwt : WellTyped ty d = true)
    (hs : serOf nm ty d = some v) (hun : unsupported v = false) (hval : valSer ⟨strictNone, true⟩ v = .ok x) :
    ∀ cv : ValueCfg, decodeValue cv .insertion ty (placeTV .insertion (tvOf x)) = .ok (normDecI id ty d) := by
  rw [← normDecI_id ty d hwt]
  intro cv
  obtain ⟨t, ht⟩ := (T07_expected_defined v).2 hun
  have hx : serValue v = .ok t := T07_tree_complete v t ht
  have hval' := T07_value_tree_current strictNone v t ht (serOf_wfDatetimeV nm hnm ty d v hs)
  rw [hval] at hval'
  injection hval' with hval'
  subst hval'
  have hn : NodupTV (tvOf x) := nodupTV_tvOf x (serValue_nodup v x hx)
  rw [place_insertion_id _ hn]
  exact (coreX nm hnm id ty hwf d v x _ hwt hs hx (simX_tvOf x)).2 cv

/-- what the three passes do to the leaf of the example: `t` (a table) moves behind `w` (a date-time) -/
def pluginBackI : Dec := .struct [
  (sb "name", .str (sb "p")),
  (sb "extra", .value (.tbl [
    (sb "a", .int 1), (sb "f", .float 0x7FF8000000000000), (sb "w", .dt dt1),
    (sb "t", .tbl [(sb "x", .float 0x3FF8000000000000), (sb "y", .arr [.int 1, .int 2])])])),
  (sb "opt", .none),
  (sb "more", .seq [.value (.bool true), .value (.tbl [(sb "k", .str (sb "v"))])])]

theorem plugin_normI : normDecI id pluginT pluginV = pluginBackI := by with_unfolding_all rfl

/-- `T07_roundtrip_tree_final_insertion` on `Plugin`: with `preserve_order` the embedded table comes back REORDERED
(`pluginBackI ≠ pluginBack`): `impl Serialize for Value` writes tables last -/
theorem plugin_tree_roundtrip_insertion :
    decodeEdit editAsIs .insertion pluginT (rootItem pluginKVs) = .ok pluginBackI := by
  obtain ⟨h1, _, h3, h4, h5, _, _⟩ := plugin_hyps
  have a := T07_roundtrip_tree_final_insertion nmS nmS_ok pluginT pluginV pluginS pluginKVs h1 h3 h4 h5 editAsIs _
    (plainItem_rootItem pluginKVs)
  rw [plugin_normI] at a
  exact a

end TomlVerif.Props.C07RoundTripMore
