import TomlVerif.Props.C03Hdr
import TomlVerif.Lemmas.Tiling03NestMain
/-! C03, continued — document-level tiling beyond `flatRoot`: multi-element arrays of tables,
    multi-segment header names with implicit parents and sub-tables in pre-order, dotted keys in
    table bodies.

    The class.  `d` keeps one `Key` per table entry, so the spelling of a later `[[ t ]]`, of the
    `a` in a later `[a.b]` or `a.c = 2` is not in `d`; the class therefore has a SOURCE side and a
    TREE side:
      * `nestRun dot s` (source side, `Lemmas/Tiling03NestDefs`): `parse_document` re-run with a
        check at every header and key/value line, on the state the line meets.  A header
        `[p1.….pn.key]` / `[[…]]` passes (`pathOk`) when every segment that names an EXISTING
        table names the LAST item of its parent, is spelled like the stored key (`sameSeg`: same
        key text and same white space inside the path) and is not a dotted-key table, and the
        last key is new or — for `[[…]]` — names the last item, an array of tables, with the same
        spelling including the white space around the path (`sameLeaf`).  A key/value line passes
        (`kvLineOk`) when its value is a `simpleVal` and every prefix segment of its key that
        names an existing table names the LAST item (adjacent dotted keys), a dotted-key table,
        spelled like the stored key (`dottedOk`); with `dot = false` the key has one segment.
      * `preorderDoc d` (tree side, `Lemmas/Tiling03NestText`): the root has no decor, the
        tables of `d` are met by `visit_nested_tables` in position order, every header has an
        explicit prefix decor.  (Every tree a checked run produces should satisfy it — the checks
        put each new section at the end of the pre-order — but that is not proved here, so it is a
        hypothesis; it is decidable on `d`.) -/
namespace TomlVerif.Props.C03Nest
open TomlVerif TomlVerif.Model TomlVerif.Model.Cst TomlVerif.Model.Encode
open TomlVerif.Lemmas.Cst03 TomlVerif.Lemmas.Tiling03 TomlVerif.Lemmas.Tiling03Hdr TomlVerif.Lemmas.Tiling03Nest
open TomlVerif.Props.C03 TomlVerif.Props.C03Doc TomlVerif.Props.C03Hdr

/-- stage B: nested headers, repeated `[[t]]`, one-segment keys in bodies -/
def nestedDoc (s : Bytes) (d : CDoc) : Bool := nestRun false s && preorderDoc d

/-- stage C: also dotted keys in bodies (adjacent, same spelling of the shared prefix) -/
def dottedDoc (s : Bytes) (d : CDoc) : Bool := nestRun true s && preorderDoc d

/-- root items of stage A: simple values, `[t]` leaf tables, `[[t]]` arrays of one or more leaf tables -/
def aotItems : List (CKey × CItem) → Bool
  | [] => true
  | (_, .value v) :: r => simpleVal v && aotItems r
  | (_, .table t) :: r => leafTbl t && aotItems r
  | (_, .aot ts _) :: r => !ts.isEmpty && ts.all leafTbl && aotItems r

/-- stage A: `flatRoot` with arrays of any length, every `[[t]]` header spelled like the first -/
def aotDoc (s : Bytes) (d : CDoc) : Bool := aotItems d.root.items && nestedDoc s d

/-! ### the general statements (`dot` = dotted keys admitted) -/

/-- tiling proper, any source: the recorded pieces concatenated verbatim are the source without
    its BOM, except that the CR LF ending a key/value or header line is written LF, plus the
    final LF -/
theorem T03_doc_verbatim_run (dot : Bool) (s : Bytes) (d : CDoc) (h : parseCst s = some d)
    (hrun : nestRun dot s = true) (hpre : preorderDoc d = true) :
    ∃ out eol, verbatimDoc s d = out ++ eol ∧ EolRel out (Doc.stripBom s) ∧ EolOk eol (Doc.stripBom s) :=
  nest_doc_tiling id s d (FixOn.id s) dot h hrun hpre

/-- the CRLF normalisation, any source -/
theorem T03_doc_crlf_run (dot : Bool) (s : Bytes) (d : CDoc) (h : parseCst s = some d)
    (hrun : nestRun dot s = true) (hpre : preorderDoc d = true) :
    ∃ eol, DropCr (printDoc s d) (Doc.stripBom s ++ eol) ∧
      stripCr (printDoc s d) = stripCr (Doc.stripBom s) ++ eol ∧ EolOk eol (Doc.stripBom s) := by
  obtain ⟨out, eol, h1, h2, h3⟩ := T03_doc_verbatim_run dot s d h hrun hpre
  have hd : DropCr (printDoc s d) (Doc.stripBom s ++ eol) := by
    have := T03_print_dropCr_verbatim s d
    rw [h1] at this
    exact this.trans (h2.toDropCr.append (DropCr.refl eol))
  refine ⟨eol, hd, ?_, h3⟩
  rw [hd.stripCr_eq, stripCr_append]
  rcases h3 with h3 | ⟨h3, _⟩ <;> subst h3 <;> rfl

/-- CR-free sources: the printed text is the source without its BOM plus the final LF -/
theorem T03_doc_norm_run (dot : Bool) (s : Bytes) (d : CDoc) (h : parseCst s = some d)
    (hrun : nestRun dot s = true) (hpre : preorderDoc d = true) (hcr : ∀ b ∈ s, b ≠ 0x0D) :
    ∃ eol, printDoc s d = Doc.stripBom s ++ eol ∧ EolOk eol (Doc.stripBom s) := by
  obtain ⟨out, eol, h1, h2, h3⟩ := nest_doc_tiling stripCr s d (FixOn.stripCr s hcr) dot h hrun hpre
  obtain ⟨base, hbase⟩ := stripBom_split s
  have hcr' : ∀ b ∈ Doc.stripBom s, b ≠ 0x0D := fun b hb => hcr b (by rw [hbase]; exact List.mem_append_right _ hb)
  exact ⟨eol, by rw [← h2.eq_of_noCr hcr']; exact h1, h3⟩

/-- byte-for-byte: no BOM, no CR, final newline -/
theorem T03_doc_tiling_run (dot : Bool) (s : Bytes) (d : CDoc) (h : parseCst s = some d)
    (hrun : nestRun dot s = true) (hpre : preorderDoc d = true)
    (hbom : Doc.stripBom s = s) (hcr : ∀ b ∈ s, b ≠ 0x0D) (hnl : s.getLast? = some 0x0A ∨ s = []) :
    printDoc s d = s := by
  rcases hnl with hnl | hnl
  · obtain ⟨eol, h1, c1⟩ := T03_doc_norm_run dot s d h hrun hpre hcr
    rw [hbom] at h1 c1
    rcases c1 with c1 | ⟨_, c1⟩
    · rw [h1, c1, List.append_nil]
    · exact absurd hnl c1
  · subst hnl
    rw [parseCst_nil] at h
    injection h with h; subst h
    rfl

/-! ### stage B — `T03_doc_tiling_nested` -/

theorem nestedDoc_iff (s : Bytes) (d : CDoc) : nestedDoc s d = true ↔ nestRun false s = true ∧ preorderDoc d = true := by
  simp [nestedDoc]

/-- T03_doc_tiling_nested: multi-segment header names (`[a.b]`, `[x.y.z]`, implicit parents),
    sub-tables after their parent (`[a]` … `[a.b]`), arrays of tables with any number of
    elements and tables below them, every repeated segment spelled like its first occurrence:
    an unedited document prints back byte for byte -/
theorem T03_doc_tiling_nested (s : Bytes) (d : CDoc) (h : parseCst s = some d) (hc : nestedDoc s d = true)
    (hbom : Doc.stripBom s = s) (hcr : ∀ b ∈ s, b ≠ 0x0D) (hnl : s.getLast? = some 0x0A ∨ s = []) :
    printDoc s d = s :=
  T03_doc_tiling_run false s d h ((nestedDoc_iff s d).1 hc).1 ((nestedDoc_iff s d).1 hc).2 hbom hcr hnl

theorem T03_doc_verbatim_nested (s : Bytes) (d : CDoc) (h : parseCst s = some d) (hc : nestedDoc s d = true) :
    ∃ out eol, verbatimDoc s d = out ++ eol ∧ EolRel out (Doc.stripBom s) ∧ EolOk eol (Doc.stripBom s) :=
  T03_doc_verbatim_run false s d h ((nestedDoc_iff s d).1 hc).1 ((nestedDoc_iff s d).1 hc).2

theorem T03_doc_crlf_nested (s : Bytes) (d : CDoc) (h : parseCst s = some d) (hc : nestedDoc s d = true) :
    ∃ eol, DropCr (printDoc s d) (Doc.stripBom s ++ eol) ∧
      stripCr (printDoc s d) = stripCr (Doc.stripBom s) ++ eol ∧ EolOk eol (Doc.stripBom s) :=
  T03_doc_crlf_run false s d h ((nestedDoc_iff s d).1 hc).1 ((nestedDoc_iff s d).1 hc).2

theorem T03_doc_norm_nested (s : Bytes) (d : CDoc) (h : parseCst s = some d) (hc : nestedDoc s d = true)
    (hcr : ∀ b ∈ s, b ≠ 0x0D) : ∃ eol, printDoc s d = Doc.stripBom s ++ eol ∧ EolOk eol (Doc.stripBom s) :=
  T03_doc_norm_run false s d h ((nestedDoc_iff s d).1 hc).1 ((nestedDoc_iff s d).1 hc).2 hcr

theorem T03_print_fixpoint_nested (s : Bytes) (d : CDoc) (h : parseCst s = some d) (hc : nestedDoc s d = true)
    (hbom : Doc.stripBom s = s) (hcr : ∀ b ∈ s, b ≠ 0x0D) (hnl : s.getLast? = some 0x0A ∨ s = []) :
    ∃ d', parseCst (printDoc s d) = some d' ∧ printDoc (printDoc s d) d' = printDoc s d := by
  have hp := T03_doc_tiling_nested s d h hc hbom hcr hnl
  exact ⟨d, by rw [hp]; exact h, by rw [hp]; exact hp⟩

/-! ### stage A — `T03_doc_tiling_aot` -/

/-- T03_doc_tiling_aot: `flatRoot` documents with arrays of tables of any length, every
    `[[t]]` header of an array spelled like the first (the source-side check) -/
theorem T03_doc_tiling_aot (s : Bytes) (d : CDoc) (h : parseCst s = some d) (hc : aotDoc s d = true)
    (hbom : Doc.stripBom s = s) (hcr : ∀ b ∈ s, b ≠ 0x0D) (hnl : s.getLast? = some 0x0A ∨ s = []) :
    printDoc s d = s := by
  simp only [aotDoc, Bool.and_eq_true] at hc
  exact T03_doc_tiling_nested s d h hc.2 hbom hcr hnl

/-! ### stage C — `T03_doc_tiling_dotted` -/

theorem dottedDoc_iff (s : Bytes) (d : CDoc) : dottedDoc s d = true ↔ nestRun true s = true ∧ preorderDoc d = true := by
  simp [dottedDoc]

/-- T03_doc_tiling_dotted: as `T03_doc_tiling_nested`, with dotted keys in table bodies when the
    keys sharing a prefix are adjacent and spell the shared segments alike (`a.b = 1`, `a.c = 2`) -/
theorem T03_doc_tiling_dotted (s : Bytes) (d : CDoc) (h : parseCst s = some d) (hc : dottedDoc s d = true)
    (hbom : Doc.stripBom s = s) (hcr : ∀ b ∈ s, b ≠ 0x0D) (hnl : s.getLast? = some 0x0A ∨ s = []) :
    printDoc s d = s :=
  T03_doc_tiling_run true s d h ((dottedDoc_iff s d).1 hc).1 ((dottedDoc_iff s d).1 hc).2 hbom hcr hnl

theorem T03_doc_verbatim_dotted (s : Bytes) (d : CDoc) (h : parseCst s = some d) (hc : dottedDoc s d = true) :
    ∃ out eol, verbatimDoc s d = out ++ eol ∧ EolRel out (Doc.stripBom s) ∧ EolOk eol (Doc.stripBom s) :=
  T03_doc_verbatim_run true s d h ((dottedDoc_iff s d).1 hc).1 ((dottedDoc_iff s d).1 hc).2

theorem T03_doc_crlf_dotted (s : Bytes) (d : CDoc) (h : parseCst s = some d) (hc : dottedDoc s d = true) :
    ∃ eol, DropCr (printDoc s d) (Doc.stripBom s ++ eol) ∧
      stripCr (printDoc s d) = stripCr (Doc.stripBom s) ++ eol ∧ EolOk eol (Doc.stripBom s) :=
  T03_doc_crlf_run true s d h ((dottedDoc_iff s d).1 hc).1 ((dottedDoc_iff s d).1 hc).2

theorem T03_doc_norm_dotted (s : Bytes) (d : CDoc) (h : parseCst s = some d) (hc : dottedDoc s d = true)
    (hcr : ∀ b ∈ s, b ≠ 0x0D) : ∃ eol, printDoc s d = Doc.stripBom s ++ eol ∧ EolOk eol (Doc.stripBom s) :=
  T03_doc_norm_run true s d h ((dottedDoc_iff s d).1 hc).1 ((dottedDoc_iff s d).1 hc).2 hcr

theorem T03_print_fixpoint_dotted (s : Bytes) (d : CDoc) (h : parseCst s = some d) (hc : dottedDoc s d = true)
    (hbom : Doc.stripBom s = s) (hcr : ∀ b ∈ s, b ≠ 0x0D) (hnl : s.getLast? = some 0x0A ∨ s = []) :
    ∃ d', parseCst (printDoc s d) = some d' ∧ printDoc (printDoc s d) d' = printDoc s d := by
  have hp := T03_doc_tiling_dotted s d h hc hbom hcr hnl
  exact ⟨d, by rw [hp]; exact h, by rw [hp]; exact hp⟩

/-! ### the classes are nested: A ⊆ B ⊆ C -/

theorem aotDoc_nestedDoc (s : Bytes) (d : CDoc) (h : aotDoc s d = true) : nestedDoc s d = true := by
  simp only [aotDoc, Bool.and_eq_true] at h
  exact h.2

theorem nestedDoc_dottedDoc (s : Bytes) (d : CDoc) (h : nestedDoc s d = true) : dottedDoc s d = true := by
  obtain ⟨h1, h2⟩ := (nestedDoc_iff s d).1 h
  exact (dottedDoc_iff s d).2 ⟨nestRun_mono s h1, h2⟩

/-! ### (D) the weaker clause: the printed text is valid and decodes to the same data -/

/-- T03_same_data, full statement — NOT PROVED: for every accepted document the printed text is
    accepted and erases to the same plain tree.  Missing: a printer-to-parser completeness lemma
    for arbitrary trees, "`parseCst` accepts `printDoc s d` and rebuilds `d` up to layout", i.e.
    the converse direction of the run invariant `NInv` (from the sections of a tree in position
    order to a run of `clines` over their text); nothing of that direction exists yet — all C03
    lemmas go from a parse run to the printed text. -/
def T03_same_data_statement : Prop :=
  ∀ (s : Bytes) (d : CDoc), parseCst s = some d →
    ∃ d', parseCst (printDoc s d) = some d' ∧ eraseTbl d'.root = eraseTbl d.root

/-- T03_same_data (proved part): in the class of `T03_doc_tiling_dotted` (which contains those of
    the other stages) on sources without BOM and CR ending in a newline, the printed text parses
    to the very same tree -/
theorem T03_same_data_partial (s : Bytes) (d : CDoc) (h : parseCst s = some d) (hc : dottedDoc s d = true)
    (hbom : Doc.stripBom s = s) (hcr : ∀ b ∈ s, b ≠ 0x0D) (hnl : s.getLast? = some 0x0A ∨ s = []) :
    ∃ d', parseCst (printDoc s d) = some d' ∧ eraseTbl d'.root = eraseTbl d.root := by
  rw [T03_doc_tiling_dotted s d h hc hbom hcr hnl]
  exact ⟨d, h, rfl⟩

/-! ### non-vacuity -/

/-- a `Cargo.toml`-like document: comments, blank lines, `[package]`, `[dependencies]` with an
    inline table, `[dependencies.tokio]` with dotted keys, `[[bin]]` twice, a trailing comment -/
def exCargo : Bytes := strBytes
  "# manifest\n[package]\nname = \"x\" # the name\nversion = \"0.1.0\"\n\n[dependencies]\nserde = { version = \"1\" }\n\n[dependencies.tokio]\nversion = \"1\"\nfeatures.default = false\nfeatures.full = true\n\n[[bin]]\nname = \"a\"\n\n[[bin]]\nname = \"b\"\n# end\n"

example : (parseCst exCargo).map (dottedDoc exCargo) = some true ∧
    Doc.stripBom exCargo = exCargo ∧ (exCargo.all fun b => b != 0x0D) = true ∧
    exCargo.getLast? = some 0x0A ∧
    (parseCst exCargo).map (printDoc exCargo) = some exCargo := by decide +kernel

/-- stage B: `[x.y.z]` with implicit parents, a sibling `[x.y.w]`, an array below an implicit
    table, a table below an array element, a second element, spaces inside the header names
    repeated identically -/
def exNested : Bytes := strBytes
  "top = 1\n[x . y.z]\nq = 1\n[x . y.w]\n[[x .arr]]\n[x .arr.sub] # s\nv = [1, 2]\n[[x .arr]]\n[last]\n"

example : (parseCst exNested).map (nestedDoc exNested) = some true ∧
    Doc.stripBom exNested = exNested ∧ (exNested.all fun b => b != 0x0D) = true ∧
    exNested.getLast? = some 0x0A ∧
    (parseCst exNested).map (printDoc exNested) = some exNested := by decide +kernel

/-- stage A: three `[[ c ]]` sections spelled alike between other sections -/
def exAot : Bytes := strBytes "x = 1\n[[ c ]]\nq = 1\n\n[[ c ]] # two\n[[ c ]]\nq = 3\n[b]\n"

example : (parseCst exAot).map (aotDoc exAot) = some true ∧
    (parseCst exAot).map flatRoot = some false ∧
    (parseCst exAot).map (printDoc exAot) = some exAot := by decide +kernel

/-- stage C outside B: dotted keys need `dot = true` -/
example : (parseCst (strBytes "[t]\na.b = 1\na.c = 2\n")).map (nestedDoc (strBytes "[t]\na.b = 1\na.c = 2\n")) = some false ∧
    (parseCst (strBytes "[t]\na.b = 1\na.c = 2\n")).map (dottedDoc (strBytes "[t]\na.b = 1\na.c = 2\n")) = some true := by
  decide +kernel

/-- CR LF line ends and a BOM: the normalising variants apply -/
def exNestedCrlf : Bytes := [0xEF, 0xBB, 0xBF] ++ strBytes "[a]\r\nk.x = 1\r\nk.y = 2\r\n# c\r\n[a.b]\r\n[[a.c]]\r\n[[a.c]]"

example : (parseCst exNestedCrlf).map (dottedDoc exNestedCrlf) = some true ∧
    (parseCst exNestedCrlf).map (printDoc exNestedCrlf)
      = some (strBytes "[a]\nk.x = 1\nk.y = 2\n# c\n[a.b]\n[[a.c]]\n[[a.c]]\n") := by decide +kernel

/-! ### what the source-side check excludes (the counterexamples of `C03Doc`), and what it loses -/

/-- a later `[[ c ]]` spelled differently: out of the class, printed with the first spelling -/
example : nestRun true (strBytes "[[c]]\n[[ c ]]\n") = false ∧
    (parseCst (strBytes "[[c]]\n[[ c ]]\n")).map preorderDoc = some true ∧
    (parseCst (strBytes "[[c]]\n[[ c ]]\n")).map (printDoc (strBytes "[[c]]\n[[ c ]]\n"))
      = some (strBytes "[[c]]\n[[c]]\n") := by decide +kernel

/-- a parent segment spelled differently -/
example : nestRun true (strBytes "[a]\n[ a .d]\n") = false ∧
    (parseCst (strBytes "[a]\n[ a .d]\n")).map preorderDoc = some true ∧
    (parseCst (strBytes "[a]\n[ a .d]\n")).map (printDoc (strBytes "[a]\n[ a .d]\n"))
      = some (strBytes "[a]\n[ a.d]\n") := by decide +kernel

/-- a shared dotted-key prefix spelled differently -/
example : nestRun true (strBytes "a .b = 1\na.c = 2\n") = false ∧
    (parseCst (strBytes "a .b = 1\na.c = 2\n")).map preorderDoc = some true ∧
    (parseCst (strBytes "a .b = 1\na.c = 2\n")).map (printDoc (strBytes "a .b = 1\na.c = 2\n"))
      = some (strBytes "a .b = 1\na .c = 2\n") := by decide +kernel

/-- non-adjacent dotted keys sharing a prefix are regrouped -/
example : nestRun true (strBytes "a.b = 1\nc = 2\na.d = 3\n") = false ∧
    (parseCst (strBytes "a.b = 1\nc = 2\na.d = 3\n")).map (printDoc (strBytes "a.b = 1\nc = 2\na.d = 3\n"))
      = some (strBytes "a.b = 1\na.d = 3\nc = 2\n") := by decide +kernel

/-- the class is sufficient, not necessary: sections out of pre-order (`[a]`, `[c]`, `[a.b]`)
    print back exactly (the printer sorts by position) but fail the check "names the last item" -/
example : nestRun true (strBytes "[a]\n[c]\n[a.b]\n") = false ∧
    (parseCst (strBytes "[a]\n[c]\n[a.b]\n")).map preorderDoc = some false ∧
    (parseCst (strBytes "[a]\n[c]\n[a.b]\n")).map (printDoc (strBytes "[a]\n[c]\n[a.b]\n"))
      = some (strBytes "[a]\n[c]\n[a.b]\n") := by decide +kernel

end TomlVerif.Props.C03Nest
