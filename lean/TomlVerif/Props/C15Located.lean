import TomlVerif.Lemmas.DeLocated15d
import TomlVerif.Lemmas.DeLocated15g
import TomlVerif.Props.C14Doc
import TomlVerif.Props.C15
/-! C15, second sentence: "Errors raised while deserializing a syntactically valid document into a Rust type are located
    too: they carry the offending value's span when the source text is available, and its key path otherwise."

    `decodeLoc` (Model/DeLocated.lean) is `decodeEdit` run on the tree WITH the spans the parser recorded, returning the
    `span` and `keys` of `toml_edit::de::Error`; it is tied to the three deserializer routes by the `c15d` stream
    (tools/props/c15loc.py: verdict, value, span and keys, with and without source).

      T15_loc_erases          forgetting locations, `decodeLoc` IS `decodeEdit` (the model tied to the code by C13)
      T15_loc_keys_is_path    every error obeys the locating rule `Loc`; its keys are a path of the document (`KeyPath`)
      T15_loc_span_is_node    its span is a span the parser recorded in the document (`nodeSpans`)
      T15_loc_span_present    when the node decoded has a span, every error has one — EXCEPT for the targets `Date` / `Time`
                              themselves, whose shape test runs after the deserializer returned (counterexamples below)
      T15_loc_elem_precise    a failing element of a `Vec` is located inside that element, never at the enclosing array
      T15_loc_nosource        on the despanned tree (no source) every error has `span = none`
      T15_loc_renders         with `T14_bounds`: the span of an error on a parsed document lies in the text, start ≤ end,
                              and `Display` renders it (`displayIndices … ≠ none`, the hypothesis of `T15_render_total`)

    FALSE as first stated, with counterexamples (all confirmed on the real code, replay lines in the `example`s):
      * "every error has a span when the source is available": `toml::from_str::<Date>` on a table holding the private
        date-time key — no span, no keys (`ex_date_root`).
      * "the keys are a path of table entries": the variant key of an enum and the index keys of a tuple variant's table are
        passed without `add_key`: for `a = { V = { x = "s" } }` into `struct { a: enum { V { x: i32 } } }` the keys are
        `a.x`, and the document has no `a.x` (`ex_variant_key_omitted`). `KeyPath` therefore has the steps `variant` / `index`.
      * "the span is the offending value's": `Vec<Date>` with a date-time element reported the ARRAY's span. REPAIRED in the
        code (`ArraySeqAccess::next_element_seed` now sets the element's span); the model follows, `T15_loc_elem_precise`
        states the repaired behaviour and `ex_date_in_vec` shows the element's span 17..37. -/
namespace TomlVerif.Props.C15Located
open TomlVerif TomlVerif.Model TomlVerif.Model.DeTyped TomlVerif.Model.Cst TomlVerif.Model.DeLocated
open TomlVerif.Lemmas.DeLocated15 TomlVerif.Lemmas.Cst03 TomlVerif.Model.ErrorPos

/-! ## (a) the located model refines the unlocated one -/

/-- T15_loc_erases: for every target type whose structs have distinct field names, every tree and both map flavours,
`decodeLoc` with the location forgotten is `decodeEdit` (the code as it stands) on the tree without layout: same verdict,
same value. -/
theorem T15_loc_erases (fl : TomlValue.Flavour) (ty : Ty) (it : SItem) (hw : wfTy ty = true) :
    toR (decodeLoc fl ty it) = decodeEdit editAsIs fl ty (eraseItem it) :=
  erase_ty fl ty it hw

theorem T15_loc_erases_ok (fl : TomlValue.Flavour) (ty : Ty) (it : SItem) (hw : wfTy ty = true) (d : Dec) :
    decodeLoc fl ty it = .ok d ↔ decodeEdit editAsIs fl ty (eraseItem it) = .ok d := by
  rw [← T15_loc_erases fl ty it hw]
  cases decodeLoc fl ty it <;> simp [toR, fail]

/-! ## (c) the keys are a path of the document -/

/-- `KeyPath it ks`: reading the table entries named `ks` in this order leads from `it` to a node of the tree; array
elements, the single entry of a one-entry table (an enum's variant) and entries with a numeric key (a tuple variant's
components) may be passed without being named -/
inductive KeyPath : CItem → List Bytes → Prop where
  | here (it : CItem) : KeyPath it []
  | entry {it : CItem} {es : List (CKey × CItem)} {k : CKey} {v : CItem} {ks : List Bytes} :
      citemEntries it = some es → (k, v) ∈ es → KeyPath v ks → KeyPath it (k.key :: ks)
  | elem {it : CItem} {l : List CItem} {v : CItem} {ks : List Bytes} :
      citemElems it = some l → v ∈ l → KeyPath v ks → KeyPath it ks
  | variant {it : CItem} {k : CKey} {v : CItem} {ks : List Bytes} :
      citemEntries it = some [(k, v)] → KeyPath v ks → KeyPath it ks
  | index {it : CItem} {es : List (CKey × CItem)} {k : CKey} {v : CItem} {ks : List Bytes} :
      citemEntries it = some es → (k, v) ∈ es → (parseUsize k.key).isSome = true → KeyPath v ks → KeyPath it ks

theorem keyPath_of_loc {it : CItem} {ks : List Bytes} {o : Option Span} (h : Loc it ks o) : KeyPath it ks := by
  induction h with
  | pending it => exact .here it
  | key _ _ => exact .here _
  | entry hc hm _ ih => exact .entry hc hm ih
  | elem hl hm _ ih => exact .elem hl hm ih
  | variant hc _ ih => exact .variant hc ih
  | index hc hm hp _ ih => exact .index hc hm hp ih
  | fallback _ ih => exact ih

/-- T15_loc_keys_is_path: every error of the located decoder obeys the rule `Loc` (Lemmas/DeLocated15e.lean: the keys are
the entries passed, the span is that of the innermost enclosing deserializer boundary that has one, or of a key of the node
reached), for ANY tree — with the parser's spans (source) and despanned (no source) alike; in particular its keys are a
`KeyPath` of the tree. -/
theorem T15_loc_keys_is_path (fl : TomlValue.Flavour) (ty : Ty) (it : SItem) (e : LErr)
    (h : decodeLoc fl ty it = .error e) : Loc it e.keys e.span ∧ KeyPath it e.keys :=
  ⟨loc_ty fl ty it e h, keyPath_of_loc (loc_ty fl ty it e h)⟩

/-! ## (b) the span is a node's -/

/-- T15_loc_span_is_node: the span of an error is one of the spans the parser recorded in the node decoded (the span of a
value, a key, a table or an array of tables; `nodeSpans` is `allSpans` of C14 restricted to the item). -/
theorem T15_loc_span_is_node (fl : TomlValue.Flavour) (ty : Ty) (it : SItem) (e : LErr) (sp : Span)
    (h : decodeLoc fl ty it = .error e) (hs : e.span = some sp) : sp ∈ nodeSpans it :=
  loc_span_mem (loc_ty fl ty it e h) sp hs

theorem atSpan_some {α} (s : Span) (x : LR α) (e : LErr) (h : atSpan (some s) x = .error e) : e.span.isSome = true := by
  cases x with
  | ok a => cases h
  | error e0 =>
    simp only [atSpan, Except.error.injEq] at h
    subst h
    cases hs : e0.span <;> simp [hs]

/-- T15_loc_span_present: if the node decoded has a span (the root of a parsed document has: `0..`), every error has a
span, whatever the target type — except the targets `Date` / `Time` themselves and `toml::Value` (for which see
`T15_loc_keys_is_path`; its errors come from inside the tree). -/
theorem T15_loc_span_present (fl : TomlValue.Flavour) (ty : Ty) (it : SItem) (e : LErr) (s : Span)
    (hsp : it.span = some s) (hd : ty ≠ .date) (ht : ty ≠ .time) (hv : ty ≠ .value)
    (h : decodeLoc fl ty it = .error e) : e.span.isSome = true := by
  cases ty with
  | date => exact absurd rfl hd
  | time => exact absurd rfl ht
  | value => exact absurd rfl hv
  | ignored => unfold decodeLoc at h; cases h
  | datetime =>
    unfold decodeLoc dtLoc at h
    cases hc : dtCore it with
    | ok d => rw [hc] at h; simp [shapeCheck] at h
    | error e0 =>
      rw [hc] at h; cases h
      unfold dtCore at hc
      rw [hsp] at hc
      split at hc <;> exact atSpan_some s _ _ hc
  | _ => unfold decodeLoc at h; rw [hsp] at h; exact atSpan_some s _ _ h

/-! ## (d) composition with C14 and with the rendering of C15 -/

/-- T15_loc_renders: on a parsed document, the span of a deserialization error satisfies `start ≤ end ≤ length` (from
`T14_bounds`) and `Display for TomlError` renders it: `displayIndices` is defined (the statement of `T15_render_total`, for
this span instead of a parser's `char_span`). -/
theorem T15_loc_renders (fl : TomlValue.Flavour) (ty : Ty) (s : Bytes) (d : CDoc) (e : LErr) (a b : Nat)
    (hp : parseCst s = some d) (h : decodeLoc fl ty (.table d.root) = .error e) (hs : e.span = some (a, b)) :
    a ≤ b ∧ b ≤ s.length ∧ (displayIndices s a b).isSome = true := by
  have hm : (a, b) ∈ nodeSpans (.table d.root) := T15_loc_span_is_node fl ty _ e (a, b) h hs
  have hall : (a, b) ∈ allSpans d := by
    unfold allSpans
    exact List.mem_append_left _ hm
  have hb := Props.C14.T14_bounds s d hp (a, b) hall
  exact ⟨hb.1, hb.2, (Props.C15.T15_render_isSome_iff s a b).mpr hb.1⟩

/-! ## no source: no span -/

/-- T15_loc_nosource: on the despanned tree (what a `Deserializer` made from a `DocumentMut` holds) every error has
`span = none` — the key path (`T15_loc_keys_is_path`) is all that locates it. -/
theorem T15_loc_nosource (fl : TomlValue.Flavour) (ty : Ty) (it : SItem) (e : LErr)
    (h : decodeLoc fl ty (despanItem it) = .error e) : e.span = none := by
  cases hs : e.span with
  | none => rfl
  | some sp =>
    have := T15_loc_span_is_node fl ty (despanItem it) e sp h hs
    rw [despanItem_spans] at this
    cases this

/-! ## a failing element is located inside the element -/

/-- the spans recorded inside a node lie inside the node's own span (for values this is `NestV` of C14,
`encl_of_nestV`; `T14_value_enclosure` / `T14_doc_nesting` give it for every value of a parsed document) -/
def Encl (it : CItem) : Prop := ∀ a, it.span = some a → ∀ sp ∈ childSpans it, a.1 ≤ sp.1 ∧ sp.2 ≤ a.2

theorem encl_of_nestV (v : CVal) (h : TomlVerif.Lemmas.Spans14.NestV v) : Encl (.value v) := by
  intro a ha sp hsp
  cases v with
  | scalar x r d => simp [childSpans] at hsp
  | arr items t c d s =>
    simp only [TomlVerif.Lemmas.Spans14.NestV] at h
    simp only [CItem.span, CVal.span] at ha
    have := h.1 a ha sp (List.mem_append_left _ hsp)
    exact ⟨this.1, this.2.2⟩
  | inl items p i dt d s =>
    simp only [TomlVerif.Lemmas.Spans14.NestV] at h
    simp only [CItem.span, CVal.span] at ha
    have := h.2.1 a ha sp (List.mem_append_left _ hsp)
    exact ⟨this.1, this.2.2⟩

theorem mapL_first_error {α β} (f : α → LR β) (x : α) (post : List α) (e : LErr) (hx : f x = .error e) :
    ∀ pre : List α, (∀ y ∈ pre, ∃ d, f y = .ok d) → mapL f (pre ++ x :: post) = .error e
  | [], _ => by simp [mapL, hx, lcons]
  | y :: r, h => by
    obtain ⟨d, hd⟩ := h y (List.mem_cons_self ..)
    have ih := mapL_first_error f x post e hx r fun z hz => h z (List.mem_cons_of_mem _ hz)
    simp [mapL, hd, ih, lcons]

/-- T15_loc_elem_precise: `Vec<T>` read from an array (or an array of tables) whose element `x` — after elements that
decode — fails to decode: the error of the whole is the element's error with the ELEMENT's span filled in if it had none;
it has a span, that span lies inside the span of `x` (never the enclosing array's), and the keys are those of the element's
error. (`Encl x`: what C14 proves of every parsed value.) -/
theorem T15_loc_elem_precise (fl : TomlValue.Flavour) (t : Ty) (it x : SItem) (pre post : List SItem) (ex : LErr) (a : Span)
    (hl : citemElems it = some (pre ++ x :: post))
    (hpre : ∀ y ∈ pre, ∃ d, decodeLoc fl t y = .ok d)
    (hx : decodeLoc fl t x = .error ex) (hsp : x.span = some a) (henc : Encl x) :
    ∃ sp, decodeLoc fl (.seq t) it = .error ⟨some sp, ex.keys⟩ ∧ a.1 ≤ sp.1 ∧ sp.2 ≤ a.2 ∧
      (ex.span = none → sp = a) ∧ (∀ s, ex.span = some s → sp = s) := by
  have hloc := loc_ty fl t x ex hx
  -- the element's error as `next_element_seed` returns it
  have hsome : ∃ sp, atSpan x.span (decodeLoc fl t x) = .error ⟨some sp, ex.keys⟩ ∧ a.1 ≤ sp.1 ∧ sp.2 ≤ a.2 ∧
      (ex.span = none → sp = a) ∧ (∀ s, ex.span = some s → sp = s) := by
    rw [hx, hsp]
    cases hs : ex.span with
    | none =>
      refine ⟨a, by simp [atSpan, hs], Nat.le_refl _, Nat.le_refl _, fun _ => rfl, ?_⟩
      intro s h; cases h
    | some s =>
      have hin : a.1 ≤ s.1 ∧ s.2 ≤ a.2 := by
        rcases loc_span_child hloc s hs with h | h
        · rw [hsp] at h; cases h; exact ⟨Nat.le_refl _, Nat.le_refl _⟩
        · exact henc a hsp s h
      refine ⟨s, ?_, hin.1, hin.2, ?_, ?_⟩
      · simp only [atSpan, hs, Option.isNone_some, Bool.false_eq_true, if_false]
        congr 1
        cases ex; simp_all
      · intro h; cases h
      · intro s' h; cases h; rfl
  obtain ⟨sp, herr, h1, h2, h3, h4⟩ := hsome
  refine ⟨sp, ?_, h1, h2, h3, h4⟩
  have hm := mapL_first_error (fun i => atSpan i.span (decodeLoc fl t i)) x post _ herr pre (by
    intro y hy
    obtain ⟨d, hd⟩ := hpre y hy
    exact ⟨d, by simp [hd, atSpan]⟩)
  unfold decodeLoc
  rw [hl]
  simp only [hm]
  rfl

/-! ## examples (non-vacuity) and counterexamples -/

def key (s : String) (a b : Nat) : CKey := { key := strBytes s, repr := .spanned a b }
def strV (s : String) (a b : Nat) : CItem := .value (.scalar (.str (strBytes s)) (.spanned a b) {})
def i32 : Ty := .int (-2147483648) 2147483647
def errOf (x : LR Dec) : Option LErr := match x with | .error e => some e | .ok _ => none

/-- `a = "x"` into `struct { a: i32 }`: the value's span, the key `a` — `loc S S(61:i32) 61203d202278220a` -/
def exLeafDoc : CItem := .table (.mk [(key "a" 0 1, strV "x" 4 7)] false false (some 0) {} (some (0, 7)))
example : errOf (decodeLoc .sorted (.struct (.cons (strBytes "a") i32 false .nil)) exLeafDoc) = some ⟨some (4, 7), [strBytes "a"]⟩ := by
  decide +kernel
example : wfTy (.struct (.cons (strBytes "a") i32 false .nil)) = true := by decide
example : exLeafDoc.span = some (0, 7) := rfl

/-- the same despanned: no span, the same key -/
example : errOf (decodeLoc .sorted (.struct (.cons (strBytes "a") i32 false .nil)) (despanItem exLeafDoc)) = some ⟨none, [strBytes "a"]⟩ := by
  decide +kernel

/-- ex_variant_key_omitted: `a = { V = { x = "s" } }` into `struct { a: enum { V { x: i32 } } }`: keys `a.x`, not `a.V.x`
(real code: `loc S S(61:E(56:S(78:i32))) 61203d207b2056203d207b2078203d20227322207d207d0a` → `span=16..19 keys=61.78`) -/
def exVariantDoc : CItem :=
  .table (.mk [(key "a" 0 1, .value (.inl [(key "V" 6 7, .inl [(key "x" 12 13, .scalar (.str (strBytes "s")) (.spanned 16 19) {})]
    .empty false false {} (some (10, 21)))] .empty false false {} (some (4, 23))))] false false (some 0) {} (some (0, 23)))
example : errOf (decodeLoc .sorted (.struct (.cons (strBytes "a")
      (.enum (.cons (strBytes "V") (.struct (.cons (strBytes "x") i32 false .nil)) .nil)) false .nil)) exVariantDoc) =
    some ⟨some (16, 19), [strBytes "a", strBytes "x"]⟩ := by
  decide +kernel

/-- ex_date_root: the target `Date` on the root table `"$__toml_private_datetime" = "1979-05-27T07:32:00Z"` (in the model:
any table whose first entry is the private key with a date-time text): the error has NO span and no keys although the root
has a span (real code: `loc S da 22245f5f746f6d6c5f707269766174655f6461746574696d6522203d2022313937392d30352d32375430373a33323a30305a220a`
→ `td=err span=none keys=-`). So `T15_loc_span_present` needs its exception. -/
def exDateRoot : CItem :=
  .table (.mk [({ key := DeRoutes.FIELD, repr := .spanned 0 26 }, strV "1979-05-27T07:32:00Z" 29 51)] false false (some 0) {} (some (0, 51)))
example : errOf (decodeLoc .sorted .date exDateRoot) = some ⟨none, []⟩ := by decide +kernel

/-- ex_date_in_vec: `a = [1979-05-27, 1979-05-27T07:32:00Z]` into `struct { a: Vec<Date> }`: the second ELEMENT's span
17..37 (before the repair of `ArraySeqAccess::next_element_seed`: the array's, 4..38). Real code, HEAD 5464586:
`loc S S(61:V(da)) 61203d205b313937392d30352d32372c20313937392d30352d32375430373a33323a30305a5d0a` → `span=17..37 keys=61`. -/
def exDateVecText : Bytes :=
  [0x61, 0x20, 0x3d, 0x20, 0x5b, 0x31, 0x39, 0x37, 0x39, 0x2d, 0x30, 0x35, 0x2d, 0x32, 0x37, 0x2c, 0x20, 0x31, 0x39, 0x37, 0x39,
   0x2d, 0x30, 0x35, 0x2d, 0x32, 0x37, 0x54, 0x30, 0x37, 0x3a, 0x33, 0x32, 0x3a, 0x30, 0x30, 0x5a, 0x5d, 0x0a]
example : (parseCst exDateVecText).map (fun d =>
      errOf (decodeLoc .sorted (.struct (.cons [0x61] (.seq .date) false .nil)) (.table d.root))) =
    some (some ⟨some (17, 37), [[0x61]]⟩) := by decide +kernel
/-- the same without source: no span, the key -/
example : (parseCst exDateVecText).map (fun d =>
      errOf (decodeLoc .sorted (.struct (.cons [0x61] (.seq .date) false .nil)) (despanItem (.table d.root)))) =
    some (some ⟨none, [[0x61]]⟩) := by decide +kernel

end TomlVerif.Props.C15Located
