import TomlVerif.Props.C03MoreSum
import TomlVerif.Props.C03MoreSem
import TomlVerif.Props.C03MoreNad
import TomlVerif.Props.C03MoreTko
import TomlVerif.Props.C03MoreGen
import TomlVerif.Props.C03MoreGen2
import TomlVerif.Props.C03MoreGen3
import TomlVerif.Lemmas.Tiling03MoreOrdEx
import TomlVerif.Lemmas.Tiling03MoreSemEx
import TomlVerif.Lemmas.Tiling03MoreNadEx
import TomlVerif.Lemmas.Tiling03MoreGenEx
import TomlVerif.Lemmas.Tiling03MoreComments
/-! C03, continued — index of `Props/C03More*.lean` (import this one module).

    Exact print-back (byte for byte / the three normalisations / fixed point), classes by
    inclusion, all SOURCE-side and decidable:
      `nestRun false` ⊆ `nestRun true` (C03Nest, `preorderDoc` now derived: `T03_preorder_of_run`,
      `T03_doc_tiling_source`) ⊆ `nestRunV` (dotted keys inside inline tables:
      `T03_doc_tiling_sourceV`, value level `T03_value_tiling_dotted_inline`) ⊆ `ordRunV`
      (sections in any order: `T03_doc_tiling_ord`).
    Valid + same tree (flags, positions), no hypothesis on BOM / CR / final newline / spelling /
    values: `ordRunV` ⊆ `adjRun` (`T03_same_data_adjacent`) ⊆ `nadRun` (non-adjacent dotted keys:
    `T03_same_data_nonadjacent`), `adjRun` ⊆ `tkoRun` (`[t]` taking over an implicit table:
    `T03_same_data_takeover`), both ⊆ `genRun` (`T03_same_data_general_class`) ⊆ `genRun2` (headers through dotted-key
    tables: `T03_same_data_general_class2`, C03MoreGen3).
    For every accepted document: `T03_cst_erases_to_doc`, `T03_comments_kept`; for every accepted
    value: `T03_value_same_data`.  False: `T03_same_data_statement`
    (`T03_same_data_counterexample`), `T03_same_plain_ordered_statement`; open:
    `T03_same_plain_statement`. -/
