import TomlVerif.Lemmas.Depth05DocB
import TomlVerif.Props.C05
/-! # C05 at document level — no accepted document decodes to a tree deeper than `3 * LIMIT - 2`

`Props/C05.lean` bounds the nesting of one *value* (`nest v < LIMIT`).  Here the bound is carried through the line
driver and the definition state machine (`Model/Doc.lean`, `Model/State.lean`): headers, arrays of tables, dotted keys
and values together.

`nestTbl T` is the nesting depth of a decoded table: one level for the table plus its deepest entry; an entry that is
a value counts `nest v`, a sub-table its own depth, an array of tables one level for the array plus its deepest table.

Why `3 * LIMIT - 2` (= 238):
* a header path has fewer than `LIMIT` keys (`T05_keypath_len`); every table or array of tables a header makes
  (explicitly or on the way) therefore sits at most `LIMIT - 1` keys below the root, and each of these keys may be an
  array of tables, which costs two levels (array + element): `2 * (LIMIT - 1)` levels;
* inside the table a header opened, a dotted key `k₁.….kₘ = v` is parsed with the value at recursion depth `m - 1`,
  so `(m - 1) + nest v < LIMIT` (`T05_value_depth`): together with the level of the header table itself at most
  `LIMIT` levels.
The model lets a header extend a table made by a dotted key (`[a]`, `b.c = 1`, `[a.b.d]` is accepted), so header-made
and dotted-made tables can alternate on one branch; the invariant (`OkTbl`, `Lemmas/Depth05DocA.lean`) tracks for each
table both the number of keys from the root and the number of dotted-made tables since the last header-made one.
The bound is reached (`T05_document_depth_tight`, `Props/C05DocTight.lean`). -/
namespace TomlVerif.Props.C05Doc
open TomlVerif TomlVerif.Spec TomlVerif.Model TomlVerif.Model.Value
open TomlVerif.Lemmas.Depth05 TomlVerif.Lemmas.Depth05Doc

/-- the depth functions (defined in `Lemmas/Depth05DocA.lean`, structurally, as `nest` is) -/
example (v : Val) : nestItem (.value v) = nest v := by rw [nestItem]
example (t : Tbl) : nestItem (.table t) = nestTbl t := by rw [nestItem]
example (ts : List Tbl) : nestItem (.aot ts) = 1 + nestTbls ts := by rw [nestItem]
example (items : List (Bytes × Item)) (a b : Bool) (p : Option Nat) : nestTbl (.mk items a b p) = 1 + nestItems items := by
  rw [nestTbl]
example (k : Bytes) (it : Item) (r : List (Bytes × Item)) : nestItems ((k, it) :: r) = max (nestItem it) (nestItems r) := by
  rw [nestItems]
example (t : Tbl) (r : List Tbl) : nestTbls (t :: r) = max (nestTbl t) (nestTbls r) := by rw [nestTbls]
example : nestItems [] = 0 ∧ nestTbls [] = 0 := ⟨by rw [nestItems], by rw [nestTbls]⟩

/-- the bound on the whole decoded tree -/
def K : Nat := 3 * LIMIT - 2

example : K = 238 := by decide

/-- what the state machine guarantees about the tree it returns: see `OkItem` -/
theorem T05_document_shape (s : Bytes) (T : Tbl) (h : Doc.parseDocument s = some T) : OkTbl T 0 0 :=
  parseDocument_ok s T h

/-- **every accepted document decodes to a tree at most `3 * LIMIT - 2` levels deep** -/
theorem T05_document_depth (s : Bytes) (T : Tbl) (h : Doc.parseDocument s = some T) : nestTbl T ≤ K :=
  nestTbl_root_le T (parseDocument_ok s T h)

/-- the same from the slice entry point -/
theorem T05_slice_depth (b : Bytes) (T : Tbl) (h : Doc.parseSlice b = some T) : nestTbl T ≤ K := by
  unfold Doc.parseSlice at h
  split at h
  · exact T05_document_depth b T h
  · cases h

/-- every value anywhere in an accepted document nests less than `LIMIT`, whatever it sits under: at the top level … -/
theorem T05_document_top_values (s : Bytes) (T : Tbl) (k : Bytes) (v : Val) (h : Doc.parseDocument s = some T)
    (hk : alookup k T.items = some (.value v)) : nest v < LIMIT := by
  have := (okItem_value v 0 0).1 (ok_item T 0 0 k _ (parseDocument_ok s T h) hk)
  omega

/-- … and every table entry of the root made by a header is again a tree of the same kind one key further down -/
theorem T05_document_sub (s : Bytes) (T sub : Tbl) (k : Bytes) (h : Doc.parseDocument s = some T)
    (hk : alookup k T.items = some (.table sub)) (hd : sub.dotted = false) : OkTbl sub 1 0 :=
  (((okItem_table sub 0 0).1 (ok_item T 0 0 k _ (parseDocument_ok s T h) hk)).2 hd).2

/-! ## non-vacuity -/

/-- headers, an array of tables, dotted keys, an array holding an inline table -/
def exText : Bytes := strBytes "t = [[1]]\n[a.b]\nc.d = [{e=1}]\n[[a.x]]\ny = 1\n[[a.x]]\n[a.b.c.h]\nz.w = 2\n"

/-- accepted, and 6 levels deep: the tables root, `a`, `b`, `c` (dotted-made), `h` (header-made inside `c`), `z`
    (dotted-made); the scalar under `w` adds none -/
example : (Doc.parseDocument exText).map nestTbl = some 6 := by decide +kernel

example : ∃ T, Doc.parseDocument exText = some T ∧ nestTbl T ≤ K := by
  cases h : Doc.parseDocument exText with
  | none => have : (Doc.parseDocument exText).isSome = true := by decide +kernel
            rw [h] at this; cases this
  | some T => exact ⟨T, rfl, T05_document_depth exText T h⟩

/-- the hypotheses of `T05_document_top_values` / `T05_document_sub` are met: `t` is a value of the root, `a` a
    header-made table -/
example : ((Doc.parseDocument exText).bind fun T => alookup (strBytes "t") T.items).map
      (fun it => match it with | .value v => nest v | _ => 0) = some 2 ∧
    ((Doc.parseDocument exText).bind fun T => alookup (strBytes "a") T.items).map
      (fun it => match it with | .table sub => !sub.dotted | _ => false) = some true := by decide +kernel

/-- a header may extend a table made by a dotted key in this model (and in the code it transliterates), so header-made
    and dotted-made tables alternate on one branch: accepted, 5 levels (root, `a`, `b`, `d`, and the array) -/
example : (Doc.parseDocument (strBytes "[a]\nb.c = 1\n[a.b.d]\ne = [2]\n")).map nestTbl = some 5 := by decide +kernel

/-! ## the family that reaches the bound -/

/-- `c.c.….c` with `n + 1` components -/
def dotPath (c : UInt8) : Nat → Bytes
  | 0 => [c]
  | n + 1 => c :: 0x2E :: dotPath c n

/-- `[[a]]⏎[[a.a]]⏎…⏎[[a.….a]]⏎`, the last with `n` components: every key on the way is an array of tables -/
def aotLines : Nat → Bytes
  | 0 => []
  | n + 1 => aotLines n ++ (0x5B :: 0x5B :: dotPath 0x61 n ++ [0x5D, 0x5D, 0x0A])

/-- `aotLines m` followed by `b.….b=[]` with `k + 1` components -/
def deepDoc (m k : Nat) : Bytes := aotLines m ++ (dotPath 0x62 k ++ [0x3D, 0x5B, 0x5D])

example : deepDoc 2 1 = strBytes "[[a]]\n[[a.a]]\nb.b=[]" := by decide +kernel

/-- small members: `2 * m` levels for the arrays of tables, one for the last table, `k` for the dotted tables, one for
    the empty array, one for the root -/
example : (Doc.parseDocument (deepDoc 2 1)).map nestTbl = some 7 := by decide +kernel
example : (Doc.parseDocument (deepDoc 3 2)).map nestTbl = some 10 := by decide +kernel
example : (Doc.parseDocument (deepDoc 10 20)).map nestTbl = some 42 := by decide +kernel

end TomlVerif.Props.C05Doc
