import TomlVerif.Lemmas.Ser07
/-! C07 — serializing a serde value either returns an error or yields TOML data equal to the
    documented image of the value; an error is returned only for the documented unsupported
    shapes; nothing is dropped or altered.

    What is proved here is the serialization half, on the model of
    `toml_edit::ser` / `toml::ser` / the two formatting visitors / `Display for DocumentMut`
    (`Model/Ser.lean`), against the documented mapping `Spec.Serde.expected`.
    The deserialization half (reading the text back into the same Rust type) is exercised by
    the harness on the declared type family, not modelled.

    Three places where the code as it stands does NOT satisfy the statement are recorded as
    `T07_finding_*` theorems with their concrete witnesses. -/
namespace TomlVerif.Props.C07
open TomlVerif TomlVerif.Model TomlVerif.Model.Ser TomlVerif.Spec TomlVerif.Spec.Serde
open TomlVerif.Lemmas.Ser07

/-! ### the value serializer -/

/-- nothing dropped or altered at the tree level: what `ValueSerializer` returns is the
    documented image -/
theorem T07_tree (v : SVal) (t : V) (h : serValue v = .ok t) : expected v = some t := by
  rw [← serValue_opt v, h]; rfl

/-- and every value that has an image is serialized to it -/
theorem T07_tree_complete (v : SVal) (t : V) (h : expected v = some t) : serValue v = .ok t := by
  have := serValue_opt v
  rw [h] at this
  cases hs : serValue v with
  | error e => rw [hs] at this; cases this
  | ok x => rw [hs] at this; simp only [Except.toOption, Option.some.injEq] at this; rw [this]

/-- an error exactly for the documented unsupported shapes -/
theorem T07_errors (v : SVal) : (∃ e, serValue v = .error e) ↔ unsupported v = true := by
  rw [← expected_none v, ← serValue_opt v]
  cases serValue v with
  | error e => simp [Except.toOption]
  | ok x => simp [Except.toOption]

/-- the image is undefined exactly on the documented unsupported shapes -/
theorem T07_expected_defined (v : SVal) : (∃ t, expected v = some t) ↔ unsupported v = false := by
  rw [← expected_none v]
  cases expected v <;> simp

/-! ### printing: no visitor, `DocumentFormatter`, `Pretty` -/

/-- `to_string` (no visitor): the printed document reads back as the serialized tree -/
theorem T07_format_plain (kvs : List (Bytes × V)) : shownRoot (embedKVs kvs) = kvs :=
  shownTbl_embed kvs

/-- `toml::fmt::DocumentFormatter` (plain and pretty differ only in array layout): turning
    inline tables into `[tables]` and arrays of them into `[[arrays of tables]]`, stopping below
    values, leaves the printed data unchanged -/
theorem T07_format_toml (kvs : List (Bytes × V)) : shownRoot (visitRoot true kvs) = kvs :=
  shownTbl_visit kvs

/-- the statement for `toml_edit::ser::pretty::Pretty`, with (`guard = true`) or without
    (`guard = false`, the code as it stands) the `is_value` guard -/
def T07_format_pretty (guard : Bool) : Prop :=
  ∀ kvs : List (Bytes × V), shownRoot (visitRoot guard kvs) = kvs

/-- holds once the guard of `DocumentFormatter` is ported -/
theorem T07_format_pretty_guarded : T07_format_pretty true := shownTbl_visit

/-- smallest witness of F5: `v = [1, { k = {} }]` -/
def f5Tree : List (Bytes × V) := [([0x76], .arr [.sc (.int 1), .inl [([0x6b], .inl [])]])]

/-- F5: without the guard the table below the array value is converted to a standard table
    inside an inline table, which `encode_table` does not print: `v = [1, {}]` -/
theorem T07_finding_pretty_shown :
    shownRoot (visitRoot false f5Tree) = [([0x76], .arr [.sc (.int 1), .inl []])] := by
  simp [f5Tree, shownRoot, visitRoot, visitKVs, visitItem, visitArr, visitValue, allInl, isInl,
    shownTbl, shownArr, shownInl]

/-- F5: `T07_format_pretty` is false for the code as it stands -/
theorem T07_finding_pretty : ¬ T07_format_pretty false := by
  intro h
  have h1 := h f5Tree
  rw [T07_finding_pretty_shown] at h1
  simp [f5Tree] at h1

/-! ### the routes, end to end -/

/-- `toml_edit::ser::to_string`: what is printed is the image of the value -/
theorem T07_route_edit (v : SVal) (kvs : List (Bytes × V)) (h : routeEdit v = .ok kvs) :
    expected v = some (.inl kvs) := by
  unfold routeEdit serDocument at h
  cases hs : serValue v with
  | error e => rw [hs] at h; cases h
  | ok t =>
    rw [hs] at h
    cases t with
    | sc s => cases h
    | arr xs => cases h
    | inl l =>
      simp only [Except.ok.injEq] at h
      rw [T07_format_plain] at h
      rw [T07_tree v _ hs, h]

/-- the root is not a table: the image exists but is a scalar or an array -/
def nonTableRoot (v : SVal) : Prop := ∃ t, expected v = some t ∧ isInl t = false

/-- `toml_edit::ser::to_string` fails only on an unsupported shape or a non-table root -/
theorem T07_route_edit_errors (v : SVal) (e : SerErr) (h : routeEdit v = .error e) :
    unsupported v = true ∨ nonTableRoot v := by
  unfold routeEdit serDocument at h
  cases hs : serValue v with
  | error e' => exact .inl ((T07_errors v).1 ⟨e', hs⟩)
  | ok t =>
    rw [hs] at h
    cases t with
    | sc s => exact .inr ⟨_, T07_tree v _ hs, rfl⟩
    | arr xs => exact .inr ⟨_, T07_tree v _ hs, rfl⟩
    | inl l => cases h

/-- `toml_edit::ser::to_string_pretty` once the guard is ported -/
theorem T07_route_edit_pretty_guarded (v : SVal) (kvs : List (Bytes × V))
    (h : routeEditPretty true v = .ok kvs) : expected v = some (.inl kvs) := by
  unfold routeEditPretty serDocument at h
  cases hs : serValue v with
  | error e => rw [hs] at h; cases h
  | ok t =>
    rw [hs] at h
    cases t with
    | sc s => cases h
    | arr xs => cases h
    | inl l =>
      simp only [Except.ok.injEq] at h
      rw [T07_format_toml] at h
      rw [T07_tree v _ hs, h]

/-- F5 as a serde value: `struct W { v: (i64, BTreeMap<String, BTreeMap<String, i64>>) }`,
    `W { v: (1, {"k": {}}) }` -/
def f5Value : SVal :=
  .struct [0x57] [([0x76], .tuple [.int .i64 1, .map [(.str [0x6b], .map [])]])]

/-- F5: `to_string_pretty` returns a document that lost the entry `k`, while the value has the
    image `v = [1, { k = {} }]` -/
theorem T07_finding_pretty_route :
    routeEditPretty false f5Value = .ok [([0x76], .arr [.sc (.int 1), .inl []])] ∧
    expected f5Value = some (.inl f5Tree) := by
  constructor
  · with_unfolding_all rfl
  · with_unfolding_all rfl

/-- `toml::to_string` / `toml::to_string_pretty`: what is printed is the image of the value,
    unless the root is the date-time struct (see `T07_finding_toml_root_datetime`);
    `byName = false` is the code as it stands -/
theorem T07_route_toml (byName : Bool) (v : SVal) (kvs : List (Bytes × V))
    (hd : byName = true ∨ datetimeRoot v = false)
    (h : routeToml byName v = .ok kvs) : expected v = some (.inl kvs) := by
  unfold routeToml at h
  cases hs : tomlDocument byName v with
  | error e => rw [hs] at h; cases h
  | ok l =>
    rw [hs] at h
    simp only [Except.ok.injEq] at h
    rw [T07_format_toml] at h
    subst h
    have key := tomlDocument_ok byName v l hd hs
    unfold serDocument at key
    cases hv : serValue v with
    | error e => rw [hv] at key; cases key
    | ok t =>
      rw [hv] at key
      cases t with
      | sc s => cases key
      | arr xs => cases key
      | inl l' =>
        simp only [Except.ok.injEq] at key
        rw [T07_tree v _ hv, key]

/-- once `serialize_struct` passes the struct name on, without exception -/
theorem T07_route_toml_repaired (v : SVal) (kvs : List (Bytes × V))
    (h : routeToml true v = .ok kvs) : expected v = some (.inl kvs) :=
  T07_route_toml true v kvs (.inl rfl) h

/-- `toml::to_string` fails only on an unsupported shape, a non-table root, or a struct / tuple
    variant at the root -/
theorem T07_route_toml_errors (byName : Bool) (v : SVal) (e : SerErr) (h : routeToml byName v = .error e) :
    unsupported v = true ∨ nonTableRoot v ∨ variantRoot v = true := by
  have generic : tomlDocument byName v = serDocument v →
      unsupported v = true ∨ nonTableRoot v ∨ variantRoot v = true := by
    intro heq
    unfold routeToml at h
    rw [heq] at h
    have h' : routeEdit v = .error e := by
      unfold routeEdit; revert h; cases serDocument v <;> simp
    exact (T07_route_edit_errors v e h').elim .inl (fun x => .inr (.inl x))
  by_cases hv : variantRoot v = true
  · exact .inr (.inr hv)
  · have hv' : variantRoot v = false := by simpa using hv
    cases byName with
    | true => exact generic (tomlDocument_eq true v hv' (.inl rfl))
    | false =>
      by_cases hs : ∃ n fs, v = .struct n fs
      · obtain ⟨name, fs, rfl⟩ := hs
        by_cases hn : (name == dtName) = true
        · -- the date-time struct: either it has no image, or its image is a scalar
          cases hx : expected (.struct name fs) with
          | none =>
            have := expected_none (.struct name fs)
            rw [hx] at this
            exact .inl this.symm
          | some t =>
            refine .inr (.inl ⟨t, hx, ?_⟩)
            simp only [expected, hn, if_true] at hx
            cases hdt : expectedDatetime fs none with
            | none => rw [hdt] at hx; cases hx
            | some d => rw [hdt] at hx; cases hx; rfl
        · have hn' : (name == dtName) = false := by simpa using hn
          unfold routeToml at h
          simp only [tomlDocument, Bool.false_eq_true, if_false] at h
          cases hq : serFields fs [] with
          | ok l => rw [hq] at h; cases h
          | error e' =>
            refine .inl ((T07_errors _).1 ⟨e', ?_⟩)
            simp only [serValue, hn', Bool.false_eq_true, if_false, hq]
      · exact generic (tomlDocument_eq false v hv' (.inr (by intro n fs e; exact hs ⟨n, fs, e⟩)))

/-! ### findings outside `toml_edit::ser::to_string_pretty` -/

/-- "1979-05-27" -/
def dateText : Bytes := [0x31, 0x39, 0x37, 0x39, 0x2d, 0x30, 0x35, 0x2d, 0x32, 0x37]
def dateValue : Datetime.Datetime := ⟨some ⟨1979, 5, 27⟩, none, none⟩
/-- what `toml_datetime::Datetime` hands to a serializer -/
def datetimeStruct : SVal := .struct dtName [(dtField, .str dateText)]

/-- `toml::to_string(&datetime)` does not report the non-table root: `serialize_struct` ignores
    the struct name, so the private field name is printed as a key -/
theorem T07_finding_toml_root_datetime :
    routeToml false datetimeStruct = .ok [(dtField, .sc (.str dateText))] ∧
    expected datetimeStruct = some (.sc (.dt dateValue)) ∧
    routeEdit datetimeStruct = .error .unsupportedType ∧
    routeToml true datetimeStruct = .error .unsupportedType := by
  refine ⟨?_, ?_, ?_, ?_⟩ <;> with_unfolding_all rfl

/-- `S { v: vec![None], a: 1 }` -/
def noneInSeq : SVal := .struct [0x53] [([0x76], .seq [.none]), ([0x61], .int .i64 1)]

/-- `toml::Value::try_from` / `toml::Table::try_from` drop a field whose value fails with
    `UnsupportedNone` anywhere below it (here `None` inside a sequence), where every other
    route reports the error -/
theorem T07_finding_value_none :
    valSer .current noneInSeq = .ok (.inl [([0x61], .sc (.int 1))]) ∧
    tableSer .current false noneInSeq = .ok [([0x61], .sc (.int 1))] ∧
    valSer ⟨true, true⟩ noneInSeq = .error .unsupportedNone ∧
    unsupported noneInSeq = true ∧
    serValue noneInSeq = .error .unsupportedNone := by
  refine ⟨?_, ?_, ?_, ?_, ?_⟩ <;> with_unfolding_all rfl

/-- `S { w: Datetime }` -/
def datetimeField : SVal := .struct [0x53] [([0x77], datetimeStruct)]

/-- F7 (repaired by 6209b98): `toml::Value::try_from` kept a date-time as the private one-field
    table, where the document routes produce a date-time; now it produces the date-time -/
theorem T07_finding_value_datetime :
    valSer .original datetimeField = .ok (.inl [([0x77], .inl [(dtField, .sc (.str dateText))])]) ∧
    valSer .current datetimeField = .ok (.inl [([0x77], .sc (.dt dateValue))]) ∧
    expected datetimeField = some (.inl [([0x77], .sc (.dt dateValue))]) ∧
    serValue datetimeField = .ok (.inl [([0x77], .sc (.dt dateValue))]) := by
  refine ⟨?_, ?_, ?_, ?_⟩ <;> with_unfolding_all rfl

/-! ### `toml::Value::try_from` -/

/-- every value that has an image, with date-times as `toml_datetime::Datetime` produces them, is
    converted to its image; `fx` = which of the two departures of `toml/src/value.rs` from
    `toml_edit::ser` are repaired -/
def T07_value_tree (fx : ValFix) : Prop :=
  ∀ (v : SVal) (t : V), expected v = some t → wfDatetime v = true → valSer fx v = .ok t

/-- the code as it stands (and with F16 repaired as well) -/
theorem T07_value_tree_current (strictNone : Bool) : T07_value_tree ⟨strictNone, true⟩ :=
  fun v t h hd => valSer_image ⟨strictNone, true⟩ v t h hd

/-- before 6209b98: only for values that hold no date-time -/
theorem T07_value_tree_partial (v : SVal) (t : V) (h : expected v = some t)
    (hd : noDatetime v = true) : valSer .original v = .ok t :=
  valSer_image .original v t h hd

/-- F7 (repaired by 6209b98): `T07_value_tree` was false -/
theorem T07_finding_value_tree : ¬ T07_value_tree .original := by
  intro h
  have h1 := h datetimeField _ T07_finding_value_datetime.2.2.1 (by with_unfolding_all rfl)
  rw [T07_finding_value_datetime.1] at h1
  simp at h1

/-- what is left of F7: `toml::Table::try_from(&datetime)` still answers with the private
    one-field table instead of refusing the non-table root -/
theorem T07_finding_table_root_datetime :
    tableSer .current false datetimeStruct = .ok [(dtField, .sc (.str dateText))] ∧
    valSer .current datetimeStruct = .ok (.sc (.dt dateValue)) ∧
    tableSer .current true datetimeStruct = .error .unsupportedType := by
  refine ⟨?_, ?_, ?_⟩ <;> with_unfolding_all rfl

/-! ### non-vacuity -/

/-- `Config { name: "a", tags: ["x"], kind: Kind::S { n: 1 }, opt: None }` -/
def sample : SVal :=
  .struct [0x43] [([0x6e], .str [0x61]), ([0x74], .seq [.str [0x78]]),
    ([0x6b], .structVariant [0x4b] [0x53] [([0x6e], .int .u8 1)]), ([0x6f], .none)]
def sampleTree : List (Bytes × V) :=
  [([0x6e], .sc (.str [0x61])), ([0x74], .arr [.sc (.str [0x78])]),
   ([0x6b], .inl [([0x53], .inl [([0x6e], .sc (.int 1))])])]

example : serValue sample = .ok (.inl sampleTree) := by with_unfolding_all rfl
example : routeEdit sample = .ok sampleTree := by with_unfolding_all rfl
example : routeToml false sample = .ok sampleTree := by with_unfolding_all rfl
example : datetimeRoot sample = false := by with_unfolding_all rfl
example : routeEditPretty true sample = .ok sampleTree := by with_unfolding_all rfl
example : routeEditPretty true f5Value = .ok f5Tree := by with_unfolding_all rfl
example : expected sample = some (.inl sampleTree) := by with_unfolding_all rfl
-- errors: an unsupported shape, a non-table root, a variant root
example : serValue (.seq [.none]) = .error .unsupportedNone ∧ unsupported (.seq [.none]) = true := by
  constructor <;> with_unfolding_all rfl
example : routeEdit (.seq [.int .i64 1]) = .error .unsupportedType ∧ nonTableRoot (.seq [.int .i64 1]) := by
  refine ⟨by with_unfolding_all rfl, _, by with_unfolding_all rfl, by with_unfolding_all rfl⟩
example : routeToml false (.structVariant [0x45] [0x53] []) = .error .unsupportedType ∧
    variantRoot (.structVariant [0x45] [0x53] []) = true := by
  constructor <;> with_unfolding_all rfl
example : unsupported (.map [(.int .i64 1, .bool true)]) = true ∧
    serValue (.map [(.int .i64 1, .bool true)]) = .error .keyNotString := by
  constructor <;> with_unfolding_all rfl
example : unsupported (.int .u64 9223372036854775808) = true ∧
    serValue (.int .u64 9223372036854775808) = .error .outOfRange := by
  constructor <;> with_unfolding_all rfl
example : valSer .current sample = .ok (.inl sampleTree) ∧ wfDatetime sample = true ∧ wfDatetime datetimeField = true := by
  refine ⟨?_, ?_, ?_⟩ <;> with_unfolding_all rfl
-- the visitors really convert: the guarded visitor turns the nested struct into a `[table]`
example : visitRoot true [([0x61], .inl [([0x62], .sc (.int 1))])] =
    [([0x61], .tbl [([0x62], .sc (.int 1))] true)] := by with_unfolding_all rfl

end TomlVerif.Props.C07
