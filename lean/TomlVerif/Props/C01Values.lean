import TomlVerif.Lemmas.Value01
import TomlVerif.Lemmas.Scalars01
import TomlVerif.Lemmas.InlineKeys01
import TomlVerif.Lemmas.ValEq
/-! # C01 / C02 for containers — every value the grammar generates is accepted and decodes to what it says

`Spec/AstValue.lean` gives the abstract syntax (`AVal`: scalar tokens, arrays with trivia, optional
trailing comma, inline tables with bare keys), `render` (the bytes) and `sem` (the value denoted).
Scalars are abstract: a `ScalarTok` is any token with `ScalarOK`; the instances are in
`Lemmas/Value01.lean` (booleans) and `Lemmas/Scalars01.lean` (numbers, date-times, strings). -/
namespace TomlVerif.Props.C01Values
open TomlVerif TomlVerif.Spec TomlVerif.Model TomlVerif.Model.Strings TomlVerif.Model.Value
open TomlVerif.Spec.AstValue TomlVerif.Lemmas.Value01 TomlVerif.Lemmas.ValEq TomlVerif.Lemmas.Scalars01
open TomlVerif.Model.Numbers TomlVerif.Lemmas.Numbers11 TomlVerif.Model.Datetime TomlVerif.Props.C12
open TomlVerif.Lemmas.InlineKeys01

/-- trivia (`ws-comment-newline`) is consumed exactly: everything rendered from the trivia pieces and
    nothing more, given enough fuel (the callers pass `input.length + 1`) -/
theorem T01_wcn (w : Wcn) (fuel : Nat) (rest : Bytes) (hw : WcnWF w) (hr : NoTriviaHead rest)
    (hf : (renderWcn w).length < fuel) : wsCommentNewline fuel (renderWcn w ++ rest) = some rest :=
  wcn_exact w fuel rest hw hr hf

/-- non-vacuity: `  # c` CRLF tab LF before `1` -/
example : WcnWF [.ws [0x20, 0x20], .comment [0x20, 0x63] true, .ws [0x09], .nl false] ∧
    NoTriviaHead [0x31] ∧
    renderWcn [.ws [0x20, 0x20], .comment [0x20, 0x63] true, .ws [0x09], .nl false] =
      [0x20, 0x20, 0x23, 0x20, 0x63, 0x0D, 0x0A, 0x09, 0x0A] := by
  refine ⟨?_, by simp [NoTriviaHead]; decide, by decide⟩
  intro p hp
  simp at hp
  rcases hp with rfl | rfl | rfl | rfl <;> simp [Piece.WF, isWschar, isNonEol, inR]

/-- `line_trailing` consumes `ws [comment] newline` exactly -/
theorem T01_lineTrailing (bs : Bytes) (cm : Option Bytes) (crlf : Bool) (rest : Bytes) (hbs : AllWs bs)
    (hcm : ∀ body, cm = some body → ∀ b ∈ body, isNonEol b = true) :
    lineTrailing (bs ++ (commentBytes cm ++ (nlBytes crlf ++ rest))) = .ok () rest :=
  lineTrailing_nl bs cm crlf rest hbs hcm

/-- `line_trailing` accepts `ws [comment]` at the end of the input -/
theorem T01_lineTrailing_eof (bs : Bytes) (cm : Option Bytes) (hbs : AllWs bs)
    (hcm : ∀ body, cm = some body → ∀ b ∈ body, isNonEol b = true) :
    lineTrailing (bs ++ commentBytes cm) = .ok () [] :=
  lineTrailing_eof bs cm hbs hcm

example : lineTrailing ([0x20] ++ (commentBytes (some [0x78]) ++ (nlBytes true ++ [0x61]))) = .ok () [0x61] := by
  decide

example : lineTrailing ([0x09] ++ commentBytes (some [0x78])) = .ok () [] := by decide

/-- **completeness of values**: every well-formed syntax tree whose nesting stays below the limit is
    accepted, consumes exactly its rendering, and decodes to the value it denotes.
    `2 * length` fuel suffices (`parseValue` gives `3 * length + 4`). -/
theorem T01_array_complete (a : AVal) (hwf : WF a) (d fuel : Nat) (rest : Bytes) (hd : d + depth a < LIMIT)
    (hr : ValFollowS rest) (hf : 2 * (render a).length ≤ fuel) :
    value fuel d (render a ++ rest) = .ok (sem a) rest :=
  val_ok a hwf d fuel rest hd hr hf

/-- for arrays and inline tables nothing is needed of what follows -/
theorem T01_container_complete (a : AVal) (hwf : WF a) (hc : ∀ t, a ≠ .scalar t) (d fuel : Nat) (rest : Bytes)
    (hd : d + depth a < LIMIT) (hf : 2 * (render a).length ≤ fuel) :
    value fuel d (render a ++ rest) = .ok (sem a) rest := by
  cases a with
  | scalar t => exact absurd rfl (hc t)
  | arr items tc tail =>
    rw [WF] at hwf
    exact arr_case items tc tail hwf.1 (items_ok items hwf.1) hwf.2.1 hwf.2.2 d fuel rest hd hf
  | inl items tail =>
    rw [WF] at hwf
    exact inl_case items tail (pairs_ok items hwf.1) hwf.2.1 hwf.2.2 d fuel rest hd hf

/-- the whole-text entry point -/
theorem T01_parseValue_complete (a : AVal) (hwf : WF a) (hd : depth a < LIMIT) :
    parseValue (render a) = some (sem a) := by
  have := T01_array_complete a hwf 0 (3 * (render a).length + 4) [] (by omega) ⟨trivial, by intro b r h; cases h⟩ (by omega)
  rw [List.append_nil] at this
  unfold parseValue
  rw [this]

/-- the decoded array is the list of decoded items -/
theorem T01_sem_arr (items : List (Wcn × AVal × Wcn)) (tc : Bool) (tail : Wcn) :
    sem (.arr items tc tail) = .arr (items.map fun i => sem i.2.1) := by
  simp [sem, semItems_eq_map]

/-- the decoded inline table is its entries `path . key = value`, in source order, assembled by `tableFromPairs`
    (the code's `table_from_pairs`: dotted keys open nested tables, a key defined twice is an error) -/
theorem T01_sem_inl (items : List (DKey × Bytes × AVal × Bytes)) (tail : Bytes) :
    sem (.inl items tail) =
      .inl ((tableFromPairs (items.map fun i => (i.1.path, i.1.last, sem i.2.2.1)) []).getD []) false false := by
  simp [sem, flatPairs_eq_map]

/-- with plain (non-dotted), pairwise distinct keys the well-formedness condition on the entries holds and the
    decoded table is the list of entries in order -/
theorem T01_sem_inl_plain (items : List (DKey × Bytes × AVal × Bytes)) (tail : Bytes)
    (hp : ∀ i ∈ items, i.1.more = []) (hn : (items.map fun i => i.1.first.key).Nodup) :
    (tableFromPairs (flatPairs items) []).isSome = true ∧
    sem (.inl items tail) = .inl (items.map fun i => (i.1.first.key, sem i.2.2.1)) false false := by
  have := tableFromPairs_plain items [] hp hn (by simp)
  simp [sem, this]

/-! non-vacuity: `[ true,# c⏎ [false ,] , {a = true,b={ }},⏎]` (`exampleText` is its UTF-8 encoding) -/
def exampleTree : AVal :=
  .arr [ ([.ws [0x20]], .scalar trueTok, []),
         ([.comment [0x20, 0x63] false, .ws [0x20]], .arr [([], .scalar falseTok, [.ws [0x20]])] true [], [.ws [0x20]]),
         ([.ws [0x20]], .inl [ (⟨⟨[], [0x61], [0x20]⟩, []⟩, [0x20], .scalar trueTok, []),
                               (⟨⟨[], [0x62], []⟩, []⟩, [], .inl [] [0x20], []) ] [], []) ]
       true [.nl false]

def exampleText : Bytes :=
  [91, 32, 116, 114, 117, 101, 44, 35, 32, 99, 10, 32, 91, 102, 97, 108, 115, 101, 32, 44, 93, 32, 44, 32, 123, 97, 32, 61, 32, 116, 114, 117, 101, 44, 98, 61, 123, 32, 125, 125, 44, 10, 93]

theorem exampleTree_render : render exampleTree = exampleText := by decide +kernel

theorem exampleTree_wf : WF exampleTree := by
  simp [exampleTree, WF, WFItems, WFPairs, WcnWF, Piece.WF, AllWs, KeyTok.WF, DKey.WF, scalarOK_true, scalarOK_false,
    isWschar, isNonEol, isUnquotedChar, inR, LIMIT]
  decide +kernel

example : depth exampleTree = 3 := by decide

example : parseValue exampleText =
    some (.arr [.bool true, .arr [.bool false], .inl [([0x61], .bool true), ([0x62], .inl [] false false)] false false]) := by
  have h := T01_parseValue_complete exampleTree exampleTree_wf (by decide)
  rw [exampleTree_render] at h
  rw [h]
  exact congrArg some (beqV_sound _ _ (by decide +kernel))

/-- non-vacuity of `T01_container_complete`: the same text followed by arbitrary bytes (here `x`) -/
example : value 100 0 (exampleText ++ [0x78]) =
    .ok (.arr [.bool true, .arr [.bool false], .inl [([0x61], .bool true), ([0x62], .inl [] false false)] false false]) [0x78] := by
  have h := T01_container_complete exampleTree exampleTree_wf (by intro t h; cases h) 0 100 [0x78] (by decide)
    (by rw [exampleTree_render]; decide)
  rw [exampleTree_render] at h
  rw [h]
  exact congrArg (Res.ok · [0x78]) (beqV_sound _ _ (by decide +kernel))

/-! non-vacuity with dotted keys: `{a.b = true, a . c={x=false},d=[true]}` -/
def dottedTree : AVal :=
  .inl [ (⟨⟨[], [0x61], []⟩, [⟨[], [0x62], [0x20]⟩]⟩, [0x20], .scalar trueTok, []),
         (⟨⟨[0x20], [0x61], [0x20]⟩, [⟨[0x20], [0x63], []⟩]⟩, [],
            .inl [(⟨⟨[], [0x78], []⟩, []⟩, [], .scalar falseTok, [])] [], []),
         (⟨⟨[], [0x64], []⟩, []⟩, [], .arr [([], .scalar trueTok, [])] false [], []) ] []

def dottedText : Bytes :=
  [123, 97, 46, 98, 32, 61, 32, 116, 114, 117, 101, 44, 32, 97, 32, 46, 32, 99, 61, 123, 120, 61, 102, 97, 108, 115, 101, 125, 44, 100, 61, 91, 116, 114, 117, 101, 93, 125]

theorem dottedTree_render : render dottedTree = dottedText := by decide +kernel

theorem dottedTree_wf : WF dottedTree := by
  simp [dottedTree, WF, WFItems, WFPairs, WcnWF, AllWs, KeyTok.WF, DKey.WF, scalarOK_true, scalarOK_false,
    isWschar, isUnquotedChar, inR, LIMIT]
  decide +kernel

example : depth dottedTree = 3 := by decide

example : parseValue dottedText =
    some (.inl [([0x61], .inl [([0x62], .bool true), ([0x63], .inl [([0x78], .bool false)] false false)] true true),
                ([0x64], .arr [.bool true])] false false) := by
  have h := T01_parseValue_complete dottedTree dottedTree_wf (by decide)
  rw [dottedTree_render] at h
  rw [h]
  exact congrArg some (beqV_sound _ _ (by decide +kernel))

/-- **duplicate check of inline tables** (`table_from_pairs`): entries `path . key = v` whose values come from
    the value parser (never an implicit table) can be assembled exactly when no full key is a prefix of, or
    equal to, another one (`Incomp p q := ¬ p <+: q ∧ ¬ q <+: p`) -/
theorem T01_tableFromPairs_iff (l : List (List Bytes × Bytes × Val)) (hv : ∀ e ∈ l, NotImplicit e.2.2) :
    (tableFromPairs l []).isSome = true ↔ (l.map fun e => e.1 ++ [e.2.1]).Pairwise Incomp :=
  tableFromPairs_iff l hv

/-- what `value` returns is never an implicit table, so the hypothesis of `T01_tableFromPairs_iff` holds for
    everything `inlineKeyvals` collects -/
theorem T01_value_notImplicit (fuel d : Nat) (s : Bytes) (v : Val) (rest : Bytes) (h : value fuel d s = .ok v rest) :
    NotImplicit v := value_notImplicit fuel d s v rest h

/-- when it succeeds the assembled table defines exactly the given full keys -/
theorem T01_tableFromPairs_keys (l : List (List Bytes × Bytes × Val)) (hv : ∀ e ∈ l, NotImplicit e.2.2)
    (items : List (Bytes × Val)) (h : tableFromPairs l [] = some items) :
    ∀ p, p ∈ leafKeys items ↔ p ∈ l.map fun e => e.1 ++ [e.2.1] := by
  have hpw := (tableFromPairs_iff l hv).1 (by rw [h]; rfl)
  obtain ⟨items', hi, _, hk⟩ := tableFromPairs_ok l [] (by simp [GoodL]) hv hpw (by intro e _ p hp; simp [leafKeys] at hp)
  rw [h] at hi
  injection hi with hi
  subst hi
  intro p
  rw [hk p]
  simp [leafKeys, fullKey]

/-- for the syntax tree: the well-formedness condition on an inline table is exactly "the dotted keys are
    pairwise prefix-incomparable" -/
theorem T01_inline_wf_iff (items : List (DKey × Bytes × AVal × Bytes)) (hwf : WFPairs items) :
    (tableFromPairs (flatPairs items) []).isSome = true ↔ (items.map fun i => i.1.keys).Pairwise Incomp :=
  inl_assembles_iff items hwf

/-- non-vacuity: the keys `a.b`, `a.c`, `d` of `dottedTree` are pairwise incomparable -/
example : ([[[0x61], [0x62]], [[0x61], [0x63]], [[0x64]]] : List (List Bytes)).Pairwise Incomp := by
  simp [Incomp, List.cons_prefix_cons]

/-- a key defined twice is not well-formed: `{a.b=true,a=false}` -/
example : (tableFromPairs [([[0x61]], [0x62], .bool true), ([], [0x61], .bool false)] []).isSome = false := by
  decide +kernel

/-! ## the concrete scalars are scalar tokens -/

/-- (a) booleans -/
theorem T01_scalar_true : ScalarOK ⟨[0x74, 0x72, 0x75, 0x65], .bool true⟩ := scalarOK_true
theorem T01_scalar_false : ScalarOK ⟨[0x66, 0x61, 0x6C, 0x73, 0x65], .bool false⟩ := scalarOK_false

/-- (b) decimal integer literals `[+-]? g0 _ g1 …` in the i64 range (a literal followed by a follow byte is
    neither a date-time nor a float) -/
theorem T01_scalar_dec (sign : Option Bool) (groups : List Bytes) (hg : GoodGroups isDigit groups)
    (hz : NoLeadingZero groups) (hin : inI64 (decValue sign groups) = true) :
    ScalarOK ⟨signBytes sign ++ joinU groups, .int (decValue sign groups)⟩ :=
  scalarOK_dec sign groups hg hz hin

/-- (c) the float writer's token for a finite non-zero value -/
theorem T01_scalar_float (neg negD : Bool) (intDs : Bytes) (frac : Option Bytes)
    (hne : intDs ≠ []) (hi : AllB isDigit intDs) (hz : ∀ t, intDs = 0x30 :: t → t = [])
    (hf : ∀ f, frac = some f → f ≠ [] ∧ AllB isDigit f)
    (hfin : Ieee.isInfBits (FloatLit.bits ⟨negD, intDs, frac.getD [0x30], false, []⟩) = false) :
    ScalarOK ⟨writeFloat neg false false (!(dispBytes negD intDs frac).contains 0x2E) (dispBytes negD intDs frac),
      .float (FloatLit.bits ⟨negD, intDs, frac.getD [0x30], false, []⟩)⟩ :=
  scalarOK_float neg negD intDs frac hne hi hz hf hfin

/-- (d) printed date-times -/
theorem T01_scalar_datetime (dt : Datetime) (h : FieldsInRange dt) (hy : ∀ d, dt.date = some d → d.year ≤ 9999) :
    ScalarOK ⟨Std.display dt, .dt dt⟩ :=
  scalarOK_datetime dt h hy

/-- (e) every string token the writer produces, in any style -/
theorem T01_scalar_string (st : Write.VStyle) (s tok : Bytes) (h : Write.writeValue st s = some tok) :
    ScalarOK ⟨tok, .str s⟩ :=
  scalarOK_string st s tok h

/-- `ScalarOK` asks for `ValFollowS` (a space is not followed by a digit), not just `ValFollow`.  With
    `ValFollow` alone the date-time instance is false: `1979-05-27` followed by ` 07:32:00` is read as a
    local date-time. -/
def ScalarOKWeak (t : ScalarTok) : Prop :=
  ∀ fuel d rest, 0 < fuel → ValFollow rest → value fuel d (t.tok ++ rest) = .ok t.v rest

theorem T01_scalar_datetime_weak_false :
    ¬ ScalarOKWeak ⟨Std.display ⟨some ⟨1979, 5, 27⟩, none, none⟩, .dt ⟨some ⟨1979, 5, 27⟩, none, none⟩⟩ := by
  intro h
  have h1 := h 1 0 [0x20, 0x30, 0x37, 0x3A, 0x33, 0x32, 0x3A, 0x30, 0x30] (by decide) (by decide : isFollowByte 0x20 = true)
  have h2 : value 1 0 (Std.display ⟨some ⟨1979, 5, 27⟩, none, none⟩ ++ [0x20, 0x30, 0x37, 0x3A, 0x33, 0x32, 0x3A, 0x30, 0x30])
      = .ok (.dt ⟨some ⟨1979, 5, 27⟩, some ⟨7, 32, 0, 0⟩, none⟩) [] := okIs_sound _ _ _ (by decide +kernel)
  rw [h2] at h1
  injection h1 with _ h1
  cases h1

/-! non-vacuity of the instances: `[1_000, -2.5,"a", 1979-05-27]` -/
def intTok : ScalarTok := ⟨signBytes none ++ joinU [[0x31], [0x30, 0x30, 0x30]], .int (decValue none [[0x31], [0x30, 0x30, 0x30]])⟩
def fltTok : ScalarTok :=
  ⟨writeFloat true false false (!(dispBytes true [0x32] (some [0x35])).contains 0x2E) (dispBytes true [0x32] (some [0x35])),
    .float (FloatLit.bits ⟨true, [0x32], (some [0x35] : Option Bytes).getD [0x30], false, []⟩)⟩
def strTok : ScalarTok := ⟨[0x22, 0x61, 0x22], .str [0x61]⟩
def dateTok : ScalarTok := ⟨Std.display ⟨some ⟨1979, 5, 27⟩, none, none⟩, .dt ⟨some ⟨1979, 5, 27⟩, none, none⟩⟩

theorem intTok_ok : ScalarOK intTok :=
  T01_scalar_dec none [[0x31], [0x30, 0x30, 0x30]]
    ⟨by simp, by intro g hg; simp at hg; rcases hg with hg | hg <;> subst hg <;> exact ⟨by simp, by decide⟩⟩
    (by intro g0 gs h; injection h with h _; injection h with h _; exact absurd h (by decide)) (by decide +kernel)

theorem fltTok_ok : ScalarOK fltTok :=
  T01_scalar_float true true [0x32] (some [0x35]) (by decide) (by decide) (by intro t h; simp at h)
    (by intro f h; injection h with h; subst h; exact ⟨by decide, by decide⟩) (by decide +kernel)

theorem strTok_ok : ScalarOK strTok := T01_scalar_string .default [0x61] [0x22, 0x61, 0x22] (by decide +kernel)

theorem dateTok_ok : ScalarOK dateTok := by
  refine T01_scalar_datetime ⟨some ⟨1979, 5, 27⟩, none, none⟩ ⟨?_, ?_, ?_, ?_⟩ ?_
  · intro d h; injection h with h; subst h; simp [DateInRange, maxDays]
  · intro t h; cases h
  · intro o h; cases h
  · simp [ShapeOk]
  · intro d h; injection h with h; subst h; decide

def scalarsTree : AVal :=
  .arr [ ([], .scalar intTok, []), ([.ws [0x20]], .scalar fltTok, []), ([], .scalar strTok, []),
         ([.ws [0x20]], .scalar dateTok, []) ] false []

def scalarsText : Bytes :=
  [91, 49, 95, 48, 48, 48, 44, 32, 45, 50, 46, 53, 44, 34, 97, 34, 44, 32, 49, 57, 55, 57, 45, 48, 53, 45, 50, 55, 93]

theorem scalarsTree_render : render scalarsTree = scalarsText := by decide +kernel

theorem scalarsTree_wf : WF scalarsTree := by
  simp [scalarsTree, WF, WFItems, WcnWF, Piece.WF, intTok_ok, fltTok_ok, strTok_ok, dateTok_ok, isWschar]

example : parseValue scalarsText =
    some (.arr [.int 1000, .float 13836183955189006336, .str [0x61], .dt ⟨some ⟨1979, 5, 27⟩, none, none⟩]) := by
  have h := T01_parseValue_complete scalarsTree scalarsTree_wf (by decide)
  rw [scalarsTree_render] at h
  rw [h]
  exact congrArg some (beqV_sound _ _ (by decide +kernel))

end TomlVerif.Props.C01Values
