import TomlVerif.Props.C13TypedParsed
import TomlVerif.Lemmas.RoundTrip17g
/-! # C18 — `toml::from_str::<toml::Value>` under both map builds, for every accepted text

`Model/DeText.lean` `decodeValue fl text` is the model of `toml::from_str::<toml::Value>` with the map
behind `toml::Table` chosen by `fl` (`.sorted` = `BTreeMap`, default; `.insertion` = `IndexMap`,
`preserve_order`); the C13 correspondence ties it to the crates in both builds. The property says
the feature changes ordering only. For every text the parser accepts (no table holding the private
date-time key, finding F24):

 * `T18_decode_parsed` — both builds succeed, and return the placement of the SAME decoded data
   into their map (`placeTV fl`);
 * `T18_decode_same_verdict` — same verdict;
 * `T18_decode_insertion` — the `preserve_order` build returns the document's data in document order;
 * `T18_decode_sorted_of_insertion` — what the default build returns is the key-sorted placement of
   what the `preserve_order` build returns: nothing but order distinguishes them;
 * `T18_decode_perm` — the two results are equal up to permuting table entries at every depth, and
   the default one is key-sorted at every depth;
 * `T18_decodeTable_parsed`, `T18_decodeTable_same_verdict` — the same for the target `toml::Table`
   (`Map`'s own `Deserialize`): in either build it returns the entries of the value `toml::Value` gets. -/
namespace TomlVerif.Props.C18Decode
open TomlVerif TomlVerif.Model TomlVerif.Model.TomlValue TomlVerif.Model.DeRoutes
open TomlVerif.Lemmas.DeTyped13 TomlVerif.Lemmas.RoundTrip17 TomlVerif.Lemmas.TypedGapsParsed
open TomlVerif.Props.C13Typed TomlVerif.Props.C13TypedParsed

/-- the data of an accepted document is well-formed in the sense of C13 -/
theorem parsed_wfTV (s : Bytes) (T : Tbl) (hp : Doc.parseDocument s = some T) (hk : NoPrivateKey (.table T)) :
    WfTV (plainTbl T) := by
  have h := T13_parsed_wfItem s T hp hk
  unfold WfItem at h
  rwa [plainItem] at h

/-- both builds accept and return the placement of the same data into their map -/
theorem T18_decode_parsed (fl : Flavour) (s : Bytes) (T : Tbl) (hp : Doc.parseDocument s = some T)
    (hk : NoPrivateKey (.table T)) :
    DeText.decodeValue fl s = some (placeTV fl (plainTbl T)) := by
  unfold DeText.decodeValue
  rw [hp]
  simp only []
  rw [presOfTbl_eq]
  exact visit_presEdit_wf fl false _ (parsed_wfTV s T hp hk)

/-- a rejected text is rejected in both builds -/
theorem T18_decode_rejected (fl : Flavour) (s : Bytes) (hp : Doc.parseDocument s = none) :
    DeText.decodeValue fl s = none := by
  unfold DeText.decodeValue
  rw [hp]

/-- same verdict in both builds -/
theorem T18_decode_same_verdict (s : Bytes) (hk : ∀ T, Doc.parseDocument s = some T → NoPrivateKey (.table T)) :
    (DeText.decodeValue .sorted s).isSome = (DeText.decodeValue .insertion s).isSome := by
  cases hp : Doc.parseDocument s with
  | none => rw [T18_decode_rejected _ s hp, T18_decode_rejected _ s hp]
  | some T => rw [T18_decode_parsed _ s T hp (hk T hp), T18_decode_parsed _ s T hp (hk T hp)]; rfl

/-- `preserve_order`: the document's data in document order -/
theorem T18_decode_insertion (s : Bytes) (T : Tbl) (hp : Doc.parseDocument s = some T)
    (hk : NoPrivateKey (.table T)) :
    DeText.decodeValue .insertion s = some (plainTbl T) := by
  rw [T18_decode_parsed .insertion s T hp hk, place_insertion_id _ (wf_nodup _ (parsed_wfTV s T hp hk))]

/-- the default build's value is the key-sorted placement of the `preserve_order` build's value -/
theorem T18_decode_sorted_of_insertion (s : Bytes) (T : Tbl) (hp : Doc.parseDocument s = some T)
    (hk : NoPrivateKey (.table T)) :
    DeText.decodeValue .sorted s = (DeText.decodeValue .insertion s).map (placeTV .sorted) := by
  rw [T18_decode_insertion s T hp hk, T18_decode_parsed .sorted s T hp hk]; rfl

/-- the two results differ by order only: equal up to permuting table entries at every depth, the
    default one key-sorted at every depth -/
theorem T18_decode_perm (s : Bytes) (T : Tbl) (v w : TV) (hp : Doc.parseDocument s = some T)
    (hk : NoPrivateKey (.table T)) (hv : DeText.decodeValue .sorted s = some v)
    (hw : DeText.decodeValue .insertion s = some w) : PermTV v w ∧ SortedTV v ∧ v = placeTV .sorted w := by
  have hn := wf_nodup _ (parsed_wfTV s T hp hk)
  rw [T18_decode_parsed .sorted s T hp hk] at hv
  rw [T18_decode_insertion s T hp hk] at hw
  injection hv with hv
  injection hw with hw
  subst hv hw
  exact ⟨perm_placeTV _ hn, place_is_sorted _ hn, rfl⟩

/-! ## `toml::from_str::<toml::Table>` -/

/-- `toml::Table` as the target: both builds accept, and return the entries of the value `toml::Value` gets -/
theorem T18_decodeTable_parsed (fl : Flavour) (s : Bytes) (T : Tbl) (hp : Doc.parseDocument s = some T)
    (hk : NoPrivateKey (.table T)) :
    (DeText.decodeTable fl s).map TV.tbl = DeText.decodeValue fl s := by
  rw [T18_decode_parsed fl s T hp hk]
  unfold DeText.decodeTable
  rw [hp]
  simp only []
  rw [presOfTbl_eq]
  obtain ⟨items, a, b, c⟩ := T
  have hw := parsed_wfTV s _ hp hk
  rw [plainTbl] at hw ⊢
  rw [WfTV] at hw
  rw [presEdit, visitTable, visitPairs_presEdit_wf fl false _ hw.1, placeTV]
  rfl

/-- same verdict for the `toml::Table` target in both builds -/
theorem T18_decodeTable_same_verdict (s : Bytes)
    (hk : ∀ T, Doc.parseDocument s = some T → NoPrivateKey (.table T)) :
    (DeText.decodeTable .sorted s).isSome = (DeText.decodeTable .insertion s).isSome := by
  cases hp : Doc.parseDocument s with
  | none => unfold DeText.decodeTable; rw [hp]
  | some T =>
    have h1 := T18_decodeTable_parsed .sorted s T hp (hk T hp)
    have h2 := T18_decodeTable_parsed .insertion s T hp (hk T hp)
    rw [T18_decode_parsed _ s T hp (hk T hp)] at h1 h2
    cases h3 : DeText.decodeTable .sorted s <;> cases h4 : DeText.decodeTable .insertion s <;>
      simp_all

/-- the root keys of a value, in iteration order -/
def rootKeys : TV → List Bytes
  | .tbl items => items.map Prod.fst
  | _ => []

/-- non-vacuity: the text of `Props/C13TypedParsed.lean` (`b` before `a`, an inline table, an array of tables, a
    date) is accepted and has no private key, and the two builds really return different values for it -/
example : ∃ T, Doc.parseDocument C13TypedParsed.exText = some T ∧ NoPrivateKey (.table T) ∧
    DeText.decodeValue .sorted C13TypedParsed.exText ≠ DeText.decodeValue .insertion C13TypedParsed.exText := by
  cases h : Doc.parseDocument C13TypedParsed.exText with
  | none => have := C13TypedParsed.exText_accepted; rw [h] at this; cases this
  | some T =>
    have e : (Doc.parseDocument C13TypedParsed.exText).getD Tbl.empty = T := by rw [h]; rfl
    have hk : NoPrivateKey (.table T) := by rw [noPrivateKey_iff, ← e]; decide +kernel
    refine ⟨T, rfl, hk, ?_⟩
    rw [T18_decode_parsed .sorted _ T h hk, T18_decode_insertion _ T h hk, ← e]
    intro heq
    have hkeys := congrArg (Option.map rootKeys) heq
    revert hkeys
    decide +kernel

end TomlVerif.Props.C18Decode
