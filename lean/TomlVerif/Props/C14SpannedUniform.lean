import TomlVerif.Props.C14SpannedFull
/-! C14, second sentence: the hypothesis `Ok t it` of `T14_spanned_transparent` from UNIFORM hypotheses —
    `TyOk t` on the type alone, `AllSpans it` on the tree alone, and for the date-time clause either `DtSafe t` (type alone) or
    `DtFree it` (tree alone).

      TyOk t      no struct field whose `missing_field` differs (`Spanned<Option<_>>`), every map key type without `Spanned` inside
                  `Spanned` (`keyOk`), recursively
      AllSpans it every node of the tree (through `citemEntries` / `citemElems`) has an `item_span`, every key a span
      DtSafe t    every map of the type has `String` keys and a value type that is not `Spanned<_>` itself, every struct field type
                  is not `Spanned<_>` itself — what a date-time read as a map / struct needs (serde's string deserializers)
      DtFree it   no node of the tree is a date-time
    A clean `TyOk` alone is impossible: `BTreeMap<Spanned<String>, String>` is transparent on tables and not on a date-time
    (`ex_datetime_map_spanned_key`), so the clause needs the tree (`DtFree`) or a stricter type (`DtSafe`). -/
namespace TomlVerif.Props.C14SpannedUniform
open TomlVerif TomlVerif.Model TomlVerif.Model.DeTyped TomlVerif.Model.Cst TomlVerif.Model.DeLocated
open TomlVerif.Model.DeSpanned TomlVerif.Lemmas.DeLocated15 TomlVerif.Lemmas.DeSpanned14

mutual
def TyOk : STy → Bool
  | .plain _ => true
  | .spanned t => TyOk t
  | .option t => TyOk t
  | .newtype t => TyOk t
  | .seq t => TyOk t
  | .map kt t => keyOk kt && TyOk t
  | .struct fs => missAll fs && TyOkFields fs
  | .enum vs => TyOkVariants vs
def TyOkFields : SFields → Bool
  | .nil => true
  | .cons _ t _ r => TyOk t && TyOkFields r
def TyOkShape : SShape → Bool
  | .unit => true
  | .newtype t => TyOk t
def TyOkVariants : SVariants → Bool
  | .nil => true
  | .cons _ s r => TyOkShape s && TyOkVariants r
end

def isString : KeyTy → Bool
  | .string => true
  | _ => false

mutual
def DtSafe : STy → Bool
  | .plain _ => true
  | .spanned t => DtSafe t
  | .option t => DtSafe t
  | .newtype t => DtSafe t
  | .seq t => DtSafe t
  | .map kt t => isString kt && strOk t && DtSafe t
  | .struct fs => DtSafeFields fs
  | .enum vs => DtSafeVariants vs
def DtSafeFields : SFields → Bool
  | .nil => true
  | .cons _ t _ r => strOk t && DtSafe t && DtSafeFields r
def DtSafeShape : SShape → Bool
  | .unit => true
  | .newtype t => DtSafe t
def DtSafeVariants : SVariants → Bool
  | .nil => true
  | .cons _ s r => DtSafeShape s && DtSafeVariants r
end

/-- every node has an `item_span`, every key a span -/
def AllSpans (it : CItem) : Prop :=
  ∀ n, Sub it n → (itemSpan n).isSome = true ∧
    ∀ es k v, citemEntries n = some es → (k, v) ∈ es → (keySpan k).isSome = true

/-- no node is a date-time -/
def DtFree (it : CItem) : Prop := ∀ n, Sub it n → ∀ d, eraseItem n ≠ .value (.dt d)

theorem AllSpans.entry {it v : CItem} {es : List (CKey × CItem)} {k : CKey} (h : AllSpans it)
    (hc : citemEntries it = some es) (hm : (k, v) ∈ es) : AllSpans v := fun n hn => h n (.entry hc hm hn)
theorem AllSpans.elem {it v : CItem} {l : List CItem} (h : AllSpans it)
    (hc : citemElems it = some l) (hm : v ∈ l) : AllSpans v := fun n hn => h n (.elem hc hm hn)
theorem DtFree.entry {it v : CItem} {es : List (CKey × CItem)} {k : CKey} (h : DtFree it)
    (hc : citemEntries it = some es) (hm : (k, v) ∈ es) : DtFree v := fun n hn => h n (.entry hc hm hn)
theorem DtFree.elem {it v : CItem} {l : List CItem} (h : DtFree it)
    (hc : citemElems it = some l) (hm : v ∈ l) : DtFree v := fun n hn => h n (.elem hc hm hn)

/-- a string-deserializer source only comes from a date-time item -/
theorem srcs_str_dt (it : CItem) (es : List (Bytes × LSrc)) (h : locMapEntries it = some es) (key s : Bytes)
    (hm : (key, LSrc.str s) ∈ es) : ∃ d, eraseItem it = .value (.dt d) := by
  unfold locMapEntries at h
  split at h
  · rename_i d hd; exact ⟨d, hd⟩
  · cases hc : citemEntries it with
    | none => rw [hc] at h; simp at h
    | some ces =>
      rw [hc] at h
      simp only [Option.map_some, Option.some.injEq] at h
      subst h
      simp at hm

/-- the date-time clause: the type is safe, or the tree has no date-time -/
def DtClause (safe : Bool) (it : CItem) : Prop := safe = true ∨ DtFree it

mutual
theorem ok_ty : ∀ (t : STy) (it : CItem), TyOk t = true → AllSpans it → (DtSafe t = true ∨ DtFree it) → Ok t it
  | .plain t, it, _, _, _ => by unfold Ok; trivial
  | .spanned t, it, ht, hi, hd => by
    unfold Ok
    exact ⟨(hi it (.refl it)).1, ok_ty t it (by simpa [TyOk] using ht) hi (by simpa [DtSafe] using hd)⟩
  | .option t, it, ht, hi, hd => by
    unfold Ok; exact ok_ty t it (by simpa [TyOk] using ht) hi (by simpa [DtSafe] using hd)
  | .newtype t, it, ht, hi, hd => by
    unfold Ok; exact ok_ty t it (by simpa [TyOk] using ht) hi (by simpa [DtSafe] using hd)
  | .seq t, it, ht, hi, hd => by
    unfold Ok
    intro l hl x hx
    exact ok_ty t x (by simpa [TyOk] using ht) (hi.elem hl hx)
      (hd.elim (fun h => Or.inl (by simpa [DtSafe] using h)) (fun h => Or.inr (h.elem hl hx)))
  | .map kt t, it, ht, hi, hd => by
    have ht' : keyOk kt = true ∧ TyOk t = true := by simpa [TyOk] using ht
    unfold Ok
    intro es hes kv hkv
    obtain ⟨key, src⟩ := kv
    cases src with
    | item k i =>
      obtain ⟨ces, hc, hmem⟩ := srcs_item_mem it es hes key k i hkv
      exact ⟨ht'.1, Or.inl ((hi it (.refl it)).2 ces k i hc hmem),
        ok_ty t i ht'.2 (hi.entry hc hmem)
          (hd.elim (fun h => Or.inl (by have : (isString kt = true ∧ strOk t = true) ∧ DtSafe t = true := by
                                          simpa [DtSafe] using h
                                        exact this.2)) (fun h => Or.inr (h.entry hc hmem)))⟩
    | str s =>
      rcases hd with h | h
      · have : (isString kt = true ∧ strOk t = true) ∧ DtSafe t = true := by simpa [DtSafe] using h
        refine ⟨?_, this.1.2⟩
        cases kt <;> simp_all [isString]
      · obtain ⟨d, hdt⟩ := srcs_str_dt it es hes key s hkv
        exact absurd hdt (h it (.refl it) d)
  | .struct fs, it, ht, hi, hd => by
    have ht' : missAll fs = true ∧ TyOkFields fs = true := by simpa [TyOk] using ht
    unfold Ok
    refine ⟨ht'.1, ?_, ?_⟩
    · intro es hes kv hkv
      obtain ⟨key, src⟩ := kv
      cases src with
      | item k i =>
        obtain ⟨ces, hc, hmem⟩ := srcs_item_mem it es hes key k i hkv
        exact ok_entry fs key (.item k i) ht'.2
          ⟨hi.entry hc hmem, hd.elim (fun h => Or.inl (by simpa [DtSafe] using h)) (fun h => Or.inr (h.entry hc hmem))⟩
      | str s =>
        rcases hd with h | h
        · exact ok_entry fs key (.str s) ht'.2 (by simpa [DtSafe] using h)
        · obtain ⟨d, hdt⟩ := srcs_str_dt it es hes key s hkv
          exact absurd hdt (h it (.refl it) d)
    · intro l hl
      exact ok_seq fs l ht'.2 (fun x hx => ⟨hi.elem hl hx,
        hd.elim (fun h => Or.inl (by simpa [DtSafe] using h)) (fun h => Or.inr (h.elem hl hx))⟩)
  | .enum vs, it, ht, hi, hd => by
    unfold Ok
    intro k p hc
    exact ok_variants vs k.key p (by simpa [TyOk] using ht) (hi.entry hc (List.mem_cons_self ..))
      (hd.elim (fun h => Or.inl (by simpa [DtSafe] using h)) (fun h => Or.inr (h.entry hc (List.mem_cons_self ..))))
theorem ok_entry : ∀ (fs : SFields) (k : Bytes) (src : LSrc), TyOkFields fs = true →
    (match src with
     | .item _ i => AllSpans i ∧ (DtSafeFields fs = true ∨ DtFree i)
     | .str _ => DtSafeFields fs = true) → OkEntry fs k src
  | .nil, k, src, _, _ => by unfold OkEntry; trivial
  | .cons name t dflt r, k, src, ht, h => by
    have ht' : TyOk t = true ∧ TyOkFields r = true := by simpa [TyOkFields] using ht
    unfold OkEntry
    by_cases hn : (name == k) = true
    · simp only [hn, if_true]
      cases src with
      | item key i =>
        simp only [] at h ⊢
        exact ok_ty t i ht'.1 h.1 (h.2.elim (fun hs => Or.inl (by
          have : (strOk t = true ∧ DtSafe t = true) ∧ DtSafeFields r = true := by simpa [DtSafeFields] using hs
          exact this.1.2)) Or.inr)
      | str s =>
        simp only [] at h ⊢
        have : (strOk t = true ∧ DtSafe t = true) ∧ DtSafeFields r = true := by simpa [DtSafeFields] using h
        exact this.1.1
    · simp only [hn]
      refine ok_entry r k src ht'.2 ?_
      cases src with
      | item key i =>
        simp only [] at h ⊢
        exact ⟨h.1, h.2.elim (fun hs => Or.inl (by
          have : (strOk t = true ∧ DtSafe t = true) ∧ DtSafeFields r = true := by simpa [DtSafeFields] using hs
          exact this.2)) Or.inr⟩
      | str s =>
        simp only [] at h ⊢
        have : (strOk t = true ∧ DtSafe t = true) ∧ DtSafeFields r = true := by simpa [DtSafeFields] using h
        exact this.2
theorem ok_seq : ∀ (fs : SFields) (l : List CItem), TyOkFields fs = true →
    (∀ x ∈ l, AllSpans x ∧ (DtSafeFields fs = true ∨ DtFree x)) → OkSeq fs l
  | .nil, l, _, _ => by unfold OkSeq; trivial
  | .cons name t dflt r, [], ht, h => by
    have ht' : TyOk t = true ∧ TyOkFields r = true := by simpa [TyOkFields] using ht
    unfold OkSeq
    exact ok_seq r [] ht'.2 (fun x hx => by cases hx)
  | .cons name t dflt r, i :: l, ht, h => by
    have ht' : TyOk t = true ∧ TyOkFields r = true := by simpa [TyOkFields] using ht
    have hsplit : DtSafeFields (.cons name t dflt r) = true → DtSafe t = true ∧ DtSafeFields r = true := by
      intro hs
      have : (strOk t = true ∧ DtSafe t = true) ∧ DtSafeFields r = true := by simpa [DtSafeFields] using hs
      exact ⟨this.1.2, this.2⟩
    unfold OkSeq
    have hi := h i (List.mem_cons_self ..)
    refine ⟨ok_ty t i ht'.1 hi.1 (hi.2.elim (fun hs => Or.inl (hsplit hs).1) Or.inr), ?_⟩
    exact ok_seq r l ht'.2 (fun x hx => by
      have hx' := h x (List.mem_cons_of_mem _ hx)
      exact ⟨hx'.1, hx'.2.elim (fun hs => Or.inl (hsplit hs).2) Or.inr⟩)
theorem ok_variants : ∀ (vs : SVariants) (k : Bytes) (p : CItem), TyOkVariants vs = true → AllSpans p →
    (DtSafeVariants vs = true ∨ DtFree p) → OkVariants vs k p
  | .nil, k, p, _, _, _ => by unfold OkVariants; trivial
  | .cons name s r, k, p, ht, hi, hd => by
    have ht' : TyOkShape s = true ∧ TyOkVariants r = true := by simpa [TyOkVariants] using ht
    unfold OkVariants
    by_cases hn : (name == k) = true
    · simp only [hn, if_true]
      exact ok_shape s p ht'.1 hi (hd.elim (fun h => Or.inl (by
        have : DtSafeShape s = true ∧ DtSafeVariants r = true := by simpa [DtSafeVariants] using h
        exact this.1)) Or.inr)
    · simp only [hn]
      exact ok_variants r k p ht'.2 hi (hd.elim (fun h => Or.inl (by
        have : DtSafeShape s = true ∧ DtSafeVariants r = true := by simpa [DtSafeVariants] using h
        exact this.2)) Or.inr)
theorem ok_shape : ∀ (s : SShape) (p : CItem), TyOkShape s = true → AllSpans p →
    (DtSafeShape s = true ∨ DtFree p) → OkShape s p
  | .unit, p, _, _, _ => by unfold OkShape; trivial
  | .newtype t, p, ht, hi, hd => by
    unfold OkShape
    exact ok_ty t p (by simpa [TyOkShape] using ht) hi (hd.elim (fun h => Or.inl (by simpa [DtSafeShape] using h)) Or.inr)
end

/-- T14_spanned_transparent_uniform: with a type-only hypothesis `TyOk t`, a tree-only hypothesis `AllSpans it`, and the
date-time clause (`DtSafe t`, type only — or `DtFree it`, tree only), decoding into the wrapper type with the wrappers
forgotten is decoding into the stripped type: verdict, value and error location. -/
theorem T14_spanned_transparent_uniform (fl : TomlValue.Flavour) (t : STy) (it : SItem)
    (ht : TyOk t = true) (hi : AllSpans it) (hd : DtSafe t = true ∨ DtFree it) :
    lmap stripDec (decodeSp fl t it) = decodeLoc fl (strip t) it :=
  Props.C14SpannedFull.T14_spanned_transparent fl t it (ok_ty t it ht hi hd)

/-! ## `AllSpans` by computation -/

mutual
def asVal : CVal → Bool
  | .scalar v r _ => (match v with | .arr _ => false | .inl _ _ _ => false | _ => true) && r.span.isSome
  | .arr items _ _ _ sp => sp.isSome && asVals items
  | .inl items p i dt d sp => (ispanVal (.inl items p i dt d sp)).isSome && asKvs items
def asVals : List CVal → Bool
  | [] => true
  | v :: r => asVal v && asVals r
def asKvs : List (CKey × CVal) → Bool
  | [] => true
  | (k, v) :: r => (keySpan k).isSome && asVal v && asKvs r
end

mutual
/-- a checker for `AllSpans` -/
def asItem : CItem → Bool
  | .value v => asVal v
  | .table t => asTbl t
  | .aot ts sp => sp.isSome && asTbls ts
def asTbl : CTbl → Bool
  | .mk items i d p dc sp => (ispanTbl (.mk items i d p dc sp)).isSome && asItems items
def asTbls : List CTbl → Bool
  | [] => true
  | t :: r => asTbl t && asTbls r
def asItems : List (CKey × CItem) → Bool
  | [] => true
  | (k, v) :: r => (keySpan k).isSome && asItem v && asItems r
end

theorem asVals_mem : ∀ (l : List CVal), asVals l = true → ∀ v ∈ l, asVal v = true
  | [], _, v, hv => by cases hv
  | x :: r, h, v, hv => by
    simp only [asVals, Bool.and_eq_true] at h
    rcases List.mem_cons.1 hv with hv | hv
    · subst hv; exact h.1
    · exact asVals_mem r h.2 v hv

theorem asKvs_mem : ∀ (l : List (CKey × CVal)), asKvs l = true → ∀ kv ∈ l, (keySpan kv.1).isSome = true ∧ asVal kv.2 = true
  | [], _, v, hv => by cases hv
  | (k, x) :: r, h, v, hv => by
    simp only [asKvs, Bool.and_eq_true] at h
    rcases List.mem_cons.1 hv with hv | hv
    · subst hv; exact h.1
    · exact asKvs_mem r h.2 v hv

theorem asTbls_mem : ∀ (l : List CTbl), asTbls l = true → ∀ v ∈ l, asTbl v = true
  | [], _, v, hv => by cases hv
  | x :: r, h, v, hv => by
    simp only [asTbls, Bool.and_eq_true] at h
    rcases List.mem_cons.1 hv with hv | hv
    · subst hv; exact h.1
    · exact asTbls_mem r h.2 v hv

theorem asItems_mem : ∀ (l : List (CKey × CItem)), asItems l = true → ∀ kv ∈ l, (keySpan kv.1).isSome = true ∧ asItem kv.2 = true
  | [], _, v, hv => by cases hv
  | (k, x) :: r, h, v, hv => by
    simp only [asItems, Bool.and_eq_true] at h
    rcases List.mem_cons.1 hv with hv | hv
    · subst hv; exact h.1
    · exact asItems_mem r h.2 v hv

theorem as_span (it : CItem) (h : asItem it = true) : (itemSpan it).isSome = true := by
  cases it with
  | value v =>
    cases v with
    | scalar x r d => simp only [asItem, asVal, Bool.and_eq_true] at h; simpa [itemSpan, ispanVal] using h.2
    | arr items t c d sp => simp only [asItem, asVal, Bool.and_eq_true] at h; simpa [itemSpan, ispanVal] using h.1
    | inl items p i dt d sp => simp only [asItem, asVal, Bool.and_eq_true] at h; simpa [itemSpan] using h.1
  | table t => cases t; simp only [asItem, asTbl, Bool.and_eq_true] at h; simpa [itemSpan] using h.1
  | aot ts sp => simp only [asItem, Bool.and_eq_true] at h; simpa [itemSpan] using h.1

theorem as_entries (it : CItem) (h : asItem it = true) (es : List (CKey × CItem)) (hc : citemEntries it = some es) :
    ∀ kv ∈ es, (keySpan kv.1).isSome = true ∧ asItem kv.2 = true := by
  cases it with
  | value v =>
    cases v with
    | scalar x r d =>
      cases x <;> simp [citemEntries] at hc
      simp [asItem, asVal] at h
    | arr => simp [citemEntries] at hc
    | inl items p i dt d sp =>
      simp only [citemEntries, Option.some.injEq] at hc
      subst hc
      simp only [asItem, asVal, Bool.and_eq_true] at h
      intro kv hkv
      obtain ⟨x, hx, rfl⟩ := List.mem_map.1 hkv
      exact asKvs_mem items h.2 x hx
  | table t =>
    cases t with
    | mk items i d p dc sp =>
      simp only [citemEntries, CTbl.items, Option.some.injEq] at hc
      subst hc
      simp only [asItem, asTbl, Bool.and_eq_true] at h
      exact asItems_mem _ h.2
  | aot => simp [citemEntries] at hc

theorem as_elems (it : CItem) (h : asItem it = true) (l : List CItem) (hc : citemElems it = some l) :
    ∀ v ∈ l, asItem v = true := by
  cases it with
  | value v =>
    cases v with
    | scalar x r d =>
      cases x <;> simp [citemElems] at hc
      simp [asItem, asVal] at h
    | arr items t c d sp =>
      simp only [citemElems, Option.some.injEq] at hc
      subst hc
      simp only [asItem, asVal, Bool.and_eq_true] at h
      intro v hv
      obtain ⟨x, hx, rfl⟩ := List.mem_map.1 hv
      exact asVals_mem items h.2 x hx
    | inl => simp [citemElems] at hc
  | table t => simp [citemElems] at hc
  | aot ts sp =>
    simp only [citemElems, Option.some.injEq] at hc
    subst hc
    simp only [asItem, Bool.and_eq_true] at h
    intro v hv
    obtain ⟨x, hx, rfl⟩ := List.mem_map.1 hv
    exact asTbls_mem ts h.2 x hx

/-- the checker is sound -/
theorem allSpans_of_check (it : CItem) (h : asItem it = true) : AllSpans it := by
  intro n hn
  induction hn with
  | refl it => exact ⟨as_span it h, fun es k v hc hm => (as_entries it h es hc (k, v) hm).1⟩
  | entry hc hm _ ih => exact ih (as_entries _ h _ hc _ hm).2
  | elem hc hm _ ih => exact ih (as_elems _ h _ hc _ hm)

/-- on a parsed document that passes the check (every table has a span of its own or an entry), for a `TyOk`, `DtSafe` type -/
theorem T14_spanned_transparent_parsed (fl : TomlValue.Flavour) (t : STy) (text : Bytes) (doc : CDoc)
    (_hp : parseCst text = some doc) (hc : asItem (.table doc.root) = true) (ht : TyOk t = true) (hd : DtSafe t = true) :
    lmap stripDec (decodeSp fl t (.table doc.root)) = decodeLoc fl (strip t) (.table doc.root) :=
  T14_spanned_transparent_uniform fl t _ ht (allSpans_of_check _ hc) (Or.inl hd)

/-! ## non-vacuity: `a.b = 1` (a dotted table without a span of its own) and `[[t]]` / inline tables -/

example : (parseCst Props.C14Spanned.exDotted).map (fun d => asItem (.table d.root)) = some true := by decide +kernel
/-- `x = [1, {y = 2}]⏎[[t]]⏎k.l = "s"⏎` -/
def exMixed : Bytes :=
  [0x78, 0x20, 0x3d, 0x20, 0x5b, 0x31, 0x2c, 0x20, 0x7b, 0x79, 0x20, 0x3d, 0x20, 0x32, 0x7d, 0x5d, 0x0a,
   0x5b, 0x5b, 0x74, 0x5d, 0x5d, 0x0a, 0x6b, 0x2e, 0x6c, 0x20, 0x3d, 0x20, 0x22, 0x73, 0x22, 0x0a]
example : (parseCst exMixed).map (fun d => asItem (.table d.root)) = some true := by decide +kernel
example : TyOk (.struct (.cons [0x61] (.spanned (.struct (.cons [0x62] (.spanned (.plain .bool)) false .nil))) false .nil)) = true ∧
    DtSafe (.struct (.cons [0x61] (.option (.spanned (.plain .bool))) false .nil)) = true ∧
    TyOk (.map (.spanned (.newtype .string)) (.spanned (.plain .bool))) = true ∧
    DtSafe (.map (.spanned .string) (.plain .bool)) = false := by decide

end TomlVerif.Props.C14SpannedUniform
