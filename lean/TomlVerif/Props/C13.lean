import TomlVerif.Lemmas.DeRoutes13
import TomlVerif.Props.C12
/-! C13 — the decoding routes present the same data to serde, except for date-times on the `toml::Value`
route (finding F7), and `Value::try_from` builds the tree the text route builds, except for date-times.
The statements are about Model/DeRoutes.lean; the parameters `dtAsMap` / `honourName` are the two lines of
`crates/toml/src/value.rs` the finding is about (`currentDtAsMap`, `currentHonourName` = the code as it stands). -/
namespace TomlVerif.Props.C13
open TomlVerif TomlVerif.Model TomlVerif.Model.TomlValue TomlVerif.Model.DeRoutes TomlVerif.Lemmas.DeRoutes13
open TomlVerif.Model.Datetime

/-- The model describes the code as it stands: `Value::Datetime` goes to `visit_string`, and
`ValueSerializer::serialize_struct` ignores the struct name (the check ties both switches to the source
text of value.rs). Once value.rs is repaired, both become `true` and `T13_de_routes_patched` /
`T13_try_from_patched` are the statements about the code. -/
theorem T13_current_code : currentDtAsMap = true ∧ currentHonourName = true := ⟨rfl, rfl⟩

/-- The full-strength statement: for every tree, `impl Deserializer for toml::Value` shows a visitor what
`toml_edit`'s `ValueDeserializer` shows for the same data. FALSE for `dtAsMap = false`, the code as it stands
(`T13_current_code`, `T13_finding_datetime`); true once `Value::Datetime` is presented as the private one-entry map
(`T13_de_routes_patched`). -/
def DeRoutesAgree (dtAsMap : Bool) : Prop := ∀ v : TV, presValue dtAsMap v = presEdit v

/-- T13_de_routes_partial: on trees without a date-time leaf the two presentations agree, whatever the
date-time presentation is. What is missing for the full statement is exactly the `Value::Datetime` arm. -/
theorem T13_de_routes_partial (dtAsMap : Bool) (v : TV) (h : noDt v = true) : presValue dtAsMap v = presEdit v :=
  presValue_eq_presEdit dtAsMap v h

/-- non-vacuity: `{ a = [1, "x"], t = { b = true } }` has no date-time leaf -/
example : noDt (.tbl [([97], .arr [.int 1, .str [120]]), ([116], .tbl [([98], .bool true)])]) = true := by rfl

/-- with the proposed patch (`Value::Datetime` → `visit_map` over the private key) the full statement holds -/
theorem T13_de_routes_patched : DeRoutesAgree true := presValue_true_eq

/-- T13_finding_datetime (F7, decoding direction): for the code as it stands the presentations differ on
every date-time leaf; `Datetime::deserialize` fails on the `toml::Value` route (it only implements
`visit_map`), and `Value::deserialize` turns the date-time into a string. -/
theorem T13_finding_datetime (d : Datetime) :
    presValue false (.dt d) ≠ presEdit (.dt d) ∧
    decodeDatetime (presValue false (.dt d)) = none ∧
    (∀ fl strict, visitValue fl strict (presValue false (.dt d)) = some (.str (Std.display d))) := by
  refine ⟨?_, ?_, ?_⟩
  · simp [presValue, presEdit, dtMap]
  · simp [presValue, decodeDatetime]
  · intro fl strict
    simp [presValue, visitValue]

/-- so the full statement is false as the code stands -/
theorem T13_de_routes_false : ¬ DeRoutesAgree false := by
  intro h
  exact (T13_finding_datetime ⟨none, none, none⟩).1 (h _)

/-- …while the `toml_edit` route (every text route: `toml::from_str`, `toml_edit::de::from_str`,
`from_slice`, `from_document`, the value deserializers) hands a valid date-time back unchanged, both to
`Datetime::deserialize` and to `Value::deserialize`. -/
theorem T13_datetime_edit_route (d : Datetime) (h : C12.FieldsInRange d) (hy : ∀ x, d.date = some x → x.year ≤ 9999) :
    decodeDatetime (presEdit (.dt d)) = some d ∧
    (∀ fl strict, visitValue fl strict (presEdit (.dt d)) = some (.dt d)) := by
  have hr := (C12.T12_roundtrip d h hy).1
  refine ⟨?_, ?_⟩
  · simp [presEdit, dtMap, decodeDatetime, hr]
  · intro fl strict
    simp [presEdit, dtMap, visitValue, hr]

/-- non-vacuity of `T13_datetime_edit_route`: 1979-05-27T07:32:00Z -/
example : C12.FieldsInRange ⟨some ⟨1979, 5, 27⟩, some ⟨7, 32, 0, 0⟩, some .z⟩ ∧
    (∀ x, (⟨some ⟨1979, 5, 27⟩, some ⟨7, 32, 0, 0⟩, some .z⟩ : Datetime).date = some x → x.year ≤ 9999) := by
  refine ⟨⟨?_, ?_, ?_, ?_⟩, ?_⟩
  · intro x hx; simp at hx; subst hx; simp [C12.DateInRange, maxDays]
  · intro t ht; simp at ht; subst ht; simp [C12.TimeInRange, C12.NanosInRange]
  · intro o ho; simp at ho; subst ho; trivial
  · simp [C12.ShapeOk]
  · intro x hx; simp at hx; subst hx; decide

/-- T13_thin: each `deserialize_*` entry point of the `toml::de` wrappers reaches the method of the same
name of the inner `toml_edit` deserializer (or `deserialize_any` where that one forwards too): the wrappers
add nothing. The two tables are tied to the `forward_to_deserialize_any!` lists of the sources by the check. -/
theorem T13_thin : ∀ m : Method, tomlWrapperDispatch m = editDispatch m := by
  intro m; cases m <;> rfl

/-- the root of F7 on the decoding side: `struct` is forwarded by `toml::Value`, handled by `toml_edit` -/
theorem T13_value_forwards_struct :
    valueDispatch .struct = .any ∧ editDispatch .struct = .struct ∧ (∀ m, m ≠ .struct → valueDispatch m = editDispatch m) := by
  refine ⟨rfl, rfl, ?_⟩
  intro m hm; cases m <;> first | rfl | exact absurd rfl hm

/-- F7, encoding direction: as the code stands `Value::try_from` of a date-time yields the private
one-entry table holding the printed form, for both map flavours, where the text route yields the date-time. -/
theorem T13_finding_try_from (fl : Flavour) (d : Datetime) :
    valueSerializer fl false (serCalls (.dt d)) = some (.tbl [(FIELD, .str (Std.display d))]) := by
  cases fl <;>
    simp [serCalls, valueSerializer, valueSerializerPairs, insertAllReplace, mapInsert,
      sortedInsert, aset, alookup]

/-- with the proposed patch (`serialize_struct` honours the private struct name) a valid date-time comes back -/
theorem T13_try_from_patched (fl : Flavour) (d : Datetime) (h : C12.FieldsInRange d)
    (hy : ∀ x, d.date = some x → x.year ≤ 9999) :
    valueSerializer fl true (serCalls (.dt d)) = some (.dt d) := by
  have hr := (C12.T12_roundtrip d h hy).1
  cases fl <;>
    simp [serCalls, valueSerializer, valueSerializerPairs, insertAllReplace, mapInsert,
      sortedInsert, aset, alookup, hr]

/-- T13_try_from_partial: on trees without a date-time leaf `Value::try_from` as it stands
(`honourName = false`) computes exactly what the repaired serializer computes; the only serde call on which
the two differ is `serialize_struct` under the private name, which only `Datetime::serialize` makes. -/
theorem T13_try_from_partial (fl : Flavour) (v : TV) (h : noDt v = true) :
    valueSerializer fl false (serCalls v) = valueSerializer fl true (serCalls v) :=
  (valueSerializer_honour_irrelevant fl (serCalls v) (serCalls_noNamed v h)).symm

end TomlVerif.Props.C13
