import TomlVerif.Lemmas.Fuel04
import TomlVerif.Lemmas.FuelValue04
import TomlVerif.Lemmas.FuelMono04
import TomlVerif.Lemmas.ValEq
/-! # C04 — fuel is never the reason for a rejection

The loops of the model take a fuel argument so that Lean accepts them as structurally recursive; the code
they model loops on the input.  The model's callers pass `length + 1` (string bodies, trivia, dotted keys,
the statement loop) or `3 * length + 4` (values).  The theorems below say that **beyond those bounds the
result no longer depends on the fuel**: any two amounts of fuel above the bound give the same result, so
no `.cut` / `.bt` / `none` the entry points return is due to fuel, and each loop "returns after a bounded
amount of work" (at most `length + 1`, resp. `3 * length + 4`, iterations). -/
namespace TomlVerif.Props.C04Fuel
open TomlVerif TomlVerif.Spec TomlVerif.Model TomlVerif.Model.Strings TomlVerif.Model.Value
open TomlVerif.Model.State TomlVerif.Model.Doc
open TomlVerif.Lemmas.Fuel04 TomlVerif.Lemmas.FuelValue04 TomlVerif.Lemmas.FuelMono04
open TomlVerif.Lemmas.ValEq (okIs okIs_sound)

/-- for the examples: `r` is `.cut` (`Val` has no derived `DecidableEq`) -/
def isCut {α} : Res α → Bool
  | .cut => true
  | _ => false
theorem isCut_sound {α} (r : Res α) (h : isCut r = true) : r = .cut := by
  cases r <;> simp [isCut] at h ⊢

/-! ## strings -/

/-- the three string-body loops: any fuel above the input length gives the same result (the callers
    `basicString`, `mlBasicString`, `mlLiteralString` pass `length + 1`) -/
theorem T04_fuel_strings (f₁ f₂ : Nat) (s acc : Bytes) (h1 : s.length < f₁) (h2 : s.length < f₂) :
    basicBody f₁ s acc = basicBody f₂ s acc ∧
    mlBasicBody f₁ s acc = mlBasicBody f₂ s acc ∧
    mlLiteralBody f₁ s acc = mlLiteralBody f₂ s acc :=
  ⟨basicBody_fuel f₁ f₂ s acc h1 h2, mlBasicBody_fuel f₁ f₂ s acc h1 h2, mlLiteralBody_fuel f₁ f₂ s acc h1 h2⟩

/-- non-vacuity: `a"` with fuel 3 and fuel 100; with fuel 2 (below the bound) the loop runs out -/
example : basicBody 3 [0x61, 0x22] [] = basicBody 100 [0x61, 0x22] [] :=
  (T04_fuel_strings 3 100 [0x61, 0x22] [] (by decide) (by decide)).1
example : basicBody 2 [0x61, 0x22, 0x62] [] = .ok [0x61] [0x62] ∧ basicBody 1 [0x61, 0x22, 0x62] [] = .cut := by decide

/-- the entry points in terms of any sufficient fuel -/
theorem T04_basicString_fuel (r : Bytes) (f : Nat) (h : r.length < f) :
    basicString (0x22 :: r) = basicBody f r [] := by
  unfold basicString
  exact basicBody_fuel _ _ r [] (by omega) h

/-- the `ws newline *(wschar / newline)` loop after a line-ending backslash (called with `length + 1`) -/
theorem T04_fuel_escapedNl (f₁ f₂ : Nat) (s : Bytes) (h1 : s.length < f₁) (h2 : s.length < f₂) :
    dropWsNewline f₁ s = dropWsNewline f₂ s ∧ mlbEscapedNl f₁ s = mlbEscapedNl f₂ s :=
  ⟨dropWsNewline_fuel f₁ f₂ s h1 h2, mlbEscapedNl_fuel f₁ f₂ s (by omega) (by omega)⟩

example : mlbEscapedNl 4 [0x20, 0x0A, 0x20] = mlbEscapedNl 50 [0x20, 0x0A, 0x20] :=
  (T04_fuel_escapedNl 4 50 [0x20, 0x0A, 0x20] (by decide) (by decide)).2

/-! ## trivia -/

/-- `ws_comment_newline`: any fuel above the input length gives the same result (all callers pass `length + 1`) -/
theorem T04_fuel_wcn (f₁ f₂ : Nat) (s : Bytes) (h1 : s.length < f₁) (h2 : s.length < f₂) :
    wsCommentNewline f₁ s = wsCommentNewline f₂ s :=
  wcn_fuel f₁ f₂ s h1 h2

/-- non-vacuity: ` #c␊␊x`; with too little fuel the loop stops early (and still returns `some`) -/
example : wsCommentNewline 7 [0x20, 0x23, 0x63, 0x0A, 0x0A, 0x78] = wsCommentNewline 60 [0x20, 0x23, 0x63, 0x0A, 0x0A, 0x78] :=
  T04_fuel_wcn 7 60 _ (by decide) (by decide)
example : wsCommentNewline 7 [0x20, 0x23, 0x63, 0x0A, 0x0A, 0x78] = some [0x78] ∧
    wsCommentNewline 1 [0x20, 0x23, 0x63, 0x0A, 0x0A, 0x78] = some [0x0A, 0x78] := by decide

/-! ## dotted keys -/

/-- `key`: any fuel above the input length gives the same result (`keyPath` passes `length + 1`) -/
theorem T04_fuel_keypath (f₁ f₂ : Nat) (s : Bytes) (acc : List Bytes) (h1 : s.length < f₁) (h2 : s.length < f₂) :
    keyPathAux f₁ s acc = keyPathAux f₂ s acc :=
  keyPathAux_fuel f₁ f₂ s acc h1 h2

/-- `keyPath` with any sufficient fuel -/
theorem T04_keyPath_fuel (s : Bytes) (f : Nat) (h : s.length < f) :
    keyPath s = match keyPathAux f s [] with
      | .ok ks r => if LIMIT ≤ ks.length then .bt else .ok ks r
      | other => other := by
  unfold keyPath
  rw [keyPathAux_fuel _ f s [] (by omega) h]
  cases keyPathAux f s [] <;> rfl

/-- non-vacuity: `a.b=` -/
example : keyPathAux 5 [0x61, 0x2E, 0x62, 0x3D] [] = keyPathAux 50 [0x61, 0x2E, 0x62, 0x3D] [] :=
  T04_fuel_keypath 5 50 _ [] (by decide) (by decide)
example : keyPathAux 5 [0x61, 0x2E, 0x62, 0x3D] [] = .ok [[0x61], [0x62]] [0x3D] ∧
    keyPathAux 1 [0x61, 0x2E, 0x62, 0x3D] [] = .ok [[0x61]] [0x2E, 0x62, 0x3D] := by decide

/-! ## values -/

/-- a *definite* result: the model returns `.cut` both for a committed failure and when it runs out of fuel;
    every other result (`.ok`, `.bt`) is definite, because running out of fuel anywhere inside surfaces as `.cut` -/
def Definite {α} (r : Res α) : Prop := r ≠ .cut

/-- **a definite result is never changed by more fuel** -/
theorem T04_fuel_mono (fuel d : Nat) (s : Bytes) (r : Res Val) (h : value fuel d s = r) (hd : Definite r)
    (fuel' : Nat) (hf : fuel ≤ fuel') : value fuel' d s = r := by
  subst h
  exact (monoGoal fuel).1 fuel' d s hf hd

/-- the same for the three inner loops -/
theorem T04_fuel_mono_inner (fuel fuel' d : Nat) (s : Bytes) (hf : fuel ≤ fuel') :
    (Definite (arrayValues fuel d s) → arrayValues fuel' d s = arrayValues fuel d s) ∧
    (∀ acc, Definite (arrayElems fuel d s acc) → arrayElems fuel' d s acc = arrayElems fuel d s acc) ∧
    (∀ acc, Definite (inlineKeyvals fuel d s acc) → inlineKeyvals fuel' d s acc = inlineKeyvals fuel d s acc) :=
  ⟨(monoGoal fuel).2.1 fuel' d s hf, fun acc => (monoGoal fuel).2.2.1 fuel' d s acc hf,
   fun acc => (monoGoal fuel).2.2.2 fuel' d s acc hf⟩

/-- non-vacuity: `[]` is read with fuel 2 and hence with any larger fuel; "definite" is needed: with fuel 1
    the result is `.cut`, which more fuel changes -/
example : value 2 0 [0x5B, 0x5D] = .ok (.arr []) [] ∧ Definite (value 2 0 [0x5B, 0x5D]) ∧ value 1 0 [0x5B, 0x5D] = .cut := by
  have : value 2 0 [0x5B, 0x5D] = .ok (.arr []) [] := okIs_sound _ _ _ (by decide +kernel)
  refine ⟨this, ?_, isCut_sound _ (by decide +kernel)⟩
  rw [this]; intro c; cases c

/-- **beyond the bound the result does not depend on the fuel** (the usable form): with at least
    `3 * length + 4` fuel — what `parseValue` and `keyvalLine` pass — every result, `.cut` included, is the
    same as with any larger fuel, so no rejection is due to fuel -/
theorem T04_fuel_enough (d : Nat) (s : Bytes) (f₁ f₂ : Nat) (h1 : 3 * s.length + 4 ≤ f₁) (h2 : f₁ ≤ f₂) :
    value f₁ d s = value f₂ d s :=
  (fuelGoal f₁).1 f₂ d s (by omega) (by omega)

/-- the sharper bounds the induction uses: `3 * length + 1` for `value`, `+ 3` for `arrayValues`, `+ 2` for
    `arrayElems`, `+ 3` for `inlineKeyvals`; any two amounts above the bound agree -/
theorem T04_fuel_enough_sharp (d : Nat) (s : Bytes) (f₁ f₂ : Nat) :
    (3 * s.length + 1 ≤ f₁ → 3 * s.length + 1 ≤ f₂ → value f₁ d s = value f₂ d s) ∧
    (3 * s.length + 3 ≤ f₁ → 3 * s.length + 3 ≤ f₂ → arrayValues f₁ d s = arrayValues f₂ d s) ∧
    (∀ acc, 3 * s.length + 2 ≤ f₁ → 3 * s.length + 2 ≤ f₂ → arrayElems f₁ d s acc = arrayElems f₂ d s acc) ∧
    (∀ acc, 3 * s.length + 3 ≤ f₁ → 3 * s.length + 3 ≤ f₂ → inlineKeyvals f₁ d s acc = inlineKeyvals f₂ d s acc) :=
  ⟨(fuelGoal f₁).1 f₂ d s, (fuelGoal f₁).2.1 f₂ d s, fun acc => (fuelGoal f₁).2.2.1 f₂ d s acc,
   fun acc => (fuelGoal f₁).2.2.2 f₂ d s acc⟩

/-- a rejection with the fuel the entry point passes is a rejection with every larger fuel -/
theorem T04_rejection_not_fuel (d : Nat) (s : Bytes) (h : value (3 * s.length + 4) d s = .cut) (f : Nat)
    (hf : 3 * s.length + 4 ≤ f) : value f d s = .cut := by
  rw [← T04_fuel_enough d s _ f (Nat.le_refl _) hf, h]

/-- `parseValue` with any sufficient fuel -/
theorem T04_parseValue_fuel (s : Bytes) (f : Nat) (hf : 3 * s.length + 4 ≤ f) :
    parseValue s = match value f 0 s with
      | .ok v [] => some v
      | _ => none := by
  unfold parseValue
  rw [T04_fuel_enough 0 s _ f (Nat.le_refl _) hf]
  cases value f 0 s with
  | ok v r => cases r <;> rfl
  | bt => rfl
  | cut => rfl

/-- the call in `keyvalLine` (fuel `3 * r1.length + 4` on the input `dropWs r1`) is above the bound too -/
theorem T04_keyvalLine_value_fuel (d : Nat) (r1 : Bytes) (f : Nat) (hf : 3 * r1.length + 4 ≤ f) :
    value (3 * r1.length + 4) d (dropWs r1) = value f d (dropWs r1) := by
  have := dropWs_len r1
  exact (fuelGoal _).1 f d (dropWs r1) (by omega) (by omega)

/-- no loop returns more input than it was given (what makes the bounds work) -/
theorem T04_value_rest_le (f d : Nat) (s : Bytes) (v : Val) (r : Bytes) (h : value f d s = .ok v r) :
    r.length ≤ s.length := value_len f d s v r h

/-- non-vacuity: `[[],{a=[]}]x` (12 bytes, bound 40): fuel 40 and fuel 1000 agree; it is a genuine result -/
example : value 40 0 [0x5B, 0x5B, 0x5D, 0x2C, 0x7B, 0x61, 0x3D, 0x5B, 0x5D, 0x7D, 0x5D, 0x78] =
    value 1000 0 [0x5B, 0x5B, 0x5D, 0x2C, 0x7B, 0x61, 0x3D, 0x5B, 0x5D, 0x7D, 0x5D, 0x78] :=
  T04_fuel_enough 0 _ 40 1000 (by decide) (by decide)
example : (value 40 0 [0x5B, 0x5B, 0x5D, 0x2C, 0x7B, 0x61, 0x3D, 0x5B, 0x5D, 0x7D, 0x5D, 0x78]).isOk = true := by decide +kernel
/-- a genuine `.cut` (an unclosed array) stays `.cut` whatever the fuel -/
example (f : Nat) (hf : 7 ≤ f) : value f 0 [0x5B] = .cut :=
  T04_rejection_not_fuel 0 [0x5B] (isCut_sound _ (by decide +kernel)) f hf

/-! ## the statement loop -/

/-- `lines`: any fuel above the input length gives the same result (`parseDocument` passes `length + 1`) -/
theorem T04_fuel_lines (f₁ f₂ : Nat) (st : ParseState) (s : Bytes) (h1 : s.length < f₁) (h2 : s.length < f₂) :
    lines f₁ st s = lines f₂ st s :=
  lines_fuel f₁ f₂ st s h1 h2

/-- every pass of the loop consumes at least one byte -/
theorem T04_line_progress (st st' : ParseState) (s r : Bytes) :
    (keyvalLine st s = some (st', r) → r.length < s.length) ∧ (tableLine st s = some (st', r) → r.length < s.length) :=
  ⟨keyvalLine_len st st' s r, tableLine_len st st' s r⟩

/-- `parseDocument` with any sufficient fuel: a rejected document is rejected whatever the fuel -/
theorem T04_parseDocument_fuel (s : Bytes) (f : Nat) (hf : s.length < f) :
    parseDocument s = match lines f {} (dropWs (stripBom s)) with
      | some st => intoDocument st
      | none => none := by
  have h1 : (stripBom s).length ≤ s.length := by
    unfold stripBom; split <;> simp; omega
  have h2 := dropWs_len (stripBom s)
  unfold parseDocument
  simp only []
  rw [lines_fuel _ f {} (dropWs (stripBom s)) (by omega) (by omega)]
  cases lines f {} (dropWs (stripBom s)) <;> rfl

/-- non-vacuity: `a=1␊` -/
example : lines 5 {} [0x61, 0x3D, 0x31, 0x0A] = lines 500 {} [0x61, 0x3D, 0x31, 0x0A] :=
  T04_fuel_lines 5 500 {} _ (by decide) (by decide)
example : (lines 5 {} [0x61, 0x3D, 0x31, 0x0A]).isSome = true ∧ (lines 1 {} [0x61, 0x3D, 0x31, 0x0A]).isSome = false := by
  decide +kernel

end TomlVerif.Props.C04Fuel
