import TomlVerif.Props.C03MoreDoc
import TomlVerif.Lemmas.Tiling03MoreOrdMain
/-! C03, continued — document-level tiling WITHOUT the pre-order requirement on headers.

    `nestRunV` (`Props/C03MoreDoc.lean`) demands, through `pathOk`, that every header segment
    naming an existing table names the LAST item of its parent, so that the sections of the tree
    are met in position order (`preorderDoc`) and the printer's sort by position is the identity.
    That excludes `"[a]\n[c]\n[a.b]\n"`, or a manifest with `[dependencies]`, `[package]`,
    `[dependencies.serde]` in that order — which print back exactly, because the printer SORTS the
    tables by their recorded position.

    The class here.  `ordRunV s` (`Lemmas/Tiling03MoreOrdState.lean`) is `nestRunV s` —
    `parse_document` re-run with a check at every header line and every key/value line, on the
    state the line meets — where the header check `pathOk` is replaced by `pathOkO`
    (`Lemmas/Tiling03MoreOrdTree.lean`): for a header `[p1.….pn.key]` / `[[…]]`, on the root after
    `finalize_table`,
      * every table on the way is not a dotted-key table;
      * a segment `pi` that names an existing entry — at ANY place among the items of its parent —
        names a table, or an array of tables with at least one element (the path continues in its
        last element), and is spelled like the stored key (`sameSeg`: key text and the white space
        inside the path);
      * the last key is new, or — for `[[…]]` only — names an array of tables and is spelled like
        the stored key including the white space around the path (`sameLeaf`).
    The check of key/value lines is unchanged (`kvLineOkV`: adjacent dotted keys spelled alike in
    table bodies and inside inline tables).

    Still excluded: respelled header segments, non-adjacent or respelled dotted keys, a header
    through a dotted-key table, and a `[t]` header on a table `t` that exists implicitly (from an
    earlier `[t.u]`): the parser accepts it and moves `t` to the end of its parent — such sources
    are outside `ordRunV` as they are outside `nestRunV` (see the last examples; they do print
    back exactly, which is not proved here).

    Why it holds (`Lemmas/Tiling03MoreOrd{Sort,Sum,Tree,State,Main}.lean`): the tables below the
    root are summarised in tree order by the `(position, text)` pairs of the tables with a
    recorded position; tables without one (implicit parents) are invisible whatever position
    they inherit, so they can be dropped before the stable sort; `finalize_table` inserts the
    pair of the finished table SOMEWHERE in the summary, with a position larger than all others,
    so after sorting it is last — the text of the sorted summary grows at its end, as the source
    does. -/
namespace TomlVerif.Props.C03More
open TomlVerif TomlVerif.Model TomlVerif.Model.Cst TomlVerif.Model.Encode
open TomlVerif.Lemmas.Cst03 TomlVerif.Lemmas.Tiling03 TomlVerif.Lemmas.Tiling03Hdr TomlVerif.Lemmas.Tiling03Nest
open TomlVerif.Lemmas.Tiling03More
open TomlVerif.Props.C03 TomlVerif.Props.C03Doc TomlVerif.Props.C03Hdr TomlVerif.Props.C03Nest

/-- class inclusion: the class of `T03_doc_tiling_sourceV` is inside the new one -/
theorem T03_nestRunV_ordRunV (s : Bytes) (h : nestRunV s = true) : ordRunV s = true :=
  nestRunV_O s h

/-- tiling proper, any source in the class: the recorded pieces concatenated verbatim are the
    source without its BOM, except that the CR LF ending a key/value or header line is written LF,
    plus the final LF -/
theorem T03_doc_verbatim_ord (s : Bytes) (d : CDoc) (h : parseCst s = some d) (hrun : ordRunV s = true) :
    ∃ out eol, verbatimDoc s d = out ++ eol ∧ EolRel out (Doc.stripBom s) ∧ EolOk eol (Doc.stripBom s) :=
  ord_doc_tiling id s d (FixOn.id s) h hrun

/-- the CRLF normalisation, any source in the class -/
theorem T03_doc_crlf_ord (s : Bytes) (d : CDoc) (h : parseCst s = some d) (hrun : ordRunV s = true) :
    ∃ eol, DropCr (printDoc s d) (Doc.stripBom s ++ eol) ∧
      stripCr (printDoc s d) = stripCr (Doc.stripBom s) ++ eol ∧ EolOk eol (Doc.stripBom s) := by
  obtain ⟨out, eol, h1, h2, h3⟩ := T03_doc_verbatim_ord s d h hrun
  have hd : DropCr (printDoc s d) (Doc.stripBom s ++ eol) := by
    have := T03_print_dropCr_verbatim s d
    rw [h1] at this
    exact this.trans (h2.toDropCr.append (DropCr.refl eol))
  refine ⟨eol, hd, ?_, h3⟩
  rw [hd.stripCr_eq, stripCr_append]
  rcases h3 with h3 | ⟨h3, _⟩ <;> subst h3 <;> rfl

/-- CR-free sources in the class: the source without its BOM plus the final LF -/
theorem T03_doc_norm_ord (s : Bytes) (d : CDoc) (h : parseCst s = some d) (hrun : ordRunV s = true)
    (hcr : ∀ b ∈ s, b ≠ 0x0D) : ∃ eol, printDoc s d = Doc.stripBom s ++ eol ∧ EolOk eol (Doc.stripBom s) := by
  obtain ⟨out, eol, h1, h2, h3⟩ := ord_doc_tiling stripCr s d (FixOn.stripCr s hcr) h hrun
  obtain ⟨base, hbase⟩ := stripBom_split s
  have hcr' : ∀ b ∈ Doc.stripBom s, b ≠ 0x0D := fun b hb => hcr b (by rw [hbase]; exact List.mem_append_right _ hb)
  exact ⟨eol, by rw [← h2.eq_of_noCr hcr']; exact h1, h3⟩

/-- T03_doc_tiling_ord: a source whose checked run passes — headers in ANY order, each segment
    spelled like the first time; dotted keys adjacent and spelled alike — without BOM and CR,
    ending in a newline, prints back byte for byte -/
theorem T03_doc_tiling_ord (s : Bytes) (d : CDoc) (h : parseCst s = some d) (hrun : ordRunV s = true)
    (hbom : Doc.stripBom s = s) (hcr : ∀ b ∈ s, b ≠ 0x0D) (hnl : s.getLast? = some 0x0A ∨ s = []) :
    printDoc s d = s := by
  rcases hnl with hnl | hnl
  · obtain ⟨eol, h1, c1⟩ := T03_doc_norm_ord s d h hrun hcr
    rw [hbom] at h1 c1
    rcases c1 with c1 | ⟨_, c1⟩
    · rw [h1, c1, List.append_nil]
    · exact absurd hnl c1
  · subst hnl
    rw [parseCst_nil] at h
    injection h with h; subst h
    rfl

theorem T03_print_fixpoint_ord (s : Bytes) (d : CDoc) (h : parseCst s = some d) (hrun : ordRunV s = true)
    (hbom : Doc.stripBom s = s) (hcr : ∀ b ∈ s, b ≠ 0x0D) (hnl : s.getLast? = some 0x0A ∨ s = []) :
    ∃ d', parseCst (printDoc s d) = some d' ∧ printDoc (printDoc s d) d' = printDoc s d := by
  have hp := T03_doc_tiling_ord s d h hrun hbom hcr hnl
  exact ⟨d, by rw [hp]; exact h, by rw [hp]; exact hp⟩

/-- comments are kept: every CR-free piece of the source occurs in the printed text -/
theorem T03_comments_kept_ord (s : Bytes) (d : CDoc) (h : parseCst s = some d) (hrun : ordRunV s = true)
    (c : Bytes) (hc : c <:+: Doc.stripBom s) (hcr : ∀ b ∈ c, b ≠ 0x0D) : c <:+: printDoc s d := by
  obtain ⟨eol, hd, _, _⟩ := T03_doc_crlf_ord s d h hrun
  exact DropCr.infix_noCr hd (hc.trans (List.infix_append' [] (Doc.stripBom s) eol |> fun h => by simpa using h)) hcr

/-! ### non-vacuity -/

/-- a sub-table after an unrelated section: in the new class, outside the old one (the tree is
    not in position order), printed back exactly -/
def exOrd1 : Bytes := strBytes "[a]\n[c]\n[a.b]\n"

example : (parseCst exOrd1).isSome = true ∧ ordRunV exOrd1 = true ∧ nestRunV exOrd1 = false ∧
    (parseCst exOrd1).map preorderDoc = some false ∧
    Doc.stripBom exOrd1 = exOrd1 ∧ (exOrd1.all fun b => b != 0x0D) = true ∧ exOrd1.getLast? = some 0x0A ∧
    (parseCst exOrd1).map (printDoc exOrd1) = some exOrd1 := by decide +kernel

/-- implicit parents, arrays of tables continued after other sections, a sub-table of the last
    array element, dotted keys in a body and inside an inline table, a comment -/
def exOrd2 : Bytes := strBytes
  "[x.y]\nk = 1\n[z]\n[[x.arr]]\n[q] # c\n[[x.arr]]\n[x.arr.sub]\nw.v = {a.b = 1, a.c = 2}\nw.u = 3\n[z.u]\n"

example : (parseCst exOrd2).isSome = true ∧ ordRunV exOrd2 = true ∧ nestRunV exOrd2 = false ∧
    (parseCst exOrd2).map (printDoc exOrd2) = some exOrd2 := by decide +kernel

/-- an explicit table first, its sub-tables and array elements later, between other sections -/
def exOrd3 : Bytes := strBytes
  "[x]\nj = 2\n[z]\n[x.y]\nk = 1\n[[x.arr]]\n[q]\n[[x.arr]]\n[x.arr.sub]\n"

example : (parseCst exOrd3).isSome = true ∧ ordRunV exOrd3 = true ∧ nestRunV exOrd3 = false ∧
    (parseCst exOrd3).map (printDoc exOrd3) = some exOrd3 := by decide +kernel

/-- a manifest with `[dependencies]`, `[package]`, `[dependencies.serde]` in that order -/
def exCargoOrd : Bytes := strBytes
  "[dependencies]\nfoo = \"1\"\n\n[package]\nname = \"x\" # c\n\n[dependencies.serde]\nversion = \"1\"\nfeatures = [\"derive\"]\n"

example : (parseCst exCargoOrd).isSome = true ∧ ordRunV exCargoOrd = true ∧ nestRunV exCargoOrd = false ∧
    Doc.stripBom exCargoOrd = exCargoOrd ∧ (exCargoOrd.all fun b => b != 0x0D) = true ∧
    exCargoOrd.getLast? = some 0x0A ∧
    (parseCst exCargoOrd).map (printDoc exCargoOrd) = some exCargoOrd := by decide +kernel

/-- the examples of the old classes are in the new one (`T03_nestRunV_ordRunV`) -/
example : nestRunV exCargoInline = true ∧ ordRunV exCargoInline = true ∧ ordRunV exMixed = true ∧
    ordRunV exCargo = true ∧ ordRunV exNestedCrlf = true := by decide +kernel

/-- CR LF line ends, no final newline: the normalising variants apply -/
example : ordRunV (strBytes "[a]\r\n[c]\r\n[a.b]\r\nx = 1") = true ∧
    (parseCst (strBytes "[a]\r\n[c]\r\n[a.b]\r\nx = 1")).map (printDoc (strBytes "[a]\r\n[c]\r\n[a.b]\r\nx = 1"))
      = some (strBytes "[a]\n[c]\n[a.b]\nx = 1\n") := by decide +kernel

/-! ### what the check still excludes -/

/-- a respelled header segment (only the first spelling of `a`, without the space after it, is
    kept): accepted, out of the class, not printed back -/
example : ordRunV (strBytes "[a]\n[c]\n[ a .b]\n") = false ∧
    (parseCst (strBytes "[a]\n[c]\n[ a .b]\n")).map (printDoc (strBytes "[a]\n[c]\n[ a .b]\n"))
      = some (strBytes "[a]\n[c]\n[ a.b]\n") := by decide +kernel

/-- a respelled `[[ a ]]` after another section -/
example : ordRunV (strBytes "[[a]]\n[c]\n[[ a ]]\n") = false ∧
    (parseCst (strBytes "[[a]]\n[c]\n[[ a ]]\n")).map (printDoc (strBytes "[[a]]\n[c]\n[[ a ]]\n"))
      = some (strBytes "[[a]]\n[c]\n[[a]]\n") := by decide +kernel

/-- non-adjacent dotted keys in a body (printed regrouped), with sections out of order -/
example : ordRunV (strBytes "[a]\nx.y = 1\nz = 2\nx.w = 3\n[c]\n[a.b]\n") = false ∧
    (parseCst (strBytes "[a]\nx.y = 1\nz = 2\nx.w = 3\n[c]\n[a.b]\n")).map
      (printDoc (strBytes "[a]\nx.y = 1\nz = 2\nx.w = 3\n[c]\n[a.b]\n"))
      = some (strBytes "[a]\nx.y = 1\nx.w = 3\nz = 2\n[c]\n[a.b]\n") := by decide +kernel

/-- the exclusions of `nestRunV` on key/value lines remain -/
example : ordRunV (strBytes "v = {a .b=1,a.c=2}\n") = false ∧
    ordRunV (strBytes "a .b = 1\na.c = 2\n") = false ∧
    ordRunV (strBytes "a.b = 1\nc = 2\na.d = 3\n") = false := by decide +kernel

/-- a `[t]` header on a table that exists implicitly: the parser takes the table over and moves
    it to the end of its parent; outside the class (as outside `nestRunV`), though printed back
    exactly — not covered by the theorems -/
example : ordRunV (strBytes "[x.y]\n[z]\n[x]\n") = false ∧
    (parseCst (strBytes "[x.y]\n[z]\n[x]\n")).map (printDoc (strBytes "[x.y]\n[z]\n[x]\n"))
      = some (strBytes "[x.y]\n[z]\n[x]\n") ∧
    ordRunV (strBytes "[x.y]\nk = 1\n[z]\n[x]\nj = 2\n[[x.arr]]\n[q]\n[[x.arr]]\n[x.arr.sub]\n") = false := by
  decide +kernel

end TomlVerif.Props.C03More
