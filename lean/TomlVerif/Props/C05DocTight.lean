import TomlVerif.Props.C05Doc
/-! # C05 at document level — the bound `3 * LIMIT - 2` is reached

`deepDoc 79 78` (6796 bytes): the 79 lines `[[a]]`, `[[a.a]]`, …, `[[a.….a]]` (79 components, the most a header may
have) make every key on the way an array of tables, and the line `b.….b=[]` (79 components, the value at recursion
depth 78, the deepest at which an array is still accepted) fills the last table.  The decoded tree is exactly
`K = 238` levels deep.  (One kernel evaluation of the document parser on the text, about 20 s.) -/
namespace TomlVerif.Props.C05Doc
open TomlVerif TomlVerif.Model TomlVerif.Lemmas.Depth05Doc

theorem deepDoc_tight : (Doc.parseDocument (deepDoc 79 78)).map nestTbl = some K := by decide +kernel

/-- the bound of `T05_document_depth` is attained by an accepted text -/
theorem T05_document_depth_tight : ∃ s T, Doc.parseDocument s = some T ∧ nestTbl T = K := by
  have h := deepDoc_tight
  cases hp : Doc.parseDocument (deepDoc 79 78) with
  | none => rw [hp] at h; cases h
  | some T =>
    rw [hp] at h
    exact ⟨deepDoc 79 78, T, hp, by simpa using h⟩

end TomlVerif.Props.C05Doc
