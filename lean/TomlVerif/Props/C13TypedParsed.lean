import TomlVerif.Lemmas.TypedGapsParsed
import TomlVerif.Props.C13Typed
import TomlVerif.Props.C01DocSound
/-! C13 for typed targets, on parsed documents: the well-formedness hypothesis `WfItem` of `T13_typed_routes_agree`
    splits into a part every tree returned by `parse_document` has (`WfItem'`: in every table at every depth — inline
    tables, tables, every element of every array of tables — the keys are distinct, and every date-time prints and
    re-reads; `T13_parsed_wf`, from the soundness of the parser `T01_document_sound`) and the part that stays a
    hypothesis (`NoPrivateKey`: no table has the private date-time key, known finding F24; `T13_F24_needed` shows the
    routes do return different values without it). -/
namespace TomlVerif.Props.C13TypedParsed
open TomlVerif TomlVerif.Model TomlVerif.Model.TomlValue TomlVerif.Model.DeRoutes TomlVerif.Model.DeTyped
open TomlVerif.Lemmas.DeTyped13 TomlVerif.Lemmas.TypedGapsParsed TomlVerif.Props.C13Typed

export TomlVerif.Lemmas.TypedGapsParsed (WfTV' WfVs' WfPs' NoPrivTV NoPrivVs NoPrivPs noPrivB noPrivB_iff)

/-- what the document parser guarantees: distinct keys in every table at every depth, date-times that print and
re-read (`WfTV'`, `WfVs'`, `WfPs'` are `WfTV`, `WfVs`, `WfPs` without the clause about the private key) -/
def WfItem' (it : Item) : Prop := WfTV' (plainItem it)

/-- what it does not: no table at any depth has the private date-time key (F24) -/
def NoPrivateKey (it : Item) : Prop := NoPrivTV (plainItem it)

/-- `WfItem` is exactly the two together -/
theorem wfItem_iff (it : Item) : WfItem it ↔ WfItem' it ∧ NoPrivateKey it := wfTV_iff (plainItem it)

/-- `NoPrivateKey` is decidable by `noPrivB` -/
theorem noPrivateKey_iff (it : Item) : NoPrivateKey it ↔ noPrivB (plainItem it) = true := (noPrivB_iff _).symm

/-- **T13_parsed_wf**: every table `parse_document` returns is well formed apart from the private key. By
`T01_document_sound` the table is what the definition state machine makes of the statements of a well-formed document
of the grammar; the values of those statements are good (`semQ_good`: scalars are what `value` reads from a scalar
token, so a date-time comes from `Doc.dateTime`, has its fields in range and a four-digit year, and `T12_roundtrip`
applies; the keys of an inline table are distinct at every level because `table_from_pairs` refuses a key that is
present), and every handler of the state machine keeps "keys distinct, values good" in every table, including all
elements of all arrays of tables (`run_good`). -/
theorem T13_parsed_wf (s : Bytes) (T : Tbl) (h : Doc.parseDocument s = some T) : WfItem' (.table T) := by
  obtain ⟨d, hw, _, hr⟩ := TomlVerif.Props.C01DocSound.T01_document_sound s T h
  cases hrun : TomlVerif.Lemmas.State09.run {} d.stmts with
  | none => simp [hrun] at hr
  | some st =>
    simp [hrun] at hr
    exact (gi_table T).2 (intoDocument_good st T (run_good d.stmts {} st inv2_init (stmts_good d hw) hrun) hr)

/-- a parsed document without the private key satisfies the hypothesis of `T13_typed_routes_agree` -/
theorem T13_parsed_wfItem (s : Bytes) (T : Tbl) (hp : Doc.parseDocument s = some T) (hk : NoPrivateKey (.table T)) :
    WfItem (.table T) :=
  (wfItem_iff _).2 ⟨T13_parsed_wf s T hp, hk⟩

/-- **T13_typed_routes_agree_parsed**: for every target type, both builds of the map and every accepted document none
of whose tables has the private date-time key, a text route and the route through `toml::Value` return equal results
whenever both succeed. -/
theorem T13_typed_routes_agree_parsed (fl : Flavour) (ty : Ty) (s : Bytes) (T : Tbl) (d d' : Dec)
    (hp : Doc.parseDocument s = some T) (hk : NoPrivateKey (.table T))
    (h1 : editRoute editAsIs fl ty (.table T) = .ok d) (h2 : valueRoute valueAsIs fl ty (.table T) = .ok d') : d = d' :=
  T13_typed_routes_agree fl ty (.table T) (T13_parsed_wfItem s T hp hk) d d' h1 h2

/-- the same through the `toml::de` wrappers (`toml::from_str::<T>` itself) -/
theorem T13_typed_routes_agree_parsed_toml (fl : Flavour) (ty : Ty) (s : Bytes) (T : Tbl) (d d' : Dec)
    (hp : Doc.parseDocument s = some T) (hk : NoPrivateKey (.table T))
    (h1 : tomlRoute editAsIs fl ty (.table T) = .ok d) (h2 : valueRoute valueAsIs fl ty (.table T) = .ok d') : d = d' :=
  T13_typed_routes_agree_toml fl ty (.table T) (T13_parsed_wfItem s T hp hk) d d' h1 h2

/-- the same for the route through `toml::Table` -/
theorem T13_typed_routes_agree_parsed_table (fl : Flavour) (ty : Ty) (s : Bytes) (T : Tbl) (d d' : Dec)
    (hp : Doc.parseDocument s = some T) (hk : NoPrivateKey (.table T))
    (h1 : editRoute editAsIs fl ty (.table T) = .ok d) (h2 : tableRoute valueAsIs fl ty (.table T) = .ok d') : d = d' :=
  T13_typed_routes_agree_table fl ty T (T13_parsed_wfItem s T hp hk) d d' h1 h2

/-! ### non-vacuity -/

/-- an inline table, a value, an array of tables with a date-time; keys out of order -/
def exText : Bytes := strBytes "b = { y = 1 }\na = 2\n[[t]]\nd = 1979-05-27\n"

/-- `struct { a: i64, b: BTreeMap<String, i64>, t: Vec<struct { d: Datetime }> }` -/
def exTy : Ty :=
  .struct (.cons [97] i64 false (.cons [98] (.map i64) false
    (.cons [116] (.seq (.struct (.cons [100] .datetime false .nil))) false .nil)))

theorem exText_accepted : (Doc.parseDocument exText).isSome = true := by decide +kernel

/-- the text is accepted, its table has no private key, and the three routes succeed (so the three theorems above
apply to it with both hypotheses and both premises true) -/
example : ∃ T, Doc.parseDocument exText = some T ∧ NoPrivateKey (.table T) ∧
    isOk (editRoute editAsIs .sorted exTy (.table T)) = true ∧
    isOk (tomlRoute editAsIs .sorted exTy (.table T)) = true ∧
    isOk (valueRoute valueAsIs .sorted exTy (.table T)) = true ∧
    isOk (tableRoute valueAsIs .sorted exTy (.table T)) = true := by
  cases h : Doc.parseDocument exText with
  | none => have := exText_accepted; rw [h] at this; cases this
  | some T =>
    have e : (Doc.parseDocument exText).getD Tbl.empty = T := by rw [h]; rfl
    refine ⟨T, rfl, ?_, ?_, ?_, ?_, ?_⟩
    · rw [noPrivateKey_iff, ← e]; decide +kernel
    · rw [← e]; decide +kernel
    · rw [← e]; decide +kernel
    · rw [← e]; decide +kernel
    · rw [← e]; decide +kernel

/-! ### the hypothesis about the private key is needed (F24) -/

/-- `"$__toml_private_datetime" = "1979-05-27"` and `b = 1` -/
def privText : Bytes := strBytes "\"$__toml_private_datetime\" = \"1979-05-27\"\nb = 1\n"

/-- `struct { b: Option<i64> }` -/
def privTy : Ty := .struct (.cons [98] (.option i64) false .nil)

theorem privText_accepted : (Doc.parseDocument privText).isSome = true := by decide +kernel

/-- reads off whether the one field of a decoded one-field struct is `Some` (`Dec` has no decidable equality) -/
def fieldIsSome : R Dec → Option Bool
  | .ok (.struct [(_, .some _)]) => some true
  | .ok (.struct [(_, .none)]) => some false
  | _ => none

/-- **T13_F24_needed**: without `NoPrivateKey` the conclusion of `T13_typed_routes_agree_parsed` is false. The accepted
text `privText` has the private key at the root (and satisfies `WfItem'`, like every accepted text); both routes
succeed and return different values: `toml_edit`'s deserializer reads `b = Some(1)`, whereas `toml::Value`'s visitor
takes the table for a date-time (dropping `b`), and its deserializer answers `b = None`. -/
theorem T13_F24_needed : ∃ T d d', Doc.parseDocument privText = some T ∧ ¬ NoPrivateKey (.table T) ∧ WfItem' (.table T) ∧
    editRoute editAsIs .sorted privTy (.table T) = .ok d ∧
    valueRoute valueAsIs .sorted privTy (.table T) = .ok d' ∧ d ≠ d' := by
  cases h : Doc.parseDocument privText with
  | none => have := privText_accepted; rw [h] at this; cases this
  | some T =>
    have e : (Doc.parseDocument privText).getD Tbl.empty = T := by rw [h]; rfl
    have h1 : fieldIsSome (editRoute editAsIs .sorted privTy (.table T)) = some true := by rw [← e]; decide +kernel
    have h2 : fieldIsSome (valueRoute valueAsIs .sorted privTy (.table T)) = some false := by rw [← e]; decide +kernel
    cases hE : editRoute editAsIs .sorted privTy (.table T) with
    | error x => rw [hE] at h1; simp [fieldIsSome] at h1
    | ok d =>
      cases hV : valueRoute valueAsIs .sorted privTy (.table T) with
      | error x => rw [hV] at h2; simp [fieldIsSome] at h2
      | ok d' =>
        refine ⟨T, d, d', rfl, ?_, T13_parsed_wf _ T h, hE, hV, ?_⟩
        · rw [noPrivateKey_iff, ← e]; decide +kernel
        · intro hd
          rw [hE] at h1; rw [hV, ← hd, h1] at h2
          cases h2

end TomlVerif.Props.C13TypedParsed
