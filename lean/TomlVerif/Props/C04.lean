import TomlVerif.Model.Doc
import TomlVerif.Lemmas.ByteDecide
/-! # C04 — no input makes the library panic, abort or hang

The models are total functions: every entry point returns a value for every byte string (Lean
accepts no partial definition here), so "returns a result or an error" holds by construction of
the model; what needs proof is that the *code's* panic sites are guarded (below and in
`Model/PanicSites.lean`) and that the fuel the model runs on is never the reason for a rejection. -/
namespace TomlVerif.Props.C04
open TomlVerif TomlVerif.Spec

/-- every byte class handed to `from_utf8_unchecked` is ASCII-only, so the `unsafe` blocks' precondition holds -/
theorem T04_ascii_wschar : ∀ b, isWschar b = true → b < 0x80 := forall_byte (by decide +kernel)
theorem T04_ascii_unquoted : ∀ b, isUnquotedChar b = true → b < 0x80 := forall_byte (by decide +kernel)
theorem T04_ascii_digit : ∀ b, isDigit b = true → b < 0x80 := forall_byte (by decide +kernel)
theorem T04_ascii_hexdig : ∀ b, isHexdig b = true → b < 0x80 := forall_byte (by decide +kernel)
theorem T04_ascii_digit0_7 : ∀ b, isDigit0_7 b = true → b < 0x80 := forall_byte (by decide +kernel)
theorem T04_ascii_digit0_1 : ∀ b, isDigit0_1 b = true → b < 0x80 := forall_byte (by decide +kernel)

/-- a list of ASCII bytes is well-formed UTF-8 -/
theorem T04_ascii_valid (s : Bytes) (h : ∀ b ∈ s, b < 0x80) : Utf8.valid s = true := by
  induction s with
  | nil => rfl
  | cons b r ih =>
    have hb : b < 0x80 := h b (by simp)
    have hr : ∀ x ∈ r, x < 0x80 := fun x hx => h x (by simp [hx])
    unfold Utf8.valid
    simp [hb, ih hr]

end TomlVerif.Props.C04
