import TomlVerif.Props.C03More
import TomlVerif.Props.C03MoreInline
import TomlVerif.Lemmas.Tiling03MoreDocMain
/-! C03, continued — document-level tiling with dotted keys INSIDE inline tables (stage C of
    `Props/C03Nest.lean` joined with the value class of `Props/C03MoreInline.lean`).

    The class is source-side only: `nestRunV s` (`Lemmas/Tiling03MoreDoc.lean`) is `nestRun true s`
    — `parse_document` re-run with `hdrLineOk` at every header line and the dotted-key check
    `dottedOk` at every key/value line — where the requirement on the VALUE of a key/value line is
    relaxed from `simpleVal v` (no dotted key inside any inline table) to the checked run of the
    value parser, `okValue s (3 * r1.length + 4) (ks.length - 1) (dropWs r1)`: inside every inline
    table of the value, a key segment that names an existing entry names the LAST entry of its
    table so far, a dotted inline table, and is spelled like the stored key. -/
namespace TomlVerif.Props.C03More
open TomlVerif TomlVerif.Model TomlVerif.Model.Cst TomlVerif.Model.Encode
open TomlVerif.Lemmas.Cst03 TomlVerif.Lemmas.Tiling03 TomlVerif.Lemmas.Tiling03Hdr TomlVerif.Lemmas.Tiling03Nest
open TomlVerif.Lemmas.Tiling03More
open TomlVerif.Props.C03 TomlVerif.Props.C03Doc TomlVerif.Props.C03Hdr TomlVerif.Props.C03Nest

/-- the tree side follows from the source side: the tree a checked run builds has no root
    decor, its tables are met in position order, every header has an explicit prefix decor -/
theorem T03_preorder_of_runV (s : Bytes) (d : CDoc) (h : parseCst s = some d) (hrun : nestRunV s = true) :
    preorderDoc d = true :=
  (nest_doc_tilingV id s d (FixOn.id s) h hrun).1

/-- class inclusion: the class of `T03_doc_tiling_source` is inside the new one -/
theorem T03_nestRun_nestRunV (s : Bytes) (h : nestRun true s = true) : nestRunV s = true :=
  nestRun_V s h

/-- tiling proper, any source in the class: the recorded pieces concatenated verbatim are the
    source without its BOM, except that the CR LF ending a key/value or header line is written LF,
    plus the final LF -/
theorem T03_doc_verbatim_sourceV (s : Bytes) (d : CDoc) (h : parseCst s = some d) (hrun : nestRunV s = true) :
    ∃ out eol, verbatimDoc s d = out ++ eol ∧ EolRel out (Doc.stripBom s) ∧ EolOk eol (Doc.stripBom s) :=
  (nest_doc_tilingV id s d (FixOn.id s) h hrun).2

/-- the CRLF normalisation, any source in the class -/
theorem T03_doc_crlf_sourceV (s : Bytes) (d : CDoc) (h : parseCst s = some d) (hrun : nestRunV s = true) :
    ∃ eol, DropCr (printDoc s d) (Doc.stripBom s ++ eol) ∧
      stripCr (printDoc s d) = stripCr (Doc.stripBom s) ++ eol ∧ EolOk eol (Doc.stripBom s) := by
  obtain ⟨out, eol, h1, h2, h3⟩ := T03_doc_verbatim_sourceV s d h hrun
  have hd : DropCr (printDoc s d) (Doc.stripBom s ++ eol) := by
    have := T03_print_dropCr_verbatim s d
    rw [h1] at this
    exact this.trans (h2.toDropCr.append (DropCr.refl eol))
  refine ⟨eol, hd, ?_, h3⟩
  rw [hd.stripCr_eq, stripCr_append]
  rcases h3 with h3 | ⟨h3, _⟩ <;> subst h3 <;> rfl

/-- CR-free sources in the class: the source without its BOM plus the final LF -/
theorem T03_doc_norm_sourceV (s : Bytes) (d : CDoc) (h : parseCst s = some d) (hrun : nestRunV s = true)
    (hcr : ∀ b ∈ s, b ≠ 0x0D) : ∃ eol, printDoc s d = Doc.stripBom s ++ eol ∧ EolOk eol (Doc.stripBom s) := by
  obtain ⟨out, eol, h1, h2, h3⟩ := (nest_doc_tilingV stripCr s d (FixOn.stripCr s hcr) h hrun).2
  obtain ⟨base, hbase⟩ := stripBom_split s
  have hcr' : ∀ b ∈ Doc.stripBom s, b ≠ 0x0D := fun b hb => hcr b (by rw [hbase]; exact List.mem_append_right _ hb)
  exact ⟨eol, by rw [← h2.eq_of_noCr hcr']; exact h1, h3⟩

/-- T03_doc_tiling_sourceV: a source whose checked run passes (headers as in
    `T03_doc_tiling_source`; dotted keys adjacent and spelled alike, in table bodies AND inside
    inline tables at any depth of the values) without BOM and CR, ending in a newline, prints back
    byte for byte -/
theorem T03_doc_tiling_sourceV (s : Bytes) (d : CDoc) (h : parseCst s = some d) (hrun : nestRunV s = true)
    (hbom : Doc.stripBom s = s) (hcr : ∀ b ∈ s, b ≠ 0x0D) (hnl : s.getLast? = some 0x0A ∨ s = []) :
    printDoc s d = s := by
  rcases hnl with hnl | hnl
  · obtain ⟨eol, h1, c1⟩ := T03_doc_norm_sourceV s d h hrun hcr
    rw [hbom] at h1 c1
    rcases c1 with c1 | ⟨_, c1⟩
    · rw [h1, c1, List.append_nil]
    · exact absurd hnl c1
  · subst hnl
    rw [parseCst_nil] at h
    injection h with h; subst h
    rfl

theorem T03_print_fixpoint_sourceV (s : Bytes) (d : CDoc) (h : parseCst s = some d) (hrun : nestRunV s = true)
    (hbom : Doc.stripBom s = s) (hcr : ∀ b ∈ s, b ≠ 0x0D) (hnl : s.getLast? = some 0x0A ∨ s = []) :
    ∃ d', parseCst (printDoc s d) = some d' ∧ printDoc (printDoc s d) d' = printDoc s d := by
  have hp := T03_doc_tiling_sourceV s d h hrun hbom hcr hnl
  exact ⟨d, by rw [hp]; exact h, by rw [hp]; exact hp⟩

/-- comments are kept: every CR-free piece of the source occurs in the printed text -/
theorem T03_comments_kept_sourceV (s : Bytes) (d : CDoc) (h : parseCst s = some d) (hrun : nestRunV s = true)
    (c : Bytes) (hc : c <:+: Doc.stripBom s) (hcr : ∀ b ∈ c, b ≠ 0x0D) : c <:+: printDoc s d := by
  obtain ⟨eol, hd, _, _⟩ := T03_doc_crlf_sourceV s d h hrun
  exact DropCr.infix_noCr hd (hc.trans (List.infix_append' [] (Doc.stripBom s) eol |> fun h => by simpa using h)) hcr

/-! ### non-vacuity -/

/-- a manifest with dotted keys inside an inline table and inside an inline table in an array -/
def exCargoInline : Bytes := strBytes
  "[dependencies]\nserde = { version = \"1\", features.default = false, features.full = true }\nx = [ {a.b = 1, a.c = 2} ] # c\n"

/-- in the new class, outside the old one, and printed back exactly -/
example : (parseCst exCargoInline).isSome = true ∧ nestRunV exCargoInline = true ∧
    nestRun true exCargoInline = false ∧
    Doc.stripBom exCargoInline = exCargoInline ∧ (exCargoInline.all fun b => b != 0x0D) = true ∧
    exCargoInline.getLast? = some 0x0A ∧
    (parseCst exCargoInline).map (printDoc exCargoInline) = some exCargoInline := by decide +kernel

/-- dotted keys in the body and inside the value, nested headers, an array of tables -/
def exMixed : Bytes := strBytes
  "# top\nt.u = { p . q = 1, p . r = [ { z.a = 1, z.b = 2 } ] }\nt.v = 2\n\n[a.b]\nk = {x.y.z = 1, x.y.w = 2, x.v = 3}\n[[a.c]]\n[[a.c]]\nm.n = {}\n"

example : (parseCst exMixed).isSome = true ∧ nestRunV exMixed = true ∧ nestRun true exMixed = false ∧
    (parseCst exMixed).map preorderDoc = some true ∧
    (parseCst exMixed).map (printDoc exMixed) = some exMixed := by decide +kernel

/-- the examples of the old class are in the new one (`T03_nestRun_nestRunV`) -/
example : nestRun true exCargo = true ∧ nestRunV exCargo = true ∧ nestRunV exNestedCrlf = true := by
  decide +kernel

/-- CR LF line ends with a dotted inline table: the normalising variants apply -/
example : nestRunV (strBytes "a = {b.c = 1, b.d = 2}\r\n[t]\r\nx = 1") = true ∧
    (parseCst (strBytes "a = {b.c = 1, b.d = 2}\r\n[t]\r\nx = 1")).map
      (printDoc (strBytes "a = {b.c = 1, b.d = 2}\r\n[t]\r\nx = 1"))
      = some (strBytes "a = {b.c = 1, b.d = 2}\n[t]\nx = 1\n") := by decide +kernel

/-! ### what the check excludes -/

/-- a respelled prefix inside an inline table of a key/value line (F15 at the document level):
    accepted, out of the class, printed with the first spelling -/
example : nestRunV (strBytes "v = {a .b=1,a.c=2}\n") = false ∧
    (parseCst (strBytes "v = {a .b=1,a.c=2}\n")).map (printDoc (strBytes "v = {a .b=1,a.c=2}\n"))
      = some (strBytes "v = {a .b=1,a .c=2}\n") := by decide +kernel

/-- non-adjacent dotted keys inside an inline table: printed regrouped -/
example : nestRunV (strBytes "v = {a.b=1,c=2,a.d=3}\n") = false ∧
    (parseCst (strBytes "v = {a.b=1,c=2,a.d=3}\n")).map (printDoc (strBytes "v = {a.b=1,c=2,a.d=3}\n"))
      = some (strBytes "v = {a.b=1,a.d=3,c=2}\n") := by decide +kernel

/-- the body-level exclusions of `nestRun` remain -/
example : nestRunV (strBytes "a .b = 1\na.c = 2\n") = false ∧
    nestRunV (strBytes "a.b = 1\nc = 2\na.d = 3\n") = false ∧
    nestRunV (strBytes "[[c]]\n[[ c ]]\n") = false := by decide +kernel

end TomlVerif.Props.C03More
