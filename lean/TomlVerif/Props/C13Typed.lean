import TomlVerif.Lemmas.DeTyped13f
import TomlVerif.Props.C13
/-! C13 for typed targets: for EVERY target type of the grammar `Ty` (Model/DeTyped.lean) and every parsed tree, the
    decoding routes of the two crates agree on their results; where their verdicts can differ is characterised exactly.

    `decodeEdit` follows `toml_edit::de::ValueDeserializer` (every text route: `toml::from_str`,
    `toml_edit::de::from_str / from_slice / from_document`, the value deserializers), `decodeValue` follows
    `impl Deserializer for toml::Value / toml::Table` (`try_into`). The description of serde they share is the trusted
    part (header of Model/DeTyped.lean); both are tied to the real code by the correspondence run of the check. -/
namespace TomlVerif.Props.C13Typed
open TomlVerif TomlVerif.Model TomlVerif.Model.TomlValue TomlVerif.Model.DeRoutes TomlVerif.Model.DeTyped
open TomlVerif.Lemmas.DeTyped13 TomlVerif.Lemmas.RoundTrip17

/-- T13_typed_wrappers_thin: `toml::de::Deserializer` / `toml::de::ValueDeserializer` add nothing — whatever the
type, the route through them is the `toml_edit` route (each wrapper method calls the inner method of the same name,
`T13_thin`). -/
theorem T13_typed_wrappers_thin (c : EditCfg) (fl : Flavour) (ty : Ty) (it : Item) :
    tomlRoute c fl ty it = editRoute c fl ty it := by
  unfold tomlRoute editRoute
  rw [C13.T13_thin]

/-- the entry point is the method the type calls, so the route is `decodeEdit` -/
theorem T13_typed_edit_route (c : EditCfg) (fl : Flavour) (ty : Ty) (it : Item) :
    editRoute c fl ty it = decodeEdit c fl ty it := by
  simp [editRoute, editEntry]

/-- T13_typed_lenient_equal: apart from the three checks (`EditCfg`, `ValueCfg`) the two deserializer families are
the same function of the target type and of the data in document order — verdict and value. -/
theorem T13_typed_lenient_equal (fl : Flavour) (ty : Ty) (it : Item) :
    decodeEdit editLenient fl ty it = decodeValue valueLenient fl ty (plainItem it) :=
  lenient_ty fl ty it

/-- T13_typed_checks_only_reject (toml_edit): key validation in struct variants and serde's `StringDeserializer` under
a date-time only turn successes into errors, they never change a value. -/
theorem T13_typed_checks_only_reject_edit (c : EditCfg) (fl : Flavour) (ty : Ty) (it : Item) (d : Dec)
    (h : decodeEdit c fl ty it = .ok d) : decodeEdit editLenient fl ty it = .ok d :=
  edit_mono c fl ty it d h

/-- T13_typed_checks_only_reject (toml::Value): "fewer elements in array / map" only turns successes into errors. -/
theorem T13_typed_checks_only_reject_value (c : ValueCfg) (fl : Flavour) (ty : Ty) (v : TV) (d : Dec)
    (h : decodeValue c fl ty v = .ok d) : decodeValue valueLenient fl ty v = .ok d :=
  value_mono c fl ty v d h

/-- T13_typed_results_agree_docorder: whatever the switches (in particular the code as it stands), when
`toml_edit`'s deserializer and `toml::Value`'s deserializer both succeed on the same data in the same entry order,
they return the same value. -/
theorem T13_typed_results_agree_docorder (ce : EditCfg) (cv : ValueCfg) (fl : Flavour) (ty : Ty) (it : Item) (d d' : Dec)
    (h1 : decodeEdit ce fl ty it = .ok d) (h2 : decodeValue cv fl ty (plainItem it) = .ok d') : d = d' := by
  have a := edit_mono ce fl ty it d h1
  have b := value_mono cv fl ty _ d' h2
  rw [lenient_ty] at a
  rw [a] at b
  cases b; rfl

/-- non-vacuity: `struct S { a: i64, b: Option<String> }` from `{ a = 1 }` succeeds on both sides -/
example :
    decodeEdit editAsIs .sorted (.struct (.cons [97] (.int (-9223372036854775808) 9223372036854775807) false
        (.cons [98] (.option .string) false .nil))) (.value (.inl [([97], .int 1)] false false)) =
      .ok (.struct [([97], .int 1), ([98], .none)]) ∧
    decodeValue valueAsIs .sorted (.struct (.cons [97] (.int (-9223372036854775808) 9223372036854775807) false
        (.cons [98] (.option .string) false .nil))) (plainItem (.value (.inl [([97], .int 1)] false false))) =
      .ok (.struct [([97], .int 1), ([98], .none)]) := by
  constructor <;> rfl

/-- T13_typed_verdicts: on the same data in the same order the two families can only disagree — and then only in
the verdict — where one of the three checks changes the outcome of its own side. -/
theorem T13_typed_verdicts (fl : Flavour) (ty : Ty) (it : Item)
    (h : decodeEdit editAsIs fl ty it ≠ decodeValue valueAsIs fl ty (plainItem it)) :
    decodeEdit editAsIs fl ty it ≠ decodeEdit editLenient fl ty it ∨
      decodeValue valueAsIs fl ty (plainItem it) ≠ decodeValue valueLenient fl ty (plainItem it) := by
  by_cases h1 : decodeEdit editAsIs fl ty it = decodeEdit editLenient fl ty it
  · right
    intro h2
    exact h (by rw [h1, h2, lenient_ty])
  · exact Or.inl h1

/-- what the document parser guarantees about a tree, as far as the routes look: in every table the keys are
distinct and none is the private date-time key (known finding F24 is about exactly that key), and a date-time
prints and re-reads (`C12.T12_roundtrip` for every date-time whose fields are in range) -/
def WfItem (it : Item) : Prop := WfTV (plainItem it)

def isOk {α} : R α → Bool
  | .ok _ => true
  | .error _ => false

def i64 : Ty := .int (-9223372036854775808) 9223372036854775807

/-- T13_typed_routes_agree (build with `preserve_order`): for every target type and every well-formed parsed tree,
the text routes and the routes through `toml::Value` / `toml::Table` return equal results whenever they succeed. -/
theorem T13_typed_routes_agree_insertion (ty : Ty) (it : Item) (hw : WfItem it) (d d' : Dec)
    (h1 : editRoute editAsIs .insertion ty it = .ok d) (h2 : valueRoute valueAsIs .insertion ty it = .ok d') : d = d' := by
  rw [T13_typed_edit_route] at h1
  unfold valueRoute at h2
  rw [value_of_item .insertion it hw, place_insertion_id _ (wf_nodup _ hw)] at h2
  exact T13_typed_results_agree_docorder _ _ _ ty it d d' h1 h2

/-- T13_typed_sorted_agree: reordering the entries of every table into key order (what a `BTreeMap` does) never
changes the value `impl Deserializer for toml::Value` returns — it can only change the verdict (`T13_split_entry_order`). -/
theorem T13_typed_sorted_agree (c c' : ValueCfg) (ty : Ty) (v : TV) (hw : WfTV v) (d d' : Dec)
    (h1 : decodeValue c .sorted ty v = .ok d) (h2 : decodeValue c' .sorted ty (placeTV .sorted v) = .ok d') : d = d' :=
  sorted_ty ty v hw d d' (value_mono c .sorted ty v d h1) (value_mono c' .sorted ty _ d' h2)

/-- **T13_typed_routes_agree**: for every target type of the grammar, both builds of the map (`BTreeMap`, and
`IndexMap` with `preserve_order`), and every well-formed parsed tree: a text route (`toml::from_str`,
`toml_edit::de::from_str / from_slice / from_document`, the value deserializers — all `editRoute`, `T13_typed_wrappers_thin`)
and the route through `toml::Value` (`from_str::<Value>` then `try_into`) return equal results whenever both succeed. -/
theorem T13_typed_routes_agree (fl : Flavour) (ty : Ty) (it : Item) (hw : WfItem it) (d d' : Dec)
    (h1 : editRoute editAsIs fl ty it = .ok d) (h2 : valueRoute valueAsIs fl ty it = .ok d') : d = d' := by
  cases fl with
  | insertion => exact T13_typed_routes_agree_insertion ty it hw d d' h1 h2
  | sorted =>
    rw [T13_typed_edit_route] at h1
    unfold valueRoute at h2
    rw [value_of_item .sorted it hw] at h2
    have a := edit_mono editAsIs .sorted ty it d h1
    rw [lenient_ty] at a
    exact T13_typed_sorted_agree valueLenient valueAsIs ty (plainItem it) hw d d' a h2

/-- the same through the `toml::de` wrappers (`toml::from_str::<T>` itself) -/
theorem T13_typed_routes_agree_toml (fl : Flavour) (ty : Ty) (it : Item) (hw : WfItem it) (d d' : Dec)
    (h1 : tomlRoute editAsIs fl ty it = .ok d) (h2 : valueRoute valueAsIs fl ty it = .ok d') : d = d' := by
  rw [T13_typed_wrappers_thin] at h1
  exact T13_typed_routes_agree fl ty it hw d d' h1 h2

/-- the route through `toml::Table` (the root of a document) is the route through `toml::Value` of that table
(`impl Deserializer for Table` delegates to `Value::Table`): whenever it succeeds, the `Value` route succeeds with the
same result -/
theorem T13_typed_table_route (c : ValueCfg) (fl : Flavour) (ty : Ty) (t : Tbl) (hw : WfItem (.table t)) (d : Dec)
    (h : tableRoute c fl ty (.table t) = .ok d) : valueRoute c fl ty (.table t) = .ok d := by
  unfold tableRoute at h
  unfold valueRoute
  rw [value_of_item fl _ hw]
  rw [presOfItem_eq] at h
  unfold WfItem at hw
  obtain ⟨items, a, b, c⟩ := t
  simp only [plainItem, plainTbl] at h hw ⊢
  rw [WfTV] at hw
  simp only [presEdit, visitTable, visitPairs_presEdit_wf fl false _ hw.1, Option.map_some] at h
  simpa only [placeTV] using h

theorem T13_typed_routes_agree_table (fl : Flavour) (ty : Ty) (t : Tbl) (hw : WfItem (.table t)) (d d' : Dec)
    (h1 : editRoute editAsIs fl ty (.table t) = .ok d) (h2 : tableRoute valueAsIs fl ty (.table t) = .ok d') : d = d' :=
  T13_typed_routes_agree fl ty _ hw d d' h1 (T13_typed_table_route _ fl ty t hw d' h2)

/-- non-vacuity of `T13_typed_routes_agree`: the root table `{ b = { y = 1 }, a = 2 }` (keys out of order) into
`struct { a: i64, b: BTreeMap<String, i64> }` is well formed and both routes succeed -/
example :
    WfItem (.table (.mk [([98], .value (.inl [([121], .int 1)] false false)), ([97], .value (.int 2))] false false none)) ∧
    isOk (editRoute editAsIs .sorted (.struct (.cons [97] i64 false (.cons [98] (.map i64) false .nil)))
      (.table (.mk [([98], .value (.inl [([121], .int 1)] false false)), ([97], .value (.int 2))] false false none))) = true ∧
    isOk (valueRoute valueAsIs .sorted (.struct (.cons [97] i64 false (.cons [98] (.map i64) false .nil)))
      (.table (.mk [([98], .value (.inl [([121], .int 1)] false false)), ([97], .value (.int 2))] false false none))) = true := by
  refine ⟨?_, by rfl, by rfl⟩
  simp [WfItem, plainItem, plainTbl, plainItems, plainVal, plainValPairs, WfTV, WfPs, FIELD]

/-! ### the verdict differences, one witness each (checked against the real code by the fixed cases of the check) -/

/-- trailing elements: `(i64, i64)` from `[1, 2, 3]` — `toml_edit` ignores the third element, `toml::Value` answers
"fewer elements in array". The same for a struct or struct variant read from an array. -/
theorem T13_split_trailing_element :
    decodeEdit editAsIs .sorted (.tuple (.cons i64 (.cons i64 .nil))) (.value (.arr [.int 1, .int 2, .int 3])) =
      .ok (.tuple [.int 1, .int 2]) ∧
    isOk (decodeValue valueAsIs .sorted (.tuple (.cons i64 (.cons i64 .nil))) (.arr [.int 1, .int 2, .int 3])) = false := by
  constructor <;> rfl

/-- unknown key in a struct variant: `enum E { V { a: i64 } }` from `{ V = { a = 1, b = 2 } }` — `toml_edit`
validates the keys of a struct variant (and only there), `toml::Value` reads `b` as an unknown field. -/
theorem T13_split_variant_keys :
    isOk (decodeEdit editAsIs .sorted (.enum (.cons [86] (.struct (.cons [97] i64 false .nil)) .nil))
      (.value (.inl [([86], .inl [([97], .int 1), ([98], .int 2)] false false)] false false))) = false ∧
    decodeValue valueAsIs .sorted (.enum (.cons [86] (.struct (.cons [97] i64 false .nil)) .nil))
      (.tbl [([86], .tbl [([97], .int 1), ([98], .int 2)])]) = .ok (.vStruct [86] [([97], .int 1)]) := by
  constructor <;> rfl

/-- entry order: `enum E { V(i64, i64) }` from `{ V = { 1 = 2, 0 = 1 } }` — `toml_edit` meets the key "1" at index 0,
the `BTreeMap` of `toml::Value` yields "0" first. (With eleven keys it is the other way round: "10" sorts before "2".) -/
theorem T13_split_entry_order :
    isOk (decodeEdit editAsIs .sorted (.enum (.cons [86] (.tuple (.cons i64 (.cons i64 .nil))) .nil))
      (.value (.inl [([86], .inl [([49], .int 2), ([48], .int 1)] false false)] false false))) = false ∧
    decodeValue valueAsIs .sorted (.enum (.cons [86] (.tuple (.cons i64 (.cons i64 .nil))) .nil))
      (.tbl [([86], .tbl [([48], .int 1), ([49], .int 2)])]) = .ok (.vTuple [86] [.int 1, .int 2]) := by
  constructor <;> rfl

/-- a date-time read as a map: `BTreeMap<String, Option<String>>` from `1979-05-27` — `toml_edit` hands the printed
date-time to serde's `StringDeserializer`, whose `deserialize_option` is `visit_string`; `toml::Value` hands over
a `Value::String`, whose `deserialize_option` is `visit_some`. -/
theorem T13_split_datetime_as_map :
    isOk (decodeEdit editAsIs .sorted (.map (.option .string)) (.value (.dt ⟨some ⟨1979, 5, 27⟩, none, none⟩))) = false ∧
    isOk (decodeValue valueAsIs .sorted (.map (.option .string)) (.dt ⟨some ⟨1979, 5, 27⟩, none, none⟩)) = true := by
  constructor <;> rfl

end TomlVerif.Props.C13Typed
