import TomlVerif.Props.C18
import TomlVerif.Lemmas.TypedGapsParsed
/-! # C18 — the `preserve_order` exception for every accepted TEXT

`Props/C18.lean` states "the two builds hold equivalent values" (`T18_configs_permEquiv`) and
"a sorted map does not depend on insertion order" under the hypothesis that no table of the plain
value has a repeated key (`WellKeyed`). Here that hypothesis is *derived* for every document the
parser accepts, from the state-machine invariant of C13 (`parseDocument_good`: distinct keys at
every level of the decoded tree), so that the statements hold for all inputs of the property's
quantifier, not for well-keyed values only:

 * `T18_parsed_wellKeyed` — the plain data of every accepted document is `WellKeyed`;
 * `T18_configs_permEquiv_parsed` — what the insertion-order build holds and what the sorted build
   holds are equal up to permuting table entries, at every depth;
 * `T18_sorted_same_data_parsed`, `T18_lookup_sorted_parsed` — sorting loses nothing and a root
   lookup answers the same in both builds. -/
namespace TomlVerif.Props.C18Parsed
open TomlVerif TomlVerif.Model TomlVerif.Spec.OrderedPlain TomlVerif.Lemmas.Order18
open TomlVerif.Lemmas.TypedGapsParsed TomlVerif.Props.C18

theorem keysDistinct_of_nodup {α} (l : List (Bytes × α)) (h : (l.map Prod.fst).Nodup) : KeysDistinct l := by
  unfold KeysDistinct
  exact List.pairwise_map.mp h

theorem keys_valEntriesToPlain (l : List (Bytes × Val)) :
    (valEntriesToPlain l).map Prod.fst = l.map Prod.fst := by
  induction l with
  | nil => simp [valEntriesToPlain]
  | cons p r ih => obtain ⟨k, v⟩ := p; simp [valEntriesToPlain, ih]

theorem keys_itemEntriesToPlain (l : List (Bytes × Item)) :
    (itemEntriesToPlain l).map Prod.fst = l.map Prod.fst := by
  induction l with
  | nil => simp [itemEntriesToPlain]
  | cons p r ih => obtain ⟨k, v⟩ := p; simp [itemEntriesToPlain, ih]

mutual
theorem wk_val : ∀ v : Val, GV v → WellKeyed (valToPlain v)
  | .str _, _ => by simp [valToPlain, WellKeyed]
  | .int _, _ => by simp [valToPlain, WellKeyed]
  | .float _, _ => by simp [valToPlain, WellKeyed]
  | .bool _, _ => by simp [valToPlain, WellKeyed]
  | .dt _, _ => by simp [valToPlain, WellKeyed]
  | .arr vs, h => by
      rw [valToPlain, WellKeyed]
      exact wk_vals vs ((gv_arr vs).mp h)
  | .inl items a b, h => by
      rw [valToPlain, WellKeyed]
      have h' := (gv_inl items a b).mp h
      exact ⟨keysDistinct_of_nodup _ (by rw [keys_valEntriesToPlain]; exact h'.1), wk_ventries items h'.2⟩
theorem wk_vals : ∀ vs : List Val, (∀ v ∈ vs, GV v) → WellKeyedList (valsToPlain vs)
  | [], _ => by simp [valsToPlain, WellKeyedList]
  | v :: r, h => by
      rw [valsToPlain, WellKeyedList]
      exact ⟨wk_val v (h v (by simp)), wk_vals r (fun x hx => h x (by simp [hx]))⟩
theorem wk_ventries : ∀ l : List (Bytes × Val), (∀ p ∈ l, GV p.2) → WellKeyedEntries (valEntriesToPlain l)
  | [], _ => by simp [valEntriesToPlain, WellKeyedEntries]
  | (k, v) :: r, h => by
      rw [valEntriesToPlain, WellKeyedEntries]
      exact ⟨wk_val v (h (k, v) (by simp)), wk_ventries r (fun x hx => h x (by simp [hx]))⟩
end

mutual
theorem wk_item : ∀ it : Item, GI it → WellKeyed (itemToPlain it)
  | .value v, h => by rw [itemToPlain]; exact wk_val v ((gi_value v).mp h)
  | .table t, h => by rw [itemToPlain]; exact wk_tbl t ((gi_table t).mp h)
  | .aot ts, h => by
      rw [itemToPlain, WellKeyed]
      exact wk_tbls ts ((gi_aot ts).mp h)
theorem wk_tbl : ∀ t : Tbl, GT t → WellKeyed (toPlain t)
  | .mk items a b c, h => by
      rw [toPlain, WellKeyed]
      have h' := (gt_iff (.mk items a b c)).mp h
      simp only [Tbl.items] at h'
      exact ⟨keysDistinct_of_nodup _ (by rw [keys_itemEntriesToPlain]; exact h'.1), wk_ientries items h'.2⟩
theorem wk_tbls : ∀ ts : List Tbl, (∀ t ∈ ts, GT t) → WellKeyedList (tblsToPlain ts)
  | [], _ => by simp [tblsToPlain, WellKeyedList]
  | t :: r, h => by
      rw [tblsToPlain, WellKeyedList]
      exact ⟨wk_tbl t (h t (by simp)), wk_tbls r (fun x hx => h x (by simp [hx]))⟩
theorem wk_ientries : ∀ l : List (Bytes × Item), (∀ p ∈ l, GI p.2) → WellKeyedEntries (itemEntriesToPlain l)
  | [], _ => by simp [itemEntriesToPlain, WellKeyedEntries]
  | (k, v) :: r, h => by
      rw [itemEntriesToPlain, WellKeyedEntries]
      exact ⟨wk_item v (h (k, v) (by simp)), wk_ientries r (fun x hx => h x (by simp [hx]))⟩
end

/-- the plain data of every document the parser accepts has no repeated key in any table, at any depth -/
theorem T18_parsed_wellKeyed (s : Bytes) (T : Tbl) (h : Doc.parseDocument s = some T) : WellKeyed (toPlain T) :=
  wk_tbl T (parseDocument_good s T h)

/-- for every accepted text: the value the `preserve_order` build holds and the value the default
    build holds are equal up to permuting table entries at every depth — the documented exception
    and nothing more -/
theorem T18_configs_permEquiv_parsed (s : Bytes) (T : Tbl) (h : Doc.parseDocument s = some T) :
    permEquiv (orderPlain .insertion (toPlain T)) (orderPlain .sorted (toPlain T)) :=
  T18_configs_permEquiv _ (T18_parsed_wellKeyed s T h)

/-- for every accepted text: the sorted form holds the same data as the decoded document -/
theorem T18_sorted_same_data_parsed (s : Bytes) (T : Tbl) (h : Doc.parseDocument s = some T) :
    permEquiv (toPlain T) (sortPlain (toPlain T)) :=
  T18_sorted_same_data _ (T18_parsed_wellKeyed s T h)

/-- for every accepted text: a root lookup answers the same in both builds -/
theorem T18_lookup_sorted_parsed (s : Bytes) (T : Tbl) (k : Bytes) (h : Doc.parseDocument s = some T) :
    alookup k (iterOrder .sorted (itemEntriesToPlain T.items)) =
      alookup k (iterOrder .insertion (itemEntriesToPlain T.items)) := by
  have hg := (gt_iff T).mp (parseDocument_good s T h)
  exact T18_lookup_sorted k _ (keysDistinct_of_nodup _ (by rw [keys_itemEntriesToPlain]; exact hg.1))

/-- non-vacuity: an accepted two-table text whose insertion order is not the sorted order -/
def exText : Bytes := strBytes "b = { y = 1, x = 2 }\na = 2\n[[t]]\nd = 1\nc = 2\n"

theorem exText_accepted : (Doc.parseDocument exText).isSome = true := by decide +kernel

example : ∃ T, Doc.parseDocument exText = some T := Option.isSome_iff_exists.mp exText_accepted

end TomlVerif.Props.C18Parsed
