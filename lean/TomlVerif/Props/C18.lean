import TomlVerif.Lemmas.Order18
/-! # C18 — Cargo feature choices change performance or ordering only, never results

The model has exactly two configuration parameters: the map order of `toml::Table`
(sorted | insertion) and the recursion limit (`LIMIT` | none). Everything else the features switch
(`perf` = string representation, `serde`, `parse`, `display` = which code is compiled) has no
counterpart in the model, because it does not change logic; that claim is what the per-configuration
correspondence checks.

This file is about the first parameter, the documented exception: with `preserve_order` a
`toml::Table` iterates in insertion order (`IndexMap`), without it in key order (`BTreeMap`).
The definitions are in `Spec/OrderedPlain.lean` (`bytesLt`, `sortByKey`, `Plain`, `toPlain`,
`sortPlain`, `PermEquiv`, `MapOrder`, `iterOrder`, `orderPlain`); the parser never looks at the
parameter (the decoded tree `Tbl` is the same value in every build, `toPlain` and `orderPlain` are
applied afterwards), so all that a configuration can change is described by `orderPlain`.

 1. `bytesLt` is a strict total order (`T18_bytesLt_*`).
 2. `sortByKey` sorts, permutes, and its output depends only on the *set* of entries
    (`T18_sort_sorted`, `T18_sort_perm`, `T18_sort_order_independent`).
 3. Two values that differ only in map order, at any depth, have the same sorted form
    (`T18_sorted_plain_invariant`), the sorted form holds the same data as the original
    (`T18_sorted_same_data`), and both builds have the same sorted form (`T18_configs_same_data`).
 4. In the insertion-order build the iteration order is the order of the entries
    (`T18_insertion_is_identity`), and it really can differ from the sorted one (examples at the end). -/
namespace TomlVerif.Props.C18
open TomlVerif TomlVerif.Model TomlVerif.Spec.OrderedPlain TomlVerif.Lemmas.Order18

/-! ## 1. `bytesLt` is a strict total order -/

theorem T18_bytesLt_irrefl (a : Bytes) : bytesLt a a = false :=
  bytesLt_irrefl a

theorem T18_bytesLt_trans (a b c : Bytes) : bytesLt a b = true → bytesLt b c = true → bytesLt a c = true :=
  bytesLt_trans a b c

example : bytesLt [0x61] [0x61, 0x62] = true ∧ bytesLt [0x61, 0x62] [0x62] = true := by decide

/-- exactly one of `a < b`, `a = b`, `b < a` (at least one here, at most one by irreflexivity and `T18_bytesLt_asymm`) -/
theorem T18_bytesLt_trichotomous (a b : Bytes) : bytesLt a b = true ∨ a = b ∨ bytesLt b a = true :=
  bytesLt_trichotomy a b

theorem T18_bytesLt_asymm (a b : Bytes) : bytesLt a b = true → bytesLt b a = false :=
  bytesLt_asymm a b

example : bytesLt [0x61, 0xff] [0x62] = true := by decide

/-- the order is the one of the driver (`Driver.bytesLt` in Driver/Canon.lean has the same four equations) -/
theorem T18_bytesLt_spec :
    bytesLt [] [] = false ∧ (∀ b s, bytesLt [] (b :: s) = true) ∧ (∀ a r, bytesLt (a :: r) [] = false) ∧
    (∀ a r b s, bytesLt (a :: r) (b :: s) = if a < b then true else if b < a then false else bytesLt r s) :=
  ⟨rfl, fun _ _ => rfl, fun _ _ => rfl, fun _ _ _ _ => rfl⟩

/-! ## 2. `sortByKey` -/

/-- distinct keys in, strictly increasing keys out -/
theorem T18_sort_sorted {α} (l : List (Bytes × α)) : KeysDistinct l → StrictSorted (sortByKey l) :=
  sortByKey_strictSorted l

example : KeysDistinct [([0x62], 1), ([0x61], 2), ([0x61, 0x00], 3)] := by unfold KeysDistinct; decide

/-- in general: non-decreasing keys out -/
theorem T18_sort_sorted_weak {α} (l : List (Bytes × α)) : WeakSorted (sortByKey l) :=
  sortByKey_weakSorted l

theorem T18_sort_perm {α} (l : List (Bytes × α)) : (sortByKey l).Perm l :=
  sortByKey_perm l

/-- an already sorted list is left alone, so sorting twice is sorting once -/
theorem T18_sort_fixes_sorted {α} (l : List (Bytes × α)) : WeakSorted l → sortByKey l = l :=
  sortByKey_eq_self l

example : WeakSorted [([0x61], 2), ([0x61], 5), ([0x62], 1)] := by unfold WeakSorted; decide

theorem T18_sort_idempotent {α} (l : List (Bytes × α)) : sortByKey (sortByKey l) = sortByKey l :=
  sortByKey_idem l

/-- under the default (sorted) map the iteration order depends only on the set of entries,
    never on the insertion order -/
theorem T18_sort_order_independent {α} (l₁ l₂ : List (Bytes × α)) :
    l₁.Perm l₂ → KeysDistinct l₁ → sortByKey l₁ = sortByKey l₂ :=
  fun hp hd => sortByKey_order_independent hp hd

example : [([0x62], 1), ([0x61], 2)].Perm [([0x61], 2), ([0x62], 1)] ∧
    KeysDistinct [([0x62], 1), ([0x61], 2)] :=
  ⟨List.Perm.swap _ _ _, by unfold KeysDistinct; decide⟩

/-- the distinctness hypothesis is needed: the sort is stable, repeated keys keep their input order -/
example : [([0x61], 1), ([0x61], 2)].Perm [([0x61], 2), ([0x61], 1)] ∧
    sortByKey [([0x61], 1), ([0x61], 2)] ≠ sortByKey [([0x61], 2), ([0x61], 1)] :=
  ⟨List.Perm.swap _ _ _, by decide⟩

/-- never results: a lookup by key gives the same answer whatever the order of the map -/
theorem T18_lookup_order_independent {α} (k : Bytes) (l₁ l₂ : List (Bytes × α)) :
    l₁.Perm l₂ → KeysDistinct l₁ → alookup k l₁ = alookup k l₂ :=
  fun hp hd => alookup_perm k hp hd

theorem T18_lookup_sorted {α} (k : Bytes) (l : List (Bytes × α)) :
    KeysDistinct l → alookup k (iterOrder .sorted l) = alookup k (iterOrder .insertion l) :=
  fun hd => (alookup_perm k (sortByKey_perm l).symm hd).symm

/-! ## 3. plain data up to map order -/

/-- two builds that differ only in map order hold the same data: values equal up to permuting table
    entries at every level have one and the same sorted form. This is the precise content of the
    `preserve_order` exception. -/
theorem T18_sorted_plain_invariant (p q : Plain) : permEquiv p q → sortPlain p = sortPlain q :=
  fun h => sortPlain_permEquiv h

/-- the same, for the plain data of two decoded documents -/
theorem T18_sorted_doc_invariant (t u : Tbl) :
    permEquiv (toPlain t) (toPlain u) → orderPlain .sorted (toPlain t) = orderPlain .sorted (toPlain u) :=
  fun h => sortPlain_permEquiv h

/-- a two-level example: `{b = 1, a = {y = true, x = "s"}}` against `{a = {x = "s", y = true}, b = 1}` -/
def exP : Plain :=
  .tbl [([0x62], .scalar (.int 1)),
        ([0x61], .tbl [([0x79], .scalar (.bool true)), ([0x78], .scalar (.str [0x73]))])]
def exQ : Plain :=
  .tbl [([0x61], .tbl [([0x78], .scalar (.str [0x73])), ([0x79], .scalar (.bool true))]),
        ([0x62], .scalar (.int 1))]

theorem exP_permEquiv_exQ : permEquiv exP exQ :=
  PermEquiv.tbl
    (PermEquivEntries.cons (PermEquiv.scalar _)
      (PermEquivEntries.cons
        (PermEquiv.tbl
          (PermEquivEntries.cons (PermEquiv.scalar _) (PermEquivEntries.cons (PermEquiv.scalar _) PermEquivEntries.nil))
          (by unfold KeysDistinct; decide) (List.Perm.swap _ _ _))
        PermEquivEntries.nil))
    (by unfold KeysDistinct; decide) (List.Perm.swap _ _ _)

example : sortPlain exP = exQ ∧ sortPlain exQ = exQ := ⟨by rfl, by rfl⟩

/-- the sorted form holds the same data as the original (no table has a repeated key) -/
theorem T18_sorted_same_data (p : Plain) : WellKeyed p → permEquiv p (sortPlain p) :=
  permEquiv_sortPlain p

example : WellKeyed exP := by
  simp only [exP, WellKeyed, WellKeyedEntries, KeysDistinct, and_true]
  decide

theorem T18_sortPlain_idempotent (p : Plain) : sortPlain (sortPlain p) = sortPlain p :=
  sortPlain_idem p

/-- whatever the map, the sorted form of what a build holds is the same: the two configurations
    differ in order only -/
theorem T18_configs_same_data (p : Plain) (o₁ o₂ : MapOrder) :
    sortPlain (orderPlain o₁ p) = sortPlain (orderPlain o₂ p) := by
  cases o₁ <;> cases o₂ <;> simp only [orderPlain, sortPlain_idem]

/-- and the two builds hold equivalent values -/
theorem T18_configs_permEquiv (p : Plain) :
    WellKeyed p → permEquiv (orderPlain .insertion p) (orderPlain .sorted p) :=
  permEquiv_sortPlain p

/-! ## 4. the exception is real -/

/-- with the insertion-order configuration the iteration order of a table is the order of its entries -/
theorem T18_insertion_is_identity {α} (l : List (Bytes × α)) : iterOrder .insertion l = l := rfl

theorem T18_insertion_is_identity_plain (p : Plain) : orderPlain .insertion p = p := rfl

example : iterOrder .insertion [([0x62], 1), ([0x61], 2)] = [([0x62], 1), ([0x61], 2)] := rfl

/-- `b = 1; a = 2` and `a = 2; b = 1`: the sorted forms coincide, the insertion-order forms differ -/
example :
    iterOrder .sorted [([0x62], 1), ([0x61], 2)] = iterOrder .sorted [([0x61], 2), ([0x62], 1)] ∧
    iterOrder .insertion [([0x62], 1), ([0x61], 2)] ≠ iterOrder .insertion [([0x61], 2), ([0x62], 1)] := by
  decide

/-- the same for whole documents: `toPlain` of the decoded trees of `b = 1⏎a = 2` and `a = 2⏎b = 1` -/
def exT : Tbl := .mk [([0x62], .value (.int 1)), ([0x61], .value (.int 2))] false false (some 0)
def exU : Tbl := .mk [([0x61], .value (.int 2)), ([0x62], .value (.int 1))] false false (some 0)

example :
    orderPlain .sorted (toPlain exT) = orderPlain .sorted (toPlain exU) ∧
    orderPlain .insertion (toPlain exT) ≠ orderPlain .insertion (toPlain exU) := by
  refine ⟨by rfl, ?_⟩
  simp [orderPlain, exT, exU, toPlain, itemEntriesToPlain, itemToPlain, valToPlain]

example : permEquiv (toPlain exT) (toPlain exU) :=
  PermEquiv.tbl
    (PermEquivEntries.cons (PermEquiv.scalar _) (PermEquivEntries.cons (PermEquiv.scalar _) PermEquivEntries.nil))
    (by unfold KeysDistinct; decide) (List.Perm.swap _ _ _)

end TomlVerif.Props.C18
