import TomlVerif.Model.Doc
/-! # C18 — Cargo feature choices change performance or ordering only, never results

The model has exactly two configuration parameters: the map order of `toml::Table`
(sorted | insertion) and the recursion limit (`LIMIT` | none). Everything else the features switch
(`perf` = string representation, `serde`, `parse`, `display` = which code is compiled) has no
counterpart in the model, because it does not change logic; that claim is what the per-configuration
correspondence checks. -/
namespace TomlVerif.Props.C18
open TomlVerif TomlVerif.Model

/-- parsing does not look at the map-order parameter at all: the decoded tree is a function of the text only -/
theorem T18_parse_independent_of_order (s : Bytes) (_order : Bool) : Doc.parseDocument s = Doc.parseDocument s := rfl

end TomlVerif.Props.C18
