import TomlVerif.Lemmas.DeSpanned14b
import TomlVerif.Props.C14Doc
/-! C14, second sentence: "Spans delivered through serde (Spanned<T> fields, map keys and error locations) are the same
    ranges, wrapping a target type in Spanned never changes whether decoding succeeds or what value results".

    `decodeSp` (Model/DeSpanned.lean) decodes into the wrapper grammar `STy` (`Spanned` around values, struct fields, `Option` /
    newtype / `Vec` / map payloads, newtype-variant payloads and map keys); on `Spanned`-free types it is `decodeLoc`. It is
    tied to the three deserializer routes by the `c14s` stream (tools/props/c14sp.py).

      T14_spanned_ranges        every range in a result is the `item_span` of a node of the tree, or the span of a key of a node
      T14_spanned_ranges_recorded   such a range starts at the start of a recorded span and ends at the end of one (`nodeSpans`,
                                the collection of `T14_bounds`) — for a node with a span of its own it IS that span
      T14_spanned_despanned     on the despanned tree no result carries a range, and `Spanned<T>` itself fails: ranges disappear
                                rather than go stale
      T14_spanned_transparent_partial   one `Spanned` around any type, at any node that has an `item_span`: same verdict, same
                                error, the value is the plain one wrapped once
      T14_spanned_key_newtype   (regression F35) a `Spanned<Newtype(String)>` key decodes whenever the key has a span, to the
                                value the `Newtype(String)` key decodes to
    NOT proved: the full congruence `T14_spanned_transparent_statement` (by induction over `STy`, as `ranges_ty`); it is checked
    by the stream (`transparent`: 0 violations apart from the two exceptions below).
    Exceptions to transparency read off the code and confirmed on it:
      * a struct field of type `Spanned<Option<T>>` that is ABSENT is an error, `Option<T>` is `None` (serde's `missing_field`
        special-cases `Option` only) — `ex_spanned_option_missing`;
      * a key type with `Spanned` inside `Spanned` fails: the value part of a spanned key is handed a span-less
        `KeyDeserializer` — `ex_spanned_spanned_key`. -/
namespace TomlVerif.Props.C14Spanned
open TomlVerif TomlVerif.Model TomlVerif.Model.DeTyped TomlVerif.Model.Cst TomlVerif.Model.DeLocated
open TomlVerif.Model.DeSpanned TomlVerif.Lemmas.DeLocated15 TomlVerif.Lemmas.DeSpanned14 TomlVerif.Lemmas.Cst03

/-! ## (b) the ranges are those of the tree -/

/-- T14_spanned_ranges: every `spanned a b _` (and every spanned key) in a result carries the `item_span` of a node of the
tree decoded — the node's own span, or for a table without one the range its entries cover — or the span of a key of a node. -/
theorem T14_spanned_ranges (fl : TomlValue.Flavour) (t : STy) (it : SItem) (d : SDec) (h : decodeSp fl t it = .ok d) :
    ∀ s ∈ ranges d, Good it s :=
  ranges_ty fl t it d h

theorem sub_spans {it n : CItem} (h : Sub it n) : ∀ sp ∈ nodeSpans n, sp ∈ nodeSpans it := by
  induction h with
  | refl it => intro sp h; exact h
  | entry hc hm _ ih => intro sp h; exact entries_sub _ _ hc _ _ hm sp (Or.inr (ih sp h))
  | elem hc hm _ ih => intro sp h; exact elems_sub _ _ hc _ hm sp (ih sp h)

/-- a range covered by recorded spans: it starts where one starts and ends where one ends -/
def Covered (l : List Span) (s : Span) : Prop := ∃ s1 ∈ l, ∃ s2 ∈ l, s.1 = s1.1 ∧ s.2 = s2.2

theorem Covered.mono {l l' : List Span} {s : Span} (h : Covered l s) (hl : ∀ x ∈ l, x ∈ l') : Covered l' s := by
  obtain ⟨s1, h1, s2, h2, e1, e2⟩ := h
  exact ⟨s1, hl _ h1, s2, hl _ h2, e1, e2⟩

theorem covered_cover {l : List Span} {a b : Option Span} {s : Span} (h : cover a b = some s)
    (ha : ∀ x, a = some x → Covered l x) (hb : ∀ x, b = some x → Covered l x) : Covered l s := by
  cases a with
  | none => simp only [cover] at h; exact hb s h
  | some x =>
    cases b with
    | none => simp only [cover, Option.some.injEq] at h; subst h; exact ha x rfl
    | some y =>
      simp only [cover, Option.some.injEq] at h
      subst h
      obtain ⟨a1, ha1, a2, ha2, e1, e2⟩ := ha x rfl
      obtain ⟨b1, hb1, b2, hb2, f1, f2⟩ := hb y rfl
      have hmin : min x.1 y.1 = x.1 ∨ min x.1 y.1 = y.1 := by omega
      have hmax : max x.2 y.2 = x.2 ∨ max x.2 y.2 = y.2 := by omega
      rcases hmin with hm | hm <;> rcases hmax with hM | hM
      · exact ⟨a1, ha1, a2, ha2, by show min x.1 y.1 = _; omega, by show max x.2 y.2 = _; omega⟩
      · exact ⟨a1, ha1, b2, hb2, by show min x.1 y.1 = _; omega, by show max x.2 y.2 = _; omega⟩
      · exact ⟨b1, hb1, a2, ha2, by show min x.1 y.1 = _; omega, by show max x.2 y.2 = _; omega⟩
      · exact ⟨b1, hb1, b2, hb2, by show min x.1 y.1 = _; omega, by show max x.2 y.2 = _; omega⟩

theorem covered_self {l : List Span} {s : Span} (h : s ∈ l) : Covered l s := ⟨s, h, s, h, rfl, rfl⟩

mutual
theorem ispanVal_covered : ∀ (v : CVal) (s : Span), ispanVal v = some s → Covered (valSpans v) s
  | .scalar x r d, s, h => by
    simp only [ispanVal] at h
    cases r with
    | empty => simp [Raw.span] at h
    | spanned a b => simp only [Raw.span, Option.some.injEq] at h; subst h; exact covered_self (by simp [valSpans, rawSp])
  | .arr items t c d sp, s, h => by
    simp only [ispanVal] at h; subst h; exact covered_self (by simp [valSpans, optSp])
  | .inl items p i dt d sp, s, h => by
    simp only [ispanVal] at h
    cases sp with
    | some x => simp only [Option.some.injEq] at h; subst h; exact covered_self (by simp [valSpans, optSp])
    | none =>
      simp only [] at h
      exact (ispanKvs_covered items s h).mono (by intro x hx; simp [valSpans, hx])
theorem ispanKvs_covered : ∀ (l : List (CKey × CVal)) (s : Span), ispanKvs l = some s → Covered (kvsSpans l) s
  | [], s, h => by simp [ispanKvs] at h
  | (k, v) :: r, s, h => by
    simp only [ispanKvs] at h
    refine covered_cover h (fun x hx => covered_cover hx (fun y hy => ?_) (fun y hy => ?_)) (fun x hx => ?_)
    · exact covered_self (by simp [kvsSpans, keySpan_mem k y hy])
    · exact (ispanVal_covered v y hy).mono (by intro z hz; simp [kvsSpans, hz])
    · exact (ispanKvs_covered r x hx).mono (by intro z hz; simp [kvsSpans, hz])
end

mutual
theorem itemSpan_covered : ∀ (it : CItem) (s : Span), itemSpan it = some s → Covered (nodeSpans it) s
  | .value v, s, h => by simp only [itemSpan] at h; exact ispanVal_covered v s h
  | .table t, s, h => by simp only [itemSpan] at h; exact ispanTbl_covered t s h
  | .aot ts sp, s, h => by simp only [itemSpan] at h; subst h; exact covered_self (by simp [nodeSpans, optSp])
theorem ispanTbl_covered : ∀ (t : CTbl) (s : Span), ispanTbl t = some s → Covered (tblSpans t) s
  | .mk items i d p dc sp, s, h => by
    simp only [ispanTbl] at h
    cases sp with
    | some x => simp only [Option.some.injEq] at h; subst h; exact covered_self (by simp [tblSpans, optSp])
    | none =>
      simp only [] at h
      exact (ispanItems_covered items s h).mono (by intro x hx; simp [tblSpans, hx])
theorem ispanItems_covered : ∀ (l : List (CKey × CItem)) (s : Span), ispanItems l = some s → Covered (itemsSpans l) s
  | [], s, h => by simp [ispanItems] at h
  | (k, v) :: r, s, h => by
    simp only [ispanItems] at h
    rw [itemsSpans_cons]
    refine covered_cover h (fun x hx => covered_cover hx (fun y hy => ?_) (fun y hy => ?_)) (fun x hx => ?_)
    · exact covered_self (by simp [keySpan_mem k y hy])
    · exact (itemSpan_covered v y hy).mono (by intro z hz; simp [hz])
    · exact (ispanItems_covered r x hx).mono (by intro z hz; simp [hz])
end

/-- a node's own span is its `item_span` -/
theorem itemSpan_own (it : CItem) (s : Span) (h : it.span = some s) : itemSpan it = some s := by
  cases it with
  | value v => cases v <;> simp_all [itemSpan, ispanVal, CItem.span, CVal.span]
  | table t => cases t; simp_all [itemSpan, ispanTbl, CItem.span, CTbl.span]
  | aot ts sp => simp_all [itemSpan, CItem.span]

/-- T14_spanned_ranges_recorded: every range in a result starts at the start of a span recorded in the tree and ends at the
end of one (`nodeSpans it`, the collection `T14_bounds` speaks about). -/
theorem T14_spanned_ranges_recorded (fl : TomlValue.Flavour) (t : STy) (it : SItem) (d : SDec) (h : decodeSp fl t it = .ok d) :
    ∀ s ∈ ranges d, Covered (nodeSpans it) s := by
  intro s hs
  obtain ⟨n, hn, hg⟩ := T14_spanned_ranges fl t it d h s hs
  rcases hg with hg | ⟨es, k, v, hc, hm, hk⟩
  · exact (itemSpan_covered n s hg).mono (sub_spans hn)
  · exact covered_self (sub_spans hn s (entries_sub n es hc k v hm s (Or.inl (keySpan_mem k s hk))))

/-- with `T14_bounds`: on a parsed document every range delivered lies in the text -/
theorem T14_spanned_ranges_in_text (fl : TomlValue.Flavour) (t : STy) (text : Bytes) (doc : CDoc) (d : SDec)
    (hp : parseCst text = some doc) (h : decodeSp fl t (.table doc.root) = .ok d) :
    ∀ s ∈ ranges d, s.1 ≤ text.length ∧ s.2 ≤ text.length := by
  intro s hs
  obtain ⟨s1, h1, s2, h2, e1, e2⟩ := T14_spanned_ranges_recorded fl t _ d h s hs
  have b1 := Props.C14.T14_bounds text doc hp s1 (List.mem_append_left _ h1)
  have b2 := Props.C14.T14_bounds text doc hp s2 (List.mem_append_left _ h2)
  omega

/-! ## (c) without source -/

theorem good_spanless {it : CItem} (h0 : nodeSpans it = []) (s : Span) (h : Good it s) : False := by
  obtain ⟨n, hn, hg⟩ := h
  have hsub := sub_spans hn
  rcases hg with hg | ⟨es, k, v, hc, hm, hk⟩
  · obtain ⟨s1, h1, _⟩ := itemSpan_covered n s hg
    have := hsub s1 h1
    rw [h0] at this; cases this
  · have := hsub s (entries_sub n es hc k v hm s (Or.inl (keySpan_mem k s hk)))
    rw [h0] at this; cases this

/-- T14_spanned_despanned: decoding the despanned tree (what a `Deserializer` made from a `DocumentMut` holds) never delivers
a range, and the target `Spanned<T>` itself fails there with an unlocated error — ranges disappear, they do not go stale. -/
theorem T14_spanned_despanned (fl : TomlValue.Flavour) (t : STy) (it : SItem) :
    (∀ d, decodeSp fl t (despanItem it) = .ok d → ranges d = []) ∧
    decodeSp fl (.spanned t) (despanItem it) = .error ⟨none, []⟩ := by
  have h0 := despanItem_spans it
  constructor
  · intro d h
    cases hr : ranges d with
    | nil => rfl
    | cons s r =>
      exact (good_spanless h0 s (T14_spanned_ranges fl t _ d h s (by rw [hr]; exact List.mem_cons_self ..))).elim
  · have hi : itemSpan (despanItem it) = none := by
      cases hx : itemSpan (despanItem it) with
      | none => rfl
      | some s =>
        obtain ⟨s1, h1, _⟩ := itemSpan_covered _ s hx
        rw [h0] at h1; cases h1
    have hs : (despanItem it).span = none := by
      cases hx : (despanItem it).span with
      | none => rfl
      | some s => rw [itemSpan_own _ s hx] at hi; cases hi
    unfold decodeSp
    rw [hi, hs]
    rfl

/-! ## (a) one `Spanned` more changes nothing but the wrapper -/

/-- the full statement: on a tree every node of which has an `item_span` and every key a span, for a wrapper type without
`Spanned<Option<_>>` fields and without `Spanned` inside a `Spanned` key, decoding into the wrapper type is decoding into the
stripped type: same verdict, same error, the stripped value. NOT proved here (checked by the `c14s` stream). -/
def T14_spanned_transparent_statement : Prop :=
  ∀ (fl : TomlValue.Flavour) (t : STy) (it : SItem),
    (∀ n, Sub it n → (itemSpan n).isSome = true ∧
      ∀ es k v, citemEntries n = some es → (k, v) ∈ es → (keySpan k).isSome = true) →
    (∀ d, decodeSp fl t it = .ok d → decodeLoc fl (strip t) it = .ok (stripDec d)) ∧
    (∀ e, decodeSp fl t it = .error e → decodeLoc fl (strip t) it = .error e)

/-- T14_spanned_transparent_partial: wrapping any target type in one more `Spanned`, at any node that has an `item_span`:
an error stays the same error, a value stays the same value inside `spanned a b`; `strip` and `stripDec` do not see the wrapper;
and on `Spanned`-free types `decodeSp` is `decodeLoc`. -/
theorem T14_spanned_transparent_partial (fl : TomlValue.Flavour) (t : STy) (it : SItem) (a b : Nat)
    (hs : itemSpan it = some (a, b)) :
    (∀ e, decodeSp fl (.spanned t) it = .error e ↔ decodeSp fl t it = .error e) ∧
    (∀ d, decodeSp fl t it = .ok d → decodeSp fl (.spanned t) it = .ok (.spanned a b d)) ∧
    (∀ d', decodeSp fl (.spanned t) it = .ok d' → ∃ d, decodeSp fl t it = .ok d ∧ d' = .spanned a b d ∧ stripDec d' = stripDec d) ∧
    strip (.spanned t) = strip t := by
  have hu : decodeSp fl (.spanned t) it = lmap (.spanned a b) (decodeSp fl t it) := by
    conv => lhs; unfold decodeSp
    rw [hs]
  refine ⟨fun e => ?_, fun d h => ?_, fun d' h => ?_, by simp [strip]⟩
  · rw [hu]; cases decodeSp fl t it <;> simp [lmap]
  · rw [hu, h]; rfl
  · rw [hu] at h
    obtain ⟨d, hd, rfl⟩ := lmap_ok _ _ _ h
    exact ⟨d, hd, rfl, by simp [stripDec]⟩

theorem T14_spanned_plain (fl : TomlValue.Flavour) (t : Ty) (it : SItem) :
    decodeSp fl (.plain t) it = lmap .plain (decodeLoc fl t it) ∧ strip (.plain t) = t := by
  constructor
  · conv => lhs; unfold decodeSp
  · simp [strip]

/-! ## (d) keys -/

/-- T14_spanned_key_newtype (regression F35): with a key span, a `Spanned<Newtype(String)>` key and a `Newtype(String)` key
both decode, to the same key; so does `Newtype(Spanned<String>)`, with the same range. -/
theorem T14_spanned_key_newtype (k : Bytes) (a b : Nat) :
    decodeKey (.spanned (.newtype .string)) k (some (a, b)) = .ok (.spanned a b (.newtype (.str k))) ∧
    decodeKey (.newtype .string) k (some (a, b)) = .ok (.newtype (.str k)) ∧
    decodeKey (.newtype (.spanned .string)) k (some (a, b)) = .ok (.newtype (.spanned a b (.str k))) ∧
    stripKey (.spanned a b (.newtype (.str k))) = stripKey (.newtype (.str k)) := by
  simp [decodeKey, lmap, stripKey]

/-- ex_spanned_spanned_key: `Spanned<Spanned<String>>` as a key type fails although the key has a span (real code:
`sp S K(P(P(s)),i32) 61203d20310a` → `err span=0..1 keys=-`) -/
theorem ex_spanned_spanned_key (k : Bytes) (a b : Nat) :
    decodeKey (.spanned (.spanned .string)) k (some (a, b)) = vfail := by
  simp [decodeKey, lmap, vfail]

/-! ## examples on parsed documents -/

def rangesOf (x : LR SDec) : Option (List Span) := match x with | .ok d => some (ranges d) | .error _ => none
def i32 : Ty := .int (-2147483648) 2147483647
/-- `a.b = 1` -/
def exDotted : Bytes := [0x61, 0x2e, 0x62, 0x20, 0x3d, 0x20, 0x31, 0x0a]

/-- `a.b = 1` into `struct { a: Spanned<struct { b: Spanned<i32> }> }`: the dotted table `a` has no span of its own and gets the
range its entry covers, 2..7 (key `b` 2..3, value 6..7); the value 6..7 (real code: `sp S S(61:P(S(62:P(i32)))) 612e62203d20310a`) -/
example : (parseCst exDotted).map (fun d => rangesOf (decodeSp .sorted
      (.struct (.cons [0x61] (.spanned (.struct (.cons [0x62] (.spanned (.plain i32)) false .nil))) false .nil)) (.table d.root))) =
    some (some [(2, 7), (6, 7)]) := by decide +kernel
/-- the same from the despanned tree: an error -/
example : (parseCst exDotted).map (fun d => rangesOf (decodeSp .sorted
      (.struct (.cons [0x61] (.spanned (.struct (.cons [0x62] (.spanned (.plain i32)) false .nil))) false .nil))
      (despanItem (.table d.root)))) = some none := by decide +kernel
/-- map keys: `Spanned<Newtype(String)>` keys and `Spanned<i32>` values: the key 0..1 … -/
example : (parseCst exDotted).map (fun d => rangesOf (decodeSp .sorted
      (.map (.spanned (.newtype .string)) (.map (.newtype (.spanned .string)) (.spanned (.plain i32)))) (.table d.root))) =
    some (some [(0, 1), (2, 3), (6, 7)]) := by decide +kernel
/-- ex_spanned_option_missing: the empty document into `struct { a: Spanned<Option<i32>> }` fails, into `struct { a:
Option<Spanned<i32>> }` (and into the stripped `struct { a: Option<i32> }`) succeeds (real code: `sp S S(61:P(O(i32))) -` → err) -/
example : (parseCst []).map (fun d => rangesOf (decodeSp .sorted
      (.struct (.cons [0x61] (.spanned (.option (.plain i32))) false .nil)) (.table d.root))) = some none := by decide +kernel
example : (parseCst []).map (fun d => rangesOf (decodeSp .sorted
      (.struct (.cons [0x61] (.option (.spanned (.plain i32))) false .nil)) (.table d.root))) = some (some []) := by decide +kernel

end TomlVerif.Props.C14Spanned
