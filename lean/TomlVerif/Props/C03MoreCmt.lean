import TomlVerif.Lemmas.Tiling03MoreCmtChk
/-! C03, clause "an unedited document, printed, keeps every comment" — for ALL accepted documents.

    `recordedComments s d` (`Lemmas/Tiling03MoreComments.lean`) lists the comments inside the decor
    pieces the parser records (table decor, value decor, array `trailing`, inline-table `preamble`,
    leaf decor of the key of every value entry, document `trailing`).  `T03_comments_kept`: every one
    of them is a contiguous piece of the printed text, and (`T03_comments_in_source`) a CR-free
    contiguous piece of the source.

    Route: a comment is a CR-free piece of its decor text (`commentsIn_infix`), so it survives the
    deletion of CRs the printer applies (`DropCr.infix_noCr`); every decor piece is written by the
    printer (`tblPieces_printed`, `valPieces_printed`) because the only pieces the printer skips —
    the decor of invisible (implicit, dotted) tables, and decor / preamble / key leaf decor of the
    inline tables made for dotted keys — are never set by the parser (`parseCst_dc`, `cvalue_VD`). -/
namespace TomlVerif.Props.C03More
open TomlVerif TomlVerif.Model TomlVerif.Model.Cst TomlVerif.Model.Encode
open TomlVerif.Lemmas.Cst03 TomlVerif.Lemmas.Tiling03More

theorem stripCr_nil : stripCr [] = [] := rfl

/-- **every recorded decor piece is written by the printer** (with its CRs dropped) -/
theorem T03_decor_printed (s : Bytes) (d : CDoc) (h : parseCst s = some d) :
    ∀ p ∈ decorTexts s d, stripCr p <:+: printDoc s d := by
  intro p hp
  obtain ⟨hroot, hnd⟩ := parseCst_dc s d h
  unfold decorTexts at hp
  rcases List.mem_append.1 hp with hp | hp
  · exact tblPieces_printed stripCr stripCr_nil s d hroot hnd p hp
  · simp only [List.mem_singleton] at hp
    subst hp
    unfold printDoc printDocG
    exact infix_appR _ (infix_rfl' _)

/-- the same for the verbatim concatenation (`f = id`): every recorded decor piece occurs in it -/
theorem T03_decor_verbatim (s : Bytes) (d : CDoc) (h : parseCst s = some d) :
    ∀ p ∈ decorTexts s d, p <:+: verbatimDoc s d := by
  intro p hp
  obtain ⟨hroot, hnd⟩ := parseCst_dc s d h
  unfold decorTexts at hp
  rcases List.mem_append.1 hp with hp | hp
  · exact tblPieces_printed id rfl s d hroot hnd p hp
  · simp only [List.mem_singleton] at hp
    subst hp
    unfold verbatimDoc printDocG
    exact infix_appR _ (infix_rfl' _)

/-- **C03, comments: an unedited document, printed, keeps every comment** -/
theorem T03_comments_kept (s : Bytes) (d : CDoc) (h : parseCst s = some d) :
    ∀ c ∈ recordedComments s d, c <:+: printDoc s d := by
  intro c hc
  unfold recordedComments at hc
  obtain ⟨p, hp, hcp⟩ := List.mem_flatMap.1 hc
  exact infix_trans' (commentsIn_stripCr p c hcp) (T03_decor_printed s d h p hp)

/-- the printer half alone, for ANY tree (parsed, hand-made or edited) that passes the decidable
    check `cmtDocOk`: invisible tables carry no decor, dotted inline tables are bare and occur only
    inside inline tables, elements of arrays of tables and the root are not dotted -/
theorem T03_comments_kept_of_check (s : Bytes) (d : CDoc) (h : cmtDocOk d = true) :
    ∀ c ∈ recordedComments s d, c <:+: printDoc s d := by
  intro c hc
  obtain ⟨hroot, hnd⟩ := cmtDocOk_sound d h
  unfold recordedComments at hc
  obtain ⟨p, hp, hcp⟩ := List.mem_flatMap.1 hc
  refine infix_trans' (commentsIn_stripCr p c hcp) ?_
  unfold decorTexts at hp
  rcases List.mem_append.1 hp with hp | hp
  · exact tblPieces_printed stripCr stripCr_nil s d hroot hnd p hp
  · simp only [List.mem_singleton] at hp
    subst hp
    unfold printDoc printDocG
    exact infix_appR _ (infix_rfl' _)

/-- every parsed document passes the tree invariant behind the check -/
theorem T03_parsed_tree_inv (s : Bytes) (d : CDoc) (h : parseCst s = some d) :
    TDc d.root ∧ d.root.dotted = false := parseCst_dc s d h

/-! ### the link to the source: every decor piece is a slice of the input -/

theorem rawText_infix (inp : Bytes) (r : Raw) : rawText inp r <:+: inp := by
  cases r with
  | empty => exact nil_infix' _
  | spanned a b =>
    simp only [rawText, slice]
    exact infix_trans' (List.take_prefix _ _).isInfix (List.drop_suffix _ _).isInfix

theorem decorPieces_infix (inp : Bytes) (d : Decor) : ∀ p ∈ decorPieces inp d, p <:+: inp := by
  intro p hp
  unfold decorPieces at hp
  rcases List.mem_append.1 hp with hp | hp
  · cases hd : d.pre with
    | none => rw [hd] at hp; cases hp
    | some r => rw [hd] at hp; simp only [List.mem_singleton] at hp; subst hp; exact rawText_infix inp r
  · cases hd : d.suf with
    | none => rw [hd] at hp; cases hp
    | some r => rw [hd] at hp; simp only [List.mem_singleton] at hp; subst hp; exact rawText_infix inp r

mutual
theorem valPieces_infix (inp : Bytes) : ∀ (v : CVal) (p : Bytes), p ∈ valPieces inp v → p <:+: inp
  | .scalar _ _ dec, p, hp => by
    rw [valPieces] at hp
    exact decorPieces_infix inp dec p hp
  | .arr items tr _ dec _, p, hp => by
    rw [valPieces] at hp
    rcases List.mem_append.1 hp with hp | hp
    · rcases List.mem_append.1 hp with hp | hp
      · exact decorPieces_infix inp dec p hp
      · exact elemsPieces_infix inp items p hp
    · simp only [List.mem_singleton] at hp; subst hp; exact rawText_infix inp tr
  | .inl items pre _ _ dec _, p, hp => by
    rw [valPieces] at hp
    rcases List.mem_append.1 hp with hp | hp
    · rcases List.mem_append.1 hp with hp | hp
      · exact decorPieces_infix inp dec p hp
      · simp only [List.mem_singleton] at hp; subst hp; exact rawText_infix inp pre
    · exact kvsPieces_infix inp items p hp
theorem elemsPieces_infix (inp : Bytes) : ∀ (items : List CVal) (p : Bytes), p ∈ elemsPieces inp items → p <:+: inp
  | [], p, hp => by rw [elemsPieces] at hp; cases hp
  | v :: r, p, hp => by
    rw [elemsPieces] at hp
    rcases List.mem_append.1 hp with hp | hp
    · exact valPieces_infix inp v p hp
    · exact elemsPieces_infix inp r p hp
theorem kvsPieces_infix (inp : Bytes) : ∀ (items : List (CKey × CVal)) (p : Bytes), p ∈ kvsPieces inp items → p <:+: inp
  | [], p, hp => by rw [kvsPieces] at hp; cases hp
  | (k, v) :: r, p, hp => by
    rw [kvsPieces] at hp
    rcases List.mem_append.1 hp with hp | hp
    · rcases List.mem_append.1 hp with hp | hp
      · exact decorPieces_infix inp k.leaf p hp
      · exact valPieces_infix inp v p hp
    · exact kvsPieces_infix inp r p hp
end

mutual
theorem tblPieces_infix (inp : Bytes) : ∀ (t : CTbl) (p : Bytes), p ∈ tblPieces inp t → p <:+: inp
  | .mk items _ _ _ dec _, p, hp => by
    rw [tblPieces] at hp
    rcases List.mem_append.1 hp with hp | hp
    · exact decorPieces_infix inp dec p hp
    · exact itemsPieces_infix inp items p hp
theorem itemsPieces_infix (inp : Bytes) : ∀ (items : List (CKey × CItem)) (p : Bytes), p ∈ itemsPieces inp items → p <:+: inp
  | [], p, hp => by rw [itemsPieces] at hp; cases hp
  | (k, .value v) :: r, p, hp => by
    rw [itemsPieces] at hp
    rcases List.mem_append.1 hp with hp | hp
    · rcases List.mem_append.1 hp with hp | hp
      · exact decorPieces_infix inp k.leaf p hp
      · exact valPieces_infix inp v p hp
    · exact itemsPieces_infix inp r p hp
  | (k, .table t) :: r, p, hp => by
    rw [itemsPieces] at hp
    rcases List.mem_append.1 hp with hp | hp
    · exact tblPieces_infix inp t p hp
    · exact itemsPieces_infix inp r p hp
  | (k, .aot ts _) :: r, p, hp => by
    rw [itemsPieces] at hp
    rcases List.mem_append.1 hp with hp | hp
    · exact tblsPieces_infix inp ts p hp
    · exact itemsPieces_infix inp r p hp
theorem tblsPieces_infix (inp : Bytes) : ∀ (ts : List CTbl) (p : Bytes), p ∈ tblsPieces inp ts → p <:+: inp
  | [], p, hp => by rw [tblsPieces] at hp; cases hp
  | t :: r, p, hp => by
    rw [tblsPieces] at hp
    rcases List.mem_append.1 hp with hp | hp
    · exact tblPieces_infix inp t p hp
    · exact tblsPieces_infix inp r p hp
end

/-- every recorded decor piece is a contiguous piece of the source (any tree, any input) -/
theorem T03_decor_in_source (s : Bytes) (d : CDoc) : ∀ p ∈ decorTexts s d, p <:+: s := by
  intro p hp
  unfold decorTexts at hp
  rcases List.mem_append.1 hp with hp | hp
  · exact tblPieces_infix s d.root p hp
  · simp only [List.mem_singleton] at hp; subst hp; exact rawText_infix s d.trailing

/-- every recorded comment is a CR-free contiguous piece of the source -/
theorem T03_comments_in_source (s : Bytes) (d : CDoc) :
    ∀ c ∈ recordedComments s d, c <:+: s ∧ (∀ b ∈ c, b ≠ 0x0D) := by
  intro c hc
  unfold recordedComments at hc
  obtain ⟨p, hp, hcp⟩ := List.mem_flatMap.1 hc
  obtain ⟨hi, hcr⟩ := commentsIn_infix p c hcp
  exact ⟨infix_trans' hi (T03_decor_in_source s d p hp), hcr⟩

/-! ### non-vacuity -/

/-- comments in every kind of decor piece: before and after a header, after a value, inside an
    array, before an array-of-tables header (CR LF line ends), at the end of the document; with an
    implicit table (`a` of `[a.b]`), a dotted table (`x.y`) and a dotted key inside `{…}` -/
def exCmt : Bytes :=
  strBytes "# top\r\nk = 1 # one\n[a.b] # hdr\nx.y = [ # in\n 1, # el\n] # arr\nz = { p.q = 2 } # inl\n# pre\r\n[[c]] # aot\nw = 3\n# end"

example : (parseCst exCmt).isSome = true ∧
    (parseCst exCmt).map (recordedComments exCmt) = some
      [strBytes "# top", strBytes "# one", strBytes "# hdr", strBytes "# arr", strBytes "# in",
       strBytes "# el", strBytes "# inl", strBytes "# pre", strBytes "# aot", strBytes "# end"] ∧
    (parseCst exCmt).map cmtDocOk = some true ∧
    (parseCst exCmt).map (fun d => (recordedComments exCmt d).all (fun c => isInfix c (printDoc exCmt d))) = some true := by
  decide +kernel

#print axioms T03_comments_kept
#print axioms T03_decor_printed
#print axioms T03_decor_verbatim
#print axioms T03_comments_kept_of_check
#print axioms T03_comments_in_source

end TomlVerif.Props.C03More
