import TomlVerif.Lemmas.Cst03
/-! C03 — unedited documents print back byte-for-byte, apart from dropping a BOM, CRLF→LF
    outside multi-line string bodies and adding a final newline.

    The printer model (`Model/Encode.lean`) is written over a transformation `f` applied to every
    decor text; `printDoc = printDocG stripCr` is the real printer (`RawString::encode` drops every
    CR of decor, reprs are written verbatim) and `verbatimDoc = printDocG id` concatenates the
    recorded pieces unchanged.  "Normalised input" is stated on the decorated tree: the printed
    text is the verbatim text with the CRs of its decor dropped (`normalize`), and *tiling* says the
    verbatim text is the source. -/
namespace TomlVerif.Props.C03
open TomlVerif TomlVerif.Model TomlVerif.Model.Cst TomlVerif.Model.Encode TomlVerif.Lemmas.Cst03

/-- the normal form of a value parsed from `inp`: decor with CRs dropped, reprs verbatim -/
def normalizeValue (inp : Bytes) (v : CVal) : Bytes := encodeValue stripCr inp v [] []

/-- the normal form of a document parsed from `inp`: decor with CRs dropped, reprs verbatim; the
    BOM is not part of any recorded piece and a line's terminator is re-issued as a single LF -/
def normalize (inp : Bytes) (d : CDoc) : Bytes := printDocG stripCr inp d

/-- T03_strip_cr: the model of `RawString::encode` is idempotent, is the identity on CR-free text,
    produces CR-free text and distributes over concatenation -/
theorem T03_strip_cr (s t : Bytes) :
    stripCr (stripCr s) = stripCr s ∧
    ((∀ b ∈ s, b ≠ 0x0D) → stripCr s = s) ∧
    (∀ b ∈ stripCr s, b ≠ 0x0D) ∧
    stripCr (s ++ t) = stripCr s ++ stripCr t :=
  ⟨stripCr_idem s, stripCr_of_noCr s, stripCr_noCr s, stripCr_append s t⟩

example : stripCr [0x61, 0x0D, 0x0A, 0x0D, 0x62] = [0x61, 0x0A, 0x62] := by decide +kernel

/-- T03_value_tiling, full strength: the pieces recorded for an accepted value, concatenated
    verbatim, are the source text.  FALSE as stated: inline tables keep one `Key` per table entry,
    so a dotted key whose prefix names an existing dotted table prints with the spelling and inner
    whitespace of the first occurrence (counterexample below; known finding F15). -/
def T03_value_tiling_statement : Prop :=
  ∀ (s : Bytes) (v : CVal), parseCstValue s = some v → verbatimValue s v = s

/-- `{a .b=1,a.c=2}` is accepted and prints as `{a .b=1,a .c=2}` -/
def exRespelled : Bytes := [0x7B, 0x61, 0x20, 0x2E, 0x62, 0x3D, 0x31, 0x2C, 0x61, 0x2E, 0x63, 0x3D, 0x32, 0x7D]

theorem T03_value_tiling_counterexample : ¬ T03_value_tiling_statement := by
  intro h
  have : (parseCstValue exRespelled).map (verbatimValue exRespelled) = some exRespelled := by
    cases hp : parseCstValue exRespelled with
    | none => exact absurd hp (by decide +kernel)
    | some v => simp [h _ _ hp]
  exact absurd this (by decide +kernel)

/-- T03_value_tiling (proved part): for values built from scalars and arrays (any nesting, element
    decor, trailing comma, trailing trivia) the recorded pieces tile the source exactly. -/
theorem T03_value_tiling_partial (s : Bytes) (v : CVal) (h : parseCstValue s = some v)
    (hflat : flatVal v = true) : verbatimValue s v = s := by
  unfold parseCstValue at h
  split at h
  · rename_i v0 hv
    injection h with h; subst h
    obtain ⟨t, ht, _, _, htile⟩ := cvalue_tiling s _ 0 s [] v0 (List.suffix_refl s) hv
    rw [List.append_nil] at ht
    rw [verbatimValue, (htile hflat).2 [] [], ← ht]
  · cases h

/-- `[ 1, 'a' ,\r\n # c\n 2.5,\n]` -/
def exArray : Bytes :=
  [0x5B, 0x20, 0x31, 0x2C, 0x20, 0x27, 0x61, 0x27, 0x20, 0x2C, 0x0D, 0x0A, 0x20, 0x23, 0x20, 0x63, 0x0A,
   0x20, 0x32, 0x2E, 0x35, 0x2C, 0x0A, 0x5D]

example : ((parseCstValue exArray).map flatVal) = some true ∧
    (parseCstValue exArray).map (verbatimValue exArray) = some exArray := by decide +kernel

/-- the printed form of the same value: the CR of the element decor is dropped -/
example : (parseCstValue exArray).map (printValue exArray) =
    some [0x5B, 0x20, 0x31, 0x2C, 0x20, 0x27, 0x61, 0x27, 0x20, 0x2C, 0x0A, 0x20, 0x23, 0x20, 0x63, 0x0A,
          0x20, 0x32, 0x2E, 0x35, 0x2C, 0x0A, 0x5D] := by decide +kernel

/-- T03_doc_tiling, full strength at the document level (false in general: holds only for documents
    whose table-naming key segments are spelled once and whose dotted keys are adjacent — F15).
    Proved in `Props/C03Doc.lean` for values with inline tables (`T03_value_tiling_inline_partial`),
    for header-less documents (`T03_doc_tiling_root_partial`, `T03_doc_norm_root_partial` with the BOM
    and final-newline normalisations, `T03_print_fixpoint_partial`), and on the printer side for flat
    documents with headers (`T03_doc_tiling_headers_partial`); counterexamples for each side
    condition are there too. -/
def T03_doc_tiling_statement : Prop :=
  ∀ (s : Bytes) (d : CDoc), parseCst s = some d → Doc.stripBom s = s →
    (∀ b ∈ s, b ≠ 0x0D) → (s.getLast? = some 0x0A ∨ s = []) → printDoc s d = s

/-- a document-level instance of the three normalisations: BOM `a = 1` CRLF `[t] # c` CRLF `b = 2`
    (no final newline) prints as `a = 1` LF `[t] # c` LF `b = 2` LF -/
def exDoc : Bytes := [0xEF, 0xBB, 0xBF, 0x61, 0x20, 0x3D, 0x20, 0x31, 0x0D, 0x0A, 0x5B, 0x74, 0x5D, 0x20, 0x23, 0x20, 0x63, 0x0D, 0x0A, 0x62, 0x20, 0x3D, 0x20, 0x32]

example : (parseCst exDoc).map (printDoc exDoc) = some [0x61, 0x20, 0x3D, 0x20, 0x31, 0x0A, 0x5B, 0x74, 0x5D, 0x20, 0x23, 0x20, 0x63, 0x0A, 0x62, 0x20, 0x3D, 0x20, 0x32, 0x0A] := by decide +kernel

end TomlVerif.Props.C03
