import TomlVerif.Props.C19
import TomlVerif.Props.C09
import TomlVerif.Lemmas.Macro19bWF
import TomlVerif.Lemmas.Macro19bSem
import TomlVerif.Lemmas.Macro19bEq
/-! C19 at full strength — the table `toml!` builds equals the table the parser builds from the same text.

    Syntax (Lemmas/Macro19bKey.lean, Macro19bVal.lean, Macro19bDoc.lean), all over the token trees rustc hands to
    the macro:
    * `MKey` — a key `seg . seg . …`, a segment `atom - atom - …`, an atom any non-punctuation token;
    * `MTree` — a value: `leaf` (the `MacroVal` of Props/C19.lean: signed numbers, `inf`/`nan`, booleans, string and
      character literals, the eleven date-time shapes, arrays of those), `arr` (array of trees), `tbl` (inline
      table `{ key = tree, … }`), both with an optional trailing comma, nested to any depth;
    * `DStmt` — `key = tree`, `[key]`, `[[key]]`; `spellDoc` the token list of a document.

    Meaning for the macro: `MTree.sem`, `docSem` — the run-time helpers `insert_toml`, `table_toml`, `push_toml`
    folded over entries / statements; literal evaluation (rustc) and the date-time text parser are shared.
    What the PARSER builds: `refV` (values; inline tables through `tableFromPairs` of Model/Value.lean) and the
    table-building state machine of Model/State.lean (`run`, `intoDocument`), read as a `toml::Value` by
    `valM` / `tblM`.

    Results:
    * `T19_value`, `T19_doc_munch`: the muncher computes exactly `sem` / `docSem`, for EVERY tree and document
      (well-formed or not; failures included).
    * `T19_value_agree`, `T19_doc`: whenever the parser accepts, the macro builds the same value / table
      (values: identical; documents: identical up to the order of keys, `Sim`).
    * the converse is false: the macro accepts documents the parser rejects (`T19_macro_more_permissive`). -/
namespace TomlVerif.Props.C19Full
open TomlVerif TomlVerif.Model TomlVerif.Model.Macro TomlVerif.Lemmas.Macro19 TomlVerif.Lemmas.Macro19b
open TomlVerif.Model.State TomlVerif.Lemmas.State09

/-! ## helpers for the examples -/

/-- bare key `s` -/
def bare (s : Bytes) : MKey := ⟨⟨.ident s, []⟩, []⟩
/-- dotted bare key `a.r₁.r₂…` -/
def dottedKey (a : Bytes) (r : List Bytes) : MKey := ⟨⟨.ident a, []⟩, r.map fun s => ⟨.ident s, []⟩⟩
/-- quoted key `"s"` (no escapes) -/
def strKey (s : Bytes) : MKey := ⟨⟨.str ([0x22] ++ s ++ [0x22]) s, []⟩, []⟩
/-- unsigned integer literal -/
def int (body : Bytes) : MTree := .leaf (.int .none body)

/-! ## T19_value — values -/

/-- **T19_value.** Every value that is a single token tree — an array or inline table nested to any depth, with or
    without trailing commas, dotted / dashed / quoted keys, or an unsigned scalar — evaluates through `@value` to its
    meaning (a failing literal, date-time or `insert_toml` fails the value the same way). -/
theorem T19_value (a : MTree) (t : TT) (h : a.toks = [t]) : macroValue t = a.sem := by
  have hc := tree_cost_le a
  rw [h] at hc
  match a with
  | .leaf m =>
    simp only [MTree.toks] at h
    simp only [MTree.sem]
    match m with
    | .int s b => cases s <;> simp [MacroVal.toks, Sign.toks, pc, dash] at h <;> subst h <;> simp [macroValue, value, MacroVal.sem, Sign.neg]
    | .float s b => cases s <;> simp [MacroVal.toks, Sign.toks, pc, dash] at h <;> subst h <;> simp [macroValue, value, MacroVal.sem, Sign.neg]
    | .special s n =>
      cases s <;> simp [MacroVal.toks, Sign.toks, pc, dash] at h
      subst h
      cases n <;> simp [macroValue, value, MacroVal.sem, Sign.neg, bNan, bInf]
    | .bool b =>
      simp [MacroVal.toks] at h; subst h
      cases b <;> simp [macroValue, value, litValue, MacroVal.sem, bNan, bInf, bTrue, bFalse]
    | .str r v => simp [MacroVal.toks] at h; subst h; simp [macroValue, value, litValue, MacroVal.sem]
    | .chr r v => simp [MacroVal.toks] at h; subst h; simp [macroValue, value, litValue, MacroVal.sem]
    | .dt f => cases f <;> simp [MacroVal.toks, DtForm.toks] at h
    | .arr items tr =>
      simp [MacroVal.toks] at h; subst h
      exact C19.T19_value_partial items tr
  | .arr items tr =>
    simp [MTree.toks] at h; subst h
    unfold macroValue
    obtain ⟨f, hf⟩ : ∃ f, 2 * sizeTTs [TT.group .bracket (joinC (chunksT items) tr)] + 4 = f + 1 := ⟨_, rfl⟩
    rw [hf]
    exact value_tree_arr items tr f (by simp [MTree.cost] at hc; omega)
  | .tbl es tr =>
    simp [MTree.toks] at h; subst h
    unfold macroValue
    obtain ⟨f, hf⟩ : ∃ f, 2 * sizeTTs [TT.group .brace (joinC (chunksE es) tr)] + 4 = f + 1 := ⟨_, rfl⟩
    rw [hf]
    exact value_tree_tbl es tr f (by simp [MTree.cost] at hc; omega)

/-- `{ p.q = [1, {r = 2},], "s" = 3 }` -/
def exTbl : MTree :=
  .tbl [(dottedKey [0x70] [[0x71]], .arr [int [0x31], .tbl [(bare [0x72], int [0x32])] false] true),
        (strKey [0x73], int [0x33])] false

/-- non-vacuity: that inline table is one token tree and evaluates to `{p = {q = [1, {r = 2}]}, s = 3}` -/
example : ∃ t, exTbl.toks = [t] ∧
    macroValue t = .ok (.tbl [([0x70], .tbl [([0x71], .arr [.int 1, .tbl [([0x72], .int 2)]])]), ([0x73], .int 3)]) :=
  ⟨_, rfl, by rfl⟩

/-- every value (also the several-token ones: signed numbers, date-times) in an array: `@array` pushes exactly
    its meaning and continues behind the comma -/
theorem T19_value_in_array (a : MTree) (f : Nat) (acc : List MVal) (rest : List TT) (hf : a.cost ≤ f) (hr : RestOk rest) :
    array (f + 2) acc (a.toks ++ commaT :: rest) = R.bind a.sem fun v => array (f + 1) (acc ++ [v]) rest := by
  obtain ⟨t, r, ht⟩ := tree_toks_ne a
  rw [array_eq _ _ _ (by simp [ht]), readVal_step a f rest hf hr]
  cases a.sem <;> rfl

/-- every value as an entry of an inline table: `@table` inserts exactly its meaning at the key's path (the path
    `concat!` computes; `none`: it rejects a token) and continues behind the comma -/
theorem T19_value_in_table (k : MKey) (a : MTree) (f : Nat) (root : MVal) (rest : List TT) (hf : a.cost ≤ f)
    (hr : RestOk rest) :
    table (f + 2) root (k.toks ++ eqT :: (a.toks ++ commaT :: rest)) =
      match k.path with
      | none => .unsupported
      | some p => R.bind a.sem fun v =>
        match insertToml root p v with
        | some root' => table (f + 1) root' rest
        | none => .panic := by
  obtain ⟨x, hx⟩ := key_toks_cons k
  rw [table_eq _ _ _ (by simp [hx]), keyPath_key]
  change (match k.path with | none => _ | some path => _) = _
  cases k.path with
  | none => rfl
  | some p =>
    simp only []
    rw [readVal_step a f rest hf hr]
    cases a.sem <;> rfl

/-- every value at the top level (`key = value` followed by the next statement): `@toplevel` inserts exactly its
    meaning below the current header path and continues with the next statement -/
theorem T19_value_at_toplevel (keep : Bool) (k : MKey) (a : MTree) (f : Nat) (root : MVal) (path : List Bytes)
    (rest : List TT) (hf : a.cost ≤ f) (hr : DocRest rest) :
    toplevel keep (f + 2) root path (k.toks ++ eqT :: a.toks ++ rest) =
      match k.path with
      | none => .unsupported
      | some ks => R.bind a.sem fun x =>
        match insertToml root (path ++ ks) x with
        | some root' => toplevel keep (f + 1) root' path rest
        | none => .panic := toplevel_kv keep f root path k a rest hf hr

example : RestOk [] ∧ DocRest [] ∧ DocRest (spellDoc [.std (bare [0x61])]) ∧ (int [0x31]).cost ≤ 0 :=
  ⟨restOk_nil, docRest_nil, docRest_spellDoc _, by decide⟩

/-- **agreement on values.** Whenever the parser accepts the value (`refV a = some v`: the literals are in range
    and `table_from_pairs` accepts the entries of every inline table), the macro builds exactly that value, keys in
    the same order. -/
theorem T19_value_agree (a : MTree) (v : Val) (t : TT) (h : a.toks = [t]) (hv : refV a = some v) :
    macroValue t = .ok (valM v) := by
  rw [T19_value a t h, value_agree a v hv]

/-- non-vacuity: the parser accepts `exTbl` -/
example : exTbl.WF := by unfold MTree.WF; rfl

/-- the same under a syntactic hypothesis (`MTree.WFs`, Lemmas/Macro19bWF.lean): every literal evaluates, `concat!`
    accepts every key token, and within each inline table no full key is a prefix of (or equal to) another one —
    no duplicate keys, no dotted key through a defined key. Then the parser accepts and the macro builds the
    parser's value. -/
theorem T19_value_wf (a : MTree) (t : TT) (h : a.toks = [t]) (hw : a.WFs) :
    ∃ v, refV a = some v ∧ macroValue t = .ok (valM v) := by
  obtain ⟨v, hv, _⟩ := refV_of_WFs a hw
  exact ⟨v, hv, T19_value_agree a v t h hv⟩

example : exTbl.WFs := by
  simp only [exTbl, MTree.WFs, WFsE, WFsL, int]
  refine ⟨⟨⟨⟨_, rfl⟩, ⟨⟨⟨_, rfl⟩, trivial⟩, ⟨_, rfl, by simp⟩⟩, trivial⟩, ⟨_, rfl⟩, trivial⟩, ⟨_, rfl, ?_⟩⟩
  simp [TomlVerif.Lemmas.InlineKeys01.Incomp]

/-- the converse is false for values: the macro has none of the parser's checks on inline tables.
    `{ x = 1, x = 2 }` (duplicate key): the last entry wins; `{ x = 1, x.y = 2 }` (dotted key through a value): the
    value is replaced by a table; `{ x = {}, x.y = 2 }` (dotted key into a written-out table): extended.
    The parser rejects all three. -/
theorem T19_value_macro_more_permissive :
    (refV (.tbl [(bare [0x78], int [0x31]), (bare [0x78], int [0x32])] false) = none ∧
      (MTree.tbl [(bare [0x78], int [0x31]), (bare [0x78], int [0x32])] false).sem = .ok (.tbl [([0x78], .int 2)])) ∧
    (refV (.tbl [(bare [0x78], int [0x31]), (dottedKey [0x78] [[0x79]], int [0x32])] false) = none ∧
      (MTree.tbl [(bare [0x78], int [0x31]), (dottedKey [0x78] [[0x79]], int [0x32])] false).sem =
        .ok (.tbl [([0x78], .tbl [([0x79], .int 2)])])) ∧
    (refV (.tbl [(bare [0x78], .tbl [] false), (dottedKey [0x78] [[0x79]], int [0x32])] false) = none ∧
      (MTree.tbl [(bare [0x78], .tbl [] false), (dottedKey [0x78] [[0x79]], int [0x32])] false).sem =
        .ok (.tbl [([0x78], .tbl [([0x79], .int 2)])])) :=
  ⟨⟨by rfl, by rfl⟩, ⟨by rfl, by rfl⟩, ⟨by rfl, by rfl⟩⟩

/-- and an inline table can make the expansion panic at run time: `{ x = [], x.y = 2 }` (`traverse` unwraps the
    last element of the empty array) -/
theorem T19_value_panic :
    (MTree.tbl [(bare [0x78], .arr [] false), (dottedKey [0x78] [[0x79]], int [0x32])] false).sem = .panic := by rfl

/-! ## T19_doc — documents -/

/-- **T19_doc, the muncher.** For every document — any statements, any keys, any values, valid TOML or not — `toml!`
    computes exactly the fold of its three run-time helpers over the statements: `insert_toml` below the path of
    the last header for `key = value`, `table_toml` (`keep = true`; `insert_toml` of an empty table for
    `keep = false`, the code before the repair of F8) for `[key]`, `push_toml` for `[[key]]`. -/
theorem T19_doc_munch (keep : Bool) (ds : List DStmt) (hne : ds ≠ []) :
    macroDocWith keep (spellDoc ds) = docSem keep ds emptyTbl [] := macroDoc_doc keep ds hne

/-- `[[a]] x = 1 [a.b] y = {p.q = [1, {r = 2},], "s" = 3} [[a]] [a.b] y = -3 [c.d] z = 1979-05-27 07:32:00Z [c] w = 'u'`:
    an array of tables with sub-tables, and a header (`[c]`) after a longer one (`[c.d]`, the F8 shape) -/
def exText : Bytes := [0x5B,0x5B,0x61,0x5D,0x5D,0x20,0x78,0x20,0x3D,0x20,0x31,0x20,0x5B,0x61,0x2E,0x62,0x5D,0x20,0x79,0x20,0x3D,0x20,0x7B,0x70,0x2E,0x71,0x20,0x3D,0x20,0x5B,0x31,0x2C,0x20,0x7B,0x72,0x20,0x3D,0x20,0x32,0x7D,0x2C,0x5D,0x2C,0x20,0x22,0x73,0x22,0x20,0x3D,0x20,0x33,0x7D,0x20,0x5B,0x5B,0x61,0x5D,0x5D,0x20,0x5B,0x61,0x2E,0x62,0x5D,0x20,0x79,0x20,0x3D,0x20,0x2D,0x33,0x20,0x5B,0x63,0x2E,0x64,0x5D,0x20,0x7A,0x20,0x3D,0x20,0x31,0x39,0x37,0x39,0x2D,0x30,0x35,0x2D,0x32,0x37,0x20,0x30,0x37,0x3A,0x33,0x32,0x3A,0x30,0x30,0x5A,0x20,0x5B,0x63,0x5D,0x20,0x77,0x20,0x3D,0x20,0x27,0x75,0x27]

def exDoc : List DStmt := [
  .arr (bare [0x61]), .kv (bare [0x78]) (int [0x31]),
  .std (dottedKey [0x61] [[0x62]]), .kv (bare [0x79]) exTbl,
  .arr (bare [0x61]), .std (dottedKey [0x61] [[0x62]]), .kv (bare [0x79]) (.leaf (.int .minus [0x33])),
  .std (dottedKey [0x63] [[0x64]]),
  .kv (bare [0x7A]) (.leaf (.dt (.ldtSp ⟨[0x31,0x39,0x37,0x39],[],false⟩ ⟨[0x30,0x35],[],false⟩ ⟨[0x32,0x37],[],false⟩
                                        ⟨[0x30,0x37],[],false⟩ ⟨[0x33,0x32],[],false⟩ ⟨[0x30,0x30],[0x5A],false⟩))),
  .std (bare [0x63]), .kv (bare [0x77]) (.leaf (.chr [0x27,0x75,0x27] [0x75]))]

/-- what both build: `{a = [{x = 1, b = {y = {p = {q = [1, {r = 2}]}, s = 3}}}, {b = {y = -3}}],
    c = {d = {z = 1979-05-27T07:32:00Z}, w = "u"}}` -/
def exTable : MVal :=
  .tbl [([0x61], .arr [.tbl [([0x78], .int 1),
                             ([0x62], .tbl [([0x79], .tbl [([0x70], .tbl [([0x71], .arr [.int 1, .tbl [([0x72], .int 2)]])]),
                                                           ([0x73], .int 3)])])],
                       .tbl [([0x62], .tbl [([0x79], .int (-3))])]]),
        ([0x63], .tbl [([0x64], .tbl [([0x7A], .dt ⟨some ⟨1979, 5, 27⟩, some ⟨7, 32, 0, 0⟩, some .z⟩)]),
                       ([0x77], .str [0x75])])]

set_option maxRecDepth 8000 in
/-- rustc's tokens of the text are the spelling of `exDoc` -/
theorem exDoc_tokens : tokens exText = some (spellDoc exDoc) := by rfl

set_option maxRecDepth 8000 in
/-- the macro (with the repaired header arm) builds `exTable` -/
theorem exDoc_macro : macroDocWith true (spellDoc exDoc) = .ok exTable := by rfl

set_option maxRecDepth 8000 in
/-- with the header arm as it was (F8) the sub-table `c.d` is lost -/
theorem exDoc_macro_f8 : macroDocWith false (spellDoc exDoc) =
    .ok (.tbl [([0x61], .arr [.tbl [([0x78], .int 1),
                             ([0x62], .tbl [([0x79], .tbl [([0x70], .tbl [([0x71], .arr [.int 1, .tbl [([0x72], .int 2)]])]),
                                                           ([0x73], .int 3)])])],
                       .tbl [([0x62], .tbl [([0x79], .int (-3))])]]),
               ([0x63], .tbl [([0x77], .str [0x75])])]) := by rfl

/-! ### agreement with the parser -/

/-- **T19_doc.** Let `ds` be a document whose statements the parser's state machine consumes as `ss` (`stmtsOf`: the
    value parser accepts every value, `concat!` every key token). Whenever the state machine (Model/State.lean,
    verified against the definition rules of TOML in Props/C09Equiv.lean) ACCEPTS `ss` and closes it into the document
    `d`, `toml!` (with the repaired header arm) compiles, does not panic and builds the same table: the same keys
    bound to the same values at every depth, arrays equal element by element (`Sim`, characterised by `sim_tbl`,
    `sim_arr`, `sim_int` … of Lemmas/Macro19bSim.lean). Only the order in which a table's keys were inserted can
    differ (`T19_doc_order`), which `toml::Table`, a `BTreeMap`, does not record. -/
theorem T19_doc (ds : List DStmt) (ss : List Stmt) (st : ParseState) (d : Tbl) (hne : ds ≠ [])
    (hs : stmtsOf ds = some ss) (hr : run {} ss = some st) (hd : intoDocument st = some d) :
    ∃ m, macroDocWith true (spellDoc ds) = .ok m ∧ Sim m (tblM d) := by
  obtain ⟨m, hm, hsim⟩ := refRun_agrees ss st d hr hd
  refine ⟨m, ?_, hsim⟩
  rw [T19_doc_munch true ds hne, docSem_ref true ds ss hs]
  unfold refRun at hm
  cases h : refRunFrom true (emptyTbl, []) ss with
  | none => simp [h] at hm
  | some p => simp [h] at hm; simp [liftO, hm]

/-- the same for the macro of /repo as pinned (`macroDoc`; `headerKeeps = true` since the repair of F8), without
    the hypothesis on `intoDocument` (an accepted statement list can always be closed, `T09_run_document_defined`) -/
theorem T19_doc_repo (ds : List DStmt) (ss : List Stmt) (st : ParseState) (hne : ds ≠ [])
    (hs : stmtsOf ds = some ss) (hr : run {} ss = some st) :
    ∃ d m, intoDocument st = some d ∧ macroDoc (spellDoc ds) = .ok m ∧ Sim m (tblM d) := by
  have hdef := TomlVerif.Props.C09.T09_run_document_defined ss st hr
  cases hd : intoDocument st with
  | none => simp [hd] at hdef
  | some d =>
    obtain ⟨m, hm, hsim⟩ := T19_doc ds ss st d hne hs hr hd
    have hk : headerKeeps = true := by decide
    refine ⟨d, m, rfl, ?_, hsim⟩
    unfold macroDoc
    rw [hk]
    exact hm

/-- the parser accepts `exDoc` (array of tables with sub-tables, a header after a longer header) and its document,
    read as a `toml::Value`, is `exTable` — here identical to what the macro builds (`exDoc_macro`), keys in the
    same order -/
theorem exDoc_parsed : parsedTable exDoc = some exTable := optIs_sound _ _ (by decide +kernel)

/-- non-vacuity of `T19_doc`: `exDoc` meets its hypotheses -/
example : exDoc ≠ [] ∧ ∃ ss st d, stmtsOf exDoc = some ss ∧ run {} ss = some st ∧ intoDocument st = some d ∧
    tblM d = exTable :=
  ⟨by simp [exDoc], parsedTable_some exDoc exTable exDoc_parsed⟩

/-- `[a.b]  [c]  [a]`: a super-table declared after its sub-table, with another table in between -/
def orderDoc : List DStmt := [.std (dottedKey [0x61] [[0x62]]), .std (bare [0x63]), .std (bare [0x61])]

/-- where the two differ for valid TOML: the macro keeps `a` where `[a.b]` created it, the parser's document lists
    `a` where `[a]` declared it (keys `a, c` against `c, a`). As maps the tables are the same (`T19_doc`). -/
theorem T19_doc_order :
    macroDocWith true (spellDoc orderDoc) = .ok (.tbl [([0x61], .tbl [([0x62], .tbl [])]), ([0x63], .tbl [])]) ∧
    parsedTable orderDoc = some (.tbl [([0x63], .tbl []), ([0x61], .tbl [([0x62], .tbl [])])]) :=
  ⟨by rfl, optIs_sound _ _ (by decide +kernel)⟩

/-- `[a.b] x = 1 [a] y = 2`, the F8 witness of Props/C19.lean as a document -/
def f8Doc : List DStmt :=
  [.std (dottedKey [0x61] [[0x62]]), .kv (bare [0x78]) (int [0x31]), .std (bare [0x61]), .kv (bare [0x79]) (int [0x32])]

/-- its spelling is `f8Toks`; the parser accepts it and its document is `f8Parsed` — which the repaired macro builds
    (`C19.T19_finding_repaired`, an instance of `T19_doc`) and the macro as found did not (`C19.T19_finding`) -/
theorem f8Doc_parsed : spellDoc f8Doc = C19.f8Toks ∧ parsedTable f8Doc = some C19.f8Parsed :=
  ⟨by rfl, optIs_sound _ _ (by decide +kernel)⟩

/-! ### the macro is more permissive than the parser -/

/-- `a = 1  a = 2` -/
def dupDoc : List DStmt := [.kv (bare [0x61]) (int [0x31]), .kv (bare [0x61]) (int [0x32])]
/-- `a = 1  a.b = 2` -/
def dotValDoc : List DStmt := [.kv (bare [0x61]) (int [0x31]), .kv (dottedKey [0x61] [[0x62]]) (int [0x32])]
/-- `a = 1  [a]  x = 2` -/
def hdrValDoc : List DStmt := [.kv (bare [0x61]) (int [0x31]), .std (bare [0x61]), .kv (bare [0x78]) (int [0x32])]
/-- `[a]  x = 1  [a]  y = 2` -/
def hdrTwiceDoc : List DStmt :=
  [.std (bare [0x61]), .kv (bare [0x78]) (int [0x31]), .std (bare [0x61]), .kv (bare [0x79]) (int [0x32])]
/-- `[a]  x = 1  [[a]]  y = 2` -/
def aotAfterStdDoc : List DStmt :=
  [.std (bare [0x61]), .kv (bare [0x78]) (int [0x31]), .arr (bare [0x61]), .kv (bare [0x79]) (int [0x32])]
/-- `a = []  a.b = 1` -/
def emptyArrDoc : List DStmt := [.kv (bare [0x61]) (.arr [] false), .kv (dottedKey [0x61] [[0x62]]) (int [0x31])]

/-- is the document accepted by the parser's state machine? (`none`: a value or key is already rejected) -/
def parserAccepts (ds : List DStmt) : Option Bool := (stmtsOf ds).map fun ss => (run {} ss).isSome

/-- `toml!` has none of the parser's definition rules. Each of these documents is rejected by the parser
    (`parserAccepts … = some false`: the statements are well-formed, the state machine says no) and compiles:
    a duplicate key — the last value wins; a dotted key through a value — replaced by a table; a header naming a
    value — replaced by a table; the same header twice — merged; `[[a]]` after `[a]` — the table is replaced by an
    array. The last one is rejected by the parser and panics at run time in the macro. -/
theorem T19_macro_more_permissive :
    (parserAccepts dupDoc = some false ∧ macroDocWith true (spellDoc dupDoc) = .ok (.tbl [([0x61], .int 2)])) ∧
    (parserAccepts dotValDoc = some false ∧
      macroDocWith true (spellDoc dotValDoc) = .ok (.tbl [([0x61], .tbl [([0x62], .int 2)])])) ∧
    (parserAccepts hdrValDoc = some false ∧
      macroDocWith true (spellDoc hdrValDoc) = .ok (.tbl [([0x61], .tbl [([0x78], .int 2)])])) ∧
    (parserAccepts hdrTwiceDoc = some false ∧
      macroDocWith true (spellDoc hdrTwiceDoc) = .ok (.tbl [([0x61], .tbl [([0x78], .int 1), ([0x79], .int 2)])])) ∧
    (parserAccepts aotAfterStdDoc = some false ∧
      macroDocWith true (spellDoc aotAfterStdDoc) = .ok (.tbl [([0x61], .arr [.tbl [([0x79], .int 2)]])])) ∧
    (parserAccepts emptyArrDoc = some false ∧ macroDocWith true (spellDoc emptyArrDoc) = .panic) :=
  ⟨⟨by decide +kernel, by rfl⟩, ⟨by decide +kernel, by rfl⟩, ⟨by decide +kernel, by rfl⟩, ⟨by decide +kernel, by rfl⟩,
   ⟨by decide +kernel, by rfl⟩, ⟨by decide +kernel, by rfl⟩⟩

/-- the statement as first proposed: the macro yields a table exactly when the state machine accepts -/
def T19_doc_iff : Prop :=
  ∀ (ds : List DStmt) (ss : List Stmt), ds ≠ [] → stmtsOf ds = some ss →
    ((∃ m, macroDocWith true (spellDoc ds) = .ok m) ↔ (run {} ss).isSome = true)

/-- it is false (only `←` holds, `T19_doc`): `a = 1  a = 2` compiles and the parser rejects it -/
theorem T19_doc_iff_false : ¬ T19_doc_iff := by
  intro h
  have := (h dupDoc [.kv [] [0x61] (.int 1), .kv [] [0x61] (.int 2)] (by simp [dupDoc]) (by rfl)).1 ⟨_, by rfl⟩
  revert this
  decide

end TomlVerif.Props.C19Full
