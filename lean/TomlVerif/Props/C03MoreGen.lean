import TomlVerif.Props.C03MoreNad
import TomlVerif.Props.C03MoreTko
import TomlVerif.Lemmas.Tiling03MoreGenMain
/-! C03, continued — the weaker clause (valid, SAME DATA) for the JOIN of the take-over class
    (`tkoRun`, `Props/C03MoreTko.lean`) and the non-adjacent class (`nadRun`,
    `Props/C03MoreNad.lean`), which are incomparable.

    The class.  `genRun s` (`Lemmas/Tiling03MoreGenDefs.lean`): along the run of `parse_document`,
    header lines pass `hdrLineOkT` (`pathOkT`: as `pathOkA`, and a `[t]` header may take over an
    implicit, non-dotted table spelled like the stored key and holding sub-tables only) and
    key/value lines pass `kvLineOkN` (`dottedOkN`: a prefix segment naming an existing entry names
    a dotted-key table, anywhere in its table).  Still excluded: a dotted key through a table that
    a header made implicitly (statement false: `T03_same_data_counterexample`), a take-over under
    a respelled name, a header through a dotted-key table.

    Why it holds (`Lemmas/Tiling03MoreGen{Defs,Tree,State,Main}.lean`): the invariant of the
    non-adjacent case on top of the take-over invariant `AInvT`.  The current table is
    `base ++ body`: `base` the sub-tables a take-over header found (`onlySubs`, invisible to
    `valuesTbl`), `body` a `bodyOkN` body; `descend` below a dotted key never enters `base`
    (`descend_base`), so a key/value line works on `body` alone (`kv_descendG`, from
    `kv_descendN`).  The stored run ends in the state right after the header line
    (`hdrStateG st base`: the current table with items `base`); at the next header and at the end
    the body's statements are replayed on top of `base` (`run_bodyG`, from `replay_body`; the body
    keys are fresh in `base` because the current table has distinct keys, `tiTbl`), which gives
    back `AInvT` (`ginv_ainvT`); headers and `finalize_table` are those of the take-over class. -/
namespace TomlVerif.Props.C03More
open TomlVerif TomlVerif.Model TomlVerif.Model.Cst TomlVerif.Model.Encode
open TomlVerif.Lemmas.Cst03 TomlVerif.Lemmas.Tiling03 TomlVerif.Lemmas.Tiling03Hdr TomlVerif.Lemmas.Tiling03Nest
open TomlVerif.Lemmas.Tiling03More TomlVerif.Lemmas.Tiling03More.Tko TomlVerif.Lemmas.Tiling03More.Gen
open TomlVerif.Props.C03 TomlVerif.Props.C03Doc TomlVerif.Props.C03Hdr TomlVerif.Props.C03Nest

/-- class inclusions -/
theorem T03_nadRun_genRun (s : Bytes) (h : nadRun s = true) : genRun s = true := nadRun_G s h
theorem T03_tkoRun_genRun (s : Bytes) (h : tkoRun s = true) : genRun s = true := tkoRun_G s h

/-- T03_same_data_general_class: for every source in the join class the printed text decodes
    (semantic parser) to the same table, flags and positions included -/
theorem T03_same_data_general_class (s : Bytes) (d : CDoc) (h : parseCst s = some d) (hrun : genRun s = true) :
    Doc.parseDocument (printDoc s d) = Doc.parseDocument s := by
  rw [same_data_gen s d h hrun, ← T03_cst_erases_to_doc s, h]; rfl

/-- … and is accepted by the format-preserving parser, with the same data -/
theorem T03_same_data_general_class_cst (s : Bytes) (d : CDoc) (h : parseCst s = some d) (hrun : genRun s = true) :
    ∃ d', parseCst (printDoc s d) = some d' ∧ eraseTbl d'.root = eraseTbl d.root :=
  (T03_reparse_iff_doc (printDoc s d) (fun t => t = eraseTbl d.root)).2 ⟨_, same_data_gen s d h hrun, rfl⟩

theorem T03_same_data_general_class_tbl (s : Bytes) (d : CDoc) (h : parseCst s = some d) (hrun : genRun s = true) :
    Doc.parseDocument (printDoc s d) = some (eraseTbl d.root) :=
  same_data_gen s d h hrun

/-! ### non-vacuity: in `genRun`, outside `nadRun` and `tkoRun`, regrouped by the printer, same data -/

/-- a take-over (`[x]` after `[x.y]`) AND non-adjacent dotted keys -/
def exGen1 : Bytes := strBytes "[x.y]\n[z]\n[x]\na.b = 1\nc = 2\na.d = 3\n"

example : genRun exGen1 = true ∧ nadRun exGen1 = false ∧ tkoRun exGen1 = false ∧
    (parseCst exGen1).map (printDoc exGen1) = some (strBytes "[x.y]\n[z]\n[x]\na.b = 1\na.d = 3\nc = 2\n") ∧
    sameData exGen1 = some true := by decide +kernel

/-- a BOM, CR LF, respelled names, sections out of order, a take-over (`[ a]` after `[a.q]`),
    non-adjacent dotted keys at two levels in the taken-over table, an inline table with
    non-adjacent dotted keys, comments, no final newline -/
def exGenAll : Bytes :=
  [0xEF, 0xBB, 0xBF] ++ strBytes ("[a.q]\r\nk.x = 1\r\nm = 2\r\nk . y = 3\r\n# c\r\n[c]\r\n[ a]\r\nu.v.w = 1\r\n" ++
    "z = {p.q = 1, r = 2, p.s = 3}\r\nu.v.x = 2\r\nu.y = 3 # e\r\nu.v.z = 4\r\n[[a.c]]\r\n[[a . c]] # z")

example : genRun exGenAll = true ∧ nadRun exGenAll = false ∧ tkoRun exGenAll = false ∧
    (parseCst exGenAll).map (printDoc exGenAll)
      = some (strBytes ("[a.q]\nk.x = 1\nk. y = 3\nm = 2\n# c\n[c]\n[ a]\nu.v.w = 1\nu.v.x = 2\nu.v.z = 4\nu.y = 3 # e\n" ++
          "z = {p.q = 1, p.s = 3, r = 2}\n[[a.c]]\n[[a.c]] # z\n")) ∧
    sameData exGenAll = some true := by decide +kernel

/-- the examples of the two classes -/
example : genRun exNadAll = true ∧ genRun exSemAll = true ∧ genRun (strBytes "[x.y]\n[z]\n[x]\n") = true ∧
    genRun (strBytes "a.b = 1\nc = 2\na.d = 3\n") = true := by decide +kernel

/-! ### what stays excluded -/

/-- a dotted key through a table made by a header: outside the class, and the data DIFFERS -/
example : genRun (strBytes "[a.b.d]\n[a]\nb.c.e = 3\n") = false ∧
    sameData (strBytes "[a.b.d]\n[a]\nb.c.e = 3\n") = some false := by decide +kernel

/-- a take-over under a respelled name; a header through a dotted-key table (same data in both) -/
example : genRun (strBytes "[x .y]\n[x]\n") = false ∧ sameData (strBytes "[x .y]\n[x]\n") = some true ∧
    genRun (strBytes "[t]\na.b = 1\n[t.a.c]\n") = false ∧
    sameData (strBytes "[t]\na.b = 1\n[t.a.c]\n") = some true := by decide +kernel

end TomlVerif.Props.C03More

#print axioms TomlVerif.Props.C03More.T03_same_data_general_class
#print axioms TomlVerif.Props.C03More.T03_same_data_general_class_cst
#print axioms TomlVerif.Props.C03More.T03_nadRun_genRun
#print axioms TomlVerif.Props.C03More.T03_tkoRun_genRun
