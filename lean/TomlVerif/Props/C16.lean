import TomlVerif.Model.Containers
import TomlVerif.Lemmas.Containers16
/-! # C16 — the containers behave as ordered maps and sequences

`refStep` runs one API call on the reference ordered map (`Spec/OrdMap.lean`); the refinement
theorems say that the model of the code (`Model/Containers.lean`), run on any history of calls,
returns exactly what the reference returns and ends in a state whose abstraction is the reference's
state.  They are stated for the `repaired` configuration; for the code as it is (`current`) the same
holds on every history that never indexes mutably (`T16_refine_current_without_indexing`), and the
`T16_finding_*` theorems exhibit the deviations on concrete histories. -/
namespace TomlVerif.Props.C16
open TomlVerif.Spec.OrdMap TomlVerif.Model.Containers TomlVerif.Lemmas.Containers16

/-! ## the reference semantics of every call -/

def valKey : Option Val → Option Nat
  | some (.int n) => some n
  | _ => none

/-- the harness's `retain` predicate on values: keep even integers -/
def keepVal (d : Dialect) (_ : Nat) : Val → Bool
  | .int n => n % 2 == 0
  | .tbl => d.isTable

/-- descending by value; reservations last -/
def rleTable (a b : Nat × Option Val) : Bool := optLe (valKey b.2) (valKey a.2)

/-- reservations first, then descending by value -/
def rleInline (a b : Nat × Option Val) : Bool :=
  match a.2, b.2 with
  | none, _ => true
  | some _, none => false
  | some _, some _ => optLe (valKey b.2) (valKey a.2)

def pairSlot (e : Nat × Val) : Nat × Slot := (e.1, .item e.2)

def refStep (d : Dialect) (m : RMap Val) : Op → Ret × RMap Val
  | .ins k n => (.opt (optSlot (insert m k (.int n)).2), (insert m k (.int n)).1)
  | .insf k n =>
    if d.isLike then (.na, m) else (.opt (optSlot (insert m k (.int n)).2), (insert m k (.int n)).1)
  | .rem k => (.opt (optSlot (remove m k).2), (remove m k).1)
  | .reme k =>
    if d.isLike then (.na, m) else (.kv ((removeEntry m k).2.map pairSlot), (removeEntry m k).1)
  | .get k => (.opt (optSlot (get m k)), m)
  | .getmut k => (.opt (optSlot (get m k)), m)
  | .gkv k => (.kv ((getKeyValue m k).map pairSlot), m)
  | .has k => (.bool (contains m k), m)
  | .hasv k =>
    match d with
    | .table => (.bool (contains m k), m)
    | _ => (.na, m)
  | .hast _ =>
    match d with
    | .table => (.bool false, m)
    | _ => (.na, m)
  | .len => (.nat (len m), m)
  | .empty => (.bool (isEmpty m), m)
  | .iter => (.pairs ((entries m).map pairSlot), m)
  | .keys => (.keys (keys m), m)
  | .values => (.na, m)
  | .clear => (.unit, clear m)
  | .entry k n => (.slot (.item (orInsert m k (.int n)).2), (orInsert m k (.int n)).1)
  | .entocc k => (.bool (contains m k), m)
  -- the Entry API: the entry of `k` is occupied iff `get m k` finds a value
  | .entwith k n => (.slot (.item (orInsert m k (.int n)).2), (orInsert m k (.int n)).1)
  | .entrem k =>
    match get m k with
    | some v => (.opt (some (.item v)), (remove m k).1)
    | none => (.opt none, m)
  | .entins k n => (.opt (optSlot (insert m k (.int n)).2), (insert m k (.int n)).1)
  | .entget k => (.kv ((getKeyValue m k).map pairSlot), m)
  | .entmut k n =>
    match get m k with
    | some v => (.opt (some (.item v)), put m k (some (.int n)))
    | none => (.opt none, m)
  | .entkey k => (.bool (contains m k), m)
  -- `InlineTable::get_or_insert`: the ordered map's `orInsert`
  | .goi k n =>
    match d with
    | .inline => (.slot (.item (orInsert m k (.int n)).2), (orInsert m k (.int n)).1)
    | _ => (.na, m)
  | .idx k =>
    match get m k with
    | some v => (.slot (.item v), m)
    | none => (.panic, m)
  | .idxmut k =>
    (.slot (match get m k with | some v => .item v | none => .placeholder), reserve m k)
  | .idxset k n => (.unit, put m k (some (.int n)))
  | .retain =>
    match d with
    | .table => (.unit, retain true (keepVal .table) m)
    | .inline => (.unit, retain false (keepVal .inline) m)
    | _ => (.na, m)
  | .sort => (.unit, sortKeys m)
  | .sortby =>
    match d with
    | .table => (.unit, sortBy rleTable m)
    | .inline => (.unit, sortBy rleInline m)
    | _ => (.na, m)
  | .extend args =>
    if d.isLike then (.na, m) else (.unit, extend m ((pairsOf args).map fun kn => (kn.1, Val.int kn.2)))
  | .push _ => (.na, m)
  | .repl _ _ => (.na, m)
  | .bad => (.na, m)

def refRun (d : Dialect) : RMap Val → List Op → List Ret × RMap Val
  | m, [] => ([], m)
  | m, op :: ops =>
    let r := refStep d m op
    let rest := refRun d r.2 ops
    (r.1 :: rest.1, rest.2)

/-- the reference's final observation -/
def refObserve (d : Dialect) (m : RMap Val) : Final where
  len := len m
  empty := isEmpty m
  iter := (entries m).map pairSlot
  gets := [0, 1, 2, 3].map fun k => optSlot (get m k)
  into := match d with
    | .table | .inline => some ((entries m).map pairSlot)
    | _ => none
  print := if d.isTable then printTable ((entries m).map pairSlot) else printInline ((entries m).map pairSlot)

/-! ## one call -/

theorem filter_abs (p : Nat × Slot → Bool) (q : Nat × Option Val → Bool) (h : ∀ e, p e = q (absE e)) (m : Items) :
    abs (m.filter p) = (abs m).filter q := by
  induction m with
  | nil => rfl
  | cons e m ih =>
    simp only [List.filter_cons, abs_cons, ← h]
    cases p e <;> simp [ih]

theorem retain_table_abs (m : Items) : abs (imRetain keepTable m) = retain true (keepVal .table) (abs m) := by
  apply filter_abs
  rintro ⟨k, s⟩
  cases s with
  | placeholder => rfl
  | item v => cases v <;> rfl

theorem retain_inline_abs (m : Items) : abs (imRetain keepInline m) = retain false (keepVal .inline) (abs m) := by
  apply filter_abs
  rintro ⟨k, s⟩
  cases s with
  | placeholder => rfl
  | item v => cases v <;> rfl

theorem valKey_slotOpt (s : Slot) : valKey (slotOpt s) = s.asInt := by
  cases s with
  | placeholder => rfl
  | item v => cases v <;> rfl

theorem leTable_abs (a b : Nat × Slot) : leTable a b = rleTable (absE a) (absE b) := by
  simp [leTable, rleTable, valKey_slotOpt]

theorem leInline_abs (a b : Nat × Slot) : leInline a b = rleInline (absE a) (absE b) := by
  obtain ⟨ka, sa⟩ := a
  obtain ⟨kb, sb⟩ := b
  rcases sa with _ | va <;> rcases sb with _ | vb <;> try rfl
  cases va <;> cases vb <;> rfl

theorem sortBy_table_abs (m : Items) : abs (imSortBy leTable m) = sortBy rleTable (abs m) :=
  map_stableSort absE leTable rleTable leTable_abs m

theorem sortBy_inline_abs (m : Items) : abs (imSortBy leInline m) = sortBy rleInline (abs m) :=
  map_stableSort absE leInline rleInline leInline_abs m

theorem pairSlot_entries (m : Items) : (entries (abs m)).map pairSlot = iterVis m := entries_abs m

theorem kv_abs (m : Items) (k : Nat) :
    (getKeyValue (abs m) k).map pairSlot = (vis (imGet m k)).map fun s => (k, s) := by
  rw [← optSlot_get_abs]
  unfold getKeyValue
  cases get (abs m) k <;> rfl

/-- the previous value reported by insert / remove, repaired code -/
theorem oldRet_repaired (d : Dialect) (o : Option Slot) : oldRet repaired d o = vis o := by
  unfold oldRet
  cases d <;> rfl

/-- `entry(k).or_insert(v)` / `or_insert_with`, repaired code, against the reference's `orInsert` -/
theorem orInsert_refines (d : Dialect) (m : Items) (k n : Nat) :
    (Ret.slot (.item (orInsert (abs m) k (.int n)).2), (orInsert (abs m) k (.int n)).1) =
      ((orInsertStep repaired d m k n).1, abs (orInsertStep repaired d m k n).2) := by
  simp only [orInsertStep, orInsert]
  have hg := get_abs m k
  cases h : imGet m k with
  | none =>
    rw [h] at hg
    simp only [Option.bind_none] at hg
    simp only [hg]
    exact congrArg _ (put_abs_push m k (.item (.int n)) h)
  | some s =>
    rw [h] at hg
    cases s with
    | placeholder =>
      simp only [Option.bind_some, slotOpt] at hg
      simp only [hg]
      cases d <;> exact congrArg _ (put_abs_set m k (.item (.int n)) (by simp [h]))
    | item v =>
      simp only [Option.bind_some, slotOpt] at hg
      simp only [hg]

/-- One call: the repaired model returns what the reference returns, and the abstraction of its new
    state is the reference's new state. -/
theorem step_refines (d : Dialect) (m : Items) (op : Op) :
    refStep d (abs m) op = ((step repaired d m op).1, abs (step repaired d m op).2) := by
  cases op with
  | ins k n =>
    simp only [refStep, step, Spec.OrdMap.insert, oldRet_repaired, imInsert_snd, optSlot_get_abs]
    rw [← put_abs]; rfl
  | insf k n =>
    simp only [refStep, step]
    cases hd : d.isLike
    · simp only [Bool.false_eq_true, ↓reduceIte, Spec.OrdMap.insert, oldRet_repaired, imInsert_snd, optSlot_get_abs]
      rw [← put_abs]; rfl
    · simp
  | rem k =>
    simp only [refStep, step, Spec.OrdMap.remove, oldRet_repaired, shiftRemove_snd, optSlot_get_abs, eraseP_abs]
  | reme k =>
    simp only [refStep, step]
    cases hd : d.isLike
    · simp only [Bool.false_eq_true, ↓reduceIte, removeEntry, oldRet_repaired, shiftRemove_snd, eraseP_abs, kv_abs]
    · simp
  | get k =>
    simp only [refStep, step, optSlot_get_abs]
    cases d <;> simp [dGet, repaired]
  | getmut k =>
    simp only [refStep, step, optSlot_get_abs]
    cases d <;> simp [dGet, repaired]
  | gkv k => simp only [refStep, step, kv_abs]
  | has k => simp only [refStep, step, contains_abs]
  | hasv k => cases d <;> simp [refStep, step, contains_abs]
  | hast k => cases d <;> simp [refStep, step]
  | len =>
    simp only [refStep, step, len_abs]
    cases d <;> simp [dLen, dIter, repaired, Dialect.isLike, iterVis_idem]
  | empty =>
    simp only [refStep, step, isEmpty_abs]
    cases d <;> simp [dLen, dIter, repaired, Dialect.isLike, iterVis_idem]
  | iter =>
    simp only [refStep, step, pairSlot_entries]
    cases d <;> simp [dIter, repaired]
  | keys =>
    simp only [refStep, step, keys_abs]
    cases d <;> simp [dIter, repaired]
  | values => simp [refStep, step]
  | clear => simp [refStep, step, clear]
  | entry k n => simp only [refStep, step]; exact orInsert_refines d m k n
  | entwith k n => simp only [refStep, step]; exact orInsert_refines d m k n
  | entrem k =>
    simp only [refStep, step, entryOf_repaired, Spec.OrdMap.remove]
    have hg := get_abs m k
    cases h : imGet m k with
    | none =>
      rw [h] at hg
      simp only [Option.bind_none] at hg
      simp only [hg, vis]
    | some s =>
      rw [h] at hg
      cases s with
      | placeholder =>
        simp only [Option.bind_some, slotOpt] at hg
        simp only [hg, vis]
      | item v =>
        simp only [Option.bind_some, slotOpt] at hg
        simp only [hg, vis, eraseP_abs]
  | entins k n =>
    simp only [refStep, step, entryOf_repaired, Spec.OrdMap.insert, optSlot_get_abs]
    have hp := put_abs m k (.item (.int n))
    simp only [slotOpt] at hp
    rw [hp]
    cases h : imGet m k with
    | none => simp only [vis]
    | some s =>
      cases s with
      | placeholder => simp only [vis]
      | item v => simp only [vis, imInsert, h]
  | entget k => simp only [refStep, step, entryOf_repaired, kv_abs]
  | entmut k n =>
    simp only [refStep, step, entryOf_repaired]
    have hg := get_abs m k
    cases h : imGet m k with
    | none =>
      rw [h] at hg
      simp only [Option.bind_none] at hg
      simp only [hg, vis]
    | some s =>
      rw [h] at hg
      cases s with
      | placeholder =>
        simp only [Option.bind_some, slotOpt] at hg
        simp only [hg, vis]
      | item v =>
        simp only [Option.bind_some, slotOpt] at hg
        simp only [hg, vis]
        exact congrArg _ (put_abs_set m k (.item (.int n)) (by simp [h]))
  | entkey k =>
    simp only [refStep, step, entryOf_repaired, contains_abs, dHas]
    cases h : imGet m k with
    | none => rfl
    | some s => cases s <;> rfl
  | entocc k =>
    simp only [refStep, step, contains_abs, dHas]
    cases h : imGet m k with
    | none => rfl
    | some s => cases s <;> cases d <;> simp [repaired, Slot.isNone]
  | goi k n =>
    cases d
    case inline =>
      simp only [refStep, step, goiStep_eq_orInsertStep repaired m k n rfl]
      exact orInsert_refines .inline m k n
    all_goals simp [refStep, step]
  | idx k =>
    simp only [refStep, step]
    rw [← optSlot_get_abs]
    cases get (abs m) k <;> rfl
  | idxmut k =>
    simp only [refStep, step]
    have hg := get_abs m k
    cases h : imGet m k with
    | none =>
      rw [h] at hg
      simp only [Option.bind_none] at hg
      simp only [hg, reserve_abs m k h]
    | some s =>
      rw [h] at hg
      simp only [Option.bind_some] at hg
      simp only [hg, reserve_abs_some m k s h]
      cases s <;> rfl
  | idxset k n =>
    simp only [refStep, step]
    cases h : imGet m k with
    | none => exact congrArg _ (put_abs_push m k (.item (.int n)) h)
    | some s => exact congrArg _ (put_abs_set m k (.item (.int n)) (by simp [h]))
  | retain =>
    cases d <;> simp [refStep, step, retain_table_abs, retain_inline_abs]
  | sort => simp only [refStep, step, sortKeys_abs]
  | sortby =>
    cases d <;> simp [refStep, step, sortBy_table_abs, sortBy_inline_abs]
  | extend args =>
    simp only [refStep, step]
    cases hd : d.isLike
    · simp only [Bool.false_eq_true, ↓reduceIte]
      have := extend_abs ((pairsOf args).map fun kn => (kn.1, Val.int kn.2)) m
      simp only [List.map_map] at this
      rw [this]; rfl
    · simp
  | push n => simp [refStep, step]
  | repl i n => simp [refStep, step]
  | bad => simp [refStep, step]

/-! ## histories -/

/-- Any history from any state: same results, abstraction of the final state = reference's final state. -/
theorem run_refines (d : Dialect) (ops : List Op) (m : Items) :
    refRun d (abs m) ops = ((run repaired d m ops).1, abs (run repaired d m ops).2) := by
  induction ops generalizing m with
  | nil => rfl
  | cons op ops ih =>
    simp only [refRun, run, step_refines, ih]

theorem dIter_repaired (d : Dialect) (m : Items) : dIter repaired d m = iterVis m := by
  cases d <;> simp [dIter, repaired]

theorem dLen_repaired (d : Dialect) (m : Items) : dLen repaired d m = (iterVis m).length := by
  cases d <;> simp [dLen, dIter_repaired, Dialect.isLike, iterVis_idem]

theorem dGet_repaired (d : Dialect) (m : Items) (k : Nat) : dGet repaired d m k = vis (imGet m k) := by
  cases d <;> simp [dGet, repaired]

theorem valuesOf_iterVis (m : Items) : valuesOf (iterVis m) = valuesOf m := by
  induction m with
  | nil => rfl
  | cons e m ih =>
    obtain ⟨k, s⟩ := e
    cases s with
    | placeholder => simpa [iterVis, valuesOf, Slot.isNone] using ih
    | item v => simpa [iterVis, valuesOf, Slot.isNone] using ih

theorem printTable_iterVis (m : Items) : printTable (iterVis m) = printTable m := by
  induction m with
  | nil => rfl
  | cons e m ih =>
    obtain ⟨k, s⟩ := e
    cases s with
    | placeholder => simpa [iterVis, printTable, Slot.isNone] using ih
    | item v => simpa [iterVis, printTable, Slot.isNone] using ih

theorem printInline_iterVis (m : Items) : printInline (iterVis m) = printInline m := by
  simp [printInline, valuesOf_iterVis]

/-- The final observation (length, emptiness, iteration, lookups of every key, `into_iter`, printed
    text) of the repaired model is the reference's observation of the abstract state. -/
theorem observe_refines (d : Dialect) (m : Items) : observe repaired d m = refObserve d (abs m) := by
  simp only [observe, refObserve, dLen_repaired, dIter_repaired, dGet_repaired, len_abs, isEmpty_abs,
    pairSlot_entries, optSlot_get_abs, printTable_iterVis, printInline_iterVis, List.map_cons, List.map_nil]
  cases d <;> simp [repaired]

/-- configuration `fx` of the model of dialect `d`, started in `init`, refines the reference on the
    history `ops`: every call returns what the reference returns, the abstraction of the final state
    is the reference's final state, and the final observation (length, emptiness, iteration, lookup
    of every key, `into_iter`, printed text) is the reference's -/
def Refines (fx : Fix) (d : Dialect) (init : Items) (ops : List Op) : Prop :=
  (run fx d init ops).1 = (refRun d (abs init) ops).1 ∧
  abs (run fx d init ops).2 = (refRun d (abs init) ops).2 ∧
  observe fx d (run fx d init ops).2 = refObserve d (refRun d (abs init) ops).2

theorem refines_repaired (d : Dialect) (init : Items) (ops : List Op) : Refines repaired d init ops := by
  unfold Refines
  rw [run_refines d ops init]
  exact ⟨rfl, rfl, observe_refines d _⟩

/-- **Table** (inherent methods, and through `dyn TableLike`), repaired code: every history of calls
    refines the reference ordered map. -/
theorem T16_refine_table (ops : List Op) :
    Refines repaired .table [] ops ∧ Refines repaired .tablelike [] ops :=
  ⟨refines_repaired _ _ _, refines_repaired _ _ _⟩

/-- **InlineTable** (inherent methods, and through `dyn TableLike`), repaired code, started empty or as
    the inline table `doc["t"]["a"]` creates in an empty document (one placeholder). -/
theorem T16_refine_inline (ops : List Op) :
    Refines repaired .inline [] ops ∧ Refines repaired .inlinelike [] ops ∧
    Refines repaired .inlinelike [(0, .placeholder)] ops :=
  ⟨refines_repaired _ _ _, refines_repaired _ _ _, refines_repaired _ _ _⟩

/-- non-vacuity / sanity: a history with collisions, removal, re-insertion and a placeholder -/
example : (run repaired .table [] [.ins 0 1, .ins 1 2, .idxmut 2, .ins 2 3, .rem 1, .ins 0 4, .ins 1 5, .iter]).1 =
    [.opt none, .opt none, .slot .placeholder, .opt none, .opt (some (.item (.int 2))), .opt (some (.item (.int 1))),
     .opt none, .pairs [(0, .item (.int 4)), (2, .item (.int 3)), (1, .item (.int 5))]] := by decide

/-! ## the code as it is, on histories that create no placeholder -/

/-- no `Item::None` in the map -/
def NoPh (m : Items) : Prop := ∀ e ∈ m, e.2.isNone = false

def indexesMutably : Op → Bool
  | .idxmut _ => true
  | _ => false

theorem imGet_noPh (m : Items) (h : NoPh m) (k : Nat) : imGet m k ≠ some .placeholder := by
  intro hg
  obtain ⟨k', hk⟩ := mem_imGet m k _ hg
  have := h _ hk
  simp [Slot.isNone] at this

theorem vis_noPh (m : Items) (h : NoPh m) (k : Nat) : vis (imGet m k) = imGet m k := by
  have := imGet_noPh m h k
  cases hg : imGet m k with
  | none => rfl
  | some s => cases s with
    | placeholder => exact absurd hg this
    | item v => rfl

theorem iterVis_noPh (m : Items) (h : NoPh m) : iterVis m = m := by
  unfold iterVis
  apply List.filter_eq_self.2
  intro e he
  simp [h e he]

theorem oldRet_eq (fx : Fix) (d : Dialect) (o : Option Slot) (ho : vis o = o) :
    oldRet fx d o = oldRet repaired d o := by
  unfold oldRet
  cases d.isTable <;> cases fx.insRet <;> simp [ho, repaired]

theorem dIter_noPh (fx : Fix) (d : Dialect) (m : Items) (h : NoPh m) : dIter fx d m = dIter repaired d m := by
  cases d <;> simp [dIter, iterVis_noPh m h]

theorem dGet_noPh (fx : Fix) (d : Dialect) (m : Items) (h : NoPh m) (k : Nat) :
    dGet fx d m k = dGet repaired d m k := by
  cases d <;> simp [dGet, vis_noPh m h]

theorem dLen_noPh (fx : Fix) (d : Dialect) (m : Items) (h : NoPh m) : dLen fx d m = dLen repaired d m := by
  simp [dLen, dIter_noPh fx d m h]

/-- without placeholders every configuration of the model takes the same step -/
theorem step_noPh (fx : Fix) (d : Dialect) (m : Items) (h : NoPh m) (op : Op) :
    step fx d m op = step repaired d m op := by
  have hv := vis_noPh m h
  cases op with
  | ins k n => simp only [step, imInsert_snd]; rw [oldRet_eq fx d _ (hv k)]
  | insf k n => simp only [step, imInsert_snd]; rw [oldRet_eq fx d _ (hv k)]
  | rem k => simp only [step, shiftRemove_snd]; rw [oldRet_eq fx d _ (hv k)]
  | reme k => simp only [step, shiftRemove_snd]; rw [oldRet_eq fx d _ (hv k)]
  | get k => simp only [step, dGet_noPh fx d m h]
  | getmut k => simp only [step, dGet_noPh fx d m h]
  | len => simp only [step, dLen_noPh fx d m h]
  | empty => simp only [step, dLen_noPh fx d m h]
  | iter => simp only [step, dIter_noPh fx d m h]
  | keys => simp only [step, dIter_noPh fx d m h]
  | entry k n => simp only [step, orInsertStep_of_ne fx d m k n (imGet_noPh m h k)]
  | entwith k n => simp only [step, orInsertStep_of_ne fx d m k n (imGet_noPh m h k)]
  | entrem k =>
    simp only [step, entryOf_of_ne fx d m k (imGet_noPh m h k), entryOf_of_ne repaired d m k (imGet_noPh m h k)]
  | entins k n =>
    simp only [step, entryOf_of_ne fx d m k (imGet_noPh m h k), entryOf_of_ne repaired d m k (imGet_noPh m h k)]
  | entget k =>
    simp only [step, entryOf_of_ne fx d m k (imGet_noPh m h k), entryOf_of_ne repaired d m k (imGet_noPh m h k)]
  | entmut k n =>
    simp only [step, entryOf_of_ne fx d m k (imGet_noPh m h k), entryOf_of_ne repaired d m k (imGet_noPh m h k)]
  | entkey k =>
    simp only [step, entryOf_of_ne fx d m k (imGet_noPh m h k), entryOf_of_ne repaired d m k (imGet_noPh m h k)]
  | entocc k =>
    simp only [step]
    have := imGet_noPh m h k
    cases hg : imGet m k with
    | none => rfl
    | some s => cases s with
      | placeholder => exact absurd hg this
      | item v => rfl
  | goi k n =>
    simp only [step]
    rw [goiStep_of_ne fx m k n (imGet_noPh m h k)]
  | _ => rfl

theorem noPh_set (m : Items) (h : NoPh m) (k : Nat) (v : Val) : NoPh (imSet m k (.item v)) := by
  intro e he
  rcases mem_imSet m k _ e he with h' | h'
  · exact h e h'
  · rw [h']; rfl

theorem noPh_push (m : Items) (h : NoPh m) (k : Nat) (v : Val) : NoPh (imPush m k (.item v)) := by
  intro e he
  simp only [imPush, List.mem_append, List.mem_singleton] at he
  rcases he with h' | h'
  · exact h e h'
  · rw [h']; rfl

theorem noPh_insert (m : Items) (h : NoPh m) (k : Nat) (v : Val) : NoPh (imInsert m k (.item v)).1 := by
  unfold imInsert
  cases imGet m k with
  | none => exact noPh_push m h k v
  | some _ => exact noPh_set m h k v

theorem noPh_extend (kvs : List (Nat × Nat)) (m : Items) (h : NoPh m) :
    NoPh (imExtend m (kvs.map fun kn => (kn.1, Slot.item (.int kn.2)))) := by
  induction kvs generalizing m with
  | nil => exact h
  | cons kv kvs ih =>
    simp only [imExtend, List.map_cons, List.foldl_cons] at ih ⊢
    exact ih _ (noPh_insert m h kv.1 (.int kv.2))

theorem noPh_orInsert (d : Dialect) (m : Items) (h : NoPh m) (k n : Nat) : NoPh (orInsertStep repaired d m k n).2 := by
  simp only [orInsertStep]
  cases hg : imGet m k with
  | none => exact noPh_push m h k _
  | some s => cases s with
    | placeholder => cases d <;> exact noPh_set m h k _
    | item v => exact h

/-- a call other than `&mut c[k]` creates no placeholder -/
theorem noPh_step (d : Dialect) (m : Items) (h : NoPh m) (op : Op) (hop : indexesMutably op = false) :
    NoPh (step repaired d m op).2 := by
  cases op with
  | ins k n => exact noPh_insert m h k _
  | insf k n =>
    simp only [step]
    cases d.isLike
    · exact noPh_insert m h k _
    · exact h
  | rem k => exact fun e he => h e (mem_shiftRemove m k e he)
  | reme k =>
    simp only [step]
    cases d.isLike
    · exact fun e he => h e (mem_shiftRemove m k e he)
    · exact h
  | hasv k => cases d <;> exact h
  | hast k => cases d <;> exact h
  | clear => intro e he; simp [step] at he
  | entry k n => exact noPh_orInsert d m h k n
  | entwith k n => exact noPh_orInsert d m h k n
  | entrem k =>
    simp only [step, entryOf_repaired]
    cases vis (imGet m k) with
    | none => exact h
    | some s => exact fun e he => h e (mem_shiftRemove m k e he)
  | entins k n =>
    simp only [step, entryOf_repaired]
    cases vis (imGet m k) with
    | none => exact noPh_insert m h k _
    | some s => exact noPh_set m h k _
  | entget k => simp only [step, entryOf_repaired]; exact h
  | entmut k n =>
    simp only [step, entryOf_repaired]
    cases vis (imGet m k) with
    | none => exact h
    | some s => exact noPh_set m h k _
  | entkey k => simp only [step, entryOf_repaired]; exact h
  | entocc k =>
    simp only [step]
    cases hg : imGet m k with
    | none => exact h
    | some s => cases s with
      | placeholder => cases d <;> exact h
      | item v => exact h
  | goi k n =>
    cases d
    case inline =>
      simp only [step, goiStep_eq_orInsertStep repaired m k n rfl]
      exact noPh_orInsert .inline m h k n
    all_goals exact h
  | idx k =>
    simp only [step]
    cases vis (imGet m k) <;> exact h
  | idxmut k => simp [indexesMutably] at hop
  | idxset k n =>
    simp only [step]
    cases imGet m k with
    | none => exact noPh_push m h k _
    | some _ => exact noPh_set m h k _
  | retain =>
    cases d
    · exact fun e he => h e (List.mem_filter.1 he).1
    · exact h
    · exact fun e he => h e (List.mem_filter.1 he).1
    · exact h
  | sort => exact fun e he => h e ((mem_stableSort _ e m).1 he)
  | sortby =>
    cases d
    · exact fun e he => h e ((mem_stableSort _ e m).1 he)
    · exact h
    · exact fun e he => h e ((mem_stableSort _ e m).1 he)
    · exact h
  | extend args =>
    simp only [step]
    cases d.isLike
    · exact noPh_extend (pairsOf args) m h
    · exact h
  | _ => exact h

theorem run_noPh (fx : Fix) (d : Dialect) (ops : List Op) (hops : ops.all (fun op => !indexesMutably op))
    (m : Items) (h : NoPh m) :
    run fx d m ops = run repaired d m ops ∧ NoPh (run repaired d m ops).2 := by
  induction ops generalizing m with
  | nil => exact ⟨rfl, h⟩
  | cons op ops ih =>
    simp only [List.all_cons, Bool.and_eq_true, Bool.not_eq_eq_eq_not, Bool.not_true] at hops
    have hs := step_noPh fx d m h op
    have hn := noPh_step d m h op hops.1
    have := ih hops.2 _ hn
    simp only [run, hs, this.1]
    exact ⟨trivial, this.2⟩

theorem observe_noPh (fx : Fix) (d : Dialect) (m : Items) (h : NoPh m) : observe fx d m = observe repaired d m := by
  simp only [observe, dLen_noPh fx d m h, dIter_noPh fx d m h, iterVis_noPh m h]
  simp [dGet_noPh fx d m h]

/-- **The code as it is** (`current`), every map-like dialect: every history of calls that never
    indexes mutably (so no placeholder is ever created) refines the reference ordered map. -/
theorem T16_refine_current_without_indexing (d : Dialect) (ops : List Op)
    (hops : ops.all (fun op => !indexesMutably op)) : Refines current d [] ops := by
  have hn : NoPh [] := fun e he => by simp at he
  obtain ⟨h1, h2⟩ := run_noPh current d ops hops [] hn
  unfold Refines
  rw [h1, observe_noPh current d _ h2]
  exact refines_repaired d [] ops

/-- the hypothesis of `T16_refine_current_without_indexing` on a real history -/
example : [Op.ins 0 1, .ins 1 2, .rem 0, .entry 0 3, .retain, .sortby, .extend [2, 5, 0, 6], .iter].all
    (fun op => !indexesMutably op) = true := by decide

/-! ## the code after the five small repairs (`afterPatches`) -/

/-- calls on which `afterPatches` still differs from the reference: asking whether an entry is
    occupied — directly, or by what the `Occupied` / `Vacant` branch does (`remove`, `insert`, `get`,
    `get_mut`, `key`) —, and `InlineTable::entry` (its own `entry`, not the one of `TableLike`) -/
def touchesEntryClassification (d : Dialect) : Op → Bool
  | .entocc _ => true
  | .entrem _ | .entins _ _ | .entget _ | .entmut _ _ | .entkey _ => true
  | .entry _ _ | .entwith _ _ => d == .inline
  | _ => false

theorem orInsertStep_afterPatches (d : Dialect) (m : Items) (k n : Nat) (h : (d == .inline) = false) :
    orInsertStep afterPatches d m k n = orInsertStep repaired d m k n := by
  simp only [orInsertStep]
  cases hg : imGet m k with
  | none => rfl
  | some s => cases s with
    | placeholder => cases d <;> first | rfl | simp at h
    | item v => rfl

theorem step_afterPatches (d : Dialect) (m : Items) (op : Op) (h : touchesEntryClassification d op = false) :
    step afterPatches d m op = step repaired d m op := by
  cases op with
  | entocc k => simp [touchesEntryClassification] at h
  | entry k n => simp only [step]; exact orInsertStep_afterPatches d m k n (by simpa [touchesEntryClassification] using h)
  | entwith k n => simp only [step]; exact orInsertStep_afterPatches d m k n (by simpa [touchesEntryClassification] using h)
  | entrem k => simp [touchesEntryClassification] at h
  | entins k n => simp [touchesEntryClassification] at h
  | entget k => simp [touchesEntryClassification] at h
  | entmut k n => simp [touchesEntryClassification] at h
  | entkey k => simp [touchesEntryClassification] at h
  | _ => rfl

theorem run_afterPatches (d : Dialect) (ops : List Op)
    (hops : ops.all (fun op => !touchesEntryClassification d op)) (m : Items) :
    run afterPatches d m ops = run repaired d m ops := by
  induction ops generalizing m with
  | nil => rfl
  | cons op ops ih =>
    simp only [List.all_cons, Bool.and_eq_true, Bool.not_eq_eq_eq_not, Bool.not_true] at hops
    simp only [run, step_afterPatches d m op hops.1, ih hops.2]

/-- **After the five small repairs**: every history that neither asks whether an entry is occupied nor
    (on an `InlineTable` itself) uses `entry` refines the reference ordered map — placeholders included. -/
theorem T16_refine_after_patches (d : Dialect) (init : Items) (ops : List Op)
    (hops : ops.all (fun op => !touchesEntryClassification d op)) : Refines afterPatches d init ops := by
  unfold Refines
  rw [run_afterPatches d ops hops]
  exact refines_repaired d init ops

example : [Op.idxmut 0, .ins 1 2, .entry 0 3, .rem 1, .idxmut 1, .iter].all
    (fun op => !touchesEntryClassification .table op) = true := by decide

/-! ## the code as it was found (`asImplemented`): deviations on concrete histories.
    A, B, C, F and the `get_or_insert` panic (`T16_finding_goi_placeholder`, below) were repaired by fix commits in
    /repo (`current = afterPatches`); D and E are known findings. -/

/-- F6 — `impl TableLike for InlineTable`: after `doc["t"]["a"]` on an empty document the inline table
    has `len() == 0`, but `iter()` yields the placeholder and `get("a")` is `Some(Item::None)`. -/
theorem T16_finding_tablelike_inline_placeholder :
    (run asImplemented .inlinelike [(0, .placeholder)] [.len, .iter, .get 0]).1 =
      [.nat 0, .pairs [(0, .placeholder)], .opt (some .placeholder)] ∧
    (refRun .inlinelike (abs [(0, .placeholder)]) [.len, .iter, .get 0]).1 = [.nat 0, .pairs [], .opt none] := by
  decide

/-- `Table::insert` / `remove` report `Some(Item::None)` as the previous value of a placeholder. -/
theorem T16_finding_table_insert_returns_placeholder :
    (run asImplemented .table [] [.idxmut 0, .ins 0 1]).1 = [.slot .placeholder, .opt (some .placeholder)] ∧
    (refRun .table [] [.idxmut 0, .ins 0 1]).1 = [.slot .placeholder, .opt none] ∧
    (run asImplemented .table [] [.idxmut 0, .rem 0]).1 = [.slot .placeholder, .opt (some .placeholder)] ∧
    (refRun .table [] [.idxmut 0, .rem 0]).1 = [.slot .placeholder, .opt none] := by
  decide

/-- `entry(k).or_insert(v)` on a placeholder stores nothing: the key stays absent. -/
theorem T16_finding_entry_or_insert_keeps_placeholder :
    (run asImplemented .table [] [.idxmut 0, .entry 0 1, .get 0]).1 = [.slot .placeholder, .slot .placeholder, .opt none] ∧
    (refRun .table [] [.idxmut 0, .entry 0 1, .get 0]).1 =
      [.slot .placeholder, .slot (.item (.int 1)), .opt (some (.item (.int 1)))] := by
  decide

/-- `entry(k)` is `Occupied` for a placeholder. -/
theorem T16_finding_entry_occupied_for_placeholder :
    (run asImplemented .table [] [.idxmut 0, .entocc 0]).1 = [.slot .placeholder, .bool true] ∧
    (refRun .table [] [.idxmut 0, .entocc 0]).1 = [.slot .placeholder, .bool false] := by
  decide

/-- `InlineTable::entry` writes the value `{}` over a placeholder: merely asking for the entry makes the
    key present (`len` 1, printed `{ a = {} }`). -/
theorem T16_finding_inline_entry_materialises :
    (run asImplemented .inline [] [.idxmut 0, .entocc 0, .len, .get 0]).1 =
      [.slot .placeholder, .bool true, .nat 1, .opt (some (.item .tbl))] ∧
    (refRun .inline [] [.idxmut 0, .entocc 0, .len, .get 0]).1 = [.slot .placeholder, .bool false, .nat 0, .opt none] ∧
    (observe asImplemented .inline (run asImplemented .inline [] [.idxmut 0, .entocc 0]).2).print = "{ a = {} }" := by
  decide

/-- `Table::into_iter` yields placeholders. -/
theorem T16_finding_table_into_iter_placeholder :
    (observe asImplemented .table (run asImplemented .table [] [.idxmut 0]).2).into = some [(0, .placeholder)] ∧
    (refObserve .table (refRun .table [] [.idxmut 0]).2).into = some [] := by
  decide

/-! ## sequences: `Array` and `ArrayOfTables` against a plain vector -/

/-- one call on the reference vector (a `List Nat` with the `Vec` operations; out-of-range insert,
    replace and remove panic and leave the vector unchanged) -/
def refVecStep (isArray : Bool) (a : List Nat) : Op → Ret × List Nat
  | .push n => (.unit, a ++ [n])
  | .ins i n =>
    if isArray then
      match vinsert a i n with
      | some a' => (.unit, a')
      | none => (.panic, a)
    else (.na, a)
  | .repl i n =>
    if isArray then
      match vreplace a i n with
      | some r => (.opt (some (ival r.2)), r.1)
      | none => (.panic, a)
    else (.na, a)
  | .rem i =>
    match vremove a i with
    | some r => (if isArray then .opt (some (ival r.2)) else .unit, r.1)
    | none => (.panic, a)
  | .get i => (.opt (a[i]?.map ival), a)
  | .getmut i => (.opt (a[i]?.map ival), a)
  | .len => (.nat a.length, a)
  | .empty => (.bool (a.length == 0), a)
  | .iter => (.vals a, a)
  | .clear => (.unit, [])
  | .retain => (.unit, a.filter fun n => n % 2 == 0)
  | .sortby => if isArray then (.unit, stableSort (fun x y => decide (x ≤ y)) a) else (.na, a)
  | .extend ns => (.unit, a ++ ns)
  | _ => (.na, a)

def refVecRun (isArray : Bool) : List Nat → List Op → List Ret × List Nat
  | a, [] => ([], a)
  | a, op :: ops =>
    let r := refVecStep isArray a op
    let rest := refVecRun isArray r.2 ops
    (r.1 :: rest.1, rest.2)

/-- abstraction of an `Array`: forget the decoration of the elements -/
def vals (a : Arr) : List Nat := a.map (·.1)

theorem arr_step_refines (a : Arr) (op : Op) :
    refVecStep true (vals a) op = ((arrStep a op).1, vals (arrStep a op).2) := by
  cases op with
  | push n => simp [refVecStep, arrStep, vals]
  | ins i n =>
    simp only [refVecStep, arrStep, vinsert, vals, List.length_map, ↓reduceIte]
    by_cases h : i ≤ a.length <;> simp [h, map_insertIdx]
  | repl i n =>
    simp only [refVecStep, arrStep, vreplace, vals, List.getElem?_map, ↓reduceIte]
    cases h : a[i]? with
    | none => simp
    | some old => simp [List.map_set]
  | rem i =>
    simp only [refVecStep, arrStep, vremove, vals, List.getElem?_map, ↓reduceIte]
    cases h : a[i]? with
    | none => simp
    | some old => simp [map_eraseIdx]
  | get i => simp [refVecStep, arrStep, vals, List.getElem?_map, Function.comp_def]
  | getmut i => simp [refVecStep, arrStep, vals, List.getElem?_map, Function.comp_def]
  | len => simp [refVecStep, arrStep, vals]
  | empty => simp [refVecStep, arrStep, vals]
  | iter => simp [refVecStep, arrStep, vals]
  | clear => simp [refVecStep, arrStep, vals]
  | retain => simp [refVecStep, arrStep, vals, List.filter_map, Function.comp_def]
  | sortby =>
    simp only [refVecStep, arrStep, vals, ↓reduceIte]
    exact congrArg _ (map_stableSort (fun e : Nat × Decor => e.1) (fun x y => decide (x.1 ≤ y.1))
      (fun x y => decide (x ≤ y)) (fun _ _ => rfl) a).symm
  | extend ns => simp [refVecStep, arrStep, vals, Function.comp_def]
  | _ => rfl

/-- **Array**: on every history of calls each call's return value is the reference vector's, and the
    elements (decoration forgotten) are the reference vector. -/
theorem T16_refine_array (ops : List Op) (a : Arr) :
    refVecRun true (vals a) ops = ((arrRun a ops).1, vals (arrRun a ops).2) := by
  induction ops generalizing a with
  | nil => rfl
  | cons op ops ih => simp only [refVecRun, arrRun, arr_step_refines, ih]

theorem aot_step_refines (a : Aot) (op : Op) : refVecStep false a op = aotStep a op := by
  cases op <;> simp [refVecStep, aotStep]
  case rem i => cases vremove a i <;> rfl

/-- **ArrayOfTables**: on every history the results and the sequence of tables are the reference vector's. -/
theorem T16_refine_aot (ops : List Op) (a : Aot) : refVecRun false a ops = aotRun a ops := by
  induction ops generalizing a with
  | nil => rfl
  | cons op ops ih => simp only [refVecRun, aotRun, aot_step_refines, ih]

/-- `Array::len`, `iter` and `into_iter` agree (an `Array` holds values only) and the printed text lists
    exactly the elements: sanity on a history with out-of-range indexes -/
example : (arrRun [] [.push 1, .push 2, .ins 0 5, .repl 1 7, .rem 0, .ins 9 1, .repl 9 1, .rem 9, .iter]).1 =
    [.unit, .unit, .unit, .opt (some (ival 1)), .opt (some (ival 5)), .panic, .panic, .panic, .vals [7, 2]] := by
  decide

/-! ## `toml::Map` against a plain ordered map (insertion order, or key order by default) -/

def refMapStep (sorted : Bool) (m : PMap Nat) : Op → Ret × PMap Nat
  | .ins k n => (.opt ((pget m k).map ival), pput sorted m k n)
  | .rem k => (.opt ((pget m k).map ival), premove m k)
  | .get k => (.opt ((pget m k).map ival), m)
  | .getmut k => (.opt ((pget m k).map ival), m)
  | .gkv k => (.kv ((pget m k).map fun n => (k, ival n)), m)
  | .has k => (.bool (pget m k).isSome, m)
  | .len => (.nat m.length, m)
  | .empty => (.bool m.isEmpty, m)
  | .iter => (.pairs (m.map fun e => (e.1, ival e.2)), m)
  | .keys => (.keys (m.map (·.1)), m)
  | .values => (.vals (m.map (·.2)), m)
  | .clear => (.unit, [])
  | .entry k n =>
    match pget m k with
    | some x => (.slot (ival x), m)
    | none => (.slot (ival n), pput sorted m k n)
  | .entocc k => (.bool (pget m k).isSome, m)
  | .idx k =>
    match pget m k with
    | some x => (.slot (ival x), m)
    | none => (.panic, m)
  | .idxset k n =>
    match pget m k with
    | some _ => (.unit, pput sorted m k n)
    | none => (.panic, m)
  | .retain => (.unit, m.filter fun e => e.2 % 2 == 0)
  | .extend args => (.unit, pextend sorted m (pairsOf args))
  | _ => (.na, m)

def refMapRun (sorted : Bool) : PMap Nat → List Op → List Ret × PMap Nat
  | m, [] => ([], m)
  | m, op :: ops =>
    let r := refMapStep sorted m op
    let rest := refMapRun sorted r.2 ops
    (r.1 :: rest.1, rest.2)

/-- the state invariant of a configuration: keys strictly increasing when sorted -/
def MapInv (sorted : Bool) (m : MapImpl) : Prop := sorted = true → StrictSorted m

theorem mInsert_fst (sorted : Bool) (m : MapImpl) (k v : Nat) : (mInsert sorted m k v).1 = pput sorted m k v := by
  cases sorted <;> simp [mInsert, pput, imInsert_fst_eq, btInsert_fst_eq]

theorem mInsert_snd (sorted : Bool) (m : MapImpl) (k v : Nat) (h : MapInv sorted m) :
    (mInsert sorted m k v).2 = pget m k := by
  cases sorted
  · simp [mInsert, imInsert_snd_eq]
  · simp [mInsert, btInsert_snd_eq m k v (h rfl)]

theorem inv_pput (sorted : Bool) (m : MapImpl) (k v : Nat) (h : MapInv sorted m) : MapInv sorted (pput sorted m k v) := by
  intro hs
  subst hs
  exact strictSorted_pputSorted m k v (h rfl)

theorem imSet_eq_pput (sorted : Bool) (m : MapImpl) (k v : Nat) (h : MapInv sorted m) (hk : (imGet m k).isSome) :
    imSet m k v = pput sorted m k v := by
  cases sorted
  · simp [pput, imSet_eq_pputEnd m k v hk]
  · simp [pput, imSet_eq_pputSorted m k v (h rfl) hk]

theorem extend_eq (sorted : Bool) (kvs : List (Nat × Nat)) (m : MapImpl) (h : MapInv sorted m) :
    kvs.foldl (fun m kv => (mInsert sorted m kv.1 kv.2).1) m = pextend sorted m kvs ∧
    MapInv sorted (pextend sorted m kvs) := by
  induction kvs generalizing m with
  | nil => exact ⟨rfl, h⟩
  | cons kv kvs ih =>
    simp only [List.foldl_cons, pextend, mInsert_fst] at ih ⊢
    exact ih _ (inv_pput sorted m kv.1 kv.2 h)

/-- one call: the model of `toml::Map` is the reference map, and the invariant is kept -/
theorem map_step_refines (sorted : Bool) (m : MapImpl) (h : MapInv sorted m) (op : Op) :
    mapStep sorted m op = refMapStep sorted m op ∧ MapInv sorted (mapStep sorted m op).2 := by
  cases op with
  | ins k n =>
    simp only [mapStep, refMapStep, mInsert_fst, mInsert_snd sorted m k n h]
    exact ⟨trivial, inv_pput sorted m k n h⟩
  | rem k =>
    simp only [mapStep, refMapStep, shiftRemove_snd, ← pget_eq, ← premove_eq]
    refine ⟨trivial, fun hs => ?_⟩
    exact List.Pairwise.sublist (List.eraseP_sublist) (h hs)
  | entry k n =>
    simp only [mapStep, refMapStep, ← pget_eq, mInsert_fst]
    cases pget m k with
    | none => exact ⟨rfl, inv_pput sorted m k n h⟩
    | some x => exact ⟨rfl, h⟩
  | idx k =>
    simp only [mapStep, refMapStep, ← pget_eq]
    cases pget m k <;> exact ⟨rfl, h⟩
  | idxset k n =>
    simp only [mapStep, refMapStep, ← pget_eq]
    cases hg : pget m k with
    | none => exact ⟨rfl, h⟩
    | some x =>
      have hk : (imGet m k).isSome := by rw [← pget_eq, hg]; rfl
      simp only [imSet_eq_pput sorted m k n h hk]
      exact ⟨trivial, inv_pput sorted m k n h⟩
  | retain =>
    simp only [mapStep, refMapStep, imRetain]
    exact ⟨trivial, fun hs => List.Pairwise.filter _ (h hs)⟩
  | extend args =>
    simp only [mapStep, refMapStep]
    have := extend_eq sorted (pairsOf args) m h
    rw [this.1]
    exact ⟨rfl, this.2⟩
  | clear => exact ⟨rfl, fun _ => List.Pairwise.nil⟩
  | get k => simp only [mapStep, refMapStep, pget_eq]; exact ⟨trivial, h⟩
  | getmut k => simp only [mapStep, refMapStep, pget_eq]; exact ⟨trivial, h⟩
  | gkv k => simp only [mapStep, refMapStep, pget_eq]; exact ⟨trivial, h⟩
  | has k => simp only [mapStep, refMapStep, pget_eq]; exact ⟨trivial, h⟩
  | entocc k => simp only [mapStep, refMapStep, pget_eq]; exact ⟨trivial, h⟩
  | _ => exact ⟨rfl, h⟩

/-- **toml::Map**, both configurations, from any state satisfying the invariant (the empty map does):
    on every history of calls the results and the final map are the reference ordered map's; in the
    default configuration the keys of the final map are strictly increasing (iteration in key order). -/
theorem T16_refine_map (sorted : Bool) (ops : List Op) (m : MapImpl) (h : MapInv sorted m) :
    mapRun sorted m ops = refMapRun sorted m ops ∧ MapInv sorted (mapRun sorted m ops).2 := by
  induction ops generalizing m with
  | nil => exact ⟨rfl, h⟩
  | cons op ops ih =>
    obtain ⟨h1, h2⟩ := map_step_refines sorted m h op
    have := ih _ h2
    have h3 := this.2
    rw [this.1] at h3
    simp only [mapRun, refMapRun]
    rw [← h1, this.1]
    exact ⟨rfl, h3⟩

/-- the empty map satisfies the invariant; a sorted history with removal: order of the rest is kept -/
example : MapInv true [] := fun _ => List.Pairwise.nil
example : (mapRun true [] [.ins 2 1, .ins 0 2, .ins 1 3, .rem 0, .ins 0 4, .iter]).1 =
    [.opt none, .opt none, .opt none, .opt (some (ival 2)), .opt none,
     .pairs [(0, ival 4), (1, ival 3), (2, ival 1)]] := by decide
example : (mapRun false [] [.ins 2 1, .ins 0 2, .ins 1 3, .rem 0, .ins 2 4, .ins 0 5, .iter]).1 =
    [.opt none, .opt none, .opt none, .opt (some (ival 2)), .opt (some (ival 1)), .opt none,
     .pairs [(2, ival 4), (1, ival 3), (0, ival 5)]] := by decide

/-! ## corollaries (repaired model, any state) -/

/-- `len()` is the number of pairs `iter()` yields, and `is_empty()` says `len() == 0` -/
theorem T16_len_is_iter_length (d : Dialect) (m : Items) :
    (step repaired d m .len).1 = .nat (dIter repaired d m).length ∧
    (step repaired d m .empty).1 = .bool ((dIter repaired d m).length == 0) := by
  simp [step, dLen_repaired, dIter_repaired]

/-- placeholders do not count: `len`, `iter` and the printed text are those of the map with every
    placeholder dropped -/
theorem T16_placeholders_invisible (d : Dialect) (m : Items) :
    dLen repaired d m = dLen repaired d (iterVis m) ∧
    dIter repaired d m = dIter repaired d (iterVis m) ∧
    (observe repaired d m).print = (observe repaired d (iterVis m)).print := by
  simp only [dLen_repaired, dIter_repaired, iterVis_idem, observe]
  cases d <;> simp [Dialect.isTable, printTable_iterVis, printInline_iterVis]

theorem shiftRemove_eq_eraseP (m : Items) (k : Nat) : (imShiftRemove m k).1 = m.eraseP (fun e => e.1 == k) := by
  induction m with
  | nil => rfl
  | cons e m ih =>
    simp only [imShiftRemove]
    by_cases hk : e.1 == k
    · simp [hk]
    · simp [hk, ih]

/-- removal keeps the remaining entries in order: the new state is the old one with one position
    deleted, so the new iteration is a subsequence of the old one -/
theorem T16_remove_keeps_order (d : Dialect) (m : Items) (k : Nat) :
    (step repaired d m (.rem k)).2 = m.eraseP (fun e => e.1 == k) ∧
    (dIter repaired d (step repaired d m (.rem k)).2).Sublist (dIter repaired d m) := by
  simp only [step, shiftRemove_eq_eraseP, dIter_repaired, iterVis]
  exact ⟨trivial, List.Sublist.filter _ List.eraseP_sublist⟩

theorem keys_imSet (m : Items) (k : Nat) (s : Slot) : (imSet m k s).map (·.1) = m.map (·.1) := by
  induction m with
  | nil => rfl
  | cons e m ih =>
    simp only [imSet]
    by_cases hk : e.1 == k <;> simp [hk, ih]

/-- insertion of a key that has a position — an entry or a placeholder left by `&mut c[k]` — keeps
    that position; a key without a position is appended -/
theorem T16_insert_keeps_position (d : Dialect) (m : Items) (k n : Nat) :
    ((imGet m k).isSome → ((step repaired d m (.ins k n)).2).map (·.1) = m.map (·.1)) ∧
    (imGet m k = none → (step repaired d m (.ins k n)).2 = m ++ [(k, .item (.int n))]) := by
  simp only [step, imInsert]
  constructor
  · intro h
    cases hg : imGet m k with
    | none => simp [hg] at h
    | some s => simp [keys_imSet]
  · intro h
    simp [h, imPush]

/-- non-vacuity of the first part: the key's slot is a placeholder -/
example : (imGet (step repaired .table [(1, .item (.int 5))] (.idxmut 0)).2 0).isSome = true ∧
    (step repaired .table (step repaired .table [(1, .item (.int 5))] (.idxmut 0)).2 (.ins 0 7)).2 =
      [(1, .item (.int 5)), (0, .item (.int 7))] := by decide

/-! ## the Entry API (`entry(k)` then `remove` / `insert` / `get` / `get_mut` / `or_insert_with` / `key`)

On a state without placeholders every configuration of the model — in particular `current`, the code
as it is — takes the reference's step (`OrdMap.remove`, `insert` = `put` keeping the position or
appending, `getKeyValue`, `orInsert`, `contains`).  With placeholders the same holds for `repaired`
(`step_refines`, `T16_refine_table`, `T16_refine_inline`); what `current` does there is the class of
the known findings, see `T16_finding_entry_api_on_placeholder`. -/

theorem shiftRemove_none (m : Items) (k : Nat) (h : imGet m k = none) : (imShiftRemove m k).1 = m := by
  induction m with
  | nil => rfl
  | cons e m ih =>
    simp only [imGet] at h
    by_cases hk : e.1 == k
    · simp [hk] at h
    · simp only [hk, Bool.false_eq_true, ↓reduceIte] at h
      simp [imShiftRemove, hk, ih h]

/-- the repaired model takes the reference's step on each of the six calls, from any state (placeholders included) -/
theorem T16_refine_entry_api_repaired (d : Dialect) (m : Items) (k n : Nat) :
    ∀ op ∈ [Op.entrem k, .entins k n, .entget k, .entmut k n, .entwith k n, .entkey k],
      refStep d (abs m) op = ((step repaired d m op).1, abs (step repaired d m op).2) :=
  fun op _ => step_refines d m op

/-- **`match entry(k) { Occupied(e) => e.remove(), Vacant(_) => … }`**, any configuration, no placeholder
    in the map: it is the reference's `remove` — the removed value (`none` = vacant) is returned, the key's
    position disappears and all other entries keep their order (`eraseP`: shift-, not swap-removal). -/
theorem T16_refine_entrem (fx : Fix) (d : Dialect) (m : Items) (k : Nat) (h : NoPh m) :
    (step fx d m (.entrem k)).1 = .opt (optSlot (remove (abs m) k).2) ∧
    abs (step fx d m (.entrem k)).2 = (remove (abs m) k).1 ∧
    (step fx d m (.entrem k)).2 = m.eraseP (fun e => e.1 == k) ∧
    refStep d (abs m) (.entrem k) = ((step fx d m (.entrem k)).1, abs (step fx d m (.entrem k)).2) := by
  have hs : (step fx d m (.entrem k)).2 = (imShiftRemove m k).1 ∧
      (step fx d m (.entrem k)).1 = .opt (imGet m k) := by
    rw [step_noPh fx d m h]
    simp only [step, entryOf_repaired, vis_noPh m h]
    cases hg : imGet m k with
    | none => exact ⟨(shiftRemove_none m k hg).symm, rfl⟩
    | some s => exact ⟨rfl, rfl⟩
  have hr := step_refines d m (.entrem k)
  rw [← step_noPh fx d m h] at hr
  refine ⟨?_, ?_, ?_, hr⟩
  · rw [hs.2]; simp only [Spec.OrdMap.remove, optSlot_get_abs, vis_noPh m h]
  · rw [hs.1]; simp only [Spec.OrdMap.remove, eraseP_abs]
  · rw [hs.1, shiftRemove_eq_eraseP]

/-- the hypothesis on a real state; the history of the seeded `swap_remove`: b, c, d keep their order -/
example : NoPh [(0, .item (.int 0)), (1, .item (.int 1))] := by
  intro e he
  simp at he
  rcases he with rfl | rfl <;> rfl
example : (run current .table [] [.ins 0 0, .ins 1 1, .ins 2 2, .ins 3 3, .entrem 0, .iter]).1.getLast? =
    some (.pairs [(1, .item (.int 1)), (2, .item (.int 2)), (3, .item (.int 3))]) := by decide

/-- **`Occupied(e) => e.insert(v)`, `Vacant(e) => e.insert(v)`**, any configuration, no placeholder: the
    reference's `insert` — the old value (`none` = vacant) is returned; an occupied key keeps its position,
    a vacant one is appended. -/
theorem T16_refine_entins (fx : Fix) (d : Dialect) (m : Items) (k n : Nat) (h : NoPh m) :
    (step fx d m (.entins k n)).1 = .opt (optSlot (insert (abs m) k (.int n)).2) ∧
    abs (step fx d m (.entins k n)).2 = (insert (abs m) k (.int n)).1 ∧
    ((imGet m k).isSome → ((step fx d m (.entins k n)).2).map (·.1) = m.map (·.1)) ∧
    (imGet m k = none → (step fx d m (.entins k n)).2 = m ++ [(k, .item (.int n))]) := by
  have hr := step_refines d m (.entins k n)
  rw [← step_noPh fx d m h] at hr
  simp only [refStep, Prod.mk.injEq] at hr
  refine ⟨hr.1.symm, hr.2.symm, ?_, ?_⟩
  · intro hk
    rw [step_noPh fx d m h]
    simp only [step, entryOf_repaired, vis_noPh m h]
    cases hg : imGet m k with
    | none => simp [hg] at hk
    | some s => simp [keys_imSet]
  · intro hk
    rw [step_noPh fx d m h]
    simp [step, entryOf_repaired, hk, vis, imInsert, imPush]

example : (imGet [(0, Slot.item (.int 0)), (1, .item (.int 1))] 0).isSome = true ∧
    imGet [(0, Slot.item (.int 0)), (1, .item (.int 1))] 2 = none := by decide

/-- **`Occupied(e) => (e.key(), e.get())`, `Vacant(e) => e.key()`**: the reference's `getKeyValue`; nothing changes. -/
theorem T16_refine_entget (fx : Fix) (d : Dialect) (m : Items) (k : Nat) (h : NoPh m) :
    (step fx d m (.entget k)).1 = .kv ((getKeyValue (abs m) k).map pairSlot) ∧
    (step fx d m (.entget k)).2 = m := by
  rw [step_noPh fx d m h]
  simp only [step, entryOf_repaired, kv_abs, and_self]

/-- **`Occupied(e) => *e.get_mut() = v` (`into_mut`)**: the old value is the reference's lookup; an occupied
    key gets the new value at its position (`put`), a vacant one leaves the map alone. -/
theorem T16_refine_entmut (fx : Fix) (d : Dialect) (m : Items) (k n : Nat) (h : NoPh m) :
    (step fx d m (.entmut k n)).1 = .opt (optSlot (get (abs m) k)) ∧
    abs (step fx d m (.entmut k n)).2 = (if contains (abs m) k then put (abs m) k (some (.int n)) else abs m) ∧
    ((step fx d m (.entmut k n)).2).map (·.1) = m.map (·.1) := by
  have hr := step_refines d m (.entmut k n)
  rw [← step_noPh fx d m h] at hr
  simp only [refStep] at hr
  have hk : ((step fx d m (.entmut k n)).2).map (·.1) = m.map (·.1) := by
    rw [step_noPh fx d m h]
    simp only [step, entryOf_repaired]
    cases vis (imGet m k) <;> simp [keys_imSet]
  refine ⟨?_, ?_, hk⟩
  · cases hg : get (abs m) k with
    | none => rw [hg] at hr; simp only [Prod.mk.injEq] at hr; rw [← hr.1]; rfl
    | some v => rw [hg] at hr; simp only [Prod.mk.injEq] at hr; rw [← hr.1]; rfl
  · unfold contains
    cases hg : get (abs m) k with
    | none => rw [hg] at hr; simp only [Prod.mk.injEq] at hr; rw [← hr.2]; rfl
    | some v => rw [hg] at hr; simp only [Prod.mk.injEq] at hr; rw [← hr.2]; rfl

/-- **`entry(k).or_insert_with(|| v)`** is `entry(k).or_insert(v)` (any state, any configuration), and on a
    state without placeholders the reference's `orInsert`. -/
theorem T16_refine_entwith (fx : Fix) (d : Dialect) (m : Items) (k n : Nat) :
    step fx d m (.entwith k n) = step fx d m (.entry k n) ∧
    (NoPh m →
      (step fx d m (.entwith k n)).1 = .slot (.item (orInsert (abs m) k (.int n)).2) ∧
      abs (step fx d m (.entwith k n)).2 = (orInsert (abs m) k (.int n)).1) := by
  refine ⟨rfl, fun h => ?_⟩
  have hr := step_refines d m (.entwith k n)
  rw [← step_noPh fx d m h] at hr
  simp only [refStep, Prod.mk.injEq] at hr
  exact ⟨hr.1.symm, hr.2.symm⟩

/-- **`entry(k).key()`** with the classification: occupied iff the reference contains the key; nothing changes. -/
theorem T16_refine_entkey (fx : Fix) (d : Dialect) (m : Items) (k : Nat) (h : NoPh m) :
    (step fx d m (.entkey k)).1 = .bool (contains (abs m) k) ∧ (step fx d m (.entkey k)).2 = m := by
  have hr := step_refines d m (.entkey k)
  rw [← step_noPh fx d m h] at hr
  simp only [refStep, Prod.mk.injEq] at hr
  refine ⟨hr.1.symm, ?_⟩
  rw [step_noPh fx d m h]
  simp only [step, entryOf_repaired]

/-- The code as it is on a placeholder (the class of the known findings F19 / F20, seen through the rest of
    the Entry API): `Table::entry` is `Occupied` holding `Item::None`, so `remove` returns and deletes the
    placeholder and `get_mut` stores a value where the reference's entry is vacant; `InlineTable::entry`
    hands out the value `{}` it has just written. -/
theorem T16_finding_entry_api_on_placeholder :
    (run current .table [] [.idxmut 0, .entrem 0]).1 = [.slot .placeholder, .opt (some .placeholder)] ∧
    (refRun .table [] [.idxmut 0, .entrem 0]).1 = [.slot .placeholder, .opt none] ∧
    (run current .tablelike [] [.idxmut 0, .entmut 0 1, .get 0]).1 =
      [.slot .placeholder, .opt (some .placeholder), .opt (some (.item (.int 1)))] ∧
    (refRun .tablelike [] [.idxmut 0, .entmut 0 1, .get 0]).1 = [.slot .placeholder, .opt none, .opt none] ∧
    (run current .inline [] [.idxmut 0, .entget 0, .len]).1 =
      [.slot .placeholder, .kv (some (0, .item .tbl)), .nat 1] ∧
    (refRun .inline [] [.idxmut 0, .entget 0, .len]).1 = [.slot .placeholder, .kv none, .nat 0] ∧
    (run current .inline [] [.idxmut 0, .entins 0 1]).1 = [.slot .placeholder, .opt (some (.item .tbl))] ∧
    (refRun .inline [] [.idxmut 0, .entins 0 1]).1 = [.slot .placeholder, .opt none] := by
  decide

/-! ## `InlineTable::get_or_insert` (op `goi`; `Table` and `dyn TableLike` have no such method: `na`)

`get_or_insert(k, n)` on a key whose position was reserved by `item[k]` (`Item::None`) used to panic with
"non-value type in inline table"; /repo now stores the value at the reserved position (`Fix.goi`, part of
`current`).  The theorems are about `current`, the code as it stands, on every state. -/

theorem step_goi_current (m : Items) (k n : Nat) :
    step current .inline m (.goi k n) = orInsertStep repaired .inline m k n := by
  simp only [step]
  exact goiStep_eq_orInsertStep current m k n rfl

/-- **`InlineTable::get_or_insert(k, n)`, the code as it stands now, from every state — placeholders
    included**: the call is the reference ordered map's `orInsert`: it returns the value the reference
    returns (the one already stored, else `n`), the abstraction of the new state is the reference's new state,
    i.e. it takes exactly the reference's step. -/
theorem T16_refine_goi (m : Items) (k n : Nat) :
    (step current .inline m (.goi k n)).1 = .slot (.item (orInsert (abs m) k (.int n)).2) ∧
    abs (step current .inline m (.goi k n)).2 = (orInsert (abs m) k (.int n)).1 ∧
    refStep .inline (abs m) (.goi k n) =
      ((step current .inline m (.goi k n)).1, abs (step current .inline m (.goi k n)).2) := by
  have hr := orInsert_refines .inline m k n
  rw [← step_goi_current] at hr
  have hr' := hr
  simp only [Prod.mk.injEq] at hr'
  exact ⟨hr'.1.symm, hr'.2.symm, hr⟩

/-- the three cases of the call, on the concrete state: a value is returned and nothing changes; a placeholder
    receives `n` at its reserved position (the key order is untouched); an absent key is appended -/
theorem T16_goi_positions (m : Items) (k n : Nat) :
    (∀ v, imGet m k = some (.item v) → step current .inline m (.goi k n) = (.slot (.item v), m)) ∧
    (imGet m k = some .placeholder →
      step current .inline m (.goi k n) = (.slot (.item (.int n)), imSet m k (.item (.int n))) ∧
      ((step current .inline m (.goi k n)).2).map (·.1) = m.map (·.1) ∧
      dGet current .inline (step current .inline m (.goi k n)).2 k = some (.item (.int n))) ∧
    (imGet m k = none → step current .inline m (.goi k n) = (.slot (.item (.int n)), m ++ [(k, .item (.int n))])) := by
  refine ⟨fun v h => ?_, fun h => ?_, fun h => ?_⟩
  · simp only [step, goiStep, h]
  · have hs : step current .inline m (.goi k n) = (.slot (.item (.int n)), imSet m k (.item (.int n))) := by
      simp only [step, goiStep, h]; rfl
    refine ⟨hs, ?_, ?_⟩
    · rw [hs]; exact keys_imSet m k _
    · rw [hs]
      simp only [dGet, imGet_imSet_self m k _ (by simp [h])]
      rfl
  · simp only [step, goiStep, h, imPush]

/-- the three hypotheses on real states -/
example : imGet [(1, Slot.item (.int 0)), (0, .placeholder)] 1 = some (.item (.int 0)) ∧
    imGet [(1, Slot.item (.int 0)), (0, .placeholder)] 0 = some .placeholder ∧
    imGet [(1, Slot.item (.int 0)), (0, .placeholder)] 2 = none := by decide

/-- every other dialect, model and reference: no such method, nothing happens -/
theorem T16_goi_na (fx : Fix) (d : Dialect) (hd : d ≠ .inline) (m : Items) (k n : Nat) :
    step fx d m (.goi k n) = (.na, m) ∧ refStep d (abs m) (.goi k n) = (.na, abs m) := by
  cases d <;> first | exact absurd rfl hd | exact ⟨rfl, rfl⟩

/-- whole histories: `goi` is not among the calls excluded by `T16_refine_after_patches`, so every history of the
    code as it stands that uses `get_or_insert` — also on placeholders — next to every call except the `entry()`
    family refines the reference -/
example : [Op.ins 1 0, .idxmut 0, .ins 2 2, .goi 0 1, .goi 1 5, .goi 3 7, .rem 0, .idxmut 0, .goi 0 4, .iter].all
    (fun op => !touchesEntryClassification .inline op) = true := by decide

/-- **The repaired defect, as it was** (`asImplemented.goi = false`): `item["a"]` then `get_or_insert("a", 1)`
    panicked where the reference ordered map returns 1 and stores it; the code as it stands returns 1, the key
    is present afterwards, and the value sits at the position the indexing reserved (`{ b = 0, a = 1, c = 2 }`). -/
theorem T16_finding_goi_placeholder :
    (run asImplemented .inline [] [.idxmut 0, .goi 0 1]).1 = [.slot .placeholder, .panic] ∧
    (refRun .inline [] [.idxmut 0, .goi 0 1]).1 = [.slot .placeholder, .slot (.item (.int 1))] ∧
    (run current .inline [] [.idxmut 0, .goi 0 1, .get 0, .len]).1 =
      [.slot .placeholder, .slot (.item (.int 1)), .opt (some (.item (.int 1))), .nat 1] ∧
    (observe current .inline (run current .inline [] [.ins 1 0, .idxmut 0, .ins 2 2, .goi 0 1]).2).print =
      "{ b = 0, a = 1, c = 2 }" := by
  decide

/-- before the repair the call panicked exactly on the keys holding a placeholder (and then stored nothing);
    on every other key it already did what it does now -/
theorem T16_finding_goi_panics_iff (m : Items) (k n : Nat) :
    ((step asImplemented .inline m (.goi k n)).1 = .panic ↔ imGet m k = some .placeholder) ∧
    (imGet m k = some .placeholder → (step asImplemented .inline m (.goi k n)).2 = m) ∧
    (imGet m k ≠ some .placeholder → step asImplemented .inline m (.goi k n) = step current .inline m (.goi k n)) := by
  refine ⟨?_, fun h => ?_, fun h => ?_⟩
  · simp only [step, goiStep]
    cases hg : imGet m k with
    | none => simp
    | some s => cases s <;> simp [asImplemented]
  · simp only [step, goiStep, h]; rfl
  · simp only [step]
    rw [goiStep_of_ne asImplemented m k n h, goiStep_of_ne current m k n h]

/-! ## keys are unique; `len` counts the keys whose lookup succeeds -/

def KeysNodup (m : Items) : Prop := (m.map (·.1)).Nodup

theorem imGet_of_mem (m : Items) (h : KeysNodup m) (e : Nat × Slot) (he : e ∈ m) : imGet m e.1 = some e.2 := by
  induction m with
  | nil => simp at he
  | cons x m ih =>
    simp only [KeysNodup, List.map_cons, List.nodup_cons] at h
    simp only [List.mem_cons] at he
    rcases he with he | he
    · simp [imGet, he]
    · have hne : (x.1 == e.1) = false := by
        have : e.1 ∈ m.map (·.1) := List.mem_map.2 ⟨e, he, rfl⟩
        have : x.1 ≠ e.1 := fun hx => h.1 (hx ▸ this)
        simpa using this
      simp only [imGet, hne, Bool.false_eq_true, ↓reduceIte]
      exact ih h.2 he

/-- with unique keys (an invariant, see `T16_keys_unique`) `len()` is the number of keys whose `get`
    is not `None` -/
theorem T16_len_counts_keys_with_get (d : Dialect) (m : Items) (h : KeysNodup m) :
    dLen repaired d m = (m.filter fun e => (dGet repaired d m e.1).isSome).length := by
  rw [dLen_repaired]
  unfold iterVis
  congr 1
  apply List.filter_congr
  intro e he
  rw [dGet_repaired, imGet_of_mem m h e he]
  cases e.2 <;> rfl

theorem not_mem_keys_of_imGet_none (m : Items) (k : Nat) (h : imGet m k = none) : k ∉ m.map (·.1) := by
  induction m with
  | nil => simp
  | cons x m ih =>
    simp only [imGet] at h
    by_cases hk : x.1 == k
    · simp [hk] at h
    · simp only [hk, Bool.false_eq_true, ↓reduceIte] at h
      have : x.1 ≠ k := by simpa using hk
      simp only [List.map_cons, List.mem_cons, not_or]
      exact ⟨fun h' => this h'.symm, ih h⟩

theorem nodup_set (m : Items) (h : KeysNodup m) (k : Nat) (s : Slot) : KeysNodup (imSet m k s) := by
  unfold KeysNodup; rw [keys_imSet]; exact h

theorem nodup_push (m : Items) (h : KeysNodup m) (k : Nat) (s : Slot) (hk : imGet m k = none) :
    KeysNodup (imPush m k s) := by
  unfold KeysNodup imPush
  rw [List.map_append, List.nodup_append]
  refine ⟨h, by simp, ?_⟩
  intro a ha b hb
  simp only [List.map_cons, List.map_nil, List.mem_singleton] at hb
  subst hb
  intro hab
  exact not_mem_keys_of_imGet_none m _ hk (hab ▸ ha)

theorem nodup_insert (m : Items) (h : KeysNodup m) (k : Nat) (s : Slot) : KeysNodup (imInsert m k s).1 := by
  unfold imInsert
  cases hg : imGet m k with
  | none => exact nodup_push m h k s hg
  | some _ => exact nodup_set m h k s

theorem nodup_sublist (m m' : Items) (h : KeysNodup m) (hs : m'.Sublist m) : KeysNodup m' :=
  List.Nodup.sublist (List.Sublist.map _ hs) h

theorem nodup_sort (le : Nat × Slot → Nat × Slot → Bool) (m : Items) (h : KeysNodup m) :
    KeysNodup (stableSort le m) :=
  ((perm_stableSort le m).map _).nodup_iff.2 h

theorem nodup_extend (kvs : List (Nat × Slot)) (m : Items) (h : KeysNodup m) : KeysNodup (imExtend m kvs) := by
  induction kvs generalizing m with
  | nil => exact h
  | cons kv kvs ih =>
    simp only [imExtend, List.foldl_cons] at ih ⊢
    exact ih _ (nodup_insert m h kv.1 kv.2)

theorem nodup_orInsert (fx : Fix) (d : Dialect) (m : Items) (h : KeysNodup m) (k n : Nat) :
    KeysNodup (orInsertStep fx d m k n).2 := by
  simp only [orInsertStep]
  cases hg : imGet m k with
  | none => exact nodup_push m h k _ hg
  | some s => cases s with
    | placeholder =>
      cases d <;> cases fx.entry <;> cases fx.inlineEntry <;> first | exact h | exact nodup_set m h k _
    | item v => exact h

theorem nodup_entryOf (fx : Fix) (d : Dialect) (m : Items) (h : KeysNodup m) (k : Nat) :
    KeysNodup (entryOf fx d m k).2 := by
  rcases entryOf_state fx d m k with he | ⟨_, he⟩
  · rw [he]; exact h
  · rw [he]; exact nodup_set m h k _

/-- every call keeps the keys unique (either configuration of the model) -/
theorem nodup_step (fx : Fix) (d : Dialect) (m : Items) (h : KeysNodup m) (op : Op) :
    KeysNodup (step fx d m op).2 := by
  cases op with
  | ins k n => exact nodup_insert m h k _
  | insf k n =>
    simp only [step]
    cases d.isLike
    · exact nodup_insert m h k _
    · exact h
  | rem k =>
    simp only [step, shiftRemove_eq_eraseP]
    exact nodup_sublist _ _ h List.eraseP_sublist
  | reme k =>
    simp only [step]
    cases d.isLike
    · simp only [Bool.false_eq_true, ↓reduceIte, shiftRemove_eq_eraseP]
      exact nodup_sublist _ _ h List.eraseP_sublist
    · exact h
  | hasv k => cases d <;> exact h
  | hast k => cases d <;> exact h
  | clear => simp [step, KeysNodup]
  | entry k n => exact nodup_orInsert fx d m h k n
  | entwith k n => exact nodup_orInsert fx d m h k n
  | entrem k =>
    simp only [step]
    have he := nodup_entryOf fx d m h k
    cases (entryOf fx d m k).1 with
    | none => exact he
    | some s =>
      simp only [shiftRemove_eq_eraseP]
      exact nodup_sublist _ _ he List.eraseP_sublist
  | entins k n =>
    simp only [step]
    have he := nodup_entryOf fx d m h k
    cases (entryOf fx d m k).1 with
    | none => exact nodup_insert _ he k _
    | some s => exact nodup_set _ he k _
  | entget k => exact nodup_entryOf fx d m h k
  | entmut k n =>
    simp only [step]
    have he := nodup_entryOf fx d m h k
    cases (entryOf fx d m k).1 with
    | none => exact he
    | some s => exact nodup_set _ he k _
  | entkey k => exact nodup_entryOf fx d m h k
  | entocc k =>
    simp only [step]
    cases hg : imGet m k with
    | none => exact h
    | some s => cases s with
      | placeholder =>
        cases d <;> cases fx.entOcc <;> cases fx.inlineEntry <;> first | exact h | exact nodup_set m h k _
      | item v => exact h
  | goi k n =>
    cases d
    case inline =>
      simp only [step]
      rcases goiStep_state fx m k n with he | ⟨_, he⟩ | ⟨hg, he⟩
      · rw [he]; exact h
      · rw [he]; exact nodup_set m h k _
      · rw [he]; exact nodup_push m h k _ hg
    all_goals exact h
  | idx k =>
    simp only [step]
    cases vis (imGet m k) <;> exact h
  | idxmut k =>
    simp only [step]
    cases hg : imGet m k with
    | none => exact nodup_push m h k _ hg
    | some s => exact h
  | idxset k n =>
    simp only [step]
    cases hg : imGet m k with
    | none => exact nodup_push m h k _ hg
    | some _ => exact nodup_set m h k _
  | retain =>
    cases d
    · exact nodup_sublist _ _ h List.filter_sublist
    · exact h
    · exact nodup_sublist _ _ h List.filter_sublist
    · exact h
  | sort => exact nodup_sort _ m h
  | sortby =>
    cases d
    · exact nodup_sort _ m h
    · exact h
    · exact nodup_sort _ m h
    · exact h
  | extend args =>
    simp only [step]
    cases d.isLike
    · exact nodup_extend _ m h
    · exact h
  | _ => exact h

/-- keys stay unique along every history, from the empty map or the `doc["t"]["a"]` inline table -/
theorem T16_keys_unique (fx : Fix) (d : Dialect) (ops : List Op) (m : Items) (h : KeysNodup m) :
    KeysNodup (run fx d m ops).2 := by
  induction ops generalizing m with
  | nil => exact h
  | cons op ops ih => exact ih _ (nodup_step fx d m h op)

example : KeysNodup [] ∧ KeysNodup [(0, .placeholder)] := by simp [KeysNodup]

/-! ## `sort_values_by` / `sort_by_key` are stable sorts

The model sorts with `stableSort` (insertion sort).  It returns a permutation, ordered by the
comparator, in which the members of every tie class (elements that are pairwise `le`, e.g. all
entries with one sort key) keep their relative order — the three properties that determine the
result of a stable sort. -/

/-- stability, general form: filtering a tie class out of the sorted list gives the same sequence as
    filtering it out of the input -/
theorem T16_sortby_stable {α : Type} (le : α → α → Bool) (p : α → Bool)
    (hp : ∀ a z, p a = true → p z = true → le a z = true) (l : List α) :
    (stableSort le l).filter p = l.filter p := filter_stableSort le p hp l

theorem optLe_refl (o : Option Nat) : optLe o o = true := by
  cases o <;> simp [optLe]

theorem optLe_total (a b : Option Nat) : optLe a b = true ∨ optLe b a = true := by
  cases a <;> cases b <;> simp [optLe]; omega

theorem optLe_trans (a b c : Option Nat) (h1 : optLe a b = true) (h2 : optLe b c = true) : optLe a c = true := by
  cases a <;> cases b <;> cases c <;> simp_all [optLe]; omega

/-- **Table::sort_values_by** (value-only comparator of the harness): entries with the same sort key
    (the same integer, or no integer: placeholders) keep their relative order; the result is a
    permutation of the entries and is ordered by the comparator. -/
theorem T16_sortby_stable_table (fx : Fix) (m : Items) (key : Option Nat) :
    ((step fx .table m .sortby).2.filter fun e => e.2.asInt == key) = (m.filter fun e => e.2.asInt == key) ∧
    (step fx .table m .sortby).2.Perm m ∧
    (step fx .table m .sortby).2.Pairwise (fun a b => leTable a b = true) := by
  refine ⟨?_, perm_stableSort _ m, ?_⟩
  · apply T16_sortby_stable
    intro a z ha hz
    simp only [beq_iff_eq] at ha hz
    simp [leTable, ha, hz, optLe_refl]
  · exact sorted_stableSort leTable (fun a b => optLe_total _ _) (fun a b c h1 h2 => optLe_trans _ _ _ h2 h1) m

/-- the sort class of an entry under `InlineTable::sort_values_by`: placeholders, or values by integer -/
def inlineClass (e : Nat × Slot) : Option (Option Nat) :=
  match e.2 with
  | .placeholder => none
  | .item _ => some e.2.asInt

theorem leInline_total (a b : Nat × Slot) : leInline a b = true ∨ leInline b a = true := by
  obtain ⟨ka, sa⟩ := a
  obtain ⟨kb, sb⟩ := b
  cases sa <;> cases sb <;> simp [leInline]
  exact optLe_total _ _

theorem leInline_trans (a b c : Nat × Slot) (h1 : leInline a b = true) (h2 : leInline b c = true) :
    leInline a c = true := by
  obtain ⟨ka, sa⟩ := a
  obtain ⟨kb, sb⟩ := b
  obtain ⟨kc, sc⟩ := c
  cases sa <;> cases sb <;> cases sc <;> simp_all [leInline]
  exact optLe_trans _ _ _ h2 h1

/-- **InlineTable::sort_values_by**: the same three properties -/
theorem T16_sortby_stable_inline (fx : Fix) (m : Items) (cls : Option (Option Nat)) :
    ((step fx .inline m .sortby).2.filter fun e => inlineClass e == cls) = (m.filter fun e => inlineClass e == cls) ∧
    (step fx .inline m .sortby).2.Perm m ∧
    (step fx .inline m .sortby).2.Pairwise (fun a b => leInline a b = true) := by
  refine ⟨?_, perm_stableSort _ m, sorted_stableSort leInline leInline_total leInline_trans m⟩
  apply T16_sortby_stable
  rintro ⟨ka, sa⟩ ⟨kz, sz⟩ ha hz
  simp only [beq_iff_eq] at ha hz
  cases sa with
  | placeholder => cases sz <;> simp [leInline]
  | item va =>
    cases sz with
    | placeholder =>
      simp only [inlineClass] at ha hz
      rw [← hz] at ha
      cases ha
    | item vz =>
      simp only [inlineClass] at ha hz
      have : (Slot.item va).asInt = (Slot.item vz).asInt := by
        rw [← hz] at ha
        exact Option.some.inj ha
      simp [leInline, this, optLe_refl]

/-- **Array::sort_by_key**: equal elements keep their relative order (visible through their
    decoration), the result is a permutation and ascending -/
theorem T16_sortby_stable_array (a : Arr) (n : Nat) :
    ((arrStep a .sortby).2.filter fun e => e.1 == n) = (a.filter fun e => e.1 == n) ∧
    (arrStep a .sortby).2.Perm a ∧
    (arrStep a .sortby).2.Pairwise (fun x y => x.1 ≤ y.1) := by
  refine ⟨?_, perm_stableSort _ a, ?_⟩
  · apply T16_sortby_stable
    intro x z hx hz
    simp only [beq_iff_eq] at hx hz
    simp [hx, hz]
  · have := sorted_stableSort (fun x y : Nat × Decor => decide (x.1 ≤ y.1))
      (fun x y => by simp; omega) (fun x y z h1 h2 => by simp at *; omega) a
    simpa [arrStep] using this

/-- 24 entries k00..k23 with value i % 3: the sort by value keeps k02, k05, …, k23 in that order -/
example :
    ((step current .table ((List.range 24).map fun i => (4 + i, Slot.item (.int (i % 3)))) .sortby).2.take 8).map (·.1) =
      [6, 9, 12, 15, 18, 21, 24, 27] := by decide

end TomlVerif.Props.C16
