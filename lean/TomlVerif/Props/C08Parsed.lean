import TomlVerif.Props.C08Full
import TomlVerif.Props.C14Doc
import TomlVerif.Lemmas.Refine08cInst
import TomlVerif.Lemmas.Refine08cPrint
import TomlVerif.Lemmas.Refine08cRoot
import TomlVerif.Lemmas.Refine08cTop
/-! C08 for parsed documents: the side conditions of `Props/C08Full.lean` about spans
    (`DocSpansIn`, `EntrySpansIn`) and about scalar payloads (`NodeInlOK`) hold for every parsed
    document and are kept by every op, so the print-level frame and the `sort` refinement hold for
    every history of edits of every parsed document; and the line of an untouched entry is a
    contiguous piece of `to_string()` of the edited document.

    * `T08_parsed_spans`, `T08_spans_invariant`, `T08_print_untouched_parsed`
    * `T08_parsed_clean`, `T08_clean_invariant`, `T08_refine_sort_sem_parsed`
    * `T08_line_in_print` (any state), `T08_untouched_line_in_output` (parsed and edited; any
      non-dotted table a path leads to: root, `[header]`, `[a.b]`, elements of `[[aot]]`),
      `T08_untouched_root_line`, `T08_untouched_header_line`.
    * a dotted inline table stored directly in a table does not print as one line
      (`dotted_inl_no_line`: `mv` can put one there), hence the hypothesis `notDottedInl` of
      `T08_line_in_print`; it holds for every entry of a parsed document
      (`T08_parsed_entry_notDotted`), so the theorems about untouched entries do not need it. -/
namespace TomlVerif.Props.C08
open TomlVerif TomlVerif.Model TomlVerif.Model.Cst TomlVerif.Model.Edit TomlVerif.Model.Encode
open TomlVerif.Lemmas.Edit08 TomlVerif.Lemmas.Refine08bSem TomlVerif.Lemmas.Refine08bFrame
open TomlVerif.Lemmas.Refine08bPrint TomlVerif.Lemmas.Refine08bSpans TomlVerif.Lemmas.Cst03
open TomlVerif.Lemmas.Refine08c TomlVerif.Lemmas.Spans14

/-! ### 1. the spans of a parsed document are inside the input -/

/-- **`DocSpansIn` holds for every parsed document** (from `T14_bounds`: `allSpans d` is
    `tblSpans d.root` followed by the span of the document's trailing text) -/
theorem T08_parsed_spans (s : Bytes) (d : CDoc) (h : parseCst s = some d) : DocSpansIn ⟨s, d⟩ :=
  endsIn_of_allW (TblOK.spans _ (parseCst_ok s d h).1)

/-- the same from `T14_bounds` as stated (every span of `allSpans d` ends inside the input) -/
theorem T08_parsed_spans' (s : Bytes) (d : CDoc) (h : parseCst s = some d) : DocSpansIn ⟨s, d⟩ := by
  intro sp hs
  exact (C14.T14_bounds s d h sp (List.mem_append_left _ hs)).2

theorem start_eq (s : Bytes) (st : St) (h : start s = some st) : ∃ d, parseCst s = some d ∧ st = ⟨s, d⟩ := by
  unfold start at h
  obtain ⟨d, hd, rfl⟩ := Option.map_eq_some_iff.mp h
  unfold parseCstSlice at hd
  split at hd
  · exact ⟨d, hd, rfl⟩
  · cases hd

/-- for the initial state of the driver (`Edit.start`: UTF-8 validation, then `parseCst`) -/
theorem T08_start_spans (s : Bytes) (st : St) (h : start s = some st) : DocSpansIn st := by
  obtain ⟨d, hd, rfl⟩ := start_eq s st h
  exact T08_parsed_spans s d hd

/-! ### 2. every op keeps the spans inside the arena -/

theorem docSpansIn_iff (st : St) : DocSpansIn st ↔ TOK (spanPr st.inp.length) st.doc.root :=
  (TOK_span st.doc.root).symm

/-- one op: new text is appended to the arena and referred to by spans inside the new arena; what
    is moved or converted keeps spans that were inside the old arena -/
theorem T08_spans_step (st st' : St) (op : Op) (p : List Seg) (h : applyOp st op p = some st')
    (hs : DocSpansIn st) : DocSpansIn st' :=
  (docSpansIn_iff st').2 (applyOp_ok spanFam st st' op p h ((docSpansIn_iff st).1 hs))

/-- **`DocSpansIn` is an invariant of every history** -/
theorem T08_spans_invariant (es : List (Op × List Seg)) (st : St) (hs : DocSpansIn st) : DocSpansIn (run st es) :=
  (docSpansIn_iff _).2 (run_ok spanFam es st ((docSpansIn_iff st).1 hs))

/-- **print-level frame, unconditional**: for every parsed document and every history of edits, the
    printed line of a key/value entry no op touches is the same byte string as in the parsed document -/
theorem T08_print_untouched_parsed (s : Bytes) (d : CDoc) (es : List (Op × List Seg)) (q : List Seg)
    (h : parseCst s = some d) (hu : ∀ e ∈ es, Untouched q e) :
    encodeItemAt (run ⟨s, d⟩ es).inp (run ⟨s, d⟩ es).doc q = encodeItemAt s d q :=
  T08_print_untouched_doc es ⟨s, d⟩ q hu (T08_parsed_spans s d h)

/-- the same in the middle of a history: an entry untouched by the later ops `es2` keeps its line,
    whatever the earlier ops `es1` did (also to that entry) -/
theorem T08_print_untouched_later (s : Bytes) (d : CDoc) (es1 es2 : List (Op × List Seg)) (q : List Seg)
    (h : parseCst s = some d) (hu : ∀ e ∈ es2, Untouched q e) :
    encodeItemAt (run ⟨s, d⟩ (es1 ++ es2)).inp (run ⟨s, d⟩ (es1 ++ es2)).doc q =
      encodeItemAt (run ⟨s, d⟩ es1).inp (run ⟨s, d⟩ es1).doc q := by
  have e : run ⟨s, d⟩ (es1 ++ es2) = run (run ⟨s, d⟩ es1) es2 := by simp [run, List.foldl_append]
  rw [e]
  exact T08_print_untouched_doc es2 _ q hu (T08_spans_invariant es1 _ (T08_parsed_spans s d h))

/-! ### 3. no scalar holds an inline-table payload -/

/-- no `CVal.scalar` anywhere in the document holds an inline table as its payload -/
def DocClean (st : St) : Prop := TOK cleanPr st.doc.root

/-- **parsed documents are clean** -/
theorem T08_parsed_clean (s : Bytes) (d : CDoc) (h : parseCst s = some d) : DocClean ⟨s, d⟩ :=
  parseCst_clean s d h

/-- **every op keeps the document clean** -/
theorem T08_clean_step (st st' : St) (op : Op) (p : List Seg) (h : applyOp st op p = some st')
    (hs : DocClean st) : DocClean st' :=
  applyOp_ok cleanFam st st' op p h hs

theorem T08_clean_invariant (es : List (Op × List Seg)) (st : St) (hs : DocClean st) : DocClean (run st es) :=
  run_ok cleanFam es st hs

/-- in a clean document `NodeInlOK` holds at every path -/
theorem T08_clean_nodeInlOK (st : St) (hs : DocClean st) (p : List Seg) :
    ∀ n, lookupTbl p st.doc.root = some n → NodeInlOK n :=
  fun n hn => nodeInlOK_of_clean st.doc.root hs p n hn

/-- **`sort` refines `sort_values` on the semantic tree, unconditional**: at any path of any document
    reached from a parsed document by any history of edits -/
theorem T08_refine_sort_sem_parsed (s : Bytes) (d : CDoc) (es : List (Op × List Seg)) (st' : St) (p : List Seg)
    (h : parseCst s = some d) (ha : applyOp (run ⟨s, d⟩ es) .sort p = some st') :
    supdTbl sortSU p (eraseTbl (run ⟨s, d⟩ es).doc.root) = some (eraseTbl st'.doc.root) :=
  T08_refine_sort_sem _ st' p ha
    (T08_clean_nodeInlOK _ (T08_clean_invariant es _ (T08_parsed_clean s d h)) p)

/-! ### 4. the line of an entry inside `to_string()` -/

theorem entryAt_some (root : CTbl) (q : List Seg) (k : CKey) (v : CVal) (h : entryAt root q = some (k, v)) :
    lookupKTbl none q root = some (some k, .val v) := by
  unfold entryAt at h
  split at h
  · rename_i k' v' hl
    simp only [Option.some.injEq, Prod.mk.injEq] at h
    rw [hl, h.1, h.2]
  · cases h

/-- **the line of an entry is a contiguous piece of the printed document** (any state): `(k, v)`
    is the entry at `p ++ [sg]`, `p` leads to a table that is not dotted (the root for `p = []`, a
    `[header]` table, an element of an array of tables), and `v` is not a dotted inline table -/
theorem T08_line_in_print (st : St) (p : List Seg) (sg : Seg) (T : CTbl) (k : CKey) (v : CVal)
    (hT : lookupTbl p st.doc.root = some (.tbl T)) (hd : T.dotted = false)
    (he : entryAt st.doc.root (p ++ [sg]) = some (k, v)) (hv : notDottedInl v = true) :
    encodeLine st.inp k v <:+: Edit.print st :=
  line_in_print stripCr st.inp st.doc p T k v hT hd
    (emem_tbl none p sg st.doc.root T k v hT (entryAt_some _ _ k v he)) hv

/-- an applied or skipped op that leaves the entry `p ++ [sg]` alone keeps the table at `p` a table
    with the same `dotted` flag -/
theorem step_keeps_tbl (st : St) (e : Op × List Seg) (p : List Seg) (sg : Seg) (hq : Untouched (p ++ [sg]) e)
    (T : CTbl) (hT : lookupTbl p st.doc.root = some (.tbl T)) :
    ∃ T', lookupTbl p (step st e).doc.root = some (.tbl T') ∧ T'.dotted = T.dotted := by
  unfold step
  cases h : applyOp st e.1 e.2 with
  | none => exact ⟨T, hT, rfl⟩
  | some st' =>
    obtain ⟨op, x⟩ := e
    have hp : Diverge x (p ++ [sg]) := hq x (by cases op <;> simp [touches])
    simp only [Option.getD_some]
    simp only at h
    unfold applyOp at h
    cases op with
    | mv k p2 =>
      have hp2 : Diverge p2 (p ++ [sg]) := hq p2 (by simp [touches])
      obtain ⟨r, hm, rfl⟩ := Option.map_eq_some_iff.mp h
      unfold mvTree at hm
      split at hm
      · cases hm
      · split at hm
        · cases hm
        · rename_i r1 h1
          obtain ⟨T1, hT1, hd1⟩ := upd_keeps_tbl _ x _ r1 h1 p sg hp T hT
          obtain ⟨T2, hT2, hd2⟩ := upd_keeps_tbl _ p2 r1 r hm p sg hp2 T1 hT1
          exact ⟨T2, hT2, hd2.trans hd1⟩
    | tpush =>
      obtain ⟨y, hm, rfl⟩ := Option.map_eq_some_iff.mp h
      unfold tpushUpd at hm
      split at hm
      · obtain ⟨r, hu, rfl⟩ := Option.map_eq_some_iff.mp hm
        exact upd_keeps_tbl _ x _ r hu p sg hp T hT
      · cases hm
    | set k v | del k | newt k | viv k1 k2 v | sort | fmt | push v | ains i v | arepl i v | adel i
    | tdel i | inl k | tbl k | aot2arr k | arr2aot k =>
      obtain ⟨r, hm, rfl⟩ := Option.map_eq_some_iff.mp h
      exact upd_keeps_tbl _ x _ r hm p sg hp T hT

theorem run_keeps_tbl (es : List (Op × List Seg)) : ∀ (st : St) (p : List Seg) (sg : Seg),
    (∀ e ∈ es, Untouched (p ++ [sg]) e) → ∀ T, lookupTbl p st.doc.root = some (.tbl T) →
    ∃ T', lookupTbl p (run st es).doc.root = some (.tbl T') ∧ T'.dotted = T.dotted := by
  induction es with
  | nil => intro st p sg _ T hT; exact ⟨T, hT, rfl⟩
  | cons e es ih =>
    intro st p sg h T hT
    obtain ⟨T1, hT1, hd1⟩ := step_keeps_tbl st e p sg (h e (by simp)) T hT
    obtain ⟨T2, hT2, hd2⟩ := ih (step st e) p sg (fun e' he' => h e' (by simp [he'])) T1 hT1
    exact ⟨T2, by rw [run_cons]; exact hT2, hd2.trans hd1⟩

/-- the statement below, with the value known not to be a dotted inline table -/
theorem T08_untouched_line_in_output_aux (s : Bytes) (d : CDoc) (h : parseCst s = some d) (es : List (Op × List Seg))
    (p : List Seg) (sg : Seg) (T : CTbl) (k : CKey) (v : CVal)
    (hu : ∀ e ∈ es, Untouched (p ++ [sg]) e)
    (hT : lookupTbl p d.root = some (.tbl T)) (hd : T.dotted = false)
    (he : entryAt d.root (p ++ [sg]) = some (k, v)) (hv : notDottedInl v = true) :
    encodeItemAt (run ⟨s, d⟩ es).inp (run ⟨s, d⟩ es).doc (p ++ [sg]) = some (encodeLine s k v) ∧
    encodeLine s k v <:+: Edit.print (run ⟨s, d⟩ es) := by
  have h1 := T08_print_untouched_parsed s d es (p ++ [sg]) h hu
  have h0 : encodeItemAt s d (p ++ [sg]) = some (encodeLine s k v) := by simp [encodeItemAt, he]
  rw [h0] at h1
  refine ⟨h1, ?_⟩
  have he' : entryAt (run ⟨s, d⟩ es).doc.root (p ++ [sg]) = some (k, v) :=
    (T08_history_entry es ⟨s, d⟩ (p ++ [sg]) hu).trans he
  obtain ⟨T', hT', hd'⟩ := run_keeps_tbl es ⟨s, d⟩ p sg hu T hT
  have h2 := T08_line_in_print (run ⟨s, d⟩ es) p sg T' k v hT' (hd'.trans hd) he' hv
  have e : encodeLine (run ⟨s, d⟩ es).inp k v = encodeLine s k v := by
    simpa [encodeItemAt, he'] using h1
  rw [e] at h2
  exact h2

/-- **the entries of a parsed document are lines**: no table of a parsed document stores a dotted
    inline table directly -/
theorem T08_parsed_entry_notDotted (s : Bytes) (d : CDoc) (h : parseCst s = some d) (p : List Seg) (sg : Seg)
    (T : CTbl) (k : CKey) (v : CVal) (hT : lookupTbl p d.root = some (.tbl T))
    (he : entryAt d.root (p ++ [sg]) = some (k, v)) : notDottedInl v = true :=
  TND_mem (look_nd_tbl p d.root T hT (parseCst_nd s d h)) (emem_tbl none p sg d.root T k v hT (entryAt_some _ _ k v he))

/-- **the printed line of every untouched entry is unchanged and still present in the output**: for
    a parsed document, a key/value entry `(k, v)` at `p ++ [sg]` stored directly in a table that is
    not dotted (root, `[header]`, `[a.b]`, element of `[[aot]]`), and a history of edits that leaves
    the entry alone — the line the edited document has for the entry is the line of the parsed
    document, and it occurs as a contiguous piece of `to_string()` of the edited document -/
theorem T08_untouched_line_in_output (s : Bytes) (d : CDoc) (h : parseCst s = some d) (es : List (Op × List Seg))
    (p : List Seg) (sg : Seg) (T : CTbl) (k : CKey) (v : CVal)
    (hu : ∀ e ∈ es, Untouched (p ++ [sg]) e)
    (hT : lookupTbl p d.root = some (.tbl T)) (hd : T.dotted = false)
    (he : entryAt d.root (p ++ [sg]) = some (k, v)) :
    encodeItemAt (run ⟨s, d⟩ es).inp (run ⟨s, d⟩ es).doc (p ++ [sg]) = some (encodeLine s k v) ∧
    encodeLine s k v <:+: Edit.print (run ⟨s, d⟩ es) :=
  T08_untouched_line_in_output_aux s d h es p sg T k v hu hT hd he (T08_parsed_entry_notDotted s d h p sg T k v hT he)

/-- root-level entries: no hypothesis on the table (the root of a parsed document is not dotted) -/
theorem T08_untouched_root_line (s : Bytes) (d : CDoc) (h : parseCst s = some d) (es : List (Op × List Seg))
    (sg : Seg) (k : CKey) (v : CVal) (hu : ∀ e ∈ es, Untouched [sg] e)
    (he : entryAt d.root [sg] = some (k, v)) :
    encodeItemAt (run ⟨s, d⟩ es).inp (run ⟨s, d⟩ es).doc [sg] = some (encodeLine s k v) ∧
    encodeLine s k v <:+: Edit.print (run ⟨s, d⟩ es) :=
  T08_untouched_line_in_output s d h es [] sg d.root k v hu (by simp only [lookupTbl]) (parseCst_root_not_dotted s d h) he

/-- entries of a top-level `[t]` table -/
theorem T08_untouched_header_line (s : Bytes) (d : CDoc) (h : parseCst s = some d) (es : List (Op × List Seg))
    (t sg : Seg) (T : CTbl) (k : CKey) (v : CVal) (hu : ∀ e ∈ es, Untouched [t, sg] e)
    (hT : lookupTbl [t] d.root = some (.tbl T)) (hd : T.dotted = false)
    (he : entryAt d.root [t, sg] = some (k, v)) :
    encodeItemAt (run ⟨s, d⟩ es).inp (run ⟨s, d⟩ es).doc [t, sg] = some (encodeLine s k v) ∧
    encodeLine s k v <:+: Edit.print (run ⟨s, d⟩ es) :=
  T08_untouched_line_in_output s d h es [t] sg T k v hu hT hd he

/-- the unedited document (`es = []`): every entry of a non-dotted table of a parsed document is a
    contiguous piece of its print -/
theorem T08_parsed_line_in_print (s : Bytes) (d : CDoc) (h : parseCst s = some d) (p : List Seg) (sg : Seg)
    (T : CTbl) (k : CKey) (v : CVal) (hT : lookupTbl p d.root = some (.tbl T)) (hd : T.dotted = false)
    (he : entryAt d.root (p ++ [sg]) = some (k, v)) : encodeLine s k v <:+: Encode.printDoc s d :=
  T08_line_in_print ⟨s, d⟩ p sg T k v hT hd he (T08_parsed_entry_notDotted s d h p sg T k v hT he)

/-- the root of every document reached from a parsed one is not dotted -/
theorem T08_root_not_dotted (s : Bytes) (d : CDoc) (h : parseCst s = some d) (es : List (Op × List Seg)) :
    (run ⟨s, d⟩ es).doc.root.dotted = false :=
  (run_root_dotted es ⟨s, d⟩).trans (parseCst_root_not_dotted s d h)

/-- a root-level entry of the *edited* document (whatever created it) has its line in the output -/
theorem T08_root_line_in_print (s : Bytes) (d : CDoc) (h : parseCst s = some d) (es : List (Op × List Seg))
    (sg : Seg) (k : CKey) (v : CVal) (he : entryAt (run ⟨s, d⟩ es).doc.root [sg] = some (k, v))
    (hv : notDottedInl v = true) :
    encodeLine (run ⟨s, d⟩ es).inp k v <:+: Edit.print (run ⟨s, d⟩ es) :=
  T08_line_in_print _ [] sg _ k v (by simp only [lookupTbl]) (T08_root_not_dotted s d h es) he hv

/-! ### 5. non-vacuity -/

/-- a parsed state from a text known to parse -/
def docOf (s : Bytes) : CDoc := (parseCst s).getD ⟨CTbl.empty, .empty⟩

theorem docOf_parsed (s : Bytes) (h : (parseCst s).isSome = true) : parseCst s = some (docOf s) := by
  unfold docOf
  cases hp : parseCst s with
  | none => simp [hp] at h
  | some d => rfl

/-- ```
    # config
    title = "x" # the title

    [owner] # who
    name = "n" # keep me
    [srv] # server
    port = 80 # the port
    tags = ["a", "b"]
    pts = [{x = 1}, {x = 2}]

    [[job]]
    id = "j1"
    ``` -/
def exDoc3 : Bytes := strBytes
  "# config\ntitle = \"x\" # the title\n\n[owner] # who\nname = \"n\" # keep me\n[srv] # server\nport = 80 # the port\ntags = [\"a\", \"b\"]\npts = [{x = 1}, {x = 2}]\n\n[[job]]\nid = \"j1\"\n"

/-- `set`, `push`, `tpush`, `mv` (an entry with its comment into an element of an array of tables),
    `arr2aot` (a conversion), `sort`, `fmt`: seven ops, all applied -/
def exHist3 : List (Op × List Seg) :=
  [(.set (strBytes "host") (.str (strBytes "h")), [exSeg "srv"]),
   (.push (.str (strBytes "c")), [exSeg "srv", exSeg "tags"]),
   (.tpush, [exSeg "job"]),
   (.mv (strBytes "port") [exSeg "job", ixSeg 0], [exSeg "srv"]),
   (.arr2aot (strBytes "pts"), [exSeg "srv"]),
   (.sort, [exSeg "srv"]),
   (.fmt, [exSeg "srv", exSeg "tags"])]

theorem exDoc3_parsed : parseCst exDoc3 = some (docOf exDoc3) := docOf_parsed _ (by decide +kernel)

def exSt3 : St := ⟨exDoc3, docOf exDoc3⟩

/-- the driver's initial state is this state -/
example : (start exDoc3).isSome = true := by decide +kernel

/-- all seven ops apply -/
example : (applied exSt3 exHist3).length = 7 := by decide +kernel

/-- `T08_parsed_spans` / `T08_spans_invariant` on the example, and the decidable form agrees -/
example : DocSpansIn (run exSt3 exHist3) := T08_spans_invariant exHist3 exSt3 (T08_parsed_spans _ _ exDoc3_parsed)

example : docSpansInB (run exSt3 exHist3) = true := by decide +kernel

/-- the arena did grow (the invariant is not about the input length) -/
example : exDoc3.length = 167 ∧ (run exSt3 exHist3).inp.length = 186 := by decide +kernel

/-- the history leaves `title` (root) and `owner.name` (a `[header]` table) alone -/
theorem exHist3_title : ∀ e ∈ exHist3, Untouched [exSeg "title"] e := untouched_all _ _ (by decide +kernel)

theorem exHist3_name : ∀ e ∈ exHist3, Untouched [exSeg "owner", exSeg "name"] e :=
  untouched_all _ _ (by decide +kernel)

/-- `T08_print_untouched_parsed` on the example -/
example : encodeItemAt (run exSt3 exHist3).inp (run exSt3 exHist3).doc [exSeg "title"]
    = encodeItemAt exDoc3 (docOf exDoc3) [exSeg "title"] :=
  T08_print_untouched_parsed exDoc3 (docOf exDoc3) exHist3 [exSeg "title"] exDoc3_parsed exHist3_title

/-- the line of the first entry includes the comment above it (it is the key's leaf prefix) -/
example : encodeItemAt exDoc3 (docOf exDoc3) [exSeg "title"]
    = some (strBytes "# config\ntitle = \"x\" # the title\n") := by
  decide +kernel

example : encodeItemAt exDoc3 (docOf exDoc3) [exSeg "owner", exSeg "name"]
    = some (strBytes "name = \"n\" # keep me\n") := by
  decide +kernel

/-- decidable form of "the entry at `q` exists and its value is not a dotted inline table" -/
def entryLineB (root : CTbl) (q : List Seg) : Bool :=
  match entryAt root q with
  | some (_, v) => notDottedInl v
  | none => false

theorem entryLineB_sound (root : CTbl) (q : List Seg) (h : entryLineB root q = true) :
    ∃ k v, entryAt root q = some (k, v) ∧ notDottedInl v = true := by
  unfold entryLineB at h
  split at h
  · rename_i k v he; exact ⟨k, v, he, h⟩
  · cases h

/-- decidable form of "`p` leads to a table that is not dotted" -/
def tblAtB (root : CTbl) (p : List Seg) : Bool :=
  match lookupTbl p root with
  | some (.tbl T) => !T.dotted
  | _ => false

theorem tblAtB_sound (root : CTbl) (p : List Seg) (h : tblAtB root p = true) :
    ∃ T, lookupTbl p root = some (.tbl T) ∧ T.dotted = false := by
  unfold tblAtB at h
  split at h
  · rename_i T hT; exact ⟨T, hT, by simpa using h⟩
  · cases h

/-- `T08_untouched_root_line` on the example: the hypotheses hold for `title` -/
example : ∃ k v, entryAt (docOf exDoc3).root [exSeg "title"] = some (k, v) ∧
    encodeItemAt (run exSt3 exHist3).inp (run exSt3 exHist3).doc [exSeg "title"] = some (encodeLine exDoc3 k v) ∧
    encodeLine exDoc3 k v <:+: Edit.print (run exSt3 exHist3) := by
  obtain ⟨k, v, he, _⟩ := entryLineB_sound (docOf exDoc3).root [exSeg "title"] (by decide +kernel)
  exact ⟨k, v, he, T08_untouched_root_line exDoc3 _ exDoc3_parsed exHist3 _ k v exHist3_title he⟩

/-- `T08_untouched_header_line` on the example: the hypotheses hold for `name` in `[owner]` -/
example : ∃ k v, entryAt (docOf exDoc3).root [exSeg "owner", exSeg "name"] = some (k, v) ∧
    encodeItemAt (run exSt3 exHist3).inp (run exSt3 exHist3).doc [exSeg "owner", exSeg "name"]
      = some (encodeLine exDoc3 k v) ∧
    encodeLine exDoc3 k v <:+: Edit.print (run exSt3 exHist3) := by
  obtain ⟨k, v, he, _⟩ := entryLineB_sound (docOf exDoc3).root [exSeg "owner", exSeg "name"] (by decide +kernel)
  obtain ⟨T, hT, hd⟩ := tblAtB_sound (docOf exDoc3).root [exSeg "owner"] (by decide +kernel)
  exact ⟨k, v, he, T08_untouched_header_line exDoc3 _ exDoc3_parsed exHist3 _ _ T k v exHist3_name hT hd he⟩

/-- the whole edited document: the two untouched lines with their comments are in place; the moved
    entry took its comment along -/
example : Edit.print (run exSt3 exHist3) = strBytes
    "# config\ntitle = \"x\" # the title\n\n[owner] # who\nname = \"n\" # keep me\n[srv] # server\nhost = \"h\"\ntags = [\"a\", \"b\", \"c\"]\n\n[[srv.pts ]]\nx = 1\n\n[[srv.pts ]]\nx = 2\n\n[[job]]\nid = \"j1\"\nport = 80 # the port\n\n[[job]]\nn = 1\n" := by
  decide +kernel

/-- `T08_refine_sort_sem_parsed` on the example: `sort` applies after the first five ops -/
example : ∃ st', applyOp (run exSt3 (exHist3.take 5)) .sort [exSeg "srv"] = some st' ∧
    supdTbl sortSU [exSeg "srv"] (eraseTbl (run exSt3 (exHist3.take 5)).doc.root) = some (eraseTbl st'.doc.root) := by
  have ha := applyOp_after (run exSt3 (exHist3.take 5)) .sort [exSeg "srv"] (by decide +kernel)
  exact ⟨_, ha, T08_refine_sort_sem_parsed exDoc3 (docOf exDoc3) (exHist3.take 5) _ _ exDoc3_parsed ha⟩

/-- and at an inline table (where `NodeInlOK` is not `True`): `{z = 1, a = {d = 1, c = 2}}` -/
def exDoc4 : Bytes := strBytes "t = {z = 1, a = {d = 1, c = 2}}\n"

theorem exDoc4_parsed : parseCst exDoc4 = some (docOf exDoc4) := docOf_parsed _ (by decide +kernel)

example : ∃ st', applyOp ⟨exDoc4, docOf exDoc4⟩ .sort [exSeg "t"] = some st' ∧
    supdTbl sortSU [exSeg "t"] (eraseTbl (docOf exDoc4).root) = some (eraseTbl st'.doc.root) := by
  have ha := applyOp_after ⟨exDoc4, docOf exDoc4⟩ .sort [exSeg "t"] (by decide +kernel)
  exact ⟨_, ha, T08_refine_sort_sem_parsed exDoc4 (docOf exDoc4) [] _ _ exDoc4_parsed ha⟩

/-! ### the hypothesis `notDottedInl` of `T08_line_in_print` is needed -/

/-- `a = {b.c = 1}⏎` -/
def exDoc5 : Bytes := strBytes "a = {b.c = 1}\n"

/-- `mv` takes the dotted inline table `b` out of `a` into the root table -/
def exHist5 : List (Op × List Seg) := [(.mv (strBytes "b") [], [exSeg "a"])]

/-- **a dotted inline table stored directly in a table has no line of its own**: after the move the
    root holds the entry `b` (a dotted inline table), `to_string()` prints it as `b.c = 1`, and the
    line `encodeItemAt` computes for the entry (`b = {…}`) is not a piece of the output -/
theorem dotted_inl_no_line :
    entryLineB (run ⟨exDoc5, docOf exDoc5⟩ exHist5).doc.root [exSeg "b"] = false ∧
    (entryAt (run ⟨exDoc5, docOf exDoc5⟩ exHist5).doc.root [exSeg "b"]).isSome = true ∧
    Edit.print (run ⟨exDoc5, docOf exDoc5⟩ exHist5) = strBytes "a = {}\nb.c = 1\n" ∧
    encodeItemAt (run ⟨exDoc5, docOf exDoc5⟩ exHist5).inp (run ⟨exDoc5, docOf exDoc5⟩ exHist5).doc [exSeg "b"]
      = some (strBytes "b = {c = 1}\n") := by
  decide +kernel

end TomlVerif.Props.C08
