import TomlVerif.Model.ErrorPos
/-! # C15 — every rejection is a well-formed, correctly located error -/
namespace TomlVerif.Props.C15
open TomlVerif TomlVerif.Spec TomlVerif.Model.ErrorPos

/-- on the empty input the position is reported as given -/
theorem T15_empty (i : Nat) : translatePosition [] i = (0, i) := rfl

/-- at end of input winnow reports an empty span at the end -/
theorem T15_charspan_eof (s : Bytes) : charSpan s s.length = (s.length, s.length) := by
  simp [charSpan]

end TomlVerif.Props.C15
