import TomlVerif.Model.ErrorPos
import TomlVerif.Lemmas.ErrorPos15
/-! # C15 — every rejection is a well-formed, correctly located error -/
namespace TomlVerif.Props.C15
open TomlVerif TomlVerif.Spec TomlVerif.Model.ErrorPos TomlVerif.Lemmas.ErrorPos15

/-- on the empty input the position is reported as given -/
theorem T15_empty (i : Nat) : translatePosition [] i = (0, i) := rfl

/-- at end of input winnow reports an empty span at the end -/
theorem T15_charspan_eof (s : Bytes) : charSpan s s.length = (s.length, s.length) := by
  simp [charSpan]

/-! ## 1. the span is well formed for every byte string -/

theorem T15_charspan_bounds (s : Bytes) (o : Nat) (ho : o ≤ s.length) :
    (charSpan s o).1 ≤ (charSpan s o).2 ∧ (charSpan s o).2 ≤ s.length ∧ (charSpan s o).1 ≤ o ∧
      (o < s.length → o < (charSpan s o).2) := by
  by_cases hlt : o < s.length
  · rw [charSpan_of_lt s o hlt]
    have h1 := charSpan_start_facts s o
    have h2 := charSpan_end_facts s o hlt
    simp only at h1 h2 ⊢
    omega
  · have : o = s.length := by omega
    subst this
    rw [T15_charspan_eof]
    simp

/-! ## 2. both ends are character boundaries -/

/-- holds for every byte string (validity is not needed with `Utf8.isBoundary` as defined) -/
theorem T15_charspan_boundary_any (s : Bytes) (o : Nat) (ho : o ≤ s.length) :
    Utf8.isBoundary s (charSpan s o).1 = true ∧ Utf8.isBoundary s (charSpan s o).2 = true := by
  by_cases hlt : o < s.length
  · rw [charSpan_of_lt s o hlt]
    exact ⟨(charSpan_start_facts s o).2, (charSpan_end_facts s o hlt).2.2⟩
  · have : o = s.length := by omega
    subst this
    rw [T15_charspan_eof]
    exact ⟨isBoundary_length s, isBoundary_length s⟩

theorem T15_charspan_boundary (s : Bytes) (o : Nat) (_hv : Utf8.valid s = true) (ho : o ≤ s.length) :
    Utf8.isBoundary s (charSpan s o).1 = true ∧ Utf8.isBoundary s (charSpan s o).2 = true :=
  T15_charspan_boundary_any s o ho

/-- what a boundary means on valid UTF-8: it cuts the text into two valid texts -/
theorem T15_boundary_splits (s : Bytes) (a : Nat) (hv : Utf8.valid s = true) (ha : a ≤ s.length)
    (hb : Utf8.isBoundary s a = true) :
    Utf8.valid (s.take a) = true ∧ Utf8.valid (s.drop a) = true :=
  ⟨valid_take s a hv ha hb, valid_drop s a hv ha hb⟩

/-- the slice between two boundaries of a valid text is valid -/
theorem T15_slice_valid (s : Bytes) (a b : Nat) (hv : Utf8.valid s = true)
    (ha : Utf8.isBoundary s a = true) (hb : Utf8.isBoundary s b = true) (hab : a ≤ b) (hbl : b ≤ s.length) :
    Utf8.valid ((s.take b).drop a) = true :=
  valid_slice s a b hv ha hb hab hbl

/-- on valid UTF-8 the reported span is a valid piece of text -/
theorem T15_charspan_slice_valid (s : Bytes) (o : Nat) (hv : Utf8.valid s = true) (ho : o ≤ s.length) :
    Utf8.valid ((s.take (charSpan s o).2).drop (charSpan s o).1) = true := by
  have hb := T15_charspan_bounds s o ho
  have hc := T15_charspan_boundary_any s o ho
  exact valid_slice s _ _ hv hc.1 hc.2 hb.1 hb.2.1

/-! ## 3. the position -/

/-- index just after the last LF strictly before position `min i (|s| - 1)` (0 if none) -/
def lineStartSpec (s : Bytes) (i : Nat) : Nat := lastLfEnd s (min i (s.length - 1))

/-- number of LF bytes before the line containing the anchor -/
def specLine (s : Bytes) (i : Nat) : Nat := ((s.take (lineStartSpec s i)).filter (· == 0x0A)).length

/-- number of characters (non-continuation bytes) between the line start and `i` -/
def specColumn (s : Bytes) (i : Nat) : Nat :=
  (((s.take (min i s.length)).drop (lineStartSpec s i)).filter (fun b => !Utf8.isCont b)).length +
    (i - min i s.length)

/-- `lineStartSpec` is characterised by: it is at most the anchor, it is 0 or follows an LF, and
    there is no LF between it and the anchor -/
theorem lineStartSpec_char (s : Bytes) (i : Nat) :
    lineStartSpec s i ≤ min i (s.length - 1) ∧
    (lineStartSpec s i = 0 ∨ ∃ j, lineStartSpec s i = j + 1 ∧ s[j]? = some 0x0A) ∧
    (∀ j, lineStartSpec s i ≤ j → j < min i (s.length - 1) → s[j]? ≠ some 0x0A) :=
  ⟨lastLfEnd_le s _, lastLfEnd_after_lf s _, lastLfEnd_no_lf s _⟩

theorem lineStartSpec_boundary (s : Bytes) (i : Nat) (hv : Utf8.valid s = true) :
    Utf8.isBoundary s (lineStartSpec s i) = true := lastLfEnd_boundary s hv _

theorem T15_position_spec (s : Bytes) (i : Nat) (hne : s ≠ []) (hv : Utf8.valid s = true)
    (hi : i ≤ s.length) (hb : Utf8.isBoundary s i = true) :
    translatePosition s i = (specLine s i, specColumn s i) := by
  have hlen : 0 < s.length := List.length_pos_iff.mpr hne
  have hemp : s.isEmpty = false := by cases s with | nil => exact absurd rfl hne | cons _ _ => rfl
  unfold translatePosition
  simp only [hemp, Bool.false_eq_true, if_false]
  have hsafe : min i (s.length - 1) ≤ s.length := by omega
  rw [lineStartOf_take s _ hsafe]
  have he : min (min i (s.length - 1) + (i - min i (s.length - 1))) s.length = i := by omega
  have hso : min i (s.length - 1) + (i - min i (s.length - 1)) = i := by omega
  rw [he, hso]
  have hls : lastLfEnd s (min i (s.length - 1)) ≤ i := by
    have := lastLfEnd_le s (min i (s.length - 1)); omega
  have hslice := valid_slice s _ i hv (lastLfEnd_boundary s hv _) hb hls hi
  rw [hslice]
  simp only [if_true]
  have hmi : min i s.length = i := by omega
  unfold specLine specColumn lineStartSpec charCount
  rw [hmi]
  rfl


/-! ## 4. rendering never panics -/

theorem translatePosition_line_le (s : Bytes) (i : Nat) :
    (translatePosition s i).1 ≤ (s.filter (· == 0x0A)).length := by
  unfold translatePosition
  split
  · exact Nat.zero_le _
  · exact filter_take_length_le _ s _

/-- the only way `Display for TomlError` can panic is an inverted span -/
theorem T15_render_isSome_iff (s : Bytes) (a b : Nat) : (displayIndices s a b).isSome = true ↔ a ≤ b := by
  have hl := translatePosition_line_le s a
  unfold displayIndices
  have h1 : ¬ (translatePosition s a).1 ≥ (s.filter (· == 0x0A)).length + 1 := by omega
  simp only [h1, if_false]
  by_cases hab : b < a
  · simp only [hab, if_true]; simp; omega
  · simp only [hab, if_false]; simp; omega

theorem T15_render_total (s : Bytes) (o : Nat) (ho : o ≤ s.length) :
    (displayIndices s (charSpan s o).1 (charSpan s o).2).isSome = true :=
  (T15_render_isSome_iff s _ _).mpr (T15_charspan_bounds s o ho).1

/-! ## 5. the column counts characters, not bytes -/

theorem T15_column_counts_chars (s : Bytes) (i : Nat) (hne : s ≠ []) (hv : Utf8.valid s = true)
    (hi : i ≤ s.length) (hb : Utf8.isBoundary s i = true) :
    (translatePosition s i).2 ≤ i - lineStartSpec s i ∧
    ((translatePosition s i).2 = i - lineStartSpec s i ↔
      ∀ b ∈ (s.take i).drop (lineStartSpec s i), b < 0x80) := by
  rw [T15_position_spec s i hne hv hi hb]
  have hmi : min i s.length = i := by omega
  have hls : lineStartSpec s i ≤ i := by
    have := (lineStartSpec_char s i).1; omega
  have hcol : specColumn s i = charCount ((s.take i).drop (lineStartSpec s i)) := by
    unfold specColumn charCount
    rw [hmi, Nat.sub_self, Nat.add_zero]
    rfl
  have hlen : ((s.take i).drop (lineStartSpec s i)).length = i - lineStartSpec s i := by
    simp [List.length_drop, List.length_take, hmi]
  have hslice := valid_slice s _ i hv (lineStartSpec_boundary s i hv) hb hls hi
  simp only [hcol]
  rw [← hlen]
  refine ⟨charCount_le_length _, ?_⟩
  rw [charCount_eq_length_iff]
  constructor
  · intro h; exact valid_no_cont_ascii _ _ (Nat.le_refl _) hslice h
  · intro h b hb; exact ascii_not_cont b (h b hb)


/-! ## extras -/

/-- the span is tight: there is no character boundary strictly inside it, so together with
    `T15_charspan_bounds`/`T15_charspan_boundary_any` the span is exactly the character
    (maximal boundary-free block) containing byte `o` -/
theorem T15_charspan_tight (s : Bytes) (o : Nat) (ho : o < s.length) (j : Nat)
    (h1 : (charSpan s o).1 < j) (h2 : j < (charSpan s o).2) : Utf8.isBoundary s j = false :=
  charSpan_tight s o ho j h1 h2

/-- `Utf8.valid` / `charCount` against the encoder: a concatenation of encoded scalar values is
    valid and its `charCount` is the number of scalar values -/
theorem T15_charCount_scalars (cps : List Nat) (hs : ∀ cp ∈ cps, Utf8.isScalar cp = true) :
    Utf8.valid (cps.flatMap Utf8.encode) = true ∧ charCount (cps.flatMap Utf8.encode) = cps.length :=
  flatMap_encode_valid_count cps hs

/-- the reported column is the number of Unicode scalar values between the line start and the
    anchor (no validity assumption on the rest of the text) -/
theorem T15_column_is_scalar_count (s : Bytes) (i : Nat) (cps : List Nat) (hne : s ≠ [])
    (hi : i ≤ s.length) (hs : ∀ cp ∈ cps, Utf8.isScalar cp = true)
    (hline : (s.take i).drop (lineStartSpec s i) = cps.flatMap Utf8.encode) :
    translatePosition s i = (specLine s i, cps.length) := by
  have hlen : 0 < s.length := List.length_pos_iff.mpr hne
  have hemp : s.isEmpty = false := by cases s with | nil => exact absurd rfl hne | cons _ _ => rfl
  unfold translatePosition
  simp only [hemp, Bool.false_eq_true, if_false]
  have hsafe : min i (s.length - 1) ≤ s.length := by omega
  rw [lineStartOf_take s _ hsafe]
  have he : min (min i (s.length - 1) + (i - min i (s.length - 1))) s.length = i := by omega
  have hso : min i (s.length - 1) + (i - min i (s.length - 1)) = i := by omega
  rw [he, hso]
  unfold lineStartSpec at hline
  rw [hline]
  have := flatMap_encode_valid_count cps hs
  rw [this.1, this.2]
  simp only [if_true, Nat.sub_self, Nat.add_zero]
  rfl

/-! ## the statements in `let (a, b) := …` form -/

theorem T15_charspan_bounds' : ∀ (s : Bytes) (o : Nat), o ≤ s.length →
    let (a, b) := charSpan s o
    a ≤ b ∧ b ≤ s.length ∧ a ≤ o ∧ (o < s.length → o < b) := by
  intro s o ho
  have := T15_charspan_bounds s o ho
  generalize charSpan s o = p at *
  obtain ⟨a, b⟩ := p
  exact this

theorem T15_charspan_boundary' : ∀ (s : Bytes) (o : Nat), Utf8.valid s = true → o ≤ s.length →
    let (a, b) := charSpan s o
    Utf8.isBoundary s a = true ∧ Utf8.isBoundary s b = true := by
  intro s o hv ho
  have := T15_charspan_boundary s o hv ho
  generalize charSpan s o = p at *
  obtain ⟨a, b⟩ := p
  exact this

theorem T15_render_total' : ∀ (s : Bytes) (o : Nat), o ≤ s.length →
    let (a, b) := charSpan s o
    (displayIndices s a b).isSome = true := by
  intro s o ho
  have := T15_render_total s o ho
  generalize charSpan s o = p at *
  obtain ⟨a, b⟩ := p
  exact this

/-! ## examples (non-vacuity) -/

/-- bytes of `"é"é` (quote, é, quote, é) -/
def ex1 : Bytes := [0x22, 0xC3, 0xA9, 0x22, 0xC3, 0xA9]
/-- bytes of `a = 1⏎bé = "日本"⏎€` -/
def ex2 : Bytes := [97, 32, 61, 32, 49, 10, 98, 195, 169, 32, 61, 32, 34, 230, 151, 165, 230, 156, 172, 34, 10,
  226, 130, 172]
/-- not UTF-8: two stray continuation bytes, `A`, a truncated 2-byte lead -/
def ex3 : Bytes := [0x80, 0x80, 0x41, 0xC3]

-- hypotheses of T15_position_spec / T15_column_counts_chars are met by multi-byte inputs
example : ex1 ≠ [] ∧ Utf8.valid ex1 = true ∧ 4 ≤ ex1.length ∧ Utf8.isBoundary ex1 4 = true := by decide
example : translatePosition ex1 4 = (0, 3) := by decide
example : (specLine ex1 4, specColumn ex1 4) = (0, 3) := by decide
example : ex2 ≠ [] ∧ Utf8.valid ex2 = true ∧ 19 ≤ ex2.length ∧ Utf8.isBoundary ex2 19 = true := by decide
example : translatePosition ex2 19 = (1, 8) ∧ lineStartSpec ex2 19 = 6 := by decide   -- 13 bytes, 8 characters
example : translatePosition ex2 24 = (2, 1) := by decide                              -- at EOF after `€`
-- the column is strictly below the byte count as soon as a non-ASCII character precedes the anchor
example : (translatePosition ex2 19).2 < 19 - lineStartSpec ex2 19 := by decide
-- … and equals it on an all-ASCII line prefix
example : (translatePosition ex2 5).2 = 5 - lineStartSpec ex2 5 := by decide
-- the boundary hypothesis of T15_position_spec is needed: inside `日` the model falls back to bytes
example : Utf8.isBoundary ex2 14 = false ∧ translatePosition ex2 14 = (1, 8) ∧ specColumn ex2 14 = 7 := by decide
-- T15_column_is_scalar_count: `bé = "日本` is 8 scalar values
example : (ex2.take 19).drop (lineStartSpec ex2 19) =
    [0x62, 0xE9, 0x20, 0x3D, 0x20, 0x22, 0x65E5, 0x672C].flatMap Utf8.encode := by decide
-- charSpan: on a continuation byte of `é` the span is the whole character; at EOF it is empty
example : charSpan ex1 2 = (1, 3) ∧ charSpan ex1 1 = (1, 3) ∧ charSpan ex1 3 = (3, 4) ∧ charSpan ex1 6 = (6, 6) := by
  decide
example : charSpan ex2 15 = (13, 16) ∧ Utf8.isBoundary ex2 14 = false ∧ Utf8.isBoundary ex2 15 = false := by decide
-- T15_charspan_bounds / T15_render_total also cover ill-formed input
example : Utf8.valid ex3 = false ∧ charSpan ex3 1 = (0, 2) ∧ charSpan ex3 3 = (3, 4) := by decide
example : displayIndices ex3 0 2 = some (1, 1, 2) := by decide
example : displayIndices ex1 4 6 = some (1, 4, 2) := by decide
-- the `none` branch of displayIndices is reachable only with an inverted span
example : displayIndices ex1 4 3 = none := by decide
-- T15_boundary_splits / T15_slice_valid
example : Utf8.valid ((ex2.take 19).drop 13) = true ∧ Utf8.valid ((ex2.take 19).drop 14) = false := by decide

end TomlVerif.Props.C15
