import TomlVerif.Props.C17RoundTrip
import TomlVerif.Props.C17
import TomlVerif.Lemmas.RoundTrip17i
/-! # C17 — serialization of `toml::Value` is canonical and insensitive to map order

Completes the two statements staged in `Props/C17RoundTrip.lean`.

1. **Fixed point** `serialize ∘ parse ∘ serialize = serialize`:
   * `preserve_order` (`IndexMap`): `T17_fixpoint : T17_fixpoint_statement .insertion`, for every well-formed tree
     (via `T17_toText_canon_insertion`: the decoded tree prints like the tree);
   * `BTreeMap`: the staged `T17_fixpoint_statement .sorted` is FALSE (`T17_fixpoint_statement_sorted_false`:
     the association list `b = 1, a = 2`, which is not a value of that build); the corrected statement
     `T17_fixpoint_sorted_statement` adds `SortedTV v` — every table key-sorted, which every `BTreeMap`-backed
     `toml::Value` is — and is proved (`T17_fixpoint_sorted`), together with the round-trip IDENTITY
     `T17_roundtrip_id_sorted`.
2. **Order insensitivity**: `T17_order_insensitive : T17_order_insensitive_statement`, its version for permutations at
   any depth (`T17_order_insensitive_deep`, relation `PermTV`), the decoded values (`T17_decode_order_insensitive`),
   the re-serialised texts (`T17_reserialize_order_insensitive`), and `T17_text_deterministic`: the `BTreeMap` values
   built from the same entries in any insertion order are the same value, hence print byte-identically.
3. **Determinism / purity**: `toText`, `toTextTable` are Lean functions, so "the same value always serializes to the
   same text" is `rfl` in the model and says nothing; what the model can say about canonicity is 1 and 2, and at
   text level **values before tables** (`T17_values_before_tables`): the text is the concatenation of one piece
   per statement, header pieces are exactly those starting with `[` (after an optional blank line), and the
   pieces form a `SegBlock` — in every section the key/value lines precede the first header of anything below. -/
namespace TomlVerif.Props.C17Fix
open TomlVerif.Model.DeText
open TomlVerif TomlVerif.Spec TomlVerif.Model TomlVerif.Model.TomlValue TomlVerif.Model.DeRoutes
open TomlVerif.Model.Value (LIMIT)
open TomlVerif.Lemmas.RoundTrip17
open TomlVerif.Lemmas.TomlValue17 (Block headerFirst)
open TomlVerif.Props.C17RoundTrip

/-! ## 1(a) the fixed point for `preserve_order` -/

/-- the serializer sees a tree and its normal form alike (`normTV` is idempotent) -/
theorem toText_normTV (f : FloatText) (p : Bool) (v : TV) (h : OkV v) : toText f p (normTV v) = toText f p v := by
  unfold toText
  rw [norm_eq v h, norm_eq _ (ok_normTV v h).1, normTV_idem]

/-- **the missing equation, `preserve_order`**: what the text of a well-formed tree decodes to prints like the tree -/
theorem T17_toText_canon_insertion (f : FloatText) (p : Bool) (v : TV) (h : OkV v) :
    toText f p (canonTV .insertion v) = toText f p v := by
  have hn := (ok_normTV v h).1
  cases hnv : normTV v with
  | tbl items =>
    rw [T17_canon_insertion v items h hnv]
    rw [hnv] at hn
    have hnrm : NrmV (.tbl items) := hnv ▸ nrm_normTV v
    obtain ⟨e1, e2⟩ := emitDoc_fix items hnrm
    have e3 : normTV (.tbl (docTbl items)) = .tbl (reTbl items) := by rw [normTV, reTbl]
    unfold toText
    rw [norm_eq _ (ok_docTbl items hn), norm_eq v h, hnv, e3]
    simp only [e1, e2]
  | str s =>
    have hd : docRoot (normTV v) = normTV v := by rw [hnv]; rfl
    unfold canonTV; rw [hd, placeTV_insertion _ hn, toText_normTV f p v h]
  | int n =>
    have hd : docRoot (normTV v) = normTV v := by rw [hnv]; rfl
    unfold canonTV; rw [hd, placeTV_insertion _ hn, toText_normTV f p v h]
  | float b =>
    have hd : docRoot (normTV v) = normTV v := by rw [hnv]; rfl
    unfold canonTV; rw [hd, placeTV_insertion _ hn, toText_normTV f p v h]
  | bool b =>
    have hd : docRoot (normTV v) = normTV v := by rw [hnv]; rfl
    unfold canonTV; rw [hd, placeTV_insertion _ hn, toText_normTV f p v h]
  | dt d =>
    have hd : docRoot (normTV v) = normTV v := by rw [hnv]; rfl
    unfold canonTV; rw [hd, placeTV_insertion _ hn, toText_normTV f p v h]
  | arr l =>
    have hd : docRoot (normTV v) = normTV v := by rw [hnv]; rfl
    unfold canonTV; rw [hd, placeTV_insertion _ hn, toText_normTV f p v h]

/-- **T17_fixpoint** (`preserve_order`): `serialize ∘ parse ∘ serialize = serialize` on every well-formed tree,
    both layouts -/
theorem T17_fixpoint : T17_fixpoint_statement .insertion := by
  intro f p v t w h ht hw
  exact (T17_fixpoint_partial .insertion f p v t w h ht hw).2 (T17_toText_canon_insertion f p v h.1)

/-- non-vacuity: the hypotheses are met by the (non-canonical) `sample`, whose decoded tree `sampleInsertion` differs
    from it -/
example (t : Bytes) (w : TV) (ht : toText noFloat true sample = .ok t) (hw : decodeValue .insertion t = some w) :
    toText noFloat true w = .ok t := T17_fixpoint noFloat true sample t w sample_ok ht hw
example : toText noFloat true sample = .ok samplePretty ∧ decodeValue .insertion samplePretty = some sampleInsertion :=
  ⟨sample_pretty, someIs_sound _ _ (by decide +kernel)⟩

/-! ## 1(b) the fixed point and the identity for `BTreeMap` -/

/-- the three passes and the document order only permute table entries, at every depth -/
theorem perm_docRoot_normTV (v : TV) : PermTV (docRoot (normTV v)) v := by
  refine .trans ?_ (perm_normTV v)
  cases normTV v with
  | tbl items => exact perm_docTbl items
  | _ => exact .refl _

/-- with duplicate-free keys the result of the round trip into `BTreeMap`s is the tree with every table sorted:
    the passes and the document order leave no trace -/
theorem T17_canon_sorted_place (v : TV) (h : NodupTV v) : canonTV .sorted v = placeTV .sorted v :=
  (permTV_place (perm_docRoot_normTV v)).2 h

/-- a key-sorted tree is canonical for `BTreeMap` -/
theorem T17_canon_sorted (v : TV) (h : SortedTV v) : canonTV .sorted v = v := by
  rw [T17_canon_sorted_place v (sorted_nodup v h), place_sorted_id v h]

/-- **T17_roundtrip_id_sorted**: a well-formed `BTreeMap`-backed value comes back as it is -/
theorem T17_roundtrip_id_sorted (f : FloatText) (p : Bool) (v : TV) (t : Bytes) (h : TVOk v) (hs : SortedTV v)
    (ht : toText f p v = .ok t) : decodeValue .sorted t = some v := by
  rw [T17_roundtrip .sorted f p v t h ht, T17_canon_sorted v hs]

/-- the staged statement with the hypothesis it lacks -/
def T17_fixpoint_sorted_statement : Prop :=
  ∀ (f : FloatText) (pretty : Bool) (v : TV) (t : Bytes) (w : TV), TVOk v → SortedTV v →
    toText f pretty v = .ok t → decodeValue .sorted t = some w → toText f pretty w = .ok t

/-- **T17_fixpoint_sorted** (`BTreeMap`) -/
theorem T17_fixpoint_sorted : T17_fixpoint_sorted_statement := by
  intro f p v t w h hs ht hw
  exact T17_fixpoint_canonical .sorted f p v t w h (T17_canon_sorted v hs) ht hw

theorem ba_ok : TVOk (.tbl [(strBytes "b", .int 1), (strBytes "a", .int 2)]) := by
  refine ⟨?_, by decide +kernel⟩
  simp only [OkV, OkPs, and_true]
  decide +kernel

/-- **the staged `T17_fixpoint_statement .sorted` is false**: `b = 1, a = 2` (`T17_fixpoint_sorted_needs_order`)
    is well formed, prints as `b = 1\na = 2\n`, decodes to `{a = 2, b = 1}`, which prints as `a = 2\nb = 1\n` -/
theorem T17_fixpoint_statement_sorted_false : ¬ T17_fixpoint_statement .sorted := by
  intro H
  obtain ⟨h1, h2, h3⟩ := T17_fixpoint_sorted_needs_order
  have := H noFloat false _ _ _ ba_ok h1 h2
  rw [h3] at this
  injection this with this
  revert this
  decide +kernel

/-- non-vacuity: `sampleSorted` is well formed and key-sorted -/
theorem sampleSorted_sorted : SortedTV sampleSorted := by
  simp only [sampleSorted, SortedTV, SortedPs, SortedVs, KSorted, and_true, true_and]
  decide +kernel

example (p : Bool) (t : Bytes) (ht : toText noFloat p sampleSorted = .ok t) : decodeValue .sorted t = some sampleSorted :=
  T17_roundtrip_id_sorted noFloat p sampleSorted t sampleSorted_ok sampleSorted_sorted ht
example : ∃ t, toText noFloat true sampleSorted = .ok t := by
  have h := sampleSorted_ok.1
  rw [sampleSorted] at h ⊢
  exact T17_toText_ok noFloat true _ h

/-! ## 2. order insensitivity -/

/-- **T17_order_insensitive_deep**: trees with duplicate-free keys that differ only by the order of table entries, at
    any depth, have the same canonical form for `BTreeMap` -/
theorem T17_order_insensitive_deep (v v' : TV) (hp : PermTV v' v) (hn : NodupTV v) :
    canonTV .sorted v' = canonTV .sorted v := by
  have hn' : NodupTV v' := (permTV_place hp).1.2 hn
  rw [T17_canon_sorted_place v hn, T17_canon_sorted_place v' hn']
  exact (permTV_place hp).2 hn

/-- **T17_order_insensitive**: the staged statement (a permutation of the root entries) -/
theorem T17_order_insensitive : T17_order_insensitive_statement := by
  intro items items' h hp
  exact T17_order_insensitive_deep _ _ (.perm hp) (okV_nodup _ h)

/-- well-formedness does not depend on the order of the entries -/
theorem TVOk_perm (v v' : TV) (hp : PermTV v' v) (h : TVOk v) : TVOk v' := by
  obtain ⟨h1, h2⟩ := permTV_ok hp
  exact ⟨h1.2 h.1, by rw [h2]; exact h.2⟩

/-- **decoded values**: the texts of two such trees — whatever the layouts — decode, for `BTreeMap`, to the same value -/
theorem T17_decode_order_insensitive (f f' : FloatText) (p p' : Bool) (v v' : TV) (t t' : Bytes) (h : TVOk v)
    (hp : PermTV v' v) (ht : toText f p v = .ok t) (ht' : toText f' p' v' = .ok t') :
    decodeValue .sorted t' = decodeValue .sorted t := by
  rw [T17_roundtrip .sorted f p v t h ht, T17_roundtrip .sorted f' p' v' t' (TVOk_perm v v' hp h) ht',
    T17_order_insensitive_deep v v' hp (okV_nodup v h.1)]

/-- a `BTreeMap`-backed value is determined by its entries -/
theorem T17_sorted_unique (v v' : TV) (hs : SortedTV v) (hs' : SortedTV v') (hp : PermTV v' v) : v' = v := by
  rw [← place_sorted_id v hs, ← place_sorted_id v' hs']
  exact (permTV_place hp).2 (sorted_nodup v hs)

/-- **T17_text_deterministic**: collect the same entries (at every level, in any order: `PermTV u' u`, keys
    duplicate-free) into `BTreeMap`-backed values — `placeTV .sorted`, which does return key-sorted trees — : the two
    values are equal, so their texts are byte-identical, in either layout -/
theorem T17_text_deterministic (f : FloatText) (p : Bool) (u u' : TV) (hp : PermTV u' u) (hn : NodupTV u) :
    SortedTV (placeTV .sorted u) ∧ SortedTV (placeTV .sorted u') ∧
    placeTV .sorted u' = placeTV .sorted u ∧
    toText f p (placeTV .sorted u') = toText f p (placeTV .sorted u) := by
  have hn' : NodupTV u' := (permTV_place hp).1.2 hn
  have e := (permTV_place hp).2 hn
  exact ⟨place_is_sorted u hn, place_is_sorted u' hn', e, by rw [e]⟩

/-- the same on values: two key-sorted values with the same entries print byte-identically -/
theorem T17_text_deterministic_values (f : FloatText) (p : Bool) (v v' : TV) (hs : SortedTV v) (hs' : SortedTV v')
    (hp : PermTV v' v) : toText f p v' = toText f p v := by
  rw [T17_sorted_unique v v' hs hs' hp]

/-- association lists in any order (not necessarily `BTreeMap` values): after one round trip through `BTreeMap`s
    the texts are byte-identical and are fixed points -/
theorem T17_reserialize_order_insensitive (f : FloatText) (p : Bool) (v v' : TV) (t t' : Bytes) (w w' : TV)
    (h : TVOk v) (hp : PermTV v' v) (ht : toText f p v = .ok t) (ht' : toText f p v' = .ok t')
    (hw : decodeValue .sorted t = some w) (hw' : decodeValue .sorted t' = some w') :
    w' = w ∧ toText f p w' = toText f p w := by
  have := T17_decode_order_insensitive f f p p v v' t t' h hp ht ht'
  rw [hw, hw'] at this
  injection this with this
  exact ⟨this, by rw [this]⟩

/-- **canonical after one round trip** (`BTreeMap`), for association lists in ANY order: the decoded value `w` is
    well formed, key-sorted and a reordering of `v`; from then on the round trip is the identity and the text a
    fixed point -/
theorem T17_sorted_after_one_roundtrip (f : FloatText) (p : Bool) (v : TV) (t : Bytes) (w : TV) (h : TVOk v)
    (ht : toText f p v = .ok t) (hw : decodeValue .sorted t = some w) :
    TVOk w ∧ SortedTV w ∧ PermTV w v ∧ w = placeTV .sorted v ∧
      ∀ t2, toText f p w = .ok t2 → decodeValue .sorted t2 = some w := by
  have hn := okV_nodup v h.1
  rw [T17_roundtrip .sorted f p v t h ht, T17_canon_sorted_place v hn] at hw
  injection hw with hw
  subst hw
  have hp := perm_placeTV v hn
  have hok := TVOk_perm v _ hp h
  have hs := place_is_sorted v hn
  exact ⟨hok, hs, hp, rfl, fun t2 ht2 => T17_roundtrip_id_sorted f p _ t2 hok hs ht2⟩

/-- non-vacuity: a permutation at the root and one inside a sub-table -/
example : PermTV (.tbl [(strBytes "b", .tbl [(strBytes "d", .int 2), (strBytes "c", .int 1)]), (strBytes "a", .int 0)])
    (.tbl [(strBytes "a", .int 0), (strBytes "b", .tbl [(strBytes "c", .int 1), (strBytes "d", .int 2)])]) :=
  .trans (.perm (List.Perm.swap _ _ _)) (.tbl (.cons (.refl _) (.cons (.perm (List.Perm.swap _ _ _)) .nil)))

/-- non-vacuity of `T17_order_insensitive`: `sample` with its root entries reversed -/
example (items : List (Bytes × TV)) (hs : sample = .tbl items) :
    canonTV .sorted (.tbl items.reverse) = canonTV .sorted (.tbl items) :=
  T17_order_insensitive items items.reverse (hs ▸ sample_ok.1) (List.reverse_perm _)

theorem sample_nodup : NodupTV sample := okV_nodup _ sample_ok.1

/-- `sampleSorted` is the `BTreeMap` value built from the entries of `sample` -/
example : placeTV .sorted sample = sampleSorted := by
  rw [← T17_canon_sorted_place sample sample_nodup]; exact sample_canon_sorted

/-! ## 3. values before tables, at text level -/

/-- **T17_values_before_tables**: whenever `to_string` / `to_string_pretty` succeeds, the text is the concatenation
    of the pieces `stmtTexts` (one per statement of `emitDoc`: a header `[path]\n` / `[[path]]\n`, preceded by a
    blank line unless it is the first line, or a key/value line `key = value\n`); a piece begins with `[` or
    `\n[` exactly when its statement is a header; and the pieces form a `SegBlock`: (no root header,) the root's
    key/value pieces, then the blocks of the sub-tables and arrays of tables, each beginning with its header piece
    and again of that shape — in every section the key/value lines precede the first header below it. -/
theorem T17_values_before_tables (f : FloatText) (p : Bool) (v : TV) (t : Bytes) (ht : toText f p v = .ok t) :
    ∃ items : List (Bytes × TV), norm v = some (.tbl items) ∧
      t = (stmtTexts f p (ownValues items).isEmpty (emitDoc items)).flatten ∧
      (stmtTexts f p (ownValues items).isEmpty (emitDoc items)).map startsHeader =
        (emitDoc items).map TomlValue.Stmt.isHeader ∧
      SegBlock (stmtTexts f p (ownValues items).isEmpty (emitDoc items)) := by
  unfold toText at ht
  cases hn : norm v with
  | none => rw [hn] at ht; cases ht
  | some w =>
    rw [hn] at ht
    cases w with
    | tbl items =>
      simp only [Except.ok.injEq] at ht
      refine ⟨items, rfl, ?_, stmtTexts_class f p _ _, segBlock_of_block f p (C17.T17_order items) _⟩
      rw [← ht, renderStmts_flatten]
    | _ => cases ht

theorem stmtTexts_kvs (f : FloatText) (p : Bool) (first : Bool) (l : List (Bytes × TV)) :
    stmtTexts f p first (l.map fun e => TomlValue.Stmt.kv e.1 e.2) =
      l.map fun e => stmtText f p false (.kv e.1 e.2) := by
  induction l with
  | nil => rfl
  | cons x r ih => simp [stmtTexts, ih]

/-- index form for the root section: the first `(ownValues items).length` pieces are the root's key/value lines, in
    map order; what follows is empty or begins with a header piece -/
theorem T17_root_values_first_text (f : FloatText) (p first : Bool) (items : List (Bytes × TV)) :
    ∃ rest, stmtTexts f p first (emitDoc items) =
        (ownValues items).map (fun e => stmtText f p false (.kv e.1 e.2)) ++ rest ∧ segHeaderFirst rest := by
  rw [C17.T17_root_values_first, stmtTexts_append]
  refine ⟨_, by rw [ownKvs, stmtTexts_kvs], ?_⟩
  exact segHeaderFirst_of f p _ _
    (TomlVerif.Lemmas.TomlValue17.blocks_headerFirst (TomlVerif.Lemmas.TomlValue17.emitSubs_blocks [] items))

/-- non-vacuity: the pieces of the plain text of `sample` -/
example : ∃ items, norm sample = some (.tbl items) ∧
    (stmtTexts noFloat false (ownValues items).isEmpty (emitDoc items)).map startsHeader =
      [false, false, true, false, true, false, true, false, true, false, true, false, true, false] := by
  refine ⟨_, norm_eq sample sample_ok.1, ?_⟩
  decide +kernel

end TomlVerif.Props.C17Fix
