import TomlVerif.Model.Doc
import TomlVerif.Props.C10
/-! # C01 — the parser accepts exactly the valid TOML 1.0.0 documents -/
namespace TomlVerif.Props.C01
open TomlVerif TomlVerif.Spec TomlVerif.Model TomlVerif.Model.Doc

/-- the slice entry point accepts exactly the well-formed UTF-8 texts the string entry point accepts, with the same tree -/
theorem T01_slice (b : Bytes) : parseSlice b = if Utf8.valid b then parseDocument b else none := rfl

/-- a leading byte-order mark is ignored -/
theorem T01_bom (s : Bytes) (h : stripBom s = s) : parseDocument (0xEF :: 0xBB :: 0xBF :: s) = parseDocument s := by
  have e : stripBom (0xEF :: 0xBB :: 0xBF :: s) = s := rfl
  unfold parseDocument
  rw [e, h]

end TomlVerif.Props.C01
