import TomlVerif.Lemmas.Guards10
/-! # C10 — string and key quoting is exact for every string in every offered style

Model: `Model/Write.lean` (toml_write/src/string.rs), `Model/Strings.lean`, `Model/Key.lean`
(toml_edit/src/parser/{strings,key}.rs).  Every theorem quantifies over **all** byte strings `s`
(no length bound; not even UTF-8 validity is needed) and over every continuation `rest` whose first
byte cannot extend the token.  Property theorems only; helper lemmas live in `Lemmas/`. -/
namespace TomlVerif.Props.C10
open TomlVerif TomlVerif.Spec TomlVerif.Model.Write TomlVerif.Model.Strings TomlVerif.Model.Key TomlVerif.Lemmas

/-- what may follow a string token: not another quote character
    (in a document: ws, newline, `,`, `]`, `}`, `#` or end of input) -/
def ValueFollow (rest : Bytes) : Prop := rest.head? ≠ some 0x22 ∧ rest.head? ≠ some 0x27
/-- what may follow a key token: not a bare-key character (in a document: ws, `.`, `=`, `]`) -/
def KeyFollow (rest : Bytes) : Prop := ∀ x r, rest = x :: r → isUnquotedChar x = false

/-- **Basic strings** (also what `as_basic_pretty` emits): every byte string, any `seq`-independent. -/
theorem T10_basic (s rest : Bytes) (nl : Bool) (hr : rest.head? ≠ some 0x22) :
    string (writeTomlValue s (some .basic) nl ++ rest) = .ok s rest := by
  have hb : basicString (writeTomlValue s (some .basic) nl ++ rest) = .ok s rest := by
    simp [writeTomlValue, delimiter, isMl, isEscaped, basicString]
    have := basic_body_rt s 0 ((escBody false 0 s ++ 0x22 :: rest).length + 1) rest [] (by omega)
    simpa using this
  have hm : mlBasicString (writeTomlValue s (some .basic) nl ++ rest) = .bt := by
    simp [writeTomlValue, delimiter, isMl, isEscaped]
    by_cases hs : s = []
    · subst hs
      cases rest with
      | nil => rfl
      | cons y r => simpa [escBody] using mlBasicString_bt_of_third y r (head_ne_of _ _ y r hr rfl)
    · obtain ⟨x, u, e, hx⟩ := escBody_single_head s 0 rest hs
      rw [e]; exact mlBasicString_bt_of_second x u hx
  unfold string
  rw [hm, hb]

/-- **Literal strings**: whenever the style is offered. -/
theorem T10_literal (s rest : Bytes) (e : Encoding) (h : vAsLiteral (valueMetrics s) = some e)
    (hr : rest.head? ≠ some 0x27) :
    string (writeTomlValue s (some e) (valueMetrics s).newline ++ rest) = .ok s rest := by
  obtain ⟨he, hm⟩ := vAsLiteral_some _ _ h
  subst he
  obtain ⟨f1, f2, _, _, f5⟩ := vm_fold s ({}, 0, 0)
  unfold valueMetrics at hm
  rw [f1, f2] at hm
  have hall : s.all isLiteralChar = true := by
    have q := f5 hm.2.1
    simp at hm q
    simp only [List.all_eq_true]
    intro b hb
    exact value_literal_ok b (hm.1 b hb) (by simpa using q b hb) (hm.2.2 b hb)
  have hlit : literalString (0x27 :: (s ++ 0x27 :: rest)) = .ok s rest := literal_rt s rest hall
  have hml : mlLiteralString (0x27 :: (s ++ 0x27 :: rest)) = .bt := by
    cases s with
    | nil =>
      cases rest with
      | nil => rfl
      | cons y r => exact mlLiteralString_bt_of_third y r (head_ne_of _ _ y r hr rfl)
    | cons b s =>
      simp only [List.all_cons, Bool.and_eq_true] at hall
      have : b ≠ 0x27 := by intro e; subst e; simp [isLiteralChar, inR, isNonAscii] at hall
      exact mlLiteralString_bt_of_second b _ this
  simp only [writeTomlValue, delimiter, isMl, isEscaped]
  simp
  unfold string
  simp [mlBasicString, basicString, hml, hlit]

/-- **Multi-line basic strings** (also what `as_ml_basic_pretty` emits): every byte string. -/
theorem T10_ml_basic (s rest : Bytes) (hr : rest.head? ≠ some 0x22) :
    string (writeTomlValue s (some .mlBasic) (valueMetrics s).newline ++ rest) = .ok s rest := by
  obtain ⟨_, f2, _, _, _⟩ := vm_fold s ({}, 0, 0)
  have hbody : ∀ fuel, (escBody true 0 s ++ 0x22 :: 0x22 :: 0x22 :: rest).length < fuel →
      mlBasicBody fuel (escBody true 0 s ++ 0x22 :: 0x22 :: 0x22 :: rest) [] = .ok s rest := by
    intro fuel hf
    have := mlb_body_rt s 0 fuel rest [] (by omega) hr (by simpa using hf)
    simpa using this
  have hm : mlBasicString (writeTomlValue s (some .mlBasic) (valueMetrics s).newline ++ rest) = .ok s rest := by
    simp only [writeTomlValue, delimiter, isMl, isEscaped, Bool.and_true]
    by_cases hn : (valueMetrics s).newline = true
    · simp [hn, mlBasicString, newline?]
      exact hbody _ (by simp only [List.length_append, List.length_cons]; omega)
    · have hn' : (valueMetrics s).newline = false := by simpa using hn
      unfold valueMetrics at hn'
      rw [f2] at hn'
      have hhead : s.head? ≠ some 0x0A := by
        cases s with
        | nil => simp
        | cons b t => simp at hn' ⊢; exact hn'.1
      have hnl := escBody_ml_no_newline s rest hhead
      simp [hn, mlBasicString, hnl]
      exact hbody _ (by simp only [List.length_append, List.length_cons]; omega)
  unfold string
  rw [hm]

/-- **Multi-line literal strings**: whenever the style is offered. -/
theorem T10_ml_literal (s rest : Bytes) (e : Encoding) (h : vAsMlLiteral (valueMetrics s) = some e)
    (hr : rest.head? ≠ some 0x27) :
    string (writeTomlValue s (some e) (valueMetrics s).newline ++ rest) = .ok s rest := by
  obtain ⟨he, hm⟩ := vAsMlLiteral_some _ _ h
  subst he
  obtain ⟨f1, f2, _, f4, _⟩ := vm_fold s ({}, 0, 0)
  unfold valueMetrics at hm
  have hnt : noTriple 0x27 0 s = true := f4 hm.2
  rw [f1] at hm
  have hall : s.all mllOK = true := by
    have h1 := hm.1
    simp at h1
    simp only [List.all_eq_true]
    intro b hb
    exact mll_ok_of_no_esc b (h1 b hb)
  have hbody : ∀ fuel, (s ++ 0x27 :: 0x27 :: 0x27 :: rest).length < fuel →
      mlLiteralBody fuel (s ++ 0x27 :: 0x27 :: 0x27 :: rest) [] = .ok s rest := by
    intro fuel hf
    have := mll_body_rt s 0 fuel rest [] (by omega) hr hnt hall (by simpa using hf)
    simpa using this
  have hml : mlLiteralString (writeTomlValue s (some .mlLiteral) (valueMetrics s).newline ++ rest) = .ok s rest := by
    simp only [writeTomlValue, delimiter, isMl, isEscaped, Bool.and_true]
    by_cases hn : (valueMetrics s).newline = true
    · simp [hn, mlLiteralString, newline?]
      exact hbody _ (by simp only [List.length_append, List.length_cons]; omega)
    · have hn' : (valueMetrics s).newline = false := by simpa using hn
      unfold valueMetrics at hn'
      rw [f2] at hn'
      have hnl : newline? (s ++ 0x27 :: 0x27 :: 0x27 :: rest) = none := by
        cases s with
        | nil => simp [newline?]
        | cons b t =>
          simp at hn'
          simp only [List.all_cons, Bool.and_eq_true] at hall
          have hA : b ≠ 0x0A := hn'.1
          have hD : b ≠ 0x0D := by intro e; subst e; simp [mllOK, isMllChar, isLiteralChar, inR, isNonAscii] at hall
          simp only [List.cons_append]
          unfold newline?
          split
          · rename_i r h; injection h with h _; exact absurd h hA
          · rename_i r h; injection h with h _; exact absurd h hD
          · rfl
      simp [hn, mlLiteralString, hnl]
      exact hbody _ (by simp only [List.length_append, List.length_cons]; omega)
  unfold string
  have hb1 : mlBasicString (writeTomlValue s (some .mlLiteral) (valueMetrics s).newline ++ rest) = .bt := by
    simp [writeTomlValue, delimiter, mlBasicString]
  have hb2 : basicString (writeTomlValue s (some .mlLiteral) (valueMetrics s).newline ++ rest) = .bt := by
    simp [writeTomlValue, delimiter, basicString]
  rw [hb1, hb2, hml]

/-- **Every value style the builder offers** parses back to exactly the string. -/
theorem T10_value (st : VStyle) (s tok rest : Bytes) (h : writeValue st s = some tok) (hr : ValueFollow rest) :
    string (tok ++ rest) = .ok s rest := by
  unfold writeValue at h
  simp only [Option.map_eq_some_iff] at h
  obtain ⟨e, he, htok⟩ := h
  subst htok
  have basic := T10_basic s rest (valueMetrics s).newline hr.1
  have mlb := T10_ml_basic s rest hr.1
  cases st with
  | literal => exact T10_literal s rest e he hr.2
  | mlLiteral => exact T10_ml_literal s rest e he hr.2
  | basicPretty => rw [vAsBasicPretty_some _ _ he]; exact basic
  | mlBasicPretty => rw [vAsMlBasicPretty_some _ _ he]; exact mlb
  | basic => simp [valueEncoding] at he; subst he; exact basic
  | mlBasic => simp [valueEncoding] at he; subst he; exact mlb
  | default =>
    simp only [valueEncoding, Option.some.injEq] at he
    subst he
    unfold vAsDefault
    cases h1 : vAsBasicPretty (valueMetrics s) with
    | some e1 => simp [Option.orElse]; rw [vAsBasicPretty_some _ _ h1]; exact basic
    | none =>
      cases h2 : vAsLiteral (valueMetrics s) with
      | some e2 => simp [Option.orElse]; exact T10_literal s rest e2 h2 hr.2
      | none =>
        cases h3 : vAsMlBasicPretty (valueMetrics s) with
        | some e3 => simp [Option.orElse]; rw [vAsMlBasicPretty_some _ _ h3]; exact mlb
        | none =>
          cases h4 : vAsMlLiteral (valueMetrics s) with
          | some e4 => simp [Option.orElse]; exact T10_ml_literal s rest e4 h4 hr.2
          | none =>
            simp [Option.orElse]
            split
            · exact mlb
            · exact basic

/-- a default value style exists for every string (and, by `T10_value`, it round-trips) -/
theorem T10_value_default_total (s : Bytes) : (writeValue .default s).isSome = true := by
  simp [writeValue, valueEncoding]

/-- **Every key style the builder offers** parses back to exactly the string. -/
theorem T10_key (st : KStyle) (s tok rest : Bytes) (h : writeKey st s = some tok) (hr : KeyFollow rest) :
    simpleKey (tok ++ rest) = .ok s rest := by
  unfold writeKey at h
  simp only [Option.map_eq_some_iff] at h
  obtain ⟨e, he, htok⟩ := h
  subst htok
  obtain ⟨k1, k2, k3⟩ := km_fold s { unquoted := !s.isEmpty }
  have basic : simpleKey (writeTomlValue s (some .basic) false ++ rest) = .ok s rest := by
    have := basic_body_rt s 0 ((escBody false 0 s ++ 0x22 :: rest).length + 1) rest [] (by omega)
    simp [writeTomlValue, delimiter, isMl, isEscaped, simpleKey, basicString]
    simpa using this
  have literal : ∀ e', kAsLiteral (keyMetrics s) = some e' → simpleKey (writeTomlValue s e' false ++ rest) = .ok s rest := by
    intro e' h'
    obtain ⟨he', hm⟩ := kAsLiteral_some _ _ h'
    subst he'
    unfold keyMetrics at hm
    rw [k2, k3] at hm
    have hall : s.all isLiteralChar = true := by
      simp at hm
      simp only [List.all_eq_true]
      intro b hb
      exact key_literal_ok b (hm.1 b hb) (hm.2 b hb)
    simp [writeTomlValue, delimiter, isMl, isEscaped, simpleKey]
    exact literal_rt s rest hall
  have bare : ∀ e', kAsUnquoted (keyMetrics s) = some e' → simpleKey (writeTomlValue s e' false ++ rest) = .ok s rest := by
    intro e' h'
    obtain ⟨he', hm⟩ := kAsUnquoted_some _ _ h'
    subst he'
    unfold keyMetrics at hm
    rw [k1] at hm
    simp only [Bool.and_eq_true] at hm
    have hall : s.all isUnquotedChar = true := by
      have := hm.2
      simp only [List.all_eq_true] at this ⊢
      intro b hb; rw [← bare_is_unquoted]; exact this b hb
    have htake := takeUnquoted_all s rest hall hr
    cases s with
    | nil => simp at hm
    | cons b t =>
      simp only [List.all_cons, Bool.and_eq_true] at hall
      obtain ⟨n1, n2⟩ := unquoted_not_delim b hall.1
      simp [writeTomlValue, delimiter, isMl, isEscaped, simpleKey, n1, n2, unquotedKey]
      simp at htake
      rw [htake]
  cases st with
  | basic => simp [keyEncoding] at he; subst he; exact basic
  | basicPretty => rw [kAsBasicPretty_some _ _ he]; exact basic
  | literal => exact literal e he
  | unquoted => exact bare e he
  | default =>
    simp only [keyEncoding, Option.some.injEq] at he
    subst he
    unfold kAsDefault
    cases h1 : kAsUnquoted (keyMetrics s) with
    | some e1 => simp [Option.orElse]; exact bare e1 h1
    | none =>
      cases h2 : kAsBasicPretty (keyMetrics s) with
      | some e2 => simp [Option.orElse]; rw [kAsBasicPretty_some _ _ h2]; exact basic
      | none =>
        cases h3 : kAsLiteral (keyMetrics s) with
        | some e3 => simp [Option.orElse]; exact literal e3 h3
        | none => simp [Option.orElse]; exact basic

theorem T10_key_default_total (s : Bytes) : (writeKey .default s).isSome = true := by
  simp [writeKey, keyEncoding]

/-! ### non-vacuity: concrete strings meet the hypotheses and exercise every style -/
example : writeValue .mlLiteral [0x27, 0x27, 0x0A, 0x5C] = some [0x27,0x27,0x27,0x0A,0x27,0x27,0x0A,0x5C,0x27,0x27,0x27] := by decide
example : writeValue .literal [0x61, 0x22, 0x5C] = some [0x27, 0x61, 0x22, 0x5C, 0x27] := by decide
example : writeValue .literal [0x27] = none := by decide
example : writeValue .mlBasic [0x22, 0x22, 0x22, 0x01] =
    some [0x22,0x22,0x22, 0x22,0x22,0x5C,0x22, 0x5C,0x75,0x30,0x30,0x30,0x31, 0x22,0x22,0x22] := by decide
example : writeKey .unquoted [0x61, 0x2D] = some [0x61, 0x2D] := by decide
example : writeKey .default [] = some [0x22, 0x22] := by decide
example : ValueFollow [0x0A] ∧ KeyFollow [0x20, 0x3D] := by
  refine ⟨⟨by decide, by decide⟩, ?_⟩
  intro x r h; injection h with h _; subst h; decide

end TomlVerif.Props.C10
