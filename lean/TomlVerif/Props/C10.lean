import TomlVerif.Model.Write
import TomlVerif.Model.Key
namespace TomlVerif.Props.C10
theorem placeholder : True := trivial
end TomlVerif.Props.C10
