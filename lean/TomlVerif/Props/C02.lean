import TomlVerif.Model.Doc
import TomlVerif.Props.C10
/-! # C02 — decoded data is exactly what the document says -/
namespace TomlVerif.Props.C02
open TomlVerif TomlVerif.Spec TomlVerif.Model TomlVerif.Model.Strings TomlVerif.Model.Write

/-- string values: every spelling the writer can produce decodes to exactly the string (from C10) -/
theorem T02_string_written (st : VStyle) (s tok rest : Bytes) (h : writeValue st s = some tok)
    (hr : TomlVerif.Props.C10.ValueFollow rest) : Strings.string (tok ++ rest) = .ok s rest :=
  TomlVerif.Props.C10.T10_value st s tok rest h hr

end TomlVerif.Props.C02
