import TomlVerif.Lemmas.TomlValue17
/-! C17 — "the output lists each table's own values before its sub-tables and arrays of tables", whatever
order the map yields its keys in. Stated on the statement list `emitDoc` that `toText` / `toTextTable`
render (Model/TomlValue.lean); `Block` is defined in Lemmas/TomlValue17.lean. -/
namespace TomlVerif.Props.C17
open TomlVerif TomlVerif.Model TomlVerif.Model.TomlValue TomlVerif.Lemmas.TomlValue17

/-- Every entry of a table falls in exactly one of the three loops of `impl Serialize for Value`. -/
theorem T17_passes_partition (v : TV) :
    (pass1 v = true ∧ pass2 v = false ∧ pass3 v = false) ∨
    (pass1 v = false ∧ pass2 v = true ∧ pass3 v = false) ∨
    (pass1 v = false ∧ pass2 v = false ∧ pass3 v = true) :=
  pass_exactly_one v

/-- The three loops hand every entry to the serializer exactly once: their order is a permutation of the map's. -/
theorem T17_serOrder_perm (items : List (Bytes × TV)) : (serOrder items).Perm items :=
  filter3_perm (fun e : Bytes × TV => pass1 e.2) (fun e => pass2 e.2) (fun e => pass3 e.2) (fun e => pass_exactly_one e.2) items

/-- In that order no table precedes a non-table. -/
theorem T17_tables_last (items : List (Bytes × TV)) :
    ∃ a b, serOrder items = a ++ b ∧ (∀ e ∈ a, e.2.isTable = false) ∧ (∀ e ∈ b, e.2.isTable = true) := by
  refine ⟨items.filter (fun e => pass1 e.2) ++ items.filter (fun e => pass2 e.2), items.filter (fun e => pass3 e.2), rfl, ?_, ?_⟩
  · intro e he
    rcases List.mem_append.mp he with h | h
    · have h1 : pass1 e.2 = true := by simpa using (List.mem_filter.mp h).2
      rcases pass_exactly_one e.2 with ⟨_, _, h3⟩ | ⟨c, _, _⟩ | ⟨c, _, _⟩
      · exact h3
      · simp [h1] at c
      · simp [h1] at c
    · have h2 : pass2 e.2 = true := by simpa using (List.mem_filter.mp h).2
      rcases pass_exactly_one e.2 with ⟨_, c, _⟩ | ⟨_, _, h3⟩ | ⟨_, c, _⟩
      · simp [h2] at c
      · exact h3
      · simp [h2] at c
  · intro e he
    simpa [pass3] using (List.mem_filter.mp he).2

/-- T17_order. For EVERY list of root entries — any key order, scalars, arrays, arrays of tables and tables
interleaved arbitrarily — the printed statement list is a `Block`: (no root header,) the root's own key/value
lines, then the blocks of its sub-tables and arrays of tables, each of which begins with its own header and
is again such a block, at every depth. No key/value line of a table follows a header of anything below it. -/
theorem T17_order (items : List (Bytes × TV)) : Block (emitDoc items) :=
  tableStmts_block [] false items (emitSubs_blocks [] items)

/-- the same for every table below the root, whether printed as `[path]` or as an element `[[path]]` -/
theorem T17_order_nested (path : List Bytes) (hp : path ≠ []) (isAot : Bool) (items : List (Bytes × TV)) :
    Block (tableStmts path isAot items (emitSubs path items)) ∧
    headerFirst (tableStmts path isAot items (emitSubs path items)) :=
  ⟨tableStmts_block path isAot items (emitSubs_blocks path items),
   tableStmts_headerFirst path hp isAot items (emitSubs_blocks path items)⟩

/-- "every permutation of each table's entries": the order theorem does not depend on the three passes -/
theorem T17_order_perm (items items' : List (Bytes × TV)) (_h : items'.Perm items) : Block (emitDoc items') :=
  T17_order items'

/-- the root's own values are exactly the entries that stay values, in map order, and they come first -/
theorem T17_root_values_first (items : List (Bytes × TV)) :
    emitDoc items = ownKvs items ++ emitSubs [] items := by
  simp [emitDoc, tableStmts, headerOf]

/-- non-vacuity: `{ t = { x = 1 }, s = 2, a = [{ y = 3 }] }` in this (insertion) order prints `s` first,
then `[t]`, `x`, then `[[a]]`, `y` -/
example :
    emitDoc [([116], .tbl [([120], .int 1)]), ([115], .int 2), ([97], .arr [.tbl [([121], .int 3)]])] =
      [.kv [115] (.int 2), .header [[116]], .kv [120] (.int 1), .aotHeader [[97]], .kv [121] (.int 3)] := by
  rfl

example : (serOrder [([116], .tbl []), ([115], .int 2), ([97], .arr [.tbl []])]).map (·.1) = [[115], [97], [116]] := by
  rfl

end TomlVerif.Props.C17
