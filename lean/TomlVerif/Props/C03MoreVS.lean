import TomlVerif.Lemmas.Tiling03MoreVSValue
/-! # C03, weaker clause at VALUE level, for ALL accepted values

A parsed value, printed (`Value::to_string` after `despan`: `printValue`), is valid TOML again and decodes to
the same data.  Byte-exact print-back is false in general (`{a .b=1,a.c=2}` prints `{a .b=1,a .c=2}`,
`{a.b=1,c=2,a.d=3}` prints `{a.b=1,a.d=3,c=2}`; CRs of decor are dropped), so the statement is about the
decoded data (`eraseVal`), through the grammar trees of C01 (`QVal`, `Props/C01Sound.lean`):

* `cvalue_renderable` (Lemmas/Tiling03MoreVSValue.lean): the printed text of a parsed value is the rendering
  of a well-formed grammar tree denoting the erased value;
* `tableFromPairs_rebuild` (Lemmas/Tiling03MoreVSRebuild.lean): the regrouped, flattened entries of an inline
  table are assembled by `table_from_pairs` into the same item list;
* completeness of the semantic parser (`T01_parseValue_completeQ`) and the erasure simulation
  (`parseCstValue_erase`) conclude. -/
namespace TomlVerif.Props.C03More
open TomlVerif TomlVerif.Spec TomlVerif.Model TomlVerif.Model.Strings TomlVerif.Model.Value
open TomlVerif.Model.Cst TomlVerif.Model.Encode TomlVerif.Lemmas.Cst03 TomlVerif.Lemmas.Tiling03More
open TomlVerif.Spec.AstValue TomlVerif.Spec.AstValueQ TomlVerif.Lemmas.ValEq
open TomlVerif.Lemmas.Tiling03More.VS

/-- the printed text of an accepted value is the rendering of a well-formed grammar tree below the
    nesting limit that denotes the same data -/
theorem T03_value_print_grammar (s : Bytes) (v : CVal) (h : parseCstValue s = some v) :
    ∃ q : QVal, WFQ q ∧ renderQ q = printValue s v ∧ semQ q = eraseVal v ∧ depthQ q < LIMIT := by
  unfold parseCstValue at h
  split at h
  · rename_i v' hv
    injection h with h; subst h
    obtain ⟨q, h1, h2, h3, h4⟩ := cvalue_renderable s _ 0 s [] _ (List.suffix_refl s) hv
    refine ⟨q, h1, h2, h3, ?_⟩
    rcases h4 with h4 | h4
    · rw [h4]; decide
    · omega
  · cases h

/-- **semantic form**: the semantic parser reads the printed text as the erased value -/
theorem T03_value_same_data_sem (s : Bytes) (v : CVal) (h : parseCstValue s = some v) :
    Value.parseValue (printValue s v) = some (eraseVal v) := by
  obtain ⟨q, h1, h2, h3, h4⟩ := T03_value_print_grammar s v h
  have := TomlVerif.Props.C01Sound.T01_parseValue_completeQ q h1 h4
  rw [h2, h3] at this
  exact this

/-- … which is what the semantic parser reads from the source -/
theorem T03_value_same_data_src (s : Bytes) (v : CVal) (h : parseCstValue s = some v) :
    Value.parseValue (printValue s v) = Value.parseValue s := by
  rw [T03_value_same_data_sem s v h, ← parseCstValue_erase s, h]
  rfl

/-- **C03, weaker clause, value level**: every accepted value, printed, is accepted again and decodes
    to the same data -/
theorem T03_value_same_data (s : Bytes) (v : CVal) (h : parseCstValue s = some v) :
    ∃ v', parseCstValue (printValue s v) = some v' ∧ eraseVal v' = eraseVal v := by
  have h1 := T03_value_same_data_sem s v h
  rw [← parseCstValue_erase] at h1
  cases hp : parseCstValue (printValue s v) with
  | none => rw [hp] at h1; cases h1
  | some v' =>
    rw [hp] at h1
    simp only [Option.map_some] at h1
    injection h1 with h1
    exact ⟨v', rfl, h1⟩

/-- the full statement, as a proposition (proved: `T03_value_same_data`) -/
def T03_value_same_data_statement' : Prop :=
  ∀ (s : Bytes) (v : CVal), parseCstValue s = some v →
    ∃ v', parseCstValue (printValue s v) = some v' ∧ eraseVal v' = eraseVal v

theorem T03_value_same_data_holds : T03_value_same_data_statement' := T03_value_same_data

/-! ## non-vacuity: inputs on which byte-exact print-back FAILS meet the hypothesis -/

/-- a respelled path key (`a .b` / `a.c`): the print is `{a .b=1,a .c=2}` -/
def exRespell : Bytes := strBytes "{a .b=1,a.c=2}"
/-- interleaved groups: the print regroups to `{a.b=1,a.d=3,c=2}` -/
def exRegroup : Bytes := strBytes "{a.b=1,c=2,a.d=3}"
/-- CR LF in array trivia, a comment, a quoted key, nested containers -/
def exCr : Bytes := strBytes "[1,\r\n # c\r\n {\"k\" . 'l' = [ ], m = {}} , ]"

example : (parseCstValue exRespell).isSome = true := by decide +kernel
example : (parseCstValue exRegroup).isSome = true := by decide +kernel
example : (parseCstValue exCr).isSome = true := by decide +kernel

/-- the printed texts differ from the sources … -/
example : ((parseCstValue exRespell).map (printValue exRespell)) = some (strBytes "{a .b=1,a .c=2}") := by decide +kernel
example : ((parseCstValue exRegroup).map (printValue exRegroup)) = some (strBytes "{a.b=1,a.d=3,c=2}") := by decide +kernel
example : ((parseCstValue exCr).map (printValue exCr)) = some (strBytes "[1,\n # c\n {\"k\" . 'l' = [ ], m = {}} , ]") := by
  decide +kernel

/-- … and the theorem applies -/
example : ∃ v, parseCstValue exRegroup = some v ∧ Value.parseValue (printValue exRegroup v) = Value.parseValue exRegroup := by
  cases h : parseCstValue exRegroup with
  | none =>
    have : (parseCstValue exRegroup).isSome = true := by decide +kernel
    rw [h] at this; cases this
  | some v => exact ⟨v, rfl, T03_value_same_data_src _ v h⟩

/-- hypotheses of `cvalue_renderable` (a value inside a longer input, at depth 3) -/
example : (cvalue (strBytes "x = {a.b=1}\n").length 40 3 (strBytes "{a.b=1}\n")).isOk = true := by decide +kernel
example : strBytes "{a.b=1}\n" <:+ strBytes "x = {a.b=1}\n" := ⟨strBytes "x = ", by decide +kernel⟩

/-- hypotheses of `ckeyPath_GK` / `ckeyPath_qkeys` -/
example : (ckeyPath (strBytes " a . \"b\"\t= 1").length (strBytes " a . \"b\"\t= 1")).isOk = true := by decide +kernel

#print axioms T03_value_same_data
#print axioms T03_value_same_data_sem
#print axioms T03_value_same_data_src
#print axioms TomlVerif.Lemmas.Tiling03More.VS.cvalue_renderable
#print axioms TomlVerif.Lemmas.Tiling03More.VS.tableFromPairs_rebuild
#print axioms TomlVerif.Lemmas.Tiling03More.VS.ckeyPath_qkeys

end TomlVerif.Props.C03More
