import TomlVerif.Props.C03Nest
import TomlVerif.Lemmas.Tiling03MoreRun
import TomlVerif.Lemmas.Tiling03MoreRel
import TomlVerif.Lemmas.Tiling03MoreNorm
import TomlVerif.Lemmas.Tiling03MoreEraseDoc
import TomlVerif.Spec.OrderedPlain
import TomlVerif.Spec.Encode06
/-! C03, continued — closing gaps of `Props/C03Nest.lean`.

    1. `preorderDoc d` is no longer a hypothesis: it FOLLOWS from the checked run
       (`T03_preorder_of_run`), so the stage theorems have the single source-side hypothesis
       `nestRun dot s = true` (`T03_doc_tiling_source` and the normalising variants).
    3. `T03_same_data_statement` (same tree INCLUDING the `implicit`/`dotted` flags and the
       positions) is FALSE: `[a.b.d]`, `[a]`, `b.c.e = 3` — a dotted key below a table that a
       header made implicitly — is printed with an extra header `[a.b]`, which makes `a.b` explicit
       (`T03_same_data_counterexample`).  The corrected statement forgets flags and positions
       (`toPlain`, `Spec/OrderedPlain.lean`; entry order is kept): `T03_same_plain_statement`.
    4. comments: in the class every CR-free piece of the source — every comment — occurs in the
       printed text (`T03_comments_kept_source`). -/
namespace TomlVerif.Props.C03More
open TomlVerif TomlVerif.Model TomlVerif.Model.Cst TomlVerif.Model.Encode
open TomlVerif.Lemmas.Cst03 TomlVerif.Lemmas.Tiling03 TomlVerif.Lemmas.Tiling03Hdr TomlVerif.Lemmas.Tiling03Nest
open TomlVerif.Lemmas.Tiling03More
open TomlVerif.Props.C03 TomlVerif.Props.C03Doc TomlVerif.Props.C03Hdr TomlVerif.Props.C03Nest
open TomlVerif.Spec.OrderedPlain

/-! ### 1. the tree side of the class follows from the source side -/

/-- T03_preorder_of_run: the tree a checked run builds has no root decor, its tables are met by
    `visit_nested_tables` in position order, every header has an explicit prefix decor -/
theorem T03_preorder_of_run (dot : Bool) (s : Bytes) (d : CDoc) (h : parseCst s = some d)
    (hrun : nestRun dot s = true) : preorderDoc d = true :=
  preorder_of_run dot s d h hrun

/-- for an accepted source the classes are their source sides -/
theorem dottedDoc_iff_run (s : Bytes) (d : CDoc) (h : parseCst s = some d) :
    dottedDoc s d = true ↔ nestRun true s = true := by
  rw [dottedDoc_iff]
  exact ⟨fun h' => h'.1, fun h' => ⟨h', T03_preorder_of_run true s d h h'⟩⟩

theorem nestedDoc_iff_run (s : Bytes) (d : CDoc) (h : parseCst s = some d) :
    nestedDoc s d = true ↔ nestRun false s = true := by
  rw [nestedDoc_iff]
  exact ⟨fun h' => h'.1, fun h' => ⟨h', T03_preorder_of_run false s d h h'⟩⟩

/-- T03_doc_tiling_source: a source whose checked run passes (adjacent dotted keys, every
    repeated key segment spelled like its first occurrence and naming the last item of its parent,
    simple values) without BOM and CR, ending in a newline, prints back byte for byte -/
theorem T03_doc_tiling_source (s : Bytes) (d : CDoc) (h : parseCst s = some d) (hrun : nestRun true s = true)
    (hbom : Doc.stripBom s = s) (hcr : ∀ b ∈ s, b ≠ 0x0D) (hnl : s.getLast? = some 0x0A ∨ s = []) :
    printDoc s d = s :=
  T03_doc_tiling_run true s d h hrun (T03_preorder_of_run true s d h hrun) hbom hcr hnl

/-- tiling proper, any source in the class -/
theorem T03_doc_verbatim_source (s : Bytes) (d : CDoc) (h : parseCst s = some d) (hrun : nestRun true s = true) :
    ∃ out eol, verbatimDoc s d = out ++ eol ∧ EolRel out (Doc.stripBom s) ∧ EolOk eol (Doc.stripBom s) :=
  T03_doc_verbatim_run true s d h hrun (T03_preorder_of_run true s d h hrun)

/-- the CRLF normalisation, any source in the class -/
theorem T03_doc_crlf_source (s : Bytes) (d : CDoc) (h : parseCst s = some d) (hrun : nestRun true s = true) :
    ∃ eol, DropCr (printDoc s d) (Doc.stripBom s ++ eol) ∧
      stripCr (printDoc s d) = stripCr (Doc.stripBom s) ++ eol ∧ EolOk eol (Doc.stripBom s) :=
  T03_doc_crlf_run true s d h hrun (T03_preorder_of_run true s d h hrun)

/-- CR-free sources in the class: the source without its BOM plus the final LF -/
theorem T03_doc_norm_source (s : Bytes) (d : CDoc) (h : parseCst s = some d) (hrun : nestRun true s = true)
    (hcr : ∀ b ∈ s, b ≠ 0x0D) : ∃ eol, printDoc s d = Doc.stripBom s ++ eol ∧ EolOk eol (Doc.stripBom s) :=
  T03_doc_norm_run true s d h hrun (T03_preorder_of_run true s d h hrun) hcr

theorem T03_print_fixpoint_source (s : Bytes) (d : CDoc) (h : parseCst s = some d) (hrun : nestRun true s = true)
    (hbom : Doc.stripBom s = s) (hcr : ∀ b ∈ s, b ≠ 0x0D) (hnl : s.getLast? = some 0x0A ∨ s = []) :
    ∃ d', parseCst (printDoc s d) = some d' ∧ printDoc (printDoc s d) d' = printDoc s d := by
  have hp := T03_doc_tiling_source s d h hrun hbom hcr hnl
  exact ⟨d, by rw [hp]; exact h, by rw [hp]; exact hp⟩

theorem T03_same_data_source (s : Bytes) (d : CDoc) (h : parseCst s = some d) (hrun : nestRun true s = true)
    (hbom : Doc.stripBom s = s) (hcr : ∀ b ∈ s, b ≠ 0x0D) (hnl : s.getLast? = some 0x0A ∨ s = []) :
    ∃ d', parseCst (printDoc s d) = some d' ∧ eraseTbl d'.root = eraseTbl d.root := by
  rw [T03_doc_tiling_source s d h hrun hbom hcr hnl]
  exact ⟨d, h, rfl⟩

/-- non-vacuity: the `Cargo.toml`-like example, the nested example and the CR LF example of
    `C03Nest` pass the source-side check alone -/
example : nestRun true exCargo = true ∧ (parseCst exCargo).isSome = true ∧
    Doc.stripBom exCargo = exCargo ∧ (exCargo.all fun b => b != 0x0D) = true ∧
    exCargo.getLast? = some 0x0A := by decide +kernel

example : nestRun false exNested = true ∧ (parseCst exNested).isSome = true := by decide +kernel

example : nestRun true exNestedCrlf = true ∧ (parseCst exNestedCrlf).isSome = true := by decide +kernel

/-- the converse fails: `preorderDoc` does not imply the run check (a respelled `[[ c ]]`) -/
example : nestRun true (strBytes "[[c]]\n[[ c ]]\n") = false ∧
    (parseCst (strBytes "[[c]]\n[[ c ]]\n")).map preorderDoc = some true := by decide +kernel

/-! ### 4. comments are kept -/

/-- T03_comments_kept_source: in the class, every piece of the source (after the BOM) that
    contains no CR — in particular every comment, from its `#` to the end of its line — occurs in
    the printed text, whatever the line ends, BOM or final newline of the source -/
theorem T03_comments_kept_source (s : Bytes) (d : CDoc) (h : parseCst s = some d) (hrun : nestRun true s = true)
    (c : Bytes) (hc : c <:+: Doc.stripBom s) (hcr : ∀ b ∈ c, b ≠ 0x0D) : c <:+: printDoc s d := by
  obtain ⟨eol, hd, _, _⟩ := T03_doc_crlf_source s d h hrun
  exact DropCr.infix_noCr hd (hc.trans (List.infix_append' [] (Doc.stripBom s) eol |> fun h => by simpa using h)) hcr

/-- with CR LF line ends: the two comments survive, their CRs do not belong to them -/
example : (parseCst exNestedCrlf).isSome = true ∧ nestRun true exNestedCrlf = true ∧
    strBytes "# c" <:+: Doc.stripBom exNestedCrlf ∧
    (parseCst exNestedCrlf).map (fun d => decide (strBytes "# c" <:+: printDoc exNestedCrlf d)) = some true := by
  decide +kernel

/-- outside the class the statement "every CR-free piece is kept" fails (a respelled key loses
    its white space), so the general clause must speak about comments proper: texts from a `#`
    outside strings to the end of the line.  They live in decor pieces that belong to NEW entries
    (key prefix, value suffix, header decor, array decor, document trailing), never in the key
    decor a respelling drops. -/
example : (parseCst (strBytes "[a]\n[ a .d]\n")).map
    (fun d => decide (strBytes "[ a ." <:+: printDoc (strBytes "[a]\n[ a .d]\n") d)) = some false := by
  decide +kernel

/-! ### 3. same data -/

/-- T03_same_data_statement is FALSE.  `[a.b.d]` makes `a.b` implicitly; `[a]` followed by the
    dotted key `b.c.e = 3` adds a dotted-key table `c` below the implicit `a.b`.  The printer
    cannot write `b.c.e = 3` under `[a]` (`a.b` is not a dotted-key table), so it writes a header
    `[a.b]` — after which `a.b` is an explicit table with a position of its own. -/
def exImplicitDotted : Bytes := strBytes "[a.b.d]\n[a]\nb.c.e = 3\n"

/-- the `implicit` flag of the table `a.b` -/
def probeAB (t : Tbl) : Option Bool :=
  match alookup (strBytes "a") t.items with
  | some (.table a) =>
    (match alookup (strBytes "b") a.items with
     | some (.table b) => some b.implicit
     | _ => none)
  | _ => none

theorem T03_same_data_counterexample : ¬ T03_same_data_statement := by
  intro h
  have h1 : (parseCst exImplicitDotted).map (fun d => probeAB (eraseTbl d.root)) = some (some true) := by
    decide +kernel
  have h2 : (parseCst exImplicitDotted).bind (fun d =>
      (parseCst (printDoc exImplicitDotted d)).map fun d' => probeAB (eraseTbl d'.root)) = some (some false) := by
    decide +kernel
  cases hd : parseCst exImplicitDotted with
  | none => rw [hd] at h1; cases h1
  | some d =>
    obtain ⟨d', e1, e2⟩ := h exImplicitDotted d hd
    rw [hd] at h1 h2
    simp only [Option.map_some, Option.bind_some, e1, Option.some.injEq] at h1 h2
    rw [e2, h1] at h2
    cases h2

/-- the printed text of the counterexample; it is a fixed point, and the plain data agree -/
example : (parseCst exImplicitDotted).map (printDoc exImplicitDotted)
    = some (strBytes "[a.b.d]\n[a]\n\n[a.b]\nc.e = 3\n") := by decide +kernel

/-- the plain data (flags and positions forgotten) agree, in the same entry order -/
example : (parseCst exImplicitDotted).bind (fun d =>
      (parseCst (printDoc exImplicitDotted d)).map fun d' =>
        probeAB (eraseTbl d'.root) != probeAB (eraseTbl d.root)) = some true := by decide +kernel

/-- keeping the ORDER of the entries is still too much: with one more key/value after the dotted
    key, `[a]` holds `b` before `k` in the source tree, `k` before `b` after re-parsing the print
    (`start_table` takes the implicit `a.b` out of `a` and `finalize_table` appends it again) -/
def exImplicitDotted2 : Bytes := strBytes "[a.b.d]\n[a]\nb.c.e = 3\nk = 1\n"

def T03_same_plain_ordered_statement : Prop :=
  ∀ (s : Bytes) (d : CDoc), parseCst s = some d →
    ∃ d', parseCst (printDoc s d) = some d' ∧ toPlain (eraseTbl d'.root) = toPlain (eraseTbl d.root)

/-- the keys of the table `a`, in order -/
def probeKeysA : Plain → Option (List Bytes)
  | .tbl es =>
    (match alookup (strBytes "a") es with
     | some (.tbl fs) => some (fs.map (·.1))
     | _ => none)
  | _ => none

theorem T03_same_plain_ordered_counterexample : ¬ T03_same_plain_ordered_statement := by
  intro h
  have h1 : (parseCst exImplicitDotted2).map (fun d => probeKeysA (toPlain (eraseTbl d.root)))
      = some (some [strBytes "b", strBytes "k"]) := by decide +kernel
  have h2 : (parseCst exImplicitDotted2).bind (fun d =>
      (parseCst (printDoc exImplicitDotted2 d)).map fun d' => probeKeysA (toPlain (eraseTbl d'.root)))
      = some (some [strBytes "k", strBytes "b"]) := by decide +kernel
  cases hd : parseCst exImplicitDotted2 with
  | none => rw [hd] at h1; cases h1
  | some d =>
    obtain ⟨d', e1, e2⟩ := h exImplicitDotted2 d hd
    rw [hd] at h1 h2
    simp only [Option.map_some, Option.bind_some, e1, Option.some.injEq] at h1 h2
    rw [e2, h1] at h2
    have : strBytes "b" = strBytes "k" := by
      injection h2 with h2
      exact (List.cons.inj h2).1
    exact absurd this (by decide +kernel)

example : (parseCst exImplicitDotted2).map (printDoc exImplicitDotted2)
    = some (strBytes "[a.b.d]\n[a]\nk = 1\n\n[a.b]\nc.e = 3\n") := by decide +kernel

/-- T03_same_data, corrected statement — the general form, NOT PROVED for every document (no
    counterexample among the 170 000 accepted documents of three enumerations: all sequences of up
    to four lines from pools of headers, array headers, dotted keys, inline tables with dotted
    keys, quoted spellings, CR LF, comments; `scratch/t4.lean`, `t5.lean`): for every accepted
    document the printed text is accepted, it holds the same plain data up to the order of table
    entries (`sortPlain` sorts every table by key), and it is a fixed point of parse-then-print.

    PROVED PARTS (later files): validity + the very same tree (flags and positions) with no
    hypothesis on BOM, CR, final newline, spelling or values for every document whose dotted keys
    are adjacent — `T03_same_data_adjacent` (`Props/C03MoreSem.lean`, class `adjRun`) and its
    extensions (`Props/C03MoreNad.lean`, `Props/C03MoreTko.lean` when present); the fixed point in
    the exact-tiling classes (`T03_print_fixpoint_ord`).  At value level validity + same data hold
    for EVERY value (`T03_value_same_data`, `Props/C03MoreVS.lean`).

    What is left outside the proved classes: a dotted key below a table that a header made
    implicitly (the counterexamples above — there only the plain data up to order agree), and
    the fixed point outside the exact-tiling classes.  For those the converse direction of the
    run invariants is needed: (D) "the statements of the sections of a parsed tree in position
    order rebuild its plain data" — the C09 invariants of `Lemmas/State09.lean`, as C06 did for
    built trees with `expectT` — the text half (C) being available now: printed lines are
    grammatical with the statements of the tree (`kv_line_q`, `hdr_line_q`, `cvalue_renderable`). -/
def T03_same_plain_statement : Prop :=
  ∀ (s : Bytes) (d : CDoc), parseCst s = some d →
    ∃ d', parseCst (printDoc s d) = some d' ∧
      sortPlain (toPlain (eraseTbl d'.root)) = sortPlain (toPlain (eraseTbl d.root)) ∧
      printDoc (printDoc s d) d' = printDoc s d

/-! ### 3a. the format-preserving parser decodes the same data as the semantic one -/

/-- T03_cst_erases_to_doc: `parse_document` keeping the layout, with the layout erased, is
    `parse_document` of the semantic model (`Model/Doc.lean`) — same acceptance, same tree with
    flags and positions.  Every theorem about `Doc.parseDocument` (C01 grammar, C09 definition
    rules) therefore speaks about `parseCst` -/
theorem T03_cst_erases_to_doc (s : Bytes) :
    (parseCst s).map (fun d => eraseTbl d.root) = Doc.parseDocument s :=
  cst_erases_to_doc s

theorem T03_cst_accepts_iff_doc (s : Bytes) : (parseCst s).isSome = (Doc.parseDocument s).isSome :=
  parseCst_isSome s

/-- re-parsing a text with the format-preserving parser and looking at the data is re-parsing it
    with the semantic parser -/
theorem T03_reparse_iff_doc (p : Bytes) (X : Tbl → Prop) :
    (∃ d', parseCst p = some d' ∧ X (eraseTbl d'.root)) ↔ ∃ t', Doc.parseDocument p = some t' ∧ X t' := by
  rw [← T03_cst_erases_to_doc p]
  cases parseCst p with
  | none => simp
  | some d' => simp

example : (parseCst exCargo).map (fun d => Spec.Encode06.beqOptTbl (some (eraseTbl d.root)) (Doc.parseDocument exCargo))
    = some true := by decide +kernel

/-! ### 3b. same data in the class, any BOM, any ending -/

/-- T03_same_data_norm_source: for a CR-free source in the class — with or without BOM, with or
    without final newline — the printed text is accepted and decodes to the very same tree
    (flags and positions included) -/
theorem T03_same_data_norm_source (s : Bytes) (d : CDoc) (h : parseCst s = some d) (hrun : nestRun true s = true)
    (hcr : ∀ b ∈ s, b ≠ 0x0D) :
    ∃ d', parseCst (printDoc s d) = some d' ∧ eraseTbl d'.root = eraseTbl d.root := by
  obtain ⟨eol, hp, heol⟩ := T03_doc_norm_source s d h hrun hcr
  have hdoc : Doc.parseDocument s = some (eraseTbl d.root) := by
    rw [← T03_cst_erases_to_doc s, h]; rfl
  have hpd : Doc.parseDocument (printDoc s d) = some (eraseTbl d.root) := by
    rw [hp]
    rcases heol with e | ⟨e, _⟩
    · subst e; rw [List.append_nil]; exact parseDocument_stripBom s _ hdoc
    · subst e; exact parseDocument_stripBom_lf s _ hdoc
  obtain ⟨t', ht', hx⟩ := (T03_reparse_iff_doc (printDoc s d) (fun t => t = eraseTbl d.root)).2 ⟨_, hpd, rfl⟩
  exact ⟨t', ht', hx⟩

/-- a BOM, no final newline -/
def exBomNoNl : Bytes := [0xEF, 0xBB, 0xBF] ++ strBytes "[a]\nk.x = 1\nk.y = 2\n# c\n[a.b]\n[[a.c]]\n[[a.c]]"

example : (parseCst exBomNoNl).isSome = true ∧ nestRun true exBomNoNl = true ∧
    (exBomNoNl.all fun b => b != 0x0D) = true ∧ Doc.stripBom exBomNoNl ≠ exBomNoNl ∧
    exBomNoNl.getLast? ≠ some 0x0A := by decide +kernel

end TomlVerif.Props.C03More
