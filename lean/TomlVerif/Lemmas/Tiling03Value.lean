import TomlVerif.Lemmas.Tiling03Key
/-! The value-level tiling induction for C03 extended to inline tables with one-segment keys,
    over any decor transformation that fixes the pieces of the input. -/
namespace TomlVerif.Lemmas.Tiling03
open TomlVerif TomlVerif.Spec TomlVerif.Model TomlVerif.Model.Strings TomlVerif.Model.Value
open TomlVerif.Model.Cst TomlVerif.Model.Encode TomlVerif.Lemmas.Suffix03 TomlVerif.Lemmas.Cst03

def Q1 (f : Bytes → Bytes) (inp : Bytes) (fuel : Nat) : Prop :=
  ∀ d s v r, s <:+ inp → cvalue inp.length fuel d s = .ok v r →
    ∃ t, s = t ++ r ∧ t ≠ [] ∧ v.decor = emptyDecor ∧
      (simpleVal v = true → ∀ dp ds, encodeValue f inp v dp ds = t)

def Q2 (f : Bytes → Bytes) (inp : Bytes) (fuel : Nat) : Prop :=
  ∀ d s vs comma tr r, s <:+ inp → carrayValues inp.length fuel d s = .ok (vs, comma, tr) r →
    ∃ t, s = t ++ r ∧
      (simpleVals vs = true →
        encodeElems f inp vs true ++ (if comma && !vs.isEmpty then [0x2C] else []) ++ encRaw f inp tr = t)

def Q3 (f : Bytes → Bytes) (inp : Bytes) (fuel : Nat) : Prop :=
  ∀ d s acc vs r, s <:+ inp → carrayElems inp.length fuel d s acc = .ok vs r →
    ∃ new t, vs = acc ++ new ∧ s = t ++ r ∧ (∀ v ∈ new, ∃ a b, v.decor = Decor.new a b) ∧
      (simpleVals new = true → encodeElems f inp new true = t)

def pairOf (p : List CKey × CKey × CVal) : CKey × CVal := (p.2.1, p.2.2)

def Q4 (f : Bytes → Bytes) (inp : Bytes) (fuel : Nat) : Prop :=
  ∀ d s acc kvs r, s <:+ inp → cinlineKeyvals inp.length fuel d s acc = .ok kvs r →
    ∃ new t, kvs = acc ++ new ∧ s = t ++ r ∧ (new = [] → r = s) ∧ (new ≠ [] → dropWs r = r) ∧
      (∀ p ∈ new, ∃ a b, p.2.2.decor = Decor.new a b) ∧
      ((∀ p ∈ new, p.1 = [] ∧ simpleVal p.2.2 = true) → encPairs f inp (new.map pairOf) true = t)

theorem qstep4 (f : Bytes → Bytes) (inp : Bytes) (hf : FixOn f inp) (fuel : Nat)
    (ih1 : Q1 f inp fuel) (ih4 : Q4 f inp fuel) : Q4 f inp (fuel + 1) := by
  intro d s acc kvs r hinp h
  unfold cinlineKeyvals at h
  split at h
  · cases h
  · injection h with h1 h2; subst h1; subst h2
    exact ⟨[], [], by simp, by simp, fun _ => rfl, fun h => absurd rfl h, (by intro p hp; cases hp), fun _ => by simp [encPairs]⟩
  · rename_i ks r0 hk
    have hk' := (ckeyPath_suffix _ _ _ _ hk).1
    obtain ⟨tk, htk⟩ := hk'
    split at h
    · cases h
    · split at h
      · rename_i r1
        simp only [] at h
        have hr1 : r1 <:+ s := (List.suffix_cons _ _).trans ⟨tk, htk⟩
        obtain ⟨w1, hw1⟩ := Cst03.dropWs_suffix r1
        have hr1' : dropWs r1 <:+ inp := ((Cst03.dropWs_suffix r1).trans hr1).trans hinp
        split at h
        · rename_i v r2 hv
          obtain ⟨tv, htv, _, hdec, hvt⟩ := ih1 _ _ _ _ hr1' hv
          have hr2 : r2 <:+ inp := (htv ▸ suffix_of_append tv r2).trans hr1'
          obtain ⟨w2, hw2⟩ := Cst03.dropWs_suffix r2
          split at h
          · cases h
          · rename_i path key hsl
            generalize hv' : v.setDecor (Decor.new (rawBetween inp.length r1 (dropWs r1)) (rawBetween inp.length r2 (dropWs r2))) = v' at h
            have hd' : ∃ a b, v'.decor = Decor.new a b := ⟨_, _, by rw [← hv', setDecor_decor]⟩
            have hs' : simpleVal v' = simpleVal v := by rw [← hv', simpleVal_setDecor]
            -- the text of this entry
            have htext : s = (tk ++ [0x3D] ++ w1 ++ tv ++ w2) ++ dropWs r2 := by
              rw [← htk]
              simp only [List.append_assoc, List.cons_append, List.nil_append]
              rw [hw2, ← htv, hw1]
            have hentry : path = [] → simpleVal v' = true →
                encodeKeyPath f inp [key] [0x20] [0x20] ++ [0x3D] ++ encodeValue f inp v' [] []
                  = tk ++ [0x3D] ++ w1 ++ tv ++ w2 := by
              intro hp hsv
              subst hp
              obtain ⟨kt, kw2, hks, hsplit, _, _, hrepr, hleaf, hw2t⟩ := ckeyPath_single inp s _ ks key hinp hk hsl
              obtain ⟨kw1, hkw1⟩ := Cst03.dropWs_suffix s
              rw [encodeKeyPath_single f inp key _ _ hleaf, encRaw_fix hf, encRaw_fix hf, hrepr, hw2t,
                rawText_between inp s kw1 (dropWs s) hinp hkw1.symm]
              rw [← hv', encodeValue_setDecor f hf.nil inp v _ _ hdec [] [] [] [], hvt (hs' ▸ hsv) [] [],
                encRaw_fix hf, encRaw_fix hf,
                rawText_between inp r1 w1 (dropWs r1) (hr1.trans hinp) hw1.symm,
                rawText_between inp r2 w2 (dropWs r2) hr2 hw2.symm]
              have : tk = kw1 ++ kt ++ kw2 := by
                have e1 : s = kw1 ++ (kt ++ kw2 ++ (0x3D :: r1)) := by rw [← hsplit, hkw1]
                rw [← htk] at e1
                have := List.append_cancel_right (by simpa [List.append_assoc] using e1 : tk ++ (0x3D :: r1) = (kw1 ++ kt ++ kw2) ++ (0x3D :: r1))
                exact this
              rw [this]
              simp [List.append_assoc]
            have single : ∃ new t, acc ++ [(path, key, v')] = acc ++ new ∧ s = t ++ dropWs r2 ∧
                (new = [] → dropWs r2 = s) ∧ (new ≠ [] → dropWs (dropWs r2) = dropWs r2) ∧
                (∀ p ∈ new, ∃ a b, p.2.2.decor = Decor.new a b) ∧
                ((∀ p ∈ new, p.1 = [] ∧ simpleVal p.2.2 = true) → encPairs f inp (new.map pairOf) true = t) := by
              refine ⟨[(path, key, v')], _, rfl, htext, by simp, fun _ => dropWs_idem r2, ?_, ?_⟩
              · intro p hp; simp at hp; subst hp; exact hd'
              · intro hall
                obtain ⟨hp, hsv⟩ := hall (path, key, v') (by simp)
                simp only [List.map, pairOf, encPairs, if_true, List.nil_append, List.append_nil]
                exact hentry hp hsv
            split at h
            · rename_i r4 heq
              have hr4 : r4 <:+ inp := (List.suffix_cons _ r4).trans (heq ▸ ((Cst03.dropWs_suffix r2).trans hr2))
              split at h
              · rename_i kvs' r5 hrec
                obtain ⟨new', t', hkvs, ht', hnil, hcons, hdecs, htile⟩ := ih4 _ _ _ _ _ hr4 hrec
                split at h
                · rename_i hlen
                  injection h with h1 h2; subst h1; subst h2
                  have : new' = [] := by
                    have hl := congrArg List.length hkvs
                    have : kvs'.length = (acc ++ [(path, key, v')]).length := by simpa using hlen
                    simp at hl this
                    exact List.length_eq_zero_iff.1 (by omega)
                  subst this
                  rw [hkvs, List.append_nil]
                  exact single
                · rename_i hlen
                  injection h with h1 h2; subst h1; subst h2
                  have hne : new' ≠ [] := by
                    intro e; subst e
                    simp at hkvs; subst hkvs; simp at hlen
                  refine ⟨(path, key, v') :: new', (tk ++ [0x3D] ++ w1 ++ tv ++ w2) ++ [0x2C] ++ t', by rw [hkvs]; simp, ?_, by simp, fun _ => hcons hne, ?_, ?_⟩
                  · rw [htext, heq, ht']; simp
                  · intro p hp
                    rcases List.mem_cons.1 hp with e | hp
                    · subst e; exact hd'
                    · exact hdecs p hp
                  · intro hall
                    obtain ⟨hp, hsv⟩ := hall (path, key, v') (by simp)
                    have hrest := htile (fun p hm => hall p (List.mem_cons_of_mem _ hm))
                    simp only [List.map, pairOf, encPairs, if_true, List.nil_append]
                    rw [encPairs_false f inp _ (by simpa using hne)]
                    rw [hrest]
                    have e := congrArg (fun x => x ++ ([0x2C] ++ t')) (hentry hp hsv)
                    simpa [List.append_assoc] using e
              · rename_i hne
                exact absurd h (hne _ _)
            · injection h with h1 h2; subst h1; subst h2
              exact single
        · cases h
      · cases h

theorem qstep1 (f : Bytes → Bytes) (inp : Bytes) (hf : FixOn f inp) (fuel : Nat)
    (ih2 : Q2 f inp fuel) (ih4 : Q4 f inp fuel) : Q1 f inp (fuel + 1) := by
  intro d s v r hinp h
  unfold cvalue at h
  split at h
  · cases h
  · rename_i b r0
    have hr0 : r0 <:+ inp := (List.suffix_cons b r0).trans hinp
    split at h
    · -- array
      rename_i hb
      have hb : b = 0x5B := by simpa using hb
      subst hb
      split at h
      · cases h
      · split at h
        · rename_i vs comma tr r1 hav
          obtain ⟨t, ht, htile⟩ := ih2 _ _ _ _ _ _ hr0 hav
          split at h
          · rename_i r2
            injection h with h1 h2; subst h2; subst h1
            refine ⟨[0x5B] ++ t ++ [0x5D], by simp [ht], by simp, rfl, ?_⟩
            intro hflat
            simp only [simpleVal] at hflat
            have hb2 := htile hflat
            intro dp ds
            simp only [encodeValue, prefixEncode, suffixEncode, emptyDecor, Decor.new, encRaw, rawText_empty, hf.nil]
            simp only [encRaw] at hb2
            rw [← hb2]; simp
          · cases h
        · cases h
    · split at h
      · -- inline table
        rename_i hb
        have hb : b = 0x7B := by simpa using hb
        subst hb
        split at h
        · cases h
        · split at h
          · rename_i kvs r1 hkv
            obtain ⟨new, t, hkvs, ht, hnil, hcons, hdecs, htile⟩ := ih4 _ _ _ _ _ hr0 hkv
            simp only [List.nil_append] at hkvs
            subst hkvs
            simp only [] at h
            split at h
            · cases h
            · rename_i items htp
              split at h
              · rename_i r2 heq
                injection h with h1' h2; subst h2; subst h1'
                obtain ⟨wp, hwp⟩ := Cst03.dropWs_suffix r1
                have hr1 : r1 <:+ inp := (ht ▸ suffix_of_append t r1).trans hr0
                refine ⟨[0x7B] ++ t ++ wp ++ [0x7D], by rw [ht, ← hwp, heq]; simp, by simp, rfl, ?_⟩
                intro hsv
                simp only [simpleVal, Bool.and_eq_true] at hsv
                have hkv := hsv.2
                obtain ⟨hpaths, hitems⟩ := ctableFromPairs_simple _ _ _ htp (simpleKvs_anyImp _ hkv)
                simp only [List.nil_append] at hitems
                have hmem : ∀ p ∈ kvs, p.1 = [] ∧ simpleVal p.2.2 = true := by
                  intro p hp
                  refine ⟨hpaths p hp, ?_⟩
                  have : pairOf p ∈ items := by rw [hitems]; exact List.mem_map_of_mem (f := fun p => (p.2.1, p.2.2)) hp
                  exact simpleKvs_mem items hkv _ this
                have htext := htile hmem
                have hund : ∀ kv ∈ items, undotted kv.2 = true ∧ ∃ a b, kv.2.decor = Decor.new a b := by
                  intro kv hm
                  refine ⟨simpleVal_undotted _ (simpleKvs_mem items hkv kv hm), ?_⟩
                  rw [hitems] at hm
                  obtain ⟨p, hp, e⟩ := List.mem_map.1 hm
                  subst e
                  exact hdecs p hp
                intro dp ds
                simp only [encodeValue, prefixEncode, suffixEncode, emptyDecor, Decor.new, rawText_empty, encRaw_fix hf]
                rw [encodeInl_simple f inp items 0 _ hund]
                have hmap : items = kvs.map pairOf := hitems
                rw [hmap]
                simp only [beq_self_eq_true]
                rw [htext, rawText_between inp r1 wp (dropWs r1) hr1 hwp.symm]
                by_cases hne : kvs = []
                · subst hne
                  simp [encPairs] at htext
                  subst htext
                  simp
                · have := hcons hne
                  rw [this] at hwp
                  have : wp = [] := by
                    have := congrArg List.length hwp
                    simpa using this
                  subst this
                  simp
              · cases h
          · cases h
      · -- scalar
        split at h
        · rename_i v0 r1 hv
          injection h with h1 h2; subst h2; subst h1
          obtain ⟨hsuf, hlen⟩ := scalar_suffix _ _ _ _ hv
          obtain ⟨t, ht⟩ := hsuf
          refine ⟨t, ht.symm, ?_, rfl, ?_⟩
          · rw [← ht] at hlen; exact length_pos_append t r1 hlen
          · intro _ dp ds
            simp only [encodeValue, prefixEncode, suffixEncode, emptyDecor, Decor.new, encRaw, rawText_empty, hf.nil]
            rw [rawText_between inp (b :: r0) t r1 hinp ht.symm]
            simp
        · cases h
        · cases h

theorem qstep2 (f : Bytes → Bytes) (inp : Bytes) (hf : FixOn f inp) (fuel : Nat) (ih3 : Q3 f inp fuel) : Q2 f inp (fuel + 1) := by
  intro d s vs comma tr r hinp h
  unfold carrayValues at h
  split at h
  · injection h with h1 h2; subst h2
    injection h1 with h1 h3; injection h3 with h3 h4; subst h1; subst h3; subst h4
    refine ⟨[], by simp, ?_⟩
    intro _
    simp [encodeElems, encRaw, rawText_empty, hf.nil]
  · split at h
    · rename_i vs0 r0 hel
      obtain ⟨new, t, hvs, ht, hdec, htile⟩ := ih3 _ _ _ _ _ hinp hel
      simp only [List.nil_append] at hvs
      subst hvs
      have key : ∀ (comma0 : Bool) (r1 : Bytes),
          (comma0 = true → vs0.isEmpty = false ∧ r0 = 0x2C :: r1) → (comma0 = false → r1 = r0) →
          (match wsCommentNewline (List.length r1 + 1) r1 with
            | some r2 => Res.ok (vs0, comma0, rawBetween (List.length inp) r1 r2) r2
            | none => Res.bt) = Res.ok (vs, comma, tr) r →
          ∃ t, s = t ++ r ∧ (simpleVals vs = true →
            (encodeElems f inp vs true ++ if (comma && !vs.isEmpty) = true then [44] else []) ++ encRaw f inp tr = t) := by
        intro comma0 r1 hc1 hc2 h
        split at h
        · rename_i r2 hw
          injection h with h1 h2; subst h2
          injection h1 with h1 h3; injection h3 with h3 h4; subst h1; subst h3; subst h4
          obtain ⟨w, hw2⟩ := wsCommentNewline_suffix _ _ _ hw
          cases comma0 with
          | false =>
            have e := hc2 rfl
            subst e
            refine ⟨t ++ w, by rw [ht, ← hw2]; simp, ?_⟩
            intro hfl
            have hb2 := htile hfl
            have hr1 : r1 <:+ inp := (ht ▸ suffix_of_append t r1).trans hinp
            rw [encRaw_fix hf, rawText_between inp r1 w r2 hr1 hw2.symm, hb2]
            simp
          | true =>
            obtain ⟨hne, e⟩ := hc1 rfl
            refine ⟨t ++ [0x2C] ++ w, by rw [ht, e, ← hw2]; simp, ?_⟩
            intro hfl
            have hb2 := htile hfl
            have hr1 : r1 <:+ inp := ((List.suffix_cons _ r1).trans (e ▸ (ht ▸ suffix_of_append t r0))).trans hinp
            rw [encRaw_fix hf, rawText_between inp r1 w r2 hr1 hw2.symm, hb2]
            simp [hne]
        · cases h
      split at h
      rename_i comma0 r1 heq
      split at heq
      · injection heq with e1 e2; subst e1; subst e2
        exact key false r0 (by intro c; cases c) (fun _ => rfl) h
      · rename_i hvs
        have hvs' : vs0.isEmpty = false := by simpa using hvs
        split at heq
        · rename_i t0
          injection heq with e1 e2; subst e1; subst e2
          exact key true _ (fun _ => ⟨hvs', rfl⟩) (by intro c; cases c) h
        · injection heq with e1 e2; subst e1; subst e2
          exact key false r0 (by intro c; cases c) (fun _ => rfl) h
    · cases h
    · cases h

theorem qstep3 (f : Bytes → Bytes) (inp : Bytes) (hf : FixOn f inp) (fuel : Nat)
    (ih1 : Q1 f inp fuel) (ih3 : Q3 f inp fuel) : Q3 f inp (fuel + 1) := by
  intro d s acc vs r hinp h
  have reset : ∀ {vs r}, (Res.ok acc s : Res (List CVal)) = Res.ok vs r →
      ∃ new t, vs = acc ++ new ∧ s = t ++ r ∧ (∀ v ∈ new, ∃ a b, v.decor = Decor.new a b) ∧
      (simpleVals new = true → encodeElems f inp new true = t) := by
    intro vs r h
    injection h with h1 h2; subst h1; subst h2
    exact ⟨[], [], by simp, by simp, (by intro v hv; cases hv), fun _ => by simp [encodeElems]⟩
  unfold carrayElems at h
  split at h
  · exact reset h
  · rename_i s1 hw1
    obtain ⟨w1, hs1⟩ := wsCommentNewline_suffix _ _ _ hw1
    have hs1inp : s1 <:+ inp := (hs1 ▸ suffix_of_append w1 s1).trans hinp
    split at h
    · cases h
    · exact reset h
    · rename_i v s2 hv
      obtain ⟨tok, htok, _, hdec, hvt⟩ := ih1 _ _ _ _ hs1inp hv
      split at h
      · exact reset h
      · rename_i s3 hw2
        obtain ⟨w2, hs3⟩ := wsCommentNewline_suffix _ _ _ hw2
        simp only [] at h
        have hs2inp : s2 <:+ inp := (htok ▸ suffix_of_append tok s2).trans hs1inp
        generalize hv' : v.setDecor (Decor.new (rawBetween inp.length s s1) (rawBetween inp.length s2 s3)) = v' at h
        have hd' : ∃ a b, v'.decor = Decor.new a b := ⟨_, _, by rw [← hv', setDecor_decor]⟩
        have hf' : simpleVal v' = simpleVal v := by rw [← hv', simpleVal_setDecor]
        have hel : simpleVal v = true → ∀ dp ds, encodeValue f inp v' dp ds = w1 ++ tok ++ w2 := by
          intro hfl dp ds
          rw [← hv', encodeValue_setDecor f hf.nil inp v _ _ hdec dp ds [] [], hvt hfl [] [],
            encRaw_fix hf, encRaw_fix hf,
            rawText_between inp s w1 s1 hinp hs1.symm, rawText_between inp s2 w2 s3 hs2inp hs3.symm]
        have single : ∃ new t, acc ++ [v'] = acc ++ new ∧ s = t ++ s3 ∧ (∀ v ∈ new, ∃ a b, v.decor = Decor.new a b) ∧
            (simpleVals new = true → encodeElems f inp new true = t) := by
          refine ⟨[v'], w1 ++ tok ++ w2, rfl, by rw [← hs1, htok, ← hs3]; simp, ?_, ?_⟩
          · intro x hx; simp at hx; subst hx; exact hd'
          · intro hfl
            simp only [simpleVals, Bool.and_true] at hfl
            simp [encodeElems, hel (hf' ▸ hfl)]
        split at h
        · rename_i s4
          have hs4inp : s4 <:+ inp := (List.suffix_cons _ s4).trans ((hs3 ▸ suffix_of_append w2 _).trans hs2inp)
          split at h
          · rename_i vs' r' hrec
            obtain ⟨new', t', hvs, ht', hdecs, htile⟩ := ih3 _ _ _ _ _ hs4inp hrec
            split at h
            · rename_i hlen
              injection h with h1 h2; subst h1; subst h2
              have : new' = [] := by
                have hl := congrArg List.length hvs
                have : vs'.length = (acc ++ [v']).length := by simpa using hlen
                simp at hl this
                exact List.length_eq_zero_iff.1 (by omega)
              subst this
              rw [hvs, List.append_nil]
              exact single
            · rename_i hlen
              injection h with h1 h2; subst h1; subst h2
              have hne : new' ≠ [] := by
                intro e; subst e
                simp at hvs; subst hvs; simp at hlen
              refine ⟨v' :: new', w1 ++ tok ++ w2 ++ [0x2C] ++ t', by rw [hvs]; simp, ?_, ?_, ?_⟩
              · rw [← hs1, htok, ← hs3, ht']; simp
              · intro x hx
                rcases List.mem_cons.1 hx with hx | hx
                · subst hx; exact hd'
                · exact hdecs x hx
              · intro hfl
                simp only [simpleVals, Bool.and_eq_true] at hfl
                have hb2 := hel (hf' ▸ hfl.1)
                have hc2 := htile hfl.2
                simp only [encodeElems, if_true]
                rw [hb2, encodeElems_false f inp new' hdecs hne, hc2]
                simp
          · rename_i hne
            exact absurd h (hne _ _)
        · injection h with h1 h2; subst h1; subst h2
          exact single

theorem qvalue_main (f : Bytes → Bytes) (inp : Bytes) (hf : FixOn f inp) :
    ∀ fuel : Nat, Q1 f inp fuel ∧ Q2 f inp fuel ∧ Q3 f inp fuel ∧ Q4 f inp fuel := by
  intro fuel
  induction fuel with
  | zero =>
    refine ⟨?_, ?_, ?_, ?_⟩
    · intro d s v r _ h; unfold cvalue at h; cases h
    · intro d s vs comma tr r _ h; unfold carrayValues at h; cases h
    · intro d s acc vs r _ h; unfold carrayElems at h; cases h
    · intro d s acc kvs r _ h; unfold cinlineKeyvals at h; cases h
  | succ fuel ih =>
    obtain ⟨ih1, ih2, ih3, ih4⟩ := ih
    exact ⟨qstep1 f inp hf fuel ih2 ih4, qstep2 f inp hf fuel ih3, qstep3 f inp hf fuel ih1 ih3, qstep4 f inp hf fuel ih1 ih4⟩

/-- the value-level result for values whose inline tables use one-segment keys: what `cvalue`
    consumed is what the printer writes, for any decor transformation fixing the input -/
theorem cvalue_tiling_simple (f : Bytes → Bytes) (inp : Bytes) (hf : FixOn f inp) (fuel d : Nat) (s r : Bytes)
    (v : CVal) (hs : s <:+ inp) (h : cvalue inp.length fuel d s = .ok v r) :
    ∃ t, s = t ++ r ∧ t ≠ [] ∧ v.decor = emptyDecor ∧
      (simpleVal v = true → ∀ dp ds, encodeValue f inp v dp ds = t) :=
  (qvalue_main f inp hf fuel).1 d s v r hs h

end TomlVerif.Lemmas.Tiling03
